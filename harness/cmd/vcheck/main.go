package main

import (
	"encoding/json"
	"flag"
	"fmt"
	"os"
	"runtime"
	"strconv"
	"time"

	"github.com/formancehq/ledger/verifharness/core"

	_ "github.com/formancehq/ledger/verifharness/checks"
)

func main() {
	tier := flag.String("tier", envOr("VERIF_TIER", "quick"), "quick|thorough")
	seedS := flag.String("seed", envOr("VERIF_SEED", "1"), "seed")
	replay := flag.String("replay", "", "replay file")
	verifDir := flag.String("verif", envOr("VERIF_DIR", "/verif"), "verif dir")
	race := flag.Bool("racepart", false, "this binary is the -race build: run the free-running part")
	list := flag.Bool("list", false, "list checks")
	flag.Parse()
	if v := os.Getenv("VERIF_DUMP_AFTER"); v != "" {
		if secs, err := strconv.Atoi(v); err == nil {
			go func() {
				time.Sleep(time.Duration(secs) * time.Second)
				buf := make([]byte, 64<<20)
				n := runtime.Stack(buf, true)
				_ = os.WriteFile(os.Getenv("VERIF_DUMP_FILE"), buf[:n], 0o644)
			}()
		}
	}
	if *list {
		for _, id := range core.IDs() {
			fmt.Println(id)
		}
		return
	}
	if flag.NArg() < 1 {
		fmt.Fprintln(os.Stderr, "usage: vcheck [flags] <ID>")
		os.Exit(2)
	}
	id := flag.Arg(0)
	c := core.Lookup(id)
	if c == nil {
		fmt.Printf("INCONCLUSIVE property=%s reason=no such check\n", id)
		os.Exit(2)
	}
	seed, err := strconv.ParseInt(*seedS, 10, 64)
	if err != nil {
		seed = 1
	}
	if *tier != "thorough" {
		*tier = "quick"
	}
	r := core.NewRun(c, *tier, seed, *verifDir, *race)
	if *replay != "" {
		b, err := os.ReadFile(*replay)
		if err != nil {
			fmt.Printf("INCONCLUSIVE property=%s reason=%v\n", id, err)
			os.Exit(2)
		}
		var rep struct {
			Seed int64  `json:"seed"`
			Tier string `json:"tier"`
			Loop string `json:"loop"`
			Case int    `json:"case"`
		}
		if err := json.Unmarshal(b, &rep); err != nil {
			fmt.Printf("INCONCLUSIVE property=%s reason=%v\n", id, err)
			os.Exit(2)
		}
		r = core.NewRun(c, rep.Tier, rep.Seed, *verifDir, *race)
		r.Only = rep.Case
		r.OnlyLoop = rep.Loop
		c.Run(r)
		os.Exit(r.Finish(false))
	}
	c.Run(r)
	os.Exit(r.Finish(true))
}

func envOr(k, d string) string {
	if v := os.Getenv(k); v != "" {
		return v
	}
	return d
}
