// Package lin records client-boundary histories and checks them with porcupine
// against a small sequential ledger (DESIGN.md appendix B): balances, reverted
// flags, references and the idempotency table. The model never runs /repo code.
package lin

import (
	"encoding/json"
	"fmt"
	"sort"
	"strings"
	"sync"
	"sync/atomic"
	"time"

	"github.com/anishathalye/porcupine"
)

// Transfer is one posting with the allowance of its source.
type Transfer struct {
	Src, Dst, Asset string
	Amount          int64
	Bound           int64 // allowance of Src: 0 default, X for "overdraft up to X", -1 unbounded / force
}

// In is the semantic description of a client request (built by the generator
// together with the request, so the oracle never parses scripts).
type In struct {
	Kind      string // transfer | revert | meta
	Transfers []Transfer
	RevertID  uint64
	Force     bool
	Reference string
	IK        string
	Hash      string // identifies the input for idempotency (same IK + different Hash => mismatch)
	Label     string
}

type Out struct {
	Class string
	Hit   bool
	TxID  uint64
}

// state is serialised canonically so that porcupine can compare with ==.
type state struct {
	Bal      map[string]int64    `json:"b"` // "account|asset"
	Reverted map[string]bool     `json:"r"`
	Refs     map[string]bool     `json:"f"`
	IKs      map[string]string   `json:"k"` // ik -> input hash
	Txs      map[string][]Transfer `json:"t"` // revertable transactions (postings)
}

func (s state) enc() string {
	b, _ := json.Marshal(s) // maps are marshalled with sorted keys
	return string(b)
}

func dec(v any) state {
	var s state
	_ = json.Unmarshal([]byte(v.(string)), &s)
	if s.Bal == nil {
		s.Bal = map[string]int64{}
	}
	if s.Reverted == nil {
		s.Reverted = map[string]bool{}
	}
	if s.Refs == nil {
		s.Refs = map[string]bool{}
	}
	if s.IKs == nil {
		s.IKs = map[string]string{}
	}
	if s.Txs == nil {
		s.Txs = map[string][]Transfer{}
	}
	return s
}

// Init describes the pre-history state.
type Init struct {
	Balances map[string]int64 // "account|asset"
	Txs      map[uint64][]Transfer
	Refs     []string
}

func key(a, as string) string { return a + "|" + as }

var retryable = map[string]bool{"deadlock": true, "ik-conflict": true, "concurrent-transaction": true, "too-many-clients": true}

// apply evaluates in on s sequentially; returns the expected class and mutates s when ok.
func apply(s *state, in In) string {
	switch in.Kind {
	case "meta":
		return "ok"
	case "transfer":
		bal := map[string]int64{}
		get := func(k string) int64 {
			if v, ok := bal[k]; ok {
				return v
			}
			return s.Bal[k]
		}
		for _, t := range in.Transfers {
			sk, dk := key(t.Src, t.Asset), key(t.Dst, t.Asset)
			if t.Src != "world" && t.Bound >= 0 && !in.Force && t.Amount > 0 && get(sk)-t.Amount < -t.Bound {
				return "insufficient-funds"
			}
			bal[sk] = get(sk) - t.Amount
			bal[dk] = get(dk) + t.Amount
		}
		if in.Reference != "" && s.Refs[in.Reference] {
			return "reference-conflict"
		}
		for k, v := range bal {
			s.Bal[k] = v
		}
		if in.Reference != "" {
			s.Refs[in.Reference] = true
		}
		return "ok"
	case "revert":
		id := fmt.Sprint(in.RevertID)
		tx, ok := s.Txs[id]
		if !ok {
			return "not-found"
		}
		if s.Reverted[id] {
			return "already-reverted"
		}
		bal := map[string]int64{}
		get := func(k string) int64 {
			if v, ok := bal[k]; ok {
				return v
			}
			return s.Bal[k]
		}
		srcs := map[string]bool{}
		for i := len(tx) - 1; i >= 0; i-- {
			t := tx[i] // reversed: Dst pays Src
			bal[key(t.Dst, t.Asset)] = get(key(t.Dst, t.Asset)) - t.Amount
			bal[key(t.Src, t.Asset)] = get(key(t.Src, t.Asset)) + t.Amount
			if t.Dst != "world" {
				srcs[key(t.Dst, t.Asset)] = true
			}
		}
		if !in.Force {
			for k := range srcs {
				if get(k) < 0 {
					return "insufficient-funds"
				}
			}
		}
		for k, v := range bal {
			s.Bal[k] = v
		}
		s.Reverted[id] = true
		return "ok"
	}
	return "other"
}

// Model returns the porcupine model for a scenario starting from init.
func Model(init Init) porcupine.Model {
	return porcupine.Model{
		Init: func() any {
			s := dec(`{}`)
			for k, v := range init.Balances {
				s.Bal[k] = v
			}
			for id, tx := range init.Txs {
				s.Txs[fmt.Sprint(id)] = tx
			}
			for _, r := range init.Refs {
				s.Refs[r] = true
			}
			return s.enc()
		},
		Step: func(st, input, output any) (bool, any) {
			in, out := input.(In), output.(Out)
			if out.Class == "pending" { // never returned: may or may not have taken effect
				s := dec(st)
				if apply(&s, in) == "ok" && in.IK != "" {
					s.IKs[in.IK] = in.Hash
				}
				return true, s.enc() // the "no effect" alternative is covered by porcupine trying orders? keep effect variant only when ok
			}
			if retryable[out.Class] {
				return true, st
			}
			s := dec(st)
			if in.IK != "" {
				if h, ok := s.IKs[in.IK]; ok {
					if h == in.Hash {
						return out.Class == "ok" && out.Hit, st
					}
					return out.Class == "ik-input-mismatch", st
				}
			}
			if out.Hit {
				return false, st
			}
			want := apply(&s, in)
			if want != out.Class {
				return false, st
			}
			if want == "ok" && in.IK != "" {
				s.IKs[in.IK] = in.Hash
			}
			if want != "ok" {
				return true, st
			}
			return true, s.enc()
		},
		DescribeOperation: func(input, output any) string {
			in, out := input.(In), output.(Out)
			return fmt.Sprintf("%s -> %s hit=%v", in.Label, out.Class, out.Hit)
		},
	}
}

// Recorder collects the client-boundary history: Call before invoking, Return after the reply.
type Recorder struct {
	mu    sync.Mutex
	clock atomic.Int64
	ops   []porcupine.Operation
}

func (r *Recorder) Call() int64 { return r.clock.Add(1) }

func (r *Recorder) Return(client int, in In, call int64, out Out) {
	ret := r.clock.Add(1)
	r.mu.Lock()
	r.ops = append(r.ops, porcupine.Operation{ClientId: client, Input: in, Call: call, Output: out, Return: ret})
	r.mu.Unlock()
}

func (r *Recorder) Ops() []porcupine.Operation {
	r.mu.Lock()
	defer r.mu.Unlock()
	return append([]porcupine.Operation(nil), r.ops...)
}

// Check returns "ok", "illegal" or "unknown" (checker timeout => inconclusive).
func Check(init Init, ops []porcupine.Operation, timeout time.Duration) (string, string) {
	res, info := porcupine.CheckOperationsVerbose(Model(init), ops, timeout)
	switch res {
	case porcupine.Ok:
		return "ok", ""
	case porcupine.Unknown:
		return "unknown", ""
	}
	_ = info
	var lines []string
	sort.Slice(ops, func(i, j int) bool { return ops[i].Call < ops[j].Call })
	for _, o := range ops {
		in, out := o.Input.(In), o.Output.(Out)
		lines = append(lines, fmt.Sprintf("c%d [%d,%d] %s -> %s hit=%v tx=%d", o.ClientId, o.Call, o.Return, in.Label, out.Class, out.Hit, out.TxID))
	}
	return "illegal", strings.Join(lines, "\n")
}
