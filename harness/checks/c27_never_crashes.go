package checks

import (
	"context"
	"encoding/json"
	"errors"
	"fmt"
	"hash/fnv"
	"math/big"
	"math/rand"
	"os"
	"path/filepath"
	"regexp"
	"runtime/debug"
	"sort"
	"strings"
	"sync/atomic"
	"time"

	"github.com/formancehq/go-libs/v5/pkg/types/metadata"

	ledger "github.com/formancehq/ledger/internal"
	"github.com/formancehq/ledger/internal/machine"
	"github.com/formancehq/ledger/internal/machine/script/compiler"
	"github.com/formancehq/ledger/internal/machine/vm"
	"github.com/formancehq/ledger/internal/machine/vm/program"
	"github.com/formancehq/ledger/verifharness/core"
)

// C27 — Compiling and running any input never crashes.
//
// Refuting events:
//   * a panic in compiler.Compile, in (*CompileErrorList).Error() of the error it
//     returned, in vm.ScriptV1.ToCore, Machine.SetVarsFromJSON, ResolveResources,
//     ResolveBalances, Execute, GetTxMetaJSON/GetAccountsMetaJSON or vm.Run
//     (recovered here; signature = entry point + top /repo frame of the stack);
//   * vm.Run returning an error together with a result that carries postings;
//     (loop `stateful` exercises the state the machine carries across statements
//     and assets: see c27GenStateful);
//   * Machine.Execute returning an error while Machine.Postings (the field a
//     caller of Execute reads the result from) is non-empty — see
//     c27MachinePostingsRefutes.
// A body that does not return within 20 s (wall clock) is reported as
// INCONCLUSIVE with its input, never as a violation. A Go `fatal error` kills
// the process: the in-flight inputs of all workers are on disk under
// <verif>/.build/c27-inflight/ and bin/check reports the crash as inconclusive.

// c27MachinePostingsRefutes: the brief lists "machine.Postings after an Execute
// error" as a refuting event. Machine.Postings is an accumulator that Execute
// never clears, so ANY script that fails after a completed `send` trips it on
// the unchanged tree (e.g. a send followed by `fail`). It has its own
// signature so that it can be triaged (known finding) or switched off here.
const c27MachinePostingsRefutes = false

const c27WatchdogSeconds = 60

var c27Abandoned int64

// c27MaxCommentNesting bounds the depth of nested /* */ comments in generated
// inputs. Measured on the unchanged tree: depth 64 -> 0.7 s, 128 -> 1.7 s,
// 256 (1 KiB of input) -> 5.4 s, ~500 (2.3 KiB) -> 42 s, i.e. an input of a few
// KiB keeps Compile busy for minutes. That is reported to the lead as a finding
// (wall clock can only make the check inconclusive); deeper nests are kept out
// of the main loop so that the rest of the exploration stays meaningful, and
// the scaling is recorded in the evidence by c27CommentNestingProbe.
const c27MaxCommentNesting = 24

const c27MaxRenderedErrors = 30

const c27MaxInputBytes = 16 << 10

func init() {
	core.Register(&core.Check{
		ID: "C27", Level: "exploration",
		Rule: "one case = one input string: raw (random bytes, random printable ASCII, invalid UTF-8, keyword/token soup) or 1-3 stacked token-level mutations of a hand-written corpus of valid programs covering every statement kind of NumScript.g4 " +
			"(delete/duplicate/swap/replace/insert token, edge numbers/portions/assets/accounts/strings, newline drop/insert, truncate, splice of two programs, byte flip, block repetition, deep nesting of sources/destinations/monetaries/comments, type swap and rename in `vars`); also the unmutated corpus. " +
			"Every input is compiled; the returned error is rendered with Error(). Every input that compiles is executed 3 times on fresh machines (stage by stage, and through vm.Run) with variables derived from the program's declared variables " +
			"(well-typed from edge pools, wrong-typed, `null`, empty, huge/float/negative numbers, nested JSON, missing and extra variables; passed directly as map[string]string or as a JSON document through vm.ScriptV1.ToCore) " +
			"over a store with hostile balances (rich, zero, negative, 2^200, missing entries, store error) and metadata for every meta() key of the program (well-formed or malformed for its declared type, or missing). " +
			"Shape = (origin, mutation kinds, compile outcome class, outcome of each stage of the first execution). Non-trivial = the input compiled and was executed. " +
			"Second loop `stateful`: one case = one generated VALID program of 2-6 statements (send incl. `[A *]`, save, set_tx_meta, set_account_meta, print) over 2-3 accounts and 2-3 assets drawn from small pools, so that the same account comes back under another asset and in another role " +
			"(bounded source, `allowing overdraft up to`, `allowing unbounded overdraft`, balance() variable, save, destination; as a literal and through an account variable), with max/in-order/allotment sources, max/in-order/allotment destinations, `kept` and `remaining kept`; " +
			"executed with its own variables over three balance tables (sparse: 40% of the (account, asset) pairs absent; rich; one of one-asset-per-account/full/empty/sparse) served by a store that answers every requested pair (0 when absent), and once under a hostile plan. " +
			"Shape = (feature set of the program, outcome of the first execution). The situations executed are counted from the pairs really present in Machine.Balances after ResolveBalances (stateful_reached_Execute_with:*, stateful_Execute_ok_with:*) and have floors.",
		Assumptions: []string{
			"explored envelope: inputs of at most 16 KiB, nesting depth of sources/destinations/monetaries at most ~3000, at most 24 comment openers `/*` per input, and error lists rendered with Error() only up to 30 errors: beyond these the unchanged tree needs seconds to minutes per input (nested or unbalanced comments: 1 KiB -> 5 s, 2.3 KiB -> 42 s, 64 KiB -> 3 min; Error() of 4.5 KiB of garbage -> 1.5 MiB of text in 5-7 s), which a wall-clock watchdog may only report as inconclusive; the scaling is recorded in the evidence (nested_comment_compile_wall_time_not_a_verdict) and reported to the lead",
			"a store that violates its contract (nil *big.Int balances, nil account with nil error) is out of scope; store errors, missing entries and negative balances are in scope",
			"loop `stateful`: the store answers every requested (account, asset) pair, with 0 for the pairs absent from the balance table, as the production store does; about one table in 18 omits the absent pairs instead and then falls under the rule for stores that omit requested balances (a panic is counted under panics_only_reachable_with_a_store_that_omits_requested_balances, never a verdict); the situation counters (stateful_*_with:*) only count executions over in-contract tables and rely on the generator's own description of the program for roles (source kind, kept, save, destination)",
			"hang detection is a wall-clock watchdog (60 s per input, generous: typical inputs take < 5 ms, the slowest of the envelope 2-8 s on an idle machine); an abandoned input is an inconclusive case (counted and listed in the evidence), more than 5 (quick) / 60 (thorough) of them make the run INCONCLUSIVE; it never yields a violation",
			"Machine.Printer is replaced by a draining printer (the default one writes every `print` to stdout)",
			"Machine.Postings after a failed Execute is treated as `returned result` because the brief says so (constant c27MachinePostingsRefutes); vm.Run's *Result is checked independently",
		},
		Run: runC27,
	})
}

// ---------- corpus ----------

var c27Corpus = []string{
	// 0 simple send
	"send [COIN 100] (\n  source = @world\n  destination = @users:001\n)\n",
	// 1 every variable type, every type into tx meta
	"vars {\n  account $acc\n  asset $ass\n  number $n\n  string $s\n  monetary $m\n  portion $p\n}\nsend $m (\n  source = @world\n  destination = $acc\n)\nset_tx_meta(\"n\", $n)\nset_tx_meta(\"s\", $s)\nset_tx_meta(\"ass\", $ass)\nset_tx_meta(\"p\", $p)\nset_tx_meta(\"m\", $m)\nset_tx_meta(\"acc\", $acc)\n",
	// 2 asset variable inside a monetary literal
	"vars {\n  asset $cur\n  account $dst\n}\nsend [$cur 42] (\n  source = @world\n  destination = $dst\n)\n",
	// 3 meta() of every type, chained
	"vars {\n  account $sale\n  account $seller = meta($sale, \"seller\")\n  portion $commission = meta($seller, \"commission\")\n  number $k = meta($sale, \"count\")\n  string $label = meta($sale, \"label\")\n  asset $cur = meta($sale, \"currency\")\n  monetary $price = meta($sale, \"price\")\n}\nsend $price (\n  source = $sale\n  destination = {\n    $commission to @platform\n    remaining to $seller\n  }\n)\nset_tx_meta(\"k\", $k)\nset_tx_meta(\"label\", $label)\nset_tx_meta(\"cur\", $cur)\n",
	// 4 balance()
	"vars {\n  monetary $bal = balance(@users:001, COIN)\n}\nsend $bal (\n  source = @users:001\n  destination = @bank\n)\n",
	// 5 two balances of the same account
	"vars {\n  monetary $a = balance(@alice, COIN)\n  monetary $b = balance(@alice, USD/2)\n}\nsend $a (\n  source = @alice\n  destination = @bob\n)\nsend $b (\n  source = @alice\n  destination = @bob\n)\n",
	// 6 sources in order, max, bounded overdraft, nesting, world last
	"send [USD/2 1000] (\n  source = {\n    max [USD/2 300] from @a\n    @b allowing overdraft up to [USD/2 100]\n    {\n      @c\n      @d\n    }\n    @world\n  }\n  destination = @dest\n)\n",
	// 7 source allotment
	"send [COIN 99] (\n  source = {\n    10% from @a allowing unbounded overdraft\n    1/3 from {\n      @b\n      @world\n    }\n    remaining from max [COIN 50] from @world\n  }\n  destination = @d\n)\n",
	// 8 destination in order with kept and nested allotment
	"send [COIN 100] (\n  source = @world\n  destination = {\n    max [COIN 10] to @a\n    max [COIN 20] kept\n    remaining to {\n      50% to @b\n      50% kept\n    }\n  }\n)\n",
	// 9 send all
	"send [COIN *] (\n  source = @users:001\n  destination = @bank\n)\n",
	// 10 save
	"save [COIN 10] from @alice\nsave [USD/2 *] from @alice\nsend [COIN *] (\n  source = @alice\n  destination = @bob\n)\n",
	// 11 set_account_meta with every literal type
	"set_account_meta(@alice, \"k\", \"v\")\nset_account_meta(@alice, \"n\", 42)\nset_account_meta(@alice, \"m\", [COIN 3])\nset_account_meta(@alice, \"p\", 25%)\nset_account_meta(@alice, \"a\", USD/2)\nset_account_meta(@alice, \"acc\", @bob)\n",
	// 12 print and arithmetic
	"print 1 + 2 - 3\nprint [COIN 1] + [COIN 2]\nprint \"hello\"\nprint @acc\nprint 1/2\nprint COIN\n",
	// 13 fail
	"fail\n",
	// 14 send then fail
	"send [COIN 1] (\n  source = @world\n  destination = @a\n)\nfail\n",
	// 15 destination before source, unbounded overdraft
	"send [COIN 5] (\n  destination = @b\n  source = @a allowing unbounded overdraft\n)\n",
	// 16 comments
	"/* multi\n /* nested */ comment */\n// line comment\nsend [COIN 1] (\n  source = @world\n  destination = @a\n)\n// trailing\n",
	// 17 monetary arithmetic in send and max
	"vars {\n  monetary $fee\n}\nsend [COIN 100] + $fee - [COIN 1] (\n  source = {\n    max $fee + [COIN 2] from @a\n    @world\n  }\n  destination = @b\n)\n",
	// 18 overdraft limit and source as variables
	"vars {\n  monetary $limit\n  account $src\n}\nsend [COIN 10] (\n  source = $src allowing overdraft up to $limit\n  destination = @x\n)\n",
	// 19 several sends over the same accounts, world as destination
	"send [COIN 10] (\n  source = @world\n  destination = @a\n)\nsend [COIN 4] (\n  source = @a\n  destination = @b\n)\nsend [COIN 4] (\n  source = @b\n  destination = @world\n)\nsend [COIN 7] (\n  source = @a\n  destination = @c\n)\n",
	// 20 allotment with variable portions
	"vars {\n  portion $p\n  portion $q\n}\nsend [EUR/2 1000] (\n  source = @world\n  destination = {\n    $p to @a\n    $q to @b\n    remaining to @c\n  }\n)\n",
	// 21 string escapes
	"set_tx_meta(\"a\\\"b\", \"c\\\\d\")\nset_tx_meta(\"tab\\t\", \"nl\\n\")\nset_tx_meta(\"u\", \"\\u00e9\")\n",
	// 22 big numbers
	"send [COIN 340282366920938463463374607431768211456999] (\n  source = @world\n  destination = @big\n)\nset_tx_meta(\"n\", 115792089237316195423570985008687907853269984665640564039457584007913129639936)\n",
	// 23 decimal percent and spaced fraction
	"send [COIN 1000] (\n  source = @world\n  destination = {\n    12.5% to @a\n    1 / 8 to @b\n    0% to @z\n    remaining to @c\n  }\n)\n",
	// 24 CRLF newlines, dashes/underscores, asset with precision
	"send [USD/2 100] (\r\n  source = @my-src_1:sub-2 allowing unbounded overdraft\r\n  destination = @my_dst-1\r\n)\r\n",
	// 25 blank lines in vars
	"vars {\n  account $a\n\n\n  account $b\n}\n\nsend [COIN 1] (\n  source = $a allowing unbounded overdraft\n  destination = $b\n)\n\n",
	// 26 send all from sources in order
	"send [COIN *] (\n  source = {\n    @a\n    @b\n    max [COIN 5] from @c\n  }\n  destination = @d\n)\n",
	// 27 maxed source at top level
	"send [COIN 5] (\n  source = max [COIN 5] from @a\n  destination = @b\n)\n",
	// 28 balance() with variables
	"vars {\n  asset $cur\n  account $who\n  monetary $b = balance($who, $cur)\n}\nsend $b (\n  source = $who\n  destination = @vault\n)\n",
	// 29 number arithmetic into metadata, account metadata from variables
	"vars {\n  number $n\n  account $who\n  string $why\n}\nset_tx_meta(\"sum\", $n + 1 - 2)\nset_account_meta($who, \"why\", $why)\nset_account_meta($who, \"n\", $n)\n",
	// 30 nested destinations
	"send [COIN 1000] (\n  source = @world\n  destination = {\n    1/2 to {\n      max [COIN 100] to @a\n      remaining to {\n        1/3 to @b\n        2/3 to @c\n      }\n    }\n    1/2 to @d\n  }\n)\n",
	// 32 two balances of the same account, spent from @world and into allotments
	"vars {\n  monetary $a = balance(@alice, COIN)\n  monetary $b = balance(@alice, USD/2)\n}\nsend $a (\n  source = @world\n  destination = {\n    1/2 to @bob\n    remaining kept\n  }\n)\nsend $b (\n  source = {\n    max $b from @alice\n    @world\n  }\n  destination = @bob\n)\n",
	// 33 balance of one account spent from another one
	"vars {\n  monetary $b = balance(@alice, COIN)\n}\nsend $b (\n  source = @treasury\n  destination = @bob\n)\n",
	// 34 the same accounts met again under other assets and in other roles: bounded source, balance(), save,
	// unbounded and bounded overdraft, kept, max, send-all (state carried from statement to statement)
	"vars {\n  monetary $b = balance(@bank, USD/2)\n}\nsend [USD/2 10] (\n  source = @bank\n  destination = @alice\n)\nsave [EUR/2 5] from @bank\nsend [EUR/2 10] (\n  source = @bank allowing unbounded overdraft\n  destination = {\n    max [EUR/2 3] to @alice\n    remaining kept\n  }\n)\nsend [COIN 9] (\n  source = {\n    max [COIN 4] from @alice allowing unbounded overdraft\n    @bank allowing overdraft up to [COIN 50]\n  }\n  destination = {\n    1/3 to @bank\n    1/3 kept\n    remaining to @alice\n  }\n)\nsave [USD/2 *] from @alice\nsend [USD/2 *] (\n  source = {\n    @alice\n    @bank\n  }\n  destination = {\n    max $b kept\n    remaining to @carol\n  }\n)\n",
	// 31 meta + balance + overdraft + save combined
	"vars {\n  account $user\n  account $fees = meta($user, \"fees_account\")\n  portion $rate = meta($fees, \"rate\")\n  monetary $avail = balance($user, EUR/2)\n}\nsave [EUR/2 100] from $user\nsend $avail (\n  source = $user\n  destination = {\n    $rate to $fees\n    remaining kept\n  }\n)\nset_account_meta($user, \"last\", $avail)\n",
}

// c27FixedInvalid: inputs that do not compile, always included (origin "fixed-invalid").
var c27FixedInvalid = []string{
	"print @\r\n",
	"",
	"\n\n",
	"vars {\n}\nfail\n",
	"send [COIN 1] (\n  source = @world\n  destination = @a\n",
	"/* unterminated",
	"send [COIN 1] (\r\n  source = @world\r\n  destination = @\r\n)\r\n",
	"print \"\\q\"\n",
	"send [COIN 1] (\n  source = {\n    50% from @a\n    60% from @b\n  }\n  destination = @c\n)\n",
	"vars {\n  account $a\n  account $a\n}\nfail\n",
}

var c27Vocabulary = []string{
	"vars", "meta", "set_tx_meta", "set_account_meta", "print", "fail", "send", "source", "from", "max", "destination", "to", "allocate", "+", "-", "(", ")", "[", "]", "{", "}", "=",
	"account", "asset", "number", "monetary", "portion", "string", "remaining", "kept", "balance", "save", "%", "*", ",", "\n", "\n", "\n",
	"allowing overdraft up to", "allowing unbounded overdraft", "allowing", "overdraft",
	"$x", "$acc", "$m", "$p", "$n", "$", "@a", "@world", "@users:001", "@", "@a:", "@:a", "COIN", "USD/2", "/", "A//B", "0A", "usd",
	"0", "1", "42", "18446744073709551616", "1/2", "1/0", "0/0", "3/2", "50%", "100%", "101%", "0.0%", "12.5%", "1 / 3",
	"\"k\"", "\"\"", "\"\\q\"", "\"unterminated", "/*", "*/", "//", ";", ":", ".", "\t", "\r\n", "é", "\x00",
}

var c27Tokenizer = regexp.MustCompile(`\$[a-z_]*[a-z0-9_]*|@[a-zA-Z0-9_:-]*|"(?:\\"|[^"\n])*"?|[0-9]+(?:\.[0-9]+)?%|[0-9]+ ?/ ?[0-9]+|[0-9]+|[A-Za-z_/][A-Za-z0-9_/]*|\r?\n|[ \t]+|(?s:.)`)

func c27Tokens(s string) []string { return c27Tokenizer.FindAllString(s, -1) }

func c27IsBlank(t string) bool { return strings.TrimLeft(t, " \t") == "" }

// c27PickIdx returns the index of a random non-blank token.
func c27PickIdx(rng *rand.Rand, toks []string) int {
	for tries := 0; tries < 20; tries++ {
		i := rng.Intn(len(toks))
		if !c27IsBlank(toks[i]) {
			return i
		}
	}
	return rng.Intn(len(toks))
}

var c27EdgeNumbers = []string{"0", "00", "1", "18446744073709551615", "18446744073709551616", "9223372036854775808", "340282366920938463463374607431768211456", strings.Repeat("9", 400), "-1", "1.5", "1e3", "0x10"}
var c27EdgePortions = []string{"0/0", "1/0", "0/1", "1/1", "2/1", "3/2", "1/3", "100%", "100.0%", "101%", "0%", "0.000001%", "99.999999%", "1 / 3", "1/ 3", strings.Repeat("9", 60) + "/" + strings.Repeat("9", 61), "50.%", ".5%"}
var c27EdgeStrings = []string{`""`, `"\q"`, `"\x"`, `"\u12"`, `"a\"b"`, `"` + strings.Repeat("x", 300) + `"`, `"é\t"`, `"\"`, `"'"`}

func c27Nest(rng *rand.Rand, depth int) string {
	switch rng.Intn(5) {
	case 0: // nested in-order sources
		return "send [COIN 1] (\n  source = " + strings.Repeat("{\n", depth) + "@a\n" + strings.Repeat("}\n", depth) + "  destination = @b\n)\n"
	case 1: // nested monetary literals
		return "print " + strings.Repeat("[", depth) + "COIN" + strings.Repeat(" 1]", depth) + "\n"
	case 2: // nested comments (bounded: the lexer's cost grows ~cubically with the depth, see c27CommentNestingProbe)
		if depth > c27MaxCommentNesting {
			depth = 2 + depth%c27MaxCommentNesting
		}
		return strings.Repeat("/*", depth) + " x " + strings.Repeat("*/", depth-rng.Intn(2)) + "\nfail\n"
	case 3: // nested destinations
		return "send [COIN 100] (\n  source = @world\n  destination = " + strings.Repeat("{\n1/2 to @x\n1/2 to ", depth) + "@y\n" + strings.Repeat("}\n", depth) + ")\n"
	default: // long arithmetic chain and nested max
		return "print 1" + strings.Repeat(" + 1 - 1", depth) + "\nsend [COIN 1] (\n  source = " + strings.Repeat("max [COIN 1] from ", depth) + "@a\n  destination = @b\n)\n"
	}
}

type c27Input struct {
	text   string
	origin string // raw:<kind> | corpus | mutation
	kinds  []string
}

func c27GenInput(rng *rand.Rand, idx int) c27Input {
	if idx < len(c27Corpus) {
		return c27Input{text: c27Corpus[idx], origin: "corpus"}
	}
	if idx < len(c27Corpus)+len(c27FixedInvalid) {
		return c27Input{text: c27FixedInvalid[idx-len(c27Corpus)], origin: "fixed-invalid"}
	}
	if rng.Intn(5) == 0 { // raw inputs
		n := rng.Intn(200)
		if rng.Intn(10) == 0 {
			n = rng.Intn(5000)
		}
		b := make([]byte, n)
		switch rng.Intn(5) {
		case 0:
			rng.Read(b)
			return c27Input{text: string(b), origin: "raw:bytes"}
		case 1:
			for i := range b {
				b[i] = byte(32 + rng.Intn(95))
				if rng.Intn(12) == 0 {
					b[i] = '\n'
				}
			}
			return c27Input{text: string(b), origin: "raw:ascii"}
		case 2:
			var sb strings.Builder
			for i := 0; i < n/4; i++ {
				sb.WriteString(c27Vocabulary[rng.Intn(len(c27Vocabulary))])
				if rng.Intn(3) > 0 {
					sb.WriteByte(' ')
				}
			}
			return c27Input{text: sb.String(), origin: "raw:token-soup"}
		case 3:
			var sb strings.Builder
			for i := 0; i < n/3; i++ {
				sb.WriteString([]string{"\xff", "\xc3", "\xe2\x82", "é", "\u2028", "\x00", "\ufeff", "a", " ", "\n", "[", "@"}[rng.Intn(12)])
			}
			return c27Input{text: sb.String(), origin: "raw:invalid-utf8"}
		default:
			// a valid-looking skeleton with random noise lines
			var sb strings.Builder
			for i := 0; i < 1+rng.Intn(6); i++ {
				sb.WriteString(c27Vocabulary[rng.Intn(len(c27Vocabulary))] + " " + c27Vocabulary[rng.Intn(len(c27Vocabulary))] + " " + c27Vocabulary[rng.Intn(len(c27Vocabulary))] + "\n")
			}
			return c27Input{text: sb.String(), origin: "raw:noise-lines"}
		}
	}
	in := c27Input{text: c27Corpus[rng.Intn(len(c27Corpus))], origin: "mutation"}
	for m := 1 + rng.Intn(3); m > 0; m-- {
		toks := c27Tokens(in.text)
		if len(toks) == 0 {
			break
		}
		kind := ""
		switch rng.Intn(22) {
		case 0:
			kind = "delete-token"
			i := c27PickIdx(rng, toks)
			toks = append(toks[:i], toks[i+1:]...)
		case 1:
			kind = "duplicate-token"
			i := c27PickIdx(rng, toks)
			toks = append(toks[:i+1], append([]string{" ", toks[i]}, toks[i+1:]...)...)
		case 2:
			kind = "swap-tokens"
			i, j := c27PickIdx(rng, toks), c27PickIdx(rng, toks)
			toks[i], toks[j] = toks[j], toks[i]
		case 3, 4:
			kind = "replace-token"
			toks[c27PickIdx(rng, toks)] = c27Vocabulary[rng.Intn(len(c27Vocabulary))]
		case 5:
			kind = "insert-token"
			i := rng.Intn(len(toks))
			toks = append(toks[:i+1], append([]string{" " + c27Vocabulary[rng.Intn(len(c27Vocabulary))] + " "}, toks[i+1:]...)...)
		case 6, 7:
			kind = "edge-number"
			c27ReplaceMatching(rng, toks, func(t string) bool { return t != "" && t[0] >= '0' && t[0] <= '9' && !strings.ContainsAny(t, "/%") }, c27EdgeNumbers)
		case 8:
			kind = "edge-portion"
			c27ReplaceMatching(rng, toks, func(t string) bool {
				return strings.ContainsAny(t, "%") || (t != "" && t[0] >= '0' && t[0] <= '9' && strings.Contains(t, "/"))
			}, c27EdgePortions)
		case 9:
			kind = "edge-asset"
			c27ReplaceMatching(rng, toks, func(t string) bool { return t != "" && t[0] >= 'A' && t[0] <= 'Z' }, c28AssetLiterals)
		case 10:
			kind = "edge-account"
			c27ReplaceMatching(rng, toks, func(t string) bool { return strings.HasPrefix(t, "@") }, []string{"@world", "@", "@a:", "@a::b", "@:a", "@" + strings.Repeat("a", 300), "@a:b:c:d:e:f:g:h:i:j", "@-", "@_", "@é", "@users:001", "@alice"})
		case 11:
			kind = "edge-string"
			c27ReplaceMatching(rng, toks, func(t string) bool { return strings.HasPrefix(t, `"`) }, c27EdgeStrings)
		case 12:
			kind = "newline-drop"
			c27ReplaceMatching(rng, toks, func(t string) bool { return strings.HasSuffix(t, "\n") }, []string{" ", "", "\r", "\n\n\n", " \n"})
		case 13:
			kind = "newline-insert"
			i := rng.Intn(len(toks))
			toks = append(toks[:i+1], append([]string{"\n"}, toks[i+1:]...)...)
		case 14:
			kind = "truncate"
			s := strings.Join(toks, "")
			toks = []string{s[:rng.Intn(len(s)+1)]}
		case 15:
			kind = "splice"
			other := c27Tokens(c27Corpus[rng.Intn(len(c27Corpus))])
			i, j := rng.Intn(len(toks)+1), rng.Intn(len(other)+1)
			toks = append(append([]string{}, toks[:i]...), other[j:]...)
		case 16:
			kind = "byte-flip"
			b := []byte(strings.Join(toks, ""))
			if len(b) > 0 {
				for k := 1 + rng.Intn(3); k > 0; k-- {
					b[rng.Intn(len(b))] = byte(rng.Intn(256))
				}
			}
			toks = []string{string(b)}
		case 17:
			kind = "repeat-block"
			s := strings.Join(toks, "")
			reps := 2 + rng.Intn(40)
			if idx := strings.Index(s, "}\n"); idx >= 0 && strings.HasPrefix(s, "vars") {
				toks = []string{s[:idx+2] + strings.Repeat(s[idx+2:], reps)}
			} else {
				toks = []string{strings.Repeat(s, reps)}
			}
		case 18:
			kind = "deep-nest"
			depth := 2 + rng.Intn(60)
			if rng.Intn(12) == 0 {
				depth = 500 + rng.Intn(2500)
			}
			s := c27Nest(rng, depth)
			if rng.Intn(2) == 0 {
				toks = []string{s}
			} else {
				toks = []string{strings.Join(toks, "") + s}
			}
		case 19:
			kind = "type-swap"
			types := []string{"account", "asset", "number", "monetary", "portion", "string"}
			c27ReplaceMatching(rng, toks, func(t string) bool {
				for _, ty := range types {
					if t == ty {
						return true
					}
				}
				return false
			}, types)
		case 20:
			kind = "variable-rename"
			c27ReplaceMatching(rng, toks, func(t string) bool { return strings.HasPrefix(t, "$") }, []string{"$x", "$acc", "$m", "$a", "$b", "$undeclared", "$", "$A", "$1"})
		default:
			kind = "many-variables"
			n := 50 + rng.Intn(400)
			var sb strings.Builder
			sb.WriteString("vars {\n")
			for i := 0; i < n; i++ {
				fmt.Fprintf(&sb, "  %s $v%s\n", []string{"account", "asset", "number", "monetary", "portion", "string"}[rng.Intn(6)], c27Letters(i))
			}
			sb.WriteString("}\n")
			s := strings.Join(toks, "")
			if strings.HasPrefix(s, "vars") {
				s = "fail\n"
			}
			toks = []string{sb.String() + s}
		}
		in.kinds = append(in.kinds, kind)
		in.text = c27Bound(strings.Join(toks, ""))
	}
	return in
}

// c27Bound keeps generated inputs within the explored envelope: at most
// c27MaxInputBytes bytes and at most c27MaxCommentNesting comment openers (the
// lexer's cost explodes with nested or unbalanced `/*`, see c27CommentNestingProbe).
func c27Bound(s string) string {
	if len(s) > c27MaxInputBytes {
		s = s[:c27MaxInputBytes]
	}
	from := 0
	for n := 0; ; n++ {
		i := strings.Index(s[from:], "/*")
		if i < 0 {
			return s
		}
		if n == c27MaxCommentNesting {
			return s[:from+i]
		}
		from += i + 2
	}
}

func c27Letters(i int) string {
	s := ""
	for {
		s = string(rune('a'+i%26)) + s
		i = i/26 - 1
		if i < 0 {
			return s
		}
	}
}

func c27ReplaceMatching(rng *rand.Rand, toks []string, match func(string) bool, pool []string) {
	var idx []int
	for i, t := range toks {
		if match(t) {
			idx = append(idx, i)
		}
	}
	if len(idx) == 0 {
		toks[c27PickIdx(rng, toks)] = pool[rng.Intn(len(pool))]
		return
	}
	toks[idx[rng.Intn(len(idx))]] = pool[rng.Intn(len(pool))]
}

// ---------- variables and store ----------

var c27Hostile = []string{"", "null", "true", "0", "-1", "1e400", "1.5", "18446744073709551616", "{}", `{"a":{"b":[1,2,{}]}}`, "[]", `"quoted"`, " ", "\n", "\x00", "NaN", "USD", "USD 1", "USD -1", "USD", "a:b", "1/0", "3/2", "50%", "é", strings.Repeat("9", 500), "@a", "$x", "COIN 1 2", " COIN 1", "COIN  1", "COIN 1e3", "COIN +5"}

func c27TypedValue(rng *rand.Rand, t machine.Type) string {
	switch t {
	case machine.TypeAccount:
		return c28Pick(rng, []string{"users:001", "alice", "bob", "world", "a:b:c", "bank", "a", "fees"})
	case machine.TypeAsset:
		return c28Pick(rng, []string{"COIN", "USD/2", "EUR/2", "USD", "A"})
	case machine.TypeNumber:
		return c28Pick(rng, []string{"0", "1", "42", "18446744073709551616", "-7", "null", "1e2", "  5"})
	case machine.TypeMonetary:
		return c28Pick(rng, []string{"COIN", "USD/2", "EUR/2"}) + " " + c28Pick(rng, []string{"0", "1", "100", "99999999999999999999999999", "7"})
	case machine.TypePortion:
		return c28Pick(rng, []string{"1/2", "50%", "0%", "100%", "1/3", "0/5", "12.5%", "1/1", "9/10"})
	default:
		return c28Pick(rng, []string{"hello", "", "é", "a\"b", "{}"})
	}
}

func c27Value(rng *rand.Rand, t machine.Type) string {
	switch rng.Intn(10) {
	case 0, 1:
		return c27Hostile[rng.Intn(len(c27Hostile))]
	case 2: // a well-formed value of another type
		return c27TypedValue(rng, machine.Type(1+rng.Intn(6)))
	default:
		return c27TypedValue(rng, t)
	}
}

type c27Plan struct {
	vars        map[string]string
	varsDoc     string // JSON document given to ScriptV1 (when viaToCore)
	viaToCore   bool
	meta        map[string]string
	balanceMode string
	storeErr    string // "" | "balances" | "account"
	runMeta     metadata.Metadata
	// world (stateful workload): when non-nil the store answers from this table
	// like the production store does: EVERY requested (account, asset) pair is
	// answered, absent pairs with 0 (unless worldOmitsAbsent, which is the
	// out-of-contract store of the `missing` balance mode).
	world            map[string]map[string]*big.Int
	worldOmitsAbsent bool
}

func c27MakePlan(rng *rand.Rand, prog *program.Program) c27Plan {
	p := c27Plan{vars: map[string]string{}, meta: map[string]string{}}
	doc := map[string]any{}
	for _, res := range prog.Resources {
		switch v := res.(type) {
		case program.Variable:
			if rng.Intn(25) == 0 {
				continue // missing variable
			}
			val := c27Value(rng, v.Typ)
			p.vars[v.Name] = val
			switch rng.Intn(6) {
			case 0:
				doc[v.Name] = []any{nil, true, 12.5, 1e300, -3, map[string]any{}, []any{1, "a"}, map[string]any{"asset": "COIN", "amount": 1e30}, map[string]any{"asset": nil, "amount": "5"}, map[string]any{"amount": map[string]any{}}}[rng.Intn(10)]
			case 1:
				if v.Typ == machine.TypeMonetary {
					doc[v.Name] = map[string]any{"asset": "COIN", "amount": []any{100, "100", 1.5, -1, 9007199254740993.0}[rng.Intn(5)]}
				} else {
					doc[v.Name] = val
				}
			default:
				doc[v.Name] = val
			}
		case program.VariableAccountMetadata:
			if rng.Intn(10) == 0 {
				continue // missing key
			}
			p.meta[v.Key] = c27Value(rng, v.Typ)
		}
	}
	if rng.Intn(20) == 0 {
		p.vars["extra"] = "1"
		doc["extra"] = 1
	}
	if rng.Intn(3) == 0 {
		p.viaToCore = true
		b, _ := json.Marshal(map[string]any{"plain": "", "vars": doc})
		p.varsDoc = string(b)
	}
	p.balanceMode = []string{"rich", "rich", "zero", "negative", "huge", "missing", "mixed", "mixed"}[rng.Intn(8)]
	switch rng.Intn(30) {
	case 0:
		p.storeErr = "balances"
	case 1:
		p.storeErr = "account"
	}
	if rng.Intn(6) == 0 {
		p.runMeta = metadata.Metadata{[]string{"k", "n", "s", "sum", "label"}[rng.Intn(5)]: "override"}
	}
	return p
}

type c27Store struct {
	plan    c27Plan
	seed    int64
	omitted *bool // set when the store left a requested balance out of its answer
}

func (s c27Store) GetBalances(_ context.Context, q vm.BalanceQuery) (vm.Balances, error) {
	if s.plan.storeErr == "balances" {
		return nil, errors.New("c27: store failure (balances)")
	}
	out := vm.Balances{}
	accs := make([]string, 0, len(q))
	for a := range q {
		accs = append(accs, a)
	}
	sort.Strings(accs)
	if s.plan.world != nil {
		for _, acc := range accs {
			for _, asset := range q[acc] {
				b, present := s.plan.world[acc][asset]
				if !present {
					if s.plan.worldOmitsAbsent {
						*s.omitted = true
						continue
					}
					b = new(big.Int)
				}
				if out[acc] == nil {
					out[acc] = map[string]*big.Int{}
				}
				out[acc][asset] = new(big.Int).Set(b) // the machine aliases what it is given
			}
		}
		return out, nil
	}
	for _, acc := range accs {
		for _, asset := range q[acc] {
			// the answer is a pure function of (plan seed, account, asset): the order in
			// which the machine builds its query (Go map iteration) must not matter
			h := fnv.New64a()
			fmt.Fprintf(h, "%d|%s|%s", s.seed, acc, asset)
			rng := rand.New(rand.NewSource(int64(h.Sum64() >> 1)))
			mode := s.plan.balanceMode
			if mode == "mixed" {
				mode = []string{"rich", "zero", "negative", "huge", "missing", "small"}[rng.Intn(6)]
			}
			if mode == "missing-alice" { // only the balances of @alice are left out
				mode = "rich"
				if acc == "alice" {
					mode = "missing"
				}
			}
			var b *big.Int
			switch mode {
			case "rich":
				b = big.NewInt(1_000_000)
			case "zero":
				b = new(big.Int)
			case "negative":
				b = big.NewInt(-1 - int64(rng.Intn(1000)))
			case "huge":
				b = new(big.Int).Lsh(big.NewInt(1), 200)
			case "small":
				b = big.NewInt(int64(rng.Intn(50)))
			case "missing":
				*s.omitted = true
				continue
			}
			if out[acc] == nil {
				out[acc] = map[string]*big.Int{}
			}
			out[acc][asset] = b
		}
	}
	return out, nil
}

func (s c27Store) GetAccount(_ context.Context, address string) (*ledger.Account, error) {
	if s.plan.storeErr == "account" {
		return nil, errors.New("c27: store failure (account)")
	}
	md := metadata.Metadata{}
	for k, v := range s.plan.meta {
		md[k] = v
	}
	return &ledger.Account{Address: address, Metadata: md}, nil
}

// ---------- panic capture ----------

type c27Panic struct {
	entry, site, value, stack string
}

var c27HexArgs = regexp.MustCompile(`\(.*$`)

// c27Site: function name of the first frame of the code under test after the
// panic machinery in a debug.Stack() dump.
func c27Site(stack []byte) string {
	lines := strings.Split(string(stack), "\n")
	afterPanic := false
	var frames []string
	for _, ln := range lines {
		if strings.HasPrefix(ln, "panic(") {
			afterPanic = true
			continue
		}
		if !afterPanic || strings.HasPrefix(ln, "\t") {
			continue
		}
		if strings.HasPrefix(ln, "github.com/formancehq/ledger/") && !strings.Contains(ln, "/verifharness/") {
			fn := ln
			if i := strings.LastIndex(fn, "("); i > 0 {
				fn = fn[:i]
			}
			fn = strings.TrimPrefix(fn, "github.com/formancehq/ledger/")
			if i := strings.Index(fn, "["); i > 0 { // generic instantiation
				fn = fn[:i]
			}
			frames = append(frames, fn)
			if len(frames) == 2 {
				break
			}
		}
	}
	if len(frames) > 0 {
		return strings.Join(frames, "<-") // top /repo frame <- its caller
	}
	return "<no /repo frame>"
}

func c27Guard(entry string, f func()) (p *c27Panic) {
	defer func() {
		if v := recover(); v != nil {
			st := debug.Stack()
			p = &c27Panic{entry: entry, site: c27Site(st), value: fmt.Sprint(v), stack: string(st)}
			if len(p.stack) > 6000 {
				p.stack = p.stack[:6000]
			}
			if len(p.value) > 300 {
				p.value = p.value[:300]
			}
		}
	}()
	f()
	return nil
}

func c27Drain(c chan machine.Value) {
	for range c {
	}
}

var c27Quoted = regexp.MustCompile(`'[^']*'|"[^"]*"|` + "`[^`]*`")

func c27ErrClass(err error) string {
	if err == nil {
		return "ok"
	}
	var msg string
	var cel *compiler.CompileErrorList
	if errors.As(err, &cel) { // never render a CompileErrorList here: its Error() is code under test
		if len(cel.Errors) == 0 {
			return "compile error list without errors"
		}
		msg = cel.Errors[0].Msg
		switch {
		case strings.HasPrefix(msg, "mismatched input"), strings.HasPrefix(msg, "extraneous input"), strings.HasPrefix(msg, "missing "), strings.HasPrefix(msg, "no viable alternative"), strings.HasPrefix(msg, "token recognition error"):
			return "syntax: " + strings.SplitN(msg, " ", 3)[0] + " " + strings.SplitN(msg+" ", " ", 3)[1]
		}
	} else {
		msg = err.Error()
	}
	msg = c27Quoted.ReplaceAllString(msg, "_")
	msg = c24Digits.ReplaceAllString(msg, "N")
	if i := strings.Index(msg, "\n"); i >= 0 {
		msg = msg[:i]
	}
	words := strings.Fields(msg)
	if len(words) > 9 {
		words = words[:9]
	}
	return strings.Join(words, " ")
}

// ---------- execution of one compiled program under one plan ----------

type c27Outcome struct {
	stage string // vars | resources | balances | execute | ok | panic
	class string
	// tracked (world plans only): the (account, asset) pairs present in
	// Machine.Balances right after ResolveBalances, i.e. the state the machine
	// carries from statement to statement; nil when that stage was not reached
	tracked map[string]map[string]bool
}

func c27Execute(c *core.Case, r *core.Run, in c27Input, prog *program.Program, plan c27Plan, planNo int, storeSeed int64) c27Outcome {
	detail := func(extra map[string]any) map[string]any {
		d := map[string]any{"input": in.text, "origin": in.origin, "mutations": in.kinds, "plan": planNo, "vars": plan.vars, "vars_document": plan.varsDoc,
			"account_metadata": plan.meta, "balance_mode": plan.balanceMode, "store_error": plan.storeErr, "run_metadata": plan.runMeta}
		if plan.world != nil {
			bal := map[string]map[string]string{}
			for a, m := range plan.world {
				bal[a] = map[string]string{}
				for as, b := range m {
					bal[a][as] = b.String()
				}
			}
			d["balances"] = bal
			d["balances_absent_pairs_answered_with_zero"] = !plan.worldOmitsAbsent
		}
		for k, v := range extra {
			d[k] = v
		}
		return d
	}
	omitted := false
	report := func(p *c27Panic) c27Outcome {
		r.Seen("panic_sites", p.entry+" @ "+p.site)
		r.Count("panics", 1)
		tag := ""
		if omitted {
			// the production store always answers every requested (account, asset); keep these apart for triage
			tag = "+store-omitted-a-requested-balance"
		}
		if omitted {
			// The production store always answers every requested (account, asset)
			// pair (storage/ledger/balances.go fills zeros): a store that omits one is
			// outside "any balances". Counted, not a verdict.
			c.R.Count("panics_only_reachable_with_a_store_that_omits_requested_balances", 1)
			c.R.Seen("store_contract_panic_sites", p.site)
			return c27Outcome{stage: "panic", class: p.entry}
		}
		c.Violation("C27/panic:"+p.entry+":"+p.site+tag, detail(map[string]any{"panic": p.value, "stack": p.stack, "store_omitted_a_requested_balance": omitted}))
		return c27Outcome{stage: "panic", class: p.entry}
	}
	store := c27Store{plan: plan, seed: storeSeed, omitted: &omitted}

	vars := map[string]string{}
	for k, v := range plan.vars {
		vars[k] = v
	}
	if plan.viaToCore {
		var v1 vm.ScriptV1
		if err := json.Unmarshal([]byte(plan.varsDoc), &v1); err == nil {
			var coreScript vm.Script
			if p := c27Guard("ScriptV1.ToCore", func() { coreScript = v1.ToCore() }); p != nil {
				return report(p)
			}
			vars = coreScript.Vars
			r.Count("vars_through_ScriptV1_ToCore", 1)
		}
	}
	copyVars := func() map[string]string {
		out := map[string]string{}
		for k, v := range vars {
			out[k] = v
		}
		return out
	}

	// --- A: stage by stage
	m := vm.NewMachine(*prog)
	m.Printer = c27Drain
	var err error
	out := c27Outcome{stage: "ok", class: "ok"}
	var tracked map[string]map[string]bool
	stages := []struct {
		name string
		f    func() error
	}{
		{"SetVarsFromJSON", func() error { return m.SetVarsFromJSON(copyVars()) }},
		{"ResolveResources", func() error { return m.ResolveResources(context.Background(), store) }},
		{"ResolveBalances", func() error { return m.ResolveBalances(context.Background(), store) }},
		{"Execute", func() error { return m.Execute() }},
	}
	for _, st := range stages {
		st := st
		if p := c27Guard(st.name, func() { err = st.f() }); p != nil {
			return report(p)
		}
		if err != nil {
			out = c27Outcome{stage: st.name, class: c27ErrClass(err), tracked: tracked}
			r.Count("executions_error_at_"+st.name, 1)
			r.Seen("execution_error_classes", st.name+": "+out.class)
			if st.name == "Execute" && len(m.Postings) > 0 {
				r.Count("execute_errors_with_accumulated_Machine.Postings", 1)
				if c27MachinePostingsRefutes {
					c.Violation("C27/partial-postings:Machine.Postings-non-empty-after-Execute-error", detail(map[string]any{"error": err.Error(), "machine_postings": len(m.Postings)}))
				}
			}
			break
		}
		if st.name == "ResolveBalances" && plan.world != nil {
			tracked = map[string]map[string]bool{}
			for a, perAsset := range m.Balances {
				tracked[string(a)] = map[string]bool{}
				for as := range perAsset {
					tracked[string(a)][string(as)] = true
				}
			}
			out.tracked = tracked
		}
	}
	if err == nil {
		r.Count("executions_ok", 1)
		r.Count("postings_produced", int64(len(m.Postings)))
		if p := c27Guard("GetTxMetaJSON", func() { _ = m.GetTxMetaJSON(); _ = m.GetAccountsMetaJSON() }); p != nil {
			return report(p)
		}
	}

	// --- B: fresh machine through vm.Run (only when the preparation succeeds)
	m2 := vm.NewMachine(*prog)
	m2.Printer = c27Drain
	var perr error
	if p := c27Guard("vm.Run/prepare", func() {
		if perr = m2.SetVarsFromJSON(copyVars()); perr != nil {
			return
		}
		if perr = m2.ResolveResources(context.Background(), store); perr != nil {
			return
		}
		perr = m2.ResolveBalances(context.Background(), store)
	}); p != nil {
		return report(p)
	}
	if perr == nil {
		var res *vm.Result
		var rerr error
		if p := c27Guard("vm.Run", func() { res, rerr = vm.Run(m2, vm.RunScript{Metadata: plan.runMeta}) }); p != nil {
			if strings.Contains(p.stack, "vm.(*Machine).Execute(") {
				p.entry = "Execute" // vm.Run only wraps Execute: same finding as on the stage-by-stage path
			}
			return report(p)
		}
		r.Count("vm_run_calls", 1)
		if rerr != nil {
			r.Count("vm_run_errors", 1)
			r.Seen("vm_run_error_classes", c27ErrClass(rerr))
			if res != nil && len(res.Postings) > 0 {
				c.Violation("C27/partial-postings:vm.Run-returned-error-and-postings", detail(map[string]any{"error": rerr.Error(), "postings": len(res.Postings)}))
			}
			if res != nil {
				r.Count("vm_run_error_with_non_nil_result", 1)
			}
		} else if res == nil {
			c.Violation("C27/vm.Run-returned-nil-result-and-nil-error", detail(nil))
		}
	}
	return out
}

// ---------- the check ----------

func runC27(r *core.Run) {
	r.Floor("distinct_nontrivial", 300)
	r.Floor("compile_ok", 3000)
	r.Floor("compile_error", 3000)
	r.Floor("executions_ok", 2000)
	r.Floor("corpus_programs_compiled", int64(len(c27Corpus)))
	r.Floor("origins", 8)
	r.Floor("mutation_kinds", 20)
	r.Floor("execution_error_classes", 25)

	dir := filepath.Join(r.VerifDir, ".build", "c27-inflight")
	_ = os.RemoveAll(dir)
	_ = os.MkdirAll(dir, 0o755)
	nslots := 256
	slots := make(chan int, nslots)
	for i := 0; i < nslots; i++ {
		slots <- i
	}
	r.Extra("inflight_dir", dir)

	c27CommentNestingProbe(r)

	// guarded runs one case body under the in-flight file + watchdog regime
	guarded := func(c *core.Case, in c27Input, body func()) {
		slot := <-slots
		file := filepath.Join(dir, fmt.Sprintf("%03d.txt", slot))
		_ = os.WriteFile(file, []byte(fmt.Sprintf("check=C27 seed=%d tier=%s loop=%s case=%d origin=%s mutations=%v\n-----\n%s", r.Seed, r.Tier, c.Loop, c.Index, in.origin, in.kinds, in.text)), 0o644)

		done := make(chan struct{})
		go func() {
			defer close(done)
			defer func() {
				if p := recover(); p != nil {
					r.Inconclusive(fmt.Sprintf("harness panic in %s[%d]: %v\n%s", c.Loop, c.Index, p, debug.Stack()))
				}
			}()
			body()
		}()
		timer := time.NewTimer(c27WatchdogSeconds * time.Second)
		select {
		case <-done:
			timer.Stop()
			slots <- slot
		case <-timer.C:
			// keep the file (under a name that is not reused) and abandon the goroutine
			hung := filepath.Join(dir, fmt.Sprintf("HUNG-%s-case-%d.txt", c.Loop, c.Index))
			_ = os.Rename(file, hung)
			txt := in.text
			if len(txt) > 1500 {
				txt = txt[:1500] + "...(truncated, full input in " + hung + ")"
			}
			// one abandoned input is an inconclusive CASE (counted, listed); the run as a whole only becomes
			// inconclusive when more than a handful are abandoned (a loaded machine stretches the slowest
			// deep-nesting inputs, 2-8 s alone, past any fixed deadline)
			msg := fmt.Sprintf("watchdog: %s[%d] (origin %s %v) did not return within %d s of wall clock; input: %q", c.Loop, c.Index, in.origin, in.kinds, c27WatchdogSeconds, txt)
			r.Count("watchdog_fired", 1)
			r.Seen("inconclusive_cases_abandoned_by_the_watchdog", fmt.Sprintf("%s[%d] origin %s %v", c.Loop, c.Index, in.origin, in.kinds))
			if n := atomic.AddInt64(&c27Abandoned, 1); n > int64(r.N(5, 60)) {
				r.Inconclusive(msg)
			}
			slots <- slot
		}
	}

	r.ForEach("main", r.N(60_000, 1_200_000), 0, func(c *core.Case) {
		in := c27GenInput(c.Rng, c.Index)
		in.text = c27Bound(in.text)
		guarded(c, in, func() { c27Body(c, r, in) })
	})

	// stateful: valid multi-statement programs that reuse a small set of accounts
	// across different assets (state carried by the machine between statements)
	c27StatefulFloors(r)
	r.ForEach("stateful", r.N(20_000, 200_000), 0, func(c *core.Case) {
		sp := c27GenStateful(c.Rng)
		in := c27Input{text: sp.text, origin: "generated:stateful"}
		guarded(c, in, func() { c27StatefulBody(c, r, in, sp) })
	})
	// normal completion: nothing is in flight any more
	if entries, err := os.ReadDir(dir); err == nil {
		for _, e := range entries {
			if !strings.HasPrefix(e.Name(), "HUNG-") {
				_ = os.Remove(filepath.Join(dir, e.Name()))
			}
		}
	}
}

func c27Body(c *core.Case, r *core.Run, in c27Input) {
	rng := c.Rng
	r.Count("inputs", 1)
	r.Count("inputs_"+in.origin, 1)
	r.Seen("origins", in.origin)
	for _, k := range in.kinds {
		r.Seen("mutation_kinds", k)
		r.Count("mutation_"+k, 1)
	}
	r.Count("input_bytes", int64(len(in.text)))

	var prog *program.Program
	var err error
	if p := c27Guard("compiler.Compile", func() { prog, err = compiler.Compile(in.text) }); p != nil {
		r.Seen("panic_sites", p.entry+" @ "+p.site)
		r.Count("panics", 1)
		c.Violation("C27/panic:"+p.entry+":"+p.site, map[string]any{"input": in.text, "origin": in.origin, "mutations": in.kinds, "panic": p.value, "stack": p.stack})
		r.Eval(in.origin+"|panic", false)
		return
	}
	if err != nil {
		r.Count("compile_error", 1)
		r.Count("compile_error_"+in.origin, 1)
		class := c27ErrClass(err)
		r.Seen("compile_error_classes", class)
		if !strings.HasPrefix(class, "syntax:") {
			r.Count("compile_error_after_parsing", 1)
		}
		// the error a caller renders (API error message, logs). Rendering is
		// quadratic in the number of errors (4.5 KiB of garbage -> ~1.5 MiB of text
		// in 5-7 s on the unchanged tree), so it is only done for short lists.
		var cel *compiler.CompileErrorList
		nerr := 0
		if errors.As(err, &cel) {
			nerr = len(cel.Errors)
		}
		if nerr > c27MaxRenderedErrors {
			r.Count("compile_error_lists_not_rendered_too_long", 1)
		} else if p := c27Guard("CompileErrorList.Error", func() { _ = err.Error(); r.Count("compile_error_lists_rendered", 1) }); p != nil {
			r.Seen("panic_sites", p.entry+" @ "+p.site)
			r.Count("panics", 1)
			c.Violation("C27/panic:"+p.entry+":"+p.site, map[string]any{"input": in.text, "origin": in.origin, "mutations": in.kinds, "panic": p.value, "stack": p.stack})
		}
		if prog != nil {
			c.Violation("C27/compile-returned-error-and-program", map[string]any{"input": in.text})
		}
		r.Eval(in.origin+"|"+strings.Join(in.kinds, "+")+"|"+class, false)
		return
	}
	if prog == nil {
		c.Violation("C27/compile-returned-nil-program-and-nil-error", map[string]any{"input": in.text})
		return
	}
	r.Count("compile_ok", 1)
	r.Count("compile_ok_"+in.origin, 1)
	if in.origin == "corpus" {
		r.Count("corpus_programs_compiled", 1)
	}
	nvars, nmeta, nbal := 0, 0, 0
	for _, res := range prog.Resources {
		switch res.(type) {
		case program.Variable:
			nvars++
		case program.VariableAccountMetadata:
			nmeta++
		case program.VariableAccountBalance:
			nbal++
		}
	}
	first := c27Outcome{}
	plans := 3
	if in.origin == "corpus" {
		plans = 40
	}
	for k := 0; k < plans; k++ {
		plan := c27MakePlan(rng, prog)
		storeSeed := rng.Int63()
		if k < 12 && in.origin == "corpus" {
			// seed-independent runs of every corpus program with well-typed values:
			// k=0 rich balances, k=1 every requested balance omitted, k=2.. hostile
			// mixes with fixed store seeds, the last ones with `null` numbers
			plan = c27Plan{vars: map[string]string{}, meta: map[string]string{}, balanceMode: "rich"}
			number := "3"
			switch {
			case k == 1:
				plan.balanceMode = "missing"
			case k == 2:
				plan.balanceMode = "missing-alice"
			case k >= 3:
				plan.balanceMode = "mixed"
				storeSeed = int64(k)
			}
			if k >= 10 {
				number = "null"
			}
			for _, res := range prog.Resources {
				switch v := res.(type) {
				case program.Variable:
					plan.vars[v.Name] = map[machine.Type]string{machine.TypeAccount: "alice", machine.TypeAsset: "COIN", machine.TypeNumber: number, machine.TypeMonetary: "COIN 5", machine.TypePortion: "1/4", machine.TypeString: "s"}[v.Typ]
				case program.VariableAccountMetadata:
					plan.meta[v.Key] = map[machine.Type]string{machine.TypeAccount: "bob", machine.TypeAsset: "COIN", machine.TypeNumber: number, machine.TypeMonetary: "COIN 5", machine.TypePortion: "1/4", machine.TypeString: "s"}[v.Typ]
				}
			}
		}
		out := c27Execute(c, r, in, prog, plan, k, storeSeed)
		r.Count("executions", 1)
		if k == 0 {
			first = out
			if in.origin == "corpus" {
				r.Seen("corpus_clean_run_outcomes", first.stage)
			}
		}
	}
	r.Eval(fmt.Sprintf("%s|%s|v%d|m%d|b%d|%s:%s", in.origin, strings.Join(in.kinds, "+"), c27Min(nvars, 3), c27Min(nmeta, 3), c27Min(nbal, 2), first.stage, first.class), true)
	if c.Index%9973 == 0 || (c.Index >= len(c27Corpus) && c.Index < len(c27Corpus)+3) {
		r.Sample(map[string]any{"origin": in.origin, "mutations": in.kinds, "input": in.text, "first_execution": first.stage + ": " + first.class})
	}
}

func c27Min(a, b int) int {
	if a < b {
		return a
	}
	return b
}

// c27CommentNestingProbe records (evidence only, no verdict) how long Compile
// takes on k-fold nested comments, a few hundred bytes of input.
func c27CommentNestingProbe(r *core.Run) {
	if r.Only >= 0 {
		return
	}
	out := map[string]any{}
	for _, d := range []int{8, 16, 32, 64, 96} {
		src := strings.Repeat("/*", d) + " x " + strings.Repeat("*/", d) + "\nfail\n"
		t := time.Now()
		_, err := compiler.Compile(src)
		out[fmt.Sprintf("depth_%03d_bytes_%d", d, len(src))] = fmt.Sprintf("%.0f ms (compiled=%v)", float64(time.Since(t).Microseconds())/1000, err == nil)
	}
	for _, k := range []int{25, 50, 100} {
		src := strings.Repeat("/* multi\n /* nested */ x\n", k) + "fail\n"
		t := time.Now()
		_, err := compiler.Compile(src)
		out[fmt.Sprintf("unbalanced_openers_%03d_bytes_%d", k, len(src))] = fmt.Sprintf("%.0f ms (compiled=%v)", float64(time.Since(t).Microseconds())/1000, err == nil)
	}
	r.Extra("nested_comment_compile_wall_time_not_a_verdict", out)
}

// ---------- stateful valid programs (loop "stateful") ----------
//
// The machine carries state from statement to statement: Machine.Balances holds
// one map per account the program needs a balance of (bounded source, or target
// of a balance() variable), with one entry per needed asset. Sources with an
// unbounded overdraft, destinations, `save` and the repayment of `kept` funds
// all touch that table for (account, asset) pairs that may or may not be in
// it. This generator therefore writes VALID programs of 2-6 statements over 2-3
// accounts and 2-3 assets, so that the same account is met again under another
// asset and in another role, and runs them over balance tables in which some
// (account, asset) pairs are present and others are not.

var c27SAccountPool = []string{"alice", "bob", "bank:main", "users:001", "fees", "escrow"}
var c27SAssetPool = []string{"USD/2", "EUR/2", "COIN"}

type c27SLeaf struct {
	Account string `json:"account"`
	Mode    string `json:"mode"` // plain | overdraft-bounded | overdraft-unbounded | world
	InMax   bool   `json:"in_max"`
}

type c27SSend struct {
	Asset  string     `json:"asset"`
	All    bool       `json:"all"`
	Leaves []c27SLeaf `json:"sources"`
	Dests  []string   `json:"destinations"`
	Kept   bool       `json:"kept"`
}

type c27SProgram struct {
	text        string
	vars        map[string]string
	world       map[string]map[string]*big.Int
	accounts    []string
	assets      []string
	sends       []c27SSend
	balanceVars [][2]string // (account, asset)
	saves       [][2]string // (account, asset)
	feat        map[string]bool
}

type c27SGen struct {
	rng      *rand.Rand
	p        *c27SProgram
	decls    []string
	accVar   map[string]string // account name -> variable name
	assetVar map[string]string
	balVar   map[string]string // account|asset -> variable name
	nvar     int
	cur      *c27SSend
}

func (g *c27SGen) pct(n int) bool { return g.rng.Intn(100) < n }

func (g *c27SGen) pickAccount() string { return g.p.accounts[g.rng.Intn(len(g.p.accounts))] }

// accountRef renders an account as a literal or (sometimes) as an account
// variable: `$a1` = alice and `@alice` are different resources for the compiler
// (both may be sources of one statement) but the same account for the machine.
func (g *c27SGen) accountRef(name string) string {
	if name != "world" && g.pct(22) {
		v, ok := g.accVar[name]
		if !ok {
			g.nvar++
			v = fmt.Sprintf("a%d", g.nvar)
			g.accVar[name] = v
			g.decls = append(g.decls, "  account $"+v)
			g.p.vars[v] = name
			g.p.feat["account_variable"] = true
		}
		return "$" + v
	}
	return "@" + name
}

func (g *c27SGen) assetRef(asset string) string {
	if g.pct(8) {
		v, ok := g.assetVar[asset]
		if !ok {
			g.nvar++
			v = fmt.Sprintf("c%d", g.nvar)
			g.assetVar[asset] = v
			g.decls = append(g.decls, "  asset $"+v)
			g.p.vars[v] = asset
			g.p.feat["asset_variable"] = true
		}
		return "$" + v
	}
	return asset
}

func (g *c27SGen) amount() string {
	switch x := g.rng.Intn(100); {
	case x < 5:
		return "0"
	case x < 62:
		return fmt.Sprint(1 + g.rng.Intn(30))
	case x < 96:
		return fmt.Sprint(1 + g.rng.Intn(500))
	default:
		return c28Pick(g.rng, []string{"18446744073709551617", "1000000000000000000000000000000", "9223372036854775808"})
	}
}

func (g *c27SGen) balanceVar(acc, asset string) string {
	key := acc + "|" + asset
	if v, ok := g.balVar[key]; ok {
		return "$" + v
	}
	accRef, assetRef := g.accountRef(acc), g.assetRef(asset) // declared before the balance() that reads them
	g.nvar++
	v := fmt.Sprintf("b%d", g.nvar)
	g.balVar[key] = v
	g.decls = append(g.decls, fmt.Sprintf("  monetary $%s = balance(%s, %s)", v, accRef, assetRef))
	g.p.balanceVars = append(g.p.balanceVars, [2]string{acc, asset})
	g.p.feat["balance_variable"] = true
	return "$" + v
}

// monetary renders a monetary expression of the given asset.
func (g *c27SGen) monetary(asset string, allowBalance bool) string {
	var s string
	switch x := g.rng.Intn(100); {
	case x < 10:
		g.nvar++
		v := fmt.Sprintf("m%d", g.nvar)
		g.decls = append(g.decls, "  monetary $"+v)
		g.p.vars[v] = asset + " " + g.amount()
		g.p.feat["monetary_variable"] = true
		s = "$" + v
	case x < 26 && allowBalance:
		s = g.balanceVar(g.pickAccount(), asset)
		g.p.feat["balance_variable_used_as_amount_or_cap"] = true
	default:
		s = "[" + g.assetRef(asset) + " " + g.amount() + "]"
	}
	if g.pct(6) {
		s += " " + c28Pick(g.rng, []string{"+", "+", "-"}) + " [" + asset + " " + fmt.Sprint(g.rng.Intn(5)) + "]"
		g.p.feat["monetary_arithmetic"] = true
	}
	return s
}

func (g *c27SGen) leaf(allowUnbounded bool, used map[string]bool, inMax bool, asset string) string {
	for try := 0; try < 12; try++ {
		name := g.pickAccount()
		if allowUnbounded && g.pct(8) {
			name = "world"
		}
		ref := g.accountRef(name)
		if used[ref] {
			continue
		}
		used[ref] = true
		l := c27SLeaf{Account: name, Mode: "plain", InMax: inMax}
		out := ref
		if name == "world" {
			l.Mode = "world"
		} else {
			switch x := g.rng.Intn(100); {
			case x < 22:
				l.Mode = "overdraft-bounded"
				out += " allowing overdraft up to " + g.monetary(asset, true)
				g.p.feat["overdraft_bounded"] = true
			case x < 55 && allowUnbounded:
				l.Mode = "overdraft-unbounded"
				out += " allowing unbounded overdraft"
				g.p.feat["overdraft_unbounded"] = true
			default:
				g.p.feat["bounded_source"] = true
			}
		}
		g.cur.Leaves = append(g.cur.Leaves, l)
		return out
	}
	return ""
}

// source: an unbounded leaf (world, unbounded overdraft) is only legal in last
// position of an in-order source and never under `send [A *]`, except below a
// `max` (which opens its own scope).
func (g *c27SGen) source(depth int, allowUnbounded bool, used map[string]bool, inMax bool, asset, ind string) string {
	x := g.rng.Intn(100)
	switch {
	case depth < 2 && x < 20:
		sub := g.source(depth+1, true, map[string]bool{}, true, asset, ind)
		if sub == "" {
			return ""
		}
		g.p.feat["max_source"] = true
		if g.pct(45) { // a cap that rarely binds: the statement, and the ones after it, go through
			return "max [" + g.assetRef(asset) + " " + fmt.Sprint(600+g.rng.Intn(5000)) + "] from " + sub
		}
		return "max " + g.monetary(asset, true) + " from " + sub
	case depth < 2 && x < 48:
		n := 1 + g.rng.Intn(3)
		var subs []string
		for i := 0; i < n; i++ {
			if c := g.source(depth+1, allowUnbounded && i == n-1, used, inMax, asset, ind+"  "); c != "" {
				subs = append(subs, c)
			}
		}
		if len(subs) == 0 {
			return ""
		}
		g.p.feat["inorder_source"] = true
		return "{\n" + ind + "  " + strings.Join(subs, "\n"+ind+"  ") + "\n" + ind + "}"
	default:
		return g.leaf(allowUnbounded, used, inMax, asset)
	}
}

var c27SPortionSets = [][]string{
	{"1/2", "1/2"}, {"1/3", "remaining"}, {"10%", "remaining"}, {"25%", "25%", "remaining"}, {"1/4", "3/4"},
	{"12.5%", "1/8", "remaining"}, {"0%", "remaining"}, {"1/3", "1/3", "1/3"}, {"99%", "remaining"}, {"1/9973", "remaining"},
}

func (g *c27SGen) portions() []string {
	set := append([]string{}, c27SPortionSets[g.rng.Intn(len(c27SPortionSets))]...)
	g.rng.Shuffle(len(set), func(i, j int) { set[i], set[j] = set[j], set[i] })
	hasRemaining := false
	for _, p := range set {
		hasRemaining = hasRemaining || p == "remaining"
	}
	if hasRemaining { // portion variables are only legal next to `remaining`
		for i, p := range set {
			if p != "remaining" && g.pct(15) {
				g.nvar++
				v := fmt.Sprintf("p%d", g.nvar)
				g.decls = append(g.decls, "  portion $"+v)
				g.p.vars[v] = p
				set[i] = "$" + v
				g.p.feat["portion_variable"] = true
			}
		}
	}
	return set
}

func (g *c27SGen) keptOrTo(depth int, asset, ind string, remaining bool) string {
	if g.pct(38) {
		g.cur.Kept = true
		g.p.feat["kept"] = true
		if remaining {
			g.p.feat["remaining_kept"] = true
		}
		return "kept"
	}
	return "to " + g.dest(depth+1, asset, ind)
}

func (g *c27SGen) dest(depth int, asset, ind string) string {
	x := g.rng.Intn(100)
	switch {
	case depth < 2 && x < 30:
		out := "{\n"
		for i := g.rng.Intn(3); i > 0; i-- {
			out += ind + "  max " + g.monetary(asset, true) + " " + g.keptOrTo(depth, asset, ind+"  ", false) + "\n"
			g.p.feat["max_destination"] = true
		}
		g.p.feat["inorder_destination"] = true
		return out + ind + "  remaining " + g.keptOrTo(depth, asset, ind+"  ", true) + "\n" + ind + "}"
	case depth < 2 && x < 55:
		out := "{\n"
		for _, p := range g.portions() {
			out += ind + "  " + p + " " + g.keptOrTo(depth, asset, ind+"  ", p == "remaining") + "\n"
		}
		g.p.feat["allotment_destination"] = true
		return out + ind + "}"
	default:
		name := g.pickAccount()
		switch x := g.rng.Intn(100); {
		case x < 25:
			name = c28Pick(g.rng, []string{"dest:1", "dest:2"})
		case x < 30:
			name = "world"
		}
		g.cur.Dests = append(g.cur.Dests, name)
		return g.accountRef(name)
	}
}

func (g *c27SGen) send(asset string) string {
	st := &c27SSend{Asset: asset}
	g.cur = st
	var head, src string
	if g.pct(16) {
		st.All = true
		g.p.feat["send_all"] = true
		head = "[" + g.assetRef(asset) + " *]"
		for try := 0; src == "" && try < 10; try++ {
			st.Leaves = nil
			src = g.source(0, false, map[string]bool{}, false, asset, "  ")
		}
	} else {
		head = g.monetary(asset, true)
		if g.pct(16) {
			ps := g.portions()
			src = "{\n"
			for _, p := range ps {
				var c string
				for c == "" {
					c = g.source(1, true, map[string]bool{}, false, asset, "    ")
				}
				src += "    " + p + " from " + c + "\n"
			}
			src += "  }"
			g.p.feat["allotment_source"] = true
		} else {
			for try := 0; src == "" && try < 10; try++ {
				st.Leaves = nil
				src = g.source(0, true, map[string]bool{}, false, asset, "  ")
			}
		}
	}
	if src == "" {
		acc := g.pickAccount()
		src = "@" + acc
		st.Leaves = []c27SLeaf{{Account: acc, Mode: "plain"}}
	}
	dst := g.dest(0, asset, "  ")
	g.p.sends = append(g.p.sends, *st)
	g.cur = nil
	if g.pct(10) {
		g.p.feat["destination_first"] = true
		return "send " + head + " (\n  destination = " + dst + "\n  source = " + src + "\n)"
	}
	return "send " + head + " (\n  source = " + src + "\n  destination = " + dst + "\n)"
}

func c27SBalance(rng *rand.Rand) *big.Int {
	switch x := rng.Intn(100); {
	case x < 10:
		return new(big.Int)
	case x < 45:
		return big.NewInt(int64(1 + rng.Intn(50)))
	case x < 75:
		return big.NewInt(int64(1 + rng.Intn(2000)))
	case x < 85:
		return big.NewInt(1_000_000)
	case x < 93:
		return big.NewInt(-int64(1 + rng.Intn(300)))
	default:
		return new(big.Int).Lsh(big.NewInt(1), uint(60+rng.Intn(80)))
	}
}

// c27SWorld: balance table over accounts x assets. mode "sparse": every pair is
// absent with probability 40%; "one-asset": every account holds exactly one of
// the assets (an account known for one asset only); "full": every pair present;
// "empty": no pair present; "rich": every pair present and large (statements
// after the first ones are reached; which pairs the machine tracks depends on
// the program only, not on the table).
func c27SWorld(rng *rand.Rand, accounts, assets []string, mode string) map[string]map[string]*big.Int {
	w := map[string]map[string]*big.Int{}
	for _, a := range accounts {
		only := assets[rng.Intn(len(assets))]
		for _, as := range assets {
			switch mode {
			case "sparse":
				if rng.Intn(100) < 40 {
					continue
				}
			case "one-asset":
				if as != only {
					continue
				}
			case "empty":
				continue
			}
			if w[a] == nil {
				w[a] = map[string]*big.Int{}
			}
			if mode == "rich" {
				w[a][as] = big.NewInt(int64(100_000 + rng.Intn(1_000_000)))
				continue
			}
			w[a][as] = c27SBalance(rng)
		}
	}
	return w
}

func c27GenStateful(rng *rand.Rand) *c27SProgram {
	p := &c27SProgram{vars: map[string]string{}, feat: map[string]bool{}}
	g := &c27SGen{rng: rng, p: p, accVar: map[string]string{}, assetVar: map[string]string{}, balVar: map[string]string{}}
	perm := rng.Perm(len(c27SAccountPool))
	for _, i := range perm[:2+rng.Intn(2)] {
		p.accounts = append(p.accounts, c27SAccountPool[i])
	}
	perm = rng.Perm(len(c27SAssetPool))
	for _, i := range perm[:2+rng.Intn(2)] {
		p.assets = append(p.assets, c27SAssetPool[i])
	}
	// balance() variables declared up front (read whether or not a statement uses them)
	for i := rng.Intn(3); i > 0; i-- {
		g.balanceVar(g.pickAccount(), p.assets[rng.Intn(len(p.assets))])
	}
	n := 2 + rng.Intn(5)
	var body []string
	for i := 0; i < n; i++ {
		asset := p.assets[i%len(p.assets)] // consecutive statements change asset
		if g.pct(35) {
			asset = p.assets[rng.Intn(len(p.assets))]
		}
		switch x := rng.Intn(100); {
		case x < 72 || (i == n-1 && len(p.sends) < 2):
			body = append(body, g.send(asset))
		case x < 88:
			acc := g.pickAccount()
			p.saves = append(p.saves, [2]string{acc, asset})
			p.feat["save"] = true
			if g.pct(35) {
				p.feat["save_all"] = true
				body = append(body, "save ["+g.assetRef(asset)+" *] from "+g.accountRef(acc))
			} else {
				body = append(body, "save "+g.monetary(asset, true)+" from "+g.accountRef(acc))
			}
		case x < 94:
			p.feat["set_tx_meta"] = true
			body = append(body, fmt.Sprintf("set_tx_meta(\"k%d\", %s)", i, g.monetary(asset, true)))
		case x < 98:
			p.feat["set_account_meta"] = true
			body = append(body, fmt.Sprintf("set_account_meta(%s, \"k%d\", %s)", g.accountRef(g.pickAccount()), i, g.monetary(asset, true)))
		default:
			p.feat["print"] = true
			body = append(body, "print "+g.monetary(asset, true))
		}
	}
	var sb strings.Builder
	if len(g.decls) > 0 {
		sb.WriteString("vars {\n" + strings.Join(g.decls, "\n") + "\n}\n")
	}
	sb.WriteString(strings.Join(body, "\n") + "\n")
	p.text = sb.String()
	p.world = c27SWorld(rng, p.accounts, p.assets, "sparse")
	return p
}

// c27SCombos names the cross-statement / cross-asset situations one execution
// went through, from the program's description and from the (account, asset)
// pairs the machine really tracked (observed in Machine.Balances).
func c27SCombos(p *c27SProgram, tracked map[string]map[string]bool) map[string]bool {
	out := map[string]bool{}
	partial := func(acc, asset string) bool { return len(tracked[acc]) > 0 && !tracked[acc][asset] }
	for a := range tracked {
		if len(tracked[a]) >= 2 {
			out["account_tracked_for_several_assets"] = true
		}
	}
	roles := map[string]map[string]bool{} // account -> assets it is met with as source / balance() / save
	meet := func(acc, asset string) {
		if acc == "world" {
			return
		}
		if roles[acc] == nil {
			roles[acc] = map[string]bool{}
		}
		roles[acc][asset] = true
	}
	unbounded, kept := false, false
	for _, s := range p.sends {
		kept = kept || s.Kept
		for _, l := range s.Leaves {
			meet(l.Account, s.Asset)
			if l.Mode == "overdraft-unbounded" {
				unbounded = true
			}
			if l.Mode == "overdraft-unbounded" && partial(l.Account, s.Asset) {
				out["unbounded_overdraft_on_account_tracked_for_another_asset_only"] = true
				if s.Kept {
					out["unbounded_overdraft_on_account_tracked_for_another_asset_only+kept_in_that_send"] = true
				}
				if l.InMax {
					out["unbounded_overdraft_on_account_tracked_for_another_asset_only+below_max"] = true
				}
			}
			if l.Mode == "overdraft-unbounded" && tracked[l.Account][s.Asset] {
				out["unbounded_overdraft_on_pair_tracked_through_another_statement"] = true
				if s.Kept {
					out["unbounded_overdraft_on_pair_tracked_through_another_statement+kept_in_that_send"] = true
				}
			}
		}
		for _, d := range s.Dests {
			if partial(d, s.Asset) {
				out["destination_tracked_for_another_asset_only"] = true
			}
			if tracked[d][s.Asset] {
				out["destination_is_a_tracked_pair"] = true
			}
		}
	}
	for _, sv := range p.saves {
		meet(sv[0], sv[1])
		if partial(sv[0], sv[1]) {
			out["save_on_account_tracked_for_another_asset_only"] = true
		}
		if tracked[sv[0]][sv[1]] {
			out["save_on_a_tracked_pair"] = true
		}
	}
	for _, bv := range p.balanceVars {
		meet(bv[0], bv[1])
	}
	for _, assets := range roles {
		if len(assets) >= 2 {
			out["same_account_with_several_assets"] = true
			if unbounded && kept {
				out["same_account_with_several_assets+unbounded_overdraft+kept"] = true
			}
		}
	}
	return out
}

// c27StatefulFloors: a run in which the generator did not produce (and the
// machine did not execute) the cross-statement / cross-asset situations is
// inconclusive, not silent. Quick-tier floors are about a third of what 20 000
// programs yield (seeds 1-5); the thorough tier runs 10 times as many.
func c27StatefulFloors(r *core.Run) {
	r.Floor("stateful_compile_ok", int64(r.N(15_000, 150_000)))
	r.Floor("stateful_programs_reaching_Execute", int64(r.N(12_000, 120_000)))
	r.Floor("stateful_programs_Execute_ok", int64(r.N(6_000, 60_000)))
	for k, min := range map[string]int{
		"same_account_with_several_assets+unbounded_overdraft+kept":                       3000,
		"account_tracked_for_several_assets":                                              4000,
		"unbounded_overdraft_on_account_tracked_for_another_asset_only":                   1200,
		"unbounded_overdraft_on_account_tracked_for_another_asset_only+kept_in_that_send": 600,
		"unbounded_overdraft_on_account_tracked_for_another_asset_only+below_max":         400,
		"unbounded_overdraft_on_pair_tracked_through_another_statement+kept_in_that_send": 1500,
		"destination_tracked_for_another_asset_only":                                      2000,
		"save_on_account_tracked_for_another_asset_only":                                  1000,
		"save_on_a_tracked_pair":                                                          1500,
	} {
		r.Floor("stateful_reached_Execute_with:"+k, int64(r.N(min, min*10)))
	}
	r.Floor("stateful_Execute_ok_with:unbounded_overdraft_on_account_tracked_for_another_asset_only+kept_in_that_send", int64(r.N(350, 3500)))
	r.Floor("stateful_Execute_ok_with:same_account_with_several_assets+unbounded_overdraft+kept", int64(r.N(1500, 15_000)))
	r.Floor("stateful_features", 22)
}

func c27StatefulBody(c *core.Case, r *core.Run, in c27Input, sp *c27SProgram) {
	rng := c.Rng
	counts := map[string]int64{"inputs": 1, "inputs_" + in.origin: 1, "input_bytes": int64(len(in.text))}
	defer func() {
		for k, v := range counts {
			r.Count(k, v)
		}
	}()
	r.Seen("origins", in.origin)

	var prog *program.Program
	var err error
	if p := c27Guard("compiler.Compile", func() { prog, err = compiler.Compile(in.text) }); p != nil {
		r.Seen("panic_sites", p.entry+" @ "+p.site)
		counts["panics"]++
		c.Violation("C27/panic:"+p.entry+":"+p.site, map[string]any{"input": in.text, "origin": in.origin, "panic": p.value, "stack": p.stack})
		r.Eval(in.origin+"|panic", false)
		return
	}
	if err != nil || prog == nil {
		// the generator aims at valid programs: a rejection is recorded, it is not a verdict
		counts["stateful_compile_error"]++
		r.Seen("stateful_compile_error_classes", c27ErrClass(err))
		r.Eval(in.origin+"|compile-error", false)
		return
	}
	counts["stateful_compile_ok"]++
	counts["stateful_statements"] += int64(len(sp.sends) + len(sp.saves))
	feats := make([]string, 0, len(sp.feat))
	for f := range sp.feat {
		feats = append(feats, f)
		r.Seen("stateful_features", f)
		counts["stateful_programs_with:"+f]++
	}
	sort.Strings(feats)

	reached, okRun := false, false
	combosReached, combosOK := map[string]bool{}, map[string]bool{}
	var first c27Outcome
	for k := 0; k < 4; k++ {
		var plan c27Plan
		switch k {
		case 0, 1, 2:
			// the generator's own variables over a store that, like the production one,
			// answers every requested pair (0 for the absent ones)
			plan = c27Plan{vars: sp.vars, meta: map[string]string{}, balanceMode: "world:sparse", world: sp.world}
			if k > 0 {
				mode := "rich"
				if k == 2 {
					mode = []string{"one-asset", "one-asset", "full", "empty", "sparse"}[rng.Intn(5)]
				}
				plan.balanceMode = "world:" + mode
				plan.world = c27SWorld(rng, sp.accounts, sp.assets, mode)
				if rng.Intn(12) == 0 {
					plan.worldOmitsAbsent = true // out-of-contract store: counted, never a verdict
					plan.balanceMode += "+absent-pairs-omitted"
				}
			}
		default:
			plan = c27MakePlan(rng, prog) // hostile variables / balances / store errors
		}
		out := c27Execute(c, r, in, prog, plan, k, rng.Int63())
		counts["executions"]++
		counts["stateful_executions"]++
		if k == 0 {
			first = out
		}
		if plan.world == nil || plan.worldOmitsAbsent || out.tracked == nil {
			continue
		}
		if out.stage != "ok" && out.stage != "Execute" {
			continue
		}
		reached = true
		combos := c27SCombos(sp, out.tracked)
		for cb := range combos {
			combosReached[cb] = true
		}
		if out.stage == "ok" {
			okRun = true
			for cb := range combos {
				combosOK[cb] = true
			}
		} else {
			r.Seen("stateful_Execute_error_classes", out.class)
		}
	}
	if reached {
		counts["stateful_programs_reaching_Execute"]++
	}
	if okRun {
		counts["stateful_programs_Execute_ok"]++
	}
	for cb := range combosReached {
		counts["stateful_reached_Execute_with:"+cb]++
	}
	for cb := range combosOK {
		counts["stateful_Execute_ok_with:"+cb]++
	}
	r.Eval(fmt.Sprintf("%s|%s|%s:%s", in.origin, strings.Join(feats, "+"), first.stage, first.class), true)
	if c.Index < 3 {
		r.Sample(map[string]any{"origin": in.origin, "input": in.text, "vars": sp.vars, "features": feats, "first_execution": first.stage + ": " + first.class})
	}
}
