package checks

import (
	"context"

	"github.com/formancehq/ledger/verifharness/memstore"
)

func simWithClient(ctx context.Context, i int) context.Context { return memstore.WithClient(ctx, i) }
