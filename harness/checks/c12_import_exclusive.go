package checks

import (
	"bufio"
	"bytes"
	"context"
	"encoding/json"
	"fmt"
	"math/rand"
	"os"
	"strings"

	ledger "github.com/formancehq/ledger/internal"
	"github.com/formancehq/ledger/pkg/features"

	"github.com/formancehq/ledger/verifharness/core"
	"github.com/formancehq/ledger/verifharness/memstore"
	"github.com/formancehq/ledger/verifharness/sched"
	"github.com/formancehq/ledger/verifharness/sim"
)

func init() {
	core.Register(&core.Check{
		ID: "C12", Level: "exploration",
		Rule:        "an export of 2-4 logs (half of them from a source whose first 1-3 ids were burnt by dry runs, so that the stream starts at id 2-4; HASH_LOGS disabled on two thirds of the target ledgers, since hash verification refuses any stream appended after foreign logs) is imported into an initializing ledger concurrently with one or two other clients (a create through the controller, an atomic bulk, a non-atomic bulk, a continue-on-failure bulk whose first element fails, a metadata write, or a second import); the import client resolves its controller, yields, then calls Import. Every interleaving at store calls / the ledger advisory lock / COMMITs within 2 (thorough 3) preemptions is enumerated once up to a cap, plus the directed family {client i runs k steps, client j runs to completion, i resumes} for every k, plus random walks, plus free-running under the race detector. Oracles: (serial) the reduced final state (logs, transactions, volumes, ledger state) must equal the result of one of the serial orders of the same operations (a non-atomic bulk counting as one operation per element) executed by the real code; (direct) the ledger never holds native logs below or among imported ones, an accepted import stored all its logs, a refused import stored none, and with HASH_LOGS=SYNC the final log stream re-imports into a fresh ledger (chain intact). Sequential parts: imports after prior histories produced through every write path must be rejected with no effect; imports through a controller resolved BEFORE another request's first write / import (stale controller) must be rejected with no effect, and a stale writer after a complete import must continue its ids. Distinct = (scenario, interleaving hash, outcome vector); non-trivial = at least one client switch while another client was enabled",
		Assumptions: []string{seqAssume, "pg_advisory_lock / pg_advisory_xact_lock on the ledger key exclude each other as modelled"},
		Run:         runC12,
	})
}

// c12Features: the default feature set, HASH_LOGS disabled in two cases out of three.
func c12Features(rng *rand.Rand) features.FeatureSet {
	if rng.Intn(3) == 0 {
		return features.DefaultFeatures.With(features.FeatureHashLogs, "SYNC")
	}
	return features.DefaultFeatures.With(features.FeatureHashLogs, "DISABLED")
}

// c12Export builds a small source ledger and returns its export. burn > 0: that many
// dry runs come first, so that the first log (and transaction) id of the stream is burn+1.
func c12Export(rng *rand.Rand, fs features.FeatureSet, burn int) (string, []ledger.Log) {
	e := sim.NewEnv(sim.Options{})
	defer e.Close()
	_ = e.CreateLedger("src", "_default", fs)
	for i := 0; i < burn; i++ {
		e.Apply("src", sim.Op{Kind: "postings", DryRun: true, Postings: []sim.P{{Source: "world", Destination: "burn", Asset: "USD", Amount: "1"}}})
	}
	e.Apply("src", sim.Op{Kind: "postings", Postings: []sim.P{{Source: "world", Destination: "a", Asset: "USD", Amount: "10"}}, Reference: "imp-1"})
	n := 1 + rng.Intn(3)
	for i := 0; i < n; i++ {
		switch rng.Intn(3) {
		case 0:
			e.Apply("src", sim.Op{Kind: "postings", Postings: []sim.P{{Source: "a", Destination: "b", Asset: "USD", Amount: "2"}}})
		case 1:
			e.Apply("src", sim.Op{Kind: "save_acc_meta", Address: "a", Metadata: map[string]string{"k": fmt.Sprint(i)}})
		case 2:
			e.Apply("src", sim.Op{Kind: "revert", TxID: uint64(1 + burn), Force: true})
		}
	}
	exp := e.Do("POST", "/v2/src/logs/export", nil, nil)
	var logs []ledger.Log
	sc := bufio.NewScanner(bytes.NewReader(exp.Body))
	sc.Buffer(make([]byte, 1<<20), 1<<20)
	for sc.Scan() {
		var l ledger.Log
		if err := json.Unmarshal(sc.Bytes(), &l); err != nil {
			panic(err)
		}
		logs = append(logs, l)
	}
	return string(exp.Body), logs
}

func c12Burn(rng *rand.Rand) int {
	if rng.Intn(2) == 0 {
		return 0
	}
	return 1 + rng.Intn(3)
}

// c12ImportVia streams logs into Import of an already resolved controller.
func c12ImportVia(ctx context.Context, ctrl interface {
	Import(ctx context.Context, stream chan ledger.Log) error
}, logs []ledger.Log) string {
	stream := make(chan ledger.Log, len(logs))
	for _, l := range logs {
		stream <- l
	}
	close(stream)
	if err := ctrl.Import(ctx, stream); err != nil {
		return "import:" + sim.Classify(err)
	}
	return "import:ok"
}

const c12BulkBody = `[{"action":"CREATE_TRANSACTION","data":{"postings":[{"source":"world","destination":"w","asset":"USD","amount":7}]}},{"action":"ADD_METADATA","data":{"targetType":"ACCOUNT","targetId":"w","metadata":{"m":"1"}}}]`

// first element fails (insufficient funds), second is accepted
const c12BulkCofBody = `[{"action":"CREATE_TRANSACTION","data":{"postings":[{"source":"empty","destination":"w","asset":"USD","amount":7}]}},{"action":"CREATE_TRANSACTION","data":{"postings":[{"source":"world","destination":"w","asset":"USD","amount":7}]}}]`

// c12Client runs one client kind on ledger "dst"; returns a short outcome string.
func c12Client(ctx context.Context, e *sim.Env, kind string, logs []ledger.Log) string {
	switch kind {
	case "import":
		ctrl, err := e.Sys.GetLedgerController(ctx, "dst")
		if err != nil {
			return "err:" + err.Error()
		}
		// the request is resolved (ledger row loaded); anything may happen before Import is called
		if s := e.C.Sched; s != nil {
			s.Yield(ctx, "controller-built")
		}
		return c12ImportVia(ctx, ctrl, logs)
	case "create":
		out := e.ApplyCtx(ctx, "dst", sim.Op{Kind: "postings", Postings: []sim.P{{Source: "world", Destination: "w", Asset: "USD", Amount: "7"}}})
		return "create:" + out.Class
	case "meta":
		out := e.ApplyCtx(ctx, "dst", sim.Op{Kind: "save_acc_meta", Address: "w", Metadata: map[string]string{"m": "1"}})
		return "meta:" + out.Class
	case "bulk", "bulk-atomic", "bulk-cof", "bulk#0", "bulk#1", "bulk-cof#0", "bulk-cof#1":
		q, body := "", c12BulkBody
		if kind == "bulk-atomic" {
			q = "?atomic=true"
		}
		if strings.HasPrefix(kind, "bulk-cof") {
			q, body = "?continueOnFailure=true", c12BulkCofBody
		}
		if i := strings.Index(kind, "#"); i > 0 {
			// one element of a non-atomic bulk as a request of its own (serial reference runs only)
			var els []json.RawMessage
			_ = json.Unmarshal([]byte(body), &els)
			body = "[" + string(els[int(kind[i+1]-'0')]) + "]"
		}
		r := e.DoCtx(ctx, "POST", "/v2/dst/_bulk"+q, []byte(body), nil)
		if r.Status == 500 && len(r.Body) == 0 {
			return kind + ":panic"
		}
		var v struct {
			Data []struct {
				ErrorCode string `json:"errorCode"`
			} `json:"data"`
			ErrorCode string `json:"errorCode"`
		}
		_ = json.Unmarshal(r.Body, &v)
		res := fmt.Sprintf("%s:%d", kind, r.Status)
		for _, d := range v.Data {
			if d.ErrorCode != "" {
				res += ":" + d.ErrorCode
			}
		}
		return res
	}
	panic(kind)
}

// c12Wrote: the client outcome says a native write was accepted.
func c12Wrote(out string) bool {
	return strings.HasSuffix(out, ":ok") && !strings.HasPrefix(out, "import:") ||
		strings.HasPrefix(out, "bulk:200") || strings.HasPrefix(out, "bulk-atomic:200") || strings.HasPrefix(out, "bulk-cof:")
}

// reduced state: what must coincide with a serial execution (dates of live writes depend on the logical clock).
func c12Reduce(s *memstore.Snap) string {
	var b strings.Builder
	fmt.Fprintf(&b, "state=%s;", s.State)
	for _, l := range s.Logs {
		fmt.Fprintf(&b, "log %d %s;", l.ID, l.Type)
	}
	for _, t := range s.Transactions {
		fmt.Fprintf(&b, "tx %d %v rev=%v ref=%s;", t.ID, t.Postings, t.RevertedAt != "", t.Reference)
	}
	for _, v := range s.Volumes {
		if v.Input != "0" || v.Output != "0" {
			fmt.Fprintf(&b, "vol %s %s %s/%s;", v.Account, v.Asset, v.Input, v.Output)
		}
	}
	for _, a := range s.Accounts {
		fmt.Fprintf(&b, "acc %s %v;", a.Address, a.Metadata)
	}
	return b.String()
}

func c12Canon(raw []byte) string {
	var v any
	if err := json.Unmarshal(raw, &v); err != nil {
		return string(raw)
	}
	b, _ := json.Marshal(v)
	return string(b)
}

// c12Mix is the direct oracle on a final state: which stored logs are the stream's, which are native.
// Returns a violation class ("" = fine) and the classification.
func c12Mix(s *memstore.Snap, logs []ledger.Log, outs []string) (string, map[string]any) {
	exp := map[uint64]ledger.Log{}
	for _, l := range logs {
		exp[*l.ID] = l
	}
	var imported, native []uint64
	for _, l := range s.Logs {
		x, ok := exp[l.ID]
		if ok {
			pb, _ := json.Marshal(x.Data)
			ok = x.Type.String() == l.Type && c12Canon(pb) == c12Canon([]byte(l.Data))
		}
		if ok {
			imported = append(imported, l.ID)
		} else {
			native = append(native, l.ID)
		}
	}
	nOK := 0
	for _, o := range outs {
		if o == "import:ok" {
			nOK++
		}
	}
	info := map[string]any{"imported_log_ids": imported, "native_log_ids": native, "accepted_imports": nOK, "ledger_state": s.State}
	switch {
	case nOK > 1:
		return "more-than-one-import-accepted", info
	case nOK == 0 && len(imported) > 0:
		return "refused-import-left-logs", info
	case nOK > 0 && len(imported) != len(logs):
		return "accepted-import-did-not-store-all-its-logs", info
	}
	if len(imported) > 0 && len(native) > 0 && native[0] < imported[len(imported)-1] {
		return "ledger-holds-native-logs-below-or-among-imported-logs", info
	}
	var last uint64
	for _, t := range s.Transactions {
		if t.ID <= last {
			return "transaction-ids-not-increasing", info
		}
		last = t.ID
	}
	if len(native) > 0 && s.State != "in-use" {
		return "native-write-accepted-but-ledger-still-initializing", info
	}
	return "", info
}

// c12Chain: with HASH_LOGS=SYNC the final stream of dst must be accepted by a fresh ledger (every stored hash chains from its predecessor).
func c12Chain(e *sim.Env, fs features.FeatureSet) (bool, string) {
	if fs[features.FeatureHashLogs] != "SYNC" {
		return true, ""
	}
	exp := e.Do("POST", "/v2/dst/logs/export", nil, nil)
	if exp.Status != 200 {
		return false, fmt.Sprintf("export status %d: %s", exp.Status, exp.Body)
	}
	if len(bytes.TrimSpace(exp.Body)) == 0 {
		return true, ""
	}
	_ = e.CreateLedger("chk", "chkb", fs)
	imp := e.Do("POST", "/v2/chk/logs/import", exp.Body, map[string]string{"Content-Type": "application/octet-stream"})
	if imp.Status != 204 {
		return false, fmt.Sprintf("import status %d: %s", imp.Status, imp.Body)
	}
	return true, ""
}

// c12Units: the atomic units of a client. The elements of a non-atomic bulk are committed one by one,
// other requests may come in between.
func c12Units(kind string) []string {
	if kind == "bulk" || kind == "bulk-cof" {
		return []string{kind + "#0", kind + "#1"}
	}
	return []string{kind}
}

// c12Orders enumerates the serial orders of the clients' atomic units (per-client order kept); each entry is a client index.
func c12Orders(kinds []string) [][]int {
	left := make([]int, len(kinds))
	total := 0
	for i, k := range kinds {
		left[i] = len(c12Units(k))
		total += left[i]
	}
	var out [][]int
	var rec func(cur []int)
	rec = func(cur []int) {
		if len(cur) == total {
			out = append(out, append([]int(nil), cur...))
			return
		}
		for i := range kinds {
			if left[i] > 0 {
				left[i]--
				rec(append(cur, i))
				left[i]++
			}
		}
	}
	rec(nil)
	return out
}

func c12Serial(order []int, kinds []string, logs []ledger.Log, fs features.FeatureSet) (string, []string) {
	e := sim.NewEnv(sim.Options{})
	defer e.Close()
	_ = e.CreateLedger("dst", "_default", fs)
	outs := make([]string, len(kinds))
	done := make([]int, len(kinds))
	for _, i := range order {
		u := c12Units(kinds[i])[done[i]]
		done[i]++
		o := c12Client(memstore.WithClient(e.Ctx, i), e, u, logs)
		if outs[i] != "" {
			o = outs[i] + "," + o
		}
		outs[i] = o
	}
	return c12Reduce(e.C.Snapshot("dst")), outs
}

var c12WritePaths = []string{"create", "meta", "bulk", "bulk-atomic", "bulk-cof"}

func runC12(r *core.Run) {
	// --- sequential part: import after a prior history through each write path is rejected, no effect
	nSeq, nStale := r.N(100, 2000), r.N(120, 2400)
	if r.RaceMode { // the sequential parts are not what the race detector is for
		nSeq, nStale = r.N(30, 300), r.N(36, 360)
	}
	r.ForEach("seq", nSeq, 0, func(c *core.Case) {
		fs := c12Features(c.Rng)
		burn := c12Burn(c.Rng)
		raw, logs := c12Export(c.Rng, fs, burn)
		e := sim.NewEnv(sim.Options{})
		defer e.Close()
		_ = e.CreateLedger("dst", "_default", fs)
		path := c12WritePaths[c.Index%len(c12WritePaths)]
		first := c12Client(e.Ctx, e, path, logs)
		before := e.C.Snapshot("dst").Digest()
		res := c12Client(e.Ctx, e, "import", logs)
		snap := e.C.Snapshot("dst")
		after := snap.Digest()
		r.Eval("seq|"+path+"|"+first+"|"+res, true)
		r.Count("imports_after_prior_write", 1)
		if burn > 0 {
			r.Count("imports_after_prior_write_with_stream_starting_above_id_1", 1)
		}
		detail := map[string]any{"export": raw, "first": first, "import": res, "features": fs.String(), "burnt_ids_on_source": burn}
		switch cls, info := c12Mix(snap, logs, []string{res}); {
		case res == "import:ok":
			detail["classification"] = info
			c.Violation("C12/import-accepted-after-a-write-via-"+path, detail)
		case before != after:
			c.Violation("C12/rejected-import-changed-the-ledger:after-write-via-"+path, detail)
		case e.C.LedgerState("dst") != "in-use" && c12Wrote(first):
			detail["state"] = e.C.LedgerState("dst")
			c.Violation("C12/ledger-not-in-use-after-accepted-write-via-"+path, detail)
		case cls != "":
			detail["classification"] = info
			c.Violation("C12/"+cls+":sequential:after-write-via-"+path, detail)
		}
		// an import whose logs do not all follow the existing ones
		e2 := sim.NewEnv(sim.Options{})
		defer e2.Close()
		_ = e2.CreateLedger("dst", "_default", fs)
		if r1 := c12Client(e2.Ctx, e2, "import", logs); r1 == "import:ok" {
			b := e2.C.Snapshot("dst").Digest()
			r2 := c12Client(e2.Ctx, e2, "import", logs)
			if r2 == "import:ok" || e2.C.Snapshot("dst").Digest() != b {
				c.Violation("C12/second-import-of-the-same-logs-accepted-or-effective", map[string]any{"export": raw, "second": r2})
			}
		} else {
			c.Violation("C12/import-into-a-pristine-ledger-refused", map[string]any{"export": raw, "import": r1, "features": fs.String(), "burnt_ids_on_source": burn})
		}
	})

	// --- stale controllers: the importing request was resolved (controller built, ledger row loaded:
	// initializing) BEFORE another request's first write / import committed, and calls Import AFTER it.
	r.ForEach("stale", nStale, 0, func(c *core.Case) {
		fs := c12Features(c.Rng)
		burn := c12Burn(c.Rng)
		if c.Index%2 == 0 && burn == 0 {
			burn = 1 + c.Rng.Intn(3)
		}
		raw, logs := c12Export(c.Rng, fs, burn)
		between := append(append([]string{}, c12WritePaths...), "import")[c.Index%(len(c12WritePaths)+1)]
		e := sim.NewEnv(sim.Options{})
		defer e.Close()
		_ = e.CreateLedger("dst", "_default", fs)
		detail := map[string]any{"export": raw, "between": between, "features": fs.String(), "burnt_ids_on_source": burn}
		stale, err := e.Sys.GetLedgerController(e.Ctx, "dst")
		if err != nil {
			r.Inconclusive(err.Error())
			return
		}
		mid := c12Client(e.Ctx, e, between, logs)
		detail["between_outcome"] = mid
		before := e.C.Snapshot("dst").Digest()
		res := c12ImportVia(e.Ctx, stale, logs)
		detail["import"] = res
		snap := e.C.Snapshot("dst")
		r.Eval("stale|"+between+"|"+mid+"|"+res+fmt.Sprintf("|burn=%v|%s", burn > 0, fs[features.FeatureHashLogs]), true)
		r.Count("imports_through_stale_controllers", 1)
		r.Seen("stale_controller_scenarios", fmt.Sprintf("%s burn=%v hash=%s => %s", between, burn > 0, fs[features.FeatureHashLogs], res))
		outs := []string{res}
		if between == "import" {
			outs = append(outs, mid)
		}
		cls, info := c12Mix(snap, logs, outs)
		chainOK, why := c12Chain(e, fs)
		switch {
		case res == "import:ok":
			detail["classification"] = info
			c.Violation("C12/import-through-a-controller-resolved-before-another-request-accepted:after-"+between, detail)
		case snap.Digest() != before:
			c.Violation("C12/refused-import-through-a-stale-controller-changed-the-ledger:after-"+between, detail)
		case cls != "":
			detail["classification"] = info
			c.Violation("C12/"+cls+":stale-controller:after-"+between, detail)
		case !chainOK:
			detail["reimport"] = why
			c.Violation("C12/final-log-stream-does-not-reimport:stale-controller:after-"+between, detail)
		}

		// the other way round: a WRITER resolved before a complete import must observe it (ids continue) or be refused
		e2 := sim.NewEnv(sim.Options{})
		defer e2.Close()
		_ = e2.CreateLedger("dst", "_default", fs)
		w, err := e2.Sys.GetLedgerController(e2.Ctx, "dst")
		if err != nil {
			r.Inconclusive(err.Error())
			return
		}
		imp := c12Client(e2.Ctx, e2, "import", logs)
		op := sim.Op{Kind: "postings", Postings: []sim.P{{Source: "world", Destination: "w", Asset: "USD", Amount: "7"}}}
		if c.Index%3 == 1 {
			op = sim.Op{Kind: "revert", TxID: uint64(1 + burn), Force: true}
		}
		if c.Index%3 == 2 {
			op = sim.Op{Kind: "save_acc_meta", Address: "w", Metadata: map[string]string{"m": "1"}}
		}
		out := sim.ApplyTo(e2.Ctx, w, op)
		s2 := e2.C.Snapshot("dst")
		r.Count("writes_through_stale_controllers_after_an_import", 1)
		d2 := map[string]any{"export": raw, "features": fs.String(), "burnt_ids_on_source": burn, "import": imp, "write": op, "write_outcome": out.Class}
		if out.Err != nil {
			d2["error"] = out.Err.Error()
		}
		alreadyReverted := op.Kind == "revert" && out.Class == sim.CAlreadyReverted
		if imp != "import:ok" {
			c.Violation("C12/import-into-a-pristine-ledger-refused", d2)
		} else if !out.OK() && !alreadyReverted {
			c.Violation("C12/write-through-a-controller-resolved-before-the-import-failed:"+op.Kind+":"+out.Class, d2)
		}
		if cls, info := c12Mix(s2, logs, []string{imp}); cls != "" {
			d2["classification"] = info
			c.Violation("C12/"+cls+":stale-writer-after-import:"+op.Kind, d2)
		}
		if out.OK() && out.Log != nil && *out.Log.ID <= *logs[len(logs)-1].ID {
			c.Violation("C12/write-after-import-did-not-continue-the-log-ids:"+op.Kind, d2)
		}
		if ok, why := c12Chain(e2, fs); !ok {
			d2["reimport"] = why
			c.Violation("C12/final-log-stream-does-not-reimport:stale-writer-after-import:"+op.Kind, d2)
		}
	})

	if r.RaceMode {
		r.ForEach("free", r.N(200, 3000), 8, func(c *core.Case) {
			fs := c12Features(c.Rng)
			_, logs := c12Export(c.Rng, fs, c12Burn(c.Rng))
			kinds := c12Kinds(c.Rng, c.Index)
			e := sim.NewEnv(sim.Options{})
			_ = e.CreateLedger("dst", "_default", fs)
			outs := make([]string, len(kinds))
			bodies := make([]func(ctx context.Context), len(kinds))
			for i := range kinds {
				i := i
				bodies[i] = func(ctx context.Context) { outs[i] = c12Client(ctx, e, kinds[i], logs) }
			}
			runFree(e.Ctx, bodies)
			snap := e.C.Snapshot("dst")
			got := c12Reduce(snap)
			e.Close()
			ok := false
			for _, p := range c12Orders(kinds) {
				if want, _ := c12Serial(p, kinds, logs, fs); want == got {
					ok = true
				}
			}
			r.Eval(fmt.Sprint(kinds, outs), true)
			if !ok {
				c.Violation("C12/final-state-matches-no-serial-order:free-mode:"+strings.Join(kinds, "+"), map[string]any{"kinds": kinds, "outcomes": outs, "got": got})
			}
			if cls, info := c12Mix(snap, logs, outs); cls != "" {
				c.Violation("C12/"+cls+":free-mode:"+strings.Join(kinds, "+"), map[string]any{"kinds": kinds, "outcomes": outs, "classification": info})
			}
		})
		return
	}
	// --- controlled interleavings
	if r.NViolations() > 0 && os.Getenv("VERIF_C12_FORCE_CONC") == "" {
		// already refuted sequentially (known findings do not count): exploring interleavings of a stack
		// whose sequential behaviour is wrong only adds noise (the code under test panics on colliding ids)
		r.Count("concurrent_part_skipped_after_sequential_refutation", 1)
		return
	}
	nsc := r.N(36, 200)
	per := r.N(250, 1200)
	r.Floor("interleavings", int64(nsc*per/4))
	r.ForEach("conc", nsc, 0, func(c *core.Case) {
		fs := c12Features(c.Rng)
		burn := c12Burn(c.Rng)
		if c.Index%2 == 0 && burn == 0 {
			burn = 1 + c.Rng.Intn(3)
		}
		raw, logs := c12Export(c.Rng, fs, burn)
		kinds := c12Kinds(c.Rng, c.Index)
		serial := map[string][]string{}
		for _, p := range c12Orders(kinds) {
			st, outs := c12Serial(p, kinds, logs, fs)
			serial[st] = outs
		}
		if c.Index < 2 {
			r.Sample(map[string]any{"clients": kinds, "export": raw, "serial_outcomes": serial, "features": fs.String(), "burnt_ids_on_source": burn})
		}
		if burn > 0 {
			r.Count("scenarios_with_stream_starting_above_id_1", 1)
		}
		if fs[features.FeatureHashLogs] != "SYNC" {
			r.Count("scenarios_without_log_hashing", 1)
		}
		scen := strings.Join(kinds, "+")
		refuted := false // the scenario is abandoned after its first refuting schedule
		exec := func(ch sched.Chooser) *sched.Sched {
			if r.NViolations() >= 6 {
				refuted = true // enough distinct refutations reported by other scenarios: wind down
			}
			e := sim.NewEnv(sim.Options{})
			defer e.Close()
			_ = e.CreateLedger("dst", "_default", fs)
			outs := make([]string, len(kinds))
			bodies := make([]func(ctx context.Context), len(kinds))
			for i := range kinds {
				i := i
				bodies[i] = func(ctx context.Context) { outs[i] = c12Client(ctx, e, kinds[i], logs) }
			}
			s := sched.New(len(kinds), ch)
			if refuted {
				s.Diverged = true // not run
				return s
			}
			e.C.Sched = s
			s.Run(e.Ctx, bodies)
			e.C.Sched = nil
			r.Count("schedules_run", 1)
			r.Seen("interleavings", fmt.Sprintf("%d/%s", c.Index, s.Hash()))
			switches := 0
			importParkedWhileOtherRan := false
			for _, st := range s.Trace {
				if st.Current >= 0 && st.Chosen != st.Current {
					switches++
					if kinds[st.Current] == "import" {
						importParkedWhileOtherRan = true
					}
				}
			}
			if importParkedWhileOtherRan {
				r.Count("schedules_switching_away_from_a_resolved_import", 1)
			}
			r.Eval(fmt.Sprintf("%d|%s|%v", c.Index, s.Hash(), outs), switches > 0)
			r.Seen("outcome_vectors", scen+" => "+strings.Join(outs, ","))
			detail := map[string]any{"clients": kinds, "outcomes": outs, "export": raw, "interleaving": s.String(), "schedule": s.Choices(), "features": fs.String(), "burnt_ids_on_source": burn}
			if s.Stuck {
				detail["locks"] = e.C.DebugLocks()
				refuted = true
				c.Violation("C12/all-clients-blocked-forever:"+scen, detail)
				return s
			}
			if pend, locks := e.C.PendingLeftovers(); pend != 0 || locks != 0 {
				refuted = true
				c.Violation("C12/open-transaction-or-lock-after-all-clients-returned:"+scen, detail)
			}
			snap := e.C.Snapshot("dst")
			got := c12Reduce(snap)
			// one report per run, the most specific oracle first
			if cls, info := c12Mix(snap, logs, outs); cls != "" {
				detail["classification"] = info
				detail["got"] = got
				refuted = true
				c.Violation("C12/"+cls+":"+scen, detail)
				return s
			}
			if _, ok := serial[got]; !ok {
				detail["got"] = got
				detail["serial_states"] = serial
				refuted = true
				c.Violation("C12/final-state-matches-no-serial-order:"+scen, detail)
				return s
			}
			for i, o := range outs {
				if strings.HasSuffix(o, ":panic") || strings.HasSuffix(o, ":other") {
					detail["client"] = i
					refuted = true
					c.Violation("C12/unexpected-outcome:"+kinds[i]+":"+o, detail)
					return s
				}
			}
			if ok, why := c12Chain(e, fs); !ok {
				detail["reimport"] = why
				refuted = true
				c.Violation("C12/final-log-stream-does-not-reimport:"+scen, detail)
			}
			return s
		}
		// directed family: client i runs k scheduling steps, then client j runs to completion, then the
		// remaining clients, and i resumes last
		for i := range kinds {
			for j := range kinds {
				if i == j {
					continue
				}
				for k := 1; k < 400; k++ {
					ch := &c12Directed{I: i, K: k, J: j}
					s := exec(ch)
					r.Count("directed_single_preemption_schedules", 1)
					if ch.Exhausted || s.Stuck || refuted {
						break
					}
				}
			}
		}
		if refuted {
			return
		}
		x := &sched.Explorer{Bound: r.N(2, 3), MaxRuns: per * 2 / 3, Rng: c.Rng}
		x.Explore(func(prefix []int) *sched.Sched {
			if refuted {
				x.MaxRuns = 0
			}
			return exec(&sched.PrefixChooser{Prefix: prefix})
		})
		if refuted {
			return
		}
		if x.Complete {
			r.Count("scenarios_with_bounded_space_fully_enumerated", 1)
		}
		r.Count("replay_divergences", int64(x.Diverged))
		for i := 0; i < per/3 && !refuted; i++ {
			exec(&sched.RandomChooser{Rng: c.Rng, Switch: 2 + c.Rng.Intn(4)})
		}
	})
}

// c12Directed: client I gets the first K scheduling steps, then J runs while it can, then the other
// clients (smallest id first), and I only when nothing else is enabled.
type c12Directed struct {
	I, K, J   int
	given     int
	Exhausted bool // I finished or blocked before its K steps: larger K add nothing
}

func (d *c12Directed) Choose(step, current int, enabled []int) int {
	has := func(x int) bool {
		for _, e := range enabled {
			if e == x {
				return true
			}
		}
		return false
	}
	if d.given < d.K {
		if has(d.I) {
			d.given++
			return d.I
		}
		d.Exhausted = true
		d.given = d.K
	}
	if has(d.J) {
		return d.J
	}
	for _, e := range enabled {
		if e != d.I {
			return e
		}
	}
	return enabled[0]
}

func c12Kinds(rng *rand.Rand, idx int) []string {
	others := []string{"create", "bulk-atomic", "bulk", "meta", "import", "bulk-cof"}
	kinds := []string{"import", others[idx%len(others)]}
	if rng.Intn(3) == 0 {
		kinds = append(kinds, others[rng.Intn(len(others))])
	}
	return kinds
}
