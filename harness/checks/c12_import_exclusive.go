package checks

import (
	"bufio"
	"bytes"
	"context"
	"encoding/json"
	"fmt"
	"math/rand"
	"strings"

	ledger "github.com/formancehq/ledger/internal"

	"github.com/formancehq/ledger/verifharness/core"
	"github.com/formancehq/ledger/verifharness/memstore"
	"github.com/formancehq/ledger/verifharness/sched"
	"github.com/formancehq/ledger/verifharness/sim"
)

func init() {
	core.Register(&core.Check{
		ID: "C12", Level: "exploration",
		Rule: "an export of 2-4 logs is imported into an initializing ledger concurrently with one or two other clients (a create through the controller, an atomic bulk, a non-atomic bulk, a metadata write, or a second import); every interleaving at store calls / the ledger advisory lock / COMMITs within 2 (thorough 3) preemptions is enumerated once up to a cap, plus random walks, plus free-running under the race detector. Oracle: the reduced final state (logs, transactions, volumes, ledger state) must equal the result of one of the serial orders of the same operations executed by the real code; an accepted import requires the initializing state; a rejected import changes nothing. Sequential part: imports after prior histories produced through every write path must be rejected with no effect. Distinct = (scenario, interleaving hash, outcome vector); non-trivial = at least one client switch while another client was enabled",
		Assumptions: []string{seqAssume, "pg_advisory_lock / pg_advisory_xact_lock on the ledger key exclude each other as modelled"},
		Run:  runC12,
	})
}

type c12Scenario struct {
	Logs    []ledger.Log `json:"-"`
	LogsRaw string       `json:"export"`
	Others  []string     `json:"other_clients"` // kinds
}

func c12Export(rng *rand.Rand) (string, []ledger.Log) {
	e := sim.NewEnv(sim.Options{})
	defer e.Close()
	_ = e.CreateLedger("src", "_default", nil)
	e.Apply("src", sim.Op{Kind: "postings", Postings: []sim.P{{Source: "world", Destination: "a", Asset: "USD", Amount: "10"}}, Reference: "imp-1"})
	n := 1 + rng.Intn(3)
	for i := 0; i < n; i++ {
		switch rng.Intn(3) {
		case 0:
			e.Apply("src", sim.Op{Kind: "postings", Postings: []sim.P{{Source: "a", Destination: "b", Asset: "USD", Amount: "2"}}})
		case 1:
			e.Apply("src", sim.Op{Kind: "save_acc_meta", Address: "a", Metadata: map[string]string{"k": fmt.Sprint(i)}})
		case 2:
			e.Apply("src", sim.Op{Kind: "revert", TxID: 1, Force: true})
		}
	}
	exp := e.Do("POST", "/v2/src/logs/export", nil, nil)
	var logs []ledger.Log
	sc := bufio.NewScanner(bytes.NewReader(exp.Body))
	sc.Buffer(make([]byte, 1<<20), 1<<20)
	for sc.Scan() {
		var l ledger.Log
		if err := json.Unmarshal(sc.Bytes(), &l); err != nil {
			panic(err)
		}
		logs = append(logs, l)
	}
	return string(exp.Body), logs
}

// c12Client runs one client kind on ledger "dst"; returns a short outcome string.
func c12Client(ctx context.Context, e *sim.Env, kind string, logs []ledger.Log) string {
	switch kind {
	case "import":
		ctrl, err := e.Sys.GetLedgerController(ctx, "dst")
		if err != nil {
			return "err:" + err.Error()
		}
		stream := make(chan ledger.Log, len(logs))
		for _, l := range logs {
			stream <- l
		}
		close(stream)
		if err := ctrl.Import(ctx, stream); err != nil {
			return "import:" + sim.Classify(err)
		}
		return "import:ok"
	case "create":
		out := e.ApplyCtx(ctx, "dst", sim.Op{Kind: "postings", Postings: []sim.P{{Source: "world", Destination: "w", Asset: "USD", Amount: "7"}}})
		return "create:" + out.Class
	case "meta":
		out := e.ApplyCtx(ctx, "dst", sim.Op{Kind: "save_acc_meta", Address: "w", Metadata: map[string]string{"m": "1"}})
		return "meta:" + out.Class
	case "bulk", "bulk-atomic":
		q := ""
		if kind == "bulk-atomic" {
			q = "?atomic=true"
		}
		r := e.DoCtx(ctx, "POST", "/v2/dst/_bulk"+q, []byte(`[{"action":"CREATE_TRANSACTION","data":{"postings":[{"source":"world","destination":"w","asset":"USD","amount":7}]}},{"action":"ADD_METADATA","data":{"targetType":"ACCOUNT","targetId":"w","metadata":{"m":"1"}}}]`), nil)
		if r.Status == 500 && len(r.Body) == 0 {
			return kind + ":panic"
		}
		var v struct {
			Data []struct {
				ErrorCode string `json:"errorCode"`
			} `json:"data"`
			ErrorCode string `json:"errorCode"`
		}
		_ = json.Unmarshal(r.Body, &v)
		res := fmt.Sprintf("%s:%d", kind, r.Status)
		for _, d := range v.Data {
			if d.ErrorCode != "" {
				res += ":" + d.ErrorCode
			}
		}
		return res
	}
	panic(kind)
}

// reduced state: what must coincide with a serial execution (dates of live writes depend on the logical clock).
func c12Reduce(s *memstore.Snap) string {
	var b strings.Builder
	fmt.Fprintf(&b, "state=%s;", s.State)
	for _, l := range s.Logs {
		fmt.Fprintf(&b, "log %d %s;", l.ID, l.Type)
	}
	for _, t := range s.Transactions {
		fmt.Fprintf(&b, "tx %d %v rev=%v ref=%s;", t.ID, t.Postings, t.RevertedAt != "", t.Reference)
	}
	for _, v := range s.Volumes {
		if v.Input != "0" || v.Output != "0" {
			fmt.Fprintf(&b, "vol %s %s %s/%s;", v.Account, v.Asset, v.Input, v.Output)
		}
	}
	for _, a := range s.Accounts {
		fmt.Fprintf(&b, "acc %s %v;", a.Address, a.Metadata)
	}
	return b.String()
}

func c12Serial(order []int, kinds []string, logs []ledger.Log) (string, []string) {
	e := sim.NewEnv(sim.Options{})
	defer e.Close()
	_ = e.CreateLedger("dst", "_default", nil)
	outs := make([]string, len(kinds))
	for _, i := range order {
		outs[i] = c12Client(memstore.WithClient(e.Ctx, i), e, kinds[i], logs)
	}
	return c12Reduce(e.C.Snapshot("dst")), outs
}

func permutations(n int) [][]int {
	if n == 1 {
		return [][]int{{0}}
	}
	var out [][]int
	for _, p := range permutations(n - 1) {
		for i := 0; i <= len(p); i++ {
			q := append(append(append([]int{}, p[:i]...), n-1), p[i:]...)
			out = append(out, q)
		}
	}
	return out
}

func runC12(r *core.Run) {
	// --- sequential part: import after a prior history through each write path is rejected, no effect
	r.ForEach("seq", r.N(100, 2000), 0, func(c *core.Case) {
		raw, logs := c12Export(c.Rng)
		e := sim.NewEnv(sim.Options{})
		defer e.Close()
		_ = e.CreateLedger("dst", "_default", nil)
		path := []string{"create", "meta", "bulk", "bulk-atomic"}[c.Index%4]
		first := c12Client(e.Ctx, e, path, logs)
		before := e.C.Snapshot("dst").Digest()
		res := c12Client(e.Ctx, e, "import", logs)
		after := e.C.Snapshot("dst").Digest()
		r.Eval("seq|"+path+"|"+first+"|"+res, true)
		r.Count("imports_after_prior_write", 1)
		if res == "import:ok" {
			c.Violation("C12/import-accepted-after-a-write-via-"+path, map[string]any{"export": raw, "first": first})
		}
		if before != after {
			c.Violation("C12/rejected-import-changed-the-ledger:after-write-via-"+path, map[string]any{"export": raw, "first": first, "import": res})
		}
		if st := e.C.LedgerState("dst"); st != "in-use" && strings.HasSuffix(first, ":ok") {
			c.Violation("C12/ledger-not-in-use-after-accepted-write-via-"+path, map[string]any{"state": st})
		}
		// an import whose logs do not all follow the existing ones
		e2 := sim.NewEnv(sim.Options{})
		defer e2.Close()
		_ = e2.CreateLedger("dst", "_default", nil)
		if r1 := c12Client(e2.Ctx, e2, "import", logs); r1 == "import:ok" {
			b := e2.C.Snapshot("dst").Digest()
			r2 := c12Client(e2.Ctx, e2, "import", logs)
			if r2 == "import:ok" || e2.C.Snapshot("dst").Digest() != b {
				c.Violation("C12/second-import-of-the-same-logs-accepted-or-effective", map[string]any{"export": raw, "second": r2})
			}
		}
	})
	if r.RaceMode {
		r.ForEach("free", r.N(200, 3000), 8, func(c *core.Case) {
			_, logs := c12Export(c.Rng)
			kinds := c12Kinds(c.Rng, c.Index)
			e := sim.NewEnv(sim.Options{})
			_ = e.CreateLedger("dst", "_default", nil)
			outs := make([]string, len(kinds))
			bodies := make([]func(ctx context.Context), len(kinds))
			for i := range kinds {
				i := i
				bodies[i] = func(ctx context.Context) { outs[i] = c12Client(ctx, e, kinds[i], logs) }
			}
			runFree(e.Ctx, bodies)
			got := c12Reduce(e.C.Snapshot("dst"))
			e.Close()
			ok := false
			for _, p := range permutations(len(kinds)) {
				if want, _ := c12Serial(p, kinds, logs); want == got {
					ok = true
				}
			}
			r.Eval(fmt.Sprint(kinds, outs), true)
			if !ok {
				c.Violation("C12/final-state-matches-no-serial-order:free-mode:"+strings.Join(kinds, "+"), map[string]any{"kinds": kinds, "outcomes": outs, "got": got})
			}
		})
		return
	}
	// --- controlled interleavings
	nsc := r.N(30, 300)
	per := r.N(250, 1200)
	r.Floor("interleavings", int64(nsc*per/4))
	r.ForEach("conc", nsc, 0, func(c *core.Case) {
		raw, logs := c12Export(c.Rng)
		kinds := c12Kinds(c.Rng, c.Index)
		serial := map[string][]string{}
		for _, p := range permutations(len(kinds)) {
			st, outs := c12Serial(p, kinds, logs)
			serial[st] = outs
		}
		if c.Index < 2 {
			r.Sample(map[string]any{"clients": kinds, "export": raw, "serial_outcomes": serial})
		}
		exec := func(ch sched.Chooser) *sched.Sched {
			e := sim.NewEnv(sim.Options{})
			defer e.Close()
			_ = e.CreateLedger("dst", "_default", nil)
			outs := make([]string, len(kinds))
			bodies := make([]func(ctx context.Context), len(kinds))
			for i := range kinds {
				i := i
				bodies[i] = func(ctx context.Context) { outs[i] = c12Client(ctx, e, kinds[i], logs) }
			}
			s := sched.New(len(kinds), ch)
			e.C.Sched = s
			s.Run(e.Ctx, bodies)
			e.C.Sched = nil
			r.Count("schedules_run", 1)
			r.Seen("interleavings", fmt.Sprintf("%d/%s", c.Index, s.Hash()))
			switches := 0
			for _, st := range s.Trace {
				if st.Current >= 0 && st.Chosen != st.Current {
					switches++
				}
			}
			r.Eval(fmt.Sprintf("%d|%s|%v", c.Index, s.Hash(), outs), switches > 0)
			r.Seen("outcome_vectors", strings.Join(kinds, "+")+" => "+strings.Join(outs, ","))
			detail := map[string]any{"clients": kinds, "outcomes": outs, "export": raw, "interleaving": s.String(), "schedule": s.Choices()}
			if s.Stuck {
				detail["locks"] = e.C.DebugLocks()
				c.Violation("C12/all-clients-blocked-forever:"+strings.Join(kinds, "+"), detail)
				return s
			}
			if pend, locks := e.C.PendingLeftovers(); pend != 0 || locks != 0 {
				c.Violation("C12/open-transaction-or-lock-after-all-clients-returned:"+strings.Join(kinds, "+"), detail)
			}
			got := c12Reduce(e.C.Snapshot("dst"))
			if _, ok := serial[got]; !ok {
				detail["got"] = got
				detail["serial_states"] = serial
				c.Violation("C12/final-state-matches-no-serial-order:"+strings.Join(kinds, "+"), detail)
			}
			for i, o := range outs {
				if strings.HasSuffix(o, ":panic") || strings.HasSuffix(o, ":other") {
					detail["client"] = i
					c.Violation("C12/unexpected-outcome:"+kinds[i]+":"+o, detail)
				}
			}
			return s
		}
		x := &sched.Explorer{Bound: r.N(2, 3), MaxRuns: per * 2 / 3, Rng: c.Rng}
		x.Explore(func(prefix []int) *sched.Sched { return exec(&sched.PrefixChooser{Prefix: prefix}) })
		if x.Complete {
			r.Count("scenarios_with_bounded_space_fully_enumerated", 1)
		}
		r.Count("replay_divergences", int64(x.Diverged))
		for i := 0; i < per/3; i++ {
			exec(&sched.RandomChooser{Rng: c.Rng, Switch: 2 + c.Rng.Intn(4)})
		}
	})
}

func c12Kinds(rng *rand.Rand, idx int) []string {
	others := []string{"create", "bulk-atomic", "bulk", "meta", "import"}
	kinds := []string{"import", others[idx%len(others)]}
	if rng.Intn(3) == 0 {
		kinds = append(kinds, others[rng.Intn(len(others))])
	}
	return kinds
}
