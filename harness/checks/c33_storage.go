package checks

// C33 test doubles: in-memory replication.Storage, its fault-injecting /
// recording decorator, the recording exporter (drivers.Driver + Factory) and
// a logging.Logger that turns the pipeline's lifecycle messages into events.

import (
	"context"
	"encoding/json"
	"errors"
	"fmt"
	"io"
	"reflect"
	"runtime/debug"
	"sort"
	"strings"
	"sync"
	"sync/atomic"
	"time"

	logging "github.com/formancehq/go-libs/v5/pkg/observe/log"
	"github.com/formancehq/go-libs/v5/pkg/storage/bun/paginate"
	"github.com/formancehq/go-libs/v5/pkg/storage/postgres"

	ledger "github.com/formancehq/ledger/internal"
	"github.com/formancehq/ledger/internal/replication"
	"github.com/formancehq/ledger/internal/replication/drivers"
	"github.com/formancehq/ledger/internal/storage/common"

	"github.com/formancehq/ledger/verifharness/sim"
)

// ---------- in-memory storage ----------

type c33Ledger struct {
	mu   sync.RWMutex
	name string
	logs []ledger.Log
}

func (l *c33Ledger) append(n int) {
	l.mu.Lock()
	for i := 0; i < n; i++ {
		id := uint64(len(l.logs) + 1)
		l.logs = append(l.logs, ledger.Log{
			ID:             &id,
			Type:           ledger.NewTransactionLogType,
			IdempotencyKey: fmt.Sprintf("%s#%d", l.name, id),
		})
	}
	l.mu.Unlock()
}

func (l *c33Ledger) count() int {
	l.mu.RLock()
	defer l.mu.RUnlock()
	return len(l.logs)
}

func c33ToU64(v any) (uint64, bool) {
	rv := reflect.ValueOf(v)
	for rv.Kind() == reflect.Pointer && !rv.IsNil() {
		rv = rv.Elem()
	}
	switch rv.Kind() {
	case reflect.Uint, reflect.Uint8, reflect.Uint16, reflect.Uint32, reflect.Uint64:
		return rv.Uint(), true
	case reflect.Int, reflect.Int8, reflect.Int16, reflect.Int32, reflect.Int64:
		if rv.Int() < 0 {
			return 0, true
		}
		return uint64(rv.Int()), true
	case reflect.Float32, reflect.Float64:
		return uint64(rv.Float()), true
	}
	var u uint64
	if _, err := fmt.Sscan(fmt.Sprint(v), &u); err == nil {
		return u, true
	}
	return 0, false
}

// list answers the query with the contract of the real column paginator on
// logs.id: filter, order, LIMIT pageSize+1, HasMore = an extra row existed.
func (l *c33Ledger) list(q common.PaginatedQuery[any]) (*paginate.Cursor[ledger.Log], error) {
	var iq common.InitialPaginatedQuery[any]
	var pagID *uint64
	switch v := q.(type) {
	case common.InitialPaginatedQuery[any]:
		iq = v
	case *common.InitialPaginatedQuery[any]:
		iq = *v
	case common.ColumnPaginatedQuery[any]:
		if v.Reverse {
			return nil, errors.New("c33 storage: reverse pagination not supported by the harness")
		}
		iq = v.InitialPaginatedQuery
		if v.PaginationID != nil {
			u := v.PaginationID.Uint64()
			pagID = &u
		}
	default:
		return nil, fmt.Errorf("c33 storage: unsupported query type %T", q)
	}
	if iq.Column != "" && iq.Column != "id" {
		return nil, fmt.Errorf("c33 storage: unsupported pagination column %q", iq.Column)
	}
	order := paginate.Order(paginate.OrderDesc)
	if iq.Order != nil {
		order = *iq.Order
	}
	pageSize := iq.PageSize
	if pageSize == 0 {
		pageSize = paginate.QueryDefaultPageSize
	}
	lo, hi := uint64(1), ^uint64(0) // inclusive bounds on id
	if pagID != nil {
		if order == paginate.OrderAsc {
			lo = max(lo, *pagID)
		} else {
			hi = min(hi, *pagID)
		}
	}
	if b := iq.Options.Builder; b != nil && !reflect.ValueOf(b).IsNil() {
		expr, _, err := b.Build(queryCtxC33{})
		if err != nil {
			return nil, err
		}
		if strings.Contains(expr, ") or (") || strings.Contains(expr, "not (") {
			return nil, fmt.Errorf("c33 storage: unsupported filter %s", expr)
		}
		var werr error
		_ = b.Walk(func(operator, key string, value *any) error {
			if key != "id" {
				werr = fmt.Errorf("c33 storage: unsupported filter key %q", key)
				return nil
			}
			u, ok := c33ToU64(*value)
			if !ok {
				werr = fmt.Errorf("c33 storage: unsupported filter value %v", *value)
				return nil
			}
			switch operator {
			case "$gt":
				if u == ^uint64(0) {
					lo = u
					hi = 0
				} else {
					lo = max(lo, u+1)
				}
			case "$gte":
				lo = max(lo, u)
			case "$lt":
				if u == 0 {
					hi = 0
					lo = 1
				} else {
					hi = min(hi, u-1)
				}
			case "$lte":
				hi = min(hi, u)
			case "$match":
				lo, hi = max(lo, u), min(hi, u)
			default:
				werr = fmt.Errorf("c33 storage: unsupported operator %q", operator)
			}
			return nil
		})
		if werr != nil {
			return nil, werr
		}
	}
	l.mu.RLock()
	defer l.mu.RUnlock()
	n := uint64(len(l.logs))
	hi = min(hi, n)
	var out []ledger.Log
	if lo <= hi && hi >= 1 {
		if order == paginate.OrderAsc {
			for id := lo; id <= hi && uint64(len(out)) < pageSize+1; id++ {
				out = append(out, l.logs[id-1])
			}
		} else {
			for id := hi; id >= lo && uint64(len(out)) < pageSize+1; id-- {
				out = append(out, l.logs[id-1])
			}
		}
	}
	hasMore := uint64(len(out)) > pageSize
	if hasMore {
		out = out[:pageSize]
	}
	return &paginate.Cursor[ledger.Log]{PageSize: int(pageSize), HasMore: hasMore, Data: out}, nil
}

type queryCtxC33 struct{}

func (queryCtxC33) BuildMatcher(key, operator string, value any) (string, []any, error) {
	return key + " " + operator, nil, nil
}

type c33Mem struct {
	mu        sync.Mutex
	pipelines map[string]*ledger.Pipeline
	exporters map[string]*ledger.Exporter
	ledgers   map[string]*c33Ledger // fixed after setup
}

func newC33Mem() *c33Mem {
	return &c33Mem{pipelines: map[string]*ledger.Pipeline{}, exporters: map[string]*ledger.Exporter{}, ledgers: map[string]*c33Ledger{}}
}

func c33CopyPipeline(p *ledger.Pipeline) *ledger.Pipeline {
	cp := *p
	if p.LastLogID != nil {
		v := *p.LastLogID
		cp.LastLogID = &v
	}
	return &cp
}

func (s *c33Mem) keyOf(id string) string {
	s.mu.Lock()
	defer s.mu.Unlock()
	if p, ok := s.pipelines[id]; ok {
		return p.Ledger + "/" + p.ExporterID
	}
	return ""
}

func (s *c33Mem) lastLogID(id string) (uint64, bool) {
	s.mu.Lock()
	defer s.mu.Unlock()
	if p, ok := s.pipelines[id]; ok && p.LastLogID != nil {
		return *p.LastLogID, true
	}
	return 0, false
}

func (s *c33Mem) createPipeline(p ledger.Pipeline) error {
	s.mu.Lock()
	defer s.mu.Unlock()
	for _, o := range s.pipelines {
		if o.Ledger == p.Ledger && o.ExporterID == p.ExporterID {
			return ledger.NewErrPipelineAlreadyExists(p.PipelineConfiguration)
		}
	}
	s.pipelines[p.ID] = c33CopyPipeline(&p)
	return nil
}

func (s *c33Mem) storeState(id string, last uint64) error {
	s.mu.Lock()
	defer s.mu.Unlock()
	p, ok := s.pipelines[id]
	if !ok {
		return postgres.ErrNotFound
	}
	v := last
	p.LastLogID = &v
	return nil
}

func (s *c33Mem) updatePipeline(id string, o map[string]any) (*ledger.Pipeline, error) {
	s.mu.Lock()
	defer s.mu.Unlock()
	p, ok := s.pipelines[id]
	if !ok {
		return nil, postgres.ErrNotFound
	}
	for k, v := range o {
		switch k {
		case "enabled":
			b, _ := v.(bool)
			p.Enabled = b
		case "last_log_id":
			if v == nil || (reflect.ValueOf(v).Kind() == reflect.Pointer && reflect.ValueOf(v).IsNil()) {
				p.LastLogID = nil
			} else if u, ok := c33ToU64(v); ok {
				p.LastLogID = &u
			}
		case "error":
			p.Error = fmt.Sprint(v)
		default:
			return nil, fmt.Errorf("c33 storage: unknown pipeline column %q", k)
		}
	}
	return c33CopyPipeline(p), nil
}

func (s *c33Mem) getPipeline(id string) (*ledger.Pipeline, error) {
	s.mu.Lock()
	defer s.mu.Unlock()
	p, ok := s.pipelines[id]
	if !ok {
		return nil, postgres.ErrNotFound
	}
	return c33CopyPipeline(p), nil
}

func (s *c33Mem) listPipelines(onlyEnabled bool) []ledger.Pipeline {
	s.mu.Lock()
	defer s.mu.Unlock()
	ret := make([]ledger.Pipeline, 0, len(s.pipelines))
	for _, p := range s.pipelines {
		if !onlyEnabled || p.Enabled {
			ret = append(ret, *c33CopyPipeline(p))
		}
	}
	sort.Slice(ret, func(i, j int) bool { return ret[i].ID < ret[j].ID })
	return ret
}

// ---------- decorator: faults + recording ----------

type c33Storage struct {
	mem  *c33Mem
	mon  *c33Mon
	plan c33StorePlan
	wd   <-chan struct{}

	cList, cStore, cGet, cOpen, cUpd, cEnabled atomic.Int64

	holdUsed    atomic.Bool
	holdEngaged chan struct{}
	holdRelease chan struct{}
	relOnce     sync.Once

	unsupported atomic.Int64
}

var errC33Injected = errors.New("c33: injected storage failure")

func newC33Storage(mem *c33Mem, mon *c33Mon, plan c33StorePlan, wd <-chan struct{}) *c33Storage {
	return &c33Storage{mem: mem, mon: mon, plan: plan, wd: wd, holdEngaged: make(chan struct{}), holdRelease: make(chan struct{})}
}

func (s *c33Storage) releaseHold() { s.relOnce.Do(func() { close(s.holdRelease) }) }

// fault decides from the call index; returns (fail).
func (s *c33Storage) fault(ctr *atomic.Int64, failEvery, delayEvery, delayUS int) bool {
	n := ctr.Add(1)
	if s.mon.faultsOff.Load() {
		return false
	}
	if delayEvery > 0 && delayUS > 0 && n%int64(delayEvery) == 0 {
		s.mon.nFaults.Add(1)
		select {
		case <-time.After(time.Duration(delayUS) * time.Microsecond):
		case <-s.wd:
		}
	}
	if failEvery > 0 && n%int64(failEvery) == 0 {
		s.mon.nFaults.Add(1)
		return true
	}
	return false
}

func (s *c33Storage) pipeOf(id string) *c33Pipe { return s.mon.byKey[s.mem.keyOf(id)] }

func c33RunEpoch(ctx context.Context) int {
	if l, ok := logging.FromContext(ctx).(*c33Logger); ok {
		return l.runEpoch
	}
	return -1
}

func (s *c33Storage) OpenLedger(ctx context.Context, name string) (replication.LogFetcher, *ledger.Ledger, error) {
	if s.fault(&s.cOpen, s.plan.OpenLedgerFailEvery, 0, 0) {
		s.mon.note("open_ledger_err", nil, name)
		return nil, nil, errC33Injected
	}
	l, ok := s.mem.ledgers[name]
	if !ok {
		return nil, nil, postgres.ErrNotFound
	}
	// the pipeline the fetcher is opened for (the manager puts ledger+exporter on the context logger)
	var p *c33Pipe
	if lg, ok := logging.FromContext(ctx).(*c33Logger); ok {
		exp, _ := lg.fields["exporter"].(string)
		p = s.mon.byKey[name+"/"+exp]
	}
	fetch := replication.LogFetcherFn(func(ctx context.Context, q common.PaginatedQuery[any]) (*paginate.Cursor[ledger.Log], error) {
		if s.fault(&s.cList, s.plan.ListLogsFailEvery, s.plan.ListLogsDelayEvery, s.plan.ListLogsDelayUS) {
			s.mon.poll(p, 0, 0, 0, false, errC33Injected)
			return nil, errC33Injected
		}
		cur, err := l.list(q)
		if err != nil {
			s.unsupported.Add(1)
			s.mon.poll(p, 0, 0, 0, false, err)
			return nil, err
		}
		var first, last uint64
		if len(cur.Data) > 0 {
			first, last = *cur.Data[0].ID, *cur.Data[len(cur.Data)-1].ID
		}
		s.mon.poll(p, len(cur.Data), first, last, cur.HasMore, nil)
		return cur, nil
	})
	return fetch, &ledger.Ledger{Name: name}, nil
}

func (s *c33Storage) StorePipelineState(ctx context.Context, id string, lastLogID uint64) error {
	p := s.pipeOf(id)
	tok := s.mon.storeCall(p, lastLogID, c33RunEpoch(ctx))
	if p != nil && s.plan.HoldStorePipe == p.plan.Name && lastLogID >= s.plan.HoldStoreAt && s.holdUsed.CompareAndSwap(false, true) {
		s.mon.note("store_held", p, fmt.Sprintf("StorePipelineState(%d) delayed inside the storage until the reset of %s is applied", lastLogID, p.plan.Name))
		s.mon.nFaults.Add(1)
		close(s.holdEngaged)
		select {
		case <-s.holdRelease:
		case <-s.wd:
		}
	}
	if s.fault(&s.cStore, s.plan.StoreFailEvery, s.plan.StoreDelayEvery, s.plan.StoreDelayUS) {
		s.mon.storeErr(p, lastLogID, "injected")
		return errC33Injected
	}
	return s.mon.storeApply(p, lastLogID, tok, func() error { return s.mem.storeState(id, lastLogID) })
}

func (s *c33Storage) UpdatePipeline(ctx context.Context, id string, o map[string]any) (*ledger.Pipeline, error) {
	p := s.pipeOf(id)
	if s.fault(&s.cUpd, s.plan.UpdateFailEvery, 0, 0) {
		s.mon.note("update_err", p, "injected")
		return nil, errC33Injected
	}
	v, has := o["last_log_id"]
	clears := has && (v == nil || (reflect.ValueOf(v).Kind() == reflect.Pointer && reflect.ValueOf(v).IsNil()))
	b, _ := json.Marshal(o)
	var ret *ledger.Pipeline
	err := s.mon.updateApply(p, clears, "UpdatePipeline "+string(b), func() error {
		var err error
		ret, err = s.mem.updatePipeline(id, o)
		return err
	})
	if err == nil && p != nil && s.plan.HoldStorePipe == p.plan.Name {
		s.releaseHold()
	}
	return ret, err
}

func (s *c33Storage) GetPipeline(ctx context.Context, id string) (*ledger.Pipeline, error) {
	if s.fault(&s.cGet, s.plan.GetPipelineFailEvery, 0, 0) {
		s.mon.note("get_pipeline_err", s.pipeOf(id), "injected")
		return nil, errC33Injected
	}
	return s.mem.getPipeline(id)
}

func (s *c33Storage) ListEnabledPipelines(ctx context.Context) ([]ledger.Pipeline, error) {
	if s.fault(&s.cEnabled, s.plan.ListEnabledFailEvery, 0, 0) {
		s.mon.note("list_enabled_err", nil, "injected")
		return nil, errC33Injected
	}
	return s.mem.listPipelines(true), nil
}

func (s *c33Storage) ListPipelines(ctx context.Context) (*paginate.Cursor[ledger.Pipeline], error) {
	return &paginate.Cursor[ledger.Pipeline]{Data: s.mem.listPipelines(false)}, nil
}

func (s *c33Storage) CreatePipeline(ctx context.Context, pipeline ledger.Pipeline) error {
	err := s.mem.createPipeline(pipeline)
	note := "CreatePipeline " + pipeline.Ledger + "/" + pipeline.ExporterID
	if err != nil {
		note += " -> " + err.Error()
	}
	s.mon.note("create_pipeline", s.mon.byKey[pipeline.Ledger+"/"+pipeline.ExporterID], note)
	return err
}

func (s *c33Storage) DeletePipeline(ctx context.Context, id string) error {
	s.mem.mu.Lock()
	defer s.mem.mu.Unlock()
	if _, ok := s.mem.pipelines[id]; !ok {
		return postgres.ErrNotFound
	}
	delete(s.mem.pipelines, id)
	return nil
}

func (s *c33Storage) ListExporters(ctx context.Context) (*paginate.Cursor[ledger.Exporter], error) {
	s.mem.mu.Lock()
	defer s.mem.mu.Unlock()
	cur := &paginate.Cursor[ledger.Exporter]{}
	for _, e := range s.mem.exporters {
		cur.Data = append(cur.Data, *e)
	}
	return cur, nil
}

func (s *c33Storage) CreateExporter(ctx context.Context, exporter ledger.Exporter) error {
	s.mem.mu.Lock()
	defer s.mem.mu.Unlock()
	e := exporter
	s.mem.exporters[exporter.ID] = &e
	return nil
}

func (s *c33Storage) DeleteExporter(ctx context.Context, id string) error {
	s.mem.mu.Lock()
	defer s.mem.mu.Unlock()
	if _, ok := s.mem.exporters[id]; !ok {
		return postgres.ErrNotFound
	}
	delete(s.mem.exporters, id)
	return nil
}

func (s *c33Storage) GetExporter(ctx context.Context, id string) (*ledger.Exporter, error) {
	s.mem.mu.Lock()
	defer s.mem.mu.Unlock()
	e, ok := s.mem.exporters[id]
	if !ok {
		return nil, postgres.ErrNotFound
	}
	cp := *e
	return &cp, nil
}

func (s *c33Storage) UpdateExporter(ctx context.Context, exporter ledger.Exporter) error {
	s.mem.mu.Lock()
	defer s.mem.mu.Unlock()
	if _, ok := s.mem.exporters[exporter.ID]; !ok {
		return postgres.ErrNotFound
	}
	e := exporter
	s.mem.exporters[exporter.ID] = &e
	return nil
}

var _ replication.Storage = (*c33Storage)(nil)

// ---------- recording exporter ----------

type c33Factory struct {
	mon     *c33Mon
	mem     *c33Mem
	startUS int
	n       atomic.Int64
	batch   *c33BatchPlan
	logger  logging.Logger
}

func (f *c33Factory) Create(ctx context.Context, id string) (drivers.Driver, json.RawMessage, error) {
	n := f.n.Add(1)
	f.mon.note("driver_create", nil, fmt.Sprintf("exporter %s instance %d", id, n))
	rec := &c33Driver{mon: f.mon, mem: f.mem, exporter: id, inst: n, startUS: f.startUS, batched: f.batch != nil}
	if f.batch == nil {
		return rec, json.RawMessage(`{}`), nil
	}
	// the REAL batching wrapper, built the way production builds it (module.go decorates the
	// driver factory with NewWithBatchingDriverFactory; the batching parameters come from the
	// exporter's configuration)
	cfg := fmt.Sprintf(`{"batching":{"maxItems":%d,"flushInterval":"%dus"}}`, f.batch.MaxItems, f.batch.FlushUS)
	b, raw, err := drivers.NewWithBatchingDriverFactory(c33FixedFactory{d: rec, cfg: cfg}, f.logger).Create(ctx, id)
	if err != nil {
		return nil, nil, err
	}
	return &c33Outer{Driver: b, mon: f.mon, exporter: id}, raw, nil
}

type c33FixedFactory struct {
	d   drivers.Driver
	cfg string
}

func (f c33FixedFactory) Create(context.Context, string) (drivers.Driver, json.RawMessage, error) {
	return f.d, json.RawMessage(f.cfg), nil
}

// c33Outer is what the manager (DriverFacade, PipelineHandler) sees of a batched exporter: it
// numbers the pipeline's Accept calls, stamps the number on the logs and forwards to the real
// drivers.Batcher. It never changes the Batcher's answer.
type c33Outer struct {
	drivers.Driver // the real *drivers.Batcher
	mon            *c33Mon
	exporter       string
}

const c33StampPrefix = "c33call:"

func (o *c33Outer) Accept(ctx context.Context, logs ...drivers.LogWithLedger) (errs []error, err error) {
	var p *c33Pipe
	if len(logs) > 0 {
		p = o.mon.byKey[logs[0].Ledger+"/"+o.exporter]
	}
	// In production this runs in a goroutine of PipelineHandler.Run without any recover: a panic
	// below ends the whole process. Here it becomes a violation and the call fails.
	defer func() {
		if v := recover(); v != nil {
			site := sim.PanicSite(debug.Stack())
			state := "live"
			if ctx.Err() != nil {
				state = "cancelled (pipeline stopped during the call)"
			}
			o.mon.nBatcherPanics.Add(1)
			o.mon.mu.Lock()
			o.mon.violate(p, "C33/batched-accept-panicked:"+site,
				fmt.Sprintf("drivers.Batcher.Accept panicked (%v) at %s; context of the call: %s; %d logs in the call. PipelineHandler.Run calls Accept in a goroutine without recover: the process would exit", v, site, state, len(logs)))
			o.mon.mu.Unlock()
			errs, err = nil, fmt.Errorf("c33: Batcher.Accept panicked: %v", v)
		}
	}()
	if o.mon.light || p == nil {
		return o.Driver.Accept(ctx, logs...)
	}
	if o.mon.healed.Load() {
		p.acceptsQ.Add(1)
	}
	ids := make([]uint64, len(logs))
	for i, l := range logs {
		if l.ID != nil {
			ids[i] = *l.ID
		}
	}
	call := o.mon.outerBegin(p, ctx, ids)
	stamped := make([]drivers.LogWithLedger, len(logs))
	for i, l := range logs {
		l.IdempotencyHash = fmt.Sprintf("%s%d:%d:%d", c33StampPrefix, call.no, i, len(logs))
		stamped[i] = l
	}
	defer func() {
		if v := recover(); v != nil {
			o.mon.outerEnd(call, fmt.Errorf("panic: %v", v))
			panic(v)
		}
	}()
	errs, err = o.Driver.Accept(ctx, stamped...)
	o.mon.outerEnd(call, err)
	return errs, err
}

type c33Driver struct {
	mon      *c33Mon
	mem      *c33Mem
	exporter string
	inst     int64
	startUS  int
	stopped  atomic.Bool
	batched  bool // sits below the real drivers.Batcher: receives chunks, possibly of several pipelines
}

func (d *c33Driver) Start(ctx context.Context) error {
	if d.startUS > 0 && !d.mon.faultsOff.Load() {
		select {
		case <-time.After(time.Duration(d.startUS) * time.Microsecond):
		case <-ctx.Done():
			return ctx.Err()
		}
	}
	d.mon.note("driver_start", nil, fmt.Sprintf("exporter %s instance %d", d.exporter, d.inst))
	return nil
}

func (d *c33Driver) Stop(ctx context.Context) error {
	d.stopped.Store(true)
	d.mon.nDriverStops.Add(1)
	d.mon.note("driver_stop", nil, fmt.Sprintf("exporter %s instance %d", d.exporter, d.inst))
	return nil
}

func (d *c33Driver) Accept(ctx context.Context, logs ...drivers.LogWithLedger) ([]error, error) {
	if len(logs) == 0 {
		return nil, nil
	}
	if d.batched {
		return d.acceptChunk(ctx, logs)
	}
	p := d.mon.byKey[logs[0].Ledger+"/"+d.exporter]
	if p == nil {
		d.mon.mu.Lock()
		d.mon.violate(nil, "C33/foreign-ledger-log", fmt.Sprintf("exporter %s received logs of ledger %q for which it has no pipeline", d.exporter, logs[0].Ledger))
		d.mon.mu.Unlock()
		return nil, nil
	}
	ids := make([]uint64, len(logs))
	tags := make([]string, len(logs))
	lgs := make([]string, len(logs))
	for i, l := range logs {
		if l.ID != nil {
			ids[i] = *l.ID
		}
		tags[i] = l.IdempotencyKey
		lgs[i] = l.Ledger
	}
	dec := d.mon.acceptBegin(p, ctx, ids)
	if dec.skip {
		return nil, ctx.Err()
	}
	if dec.delayUS > 0 {
		select {
		case <-time.After(time.Duration(dec.delayUS) * time.Microsecond):
		case <-ctx.Done():
			d.mon.acceptFail(p, dec, ids, "context cancelled during slow accept", true)
			return nil, ctx.Err()
		}
	}
	if dec.fail {
		d.mon.acceptFail(p, dec, ids, dec.why, false)
		return nil, errors.New("c33: injected exporter failure (" + dec.why + ")")
	}
	if !d.mon.acceptAck(p, dec, ctx, ids, tags, lgs, d.mem.ledgers[p.plan.Ledger].count) {
		return nil, ctx.Err()
	}
	return nil, nil
}

// acceptChunk: one flush of the real Batcher. The chunk may hold logs of several pipelines of
// this exporter (and leftovers of abandoned calls); each pipeline's logs are decided on their own
// and refusals are reported per item, or globally when the whole chunk is refused.
func (d *c33Driver) acceptChunk(ctx context.Context, logs []drivers.LogWithLedger) ([]error, error) {
	var groups []*c33Group
	byLedger := map[string]*c33Group{}
	for i, l := range logs {
		g := byLedger[l.Ledger]
		if g == nil {
			g = &c33Group{p: d.mon.byKey[l.Ledger+"/"+d.exporter]}
			byLedger[l.Ledger] = g
			if g.p == nil {
				d.mon.mu.Lock()
				d.mon.violate(nil, "C33/foreign-ledger-log", fmt.Sprintf("exporter %s received logs of ledger %q for which it has no pipeline", d.exporter, l.Ledger))
				d.mon.mu.Unlock()
			} else {
				groups = append(groups, g)
			}
		}
		it := c33Item{tag: l.IdempotencyKey, ledger: l.Ledger}
		if l.ID != nil {
			it.id = *l.ID
		}
		if rest, ok := strings.CutPrefix(l.IdempotencyHash, c33StampPrefix); ok {
			if _, err := fmt.Sscanf(rest, "%d:%d:%d", &it.call, &it.idx, &it.n); err == nil {
				it.stamped = true
			}
		}
		g.at = append(g.at, i)
		g.items = append(g.items, it)
		g.ids = append(g.ids, it.id)
	}
	if len(groups) > 1 {
		d.mon.nMixedChunks.Add(1)
	}
	light := d.mon.light
	abandon := func(upTo int, why string) {
		for _, g := range groups[:upTo] {
			if light {
				d.mon.acceptFail(g.p, g.dec, g.ids, why, true)
			} else {
				d.mon.chunkFail(g, why, true)
			}
		}
	}
	delay := 0
	for i, g := range groups {
		g.dec = d.mon.acceptBegin(g.p, ctx, g.ids)
		if g.dec.skip {
			abandon(i, "context of the Batcher cancelled")
			return nil, ctx.Err()
		}
		if !light {
			d.mon.chunkBegin(g)
		}
		delay = max(delay, g.dec.delayUS)
	}
	if delay > 0 {
		select {
		case <-time.After(time.Duration(delay) * time.Microsecond):
		case <-ctx.Done():
			abandon(len(groups), "context cancelled during slow accept")
			return nil, ctx.Err()
		}
	}
	errs := make([]error, len(logs))
	refused := 0
	var lastErr error
	for _, g := range groups {
		var err error
		switch {
		case g.dec.fail:
			if light {
				d.mon.acceptFail(g.p, g.dec, g.ids, g.dec.why, false)
			} else {
				d.mon.chunkFail(g, g.dec.why, false)
			}
			err = errors.New("c33: injected exporter failure (" + g.dec.why + ")")
		case light:
			if !d.mon.acceptAck(g.p, g.dec, ctx, g.ids, nil, nil, nil) {
				err = ctx.Err()
			}
		default:
			if !d.mon.chunkAck(g, ctx, d.mem.ledgers[g.p.plan.Ledger].count) {
				err = ctx.Err()
			}
		}
		if err != nil {
			refused++
			lastErr = err
			for _, i := range g.at {
				errs[i] = err
			}
		}
	}
	if refused == 0 {
		return errs, nil
	}
	if refused == len(groups) && (len(groups) > 1 || groups[0].dec.attempt%2 == 0) {
		d.mon.nGlobalErrs.Add(1)
		return nil, lastErr // the whole chunk refused: global error
	}
	d.mon.nPerItemErrChunks.Add(1)
	return errs, nil // refusals reported per item
}

type c33Validator struct{}

func (c33Validator) ValidateConfig(string, json.RawMessage) error { return nil }

// ---------- logger ----------

// c33Logger implements logging.Logger. Instances are immutable; the instance the
// manager derives per startPipeline (fields ledger+exporter) identifies the run
// on the contexts handed to the storage; the instance a PipelineHandler owns
// (fields module+driver) reports handler creation / termination.
type c33Logger struct {
	mon      *c33Mon
	fields   map[string]any
	pipe     *c33Pipe // set on handler loggers
	runEpoch int
}

func newC33Logger(mon *c33Mon) *c33Logger {
	return &c33Logger{mon: mon, fields: map[string]any{}, runEpoch: -1}
}

func (l *c33Logger) with(extra map[string]any) logging.Logger {
	f := make(map[string]any, len(l.fields)+len(extra))
	for k, v := range l.fields {
		f[k] = v
	}
	for k, v := range extra {
		f[k] = v
	}
	n := &c33Logger{mon: l.mon, fields: f, runEpoch: l.runEpoch}
	if _, isDriver := extra["driver"]; isDriver && f["component"] == "pipeline" {
		mod, _ := f["module"].(string)
		drv, _ := f["driver"].(string)
		n.pipe = l.mon.byKey[mod+"/"+drv]
		l.mon.handlerCreated(n.pipe)
	}
	if _, ok := extra["exporter"]; ok {
		led, _ := f["ledger"].(string)
		exp, _ := f["exporter"].(string)
		n.runEpoch = l.mon.epochOf(l.mon.byKey[led+"/"+exp])
	}
	return n
}

func (l *c33Logger) msg(format string) {
	if l.pipe != nil && format == "Pipeline terminated." {
		l.mon.handlerTerminated(l.pipe)
	}
}

func (l *c33Logger) Tracef(string, ...any)                      {}
func (l *c33Logger) Debugf(f string, _ ...any)                  { l.msg(f) }
func (l *c33Logger) Infof(string, ...any)                       {}
func (l *c33Logger) Errorf(string, ...any)                      {}
func (l *c33Logger) Trace(...any)                               {}
func (l *c33Logger) Debug(...any)                               {}
func (l *c33Logger) Info(...any)                                {}
func (l *c33Logger) Error(...any)                               {}
func (l *c33Logger) WithFields(f map[string]any) logging.Logger { return l.with(f) }
func (l *c33Logger) WithField(k string, v any) logging.Logger   { return l.with(map[string]any{k: v}) }
func (l *c33Logger) WithContext(context.Context) logging.Logger { return l }
func (l *c33Logger) Writer() io.Writer                          { return io.Discard }
func (l *c33Logger) Enabled(logging.Level) bool                 { return true }

var _ logging.Logger = (*c33Logger)(nil)
