package checks

import (
	"context"
	"errors"
	"fmt"
	"math/big"
	"sort"
	"strings"
	"sync"

	"github.com/formancehq/go-libs/v5/pkg/types/metadata"

	ledger "github.com/formancehq/ledger/internal"
	"github.com/formancehq/ledger/internal/machine"
	"github.com/formancehq/ledger/internal/machine/script/compiler"
	"github.com/formancehq/ledger/internal/machine/vm"
	"github.com/formancehq/ledger/verifharness/core"
	"github.com/formancehq/ledger/verifharness/gen"
)

// C22 — Numscript sends move exactly the requested amount.
// C23 (c23_bounded_sources.go) shares c22Workload; each check runs the
// workload itself and reports only its own oracle.

func init() {
	core.Register(&core.Check{
		ID: "C22", Level: "exploration",
		Rule: "one case = one grammar-generated program (gen.GenNumscript: nested in-order/allotment/max sources and destinations, overdrafts, kept, save, typed variables, meta()/balance() origins, metadata statements) compiled by the real compiler and executed by the real vm.Machine against random balances (negative and huge included). Shape = statement/source/destination tree without names and amounts. Non-trivial = the run succeeded and produced at least one posting with a non-zero amount.",
		Assumptions: []string{
			"postings are attributed to their send statement by destination account: the generator gives every send statement destination accounts disjoint from all other sends' (no inference)",
			"expected sums come from an independent big.Int/big.Rat model of the documented semantics: in-order destination clause = min(cap, what is left); allotment = floor shares, leftover units to the first parts; send [A *] = for each bounded source in order max(0, balance - saved + overdraft bound), `max` caps the sub-source, unbounded sources under `max` give exactly the cap",
			"`save [A n] from @x` sets n aside (tracked balance = initial + postings - saved); when n exceeds what the account holds the amount available to a later `send [A *]` is not defined by the documentation: such send-all sums are not judged (counted as send_all_not_judged)",
			"the static store returns one fresh big.Int per queried (account, asset); vm.StaticStore is not used (its GetBalances drops all but the last asset of an account)",
			"a panic of the machine is counted (error class `panic`, witnesses under machine_panic_witnesses) and left to C27",
			"tracked balances = the (account, asset) pairs Machine.Balances holds right after ResolveBalances; pairs that OP_REPAY adds later for an account tracked in another asset are never read by a withdrawal and are only counted (untracked_pairs_added_*)",
		},
		Run: func(r *core.Run) { c22Workload(r, "C22") },
	})
}

// ---- static vm.Store --------------------------------------------------------

type c22Store struct{ w *gen.NSWorld }

func (s c22Store) GetBalances(_ context.Context, q vm.BalanceQuery) (vm.Balances, error) {
	ret := vm.Balances{}
	for acc, assets := range q {
		if ret[acc] == nil {
			ret[acc] = map[string]*big.Int{}
		}
		for _, a := range assets {
			ret[acc][a] = s.w.Balance(acc, a)
		}
	}
	return ret, nil
}

func (s c22Store) GetAccount(_ context.Context, address string) (*ledger.Account, error) {
	md := metadata.Metadata{}
	for k, v := range s.w.Meta[address] {
		md[k] = v
	}
	return &ledger.Account{Address: address, Metadata: md}, nil
}

// ---- running the real machine ------------------------------------------------

type c22Result struct {
	phase    string // compile | vars | resources | balances | execute | ok
	err      error
	class    string
	postings []vm.Posting
	tracked  map[string]map[string]*big.Int
	resolved map[c22Key]bool // pairs present in Machine.Balances right after ResolveBalances
	txMeta   map[string]string
	accMeta  map[string]map[string]string
}

func c22Classify(phase string, err error) string {
	switch {
	case err == nil:
		return "ok"
	case phase == "panic":
		return "panic"
	case phase == "compile":
		return "compile_error"
	case machine.IsInsufficientFundError(err):
		return "insufficient_funds"
	case errors.Is(err, &machine.ErrMissingMetadata{}):
		return "missing_metadata"
	case errors.Is(err, &machine.ErrNegativeAmount{}):
		return "negative_balance_fn"
	case errors.Is(err, &machine.ErrInvalidVars{}):
		return "invalid_vars"
	case errors.Is(err, machine.ErrScriptFailed):
		return "script_failed"
	case errors.Is(err, &machine.ErrInvalidScript{}):
		return "invalid_script"
	case strings.Contains(err.Error(), "negative amount"):
		return "negative_monetary"
	default:
		return "other_" + phase
	}
}

func c22RunMachine(p *gen.NSProgram) (res c22Result) {
	defer func() {
		if x := recover(); x != nil {
			res.phase, res.err = "panic", fmt.Errorf("panic: %v", x)
			res.class = "panic"
		}
	}()
	fin := func(phase string, err error) c22Result {
		res.phase, res.err, res.class = phase, err, c22Classify(phase, err)
		return res
	}
	prog, err := compiler.Compile(p.Text)
	if err != nil {
		return fin("compile", err)
	}
	m := vm.NewMachine(*prog)
	m.Printer = func(c chan machine.Value) {
		for range c {
		}
	}
	vars := map[string]string{}
	for k, v := range p.Vars {
		vars[k] = v
	}
	store := c22Store{w: p.World}
	ctx := context.Background()
	if err := m.SetVarsFromJSON(vars); err != nil {
		return fin("vars", err)
	}
	if err := m.ResolveResources(ctx, store); err != nil {
		return fin("resources", err)
	}
	if err := m.ResolveBalances(ctx, store); err != nil {
		return fin("balances", err)
	}
	res.resolved = map[c22Key]bool{}
	for acc, bs := range m.Balances {
		for as := range bs {
			res.resolved[c22Key{string(acc), string(as)}] = true
		}
	}
	if err := m.Execute(); err != nil {
		return fin("execute", err)
	}
	res.postings = m.Postings
	res.tracked = map[string]map[string]*big.Int{}
	for acc, bs := range m.Balances {
		res.tracked[string(acc)] = map[string]*big.Int{}
		for as, b := range bs {
			res.tracked[string(acc)][string(as)] = new(big.Int).Set(b.ToBigInt())
		}
	}
	res.txMeta = m.GetTxMetaJSON()
	res.accMeta = map[string]map[string]string{}
	for a, md := range m.GetAccountsMetaJSON() {
		res.accMeta[a] = md
	}
	return fin("ok", nil)
}

// ---- independent model ---------------------------------------------------------

type c22Key struct{ acc, asset string }

type c22Ledger struct {
	w     *gen.NSWorld
	bal   map[c22Key]*big.Int // initial + postings applied so far
	saved map[c22Key]*big.Int // set aside by `save`
	over  map[c22Key]bool     // a save exceeded what the account held
}

func (l *c22Ledger) b(k c22Key) *big.Int {
	if v, ok := l.bal[k]; ok {
		return v
	}
	v := l.w.Balance(k.acc, k.asset)
	l.bal[k] = v
	return v
}

func (l *c22Ledger) s(k c22Key) *big.Int {
	if v, ok := l.saved[k]; ok {
		return v
	}
	v := new(big.Int)
	l.saved[k] = v
	return v
}

// free = balance not set aside.
func (l *c22Ledger) free(k c22Key) *big.Int { return new(big.Int).Sub(l.b(k), l.s(k)) }

func c22Min(a, b *big.Int) *big.Int {
	if a.Cmp(b) <= 0 {
		return a
	}
	return b
}

// c22Allocate: documented allotment rule (floor shares; leftover units one by
// one to the first parts).
func c22Allocate(amount *big.Int, ps []*gen.NSPortion) []*big.Int {
	sum := new(big.Rat)
	for _, p := range ps {
		if !p.Remaining {
			sum.Add(sum, p.Rat)
		}
	}
	out := make([]*big.Int, len(ps))
	total := new(big.Int)
	for i, p := range ps {
		r := p.Rat
		if p.Remaining {
			r = new(big.Rat).Sub(big.NewRat(1, 1), sum)
		}
		x := new(big.Int).Mul(amount, r.Num())
		x.Quo(x, r.Denom())
		out[i] = x
		total.Add(total, x)
	}
	for i := range out {
		if total.Cmp(amount) >= 0 {
			break
		}
		out[i].Add(out[i], big.NewInt(1))
		total.Add(total, big.NewInt(1))
	}
	return out
}

// c22Kept: how much of `amount` entering destination d ends in `kept`.
func c22Kept(d *gen.NSDest, amount *big.Int) *big.Int {
	kept := new(big.Int)
	give := func(it *gen.NSDestItem, x *big.Int) {
		if it.Kept {
			kept.Add(kept, x)
		} else {
			kept.Add(kept, c22Kept(it.To, x))
		}
	}
	switch d.Kind {
	case "account":
	case "inorder":
		left := new(big.Int).Set(amount)
		for i, it := range d.Items {
			if i == len(d.Items)-1 {
				give(it, left)
				break
			}
			c := it.Cap.Value()
			if c.Sign() < 0 {
				c = new(big.Int)
			}
			x := new(big.Int).Set(c22Min(c, left))
			left.Sub(left, x)
			give(it, x)
		}
	default:
		var ps []*gen.NSPortion
		for _, it := range d.Items {
			ps = append(ps, it.Portion)
		}
		for i, x := range c22Allocate(amount, ps) {
			give(d.Items[i], x)
		}
	}
	return kept
}

// c22Take: funds a (non-allotment) source yields when asked for up to `limit`
// (nil = everything: send [A *]). avail is the statement-local view of what is
// free on each account. ok=false when the documented semantics do not define
// the result.
func c22Take(l *c22Ledger, avail map[string]*big.Int, asset string, s *gen.NSSource, limit *big.Int) (*big.Int, bool) {
	switch s.Kind {
	case "account":
		name := s.Account.Name
		if name == "world" || s.Overdraft == "unbounded" {
			if limit == nil {
				return nil, false
			}
			if name != "world" {
				// the account is debited all the same: a later bounded use sees less
				a, ok := avail[name]
				if !ok {
					a = l.free(c22Key{name, asset})
					avail[name] = a
				}
				a.Sub(a, limit)
			}
			return new(big.Int).Set(limit), true
		}
		k := c22Key{name, asset}
		if l.over[k] {
			return nil, false
		}
		a, ok := avail[name]
		if !ok {
			a = l.free(k)
			avail[name] = a
		}
		x := new(big.Int).Set(a)
		if s.Overdraft == "bounded" {
			if s.Bound.AssetName != asset {
				return nil, false
			}
			x.Add(x, s.Bound.Value())
		}
		if x.Sign() < 0 {
			x.SetInt64(0)
		}
		if limit != nil {
			x = new(big.Int).Set(c22Min(x, limit))
		}
		a.Sub(a, x)
		return x, true
	case "max":
		c := s.Cap.Value()
		if c.Sign() < 0 || s.Cap.AssetName != asset {
			return nil, false
		}
		if limit != nil {
			c = c22Min(c, limit)
		}
		return c22Take(l, avail, asset, s.Sub, c)
	case "inorder":
		total := new(big.Int)
		var left *big.Int
		if limit != nil {
			left = new(big.Int).Set(limit)
		}
		for _, c := range s.Subs {
			x, ok := c22Take(l, avail, asset, c, left)
			if !ok {
				return nil, false
			}
			total.Add(total, x)
			if left != nil {
				left.Sub(left, x)
			}
		}
		return total, true
	}
	return nil, false
}

type c22Violation struct {
	sig     string
	detail  map[string]any
	generic string // signature before a root-cause specific one replaced it
}

func c22PostingsJSON(ps []vm.Posting) []string {
	out := make([]string, len(ps))
	for i, p := range ps {
		out[i] = fmt.Sprintf("%s -> %s [%s %s]", p.Source, p.Destination, p.Asset, p.Amount.String())
	}
	return out
}

// c22Oracle judges one successful run. It returns the C22 violations, and the
// final per-(account, asset) balances initial+postings for C23.
func c22Oracle(p *gen.NSProgram, res c22Result, stats func(string)) []c22Violation {
	var out []c22Violation
	dupBalance := p.Uses()["dup_balance_account"]
	add := func(sig string, extra map[string]any) {
		generic := sig
		if dupBalance && !strings.HasPrefix(sig, "C22/posting to an account") {
			// known root cause (Machine.UnresolvedResourceBalances is keyed by account only: the
			// first of two balance() variables on one account keeps a nil amount, read as 0)
			extra["generic_signature"] = sig
			sig = "C22/amounts wrong in a program with two balance() variables on one account (the first one resolves to nil, i.e. 0)"
		}
		d := map[string]any{"program": p.Text, "vars": p.Vars, "balances": p.World.Balances, "meta": p.World.Meta,
			"postings": c22PostingsJSON(res.postings), "sends": p.Sends}
		for k, v := range extra {
			d[k] = v
		}
		out = append(out, c22Violation{sig, d, generic})
	}
	owner := map[string]int{} // destination account -> index in p.Sends
	for i, sd := range p.Sends {
		for _, d := range sd.Destinations {
			owner[d] = i
		}
	}
	per := make([][]vm.Posting, len(p.Sends))
	for _, po := range res.postings {
		i, ok := owner[po.Destination]
		if !ok {
			add("C22/posting to an account that no send statement names as destination", map[string]any{"posting": c22PostingsJSON([]vm.Posting{po})})
			continue
		}
		per[i] = append(per[i], po)
		if po.Amount.ToBigInt().Sign() < 0 {
			add("C22/negative posting amount", map[string]any{"posting": c22PostingsJSON([]vm.Posting{po})})
		}
		if po.Asset != p.Sends[i].Asset {
			add("C22/posting in an asset other than the statement's", map[string]any{"posting": c22PostingsJSON([]vm.Posting{po}), "statement_asset": p.Sends[i].Asset})
		}
	}
	l := &c22Ledger{w: p.World, bal: map[c22Key]*big.Int{}, saved: map[c22Key]*big.Int{}, over: map[c22Key]bool{}}
	si := 0
	for _, st := range p.Stmts {
		switch st.Kind {
		case "save":
			k := c22Key{st.Account.Name, st.AssetName()}
			free := l.free(k)
			if st.All {
				if free.Sign() > 0 {
					l.s(k).Add(l.s(k), free)
				}
			} else {
				n := st.Mon.Value()
				if free.Sign() < 0 || n.Cmp(free) > 0 {
					l.over[k] = true
				}
				l.s(k).Add(l.s(k), n)
			}
		case "send":
			sd := p.Sends[si]
			var amt *big.Int
			judged := true
			if st.All {
				a, ok := c22Take(l, map[string]*big.Int{}, sd.Asset, st.Source, nil)
				if !ok {
					judged = false
					stats("send_all_not_judged")
				} else {
					amt = a
					stats("send_all_judged")
				}
			} else {
				amt = st.Mon.Value()
				if amt.Sign() < 0 {
					add("C22/successful send of a negative amount", map[string]any{"statement": si})
					judged = false
				}
			}
			sum := new(big.Int)
			for _, po := range per[si] {
				sum.Add(sum, po.Amount.ToBigInt())
			}
			if judged {
				kept := c22Kept(st.Dest, amt)
				want := new(big.Int).Sub(amt, kept)
				if sd.Kept {
					stats("sends_with_kept_judged")
					if kept.Sign() > 0 {
						stats("sends_with_nonzero_kept")
					}
				}
				if sum.Cmp(want) != 0 {
					kind := "send"
					if st.All {
						kind = "send-all"
					}
					add(fmt.Sprintf("C22/%s postings do not sum to the sent amount (kept used: %t)", kind, sd.Kept),
						map[string]any{"statement": si, "sent": amt.String(), "expected_kept": kept.String(), "expected_sum": want.String(), "actual_sum": sum.String()})
				}
			}
			for _, po := range per[si] {
				a := po.Amount.ToBigInt()
				ks, kd := c22Key{po.Source, po.Asset}, c22Key{po.Destination, po.Asset}
				l.b(ks).Sub(l.b(ks), a)
				l.b(kd).Add(l.b(kd), a)
			}
			si++
		}
	}
	// tracked balances = initial + postings (- what `save` set aside)
	var accs []string
	for a := range res.tracked {
		accs = append(accs, a)
	}
	sort.Strings(accs)
	for _, a := range accs {
		for as, got := range res.tracked[a] {
			k := c22Key{a, as}
			want := l.free(k)
			if !res.resolved[k] {
				// the pair was never read from the store: Machine.Balances gained it during execution
				// (OP_REPAY on an account tracked for another asset). Such a pair is never read by
				// a withdrawal (bounded sources are resolved up front) and is not a tracked balance in
				// the property's sense: counted, not judged.
				stats("untracked_pairs_added_to_balances_during_execution")
				if got.Cmp(want) != 0 {
					stats("untracked_pairs_added_holding_not_initial_plus_postings")
				}
				continue
			}
			stats("tracked_pairs_compared")
			if got.Cmp(want) != 0 {
				hasSave := l.s(k).Sign() != 0
				add(fmt.Sprintf("C22/tracked balance differs from initial + postings (save on the pair: %t)", hasSave),
					map[string]any{"account": a, "asset": as, "tracked": got.String(), "expected": want.String(), "saved": l.s(k).String()})
			}
		}
	}
	return out
}

// ---- workload -------------------------------------------------------------------

func c22Workload(r *core.Run, which string) {
	var mu sync.Mutex
	var panics []map[string]any
	r.Floor("distinct_nontrivial", 300)
	r.Floor("successful_runs", 3000)
	if which == "C22" {
		r.Floor("sends_checked", 3000)
		r.Floor("send_all_judged", 300)
		r.Floor("sends_with_nonzero_kept", 300)
		r.Floor("tracked_pairs_compared", 3000)
	} else {
		r.Floor("bounded_sources_debited", 3000)
		r.Floor("bounded_sources_with_overdraft_judged", 300)
	}
	r.ForEach("main", r.N(20_000, 1_000_000), 0, func(c *core.Case) {
		p := gen.GenNumscript(c.Rng, gen.NSOptions{})
		res := c22RunMachine(p)
		for _, st := range p.Stmts {
			r.Count("stmt_"+st.Kind, 1)
			if st.Kind == "send" {
				if st.All {
					r.Count("stmt_send_all", 1)
				}
				r.Count("send_source_"+st.Source.Kind, 1)
				r.Count("send_dest_"+st.Dest.Kind, 1)
			}
		}
		r.Seen("error_classes", res.class)
		if res.err != nil {
			r.Count("failed_runs", 1)
			r.Count("failed_"+res.class, 1)
			if res.class == "panic" {
				mu.Lock()
				if len(panics) < 3 {
					panics = append(panics, map[string]any{"program": p.Text, "vars": p.Vars, "panic": res.err.Error(), "case": c.Index})
				}
				mu.Unlock()
			}
			if res.class == "compile_error" || res.class == "panic" || strings.HasPrefix(res.class, "other_") {
				r.Seen("unexpected_failures", res.class+": "+c22Short(res.err.Error()))
			}
		} else {
			r.Count("successful_runs", 1)
			r.Count("postings_observed", int64(len(res.postings)))
		}
		for f := range p.Features {
			r.Count("runs_with_"+f, 1)
			if res.err == nil {
				r.Count("ok_runs_with_"+f, 1)
			}
		}
		if c.Index < 3 {
			r.Sample(map[string]any{"program": p.Text, "vars": p.Vars, "sends": p.Sends, "result": res.class, "postings": c22PostingsJSON(res.postings)})
		}
		if which == "C22" {
			nonzero := false
			for _, po := range res.postings {
				if po.Amount.ToBigInt().Sign() != 0 {
					nonzero = true
				}
			}
			r.Eval(p.Shape(), res.err == nil && nonzero)
			if res.err != nil {
				return
			}
			r.Count("sends_checked", int64(len(p.Sends)))
			for _, v := range c22Oracle(p, res, func(k string) { r.Count(k, 1) }) {
				sig, generic := v.sig, v.generic
				min := gen.ShrinkNumscript(p, func(q *gen.NSProgram) bool {
					qr := c22RunMachine(q)
					if qr.err != nil {
						return false
					}
					for _, w := range c22Oracle(q, qr, func(string) {}) {
						if w.sig == sig && w.generic == generic {
							return true
						}
					}
					return false
				}, 1500)
				c22AttachMinimised(v.detail, min)
				for _, w := range c22Oracle(min, c22RunMachine(min), func(string) {}) {
					if w.sig == sig && w.generic == generic {
						obs := map[string]any{}
						for k, x := range w.detail {
							switch k {
							case "program", "vars", "balances", "meta", "postings", "sends":
							default:
								obs[k] = x
							}
						}
						v.detail["minimised_observation"] = obs
						break
					}
				}
				c.Violation(v.sig, v.detail)
			}
			return
		}
		for _, v := range c23Judge(r, p, res, true) {
			sig := v.sig
			min := gen.ShrinkNumscript(p, func(q *gen.NSProgram) bool {
				for _, w := range c23Judge(r, q, c22RunMachine(q), false) {
					if w.sig == sig {
						return true
					}
				}
				return false
			}, 1500)
			c22AttachMinimised(v.detail, min)
			c.Violation(v.sig, v.detail)
		}
	})
	if len(panics) > 0 {
		r.Extra("machine_panic_witnesses", panics)
	}
}

func c22Short(s string) string {
	s = strings.ReplaceAll(s, "\n", " ")
	if len(s) > 90 {
		s = s[:90]
	}
	return s
}

func c22AttachMinimised(detail map[string]any, min *gen.NSProgram) {
	mr := c22RunMachine(min)
	used := map[string]map[string]string{}
	for a, bs := range min.World.Balances {
		if strings.Contains(min.Text, "@"+a) || c26VarsMention(min.Vars, a) {
			used[a] = map[string]string{}
			for as, b := range bs {
				used[a][as] = b.String()
			}
		}
	}
	detail["minimised_program"] = min.Text
	detail["minimised_vars"] = min.Vars
	detail["minimised_balances_of_mentioned_accounts"] = used
	detail["minimised_all_balances"] = min.World.Balances
	detail["minimised_meta"] = min.World.Meta
	detail["minimised_postings"] = c22PostingsJSON(mr.postings)
}
