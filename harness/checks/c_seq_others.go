package checks

import (
	"fmt"
	"math/rand"
	"strings"

	"github.com/formancehq/ledger/verifharness/core"
	"github.com/formancehq/ledger/verifharness/sim"
)

func init() {
	core.Register(&core.Check{
		ID: "C15", Level: "exploration",
		Rule:        "sequential histories with 35% reverts over all (force x atEffectiveDate) combinations, reverts of reverts, repeated reverts; each successful revert is compared structurally (reverse order, swapped, revert mark, timestamp rule) and through the reference fold; repeated reverts must answer already-reverted with no effect. Concurrent reverts are in the controlled-interleaving part. Distinct = sequence of (op shape, outcome class); non-trivial = >=1 committed revert and >=1 refused revert",
		Assumptions: []string{seqAssume},
		Run: func(r *core.Run) {
			reverts := 0
			_ = reverts
			if r.RaceMode { // the sequential part is not what the race detector is for
				runConcurrent(r, "C15")
				return
			}
			runSeq(r, seqConfig{Prop: "C15", Histories: [2]int{200, 4000}, OpsPer: [2]int{30, 50},
				Mutate: func(op *sim.Op, rng *rand.Rand, st *sim.GenState) {
					if len(st.TxIDs) > 0 && rng.Intn(100) < 30 {
						*op = sim.Op{Kind: "revert", TxID: st.TxIDs[rng.Intn(len(st.TxIDs))], Force: rng.Intn(2) == 0, AtEffectiveDate: rng.Intn(2) == 0}
					}
				},
				NonTrivial: func(m *sim.Mirror) bool { return m.Classes["ok"] > 0 && m.Classes[sim.CAlreadyReverted] > 0 },
			})
			runConcurrent(r, "C15")
		},
	})
	core.Register(&core.Check{
		ID: "C17", Level: "exploration",
		Rule:        "sequential histories dominated by metadata saves/deletes on accounts and transactions, mixed with transactions that set metadata (request metadata, account metadata at creation, script set_tx_meta / set_account_meta); current metadata of every account and transaction is compared with a last-write-wins reference after every committed write. Distinct = sequence of (op shape, outcome class); non-trivial = >=3 committed metadata operations. History gates: 6 point-in-time probes (list/get/count on transactions and accounts) x 48 feature sets through the real storage/ledger store over a recording SQL driver; distinct = (tx-history value, account-history value, probe), non-trivial = the two history features differ",
		Assumptions: []string{seqAssume, "the CONTENT of point-in-time metadata reads is decided by SQL triggers and joins and is not observed; which table a point-in-time read is routed to (history table iff the resource's *_METADATA_HISTORY feature is SYNC) is observed on the SQL emitted by the real store under all 48 feature combinations"},
		Run: func(r *core.Run) {
			runC17HistoryGates(r)
			runSeq(r, seqConfig{Prop: "C17", Histories: [2]int{200, 4000}, OpsPer: [2]int{35, 60},
				Mutate: func(op *sim.Op, rng *rand.Rand, st *sim.GenState) {
					if rng.Intn(100) < 35 {
						switch rng.Intn(4) {
						case 0:
							*op = sim.Op{Kind: "save_acc_meta", Address: sim.GenAccounts[rng.Intn(len(sim.GenAccounts))], Metadata: nonEmptyMeta(rng)}
						case 1:
							*op = sim.Op{Kind: "del_acc_meta", Address: sim.GenAccounts[rng.Intn(len(sim.GenAccounts))], Key: []string{"k1", "k2", "color", "tag"}[rng.Intn(4)]}
						case 2:
							if len(st.TxIDs) > 0 {
								*op = sim.Op{Kind: "save_tx_meta", TxID: st.TxIDs[rng.Intn(len(st.TxIDs))], Metadata: nonEmptyMeta(rng)}
							}
						case 3:
							if len(st.TxIDs) > 0 {
								*op = sim.Op{Kind: "del_tx_meta", TxID: st.TxIDs[rng.Intn(len(st.TxIDs))], Key: []string{"k1", "k2", "color", "tag"}[rng.Intn(4)]}
							}
						}
					}
				},
				NonTrivial: func(m *sim.Mirror) bool { return m.Committed >= 3 },
			})
		},
	})
	core.Register(&core.Check{
		ID: "C18", Level: "exploration",
		Rule:        "sequential histories with back-dated, future-dated and tied timestamps, metadata-only accounts, failed and dry-run writes naming new accounts; the listed account set and every firstUsage are compared with the reference (min effective timestamp of committed events) after every committed write. Distinct = sequence of (op shape, outcome class); non-trivial = >=1 back-dated transaction committed after a later-dated one",
		Assumptions: []string{seqAssume},
		Run: func(r *core.Run) {
			runSeq(r, seqConfig{Prop: "C18", Histories: [2]int{200, 4000}, OpsPer: [2]int{30, 50}})
		},
	})
	core.Register(&core.Check{
		ID: "C25", Level: "exploration",
		Rule:        "random postings lists (1-20 postings, repeated accounts, source==destination, world either side, zero and huge amounts) through TransactionRequest-equivalent parameters -> TxToScriptData -> compile -> execute -> commit, against the balances accumulated by the history; recorded postings must equal the submitted list and the insufficient-funds outcome must equal a 15-line sequential applicator (cases where a zero-amount posting draws on an already negative account are counted as ambiguous and excluded). Distinct = sequence of (op shape, outcome class); non-trivial = >=1 accepted and >=1 refused postings request",
		Assumptions: []string{seqAssume},
		Run: func(r *core.Run) {
			runSeq(r, seqConfig{Prop: "C25", Histories: [2]int{250, 5000}, OpsPer: [2]int{30, 50},
				Tune: func(st *sim.GenState, rng *rand.Rand) { st.NoScripts = true },
				Mutate: func(op *sim.Op, rng *rand.Rand, st *sim.GenState) {
					if op.Kind != "postings" && rng.Intn(100) < 60 {
						*op = sim.Op{Kind: "postings", Postings: c25Postings(rng), Force: rng.Intn(10) == 0}
					}
					op.IK = ""
				},
				NonTrivial: func(m *sim.Mirror) bool { return m.Classes["ok"] > 0 && m.Classes[sim.CInsufficient] > 0 },
			})
		},
	})
	core.Register(&core.Check{
		ID: "C08", Level: "exploration",
		Rule:        "random sequential histories of all write kinds: every successful non-dry-run write must append exactly one log, every other operation none, ids increasing; at the end the exported logs (JSON round trip, as export/import do) are replayed through the real Import into a fresh ledger and the two committed snapshots compared. Distinct = sequence of (op shape, outcome class); non-trivial = history committed >=3 kinds of log",
		Assumptions: []string{seqAssume, "log id order under real Postgres sequences is C16 (not applicable)"},
		Run: func(r *core.Run) {
			if r.RaceMode { // the sequential part is not what the race detector is for
				runConcurrent(r, "C08")
				return
			}
			runSeq(r, seqConfig{Prop: "C08", Histories: [2]int{150, 3000}, OpsPer: [2]int{30, 50}, After: c08Replay})
			runConcurrent(r, "C08")
		},
	})
}

func nonEmptyMeta(rng *rand.Rand) map[string]string {
	m := sim.GenMeta(rng, 3)
	if m == nil {
		m = map[string]string{"k1": sim.StrPool[rng.Intn(len(sim.StrPool))]}
	}
	return m
}

func c25Postings(rng *rand.Rand) []sim.P {
	n := 1 + rng.Intn(4)
	if rng.Intn(6) == 0 {
		n = 5 + rng.Intn(16)
	}
	ps := make([]sim.P, 0, n)
	for i := 0; i < n; i++ {
		src := sim.GenAccounts[rng.Intn(len(sim.GenAccounts))]
		if rng.Intn(100) < 35 {
			src = "world"
		}
		dst := sim.GenAccounts[rng.Intn(len(sim.GenAccounts))]
		if rng.Intn(10) == 0 {
			dst = src
		}
		if len(ps) > 0 && rng.Intn(3) == 0 {
			src = ps[len(ps)-1].Destination
		}
		ps = append(ps, sim.P{Source: src, Destination: dst, Asset: sim.GenAssets[rng.Intn(len(sim.GenAssets))], Amount: sim.Amount(rng, true).String()})
	}
	if rng.Intn(4) == 0 {
		// two postings whose (asset, amount) pairs collide under naive textual keys: the digits D
		// are split differently between the end of the asset name and the amount (AB1|23 vs AB12|3,
		// USD/2|15 vs USD/21|5), as are keys ignoring source/destination (same pair, other accounts)
		base := []string{"AB", "USD/", "COIN", "X9"}[rng.Intn(4)]
		digits := fmt.Sprint(1000 + rng.Intn(9000)) // 4 digits
		i, j := rng.Intn(3), rng.Intn(3)            // digits moved into the asset name: 0..2
		if base == "USD/" {
			i, j = 1+rng.Intn(2), 1+rng.Intn(2)
		}
		mk := func(k int) (string, string) {
			amt := strings.TrimLeft(digits[k:], "0")
			if amt == "" {
				amt = "0"
			}
			return base + digits[:k], amt
		}
		a1, n1 := mk(i)
		a2, n2 := mk(j)
		ps = append(ps, sim.P{Source: "world", Destination: sim.GenAccounts[rng.Intn(len(sim.GenAccounts))], Asset: a1, Amount: n1},
			sim.P{Source: "world", Destination: sim.GenAccounts[rng.Intn(len(sim.GenAccounts))], Asset: a2, Amount: n2})
	}
	return ps
}

// runConcurrent is the controlled-interleaving / free-running part (concurrent.go).
var runConcurrent = func(r *core.Run, prop string) {}

var c08Replay = func(c *core.Case, m *sim.Mirror) {}
