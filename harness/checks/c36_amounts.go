package checks

import (
	"encoding/json"
	"fmt"
	"math/big"
	"strings"

	"github.com/formancehq/ledger/verifharness/core"
	"github.com/formancehq/ledger/verifharness/sim"
)

func init() {
	core.Register(&core.Check{
		ID: "C36", Level: "exploration",
		Rule:        "amounts from the pool {0,1,2^53±1,2^63±1,2^64±1,10^30, random <= 2^200} submitted through v2 and v1 HTTP as: posting amount (JSON number), Numscript literal, monetary variable as string, monetary variable as {asset, amount:\"<string>\"} and as {asset, amount:<JSON number>}; the committed amount is then read back from the create response, GET transaction, the account (expand=volumes), volumes listing, aggregated balances, the logs listing and a balance filter (balance[A] >= x / > x), all compared as exact decimal strings. Distinct = (submission form, API version, amount class); non-trivial = amount >= 2^53",
		Assumptions: []string{seqAssume, "Postgres numeric is not exercised"},
		Run:         runC36,
	})
}

func amountClass(n *big.Int) string {
	switch {
	case n.BitLen() == 0:
		return "zero"
	case n.BitLen() <= 52:
		return "small"
	case n.BitLen() <= 63:
		return "2^53..2^63"
	case n.BitLen() <= 64:
		return "2^63..2^64"
	default:
		return ">2^64"
	}
}

// findAmounts walks decoded JSON (UseNumber) and collects every number found under keys named k.
func collectNumbers(v any, key string, out *[]string) {
	switch x := v.(type) {
	case map[string]any:
		for k, vv := range x {
			if k == key {
				if n, ok := vv.(json.Number); ok {
					*out = append(*out, n.String())
				}
			}
			collectNumbers(vv, key, out)
		}
	case []any:
		for _, vv := range x {
			collectNumbers(vv, key, out)
		}
	}
}

func decodeNum(b []byte) any {
	d := json.NewDecoder(strings.NewReader(string(b)))
	d.UseNumber()
	var v any
	_ = d.Decode(&v)
	return v
}

func runC36(r *core.Run) {
	forms := []string{"posting", "literal", "var-string", "var-object-string", "var-object-number"}
	n := r.N(1500, 40000)
	r.ForEach("amount", n, 0, func(c *core.Case) {
		rng := c.Rng
		form := forms[c.Index%len(forms)]
		api := []string{"v2", "v1"}[(c.Index/len(forms))%2]
		amt := sim.Amount(rng, true)
		if rng.Intn(2) == 0 {
			// force a big one
			for amt.BitLen() < 53 {
				amt = sim.Amount(rng, false)
			}
		}
		e := sim.NewEnv(sim.Options{})
		defer e.Close()
		_ = e.CreateLedger("l1", "_default", nil)
		prefix := "/v2/l1"
		if api == "v1" {
			prefix = "/l1"
		}
		script := func(vars string) string {
			plain := "vars {\n monetary $m\n}\nsend $m (\n source = @world\n destination = @big\n)\n"
			b, _ := json.Marshal(plain)
			return fmt.Sprintf(`{"script":{"plain":%s,"vars":{"m":%s}}}`, b, vars)
		}
		var body string
		switch form {
		case "posting":
			body = fmt.Sprintf(`{"postings":[{"source":"world","destination":"big","asset":"USD","amount":%s}]}`, amt)
		case "literal":
			plain, _ := json.Marshal(fmt.Sprintf("send [USD %s] (\n source = @world\n destination = @big\n)\n", amt))
			body = fmt.Sprintf(`{"script":{"plain":%s,"vars":{}}}`, plain)
		case "var-string":
			body = script(fmt.Sprintf(`"USD %s"`, amt))
		case "var-object-string":
			body = script(fmt.Sprintf(`{"asset":"USD","amount":"%s"}`, amt))
		case "var-object-number":
			body = script(fmt.Sprintf(`{"asset":"USD","amount":%s}`, amt))
		}
		resp := e.Do("POST", prefix+"/transactions", []byte(body), nil)
		shape := fmt.Sprintf("%s|%s|%s", form, api, amountClass(amt))
		r.Eval(shape, amt.BitLen() >= 53)
		r.Seen("forms", form+"/"+api)
		r.Seen("create_status", fmt.Sprint(resp.Status))
		detail := func(extra map[string]any) map[string]any {
			d := map[string]any{"form": form, "api": api, "amount": amt.String(), "request": body, "status": resp.Status, "response": string(resp.Body)}
			for k, v := range extra {
				d[k] = v
			}
			return d
		}
		sigc := fmt.Sprintf("%s:%s", form, amountClass(amt))
		if resp.Status >= 500 {
			if len(resp.Body) == 0 {
				e.C.AbortAll()
			}
			c.Violation("C36/server-error-on-amount:"+sigc, detail(nil))
			return
		}
		if amt.Sign() == 0 {
			return // a zero send legitimately yields NO_POSTINGS for scripts
		}
		if resp.Status == 400 && form == "var-object-string" && strings.Contains(string(resp.Body), "unmarshal") {
			// {asset, amount:"<string>"} is not an accepted encoding of a monetary variable on this API version: a client error, not a loss
			r.Count("object_with_string_amount_refused_as_invalid_input", 1)
			return
		}
		if resp.Status != 200 {
			c.Violation(fmt.Sprintf("C36/amount-refused-status-%d:%s", resp.Status, sigc), detail(nil))
			return
		}
		r.Count("amounts_committed", 1)
		want := amt.String()
		check := func(where string, body []byte, key string) {
			var nums []string
			collectNumbers(decodeNum(body), key, &nums)
			found := false
			for _, s := range nums {
				if s == want {
					found = true
				}
			}
			if !found {
				c.Violation("C36/amount-altered:"+where+":"+sigc, detail(map[string]any{"where": where, "numbers_found": nums, "want": want, "body": string(body)}))
			}
		}
		check("create-response", resp.Body, "amount")
		check("create-response-volumes", resp.Body, "input")
		check("get-transaction", e.Do("GET", prefix+"/transactions/1", nil, nil).Body, "amount")
		check("list-transactions", e.Do("GET", prefix+"/transactions", nil, nil).Body, "amount")
		check("get-account-volumes", e.Do("GET", "/v2/l1/accounts/big?expand=volumes", nil, nil).Body, "input")
		check("volumes-listing", e.Do("GET", "/v2/l1/volumes", nil, nil).Body, "input")
		check("volumes-listing-balance", e.Do("GET", "/v2/l1/volumes", nil, nil).Body, "balance")
		check("logs-listing", e.Do("GET", "/v2/l1/logs", nil, nil).Body, "amount")
		if api == "v1" {
			check("v1-balances", e.Do("GET", "/l1/balances?address=big", nil, nil).Body, "USD")
			check("v1-aggregate", e.Do("GET", "/l1/aggregate/balances?address=big", nil, nil).Body, "USD")
		}
		check("aggregate-balances", e.Do("GET", "/v2/l1/aggregate/balances", []byte(`{"$match":{"address":"big"}}`), nil).Body, "USD")
		// balance filter: >= amount selects, > amount does not
		f1 := e.Do("GET", "/v2/l1/accounts", []byte(fmt.Sprintf(`{"$gte":{"balance[USD]":%s}}`, want)), nil)
		f2 := e.Do("GET", "/v2/l1/accounts", []byte(fmt.Sprintf(`{"$gt":{"balance[USD]":%s}}`, want)), nil)
		if !strings.Contains(string(f1.Body), `"address":"big"`) {
			c.Violation("C36/balance-filter-gte-misses-exact-amount:"+amountClass(amt), detail(map[string]any{"status": f1.Status, "body": string(f1.Body)}))
		}
		if strings.Contains(string(f2.Body), `"address":"big"`) {
			c.Violation("C36/balance-filter-gt-selects-equal-amount:"+amountClass(amt), detail(map[string]any{"status": f2.Status, "body": string(f2.Body)}))
		}
		if c.Index < 3 {
			r.Sample(map[string]any{"form": form, "api": api, "amount": want})
		}
	})

	// other spellings of a JSON number (exponent, decimal point): whatever the API decides about them, an
	// accepted one must be committed with exactly the value it denotes, a refused one must commit nothing
	r.ForEach("spelling", r.N(400, 8000), 0, func(c *core.Case) {
		rng := c.Rng
		d := int64(1 + rng.Intn(9999))
		k := 15 + rng.Intn(18)
		v := new(big.Int).Mul(big.NewInt(d), new(big.Int).Exp(big.NewInt(10), big.NewInt(int64(k)), nil))
		if rng.Intn(3) == 0 {
			// a value that needs more than 64 significant bits and is not a round power of ten
			v.Add(v, big.NewInt(int64(1+rng.Intn(1000)))).Mul(v, big.NewInt(1000))
			d, k = 0, 0
		}
		var spelled string
		switch sp := rng.Intn(4); {
		case d != 0 && sp == 0:
			spelled = fmt.Sprintf("%de+%d", d, k)
		case d != 0 && sp == 1:
			spelled = fmt.Sprintf("%dE%d", d, k)
		case d != 0 && sp == 2:
			spelled = fmt.Sprintf("%d.0e%d", d, k)
		default:
			spelled = v.String() + ".0"
		}
		form := []string{"posting", "var-object-number"}[c.Index%2]
		api := []string{"v2", "v1"}[(c.Index/2)%2]
		e := sim.NewEnv(sim.Options{})
		defer e.Close()
		_ = e.CreateLedger("l1", "_default", nil)
		prefix := "/v2/l1"
		if api == "v1" {
			prefix = "/l1"
		}
		body := fmt.Sprintf(`{"postings":[{"source":"world","destination":"big","asset":"USD","amount":%s}]}`, spelled)
		if form == "var-object-number" {
			plain, _ := json.Marshal("vars {\n monetary $m\n}\nsend $m (\n source = @world\n destination = @big\n)\n")
			body = fmt.Sprintf(`{"script":{"plain":%s,"vars":{"m":{"asset":"USD","amount":%s}}}}`, plain, spelled)
		}
		resp := e.Do("POST", prefix+"/transactions", []byte(body), nil)
		r.Eval("spelling|"+form+"|"+api+"|"+fmt.Sprint(strings.ContainsAny(spelled, "eE"))+"|"+fmt.Sprint(v.BitLen() > 64), v.BitLen() > 64)
		r.Seen("spelling_outcomes", fmt.Sprintf("%s/%s exponent=%v status=%d", form, api, strings.ContainsAny(spelled, "eE"), resp.Status))
		detail := map[string]any{"form": form, "api": api, "spelled": spelled, "denotes": v.String(), "request": body, "status": resp.Status, "response": string(resp.Body)}
		if resp.Status >= 500 {
			if len(resp.Body) == 0 {
				e.C.AbortAll()
			}
			c.Violation("C36/server-error-on-amount-spelling:"+form, detail)
			return
		}
		var committed []string
		for _, t := range e.C.CommittedTransactions("l1") {
			for _, p := range t.Postings {
				committed = append(committed, p.Amount.String())
			}
		}
		detail["committed_amounts"] = committed
		if resp.Status >= 400 {
			r.Count("amount_spellings_refused", 1)
			if len(committed) != 0 {
				c.Violation("C36/refused-amount-spelling-was-committed:"+form, detail)
			}
			return
		}
		r.Count("amount_spellings_accepted", 1)
		if len(committed) != 1 || committed[0] != v.String() {
			c.Violation("C36/accepted-amount-spelling-committed-with-another-value:"+form, detail)
		}
	})
}
