package checks

import (
	"fmt"
	"math/rand"
	"strings"

	"github.com/formancehq/go-libs/v5/pkg/query"
	"github.com/formancehq/go-libs/v5/pkg/storage/bun/paginate"
	"github.com/formancehq/go-libs/v5/pkg/types/pointer"

	ledger "github.com/formancehq/ledger/internal"
	"github.com/formancehq/ledger/internal/storage/common"

	"github.com/formancehq/ledger/verifharness/core"
	"github.com/formancehq/ledger/verifharness/sim"
)

func init() {
	core.Register(&core.Check{
		ID: "C21", Level: "exploration",
		Rule: "ledgers with 0-60 transactions / logs / accounts / volume rows; every listing sorted on a unique key (transactions by id, logs by id, accounts by address, volumes by account incl. grouped volumes, schemas by version) is walked with the REAL storage/common repository, column and offset paginators and cursor codec: forward through every next cursor for page sizes 1..N+1, both orders, random filters; then from every page the previous cursor must return the page before. Oracle: concatenation of pages = the same query answered in one page (and = the committed ids for unfiltered queries). Distinct = (resource, order, page size, row count, filter kind); non-trivial = the walk crossed at least 2 pages",
		Assumptions: []string{seqAssume, "the dataset SQL of resource_*.go (DISTINCT ON / GROUP BY for volumes) and Postgres collation are not executed: rows come from memstore, only the wrapper the repository and paginators add is evaluated (microsql)"},
		Run:  runC21,
	})
}

type c21Page struct {
	keys     []string
	next     string
	previous string
	hasMore  bool
	pageSize int
}

type c21Lister func(q any) (*c21Page, error) // q: initial query or cursor string

func c21Walk(c *core.Case, r *core.Run, name string, list func(cursor string) (*c21Page, error), expected []string, pageSize int, shape string) {
	var pages []*c21Page
	var all []string
	cur := ""
	for i := 0; i < 500; i++ {
		p, err := list(cur)
		if err != nil {
			c.Violation("C21/listing-failed:"+name, map[string]any{"error": err.Error(), "shape": shape, "page": i})
			return
		}
		pages = append(pages, p)
		all = append(all, p.keys...)
		if len(p.keys) > pageSize {
			c.Violation("C21/page-larger-than-page-size:"+name, map[string]any{"shape": shape, "page": i, "len": len(p.keys), "pageSize": pageSize})
		}
		if p.hasMore != (p.next != "") {
			c.Violation("C21/hasMore-disagrees-with-next-cursor:"+name, map[string]any{"shape": shape, "page": i})
		}
		if p.next == "" {
			break
		}
		if len(p.keys) == 0 {
			c.Violation("C21/empty-page-with-next-cursor:"+name, map[string]any{"shape": shape, "page": i})
			return
		}
		cur = p.next
	}
	r.Eval(shape, len(pages) >= 2)
	r.Count("pages_fetched", int64(len(pages)))
	r.Count("walks", 1)
	if strings.Join(all, "|") != strings.Join(expected, "|") {
		kind := "differs"
		seen := map[string]int{}
		for _, k := range all {
			seen[k]++
		}
		for _, k := range expected {
			if seen[k] == 0 {
				kind = "misses-an-element"
			}
		}
		for _, n := range seen {
			if n > 1 {
				kind = "repeats-an-element"
			}
		}
		if kind == "differs" && len(all) == len(expected) {
			kind = "misorders"
		}
		c.Violation("C21/forward-walk-"+kind+":"+name, map[string]any{"shape": shape, "got": all, "want": expected, "pageSize": pageSize})
		return
	}
	if len(pages) > 0 && pages[0].previous != "" {
		c.Violation("C21/first-page-has-a-previous-cursor:"+name, map[string]any{"shape": shape})
	}
	// backward chain: from the last page follow `previous` of each page obtained THROUGH previous, down to the first
	if len(pages) >= 2 {
		cur := pages[len(pages)-1]
		for k := len(pages) - 2; k >= 0; k-- {
			if cur.previous == "" {
				c.Violation("C21/backward-chain-ends-before-the-first-page:"+name, map[string]any{"shape": shape, "stopped_before_page": k})
				return
			}
			p, err := list(cur.previous)
			if err != nil {
				c.Violation("C21/previous-cursor-failed:"+name, map[string]any{"shape": shape, "error": err.Error()})
				return
			}
			r.Count("previous_cursors_followed", 1)
			if strings.Join(p.keys, "|") != strings.Join(pages[k].keys, "|") {
				c.Violation("C21/backward-chain-page-differs-from-forward-page:"+name, map[string]any{"shape": shape, "page": k, "got": p.keys, "want": pages[k].keys, "pageSize": pageSize, "hops": len(pages) - 1 - k})
				return
			}
			cur = p
		}
		if cur.previous != "" {
			c.Violation("C21/first-page-reached-backwards-has-a-previous-cursor:"+name, map[string]any{"shape": shape})
		}
	}
	// backward: from page k (k>=1) previous must be page k-1
	for k := len(pages) - 1; k >= 1; k-- {
		if pages[k].previous == "" {
			c.Violation("C21/page-after-the-first-has-no-previous-cursor:"+name, map[string]any{"shape": shape, "page": k})
			return
		}
		p, err := list(pages[k].previous)
		if err != nil {
			c.Violation("C21/previous-cursor-failed:"+name, map[string]any{"shape": shape, "error": err.Error()})
			return
		}
		r.Count("previous_cursors_followed", 1)
		if strings.Join(p.keys, "|") != strings.Join(pages[k-1].keys, "|") {
			c.Violation("C21/previous-cursor-is-not-the-page-before:"+name, map[string]any{"shape": shape, "page": k, "got": p.keys, "want": pages[k-1].keys, "pageSize": pageSize})
			return
		}
		// and its next must lead back to page k
		if p.next != "" {
			if p2, err := list(p.next); err == nil && strings.Join(p2.keys, "|") != strings.Join(pages[k].keys, "|") {
				c.Violation("C21/next-of-previous-is-not-the-same-page:"+name, map[string]any{"shape": shape, "page": k, "got": p2.keys, "want": pages[k].keys})
				return
			}
		}
	}
}

func pageOf[T any](cur *paginate.Cursor[T], key func(T) string) *c21Page {
	p := &c21Page{next: cur.Next, previous: cur.Previous, hasMore: cur.HasMore, pageSize: cur.PageSize}
	for _, d := range cur.Data {
		p.keys = append(p.keys, key(d))
	}
	return p
}

func runC21(r *core.Run) {
	n := r.N(600, 12000)
	r.Floor("walks", int64(n))
	{
		// process-level warm-up: the FIRST listing this process serves for a resource is on another
		// sort column (odd seeds) or on the id column (even seeds); later walks must not depend on it
		e := sim.NewEnv(sim.Options{})
		_ = e.CreateLedger("l1", "_default", nil)
		for i := 0; i < 5; i++ {
			e.Apply("l1", sim.Op{Kind: "postings", Postings: []sim.P{{Source: "world", Destination: "a", Asset: "USD", Amount: "1"}}})
		}
		col := "id"
		if r.Seed%2 == 1 {
			col = "timestamp"
		}
		_, _ = e.Ctrl("l1").ListTransactions(e.Ctx, common.InitialPaginatedQuery[any]{PageSize: 2, Column: col})
		_, _ = e.Ctrl("l1").ListLogs(e.Ctx, common.InitialPaginatedQuery[any]{PageSize: 2, Column: map[string]string{"id": "id", "timestamp": "date"}[col]})
		r.Extra("first_listing_column_of_the_process", col)
		e.Close()
	}
	r.ForEach("walk", n, 0, func(c *core.Case) {
		rng := c.Rng
		e := sim.NewEnv(sim.Options{})
		defer e.Close()
		_ = e.CreateLedger("l1", "_default", nil)
		rows := rng.Intn(r.N(40, 60))
		if rng.Intn(10) == 0 {
			rows = 0
		}
		if c.Index%16 == 7 {
			// more entities than the largest default page (100) and page sizes around it
			rows = 101 + rng.Intn(40)
			r.Count("walks_over_more_than_100_entities", 1)
		}
		for i := 0; i < rows; i++ {
			acct := fmt.Sprintf("acc:%02d", rng.Intn(12))
			asset := []string{"USD", "EUR/2", "COIN"}[rng.Intn(3)]
			op := sim.Op{Kind: "postings", Postings: []sim.P{{Source: "world", Destination: acct, Asset: asset, Amount: fmt.Sprint(1 + rng.Intn(50))}}}
			if rng.Intn(4) == 0 {
				op.Metadata = map[string]string{"tag": []string{"a", "b"}[rng.Intn(2)]}
			}
			if rng.Intn(5) == 0 {
				op.Timestamp = sim.GenTimestamp(rng, nil)
			}
			e.Apply("l1", op)
			if rng.Intn(8) == 0 {
				e.Apply("l1", sim.Op{Kind: "save_acc_meta", Address: acct, Metadata: map[string]string{"tag": "a"}})
			}
		}
		ctrl := func() interface {
			ListTransactions(ctx interface{ Done() <-chan struct{} }, q common.PaginatedQuery[any]) (*paginate.Cursor[ledger.Transaction], error)
		} {
			return nil
		}
		_ = ctrl
		order := paginate.Order(paginate.OrderAsc)
		if rng.Intn(2) == 0 {
			order = paginate.OrderDesc
		}
		pageSize := 1 + rng.Intn(rows+2)
		if rng.Intn(3) == 0 {
			pageSize = 1 + rng.Intn(4)
		}
		if rows > 100 {
			pageSize = []int{99, 100, 101, 150}[rng.Intn(4)]
		}
		var builder query.Builder
		filter := "none"
		switch rng.Intn(5) {
		case 0:
			builder = query.Match("metadata[tag]", "a")
			filter = "metadata"
		case 1:
			builder = query.Not(query.Match("metadata[tag]", "b"))
			filter = "not-metadata"
		}
		ctx := e.Ctx
		resource := []string{"transactions", "logs", "accounts", "volumes", "volumes-grouped", "transactions-by-timestamp"}[c.Index%6]
		shape := fmt.Sprintf("%s|order=%d|ps=%d|rows=%d|filter=%s", resource, order, pageSize, rows, filter)
		r.Seen("resources", resource)
		switch resource {
		case "transactions":
			b := builder
			if rng.Intn(4) == 0 {
				b = query.Gte("id", 1+rng.Intn(rows+1))
				shape += "+id-range"
			}
			mk := func(ps int) common.InitialPaginatedQuery[any] {
				return common.InitialPaginatedQuery[any]{PageSize: uint64(ps), Order: pointer.For(order), Column: "id", Options: common.ResourceQuery[any]{Builder: b}}
			}
			full, err := e.Ctrl("l1").ListTransactions(ctx, mk(rows+5))
			if err != nil {
				c.Violation("C21/listing-failed:transactions", map[string]any{"error": err.Error(), "shape": shape})
				return
			}
			expected := pageOf(full, func(t ledger.Transaction) string { return fmt.Sprint(*t.ID) }).keys
			if b == nil {
				var ids []string
				for _, t := range e.C.CommittedTransactions("l1") {
					ids = append(ids, fmt.Sprint(*t.ID))
				}
				if order == paginate.OrderDesc {
					for i, j := 0, len(ids)-1; i < j; i, j = i+1, j-1 {
						ids[i], ids[j] = ids[j], ids[i]
					}
				}
				if strings.Join(ids, "|") != strings.Join(expected, "|") {
					c.Violation("C21/single-page-listing-differs-from-committed-ids:transactions", map[string]any{"shape": shape, "got": expected, "want": ids})
					return
				}
			}
			if rng.Intn(3) == 0 {
				// another sort column served by the same process first (listings must not influence each other)
				col := []string{"timestamp", "inserted_at", "updated_at"}[rng.Intn(3)]
				_, _ = e.Ctrl("l1").ListTransactions(ctx, common.InitialPaginatedQuery[any]{PageSize: 3, Order: pointer.For(order), Column: col})
				r.Count("listings_on_another_column_first", 1)
			}
			c21Walk(c, r, "transactions", func(cursor string) (*c21Page, error) {
				var q common.PaginatedQuery[any] = mk(pageSize)
				if cursor != "" {
					var err error
					q, err = common.UnmarshalCursor[any](cursor)
					if err != nil {
						return nil, err
					}
				}
				cur, err := e.Ctrl("l1").ListTransactions(ctx, q)
				if err != nil {
					return nil, err
				}
				return pageOf(cur, func(t ledger.Transaction) string { return fmt.Sprint(*t.ID) }), nil
			}, expected, pageSize, shape)
		case "transactions-by-timestamp":
			// unique only when no explicit timestamps were submitted: skip histories with ties
			seenTs := map[string]bool{}
			unique := true
			for _, t := range e.C.CommittedTransactions("l1") {
				k := t.Timestamp.String()
				if seenTs[k] {
					unique = false
				}
				seenTs[k] = true
			}
			if !unique {
				r.Count("skipped_non_unique_timestamps", 1)
				return
			}
			mk := func(ps int) common.InitialPaginatedQuery[any] {
				return common.InitialPaginatedQuery[any]{PageSize: uint64(ps), Order: pointer.For(order), Column: "timestamp"}
			}
			full, err := e.Ctrl("l1").ListTransactions(ctx, mk(rows+5))
			if err != nil {
				c.Violation("C21/listing-failed:transactions-by-timestamp", map[string]any{"error": err.Error(), "shape": shape})
				return
			}
			expected := pageOf(full, func(t ledger.Transaction) string { return fmt.Sprint(*t.ID) }).keys
			c21Walk(c, r, "transactions-by-timestamp", func(cursor string) (*c21Page, error) {
				var q common.PaginatedQuery[any] = mk(pageSize)
				if cursor != "" {
					var err error
					q, err = common.UnmarshalCursor[any](cursor)
					if err != nil {
						return nil, err
					}
				}
				cur, err := e.Ctrl("l1").ListTransactions(ctx, q)
				if err != nil {
					return nil, err
				}
				return pageOf(cur, func(t ledger.Transaction) string { return fmt.Sprint(*t.ID) }), nil
			}, expected, pageSize, shape)
		case "logs":
			mk := func(ps int) common.InitialPaginatedQuery[any] {
				return common.InitialPaginatedQuery[any]{PageSize: uint64(ps), Order: pointer.For(order), Column: "id"}
			}
			full, err := e.Ctrl("l1").ListLogs(ctx, mk(2*rows+5))
			if err != nil {
				c.Violation("C21/listing-failed:logs", map[string]any{"error": err.Error(), "shape": shape})
				return
			}
			expected := pageOf(full, func(l ledger.Log) string { return fmt.Sprint(*l.ID) }).keys
			c21Walk(c, r, "logs", func(cursor string) (*c21Page, error) {
				var q common.PaginatedQuery[any] = mk(pageSize)
				if cursor != "" {
					var err error
					q, err = common.UnmarshalCursor[any](cursor)
					if err != nil {
						return nil, err
					}
				}
				cur, err := e.Ctrl("l1").ListLogs(ctx, q)
				if err != nil {
					return nil, err
				}
				return pageOf(cur, func(l ledger.Log) string { return fmt.Sprint(*l.ID) }), nil
			}, expected, pageSize, shape)
		case "accounts":
			mk := func(ps int) common.InitialPaginatedQuery[any] {
				return common.InitialPaginatedQuery[any]{PageSize: uint64(ps), Order: pointer.For(order), Column: "address", Options: common.ResourceQuery[any]{Builder: builder}}
			}
			full, err := e.Ctrl("l1").ListAccounts(ctx, mk(rows+20))
			if err != nil {
				c.Violation("C21/listing-failed:accounts", map[string]any{"error": err.Error(), "shape": shape})
				return
			}
			expected := pageOf(full, func(a ledger.Account) string { return a.Address }).keys
			c21Walk(c, r, "accounts", func(cursor string) (*c21Page, error) {
				var q common.PaginatedQuery[any] = mk(pageSize)
				if cursor != "" {
					var err error
					q, err = common.UnmarshalCursor[any](cursor)
					if err != nil {
						return nil, err
					}
				}
				cur, err := e.Ctrl("l1").ListAccounts(ctx, q)
				if err != nil {
					return nil, err
				}
				return pageOf(cur, func(a ledger.Account) string { return a.Address }), nil
			}, expected, pageSize, shape)
		case "volumes", "volumes-grouped":
			opts := ledger.GetVolumesOptions{}
			if resource == "volumes-grouped" {
				opts.GroupLvl = 1 + rng.Intn(2)
			}
			mk := func(ps int) common.InitialPaginatedQuery[ledger.GetVolumesOptions] {
				return common.InitialPaginatedQuery[ledger.GetVolumesOptions]{PageSize: uint64(ps), Order: pointer.For(order), Column: "account", Options: common.ResourceQuery[ledger.GetVolumesOptions]{Builder: builder, Opts: opts}}
			}
			key := func(v ledger.VolumesWithBalanceByAssetByAccount) string { return v.Account + "/" + v.Asset }
			full, err := e.Ctrl("l1").GetVolumesWithBalances(ctx, mk(3*rows+20))
			if err != nil {
				c.Violation("C21/listing-failed:"+resource, map[string]any{"error": err.Error(), "shape": shape})
				return
			}
			expected := pageOf(full, key).keys
			c21Walk(c, r, resource, func(cursor string) (*c21Page, error) {
				var q common.PaginatedQuery[ledger.GetVolumesOptions] = mk(pageSize)
				if cursor != "" {
					var err error
					q, err = common.UnmarshalCursor[ledger.GetVolumesOptions](cursor)
					if err != nil {
						return nil, err
					}
				}
				cur, err := e.Ctrl("l1").GetVolumesWithBalances(ctx, q)
				if err != nil {
					return nil, err
				}
				return pageOf(cur, key), nil
			}, expected, pageSize, shape)
		}
		if c.Index < 3 {
			r.Sample(map[string]any{"shape": shape})
		}
	})
	_ = rand.Int
}
