package checks

import (
	"encoding/json"
	"fmt"
	"math/rand"
	"regexp"
	"strings"

	ledger "github.com/formancehq/ledger/internal"

	"github.com/formancehq/ledger/verifharness/core"
	"github.com/formancehq/ledger/verifharness/sim"
)

func init() {
	core.Register(&core.Check{
		ID: "C29", Level: "exploration",
		Rule: "random charts of accounts (depth <= 4, fixed and variable segments with optional patterns, .self, .metadata defaults; world sometimes missing) x strict/audit enforcement x creates by postings with a known / missing / unknown schema version and accounts drawn from chart-valid and chart-invalid addresses, plus schemas that define transaction templates (create with / without template); oracle: an independent chart matcher written from the documented semantics (fixed segment wins, else variable segment whose pattern matches; leaf or .self = account) and the reference ledger for effects and default metadata. Addresses whose classification depends on an undocumented choice (a fixed segment that dead-ends while the variable sibling would accept) are counted as ambiguous and excluded. Distinct = (mode, version kind, validity of each posting account, outcome); non-trivial = the request names a schema version and at least one account is chart-invalid or gets default metadata",
		Assumptions: []string{seqAssume, "chart semantics taken from the OpenAPI description and chart_test.go"},
		Run:  runC29,
	})
}

type c29Node struct {
	fixed    map[string]*c29Node
	variable *c29Node
	label    string
	pattern  string
	account  bool
	defaults map[string]string
}

func c29Gen(rng *rand.Rand, depth int) *c29Node {
	n := &c29Node{fixed: map[string]*c29Node{}}
	if depth <= 0 || rng.Intn(4) == 0 {
		n.account = true
	} else {
		nf := rng.Intn(3)
		names := []string{"users", "bank", "orders", "main", "fees", "a1"}
		for i := 0; i < nf; i++ {
			n.fixed[names[rng.Intn(len(names))]] = c29Gen(rng, depth-1)
		}
		if rng.Intn(2) == 0 || nf == 0 {
			n.variable = c29Gen(rng, depth-1)
			n.variable.label = []string{"id", "user", "x"}[rng.Intn(3)]
			if rng.Intn(2) == 0 {
				n.variable.pattern = []string{"^[0-9]+$", "^u_[a-z]+$", "^[a-z0-9]{3}$"}[rng.Intn(3)]
			}
		}
		n.account = rng.Intn(3) == 0 // .self
	}
	if n.account && rng.Intn(2) == 0 {
		n.defaults = map[string]string{"kind": []string{"user", "system"}[rng.Intn(2)]}
		if rng.Intn(3) == 0 {
			n.defaults["k1"] = "chart-default"
		}
	}
	return n
}

func (n *c29Node) toJSON() map[string]any {
	out := map[string]any{}
	for k, c := range n.fixed {
		out[k] = c.toJSON()
	}
	if n.variable != nil {
		m := n.variable.toJSON()
		if n.variable.pattern != "" {
			m[".pattern"] = n.variable.pattern
		}
		out["$"+n.variable.label] = m
	}
	leaf := len(n.fixed) == 0 && n.variable == nil
	if n.account && !leaf {
		out[".self"] = map[string]any{}
	}
	if n.account && n.defaults != nil {
		md := map[string]any{}
		for k, v := range n.defaults {
			md[k] = map[string]any{"default": v}
		}
		out[".metadata"] = md
	}
	return out
}

// classify: accepted?, defaults, ambiguous
func c29Classify(root map[string]*c29Node, addr string) (bool, map[string]string, bool) {
	segs := strings.Split(addr, ":")
	fixed := root
	var variable *c29Node
	var cur *c29Node
	ambiguous := false
	for i, s := range segs {
		var next *c29Node
		if f, ok := fixed[s]; ok {
			next = f
			if variable != nil && (variable.pattern == "" || regexp.MustCompile(variable.pattern).MatchString(s)) {
				ambiguous = true // both would match: fixed wins in the implementation; undocumented if the fixed path dead-ends
			}
		} else if variable != nil && (variable.pattern == "" || regexp.MustCompile(variable.pattern).MatchString(s)) {
			next = variable
		}
		if next == nil {
			return false, nil, false
		}
		cur = next
		fixed, variable = next.fixed, next.variable
		_ = i
	}
	if cur == nil || !cur.account {
		return false, nil, ambiguous
	}
	return true, cur.defaults, false
}

func (n *c29Node) sampleAddress(rng *rand.Rand, prefix []string, out *[]string) {
	if n.account {
		*out = append(*out, strings.Join(prefix, ":"))
	}
	for k, c := range n.fixed {
		c.sampleAddress(rng, append(append([]string{}, prefix...), k), out)
	}
	if n.variable != nil {
		seg := map[string]string{"^[0-9]+$": fmt.Sprint(rng.Intn(1000)), "^u_[a-z]+$": "u_bob", "^[a-z0-9]{3}$": "a1b", "": "anything"}[n.variable.pattern]
		n.variable.sampleAddress(rng, append(append([]string{}, prefix...), seg), out)
	}
}

func runC29(r *core.Run) {
	n := r.N(500, 12000)
	r.Floor("strict_requests_with_invalid_account", int64(n/20))
	r.ForEach("chart", n, 0, func(c *core.Case) {
		rng := c.Rng
		strict := c.Index%2 == 0
		root := map[string]*c29Node{}
		for _, k := range []string{"users", "bank", "orders"}[:1+rng.Intn(3)] {
			root[k] = c29Gen(rng, 3)
		}
		hasWorld := rng.Intn(5) > 0
		if hasWorld {
			root["world"] = &c29Node{fixed: map[string]*c29Node{}, account: true}
		}
		chartJSON := map[string]any{}
		for k, nd := range root {
			chartJSON[k] = nd.toJSON()
		}
		withTemplates := rng.Intn(5) == 0
		schemaDoc := map[string]any{"chart": chartJSON}
		if withTemplates {
			schemaDoc["transactions"] = map[string]any{"pay": map[string]any{"description": "d", "script": "vars {\n account $dst\n}\nsend [USD 1] (\n source = @world\n destination = $dst\n)\n"}}
		}
		sb, _ := json.Marshal(schemaDoc)
		var sd ledger.SchemaData
		if err := json.Unmarshal(sb, &sd); err != nil {
			r.Count("generated_charts_refused_by_the_real_parser", 1)
			r.Seen("chart_parse_errors", firstWords(err.Error(), 6))
			return
		}
		e := sim.NewEnv(sim.Options{Strict: strict})
		defer e.Close()
		_ = e.CreateLedger("l1", "_default", nil)
		m := sim.NewMirror(e, "l1")
		m.Defaults = func(version, addr string) map[string]string {
			if version != "v1" {
				return nil
			}
			ok, d, _ := c29Classify(root, addr)
			if !ok {
				return nil
			}
			return d
		}
		// a pre-schema transaction creating an account with its own metadata (defaults must never overwrite)
		var valid []string
		for k, nd := range root {
			nd.sampleAddress(rng, []string{k}, &valid)
		}
		if len(valid) > 0 {
			a := valid[rng.Intn(len(valid))]
			if a != "world" {
				m.Step(sim.Op{Kind: "save_acc_meta", Address: a, Metadata: map[string]string{"kind": "preexisting"}})
			}
		}
		out := m.Step(sim.Op{Kind: "insert_schema", Version: "v1", Schema: sd})
		if !out.OK() {
			c.Violation("C29/valid-schema-refused:"+out.Class, map[string]any{"schema": string(sb), "error": out.Err.Error()})
			return
		}
		invalidPool := []string{"nope", "users", "users:zzz:zzz:zzz:zzz", "bank:1:2", "orders:!", "ghost:1", "users:0xx", "world:sub"}
		for step := 0; step < 8; step++ {
			pick := func() string {
				if len(valid) > 0 && rng.Intn(3) > 0 {
					return valid[rng.Intn(len(valid))]
				}
				return invalidPool[rng.Intn(len(invalidPool))]
			}
			dst := pick()
			src := "world"
			if rng.Intn(4) == 0 {
				src = pick()
			}
			version := []string{"v1", "v1", "v1", "", "v404"}[rng.Intn(5)]
			op := sim.Op{Kind: "postings", Postings: []sim.P{{Source: src, Destination: dst, Asset: "USD", Amount: "5"}}, SchemaVersion: version, Force: true}
			if withTemplates && rng.Intn(2) == 0 {
				op = sim.Op{Kind: "script", Template: "pay", Vars: map[string]string{"dst": dst}, SchemaVersion: version}
				src = "world"
			}
			okS, _, ambS := c29Classify(root, src)
			okD, defD, ambD := c29Classify(root, dst)
			wellFormed := regexp.MustCompile(`^[a-zA-Z0-9_-]+(:[a-zA-Z0-9_-]+)*$`)
			if !wellFormed.MatchString(src) || !wellFormed.MatchString(dst) {
				continue
			}
			before := e.C.Snapshot("l1").Digest()
			res := m.Step(op)
			after := e.C.Snapshot("l1").Digest()
			shape := fmt.Sprintf("strict=%v|v=%s|tmpl=%v/%v|src=%v|dst=%v|%s", strict, version, withTemplates, op.Template != "", okS, okD, res.Class)
			nt := version == "v1" && (!okS || !okD || len(defD) > 0)
			r.Eval(shape, nt)
			r.Seen("outcomes", fmt.Sprintf("strict=%v:%s", strict, res.Class))
			if ambS || ambD {
				r.Count("ambiguous_excluded", 1)
				continue
			}
			detail := map[string]any{"strict": strict, "schema": string(sb), "op": op, "outcome": res.Class, "source_in_chart": okS, "destination_in_chart": okD}
			if res.Err != nil {
				detail["error"] = res.Err.Error()
			}
			if !res.OK() && before != after {
				c.Violation("C29/rejected-write-had-an-effect", detail)
			}
			usesTemplate := op.Template != ""
			switch {
			case !strict:
				// audit mode accepts violations (template lookups aside)
				// (a template can only be resolved through an existing schema version: those refusals are not enforcement)
				if !res.OK() && res.Class == sim.CSchema && version != "v404" && (!usesTemplate || version == "v1") && !(withTemplates != usesTemplate) {
					c.Violation("C29/audit-mode-rejected-a-write:"+version, detail)
				}
			case version == "":
				if res.OK() {
					c.Violation("C29/strict-mode-accepted-a-write-without-schema-version", detail)
				}
			case version == "v404":
				if res.OK() {
					c.Violation("C29/strict-mode-accepted-an-unknown-schema-version", detail)
				}
			default:
				r.Count("strict_requests_checked", 1)
				if !okS || !okD {
					r.Count("strict_requests_with_invalid_account", 1)
				}
				if withTemplates && !usesTemplate {
					if res.OK() {
						c.Violation("C29/strict-mode-accepted-a-write-without-template-although-templates-exist", detail)
					}
				} else if (!okS || !okD) && res.OK() {
					c.Violation("C29/strict-mode-accepted-an-account-outside-the-chart", detail)
				} else if okS && okD && !res.OK() && res.Class == sim.CSchema {
					c.Violation("C29/strict-mode-rejected-a-conforming-write", detail)
				}
			}
		}
		for _, f := range m.Findings {
			if f.Prop == "C17" || f.Prop == "C29" {
				c.Violation("C29/"+strings.TrimPrefix(f.Sig, "C17/")+":default-metadata", map[string]any{"finding": f, "schema": string(sb)})
			}
		}
		if c.Index < 2 {
			r.Sample(map[string]any{"strict": strict, "schema": json.RawMessage(sb), "valid_addresses": valid})
		}
	})
}

func firstWords(s string, n int) string {
	f := strings.Fields(s)
	if len(f) > n {
		f = f[:n]
	}
	return strings.Join(f, " ")
}
