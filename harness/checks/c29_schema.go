package checks

import (
	"encoding/json"
	"fmt"
	"math/rand"
	"regexp"
	"strings"

	ledger "github.com/formancehq/ledger/internal"
	"github.com/formancehq/ledger/internal/api/bulking"

	"github.com/formancehq/ledger/verifharness/core"
	"github.com/formancehq/ledger/verifharness/sim"
)

func init() {
	core.Register(&core.Check{
		ID: "C29", Level: "exploration",
		Rule:        "random charts of accounts (depth <= 4, fixed and variable segments with optional patterns, .self, .metadata defaults; world sometimes missing) x strict/audit enforcement x creates by postings with a known / missing / unknown schema version and accounts drawn from chart-valid and chart-invalid addresses, plus schemas that define transaction templates (create with / without template); oracle: an independent chart matcher written from the documented semantics (fixed segment wins, else variable segment whose pattern matches; leaf or .self = account) and the reference ledger for effects and default metadata. Every create is also submitted, on a twin ledger of the same mode and schema, through the other write paths of the real stack: Controller.BeginTX + write + Commit (what an atomic bulk does), the real bulking.Bulker atomic and non-atomic, and POST /v2/{ledger}/_bulk[?atomic=true] on the real router; the same oracle applies on every path (strict: refused and nothing committed; audit: accepted). Addresses whose classification depends on an undocumented choice (a fixed segment that dead-ends while the variable sibling would accept) are counted as ambiguous and excluded. Distinct = (mode, version kind, validity of each posting account, outcome); non-trivial = the request names a schema version and at least one account is chart-invalid or gets default metadata",
		Assumptions: []string{seqAssume, "chart semantics taken from the OpenAPI description and chart_test.go"},
		Run:         runC29,
	})
}

type c29Node struct {
	fixed    map[string]*c29Node
	variable *c29Node
	label    string
	pattern  string
	account  bool
	defaults map[string]string
}

func c29Gen(rng *rand.Rand, depth int) *c29Node {
	n := &c29Node{fixed: map[string]*c29Node{}}
	if depth <= 0 || rng.Intn(4) == 0 {
		n.account = true
	} else {
		nf := rng.Intn(3)
		names := []string{"users", "bank", "orders", "main", "fees", "a1"}
		for i := 0; i < nf; i++ {
			n.fixed[names[rng.Intn(len(names))]] = c29Gen(rng, depth-1)
		}
		if rng.Intn(2) == 0 || nf == 0 {
			n.variable = c29Gen(rng, depth-1)
			n.variable.label = []string{"id", "user", "x"}[rng.Intn(3)]
			if rng.Intn(2) == 0 {
				n.variable.pattern = []string{"^[0-9]+$", "^u_[a-z]+$", "^[a-z0-9]{3}$"}[rng.Intn(3)]
			}
		}
		n.account = rng.Intn(3) == 0 // .self
	}
	if n.account && rng.Intn(2) == 0 {
		n.defaults = map[string]string{"kind": []string{"user", "system"}[rng.Intn(2)]}
		if rng.Intn(3) == 0 {
			n.defaults["k1"] = "chart-default"
		}
	}
	return n
}

func (n *c29Node) toJSON() map[string]any {
	out := map[string]any{}
	for k, c := range n.fixed {
		out[k] = c.toJSON()
	}
	if n.variable != nil {
		m := n.variable.toJSON()
		if n.variable.pattern != "" {
			m[".pattern"] = n.variable.pattern
		}
		out["$"+n.variable.label] = m
	}
	leaf := len(n.fixed) == 0 && n.variable == nil
	if n.account && !leaf {
		out[".self"] = map[string]any{}
	}
	if n.account && n.defaults != nil {
		md := map[string]any{}
		for k, v := range n.defaults {
			md[k] = map[string]any{"default": v}
		}
		out[".metadata"] = md
	}
	return out
}

// classify: accepted?, defaults, ambiguous
func c29Classify(root map[string]*c29Node, addr string) (bool, map[string]string, bool) {
	segs := strings.Split(addr, ":")
	fixed := root
	var variable *c29Node
	var cur *c29Node
	ambiguous := false
	for i, s := range segs {
		var next *c29Node
		if f, ok := fixed[s]; ok {
			next = f
			if variable != nil && (variable.pattern == "" || regexp.MustCompile(variable.pattern).MatchString(s)) {
				ambiguous = true // both would match: fixed wins in the implementation; undocumented if the fixed path dead-ends
			}
		} else if variable != nil && (variable.pattern == "" || regexp.MustCompile(variable.pattern).MatchString(s)) {
			next = variable
		}
		if next == nil {
			return false, nil, false
		}
		cur = next
		fixed, variable = next.fixed, next.variable
		_ = i
	}
	if cur == nil || !cur.account {
		return false, nil, ambiguous
	}
	return true, cur.defaults, false
}

func (n *c29Node) sampleAddress(rng *rand.Rand, prefix []string, out *[]string) {
	if n.account {
		*out = append(*out, strings.Join(prefix, ":"))
	}
	for k, c := range n.fixed {
		c.sampleAddress(rng, append(append([]string{}, prefix...), k), out)
	}
	if n.variable != nil {
		seg := map[string]string{"^[0-9]+$": fmt.Sprint(rng.Intn(1000)), "^u_[a-z]+$": "u_bob", "^[a-z0-9]{3}$": "a1b", "": "anything"}[n.variable.pattern]
		n.variable.sampleAddress(rng, append(append([]string{}, prefix...), seg), out)
	}
}

// c29Paths: the write paths every create goes through besides the direct controller call.
var c29Paths = []string{"begintx-commit", "bulker-atomic", "bulker-sequential", "http-bulk-atomic", "http-bulk-sequential"}

func c29ElementJSON(op sim.Op) string {
	if op.Kind == "postings" {
		var ps []string
		for _, p := range op.Postings {
			ps = append(ps, fmt.Sprintf(`{"source":%q,"destination":%q,"asset":%q,"amount":%s}`, p.Source, p.Destination, p.Asset, p.Amount))
		}
		return fmt.Sprintf(`{"action":"CREATE_TRANSACTION","data":{"postings":[%s],"force":%v}}`, strings.Join(ps, ","), op.Force)
	}
	vars, _ := json.Marshal(op.Vars)
	if op.Plain != "" {
		// a request naming a template AND carrying a script of its own (only the bulk element form can express it)
		return fmt.Sprintf(`{"action":"CREATE_TRANSACTION","data":{"script":{"template":%q,"plain":%q,"vars":%s}}}`, op.Template, op.Plain, vars)
	}
	return fmt.Sprintf(`{"action":"CREATE_TRANSACTION","data":{"script":{"template":%q,"vars":%s}}}`, op.Template, vars)
}

// c29Submit sends op through one write path of the twin env; returns accepted, error class, error text.
func c29Submit(pe *sim.Env, path string, op sim.Op) (bool, string, string) {
	elJSON := c29ElementJSON(op)
	atomic := strings.HasSuffix(path, "-atomic")
	switch path {
	case "begintx-commit":
		txc, _, err := pe.Ctrl("l1").BeginTX(pe.Ctx, nil)
		if err != nil {
			return false, "begintx:" + sim.Classify(err), err.Error()
		}
		out := sim.ApplyTo(pe.Ctx, txc, op)
		if out.Class == sim.CPanic {
			pe.C.AbortAll()
			return false, out.Class, out.Err.Error()
		}
		if !out.OK() {
			_ = txc.Rollback(pe.Ctx)
			return false, out.Class, out.Err.Error()
		}
		if err := txc.Commit(pe.Ctx); err != nil {
			return false, "commit:" + sim.Classify(err), err.Error()
		}
		return true, sim.COK, ""
	case "bulker-atomic", "bulker-sequential":
		var el bulking.BulkElement
		if err := json.Unmarshal([]byte(elJSON), &el); err != nil {
			return false, "element-not-parsed", err.Error()
		}
		in := make(bulking.Bulk, 1)
		res := make(chan bulking.BulkElementResult, 1)
		in <- el
		close(in)
		rerr := bulking.NewBulker(pe.Ctrl("l1"), bulking.WithParallelism(1)).Run(pe.Ctx, in, res,
			bulking.BulkingOptions{Atomic: atomic, SchemaVersion: op.SchemaVersion})
		if rerr != nil {
			return false, "bulker-run:" + sim.Classify(rerr), rerr.Error()
		}
		out, ok := <-res
		if !ok {
			return false, "no-result", "the bulker returned no result for the element"
		}
		if out.Error != nil {
			return false, sim.Classify(out.Error), out.Error.Error()
		}
		return true, sim.COK, ""
	}
	url := "/v2/l1/_bulk"
	var qs []string
	if atomic {
		qs = append(qs, "atomic=true")
	}
	if op.SchemaVersion != "" {
		qs = append(qs, "schemaVersion="+op.SchemaVersion)
	}
	if len(qs) > 0 {
		url += "?" + strings.Join(qs, "&")
	}
	resp := pe.Do("POST", url, []byte("["+elJSON+"]"), nil)
	var body struct {
		Data []struct {
			ErrorCode string `json:"errorCode"`
			ErrorDesc string `json:"errorDescription"`
		} `json:"data"`
	}
	if err := json.Unmarshal(resp.Body, &body); err != nil || len(body.Data) != 1 {
		if resp.Status >= 500 && len(resp.Body) == 0 {
			pe.C.AbortAll()
		}
		return false, fmt.Sprintf("http-%d", resp.Status), string(resp.Body)
	}
	if body.Data[0].ErrorCode == "" && resp.Status == 200 {
		return true, sim.COK, ""
	}
	class := "http:" + body.Data[0].ErrorCode
	switch body.Data[0].ErrorCode {
	case "VALIDATION", "SCHEMA_NOT_SPECIFIED", "NOT_FOUND":
		// the codes the bulk handler maps schema refusals to (mapBulkElementError)
		if strings.Contains(body.Data[0].ErrorDesc, "schema") {
			class = sim.CSchema
		}
	}
	return false, class, body.Data[0].ErrorDesc
}

func runC29(r *core.Run) {
	n := r.N(500, 12000)
	r.Floor("strict_requests_with_invalid_account", int64(n/20))
	for _, p := range c29Paths {
		r.Floor("strict_violating_writes:"+p, int64(n/4))
	}
	r.ForEach("chart", n, 0, func(c *core.Case) {
		rng := c.Rng
		strict := c.Index%2 == 0
		root := map[string]*c29Node{}
		for _, k := range []string{"users", "bank", "orders"}[:1+rng.Intn(3)] {
			root[k] = c29Gen(rng, 3)
		}
		hasWorld := rng.Intn(5) > 0
		if hasWorld {
			root["world"] = &c29Node{fixed: map[string]*c29Node{}, account: true}
		}
		chartJSON := map[string]any{}
		for k, nd := range root {
			chartJSON[k] = nd.toJSON()
		}
		withTemplates := rng.Intn(5) == 0
		schemaDoc := map[string]any{"chart": chartJSON}
		if withTemplates {
			schemaDoc["transactions"] = map[string]any{"pay": map[string]any{"description": "d", "script": "vars {\n account $dst\n}\nsend [USD 1] (\n source = @world\n destination = $dst\n)\n"}}
		}
		sb, _ := json.Marshal(schemaDoc)
		var sd ledger.SchemaData
		if err := json.Unmarshal(sb, &sd); err != nil {
			r.Count("generated_charts_refused_by_the_real_parser", 1)
			r.Seen("chart_parse_errors", firstWords(err.Error(), 6))
			return
		}
		e := sim.NewEnv(sim.Options{Strict: strict})
		defer e.Close()
		_ = e.CreateLedger("l1", "_default", nil)
		m := sim.NewMirror(e, "l1")
		m.Defaults = func(version, addr string) map[string]string {
			if version != "v1" {
				return nil
			}
			ok, d, _ := c29Classify(root, addr)
			if !ok {
				return nil
			}
			return d
		}
		// a pre-schema transaction creating an account with its own metadata (defaults must never overwrite)
		var valid []string
		for k, nd := range root {
			nd.sampleAddress(rng, []string{k}, &valid)
		}
		if len(valid) > 0 {
			a := valid[rng.Intn(len(valid))]
			if a != "world" {
				m.Step(sim.Op{Kind: "save_acc_meta", Address: a, Metadata: map[string]string{"kind": "preexisting"}})
			}
		}
		out := m.Step(sim.Op{Kind: "insert_schema", Version: "v1", Schema: sd})
		if !out.OK() {
			c.Violation("C29/valid-schema-refused:"+out.Class, map[string]any{"schema": string(sb), "error": out.Err.Error()})
			return
		}
		// twin ledger for the other write paths (no mirror: only refusal / acceptance and effects are judged there)
		pe := sim.NewEnv(sim.Options{Strict: strict})
		defer pe.Close()
		_ = pe.CreateLedger("l1", "_default", nil)
		if tw := pe.Apply("l1", sim.Op{Kind: "insert_schema", Version: "v1", Schema: sd}); !tw.OK() {
			c.Violation("C29/valid-schema-refused:"+tw.Class, map[string]any{"schema": string(sb), "error": tw.Err.Error(), "where": "twin ledger"})
			return
		}
		twinDigest := "" // digest of the twin ledger when known
		invalidPool := []string{"nope", "users", "users:zzz:zzz:zzz:zzz", "bank:1:2", "orders:!", "ghost:1", "users:0xx", "world:sub"}
		for step := 0; step < 8; step++ {
			pick := func() string {
				if len(valid) > 0 && rng.Intn(3) > 0 {
					return valid[rng.Intn(len(valid))]
				}
				return invalidPool[rng.Intn(len(invalidPool))]
			}
			dst := pick()
			src := "world"
			if rng.Intn(4) == 0 {
				src = pick()
			}
			version := []string{"v1", "v1", "v1", "", "v404"}[rng.Intn(5)]
			op := sim.Op{Kind: "postings", Postings: []sim.P{{Source: src, Destination: dst, Asset: "USD", Amount: "5"}}, SchemaVersion: version, Force: true}
			if withTemplates && rng.Intn(2) == 0 {
				op = sim.Op{Kind: "script", Template: "pay", Vars: map[string]string{"dst": dst}, SchemaVersion: version}
				src = "world"
			}
			okS, _, ambS := c29Classify(root, src)
			okD, defD, ambD := c29Classify(root, dst)
			wellFormed := regexp.MustCompile(`^[a-zA-Z0-9_-]+(:[a-zA-Z0-9_-]+)*$`)
			if !wellFormed.MatchString(src) || !wellFormed.MatchString(dst) {
				continue
			}
			usesTemplate := op.Template != ""
			kind := "conforming"
			switch {
			case version == "":
				kind = "no-schema-version"
			case version == "v404":
				kind = "unknown-schema-version"
			case withTemplates && !usesTemplate:
				kind = "no-template-although-templates-exist"
			case !okS || !okD:
				kind = "account-outside-chart"
			}
			// judge applies the property's oracle to one submission of op; path "" = direct controller call
			judge := func(path string, ok bool, class, errText string, changed bool) {
				suffix, name := "", "direct"
				if path != "" {
					suffix, name = ":"+path, path
				}
				outcome := "refused"
				if ok {
					outcome = "accepted"
				}
				r.Count(fmt.Sprintf("writes:%s:strict=%v:%s:%s", name, strict, kind, outcome), 1)
				if strict && kind != "conforming" {
					r.Count("strict_violating_writes:"+name, 1)
				}
				detail := map[string]any{"strict": strict, "schema": string(sb), "op": op, "write_path": name, "outcome": class, "source_in_chart": okS, "destination_in_chart": okD}
				if errText != "" {
					detail["error"] = errText
				}
				if path != "" {
					detail["bulk_element"] = c29ElementJSON(op)
				}
				if !ok && changed {
					c.Violation("C29/rejected-write-had-an-effect"+suffix, detail)
				}
				switch {
				case !strict:
					// audit mode accepts violations (template lookups aside)
					// (a template can only be resolved through an existing schema version: those refusals are not enforcement)
					if !ok && class == sim.CSchema && version != "v404" && (!usesTemplate || version == "v1") && !(withTemplates != usesTemplate) {
						c.Violation("C29/audit-mode-rejected-a-write:"+version+suffix, detail)
					}
				case version == "":
					if ok {
						c.Violation("C29/strict-mode-accepted-a-write-without-schema-version"+suffix, detail)
					}
				case version == "v404":
					if ok {
						c.Violation("C29/strict-mode-accepted-an-unknown-schema-version"+suffix, detail)
					}
				default:
					if path == "" {
						r.Count("strict_requests_checked", 1)
						if !okS || !okD {
							r.Count("strict_requests_with_invalid_account", 1)
						}
					}
					if withTemplates && !usesTemplate {
						if ok {
							c.Violation("C29/strict-mode-accepted-a-write-without-template-although-templates-exist"+suffix, detail)
						}
					} else if (!okS || !okD) && ok {
						c.Violation("C29/strict-mode-accepted-an-account-outside-the-chart"+suffix, detail)
					} else if okS && okD && !ok && class == sim.CSchema {
						c.Violation("C29/strict-mode-rejected-a-conforming-write"+suffix, detail)
					}
				}
			}
			before := e.C.Snapshot("l1").Digest()
			res := m.Step(op)
			after := e.C.Snapshot("l1").Digest()
			shape := fmt.Sprintf("strict=%v|v=%s|tmpl=%v/%v|src=%v|dst=%v|%s", strict, version, withTemplates, op.Template != "", okS, okD, res.Class)
			nt := version == "v1" && (!okS || !okD || len(defD) > 0)
			r.Eval(shape, nt)
			r.Seen("outcomes", fmt.Sprintf("strict=%v:%s", strict, res.Class))
			if ambS || ambD {
				r.Count("ambiguous_excluded", 1)
				continue
			}
			errText := ""
			if res.Err != nil {
				errText = res.Err.Error()
			}
			judge("", res.OK(), res.Class, errText, before != after)
			for _, path := range c29Paths {
				if twinDigest == "" {
					twinDigest = pe.C.Snapshot("l1").Digest()
				}
				pb := twinDigest
				ok, class, et := c29Submit(pe, path, op)
				pa := ""
				if !ok {
					pa = pe.C.Snapshot("l1").Digest() // a refused write must leave the twin ledger as it was
				}
				twinDigest = pa
				if usesTemplate && path != "begintx-commit" {
					// the same template write, but carrying a script of its own: a write that names a template
					// runs THE TEMPLATE (whatever else it carries) or is refused; the caller's script never runs
					own := op
					own.Plain = "vars {\n account $dst\n}\nsend [USD 999] (\n source = @world\n destination = @rogue:payee\n)\nset_account_meta($dst, \"seen\", \"1\")\n"
					ok2, class2, et2 := c29Submit(pe, path, own)
					r.Count("template_writes_carrying_their_own_script:"+path, 1)
					r.Seen("outcomes_template_plus_own_script", fmt.Sprintf("%s strict=%v:%s", path, strict, class2))
					for _, t := range pe.C.CommittedTransactions("l1") {
						for _, p := range t.Postings {
							if p.Destination == "rogue:payee" {
								c.Violation("C29/write-naming-a-template-executed-the-callers-own-script:"+path, map[string]any{"strict": strict, "element": c29ElementJSON(own), "accepted": ok2, "outcome": class2, "error": et2, "transaction": t})
							}
						}
					}
					twinDigest = ""
				}
				r.Seen("outcomes_"+path, fmt.Sprintf("strict=%v:%s", strict, class))
				if pend, locks := pe.C.PendingLeftovers(); pend != 0 || locks != 0 {
					c.Violation("C29/open-transaction-or-lock-after-return:"+path, map[string]any{"op": op, "pending_rows": pend, "locks": locks, "outcome": class})
					pe.C.AbortAll()
				}
				judge(path, ok, class, et, !ok && pb != pa)
			}
		}
		for _, f := range m.Findings {
			if f.Prop == "C17" || f.Prop == "C29" {
				c.Violation("C29/"+strings.TrimPrefix(f.Sig, "C17/")+":default-metadata", map[string]any{"finding": f, "schema": string(sb)})
			}
		}
		if c.Index < 2 {
			r.Sample(map[string]any{"strict": strict, "schema": json.RawMessage(sb), "valid_addresses": valid})
		}
	})
}

func firstWords(s string, n int) string {
	f := strings.Fields(s)
	if len(f) > n {
		f = f[:n]
	}
	return strings.Join(f, " ")
}
