package checks

import (
	"fmt"
	"math/rand"
	"strings"

	"github.com/formancehq/ledger/verifharness/core"
	"github.com/formancehq/ledger/verifharness/memstore"
	"github.com/formancehq/ledger/verifharness/sim"
)

func init() {
	core.Register(&core.Check{
		ID: "C07", Level: "fault_enumeration",
		Rule:        "for each generated (prepared history, target write) pair — every write kind, on a fresh (initializing) ledger and on an in-use ledger, incl. dry runs and naturally failing inputs — a dry pass counts the store calls / direct SQL statements of the target operation, then EVERY position is failed with each of {driver error, context cancelled, deadlock, serialization failure, too many clients}, every COMMIT with a commit failure and every ROLLBACK with a rollback failure; after each run the committed snapshot, the published events and open transactions/locks are compared. Distinct = (op kind, ledger state, site, error kind, outcome class); non-trivial = the fault fired",
		Assumptions: []string{seqAssume, "fault granularity is the store call / SQL statement; partial effects inside one SQL statement are not modelled"},
		Run: func(r *core.Run) {
			runFaultEnum(r, "C07")
			runCommitHonesty(r, "C07")
		},
	})
	core.Register(&core.Check{
		ID: "C31", Level: "fault_enumeration",
		Rule:        "same enumeration as C07 (every write kind x {fresh initializing ledger, in-use ledger} x {success, business failure, dry run, injected failure at every store call, injected commit failure}) with the cluster's totally ordered trace on: at every listener call no SQL transaction of the operation may still be open, failed / dry-run / rolled-back writes publish nothing, committed writes publish exactly one event. Distinct = (op kind, ledger state, site, error kind, outcome class); non-trivial = the operation reached a listener call or a commit/rollback decision. Plus the C32 bulk workload (atomic / non-atomic / parallel bulks with failing elements, on in-use ledgers and as the first write of an initializing ledger) judged by the same trace automaton and event counts",
		Assumptions: []string{seqAssume},
		Run: func(r *core.Run) {
			runFaultEnum(r, "C31")
			runCommitHonesty(r, "C31") // the store below the events wrapper: Commit()==nil only after a COMMIT
			runC32(r, "C31")           // bulk paths: atomic / non-atomic, also as first write of an initializing ledger
		},
	})
}

type faultScenario struct {
	prep   []sim.Op
	target sim.Op
	fresh  bool
}

func genFaultScenario(rng *rand.Rand, idx int) faultScenario {
	sc := faultScenario{fresh: idx%4 == 0}
	st := &sim.GenState{NoBig: true}
	// prepared history: funds + a few transactions so that reverts / metadata ops have targets
	sc.prep = append(sc.prep,
		sim.Op{Kind: "postings", Postings: []sim.P{{Source: "world", Destination: "bank", Asset: "USD", Amount: "1000"}, {Source: "world", Destination: "users:001", Asset: "USD", Amount: "50"}}, Reference: "prep-1"},
		sim.Op{Kind: "postings", Postings: []sim.P{{Source: "bank", Destination: "users:002", Asset: "USD", Amount: "10"}}, Metadata: map[string]string{"k1": "v"}},
		sim.Op{Kind: "save_acc_meta", Address: "bank", Metadata: map[string]string{"k1": "a", "k2": "b"}},
	)
	for i := 0; i < rng.Intn(4); i++ {
		sc.prep = append(sc.prep, sim.GenOp(rng, st))
	}
	if sc.fresh {
		sc.prep = nil
	}
	kinds := []string{"postings", "postings-fail", "script", "revert", "revert-fail", "save_tx_meta", "del_tx_meta", "save_acc_meta", "del_acc_meta", "postings-ik", "postings-ref-conflict"}
	k := kinds[idx%len(kinds)]
	switch k {
	case "postings":
		sc.target = sim.Op{Kind: "postings", Postings: []sim.P{{Source: "world", Destination: "users:003:wallet", Asset: "USD", Amount: "7"}, {Source: "users:003:wallet", Destination: "fees", Asset: "USD", Amount: "2"}},
			AccountMetadata: map[string]map[string]string{"fees": {"kind": "fee"}}, Metadata: map[string]string{"m": "1"}}
	case "postings-fail":
		sc.target = sim.Op{Kind: "postings", Postings: []sim.P{{Source: "users:002", Destination: "fees", Asset: "USD", Amount: "100000"}}}
	case "script":
		sc.target = sim.Op{Kind: "script"}
		sc.target.Plain, sc.target.Vars = sim.GenScript(rng, st)
	case "revert":
		sc.target = sim.Op{Kind: "revert", TxID: 2, Force: rng.Intn(2) == 0, AtEffectiveDate: rng.Intn(2) == 0}
	case "revert-fail":
		sc.target = sim.Op{Kind: "revert", TxID: 1} // bank already spent: insufficient funds, or not found on a fresh ledger
	case "save_tx_meta":
		sc.target = sim.Op{Kind: "save_tx_meta", TxID: 1, Metadata: map[string]string{"new": "x"}}
	case "del_tx_meta":
		sc.target = sim.Op{Kind: "del_tx_meta", TxID: 2, Key: "k1"}
	case "save_acc_meta":
		sc.target = sim.Op{Kind: "save_acc_meta", Address: "brand:new", Metadata: map[string]string{"a": "b"}}
	case "del_acc_meta":
		sc.target = sim.Op{Kind: "del_acc_meta", Address: "bank", Key: "k1"}
	case "postings-ik":
		sc.target = sim.Op{Kind: "postings", Postings: []sim.P{{Source: "world", Destination: "fees", Asset: "EUR/2", Amount: "3"}}, IK: "ik-target"}
	case "postings-ref-conflict":
		sc.target = sim.Op{Kind: "postings", Postings: []sim.P{{Source: "world", Destination: "fees", Asset: "EUR/2", Amount: "3"}}, Reference: "prep-1"}
	}
	if idx%7 == 3 {
		sc.target.DryRun = true
	}
	return sc
}

// runOne replays the scenario with the given fault plan; returns the mirror and the env's trace.
func runFaultOne(sc faultScenario, plan *sim.FaultPlan, trace bool) (*sim.Mirror, sim.Outcome, []memstore.Event) {
	e := sim.NewEnv(sim.Options{})
	defer e.Close()
	if err := e.CreateLedger("l1", "_default", nil); err != nil {
		panic(err)
	}
	m := sim.NewMirror(e, "l1")
	m.FullReadEvery = 0
	for _, op := range sc.prep {
		m.Step(op)
	}
	m.Findings = nil // the prepared history is judged by the sequential checks
	uninstall := plan.Install(e)
	e.C.Trace = trace
	m.FaultActive = plan.Kind != ""
	out := m.Step(sc.target)
	e.C.Trace = false
	uninstall()
	ev := e.C.Events()
	m.FaultActive = false
	m.CheckReads()
	return m, out, ev
}

// c31Automaton: at every listener call no transaction begun during the operation may be open.
func c31Automaton(ev []memstore.Event) (viol string, listenerCalls, decisions int) {
	open := map[int64]bool{}
	for _, e := range ev {
		switch e.Kind {
		case "begin":
			open[e.Session] = true
		case "commit", "commit-failed", "rollback":
			delete(open, e.Session)
			decisions++
		case "listener":
			listenerCalls++
			if len(open) > 0 && viol == "" {
				viol = fmt.Sprintf("listener %s called while %d SQL transaction(s) of the operation still open", e.Site, len(open))
			}
		}
	}
	return
}

func runFaultEnum(r *core.Run, prop string) {
	n := r.N(66, 660)
	r.Floor("faults_fired", int64(n))
	r.Floor("distinct_nontrivial", 20)
	exhaustive := true
	r.ForEach("scenario", n, 0, func(c *core.Case) {
		sc := genFaultScenario(c.Rng, c.Index)
		dry := &sim.FaultPlan{}
		m0, out0, ev0 := runFaultOne(sc, dry, true)
		report := func(m *sim.Mirror, plan *sim.FaultPlan, out sim.Outcome, ev []memstore.Event) {
			state := "in-use"
			if sc.fresh {
				state = "initializing"
			}
			site := plan.FiredAt
			if site == "" {
				site = "none"
			}
			shape := fmt.Sprintf("%s|dry=%v|%s|%s|%s|%s", sc.target.Kind, sc.target.DryRun, state, site, plan.Kind, out.Class)
			viol, lc, dec := c31Automaton(ev)
			nt := plan.Fired
			if prop == "C31" {
				nt = lc > 0 || dec > 0
			}
			r.Eval(shape, nt)
			r.Seen("sites", site)
			r.Seen("outcomes", sc.target.Kind+":"+out.Class)
			if plan.Fired {
				r.Count("faults_fired", 1)
			}
			r.Count("listener_calls_observed", int64(lc))
			r.Count("commit_or_rollback_decisions_observed", int64(dec))
			r.Count("trace_events", int64(len(ev)))
			if prop == "C31" && viol != "" {
				first := "first-write-on-initializing-ledger"
				if !sc.fresh {
					first = "in-use-ledger"
				}
				c.Violation(fmt.Sprintf("C31/event-before-commit:%s:%s", sc.target.Kind, first), map[string]any{"scenario": sc, "fault": map[string]any{"n": plan.N, "kind": plan.Kind, "fired_at": plan.FiredAt}, "what": viol, "trace": ev})
			}
			for _, f := range m.FindingsFor(prop) {
				sig := f.Sig
				if plan.Kind != "" {
					sig += fmt.Sprintf(":fault=%s@%s", plan.Kind, plan.FiredAt)
				}
				c.Violation(sig, map[string]any{"scenario": sc, "fault": map[string]any{"kind": plan.Kind, "fired_at": plan.FiredAt}, "finding": f, "outcome": out.Class})
			}
		}
		report(m0, dry, out0, ev0)
		sites := append([]string(nil), dry.Sites...)
		if c.Index < 3 {
			r.Sample(map[string]any{"target": sc.target, "fresh_ledger": sc.fresh, "prep_ops": len(sc.prep), "store_calls_of_target": sites, "clean_outcome": out0.Class})
		}
		nCommits, nRollbacks := 0, 0
		for _, e := range ev0 {
			if e.Kind == "commit" {
				nCommits++
			}
		}
		for _, s := range sites {
			if s == "Rollback" {
				nRollbacks++
			}
		}
		for pos := 1; pos <= len(sites); pos++ {
			if sites[pos-1] == "Rollback" {
				continue
			}
			for _, kind := range sim.FaultKinds[:5] {
				plan := &sim.FaultPlan{N: pos, Kind: kind}
				m, out, ev := runFaultOne(sc, plan, true)
				report(m, plan, out, ev)
				if !plan.Fired {
					exhaustive = false
					r.Count("positions_not_reached_again", 1)
				}
				// two-fault plans: a retryable fault that sends the operation to its retry path,
				// followed by a failure of each COMMIT of that run
				if kind == "deadlock" && plan.Fired {
					commits := 0
					for _, e := range ev {
						if e.Kind == "commit" {
							commits++
						}
					}
					for k := 1; k <= commits; k++ {
						p2 := &sim.FaultPlan{N: pos, Kind: kind, CommitN: k}
						m2, out2, ev2 := runFaultOne(sc, p2, true)
						p2.Kind = "deadlock+commit-failure"
						report(m2, p2, out2, ev2)
						r.Count("two_fault_plans", 1)
					}
				}
			}
		}
		for k := 1; k <= nCommits; k++ {
			plan := &sim.FaultPlan{N: k, Kind: "commit-failure"}
			m, out, ev := runFaultOne(sc, plan, true)
			report(m, plan, out, ev)
		}
		for k := 1; k <= nRollbacks; k++ {
			plan := &sim.FaultPlan{N: k, Kind: "rollback-failure"}
			m, out, ev := runFaultOne(sc, plan, true)
			report(m, plan, out, ev)
		}
		_ = strings.Join
	})
	r.SetExhaustive(exhaustive)
}
