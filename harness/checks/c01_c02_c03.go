package checks

import (
	"math/rand"

	"github.com/formancehq/ledger/verifharness/core"
	"github.com/formancehq/ledger/verifharness/sim"
)

func init() {
	core.Register(&core.Check{
		ID: "C01", Level: "exploration",
		Rule:        "random sequential histories (create by postings/Numscript, revert x force x atEffectiveDate, metadata ops, 20% dry runs, natural failures) on one ledger through the real controller stack; after every committed write all volume reads are summed per asset. Distinct = sequence of (op shape, outcome class); non-trivial = >=1 committed write and >=1 failed or dry-run operation",
		Assumptions: []string{seqAssume, "the SQL of aggregate/volume reads and point-in-time variants is not executed (C05 not applicable)"},
		Run: func(r *core.Run) {
			runSeq(r, seqConfig{Prop: "C01", Histories: [2]int{150, 2500}, OpsPer: [2]int{30, 50}})
			runDirectDrive(r, "C01")
		},
	})
	core.Register(&core.Check{
		ID: "C02", Level: "exploration",
		Rule:        "as C01's controller workload; after every committed write GetVolumesWithBalances (all cursor pages), ListAccounts(expand=volumes), GetAggregatedBalances and the stored accounts_volumes rows are compared with an independent reference fold fed only with operations reported as committed. Distinct = sequence of (op shape, outcome class); non-trivial = >=1 committed write and >=1 failed or dry-run operation",
		Assumptions: []string{seqAssume},
		Run: func(r *core.Run) {
			runSeq(r, seqConfig{Prop: "C02", Histories: [2]int{200, 4000}, OpsPer: [2]int{35, 60}})
		},
	})
	core.Register(&core.Check{
		ID: "C03", Level: "exploration",
		Rule:        "sequential histories over-representing transactions that touch one account several times and source==destination postings; postCommitVolumes / serialised preCommitVolumes of every committed transaction compared with the reference running fold at commit and again at every later listing (immutability); plus direct drive of the real storage CommitTransaction with its emitted moves checked. Distinct = sequence of (op shape, outcome class); non-trivial = >=1 committed transaction with a repeated account",
		Assumptions: []string{seqAssume},
		Run: func(r *core.Run) {
			runSeq(r, seqConfig{Prop: "C03", Histories: [2]int{150, 3000}, OpsPer: [2]int{30, 50},
				Mutate: func(op *sim.Op, rng *rand.Rand, st *sim.GenState) {
					if op.Kind == "postings" && rng.Intn(2) == 0 && len(op.Postings) > 0 {
						// chain through one account and add a self-posting
						a := op.Postings[0].Destination
						op.Postings = append(op.Postings, sim.P{Source: a, Destination: a, Asset: op.Postings[0].Asset, Amount: "1"},
							sim.P{Source: "world", Destination: a, Asset: op.Postings[0].Asset, Amount: "3"},
							sim.P{Source: a, Destination: "fees", Asset: op.Postings[0].Asset, Amount: "2"})
					}
				}})
			runDirectDrive(r, "C03")
		},
	})
}
