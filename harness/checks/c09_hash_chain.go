package checks

import (
	"context"
	"database/sql/driver"
	"encoding/json"
	"fmt"
	"strings"
	"sync/atomic"

	"github.com/formancehq/go-libs/v5/pkg/types/metadata"

	ledger "github.com/formancehq/ledger/internal"
	"github.com/formancehq/ledger/pkg/features"

	"github.com/formancehq/ledger/verifharness/core"
	"github.com/formancehq/ledger/verifharness/pgshim"
	"github.com/formancehq/ledger/verifharness/realstore"
	"github.com/formancehq/ledger/verifharness/sim"
)

func init() {
	core.Register(&core.Check{
		ID: "C09", Level: "exploration",
		Rule:        "(trace) the REAL storage InsertLog is called on every calling shape (autocommit, inside BeginTX, inside a nested savepoint, after other statements, several logs per transaction) for all 48 feature sets over a recording SQL driver: with HASH_LOGS=SYNC every INSERT INTO logs must be preceded, in the same SQL transaction, by pg_advisory_xact_lock(<ledger id>); (behaviour) exports of random SYNC ledgers are imported into fresh SYNC ledgers through the real handlers: unaltered streams must be accepted, streams in which ONE hashed field of one log (type-dependent payload field, date, idempotency key, schema version, stored hash, log order) was altered must be rejected; (chain) after concurrent writers under the scheduler the stored hashes of memstore must form one chain in id order. Distinct = (feature set, calling shape) / (tampered field, log type); non-trivial = HASH_LOGS=SYNC",
		Assumptions: []string{"the trigger set_log_hash / compute_hash and the effect of the advisory lock are Postgres' (C10, C34 not applicable); memstore's chain hash is a transliteration of migration 47's compute_hash and is only used to make import verification meaningful", seqAssume},
		Run:         runC09,
	})
}

func runC09(r *core.Run) {
	sets := allFeatureSets()
	shapes := []string{"autocommit", "tx", "tx-after-writes", "nested", "two-logs"}
	r.Floor("sync_inserts_checked", 20)
	r.Floor("log_id_draws_checked", 20)
	r.ForEach("trace", len(sets)*len(shapes), 0, func(c *core.Case) {
		fs := sets[c.Index/len(shapes)]
		shape := shapes[c.Index%len(shapes)]
		db := realstore.NewSysDB()
		defer db.Close()
		tables := realstore.NewTables()
		var seqDraws int64
		db.Responder = func(ctx context.Context, cn *pgshim.Conn, kind, sql string) (*pgshim.Rows, bool, error) {
			// a stand-alone draw from a sequence (select nextval('...')) is answered, so that a store
			// that allocates ids with a statement of its own still reaches its INSERT
			if t := strings.ToLower(strings.TrimSpace(sql)); strings.HasPrefix(t, "select nextval(") {
				n := atomic.AddInt64(&seqDraws, 1)
				return &pgshim.Rows{Cols: []string{"nextval"}, Data: [][]driver.Value{{n}}}, true, nil
			}
			return tables.Respond(ctx, cn, kind, sql)
		}
		d := db.NewDriver()
		ctx := context.Background()
		l := ledger.MustNewWithDefault("l1")
		l.Features = fs
		// make the ledger id distinctive
		for i := 0; i < c.Index%3; i++ {
			o := ledger.MustNewWithDefault(fmt.Sprintf("other%d", i))
			_, _ = d.CreateLedger(ctx, &o)
		}
		st, err := d.CreateLedger(ctx, &l)
		if err != nil {
			r.Inconclusive(err.Error())
			return
		}
		db.Shim.ResetLog()
		mkLog := func() *ledger.Log {
			lg := ledger.NewLog(ledger.SavedMetadata{TargetType: ledger.MetaTargetTypeAccount, TargetID: "bank", Metadata: metadata.Metadata{"k": "v"}})
			return &lg
		}
		switch shape {
		case "autocommit":
			_ = st.InsertLog(ctx, mkLog())
		case "tx", "tx-after-writes", "two-logs":
			tx, _, err := st.BeginTX(ctx, nil)
			if err != nil {
				r.Inconclusive(err.Error())
				return
			}
			if shape == "tx-after-writes" {
				_ = tx.UpsertAccounts(ctx, ledger.AccountWithDefaultMetadata{Account: &ledger.Account{Address: "bank"}})
			}
			_ = tx.InsertLog(ctx, mkLog())
			if shape == "two-logs" {
				_ = tx.InsertLog(ctx, mkLog())
			}
			_ = tx.Commit(ctx)
		case "nested":
			tx, _, _ := st.BeginTX(ctx, nil)
			sp, _, err := tx.BeginTX(ctx, nil)
			if err != nil {
				r.Inconclusive(err.Error())
				return
			}
			_ = sp.InsertLog(ctx, mkLog())
			_ = sp.Commit(ctx)
			_ = tx.Commit(ctx)
		}
		sync := fs[features.FeatureHashLogs] == "SYNC"
		r.Eval(fs.String()+"|"+shape, sync)
		if c.Index < 3 {
			var stmts []string
			for _, s := range db.Shim.Log() {
				t := s.SQL
				if len(t) > 120 {
					t = t[:120] + "..."
				}
				stmts = append(stmts, fmt.Sprintf("tx%d %s %s", s.TxID, s.Kind, t))
			}
			r.Sample(map[string]any{"loop": "trace", "features": fs.String(), "calling_shape": shape, "statements": stmts})
		}
		lockedTx := map[int64]bool{}
		lockedConnAuto := false
		want := fmt.Sprintf("pg_advisory_xact_lock(%d)", l.ID)
		for _, s := range db.Shim.Log() {
			if s.Kind != pgshim.KExec && s.Kind != pgshim.KQuery {
				continue
			}
			low := strings.ToLower(s.SQL)
			if strings.Contains(low, "pg_advisory_xact_lock") {
				if !strings.Contains(strings.ReplaceAll(low, " ", ""), want) {
					c.Violation("C09/advisory-lock-taken-with-a-key-other-than-the-ledger-id", map[string]any{"sql": s.SQL, "ledger_id": l.ID, "features": fs.String()})
				}
				if s.TxID != 0 {
					lockedTx[s.TxID] = true
				} else {
					lockedConnAuto = true
				}
			}
			if sync && strings.Contains(low, "nextval(") && strings.Contains(low, "log_id_") {
				// the id order must be the chain order: the log id may only be drawn once the
				// ledger's advisory lock is held by the drawing transaction
				r.Count("log_id_draws_checked", 1)
				ok := lockedTx[s.TxID]
				if s.TxID == 0 {
					ok = lockedConnAuto
				}
				if !ok {
					c.Violation("C09/log-id-drawn-before-the-ledger-advisory-lock:"+shape, map[string]any{"features": fs.String(), "sql": s.SQL, "statements": db.Shim.Log()})
				}
			}
			if strings.HasPrefix(strings.TrimSpace(low), `insert into "_default".logs`) {
				if sync {
					r.Count("sync_inserts_checked", 1)
					ok := lockedTx[s.TxID]
					if s.TxID == 0 {
						ok = lockedConnAuto // autocommit: the lock statement is its own transaction; recorded, judged below
					}
					if !ok {
						c.Violation("C09/log-inserted-without-the-ledger-advisory-lock-in-its-transaction:"+shape, map[string]any{"features": fs.String(), "statements": db.Shim.Log()})
					}
				}
			}
		}
	})

	// ---- behaviour: tamper one hashed field
	n := r.N(150, 3000)
	r.ForEach("tamper", n, 0, func(c *core.Case) {
		rng := c.Rng
		e := sim.NewEnv(sim.Options{})
		defer e.Close()
		fs := features.DefaultFeatures
		_ = e.CreateLedger("src", "_default", fs)
		st := &sim.GenState{NoBig: true}
		for i := 0; i < 3+rng.Intn(8); i++ {
			op := sim.GenOp(rng, st)
			op.DryRun = false
			out := e.Apply("src", op)
			if out.OK() && out.Created != nil {
				st.TxIDs = append(st.TxIDs, *out.Created.Transaction.ID)
			}
		}
		// an atomic bulk: its log writes run in the transaction the controller's BeginTX opens
		bulk := e.Do("POST", "/v2/src/_bulk?atomic=true", []byte(`[{"action":"CREATE_TRANSACTION","data":{"postings":[{"source":"world","destination":"bank","asset":"USD","amount":3}]}},{"action":"ADD_METADATA","data":{"targetType":"ACCOUNT","targetId":"bank","metadata":{"bulk":"1"}}}]`), nil)
		r.Seen("atomic_bulk_status", fmt.Sprint(bulk.Status))
		// The chain relies on every log being inserted by a transaction that sees the latest
		// committed log once it holds the ledger lock, i.e. READ COMMITTED (a snapshot taken at the
		// first statement would chain from a stale predecessor). The level is chosen in Go.
		r.Count("ledgers_checked_for_transaction_isolation", 1)
		for lvl, n := range e.C.IsolationAsked() {
			c.Violation("C09/log-writing-transaction-opened-above-read-committed:"+lvl, map[string]any{"level": lvl, "transactions": n})
		}
		exp := e.Do("POST", "/v2/src/logs/export", nil, nil)
		lines := strings.Split(strings.TrimSpace(string(exp.Body)), "\n")
		if len(lines) == 0 || lines[0] == "" {
			return
		}
		// unaltered must be accepted
		_ = e.CreateLedger("ok", "b1", fs)
		if imp := e.Do("POST", "/v2/ok/logs/import", exp.Body, nil); imp.Status != 204 {
			c.Violation("C09/unaltered-export-rejected-by-import", map[string]any{"status": imp.Status, "body": string(imp.Body), "export": string(exp.Body)})
			return
		}
		r.Count("unaltered_imports_accepted", 1)
		// tamper one field of one log
		idx := rng.Intn(len(lines))
		var lg map[string]any
		if err := json.Unmarshal([]byte(lines[idx]), &lg); err != nil {
			r.Inconclusive("export line not JSON")
			return
		}
		typ, _ := lg["type"].(string)
		data, _ := lg["data"].(map[string]any)
		field := ""
		switch k := rng.Intn(6); {
		case k == 0:
			lg["date"] = "2029-06-01T00:00:00Z"
			field = "date"
		case k == 1:
			lg["idempotencyKey"] = fmt.Sprint(lg["idempotencyKey"]) + "x"
			field = "idempotencyKey"
		case k == 2 && typ == "NEW_TRANSACTION":
			tx := data["transaction"].(map[string]any)
			ps := tx["postings"].([]any)
			p := ps[0].(map[string]any)
			p["amount"] = json.Number("987654321")
			field = "posting-amount"
		case k == 3 && typ == "NEW_TRANSACTION":
			tx := data["transaction"].(map[string]any)
			tx["metadata"] = map[string]any{"tampered": "yes"}
			field = "transaction-metadata"
		case k == 4 && typ == "SET_METADATA":
			data["metadata"] = map[string]any{"tampered": "yes"}
			field = "saved-metadata"
		case k == 5 && len(lines) > 1:
			// drop the first log: every later log chains from a different predecessor
			lines = lines[1:]
			field = "dropped-first-log"
		default:
			lg["hash"] = "AAAAAAAAAAAAAAAAAAAAAAAAAAAAAAAAAAAAAAAAAAA="
			field = "hash"
		}
		if field != "dropped-first-log" {
			b, _ := json.Marshal(lg)
			lines[idx] = string(b)
		}
		_ = e.CreateLedger("bad", "b2", fs)
		imp := e.Do("POST", "/v2/bad/logs/import", []byte(strings.Join(lines, "\n")+"\n"), nil)
		r.Eval(field+"|"+typ, true)
		if c.Index < 2 {
			r.Sample(map[string]any{"loop": "tamper", "tampered_field": field, "log_type": typ, "line": idx, "import_status": imp.Status, "response": string(imp.Body)})
		}
		r.Seen("tampered_fields", field+":"+typ)
		r.Seen("tampered_import_status", fmt.Sprint(imp.Status))
		if imp.Status == 500 && len(imp.Body) == 0 {
			e.C.AbortAll()
		}
		if imp.Status == 204 {
			c.Violation("C09/tampered-export-accepted-by-import:"+field, map[string]any{"field": field, "type": typ, "stream": strings.Join(lines, "\n")})
		}
		// the same logs in the same transmission order (so every hash still chains from the log sent just
		// before it: the id is not part of what is hashed), but the ids of the last two swapped: accepting
		// it would store a chain that is not linear in id order
		orig := strings.Split(strings.TrimSpace(string(exp.Body)), "\n")
		if n := len(orig); n >= 2 {
			var a, b map[string]any
			da, db := json.NewDecoder(strings.NewReader(orig[n-2])), json.NewDecoder(strings.NewReader(orig[n-1]))
			da.UseNumber()
			db.UseNumber()
			if da.Decode(&a) == nil && db.Decode(&b) == nil {
				a["id"], b["id"] = b["id"], a["id"]
				ja, _ := json.Marshal(a)
				jb, _ := json.Marshal(b)
				stream := strings.Join(append(append([]string{}, orig[:n-2]...), string(ja), string(jb)), "\n") + "\n"
				_ = e.CreateLedger("reo", "b3", fs)
				imp := e.Do("POST", "/v2/reo/logs/import", []byte(stream), nil)
				r.Count("imports_with_ids_out_of_order_but_hashes_chained_in_transmission_order", 1)
				r.Seen("out_of_order_import_status", fmt.Sprint(imp.Status))
				if imp.Status == 500 && len(imp.Body) == 0 {
					e.C.AbortAll()
				}
				if imp.Status == 204 {
					c.Violation("C09/import-accepted-a-stream-whose-log-ids-do-not-increase", map[string]any{"stream": stream})
				}
			}
		}
	})
}
