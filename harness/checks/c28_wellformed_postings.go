package checks

import (
	"context"
	"fmt"
	"math/big"
	"math/rand"
	"regexp"
	"strings"

	"github.com/formancehq/go-libs/v5/pkg/storage/bun/paginate"
	"github.com/formancehq/go-libs/v5/pkg/types/metadata"

	ledger "github.com/formancehq/ledger/internal"
	ledgercontroller "github.com/formancehq/ledger/internal/controller/ledger"
	"github.com/formancehq/ledger/internal/machine"
	"github.com/formancehq/ledger/internal/machine/script/compiler"
	"github.com/formancehq/ledger/internal/machine/vm"
	"github.com/formancehq/ledger/internal/storage/common"
	ledgerstore "github.com/formancehq/ledger/internal/storage/ledger"
	"github.com/formancehq/ledger/verifharness/core"
	"github.com/formancehq/ledger/verifharness/sim"
)

// C28VM — machine-runtime half of C28 (stored transactions only contain
// well-formed postings): every posting produced by a SUCCESSFUL run of the
// machine runtime must have source/destination matching the account-address
// pattern, asset matching the asset pattern, and a non-nil, non-negative
// amount. Whatever the machine returns without error is what the controller
// commits (controller_default.go builds the transaction from
// NumscriptExecutionResult.Postings), so a malformed posting here is a
// malformed stored posting.
//
// The oracle patterns below are COPIES OF THE DOCUMENTED PATTERN TEXT
// (pkg/assets/asset.go `Pattern`, pkg/accounts/accounts.go `Pattern`); the
// repository's own regexps/validators (assets.Regexp, accounts.Regexp,
// machine.ValidateAsset, machine.ValidateAccountAddress, Postings.Validate)
// are only exercised as code under test.

const (
	c28AssetPattern   = `^[A-Z][A-Z0-9]{0,16}(_[A-Z]{1,16})?(\/\d{1,6})?$`
	c28AccountPattern = `^[a-zA-Z0-9_-]+(:[a-zA-Z0-9_-]+)*$`
)

var (
	c28AssetRe   = regexp.MustCompile(c28AssetPattern)
	c28AccountRe = regexp.MustCompile(c28AccountPattern)
)

func init() {
	core.Register(&core.Check{
		ID: "C28", Level: "exploration",
		Rule: "loops `commit`/`import`: creates through the full controller stack over memstore by postings, machine and interpreter scripts (literal and variable edge assets / accounts, meta()-sourced accounts) and imports of export streams with one posting field made ill-formed; every transaction the store COMMITTED is scanned against the documented patterns. loop `scripts`: one case = one generated machine-runtime script of one of 10 kinds (literal-asset send / send-all, asset / monetary / account variables, account / asset / monetary sourced from meta(), balance() of a literal asset, allotment+in-order+max+save with literal assets, monetary arithmetic) " +
			"whose asset literals are drawn from the edges of the lexer rule ASSET=[A-Z/0-9]+ (leading slash/digit, double/trailing/multiple slashes, 17/18-char bases, 6/7-digit precisions, random strings over the lexer alphabet) and whose variable / metadata values are drawn from edge pools " +
			"(lower case, underscores, blanks, newlines, non-ASCII, empty, `a::b`, leading/trailing colon, negative / signed / hex / huge amounts); executed through compile+vm.Machine+vm.Run and through ledgercontroller.DefaultNumscriptParser.Parse+Execute over a fake store; every posting of every successful run is checked. " +
			"Shape = (kind, class of the asset used, class of the account values, amount class, outcome). Non-trivial = the run succeeded with at least one posting and at least one of the values fed in is an edge value (not a plain valid one). " +
			"loop `validate`: random postings from the same pools given to the real Postings.Validate; it must not accept a posting the documented patterns reject.",
		Assumptions: []string{
			"oracle patterns are the pattern texts documented in pkg/assets/asset.go and pkg/accounts/accounts.go copied as constants into the check (anchored with ^...$, Go regexp semantics: $ matches only at end of text)",
			"only the machine runtime is driven here (the interpreter runtime and the commit path are monitored by the final C28 inside memstore)",
			"the fake store answers every balance query with the configured balance (default 1000) and serves the configured account metadata verbatim",
			"a posting returned by a successful run is taken to be what would be committed; runs that return an error are only counted",
		},
		Run: func(r *core.Run) {
			runC28VM(r)
			runC28Committed(r)
			// loop `histories`: every transaction COMMITTED by a random sequential history — creates AND the
			// revert transactions the controller builds itself (30% reverts, multi-posting chains) — is scanned
			// by the mirror's well-formedness monitor (signatures C28/ill-formed-posting-committed:<kind>)
			runSeq(r, seqConfig{Prop: "C28", Histories: [2]int{150, 3000}, OpsPer: [2]int{30, 50},
				Mutate: func(op *sim.Op, rng *rand.Rand, st *sim.GenState) {
					if len(st.TxIDs) > 0 && rng.Intn(100) < 30 {
						*op = sim.Op{Kind: "revert", TxID: st.TxIDs[rng.Intn(len(st.TxIDs))], Force: rng.Intn(3) == 0, AtEffectiveDate: rng.Intn(2) == 0}
					}
				}})
		},
	})
}

// ---------- classification of malformed values (for stable signatures) ----------

func c28AssetClass(a string) string {
	if c28AssetRe.MatchString(a) {
		return "valid"
	}
	if a == "" {
		return "empty"
	}
	for _, ch := range a {
		if !(ch >= 'A' && ch <= 'Z' || ch >= '0' && ch <= '9' || ch == '/' || ch == '_') {
			return "illegal-character"
		}
	}
	if a[0] == '/' {
		return "leading-slash"
	}
	if a[0] >= '0' && a[0] <= '9' {
		return "leading-digit"
	}
	if a[0] == '_' {
		return "leading-underscore"
	}
	base, rest, hasSlash := strings.Cut(a, "/")
	name, suffix, hasUnderscore := strings.Cut(base, "_")
	if len(name) > 17 {
		return "base-too-long"
	}
	if hasUnderscore {
		ok := len(suffix) >= 1 && len(suffix) <= 16
		for _, ch := range suffix {
			if ch < 'A' || ch > 'Z' {
				ok = false
			}
		}
		if !ok {
			return "bad-underscore-suffix"
		}
	}
	if hasSlash {
		switch {
		case rest == "":
			return "trailing-slash"
		case rest[0] == '/':
			return "double-slash"
		case strings.Contains(rest, "/"):
			return "multiple-slashes"
		}
		for _, ch := range rest {
			if ch < '0' || ch > '9' {
				return "non-digit-precision"
			}
		}
		if len(rest) > 6 {
			return "precision-too-long"
		}
	}
	return "other"
}

func c28AccountClass(a string) string {
	if c28AccountRe.MatchString(a) {
		return "valid"
	}
	switch {
	case a == "":
		return "empty"
	case strings.HasPrefix(a, ":"):
		return "leading-colon"
	case strings.HasSuffix(a, ":"):
		return "trailing-colon"
	case strings.Contains(a, "::"):
		return "empty-segment"
	}
	return "illegal-character"
}

// ---------- pools ----------

var c28AssetLiterals = []string{
	// valid
	"USD", "EUR/2", "COIN", "A", "A1", "BTC/8", "X/123456", "ABCDEFGHIJKLMNOPQ", "Z9/0",
	// accepted by the lexer rule [A-Z/0-9]+ only
	"/", "/2", "A/", "A//B", "A//2", "0A", "1USD", "9/A", "1/2/3", "USD/A", "A/B/C", "USD/2/2", "USD/1234567", "ABCDEFGHIJKLMNOPQR", "A/B", "USD//", "/USD", "00", "7/",
}

func c28RandAssetLiteral(rng *rand.Rand) string {
	if rng.Intn(3) > 0 {
		return c28AssetLiterals[rng.Intn(len(c28AssetLiterals))]
	}
	const alpha = "ABCXYZ019/"
	n := 1 + rng.Intn(6)
	if rng.Intn(8) == 0 {
		n = 16 + rng.Intn(5)
	}
	b := make([]byte, n)
	for i := range b {
		b[i] = alpha[rng.Intn(len(alpha))]
	}
	return string(b)
}

var c28AssetValues = []string{
	"USD", "EUR/2", "COIN", "USD_TEST", "A_B/2", "X/123456", "ABCDEFGHIJKLMNOPQ",
	"usd", "Usd", "uSD", "u", "eUR/2", "USd", "USD_test", "USD_", "_USD", "USD/", "/", "/2", "A//B", "0A", "", " USD", "USD ", "USD\n", "\nUSD", "ÉUR", "USD/1234567", "ABCDEFGHIJKLMNOPQR",
	"A_ABCDEFGHIJKLMNOPQ", "USD/2/2", "USD/-1", "USD/٣", "US D", "USD\x00", "USD/2 ", "U$D",
}

var c28AccountValues = []string{
	"users:001", "a", "a:b:c", "A-b_c", "world", "bank", "0", "a:b:c:d:e:f:g:h",
	"", ":", "a:", ":a", "a::b", "a b", "a:b ", " a", "users:é", "@a", "a\n", "\na", "a.b", "a/b", "a:b\n", "a\x00", "a:*", "日本",
}

var c28Amounts = []string{"0", "1", "100", "18446744073709551616", "999999999999999999999999999999", "-1", "+5", " 5", "5 ", "1e3", "0x10", "1_000", "", "٣", "1.0", "-0", "00012"}

var c28LiteralAccounts = []string{"a", "users:001", "A-b_c:0", "x_y", "a:b:c:d:e:f:g:h", "0", "-", "_", "bank:main-1"}

func c28Pick(rng *rand.Rand, xs []string) string { return xs[rng.Intn(len(xs))] }

// ---------- generated script ----------

type c28Script struct {
	kind     string
	text     string
	vars     map[string]string
	meta     map[string]map[string]string // account -> key -> value
	balance  *big.Int
	assets   map[string]string // asset value -> origin (literal | variable | monetary-variable | meta | meta-monetary)
	accounts map[string]string // account value -> origin (literal | variable | meta)
	edge     bool              // at least one non-plain value fed in
	amtClass string
}

func (s *c28Script) asset(v, origin string) string {
	if _, ok := s.assets[v]; !ok {
		s.assets[v] = origin
	}
	if c28AssetClass(v) != "valid" || len(v) > 8 {
		s.edge = true
	}
	return v
}

func (s *c28Script) account(v, origin string) string {
	if _, ok := s.accounts[v]; !ok {
		s.accounts[v] = origin
	}
	if origin != "literal" && (c28AccountClass(v) != "valid" || strings.Count(v, ":") > 3) {
		s.edge = true
	}
	return v
}

func c28Gen(rng *rand.Rand) *c28Script {
	s := &c28Script{vars: map[string]string{}, meta: map[string]map[string]string{}, assets: map[string]string{}, accounts: map[string]string{}, balance: big.NewInt(1000), amtClass: "plain"}
	lit := func() string { return s.asset(c28RandAssetLiteral(rng), "literal") }
	dst := func() string { return "@" + s.account(c28Pick(rng, c28LiteralAccounts), "literal") }
	amt := func() string {
		switch rng.Intn(5) {
		case 0:
			return "0"
		case 1:
			return "340282366920938463463374607431768211456"
		default:
			return fmt.Sprint(1 + rng.Intn(500))
		}
	}
	switch rng.Intn(10) {
	case 0:
		s.kind = "literal-asset-send"
		src := "@world"
		if rng.Intn(3) == 0 {
			src = "@src allowing unbounded overdraft"
		} else if rng.Intn(3) == 0 {
			src = "@src"
		}
		s.text = fmt.Sprintf("send [%s %s] (\n  source = %s\n  destination = %s\n)\n", lit(), amt(), src, dst())
	case 1:
		s.kind = "literal-asset-send-all"
		s.text = fmt.Sprintf("send [%s *] (\n  source = @src\n  destination = %s\n)\n", lit(), dst())
	case 2:
		s.kind = "asset-variable"
		s.vars["a"] = s.asset(c28Pick(rng, c28AssetValues), "variable")
		s.text = fmt.Sprintf("vars {\n  asset $a\n}\nsend [$a %s] (\n  source = @world\n  destination = %s\n)\n", amt(), dst())
	case 3:
		s.kind = "monetary-variable"
		a, n := c28Pick(rng, c28AssetValues), c28Pick(rng, c28Amounts)
		if rng.Intn(2) == 0 {
			n = amt()
		} else {
			s.edge, s.amtClass = true, "edge:"+n
		}
		s.asset(a, "monetary-variable")
		s.vars["m"] = a + " " + n
		src := "@world"
		if rng.Intn(2) == 0 {
			src = "@src allowing unbounded overdraft"
		}
		s.text = fmt.Sprintf("vars {\n  monetary $m\n}\nsend $m (\n  source = %s\n  destination = %s\n)\n", src, dst())
	case 4:
		s.kind = "account-variable"
		s.vars["s"] = s.account(c28Pick(rng, c28AccountValues), "variable")
		s.vars["d"] = s.account(c28Pick(rng, c28AccountValues), "variable")
		over := " allowing unbounded overdraft"
		if rng.Intn(4) == 0 {
			over = ""
		}
		s.text = fmt.Sprintf("vars {\n  account $s\n  account $d\n}\nsend [%s %s] (\n  source = $s%s\n  destination = $d\n)\n", s.asset(c28Pick(rng, []string{"USD", "EUR/2"}), "literal"), amt(), over)
	case 5:
		s.kind = "meta-account"
		d := s.account(c28Pick(rng, c28AccountValues), "meta")
		s.meta["cfg"] = map[string]string{"dest": d}
		text := "vars {\n  account $d = meta(@cfg, \"dest\")\n"
		src := "@world"
		if rng.Intn(2) == 0 {
			sv := s.account(c28Pick(rng, c28AccountValues), "meta")
			s.meta["cfg"]["src"] = sv
			text += "  account $s = meta(@cfg, \"src\")\n"
			src = "$s allowing unbounded overdraft"
		}
		s.text = text + fmt.Sprintf("}\nsend [%s %s] (\n  source = %s\n  destination = $d\n)\n", s.asset("COIN", "literal"), amt(), src)
	case 6:
		s.kind = "meta-asset-monetary"
		a, n := c28Pick(rng, c28AssetValues), c28Pick(rng, c28Amounts)
		if rng.Intn(2) == 0 {
			n = amt()
		} else {
			s.edge, s.amtClass = true, "edge:"+n
		}
		if rng.Intn(2) == 0 {
			s.asset(a, "meta")
			s.meta["cfg"] = map[string]string{"asset": a}
			s.text = fmt.Sprintf("vars {\n  asset $a = meta(@cfg, \"asset\")\n}\nsend [$a %s] (\n  source = @world\n  destination = %s\n)\n", amt(), dst())
		} else {
			s.asset(a, "meta-monetary")
			s.meta["cfg"] = map[string]string{"mon": a + " " + n}
			s.text = fmt.Sprintf("vars {\n  monetary $m = meta(@cfg, \"mon\")\n}\nsend $m (\n  source = @world\n  destination = %s\n)\n", dst())
		}
	case 7:
		s.kind = "balance-of-literal-asset"
		switch rng.Intn(4) {
		case 0:
			s.balance = big.NewInt(0)
		case 1:
			s.balance = big.NewInt(-5)
			s.edge, s.amtClass = true, "negative-balance"
		case 2:
			s.balance, _ = new(big.Int).SetString("340282366920938463463374607431768211456", 10)
		}
		s.text = fmt.Sprintf("vars {\n  monetary $b = balance(@src, %s)\n}\nsend $b (\n  source = @src allowing unbounded overdraft\n  destination = %s\n)\n", lit(), dst())
	case 8:
		s.kind = "allotment-inorder-max-save"
		a := lit()
		switch rng.Intn(4) {
		case 0:
			s.text = fmt.Sprintf("send [%s %s] (\n  source = @world\n  destination = {\n    1/3 to %s\n    remaining to %s\n  }\n)\n", a, amt(), dst(), dst())
		case 1:
			s.text = fmt.Sprintf("send [%s %s] (\n  source = {\n    max [%s 7] from @src\n    @world\n  }\n  destination = {\n    max [%s 3] to %s\n    remaining to %s\n  }\n)\n", a, amt(), a, a, dst(), dst())
		case 2:
			s.text = fmt.Sprintf("save [%s 10] from @src\nsend [%s *] (\n  source = @src\n  destination = %s\n)\n", a, a, dst())
		default:
			s.text = fmt.Sprintf("send [%s %s] (\n  source = {\n    50%% from @src allowing overdraft up to [%s 100000]\n    remaining from @world\n  }\n  destination = %s\n)\nset_tx_meta(\"asset\", %s)\n", a, amt(), a, dst(), a)
		}
	default:
		s.kind = "monetary-arithmetic"
		a := lit()
		x, y := rng.Intn(20), rng.Intn(20)
		op := "-"
		if rng.Intn(3) == 0 {
			op = "+"
		}
		if op == "-" && x < y {
			s.edge, s.amtClass = true, "negative-difference"
		}
		src := "@world"
		if rng.Intn(2) == 0 {
			src = "@src"
		}
		s.text = fmt.Sprintf("send [%s %d] %s [%s %d] (\n  source = %s\n  destination = %s\n)\n", a, x, op, a, y, src, dst())
	}
	s.account("src", "literal")
	s.account("world", "literal")
	return s
}

// ---------- fake stores ----------

type c28VMStore struct{ s *c28Script }

func (st c28VMStore) GetBalances(_ context.Context, q vm.BalanceQuery) (vm.Balances, error) {
	out := vm.Balances{}
	for acc, assets := range q {
		if out[acc] == nil {
			out[acc] = map[string]*big.Int{}
		}
		for _, a := range assets {
			out[acc][a] = new(big.Int).Set(st.s.balance)
		}
	}
	return out, nil
}

func (st c28VMStore) GetAccount(_ context.Context, address string) (*ledger.Account, error) {
	md := metadata.Metadata{}
	for k, v := range st.s.meta[address] {
		md[k] = v
	}
	return &ledger.Account{Address: address, Metadata: md}, nil
}

// c28CtlStore is the tiny fake controller store: only what
// MachineNumscriptRuntimeAdapter.Execute touches (GetBalances, Accounts().GetOne).
type c28CtlStore struct {
	ledgercontroller.Store
	s *c28Script
}

func (st c28CtlStore) GetBalances(ctx context.Context, q ledgerstore.BalanceQuery) (ledger.Balances, error) {
	return c28VMStore{st.s}.GetBalances(ctx, q)
}

func (st c28CtlStore) Accounts() common.PaginatedResource[ledger.Account, any] {
	return c28Accounts{st.s}
}

type c28Accounts struct{ s *c28Script }

func (a c28Accounts) GetOne(ctx context.Context, q common.ResourceQuery[any]) (*ledger.Account, error) {
	addr := ""
	if q.Builder != nil {
		_ = q.Builder.Walk(func(operator, key string, value *any) error {
			if key == "address" {
				addr = fmt.Sprint(*value)
			}
			return nil
		})
	}
	return c28VMStore{a.s}.GetAccount(ctx, addr)
}
func (a c28Accounts) Count(context.Context, common.ResourceQuery[any]) (int, error) { return 0, nil }
func (a c28Accounts) Paginate(context.Context, common.PaginatedQuery[any]) (*paginate.Cursor[ledger.Account], error) {
	return &paginate.Cursor[ledger.Account]{}, nil
}

// ---------- execution ----------

func c28CopyVars(v map[string]string) map[string]string {
	out := map[string]string{}
	for k, x := range v {
		out[k] = x
	}
	return out
}

// c28RunVM: compile + machine + vm.Run.
func c28RunVM(s *c28Script) (ledger.Postings, string, error) {
	prog, err := compiler.Compile(s.text)
	if err != nil {
		return nil, "compile", err
	}
	m := vm.NewMachine(*prog)
	m.Printer = func(c chan machine.Value) {
		for range c {
		}
	}
	if err := m.SetVarsFromJSON(c28CopyVars(s.vars)); err != nil {
		return nil, "vars", err
	}
	if err := m.ResolveResources(context.Background(), c28VMStore{s}); err != nil {
		return nil, "resources", err
	}
	if err := m.ResolveBalances(context.Background(), c28VMStore{s}); err != nil {
		return nil, "balances", err
	}
	res, err := vm.Run(m, vm.RunScript{})
	if err != nil {
		return nil, "execute", err
	}
	return res.Postings, "ok", nil
}

// c28RunController: the controller's parser + runtime adapter.
func c28RunController(s *c28Script) (ledger.Postings, string, error) {
	rt, err := ledgercontroller.NewDefaultNumscriptParser().Parse(s.text)
	if err != nil {
		return nil, "compile", err
	}
	res, err := rt.Execute(context.Background(), c28CtlStore{s: s}, c28CopyVars(s.vars))
	if err != nil {
		return nil, "execute", err
	}
	return res.Postings, "ok", nil
}

func c28PostingsJSON(ps ledger.Postings) []map[string]string {
	out := make([]map[string]string, len(ps))
	for i, p := range ps {
		a := "<nil>"
		if p.Amount != nil {
			a = p.Amount.String()
		}
		out[i] = map[string]string{"source": p.Source, "destination": p.Destination, "asset": p.Asset, "amount": a}
	}
	return out
}

func c28CheckPostings(c *core.Case, r *core.Run, s *c28Script, entry string, ps ledger.Postings) {
	for _, p := range ps {
		r.Count("postings_checked", 1)
		detail := map[string]any{"entry_point": entry, "kind": s.kind, "script": s.text, "vars": s.vars, "account_metadata": s.meta, "balance_served": s.balance.String(), "postings": c28PostingsJSON(ps)}
		if cl := c28AssetClass(p.Asset); cl != "valid" {
			origin := s.assets[p.Asset]
			if origin == "" {
				origin = "unknown-origin"
			}
			r.Count("malformed_asset_postings", 1)
			detail["asset"] = p.Asset
			c.Violation("C28/vm-asset-"+origin+":"+cl, detail)
		} else {
			r.Count("wellformed_asset_postings", 1)
		}
		for side, acc := range map[string]string{"source": p.Source, "destination": p.Destination} {
			if cl := c28AccountClass(acc); cl != "valid" {
				origin := s.accounts[acc]
				if origin == "" {
					origin = "unknown-origin"
				}
				detail["account"] = acc
				c.Violation("C28/vm-"+side+"-account-"+origin+":"+cl, detail)
			}
		}
		switch {
		case p.Amount == nil:
			c.Violation("C28/vm-amount-nil:"+s.kind, detail)
		case p.Amount.Sign() < 0:
			c.Violation("C28/vm-amount-negative:"+s.kind, detail)
		case p.Amount.Sign() == 0:
			r.Count("zero_amount_postings", 1)
		}
	}
}

func runC28VM(r *core.Run) {
	r.Floor("distinct_nontrivial", 100)
	r.Floor("runs_ok", 2000)
	r.Floor("postings_checked", 4000)
	r.Floor("kinds", 10)
	r.Floor("validate_postings_checked", 5000)
	r.Floor("validate_rejected_malformed", 1000)

	r.ForEach("scripts", r.N(20_000, 500_000), 0, func(c *core.Case) {
		s := c28Gen(c.Rng)
		r.Seen("kinds", s.kind)
		ps, stage, err := c28RunVM(s)
		ps2, stage2, err2 := c28RunController(s)
		r.Count("scripts", 1)
		if stage == "compile" {
			r.Count("compile_errors", 1)
			r.Seen("compile_error_classes", c24ErrClass(err))
		} else {
			r.Count("compiled", 1)
		}
		if stage != stage2 && !(stage2 == "execute" && stage != "ok" && stage != "compile") {
			r.Count("entry_points_disagree_on_outcome", 1)
		}
		for a, o := range s.assets {
			r.Seen("asset_classes_fed", o+":"+c28AssetClass(a))
		}
		for a, o := range s.accounts {
			if o != "literal" {
				r.Seen("account_classes_fed", o+":"+c28AccountClass(a))
			}
		}
		assetClass := "none"
		for a := range s.assets {
			if cl := c28AssetClass(a); cl != "valid" || assetClass == "none" {
				assetClass = cl
			}
		}
		accClass := "valid"
		for a := range s.accounts {
			if cl := c28AccountClass(a); cl != "valid" {
				accClass = cl
			}
		}
		if err != nil {
			r.Count("runs_error_at_"+stage, 1)
			r.Seen("error_classes", stage+": "+c24ErrClass(err))
		} else {
			r.Count("runs_ok", 1)
			if len(ps) > 0 {
				r.Count("runs_ok_with_postings", 1)
			}
			c28CheckPostings(c, r, s, "compiler.Compile+vm.Machine+vm.Run", ps)
			// the repository's own validator, as code under test: it must not accept what the documented patterns reject
			if _, verr := ps.Validate(); verr == nil {
				for _, p := range ps {
					if c28AssetClass(p.Asset) != "valid" || c28AccountClass(p.Source) != "valid" || c28AccountClass(p.Destination) != "valid" {
						c.Violation("C28/postings-validate-accepts-malformed-posting", map[string]any{"script": s.text, "postings": c28PostingsJSON(ps)})
					}
				}
			} else {
				r.Count("successful_runs_whose_postings_fail_Postings.Validate", 1)
			}
		}
		if err2 == nil {
			r.Count("controller_runs_ok", 1)
			c28CheckPostings(c, r, s, "ledgercontroller.DefaultNumscriptParser.Parse+Execute", ps2)
		} else {
			_ = stage2
			r.Count("controller_runs_error", 1)
		}
		r.Eval(fmt.Sprintf("%s|%s|%s|%s|%s", s.kind, assetClass, accClass, s.amtClass, stage), err == nil && len(ps) > 0 && s.edge)
		if c.Index < 4 {
			r.Sample(map[string]any{"kind": s.kind, "script": s.text, "vars": s.vars, "meta": s.meta, "stage": stage, "postings": c28PostingsJSON(ps)})
		}
	})

	// Postings.Validate differential (the mechanism of the postings path)
	r.ForEach("validate", r.N(20_000, 300_000), 0, func(c *core.Case) {
		rng := c.Rng
		pickAsset := func() string {
			if rng.Intn(2) == 0 {
				return c28Pick(rng, c28AssetValues)
			}
			return c28RandAssetLiteral(rng)
		}
		pickAcc := func() string {
			if rng.Intn(3) == 0 {
				return c28Pick(rng, c28AccountValues)
			}
			return c28Pick(rng, c28LiteralAccounts)
		}
		var amount *big.Int
		switch rng.Intn(6) {
		case 0:
			amount = nil
		case 1:
			amount = big.NewInt(-1 - int64(rng.Intn(5)))
		case 2:
			amount = new(big.Int)
		default:
			amount = c24RandBig(rng, 1+rng.Intn(130))
		}
		asset := "USD"
		if rng.Intn(3) > 0 {
			asset = pickAsset()
		}
		p := ledger.Posting{Source: pickAcc(), Destination: pickAcc(), Asset: asset, Amount: amount}
		wellformed := c28AssetClass(p.Asset) == "valid" && c28AccountClass(p.Source) == "valid" && c28AccountClass(p.Destination) == "valid" && amount != nil && amount.Sign() >= 0
		_, err := ledger.Postings{p}.Validate()
		r.Count("validate_postings_checked", 1)
		cls := fmt.Sprintf("asset=%s|src=%s|dst=%s|amount=%v", c28AssetClass(p.Asset), c28AccountClass(p.Source), c28AccountClass(p.Destination), map[bool]string{true: "ok", false: "bad"}[amount != nil && amount.Sign() >= 0])
		r.Eval("validate|"+cls, !wellformed)
		switch {
		case err == nil && !wellformed:
			c.Violation("C28/postings-validate-accepts:"+cls, map[string]any{"posting": c28PostingsJSON(ledger.Postings{p})})
		case err != nil && wellformed:
			r.Count("validate_rejected_wellformed", 1) // stricter than documented: not a violation of the statement
		case err != nil:
			r.Count("validate_rejected_malformed", 1)
		default:
			r.Count("validate_accepted_wellformed", 1)
		}
	})
}
