package checks

// C33 — replication delivers every log, in order, despite failures.
//
// Drives the REAL replication.Manager + PipelineHandler + DriverFacade over
// (a) c33Storage: in-memory replication.Storage behind a fault-injecting,
// recording decorator, (b) c33Driver: a recording exporter with failure
// patterns, with periods of microseconds, under random
// start/stop/reset/manager-restart sequences concurrent with log production.
// Oracles run over one totally ordered event log (c33_monitor.go).

import (
	"context"
	"encoding/json"
	"errors"
	"fmt"
	"math/rand"
	"runtime"
	"sort"
	"strings"
	"sync"
	"sync/atomic"
	"time"

	logging "github.com/formancehq/go-libs/v5/pkg/observe/log"

	ledger "github.com/formancehq/ledger/internal"
	"github.com/formancehq/ledger/internal/replication"

	"github.com/formancehq/ledger/verifharness/core"
)

func init() {
	core.Register(&core.Check{
		ID: "C33", Level: "exploration",
		Rule: "one case = one scenario (2-3 ledgers with 100-2000 logs produced concurrently, 2-4 pipelines over 1-2 exporters, " +
			"an exporter failure pattern per pipeline, a storage fault plan, a sequence of start/stop/reset/manager-restart/exporter-down/up operations); " +
			"in 5 of 16 scenarios of the random class every exporter is the recording driver wrapped in the REAL drivers.Batcher (maxItems 1-16 smaller than the page, or unlimited; flush interval 0.15-1.35 ms) " +
			"and the exporter refuses chosen chunks of one Accept call (first / middle / last / all but the last / all but the first / every other one, globally or per item); " +
			"shape = scenario class x collapsed op-kind sequence x accept patterns x storage fault kinds x sync mode x batching; " +
			"non-trivial iff the scenario delivered >= 1 acknowledged batch and contained >= 1 fired fault or >= 1 control operation",
		Assumptions: []string{
			"the in-memory replication.Storage (c33Mem) is trusted: ListLogs answers `id > last ORDER BY id ASC LIMIT pageSize+1` like the real column paginator; StorePipelineState / UpdatePipeline are single-row atomic writes (what one SQL UPDATE gives)",
			"an acknowledgement is an Accept call of the recording exporter that returns nil while the context the pipeline gave it is still live; an Accept whose context the pipeline already cancelled (stop) acknowledges nothing",
			"log ids of a ledger are 1..n without holes, so 'no gap' is 'next id'",
			"scheduling is the Go scheduler's (free running); interleavings are sampled, not enumerated; the targeted classes force the reset-vs-late-store and cancelled-stop orders with storage-side holds",
			"liveness is bounded progress: after faults and production stop, every log acknowledged within 200+ceil(n/pageSize) ListLogs polls of the pipeline; a wall-clock watchdog (60 s) only ever yields inconclusive",
			"handler termination is observed through the logger message 'Pipeline terminated.' (zombie oracle only)",
			"batched exporters: a log is accepted only when the recording driver below the real Batcher returned nil (and no item error) for the chunk containing it; the persisted cursor is compared with the contiguous accepted prefix since the last reset; logs the Batcher still holds from a call of the run before a reset are duplicates and prove nothing; the flush interval only decides how a call is cut into chunks, never a verdict. With a batcher a chunk following a refused chunk of the same call is still delivered (ids ahead of a hole, replayed by the retry): counted (batched_logs_accepted_ahead_of_a_refused_chunk), not a violation",
		},
		Run: runC33,
	})
}

func runC33(r *core.Run) {
	if r.RaceMode {
		// free-running, no event log, no shared monitor mutex: the race detector is the oracle
		r.ForEach("race", r.N(320, 4000), 0, func(c *core.Case) {
			sc := c33Generate(c.Rng, c.Index, r.Quick(), true)
			c33Execute(r, c, sc, true)
		})
		return
	}
	r.Floor("distinct_nontrivial", 100)
	r.Floor("acks", 10000)
	r.Floor("store_applied", 5000)
	r.Floor("resets", 50)
	r.Floor("restarts", 50)
	r.Floor("polls", 10000)
	r.Floor("accept_errors", 200)
	r.Floor("resets_racing_a_held_store", 20) // ResetPipeline ran while the pipeline's last StorePipelineState was still inside the storage
	r.Floor("batched_scenarios", 60)
	r.Floor("batched_calls_flushed_in_several_chunks", 2000)
	r.Floor("batched_calls_with_a_refused_chunk_and_an_accepted_last_chunk", 100) // the Batcher had to report a failure although its last flush succeeded
	r.ForEach("main", r.N(320, 4000), 0, func(c *core.Case) {
		sc := c33Generate(c.Rng, c.Index, r.Quick(), false)
		c33Execute(r, c, sc, false)
	})
}

// ---------- generator ----------

func c33Class(idx int, race bool) string {
	if race {
		return "random"
	}
	switch {
	case idx%8 == 3:
		return "held-store-reset"
	case idx%8 == 7:
		return "held-store-reset-restart"
	case idx%16 == 5:
		return "cancelled-stop"
	}
	return "random"
}

// c33Batched: which scenarios of the random class run their exporters behind the real Batcher.
func c33Batched(idx int) bool { return idx%4 == 1 || idx%8 == 2 }

func c33AddBatching(rng *rand.Rand, sc *c33Scenario, race bool) {
	pick := func(xs ...int) int { return xs[rng.Intn(len(xs))] }
	if sc.PageSize < 7 {
		sc.PageSize = pick(7, 10, 25, 50)
	}
	mi := pick(1, 2, 3, 4, 7, 16)
	for mi >= sc.PageSize {
		mi /= 2
	}
	if rng.Intn(12) == 0 {
		mi = 0 // unlimited: a call is flushed by the interval only
	}
	sc.Batch = &c33BatchPlan{MaxItems: mi, FlushUS: 150 + rng.Intn(1200)}
	if race {
		return
	}
	pos := []string{"first", "middle", "last", "not-last", "not-first", "even", "odd"}
	for i := range sc.Pipes {
		if rng.Intn(2) == 0 {
			sc.Pipes[i].Accept = c33AcceptPlan{Kind: "chunk-fail", Pos: pos[rng.Intn(len(pos))], K: 1 + rng.Intn(8), Every: 1 + rng.Intn(3)}
		}
	}
}

func c33Generate(rng *rand.Rand, idx int, quick, race bool) *c33Scenario {
	sc := c33GenerateBase(rng, idx, quick, race)
	if sc.Class == "random" && c33Batched(idx) {
		c33AddBatching(rng, sc, race)
	}
	return sc
}

func c33GenerateBase(rng *rand.Rand, idx int, quick, race bool) *c33Scenario {
	sc := &c33Scenario{Class: c33Class(idx, race)}
	pick := func(xs ...int) int { return xs[rng.Intn(len(xs))] }
	maxTotal := 2000
	if quick {
		maxTotal = 700
	}
	if race {
		maxTotal = 400
	}
	nLedgers := 2 + rng.Intn(2)
	for i := 0; i < nLedgers; i++ {
		total := 100 + rng.Intn(maxTotal-99)
		sc.Ledgers = append(sc.Ledgers, c33LedgerPlan{
			Name: fmt.Sprintf("L%d", i), Total: total, BurstMax: 1 + rng.Intn(40), GapUS: 100 + rng.Intn(1900),
		})
	}
	nExp := 1 + rng.Intn(2)
	acceptKinds := []string{"ok", "fail-k", "fail-until-heal", "slow", "fail-on-batch", "flaky"}
	mkAccept := func(total int) c33AcceptPlan {
		k := acceptKinds[rng.Intn(len(acceptKinds))]
		a := c33AcceptPlan{Kind: k}
		switch k {
		case "fail-k":
			a.K = 1 + rng.Intn(12)
		case "slow":
			a.SlowUS = 50 + rng.Intn(1500)
		case "fail-on-batch":
			a.K = 1 + rng.Intn(5)
			a.X = uint64(1 + rng.Intn(total))
		case "flaky":
			a.K = 2 + rng.Intn(5)
			a.SlowUS = rng.Intn(300)
		}
		return a
	}
	for i, l := range sc.Ledgers {
		sc.Pipes = append(sc.Pipes, c33PipePlan{
			Name: fmt.Sprintf("p%d", i), Ledger: l.Name, Exporter: fmt.Sprintf("e%d", rng.Intn(nExp)), Accept: mkAccept(l.Total),
		})
	}
	if nExp == 2 && rng.Intn(2) == 0 {
		// a second pipeline on ledger L0 through the other exporter
		other := "e0"
		if sc.Pipes[0].Exporter == "e0" {
			other = "e1"
		}
		sc.Pipes = append(sc.Pipes, c33PipePlan{
			Name: fmt.Sprintf("p%d", len(sc.Pipes)), Ledger: "L0", Exporter: other, Accept: mkAccept(sc.Ledgers[0].Total),
		})
	}
	sc.PageSize = pick(1, 3, 7, 10, 10, 25, 50, 100)
	if sc.PageSize == 1 {
		for i := range sc.Ledgers {
			sc.Ledgers[i].Total = min(sc.Ledgers[i].Total, 400)
		}
	}
	sc.PullUS = 20 + rng.Intn(800)
	sc.RetryUS = 20 + rng.Intn(800)
	if rng.Intn(2) == 0 {
		sc.SyncUS = 2000 + rng.Intn(8000)
	}

	switch sc.Class {
	case "held-store-reset", "held-store-reset-restart":
		// p0: production pauses at M, the StorePipelineState(M) of the idle pipeline is held in
		// the storage while ResetPipeline runs, and is released when the reset has been applied.
		m := sc.PageSize * (3 + rng.Intn(6))
		sc.Ledgers[0].Total = max(sc.Ledgers[0].Total, m+sc.PageSize*4)
		sc.Ledgers[0].PauseAt = m
		sc.Pipes[0].Accept = c33AcceptPlan{Kind: "slow", SlowUS: 100 + rng.Intn(300)}
		sc.Store.HoldStorePipe = "p0"
		sc.Store.HoldStoreAt = uint64(m)
		sc.Store.ListLogsDelayEvery, sc.Store.ListLogsDelayUS = 5, rng.Intn(200)
		sc.SyncUS = 0
		if sc.Class == "held-store-reset" {
			sc.Ops = []c33Op{{Kind: "wait-hold"}, {Kind: "reset", Pipe: "p0"}, {Kind: "resume", Ledger: "L0", SleepUS: rng.Intn(2000)}}
			if rng.Intn(2) == 0 {
				sc.Ops = append(sc.Ops, c33Op{Kind: "restart", SleepUS: rng.Intn(3000)})
			}
		} else {
			sc.Ops = []c33Op{{Kind: "wait-hold"}, {Kind: "down", Pipe: "p0"}, {Kind: "reset", Pipe: "p0"},
				{Kind: "restart", SleepUS: rng.Intn(1000)}, {Kind: "up", Pipe: "p0"}, {Kind: "resume", Ledger: "L0", SleepUS: rng.Intn(1000)}}
		}
		return sc
	case "cancelled-stop":
		sc.SyncUS = 0
		sc.Ops = []c33Op{{Kind: "stop-cancelled", Pipe: "p0", WaitAcks: 2}, {Kind: "start", Pipe: "p0", SleepUS: rng.Intn(1000)}}
		for i, n := 0, rng.Intn(4); i < n; i++ {
			sc.Ops = append(sc.Ops, c33Op{Kind: pick2(rng, "stop", "start", "reset"), Pipe: "p1", SleepUS: rng.Intn(2000)})
		}
		return sc
	}

	// random class: storage faults
	st := &sc.Store
	if rng.Intn(2) == 0 {
		st.ListLogsFailEvery = 3 + rng.Intn(15)
	}
	if rng.Intn(2) == 0 {
		st.ListLogsDelayEvery, st.ListLogsDelayUS = 1+rng.Intn(6), 50+rng.Intn(1500)
	}
	if rng.Intn(3) == 0 {
		st.StoreFailEvery = 2 + rng.Intn(8)
	}
	if rng.Intn(2) == 0 {
		st.StoreDelayEvery, st.StoreDelayUS = 1+rng.Intn(4), 100+rng.Intn(4000)
	}
	if rng.Intn(4) == 0 {
		st.GetPipelineFailEvery = 2 + rng.Intn(4)
	}
	if rng.Intn(4) == 0 {
		st.OpenLedgerFailEvery = 3 + rng.Intn(5)
	}
	if rng.Intn(5) == 0 {
		st.UpdateFailEvery = 2 + rng.Intn(3)
	}
	if rng.Intn(5) == 0 {
		st.ListEnabledFailEvery = 2 + rng.Intn(4)
	}
	if rng.Intn(3) == 0 {
		st.StartDelayUS = 100 + rng.Intn(3000)
	}
	if len(sc.Pipes) > len(sc.Ledgers) && rng.Intn(2) == 0 {
		sc.Pipes[len(sc.Pipes)-1].LateCreate = true
		sc.Ops = append(sc.Ops, c33Op{Kind: "create", Pipe: sc.Pipes[len(sc.Pipes)-1].Name, SleepUS: rng.Intn(3000)})
	}
	nOps := 4 + rng.Intn(11)
	if !quick {
		nOps = 4 + rng.Intn(22)
	}
	kinds := []string{"stop", "stop", "start", "start", "start", "reset", "reset", "reset", "restart", "restart", "down", "up", "heal"}
	for i := 0; i < nOps; i++ {
		op := c33Op{Kind: kinds[rng.Intn(len(kinds))], SleepUS: rng.Intn(4000), WaitAcks: rng.Intn(3)}
		if op.Kind != "restart" {
			op.Pipe = sc.Pipes[rng.Intn(len(sc.Pipes))].Name
		}
		sc.Ops = append(sc.Ops, op)
	}
	return sc
}

func pick2(rng *rand.Rand, xs ...string) string { return xs[rng.Intn(len(xs))] }

func c33Shape(sc *c33Scenario) string {
	var ops []string
	for _, o := range sc.Ops {
		k := o.Kind
		if len(ops) == 0 || ops[len(ops)-1] != k {
			ops = append(ops, k)
		}
	}
	if len(ops) > 8 {
		ops = ops[:8]
	}
	var acc []string
	for _, p := range sc.Pipes {
		acc = append(acc, p.Accept.Kind)
	}
	sort.Strings(acc)
	var sf []string
	st := sc.Store
	for name, on := range map[string]bool{
		"ll-fail": st.ListLogsFailEvery > 0, "ll-delay": st.ListLogsDelayEvery > 0, "st-fail": st.StoreFailEvery > 0,
		"st-delay": st.StoreDelayEvery > 0, "get-fail": st.GetPipelineFailEvery > 0, "open-fail": st.OpenLedgerFailEvery > 0,
		"upd-fail": st.UpdateFailEvery > 0, "le-fail": st.ListEnabledFailEvery > 0, "hold": st.HoldStorePipe != "", "slow-start": st.StartDelayUS > 0,
	} {
		if on {
			sf = append(sf, name)
		}
	}
	sort.Strings(sf)
	sync := "nosync"
	if sc.SyncUS > 0 {
		sync = "sync"
	}
	batch := ""
	if sc.Batch != nil {
		batch = fmt.Sprintf("|batcher(maxItems=%d)", sc.Batch.MaxItems)
	}
	return sc.Class + "|" + strings.Join(ops, ",") + "|" + strings.Join(acc, ",") + "|" + strings.Join(sf, ",") + "|" + sync + batch
}

// ---------- executor ----------

type c33Exec struct {
	r     *core.Run
	c     *core.Case
	sc    *c33Scenario
	light bool

	mon    *c33Mon
	mem    *c33Mem
	st     *c33Storage
	fac    *c33Factory
	logger *c33Logger

	mgr       *replication.Manager
	runDone   chan struct{}
	runCancel context.CancelFunc

	wd     chan struct{}
	wdOnce sync.Once
	stuck  atomic.Value

	resume     map[string]chan struct{}
	resumeOnce map[string]*sync.Once
	idMu       sync.Mutex
	pipeID     map[string]string
	maybeZomb  map[string]bool
	opMu       sync.RWMutex // race mode: restart excludes other control ops

	scenarioCtlOps int64 // control operations of the scenario proper (not the closing StartPipeline calls)
	scenarioFaults int64
	heldResets     int64
}

const c33Watchdog = 60 * time.Second

func (x *c33Exec) fired() bool {
	select {
	case <-x.wd:
		return true
	default:
		return false
	}
}

// call runs f; false if the watchdog fired before f returned.
func (x *c33Exec) call(name string, f func() error) (error, bool) {
	done := make(chan error, 1)
	go func() { done <- f() }()
	select {
	case err := <-done:
		return err, true
	case <-x.wd:
		x.stuck.CompareAndSwap(nil, name)
		return nil, false
	}
}

func (x *c33Exec) sleepUS(us int) {
	if us <= 0 {
		return
	}
	select {
	case <-time.After(time.Duration(us) * time.Microsecond):
	case <-x.wd:
	}
}

func (x *c33Exec) id(name string) string {
	x.idMu.Lock()
	defer x.idMu.Unlock()
	return x.pipeID[name]
}

func (x *c33Exec) startManager() bool {
	sync := time.Hour
	if x.sc.SyncUS > 0 {
		sync = time.Duration(x.sc.SyncUS) * time.Microsecond
	}
	m := replication.NewManager(x.st, x.fac, x.logger, c33Validator{},
		replication.WithSyncPeriod(sync),
		replication.WithPipelineOptions(
			replication.WithPullPeriod(time.Duration(x.sc.PullUS)*time.Microsecond),
			replication.WithPushRetryPeriod(time.Duration(x.sc.RetryUS)*time.Microsecond),
			replication.WithLogsPageSize(uint64(x.sc.PageSize)),
		),
	)
	ctx, cancel := context.WithCancel(context.Background())
	done := make(chan struct{})
	x.mon.managerStarted()
	go func() { m.Run(ctx); close(done) }()
	x.mgr, x.runDone, x.runCancel = m, done, cancel
	select {
	case <-m.Started():
		return true
	case <-x.wd:
		x.stuck.CompareAndSwap(nil, "manager.Run (never signalled Started)")
		return false
	}
}

func (x *c33Exec) stopManager() bool {
	m := x.mgr
	x.mon.note("op_begin", nil, "manager.Stop")
	_, ok := x.call("manager.Stop", func() error { return m.Stop(context.Background()) })
	if !ok {
		return false
	}
	select {
	case <-x.runDone:
	case <-x.wd:
		x.stuck.CompareAndSwap(nil, "manager.Run (did not return after Stop)")
		return false
	}
	x.runCancel()
	x.mon.note("op_end", nil, "manager.Stop -> ok, Run returned")
	return true
}

func (x *c33Exec) waitAcks(p *c33Pipe, k int) {
	if k <= 0 || p == nil {
		return
	}
	target := p.ackCount.Load() + int64(k)
	deadline := time.Now().Add(20 * time.Millisecond) // pacing only, never a verdict
	for p.ackCount.Load() < target && time.Now().Before(deadline) && !x.fired() {
		time.Sleep(100 * time.Microsecond)
	}
}

func (x *c33Exec) isZombie(p *c33Pipe) bool {
	if x.light || p == nil {
		return false
	}
	x.mon.mu.Lock()
	defer x.mon.mu.Unlock()
	return p.zombie || x.maybeZomb[p.plan.Name]
}

func (x *c33Exec) doOp(op c33Op) bool {
	var p *c33Pipe
	if op.Pipe != "" {
		p = x.mon.byNm[op.Pipe]
	}
	x.waitAcks(p, op.WaitAcks)
	x.sleepUS(op.SleepUS)
	if x.fired() {
		return false
	}
	bg := logging.ContextWithLogger(context.Background(), x.logger)
	switch op.Kind {
	case "restart":
		x.opMu.Lock()
		defer x.opMu.Unlock()
		for _, q := range x.mon.byKey {
			if x.isZombie(q) {
				return true
			}
		}
		x.mon.nRestarts.Add(1)
		x.mon.nCtlOps.Add(1)
		if !x.stopManager() {
			return false
		}
		return x.startManager()
	case "resume":
		x.resumeOnce[op.Ledger].Do(func() { close(x.resume[op.Ledger]) })
		x.mon.note("resume_production", nil, op.Ledger)
		return true
	case "wait-hold":
		select {
		case <-x.st.holdEngaged:
		case <-x.wd:
			x.stuck.CompareAndSwap(nil, "wait-hold (StorePipelineState of the paused ledger never reached the storage)")
			return false
		}
		return true
	case "down":
		p.forceFail.Store(true)
		x.mon.note("exporter_down", p, "")
		return true
	case "up":
		p.forceFail.Store(false)
		x.mon.note("exporter_up", p, "")
		return true
	case "heal":
		p.healedP.Store(true)
		x.mon.note("exporter_healed", p, "")
		return true
	}
	x.opMu.RLock()
	defer x.opMu.RUnlock()
	m := x.mgr
	if op.Kind == "create" {
		if x.id(op.Pipe) != "" {
			return true
		}
		x.mon.opBegin("create", p)
		var created *ledger.Pipeline
		err, ok := x.call("CreatePipeline", func() error {
			var err error
			created, err = m.CreatePipeline(bg, ledger.NewPipelineConfiguration(p.plan.Ledger, p.plan.Exporter))
			return err
		})
		if !ok {
			return false
		}
		if err == nil {
			x.idMu.Lock()
			x.pipeID[op.Pipe] = created.ID
			x.idMu.Unlock()
		}
		x.mon.opEnd("create", p, err, "")
		return true
	}
	id := x.id(op.Pipe)
	if id == "" {
		return true // not created yet
	}
	if x.isZombie(p) && op.Kind != "start" {
		return true // Stop/Reset on a zombie blocks forever (reported by the zombie oracle)
	}
	switch op.Kind {
	case "start":
		x.mon.opBegin("start", p)
		err, ok := x.call("StartPipeline", func() error { return m.StartPipeline(bg, id) })
		if !ok {
			return false
		}
		kind := ""
		if err != nil {
			kind = "other"
			if errors.Is(err, ledger.ErrAlreadyStarted("")) {
				kind = "already-started"
			}
		}
		x.mon.opEnd("start", p, err, kind)
	case "stop":
		x.mon.opBegin("stop", p)
		err, ok := x.call("StopPipeline", func() error { return m.StopPipeline(bg, id) })
		if !ok {
			return false
		}
		x.mon.opEnd("stop", p, err, "")
	case "reset":
		held := false
		if x.sc.Store.HoldStorePipe == op.Pipe {
			select {
			case <-x.st.holdEngaged:
				held = true
				// scheduling only: a tree whose ResetPipeline waits for in-flight state
				// writes must not hang on the harness' hold
				t := time.AfterFunc(30*time.Millisecond, x.st.releaseHold)
				defer t.Stop()
			default:
			}
		}
		x.mon.opBegin("reset", p)
		err, ok := x.call("ResetPipeline", func() error { return m.ResetPipeline(bg, id) })
		if !ok {
			return false
		}
		x.mon.opEnd("reset", p, err, "")
		if held && err == nil {
			x.heldResets++
		}
	case "stop-cancelled":
		// StopPipeline with an already cancelled context (client went away), repeated until
		// the handler is seen terminating although StopPipeline reported an error.
		for try := 0; try < 10 && !x.fired(); try++ {
			cctx, cancel := context.WithCancel(bg)
			cancel()
			x.mon.opBegin("stop-cancelled", p)
			err, ok := x.call("StopPipeline(cancelled ctx)", func() error { return m.StopPipeline(cctx, id) })
			if !ok {
				return false
			}
			x.mon.opEnd("stop-cancelled", p, err, "")
			if err == nil {
				// a normal stop: start again and retry
				x.mon.opBegin("start", p)
				err, ok := x.call("StartPipeline", func() error { return m.StartPipeline(bg, id) })
				if !ok {
					return false
				}
				x.mon.opEnd("start", p, err, "")
				x.waitAcks(p, 1)
				continue
			}
			if errors.Is(err, ledger.ErrPipelineNotFound("")) {
				continue
			}
			// did the handler consume a queued stop signal?
			deadline := time.Now().Add(200 * time.Millisecond) // pacing only
			dead := false
			for time.Now().Before(deadline) && !dead {
				x.mon.mu.Lock()
				dead = p.created > 0 && p.created == p.terminated
				x.mon.mu.Unlock()
				if !dead {
					time.Sleep(200 * time.Microsecond)
				}
			}
			if dead {
				x.mon.mu.Lock()
				x.maybeZomb[p.plan.Name] = true
				x.mon.mu.Unlock()
				break
			}
		}
	}
	return true
}

func c33Execute(r *core.Run, c *core.Case, sc *c33Scenario, light bool) {
	x := &c33Exec{r: r, c: c, sc: sc, light: light, wd: make(chan struct{}),
		resume: map[string]chan struct{}{}, resumeOnce: map[string]*sync.Once{}, pipeID: map[string]string{}, maybeZomb: map[string]bool{}}
	x.mon = newC33Mon(light)
	x.mem = newC33Mem()
	totals := map[string]int{}
	for _, l := range sc.Ledgers {
		x.mem.ledgers[l.Name] = &c33Ledger{name: l.Name}
		x.resume[l.Name] = make(chan struct{})
		x.resumeOnce[l.Name] = &sync.Once{}
		totals[l.Name] = l.Total
	}
	exporters := map[string]bool{}
	for _, pp := range sc.Pipes {
		p := &c33Pipe{plan: pp, key: pp.Ledger + "/" + pp.Exporter, total: totals[pp.Ledger]}
		p.budget = int64(200 + (p.total+sc.PageSize-1)/sc.PageSize)
		p.batched = sc.Batch != nil
		x.mon.byKey[p.key] = p
		x.mon.byNm[pp.Name] = p
		exporters[pp.Exporter] = true
	}
	x.st = newC33Storage(x.mem, x.mon, sc.Store, x.wd)
	x.logger = newC33Logger(x.mon)
	x.fac = &c33Factory{mon: x.mon, mem: x.mem, startUS: sc.Store.StartDelayUS, batch: sc.Batch, logger: x.logger}
	for e := range exporters {
		x.mem.exporters[e] = &ledger.Exporter{ID: e, ExporterConfiguration: ledger.NewExporterConfiguration("c33", []byte(`{}`))}
	}
	for _, pp := range sc.Pipes {
		if pp.LateCreate {
			continue
		}
		pl := ledger.NewPipeline(ledger.NewPipelineConfiguration(pp.Ledger, pp.Exporter))
		pl.ID = "pipeline-" + pp.Name
		_ = x.mem.createPipeline(pl)
		x.pipeID[pp.Name] = pl.ID
	}

	timer := time.AfterFunc(c33Watchdog, func() { x.wdOnce.Do(func() { close(x.wd) }) })
	defer timer.Stop()

	ok := x.startManager()

	// producers
	var prod sync.WaitGroup
	for _, lp := range sc.Ledgers {
		prod.Add(1)
		go func(lp c33LedgerPlan, seed int64) {
			defer prod.Done()
			rng := rand.New(rand.NewSource(seed))
			l := x.mem.ledgers[lp.Name]
			n := 0
			for n < lp.Total && !x.fired() {
				b := 1 + rng.Intn(lp.BurstMax)
				if n+b > lp.Total {
					b = lp.Total - n
				}
				if lp.PauseAt > 0 && n < lp.PauseAt && n+b >= lp.PauseAt {
					b = lp.PauseAt - n
					l.append(b)
					n += b
					x.mon.note("production_paused", nil, fmt.Sprintf("%s at %d logs", lp.Name, n))
					select {
					case <-x.resume[lp.Name]:
					case <-x.wd:
					}
					continue
				}
				l.append(b)
				n += b
				x.sleepUS(rng.Intn(lp.GapUS + 1))
			}
			x.mon.note("production_done", nil, fmt.Sprintf("%s has %d logs", lp.Name, n))
		}(lp, c.Rng.Int63())
	}

	// control operations
	if ok {
		if light && len(sc.Ops) > 3 {
			// race mode: two operators
			var wg sync.WaitGroup
			var failed atomic.Bool
			half := len(sc.Ops) / 2
			for _, part := range [][]c33Op{sc.Ops[:half], sc.Ops[half:]} {
				wg.Add(1)
				go func(ops []c33Op) {
					defer wg.Done()
					for _, op := range ops {
						if failed.Load() || !x.doOp(op) {
							failed.Store(true)
							return
						}
					}
				}(part)
			}
			wg.Wait()
			ok = !failed.Load()
		} else {
			for _, op := range sc.Ops {
				if !x.doOp(op) {
					ok = false
					break
				}
			}
		}
	}
	for name := range x.resume {
		x.resumeOnce[name].Do(func() { close(x.resume[name]) })
	}
	if _, fine := x.call("producers", func() error { prod.Wait(); return nil }); !fine {
		ok = false
	}

	// quiesce: faults off, exporters healed, every pipeline started; then bounded progress
	x.scenarioCtlOps, x.scenarioFaults = x.mon.nCtlOps.Load(), x.mon.nFaults.Load()
	var exhausted []*c33Pipe
	if ok {
		x.st.releaseHold()
		for _, p := range x.mon.byKey {
			p.forceFail.Store(false)
		}
		x.mon.quiesce()
		for _, pp := range sc.Pipes {
			p := x.mon.byNm[pp.Name]
			if x.id(pp.Name) == "" {
				if !x.doOp(c33Op{Kind: "create", Pipe: pp.Name}) {
					ok = false
					break
				}
				continue
			}
			if x.isZombie(p) {
				continue
			}
			if !x.doOp(c33Op{Kind: "start", Pipe: pp.Name}) {
				ok = false
				break
			}
		}
	}
	if ok {
		for {
			done, ex := x.mon.progress()
			if done {
				break
			}
			if len(ex) > 0 {
				exhausted = ex
				break
			}
			if x.fired() {
				x.stuck.CompareAndSwap(nil, "waiting for every produced log to be acknowledged (poll budget not exhausted)")
				ok = false
				break
			}
			time.Sleep(200 * time.Microsecond)
		}
	}
	if !light && len(exhausted) > 0 {
		x.mon.mu.Lock()
		for _, p := range exhausted {
			if p.tainted {
				continue
			}
			x.mon.violate(p, "C33/liveness:poll-budget-exhausted:"+p.ctxClass(),
				fmt.Sprintf("after faults and production stopped the pipeline polled ListLogs %d times (budget %d) and called Accept %d times (budget %d) but acknowledged only up to %d of %d logs since its last reset", p.pollsQ, p.budget, p.acceptsQ.Load(), p.budget+50, p.maxAck, p.total))
		}
		x.mon.mu.Unlock()
	}

	// teardown
	if ok {
		anyZ := false
		for _, p := range x.mon.byKey {
			if x.isZombie(p) {
				anyZ = true
			}
		}
		if anyZ {
			for _, pp := range sc.Pipes {
				if p := x.mon.byNm[pp.Name]; !x.isZombie(p) && x.id(pp.Name) != "" {
					id := x.id(pp.Name)
					if _, fine := x.call("StopPipeline (teardown)", func() error { return x.mgr.StopPipeline(context.Background(), id) }); !fine {
						ok = false
					}
				}
			}
			x.runCancel() // lets manager.Stop give up on the zombie handler
		}
		if ok && !x.stopManager() {
			ok = false
		}
	}
	x.wdOnce.Do(func() { close(x.wd) }) // releases anything still parked in the doubles
	x.report(ok)
}

func (x *c33Exec) report(ok bool) {
	r, c, sc, m := x.r, x.c, x.sc, x.mon
	acks := m.nAcks.Load()
	r.Count("scenarios", 1)
	r.Count("accepts", m.nAccepts.Load())
	r.Count("acks", acks)
	r.Count("acked_logs", m.nAckedLogs.Load())
	r.Count("accept_errors", m.nAcceptErr.Load())
	r.Count("accept_abandoned", m.nAbandoned.Load())
	r.Count("store_calls", m.nStoreCalls.Load())
	r.Count("store_applied", m.nStoreApplied.Load())
	r.Count("store_errors", m.nStoreErr.Load())
	r.Count("polls", m.nPolls.Load())
	r.Count("poll_errors", m.nPollErr.Load())
	r.Count("resets", m.nResets.Load())
	r.Count("restarts", m.nRestarts.Load())
	r.Count("control_ops", m.nCtlOps.Load())
	r.Count("faults_fired", m.nFaults.Load())
	r.Count("driver_stops", m.nDriverStops.Load())
	r.Count("stores_from_pre_reset_run_applied_after_reset", m.nLateStoreWindows.Load())
	r.Count("events_recorded", int64(len(m.events)))
	if sc.Batch != nil {
		r.Count("batched_scenarios", 1)
		r.Seen("batched_max_items", fmt.Sprint(sc.Batch.MaxItems))
		r.Count("batched_accept_calls", m.nOuterCalls.Load())
		r.Count("batched_accept_calls_returning_nil", m.nOuterOK.Load())
		r.Count("batched_accept_calls_returning_an_error", m.nOuterErr.Load())
		r.Count("batched_chunks", m.nChunks.Load())
		r.Count("batched_chunks_refused", m.nChunkRefused.Load())
		r.Count("batched_chunks_refused_with_a_global_error", m.nGlobalErrs.Load())
		r.Count("batched_chunks_refused_per_item", m.nPerItemErrChunks.Load())
		r.Count("batched_chunks_mixing_pipelines", m.nMixedChunks.Load())
		r.Count("batched_calls_with_a_refused_chunk_and_an_accepted_last_chunk", m.nFailedThenOKLast.Load())
		r.Count("batched_calls_returning_nil_with_unaccepted_logs", m.nOuterNilWithRefusedChunk.Load())
		r.Count("batched_logs_accepted_ahead_of_a_refused_chunk", m.nAheadItems.Load())
		r.Count("batched_stale_logs_flushed_after_a_reset", m.nStaleItems.Load())
		r.Count("batched_accept_panics", m.nBatcherPanics.Load())
		m.mu.Lock()
		for k, v := range m.chunksPerCall {
			r.Count("batched_calls_flushed_in_"+k+"_chunks", v)
			r.Seen("batched_chunks_per_call", k)
			if k != "0" && k != "1" {
				r.Count("batched_calls_flushed_in_several_chunks", v)
			}
		}
		for k, v := range m.failPos {
			r.Count("batched_refused_chunk_position_"+k, v)
			r.Seen("batched_refused_chunk_positions", k)
		}
		m.mu.Unlock()
	}
	r.Seen("scenario_classes", sc.Class)
	for _, p := range sc.Pipes {
		r.Seen("accept_patterns", p.Accept.Kind)
	}
	for _, o := range sc.Ops {
		r.Seen("op_kinds", o.Kind)
	}
	if n := x.st.unsupported.Load(); n > 0 {
		r.Inconclusive(fmt.Sprintf("C33 harness storage received %d ListLogs queries it cannot answer (unsupported shape)", n))
	}
	r.Eval(c33Shape(sc), acks >= 1 && (x.scenarioFaults > 0 || x.scenarioCtlOps > 0))
	r.Count("resets_racing_a_held_store", x.heldResets)

	m.mu.Lock()
	defer m.mu.Unlock()
	if !ok {
		stuck, _ := x.stuck.Load().(string)
		var tail []string
		if len(m.events) > 0 {
			tail = m.window(len(m.events)-1, "", 12, 0)
		}
		scj, _ := json.Marshal(sc)
		r.Count("watchdog_fired", 1)
		r.Inconclusive(fmt.Sprintf("C33 watchdog (%s) in %s[%d] class=%s blocked in: %s\nreplication goroutines:\n%s\nlast events:\n  %s\nscenario: %s",
			c33Watchdog, c.Loop, c.Index, sc.Class, stuck, c33Stacks(), strings.Join(tail, "\n  "), scj))
	}
	if c.Index < 2 && !x.light {
		var head []string
		for i := 0; i < len(m.events) && i < 60; i++ {
			head = append(head, m.events[i].String())
		}
		r.Sample(map[string]any{"scenario": sc, "first_events": head, "events": len(m.events), "acks": acks})
	}
	for _, v := range m.viols {
		r.Seen("violation_signatures", v.Sig)
		c.Violation(v.Sig, map[string]any{
			"oracle_message": v.Msg,
			"pipeline":       v.Pipe,
			"scenario":       sc,
			"case":           fmt.Sprintf("%s[%d] seed %d", c.Loop, c.Index, r.Seed),
			"event_log":      m.window(v.AtIdx, v.Pipe, 70, 25),
			"legend":         "#seq g<manager generation> kind pipeline ...; store_call/store_apply are StorePipelineState entering / being applied in the storage; reset_mark is ResetPipeline's UpdatePipeline being applied; ack is Accept returning nil",
		})
	}
}

func c33Stacks() string {
	buf := make([]byte, 1<<20)
	buf = buf[:runtime.Stack(buf, true)]
	var out []string
	for _, g := range strings.Split(string(buf), "\n\n") {
		if strings.Contains(g, "internal/replication.") {
			if len(g) > 700 {
				g = g[:700]
			}
			out = append(out, g)
		}
		if len(out) >= 6 {
			break
		}
	}
	return strings.Join(out, "\n\n")
}
