package checks

import (
	"context"
	"fmt"
	"math/big"
	"strings"

	ledger "github.com/formancehq/ledger/internal"

	"github.com/formancehq/ledger/verifharness/core"
	"github.com/formancehq/ledger/verifharness/realstore"
	"github.com/formancehq/ledger/verifharness/sim"
)

func init() { runDirectDrive = runDirectDriveImpl }

// runDirectDriveImpl drives the REAL storage/ledger.Store.CommitTransaction
// (Transaction.VolumeUpdates -> UpdateVolumes upsert -> InsertTransaction ->
// moves unwinding -> InsertMoves) over the SQL responders, which execute the
// emitted upsert as written; the emitted moves and returned post-commit volumes
// are compared with an independent running fold.
func runDirectDriveImpl(r *core.Run, prop string) {
	n := r.N(150, 3000)
	r.ForEach("direct", n, 0, func(c *core.Case) {
		rng := c.Rng
		db := realstore.NewSysDB()
		defer db.Close()
		tab := realstore.NewTables()
		db.Responder = tab.Respond
		d := db.NewDriver()
		ctx := context.Background()
		l := ledger.MustNewWithDefault("l1")
		st, err := d.CreateLedger(ctx, &l)
		if err != nil {
			r.Inconclusive("CreateLedger: " + err.Error())
			return
		}
		type vk = [2]string
		in, out := map[vk]*big.Int{}, map[vk]*big.Int{}
		get := func(m map[vk]*big.Int, k vk) *big.Int {
			if m[k] == nil {
				m[k] = new(big.Int)
			}
			return m[k]
		}
		accounts := []string{"world", "bank", "users:001", "users:002", "fees"}
		assets := []string{"USD", "EUR/2"}
		nTx := r.N(12, 25)
		for t := 0; t < nTx; t++ {
			np := 1 + rng.Intn(4)
			if rng.Intn(5) == 0 {
				np = 5 + rng.Intn(16)
			}
			var ps []ledger.Posting
			for i := 0; i < np; i++ {
				src := accounts[rng.Intn(len(accounts))]
				dst := accounts[rng.Intn(len(accounts))]
				if rng.Intn(8) == 0 {
					dst = src
				}
				ps = append(ps, ledger.NewPosting(src, dst, assets[rng.Intn(len(assets))], sim.Amount(rng, true)))
			}
			tx := ledger.NewTransaction().WithPostings(ps...)
			tab.Moves = nil
			if err := st.CommitTransaction(ctx, &tx); err != nil {
				c.Violation(prop+"/direct:CommitTransaction-failed-on-a-valid-transaction", map[string]any{"error": err.Error(), "postings": ps})
				return
			}
			r.Count("direct_transactions", 1)
			r.Count("direct_postings", int64(len(ps)))
			// expected moves: posting order, source move then destination move, running volumes
			type mv struct {
				account, asset string
				source         bool
				in, out        string
			}
			var want []mv
			for _, p := range ps {
				get(out, vk{p.Source, p.Asset}).Add(get(out, vk{p.Source, p.Asset}), p.Amount)
				want = append(want, mv{p.Source, p.Asset, true, get(in, vk{p.Source, p.Asset}).String(), get(out, vk{p.Source, p.Asset}).String()})
				get(in, vk{p.Destination, p.Asset}).Add(get(in, vk{p.Destination, p.Asset}), p.Amount)
				want = append(want, mv{p.Destination, p.Asset, false, get(in, vk{p.Destination, p.Asset}).String(), get(out, vk{p.Destination, p.Asset}).String()})
			}
			detail := func(extra map[string]any) map[string]any {
				d := map[string]any{"transaction_index": t, "postings": ps}
				for k, v := range extra {
					d[k] = v
				}
				return d
			}
			if prop == "C03" {
				if len(tab.Moves) != len(want) {
					c.Violation("C03/direct:number-of-moves-differs", detail(map[string]any{"got": len(tab.Moves), "want": len(want)}))
					return
				}
				for i, w := range want {
					g := tab.Moves[i]
					pcv := strings.ReplaceAll(g["post_commit_volumes"], " ", "")
					wantPCV := fmt.Sprintf("(%s,%s)", w.in, w.out)
					src := strings.EqualFold(g["is_source"], "true")
					if g["accounts_address"] != w.account || g["asset"] != w.asset || src != w.source || pcv != wantPCV {
						c.Violation("C03/direct:move-post-commit-volumes-differ-from-running-fold", detail(map[string]any{"index": i, "got": g, "want": fmt.Sprintf("%+v", w)}))
						return
					}
					if g["transactions_id"] != fmt.Sprint(*tx.ID) {
						c.Violation("C03/direct:move-carries-wrong-transaction-id", detail(map[string]any{"index": i, "got": g["transactions_id"], "want": *tx.ID}))
						return
					}
				}
				// returned post-commit volumes = state after the whole transaction
				for _, p := range ps {
					for _, a := range []string{p.Source, p.Destination} {
						v, ok := tx.PostCommitVolumes[a][p.Asset]
						if !ok || v.Input.Cmp(get(in, vk{a, p.Asset})) != 0 || v.Output.Cmp(get(out, vk{a, p.Asset})) != 0 {
							c.Violation("C03/direct:returned-post-commit-volumes-differ", detail(map[string]any{"account": a, "asset": p.Asset, "got": v}))
							return
						}
					}
				}
			}
			// stored volumes = fold, conservation per asset
			sumIn, sumOut := map[string]*big.Int{}, map[string]*big.Int{}
			for k, v := range tab.Volumes {
				if k[0] != "l1" {
					continue
				}
				a := k[2]
				if sumIn[a] == nil {
					sumIn[a], sumOut[a] = new(big.Int), new(big.Int)
				}
				sumIn[a].Add(sumIn[a], v[0])
				sumOut[a].Add(sumOut[a], v[1])
				if v[0].Cmp(get(in, vk{k[1], k[2]})) != 0 || v[1].Cmp(get(out, vk{k[1], k[2]})) != 0 {
					c.Violation(prop+"/direct:stored-volumes-differ-from-fold", detail(map[string]any{"account": k[1], "asset": k[2], "stored": [2]string{v[0].String(), v[1].String()}}))
					return
				}
			}
			for a := range sumIn {
				if sumIn[a].Cmp(sumOut[a]) != 0 {
					c.Violation("C01/direct:stored-volumes-not-conserved", detail(map[string]any{"asset": a, "input": sumIn[a].String(), "output": sumOut[a].String()}))
					return
				}
			}
		}
		r.Eval(fmt.Sprintf("direct|%d", c.Index), true)
	})
}
