package checks

import (
	"context"
	"errors"
	"fmt"
	"math/big"
	"reflect"
	"sort"
	"strings"

	"github.com/formancehq/go-libs/v5/pkg/storage/bun/paginate"
	"github.com/formancehq/go-libs/v5/pkg/storage/postgres"
	"github.com/formancehq/go-libs/v5/pkg/types/metadata"

	ledger "github.com/formancehq/ledger/internal"
	ledgercontroller "github.com/formancehq/ledger/internal/controller/ledger"
	"github.com/formancehq/ledger/internal/storage/common"
	"github.com/formancehq/ledger/verifharness/core"
	"github.com/formancehq/ledger/verifharness/gen"
)

// C26 — machine and interpreter runtimes agree on the shared language.
// Both runtimes are driven through the real adapters of the ledger controller
// (DefaultNumscriptParser -> MachineNumscriptRuntimeAdapter,
// InterpreterNumscriptParser -> DefaultInterpreterMachineAdapter) over one
// static ledgercontroller.Store.

func init() {
	core.Register(&core.Check{
		ID: "C26", Level: "exploration",
		Rule: "one case = one program of the common subset (gen.GenNumscript with CommonSubset) run with the same variables, balances and account metadata through both NumscriptRuntime adapters. Shape = statement/source/destination tree without names and amounts. Non-trivial = both runtimes succeeded and produced at least one non-zero posting.",
		Assumptions: []string{
			"each runtime is the other's oracle; zero-amount postings are dropped on both sides before comparing (the only breaking change in numscript@v0.0.24/differences-with-machine.md)",
			"the static Store implements only GetBalances and Accounts().GetOne (the only methods vmStoreAdapter / numscriptRewriteAdapter call); it returns fresh big.Int values on every call (the interpreter mutates what it is given) and postgres.ErrNotFound for an account without a metadata row, as common.ResourceRepository.GetOne does",
			"a disagreement is minimised (gen.ShrinkNumscript, same disagreement kind kept) before being reported. Loop `main` (restricted subset, see common_subset): signature = kind + minimised shape. Loop `divergences` (full common subset, strict comparison): signature = kind + the divergent construct(s) the minimised witness still contains",
			"a Go panic inside a runtime is recovered and treated as that runtime's failure of kind `panic`",
		},
		Run: runC26,
	})
}

// ---- static ledgercontroller.Store -----------------------------------------------

type c26Store struct {
	ledgercontroller.Store // nil: any other method panics (none is called)
	w                      *gen.NSWorld
}

func (s *c26Store) GetBalances(_ context.Context, q map[string][]string) (ledger.Balances, error) {
	ret := ledger.Balances{}
	for acc, assets := range q {
		if ret[acc] == nil {
			ret[acc] = map[string]*big.Int{}
		}
		for _, a := range assets {
			ret[acc][a] = s.w.Balance(acc, a)
		}
	}
	return ret, nil
}

func (s *c26Store) Accounts() common.PaginatedResource[ledger.Account, any] { return c26Accounts{s.w} }

type c26Accounts struct{ w *gen.NSWorld }

func (a c26Accounts) GetOne(_ context.Context, q common.ResourceQuery[any]) (*ledger.Account, error) {
	var addr string
	if q.Builder == nil {
		return nil, errors.New("c26Accounts: query without builder")
	}
	_ = q.Builder.Walk(func(_ string, key string, value *any) error {
		if key == "address" {
			addr, _ = (*value).(string)
		}
		return nil
	})
	md, ok := a.w.Meta[addr]
	if !ok {
		return nil, postgres.ErrNotFound
	}
	cp := metadata.Metadata{}
	for k, v := range md {
		cp[k] = v
	}
	return &ledger.Account{Address: addr, Metadata: cp}, nil
}

func (a c26Accounts) Count(context.Context, common.ResourceQuery[any]) (int, error) {
	panic("c26Accounts.Count is not used by the numscript adapters")
}

func (a c26Accounts) Paginate(context.Context, common.PaginatedQuery[any]) (*paginate.Cursor[ledger.Account], error) {
	panic("c26Accounts.Paginate is not used by the numscript adapters")
}

// ---- running both adapters ---------------------------------------------------------

type c26Posting struct {
	Src, Dst, Asset string
	Amt             *big.Int
}

type c26Out struct {
	OK       bool                         `json:"ok"`
	Class    string                       `json:"class"`
	Err      string                       `json:"error,omitempty"`
	Postings []string                     `json:"postings"` // non-zero, in order
	Zero     int                          `json:"zero_postings_dropped"`
	TxMeta   map[string]string            `json:"tx_meta"`
	AccMeta  map[string]map[string]string `json:"account_meta"`
	raw      []c26Posting
}

func c26Fmt(ps []c26Posting) []string {
	out := make([]string, len(ps))
	for i, po := range ps {
		out[i] = fmt.Sprintf("%s -> %s [%s %s]", po.Src, po.Dst, po.Asset, po.Amt.String())
	}
	return out
}

// c26Coalesce sums runs of adjacent postings with the same (source, destination, asset).
func c26Coalesce(ps []c26Posting) []c26Posting {
	var out []c26Posting
	for _, po := range ps {
		if n := len(out); n > 0 && out[n-1].Src == po.Src && out[n-1].Dst == po.Dst && out[n-1].Asset == po.Asset {
			out[n-1].Amt = new(big.Int).Add(out[n-1].Amt, po.Amt)
			continue
		}
		out = append(out, c26Posting{po.Src, po.Dst, po.Asset, new(big.Int).Set(po.Amt)})
	}
	return out
}

func c26Run(parser ledgercontroller.NumscriptParser, p *gen.NSProgram, interp bool) (out c26Out) {
	defer func() {
		if x := recover(); x != nil {
			out = c26Out{Class: "panic", Err: fmt.Sprintf("panic: %v", x)}
		}
	}()
	rt, err := parser.Parse(p.Text)
	if err != nil {
		return c26Out{Class: "parse_error", Err: c22Short(err.Error())}
	}
	vars := map[string]string{}
	for k, v := range p.Vars {
		vars[k] = v
	}
	res, err := rt.Execute(context.Background(), &c26Store{w: p.World}, vars)
	if err != nil {
		cls := c22Classify("execute", err)
		if interp {
			cls = "runtime_error"
			var er ledgercontroller.ErrRuntime
			if errors.As(err, &er) {
				cls = strings.TrimPrefix(fmt.Sprintf("%T", er.InterpreterError), "interpreter.")
			}
		}
		return c26Out{Class: cls, Err: c22Short(err.Error())}
	}
	out = c26Out{OK: true, Class: "ok", TxMeta: map[string]string{}, AccMeta: map[string]map[string]string{}}
	for _, po := range res.Postings {
		if po.Amount == nil || po.Amount.Sign() == 0 {
			out.Zero++
			continue
		}
		out.raw = append(out.raw, c26Posting{po.Source, po.Destination, po.Asset, po.Amount})
	}
	out.Postings = c26Fmt(out.raw)
	for k, v := range res.Metadata {
		out.TxMeta[k] = v
	}
	for a, md := range res.AccountMetadata {
		if len(md) == 0 {
			continue
		}
		out.AccMeta[a] = map[string]string{}
		for k, v := range md {
			out.AccMeta[a][k] = v
		}
	}
	return out
}

// c26Compare returns "" when the two outcomes agree, else the disagreement
// kind. coalesce: adjacent postings of one (source, destination, asset) are
// summed on both sides first.
func c26Compare(m, i c26Out, coalesce bool) string {
	mp, ip := m.Postings, i.Postings
	if coalesce {
		mp, ip = c26Fmt(c26Coalesce(m.raw)), c26Fmt(c26Coalesce(i.raw))
	}
	switch {
	case m.Class == "panic" && i.Class == "panic":
		return "both runtimes panic"
	case m.Class == "panic":
		if i.OK {
			return "machine panics, interpreter succeeds"
		}
		return "machine panics, interpreter fails cleanly"
	case i.Class == "panic":
		if m.OK {
			return "machine succeeds, interpreter panics"
		}
		return "machine fails cleanly, interpreter panics"
	case !m.OK && !i.OK:
		return ""
	case !m.OK:
		return fmt.Sprintf("machine fails (%s), interpreter succeeds", m.Class)
	case !i.OK:
		return fmt.Sprintf("machine succeeds, interpreter fails (%s)", i.Class)
	case !reflect.DeepEqual(mp, ip):
		if len(mp) == len(ip) {
			a, b := append([]string{}, mp...), append([]string{}, ip...)
			sort.Strings(a)
			sort.Strings(b)
			if reflect.DeepEqual(a, b) {
				return "same non-zero postings in a different order"
			}
		}
		return "non-zero postings differ"
	case !reflect.DeepEqual(m.TxMeta, i.TxMeta):
		return "transaction metadata differs"
	case !reflect.DeepEqual(m.AccMeta, i.AccMeta):
		return "account metadata differs"
	}
	return ""
}

// Constructs on which the two runtimes were found to diverge in ways
// differences-with-machine.md does not document. The main loop excludes them
// (and compares coalesced postings); the `divergences` loop generates them and
// reports every disagreement as a finding whose signature names the construct.
var c26Divergent = []string{"dup_balance_account", "negative_monetary", "save", "kept"}

var c26SubsetNotes = []string{
	"loop `main` additionally excludes constructs on which the runtimes diverge in UNDOCUMENTED ways; each is reported as a finding by loop `divergences`, which generates the full common subset:",
	"  - `kept` (machine hands kept funds back to the head of the funding: later destinations are paid from them; with a non-last `kept` clause of an in-order destination it fails with insufficient funds)",
	"  - `save` (interpreter clamps the saved account's cached balance at 0, the machine lets it go negative)",
	"  - monetary subtraction with a negative result used as `max` cap (machine: error, interpreter: clamps to 0)",
	"  - two balance() variables on one account (machine: nil-pointer panic)",
	"loop `main` sums adjacent postings of one (source, destination, asset) on both sides before comparing: trimming a zero posting makes its neighbours coalesce in the interpreter only; loop `divergences` compares strictly and reports this as finding [coalescing]",
}

func runC26(r *core.Run) {
	r.Floor("distinct_nontrivial", 300)
	r.Floor("both_succeed", 2000)
	r.Floor("both_fail", 500)
	r.Extra("common_subset", append(append([]string{}, gen.NSCommonSubset...), c26SubsetNotes...))
	mp := ledgercontroller.NewDefaultNumscriptParser()
	ip := ledgercontroller.NewInterpreterNumscriptParser(nil)
	both := func(p *gen.NSProgram, coalesce bool) (c26Out, c26Out, string) {
		m, i := c26Run(mp, p, false), c26Run(ip, p, true)
		return m, i, c26Compare(m, i, coalesce)
	}
	report := func(c *core.Case, sig, kind string, p, min *gen.NSProgram, m, i c26Out, coalesce bool) {
		mm, mi, _ := both(min, coalesce)
		used := map[string]map[string]string{}
		for a := range min.World.Balances {
			if strings.Contains(min.Text, "@"+a) || c26VarsMention(min.Vars, a) {
				used[a] = map[string]string{}
				for as, b := range min.World.Balances[a] {
					used[a][as] = b.String()
				}
			}
		}
		c.Violation(sig, map[string]any{
			"kind": kind, "minimised_program": min.Text, "minimised_vars": min.Vars,
			"balances_of_mentioned_accounts": used, "all_balances": min.World.Balances, "meta": min.World.Meta,
			"machine": mm, "interpreter": mi,
			"original_program": p.Text, "original_vars": p.Vars, "original_balances": p.World.Balances, "original_meta": p.World.Meta,
			"original_machine": m, "original_interpreter": i,
		})
	}
	excl := map[string]bool{}
	for _, k := range c26Divergent {
		excl[k] = true
	}

	// main: restricted subset, coalesced comparison; any disagreement is new.
	r.ForEach("main", r.N(10_000, 300_000), 0, func(c *core.Case) {
		p := gen.GenNumscript(c.Rng, gen.NSOptions{CommonSubset: true, Exclude: excl})
		m, i, kind := both(p, true)
		for _, st := range p.Stmts {
			r.Count("stmt_"+st.Kind, 1)
		}
		for f := range p.Features {
			r.Count("runs_with_"+f, 1)
			if m.OK && i.OK {
				r.Count("both_ok_with_"+f, 1)
			}
		}
		switch {
		case m.OK && i.OK:
			r.Count("both_succeed", 1)
			r.Count("nonzero_postings_compared", int64(len(m.Postings)))
			r.Count("zero_postings_ignored_machine", int64(m.Zero))
			r.Count("zero_postings_ignored_interpreter", int64(i.Zero))
			if kind == "" && !reflect.DeepEqual(m.Postings, i.Postings) {
				r.Count("runs_agreeing_only_after_coalescing", 1)
			}
			if len(m.TxMeta) > 0 {
				r.Count("runs_comparing_tx_metadata", 1)
			}
			if len(m.AccMeta) > 0 {
				r.Count("runs_comparing_account_metadata", 1)
			}
		case !m.OK && !i.OK:
			r.Count("both_fail", 1)
			r.Seen("both_fail_classes", m.Class+" | "+i.Class)
		default:
			r.Count("one_fails", 1)
		}
		r.Eval(p.Shape(), kind == "" && m.OK && len(m.Postings) > 0)
		if c.Index < 3 {
			r.Sample(map[string]any{"program": p.Text, "vars": p.Vars, "machine": m, "interpreter": i})
		}
		if kind == "" {
			return
		}
		r.Count("disagreements_main", 1)
		min := gen.ShrinkNumscript(p, func(q *gen.NSProgram) bool {
			_, _, k := both(q, true)
			return k == kind
		}, 600)
		report(c, "C26/"+kind+": "+min.Shape(), kind, p, min, m, i, true)
	})

	// divergences: full common subset, strict comparison; disagreements are
	// findings keyed by the divergent construct the minimised witness contains.
	r.ForEach("divergences", r.N(2_000, 20_000), 0, func(c *core.Case) {
		p := gen.GenNumscript(c.Rng, gen.NSOptions{CommonSubset: true})
		m, i, kind := both(p, false)
		r.Count("divergences_loop_runs", 1)
		if kind == "" {
			return
		}
		r.Count("divergences_loop_disagreements", 1)
		min := gen.ShrinkNumscript(p, func(q *gen.NSProgram) bool {
			_, _, k := both(q, false)
			return k == kind
		}, 2500)
		// attribute: a construct is causal when neutralising it (gen.Without)
		// makes the two runtimes agree; the first causal one names the class; if
		// no single one is causal, all the constructs present are named.
		uses := min.Uses()
		var present, causal []string
		for _, k := range c26Divergent {
			if !uses[k] {
				continue
			}
			present = append(present, k)
			if w := min.Without(k); w != nil && len(causal) == 0 {
				if _, _, k2 := both(w, false); k2 == "" {
					causal = append(causal, k) // first causal construct in c26Divergent order names the class
				}
			}
		}
		if len(causal) > 0 {
			present = causal
		}
		class := strings.Join(present, "+")
		if class == "" {
			if _, _, k := both(min, true); k == "" {
				class = "coalescing"
			} else {
				class = "unclassified: " + min.Shape()
			}
		}
		r.Count("divergence_"+kind+" ["+class+"]", 1)
		report(c, "C26/"+kind+" ["+class+"]", kind, p, min, m, i, false)
	})
}

func c26VarsMention(vars map[string]string, acc string) bool {
	for _, v := range vars {
		if v == acc {
			return true
		}
	}
	return false
}
