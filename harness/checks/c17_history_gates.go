package checks

import (
	"context"
	"fmt"
	"strings"

	"github.com/formancehq/go-libs/v5/pkg/query"
	"github.com/formancehq/go-libs/v5/pkg/types/time"

	ledger "github.com/formancehq/ledger/internal"
	"github.com/formancehq/ledger/internal/storage/common"
	ledgerstore "github.com/formancehq/ledger/internal/storage/ledger"
	"github.com/formancehq/ledger/pkg/features"

	"github.com/formancehq/ledger/verifharness/core"
	"github.com/formancehq/ledger/verifharness/realstore"
)

// runC17HistoryGates observes, for every feature combination, the SQL the REAL storage/ledger store
// emits for point-in-time reads of transactions and accounts: the statement must read the metadata
// history table of a resource (transactions_metadata / accounts_metadata) iff the *_METADATA_HISTORY
// feature of THAT resource is SYNC ("when it is DISABLED, such a read returns the current metadata").
// What Postgres answers is out of reach; which table the read is routed to is decided in Go.
func runC17HistoryGates(r *core.Run) {
	sets := allFeatureSets()
	pit := time.New(time.Now().Time)
	type probe struct {
		name    string
		feature string
		table   string
		run     func(ctx context.Context, st *ledgerstore.Store) error
	}
	probes := []probe{
		{"transactions-list-pit", features.FeatureTransactionMetadataHistory, "transactions_metadata", func(ctx context.Context, st *ledgerstore.Store) error {
			_, err := st.Transactions().Paginate(ctx, common.InitialPaginatedQuery[any]{PageSize: 5, Options: common.ResourceQuery[any]{PIT: &pit}})
			return err
		}},
		{"transactions-get-pit", features.FeatureTransactionMetadataHistory, "transactions_metadata", func(ctx context.Context, st *ledgerstore.Store) error {
			_, err := st.Transactions().GetOne(ctx, common.ResourceQuery[any]{PIT: &pit, Builder: query.Match("id", 1)})
			return err
		}},
		{"transactions-count-pit-metadata-filter", features.FeatureTransactionMetadataHistory, "transactions_metadata", func(ctx context.Context, st *ledgerstore.Store) error {
			_, err := st.Transactions().Count(ctx, common.ResourceQuery[any]{PIT: &pit, Builder: query.Match("metadata[k1]", "v")})
			return err
		}},
		{"accounts-list-pit", features.FeatureAccountMetadataHistory, "accounts_metadata", func(ctx context.Context, st *ledgerstore.Store) error {
			_, err := st.Accounts().Paginate(ctx, common.InitialPaginatedQuery[any]{PageSize: 5, Options: common.ResourceQuery[any]{PIT: &pit}})
			return err
		}},
		{"accounts-get-pit", features.FeatureAccountMetadataHistory, "accounts_metadata", func(ctx context.Context, st *ledgerstore.Store) error {
			_, err := st.Accounts().GetOne(ctx, common.ResourceQuery[any]{PIT: &pit, Builder: query.Match("address", "bank")})
			return err
		}},
		{"accounts-count-pit-metadata-filter", features.FeatureAccountMetadataHistory, "accounts_metadata", func(ctx context.Context, st *ledgerstore.Store) error {
			_, err := st.Accounts().Count(ctx, common.ResourceQuery[any]{PIT: &pit, Builder: query.Match("metadata[k1]", "v")})
			return err
		}},
	}
	r.Floor("history_gate_probes", int64(len(sets)*len(probes)))
	r.ForEach("history-gates", len(sets), 0, func(c *core.Case) {
		fs := sets[c.Index]
		db := realstore.NewSysDB()
		defer db.Close()
		d := db.NewDriver()
		ctx := context.Background()
		l := ledger.MustNewWithDefault("l1")
		l.Features = fs
		st, err := d.CreateLedger(ctx, &l)
		if err != nil {
			r.Inconclusive("CreateLedger: " + err.Error())
			return
		}
		for _, p := range probes {
			db.Shim.ResetLog()
			_ = p.run(ctx, st) // the record-only shim returns no rows: not-found errors are expected
			reads := map[string]bool{}
			n := 0
			for _, s := range db.Shim.Log() {
				if !strings.HasPrefix(strings.ToUpper(strings.TrimSpace(s.SQL)), "SELECT") && !strings.HasPrefix(strings.ToUpper(strings.TrimSpace(s.SQL)), "WITH") {
					continue
				}
				n++
				for _, t := range []string{"transactions_metadata", "accounts_metadata"} {
					if strings.Contains(s.SQL, `".`+t) || strings.Contains(s.SQL, `."`+t+`"`) {
						reads[t] = true
					}
				}
			}
			if n == 0 {
				r.Count("history_gate_probe_without_statement", 1)
				continue
			}
			sync := fs[p.feature] == "SYNC"
			r.Count("history_gate_probes", 1)
			r.Eval("hist|"+fs[features.FeatureTransactionMetadataHistory]+"|"+fs[features.FeatureAccountMetadataHistory]+"|"+p.name, fs[features.FeatureTransactionMetadataHistory] != fs[features.FeatureAccountMetadataHistory])
			r.Seen("history_gate_outcomes", fmt.Sprintf("%s %s=%s reads_history=%v", p.name, p.feature, fs[p.feature], reads[p.table]))
			detail := map[string]any{"features": fs.String(), "probe": p.name, "gating_feature": p.feature, "history_table": p.table, "reads": reads}
			if c.Index < 2 {
				r.Sample(detail)
			}
			if sync && !reads[p.table] {
				c.Violation("C17/pit-read-ignores-history-although-feature-is-SYNC:"+p.name, detail)
			}
			if !sync && reads[p.table] {
				c.Violation("C17/pit-read-uses-history-table-although-feature-is-DISABLED:"+p.name, detail)
			}
		}
	})
}
