package checks

import (
	"encoding/json"
	"fmt"
	"math/rand"
	"regexp"
	"strings"

	"github.com/formancehq/ledger/pkg/features"

	"github.com/formancehq/ledger/verifharness/core"
	"github.com/formancehq/ledger/verifharness/sim"
)

var (
	c28ReAccount = regexp.MustCompile(`^[a-zA-Z0-9_-]+(:[a-zA-Z0-9_-]+)*$`)
	c28ReAsset   = regexp.MustCompile(`^[A-Z][A-Z0-9]{0,16}(_[A-Z]{1,16})?(\/\d{1,6})?$`)
)

// runC28Committed: the monitor on everything the store COMMITTED, over creates by
// postings, machine scripts, interpreter scripts, templates and imports.
func runC28Committed(r *core.Run) {
	edgeAssets := []string{"/", "0A", "A/", "A//2", "A/B/C", "USD/A", "USD/1234567", "ABCDEFGHIJKLMNOPQR", "usd", "U_S", "USD_", "USD/", "EUR/2", "COIN", "A"}
	edgeAccounts := []string{"a:", ":a", "a::b", "a b", "é", "a.b", "world", "users:001", "-", "_"}
	// (1) controller path, both runtimes, literal and variable edge values
	n := r.N(4000, 100000)
	r.ForEach("commit", n, 0, func(c *core.Case) {
		rng := c.Rng
		e := sim.NewEnv(sim.Options{})
		defer e.Close()
		_ = e.CreateLedger("l1", "_default", nil)
		asset := edgeAssets[rng.Intn(len(edgeAssets))]
		acct := edgeAccounts[rng.Intn(len(edgeAccounts))]
		var op sim.Op
		kind := rng.Intn(6)
		switch kind {
		case 0:
			op = sim.Op{Kind: "script", Plain: fmt.Sprintf("send [%s 1] (\n source = @world\n destination = @bank\n)\n", asset)}
		case 1:
			op = sim.Op{Kind: "script", Runtime: "experimental-interpreter", Plain: fmt.Sprintf("send [%s 1] (\n source = @world\n destination = @bank\n)\n", asset)}
		case 2:
			op = sim.Op{Kind: "script", Plain: "vars {\n account $d\n asset $a\n}\nsend [$a 1] (\n source = @world\n destination = $d\n)\n", Vars: map[string]string{"d": acct, "a": asset}}
		case 3:
			op = sim.Op{Kind: "script", Runtime: "experimental-interpreter", Plain: "vars {\n account $d\n monetary $m\n}\nsend $m (\n source = @world\n destination = $d\n)\n", Vars: map[string]string{"d": acct, "m": asset + " 1"}}
		case 4:
			op = sim.Op{Kind: "postings", Postings: []sim.P{{Source: "world", Destination: acct, Asset: asset, Amount: "1"}}}
		case 5:
			op = sim.Op{Kind: "script", Plain: "vars {\n account $d = meta(@cfg, \"dest\")\n}\nsend [COIN 1] (\n source = @world\n destination = $d\n)\n"}
			e.Apply("l1", sim.Op{Kind: "save_acc_meta", Address: "cfg", Metadata: map[string]string{"dest": acct}})
		}
		out := e.Apply("l1", op)
		wellFormed := c28ReAsset.MatchString(asset) && (kind < 2 || c28ReAccount.MatchString(acct))
		r.Eval(fmt.Sprintf("%d|%s|%s|%s", kind, asset, acct, out.Class), !wellFormed)
		r.Seen("entry_kinds", []string{"machine-literal", "interpreter-literal", "machine-variables", "interpreter-variables", "postings", "machine-meta-account"}[kind])
		r.Seen("outcomes", out.Class)
		if out.Class == sim.CPanic {
			c.Violation(fmt.Sprintf("C28/controller-panics:%d:%s", kind, out.Err.(sim.ErrPanic).Site), map[string]any{"op": op, "error": out.Err.Error()})
		}
		for _, tx := range e.C.CommittedTransactions("l1") {
			r.Count("committed_transactions_scanned", 1)
			for _, p := range tx.Postings {
				if !c28ReAccount.MatchString(p.Source) || !c28ReAccount.MatchString(p.Destination) || !c28ReAsset.MatchString(p.Asset) || p.Amount == nil || p.Amount.Sign() < 0 {
					c.Violation(fmt.Sprintf("C28/ill-formed-posting-committed:%s", []string{"machine-literal", "interpreter-literal", "machine-variables", "interpreter-variables", "postings", "machine-meta-account"}[kind]),
						map[string]any{"op": op, "posting": p})
				}
			}
		}
	})
	// (2) import of a stream carrying an ill-formed posting
	m := r.N(300, 5000)
	r.ForEach("import", m, 0, func(c *core.Case) {
		rng := c.Rng
		e := sim.NewEnv(sim.Options{})
		defer e.Close()
		fs := features.MinimalFeatureSet.With(features.FeatureMovesHistory, "ON")
		_ = e.CreateLedger("src", "_default", fs)
		e.Apply("src", sim.Op{Kind: "postings", Postings: []sim.P{{Source: "world", Destination: "bank", Asset: "USD", Amount: "5"}}})
		exp := e.Do("POST", "/v2/src/logs/export", nil, nil)
		field := []string{"asset", "source", "destination", "amount"}[rng.Intn(4)]
		bad := map[string]string{"asset": `"usd"`, "source": `"a b"`, "destination": `":x"`, "amount": `-5`}[field]
		var lg map[string]any
		line := strings.TrimSpace(string(exp.Body))
		if err := json.Unmarshal([]byte(line), &lg); err != nil {
			r.Inconclusive("export not decodable: " + err.Error())
			return
		}
		tampered := strings.Replace(line, map[string]string{"asset": `"asset":"USD"`, "source": `"source":"world"`, "destination": `"destination":"bank"`, "amount": `"amount":5`}[field],
			`"`+field+`":`+bad, 1)
		_ = e.CreateLedger("dst", "other", fs)
		imp := e.Do("POST", "/v2/dst/logs/import", []byte(tampered+"\n"), nil)
		r.Eval("import|"+field, true)
		r.Seen("import_status", fmt.Sprint(imp.Status))
		if imp.Status == 500 && len(imp.Body) == 0 {
			e.C.AbortAll()
		}
		for _, tx := range e.C.CommittedTransactions("dst") {
			for _, p := range tx.Postings {
				if !c28ReAccount.MatchString(p.Source) || !c28ReAccount.MatchString(p.Destination) || !c28ReAsset.MatchString(p.Asset) || p.Amount == nil || p.Amount.Sign() < 0 {
					c.Violation("C28/ill-formed-posting-committed:import:"+field, map[string]any{"stream": tampered, "status": imp.Status, "posting": p})
				}
			}
		}
	})
	_ = rand.Int
}
