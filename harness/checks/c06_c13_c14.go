package checks

import "github.com/formancehq/ledger/verifharness/core"

const concRule = "generated scenarios of 2-4 concurrent clients (1-2 writes each) over a funded pre-history with few shared accounts; each scenario is executed (a) under the cooperative scheduler for every interleaving of store calls / lock waits / COMMITs with at most 2 (thorough: 3) preemptions, each enumerated once up to a cap, plus random unbounded walks, and (b) free-running under the Go race detector. After each execution: commit-time allowance of every bounded source (from the store's post-commit volumes), stored volumes = fold of committed postings, per-key / per-reference / per-transaction counts, response legality, and porcupine linearizability against a sequential ledger model. Distinct = (scenario, interleaving hash, outcome vector); non-trivial = the interleaving contains at least one client switch while another client was still enabled"

func init() {
	core.Register(&core.Check{
		ID: "C06", Level: "exploration", Rule: concRule + ". Scenario kinds: concurrent spends of one source beyond its balance (postings, bounded scripts, overdraft up to X, never-used account/asset pairs), non-forced reverts racing with spends",
		Assumptions: []string{seqAssume, "row locks, READ COMMITTED re-reads and deadlock detection behave as modelled in memstore", "yield points are store calls, lock waits and COMMIT; preemptions between two Go statements without a store call are reached only in free mode"},
		Run:         func(r *core.Run) { runConcurrent(r, "C06") },
	})
	core.Register(&core.Check{
		ID: "C13", Level: "exploration", Rule: concRule + ". Scenario kinds: N requests sharing an idempotency key with identical input (inputs whose second execution would fail on its own: spend the whole balance, revert, unique reference), same key with different inputs, for creates, reverts and metadata writes; plus sequential replays in the C13 sequential loop",
		Assumptions: []string{seqAssume, "unique index on (ledger, idempotency_key) waits for an uncommitted duplicate as Postgres does"},
		Run: func(r *core.Run) {
			if !r.RaceMode {
				runC13Sequential(r)
			}
			runConcurrent(r, "C13")
		},
	})
	core.Register(&core.Check{
		ID: "C14", Level: "exploration", Rule: concRule + ". Scenario kinds: concurrent creates (postings and scripts) sharing references, including one already used by the pre-history; plus sequential creates over two ledgers of one bucket",
		Assumptions: []string{seqAssume, "the partial unique index on (ledger, reference) is modelled, not executed"},
		Run: func(r *core.Run) {
			if !r.RaceMode {
				runC14Sequential(r)
			}
			runConcurrent(r, "C14")
		},
	})
}
