package checks

import (
	"fmt"
	"math/rand"

	"github.com/formancehq/ledger/verifharness/core"
	"github.com/formancehq/ledger/verifharness/sim"
)

const concRule = "generated scenarios of 2-4 concurrent clients (1-2 writes each) over a funded pre-history with few shared accounts; each scenario is executed (a) under the cooperative scheduler for every interleaving of store calls / lock waits / COMMITs with at most 2 (thorough: 3) preemptions, each enumerated once up to a cap, plus random unbounded walks, and (b) free-running under the Go race detector. After each execution: commit-time allowance of every bounded source (from the store's post-commit volumes), stored volumes = fold of committed postings, per-key / per-reference / per-transaction counts, response legality, and porcupine linearizability against a sequential ledger model. Distinct = (scenario, interleaving hash, outcome vector); non-trivial = the interleaving contains at least one client switch while another client was still enabled"

func init() {
	core.Register(&core.Check{
		ID: "C06", Level: "exploration", Rule: concRule + ". Scenario kinds: concurrent spends of one source beyond its balance (postings, bounded scripts, overdraft up to X, never-used account/asset pairs), non-forced reverts racing with spends",
		Assumptions: []string{seqAssume, "row locks, READ COMMITTED re-reads and deadlock detection behave as modelled in memstore", "yield points are store calls, lock waits and COMMIT; preemptions between two Go statements without a store call are reached only in free mode"},
		Run: func(r *core.Run) {
			if !r.RaceMode {
				// sequential part: transactions crediting one account several times, later spends,
				// then non-forced reverts (the balance check must be cumulative over the reversed postings)
				runSeq(r, seqConfig{Prop: "C06", Histories: [2]int{200, 4000}, OpsPer: [2]int{25, 40},
					Tune: func(st *sim.GenState, rng *rand.Rand) { st.NoBig = true },
					Mutate: func(op *sim.Op, rng *rand.Rand, st *sim.GenState) {
						op.DryRun = false
						switch x := rng.Intn(10); {
						case x < 3:
							a := sim.GenAccounts[1+rng.Intn(len(sim.GenAccounts)-1)]
							n := 2 + rng.Intn(2)
							var ps []sim.P
							for i := 0; i < n; i++ {
								ps = append(ps, sim.P{Source: "world", Destination: a, Asset: "USD", Amount: fmt.Sprint(20 + rng.Intn(60))})
							}
							*op = sim.Op{Kind: "postings", Postings: ps}
						case x < 5:
							a := sim.GenAccounts[1+rng.Intn(len(sim.GenAccounts)-1)]
							*op = sim.Op{Kind: "postings", Postings: []sim.P{{Source: a, Destination: "fees", Asset: "USD", Amount: fmt.Sprint(10 + rng.Intn(60))}}}
						case x < 8 && len(st.TxIDs) > 0:
							*op = sim.Op{Kind: "revert", TxID: st.TxIDs[rng.Intn(len(st.TxIDs))], AtEffectiveDate: rng.Intn(2) == 0}
						}
					},
					NonTrivial: func(m *sim.Mirror) bool { return m.Classes[sim.CInsufficient] > 0 && m.Committed > 2 },
				})
			}
			runConcurrent(r, "C06")
		},
	})
	core.Register(&core.Check{
		ID: "C13", Level: "exploration", Rule: concRule + ". Scenario kinds: N requests sharing an idempotency key with identical input (inputs whose second execution would fail on its own: spend the whole balance, revert, unique reference), same key with different inputs, for creates, reverts and metadata writes; plus sequential replays in the C13 sequential loop",
		Assumptions: []string{seqAssume, "unique index on (ledger, idempotency_key) waits for an uncommitted duplicate as Postgres does"},
		Run: func(r *core.Run) {
			if !r.RaceMode {
				runC13Sequential(r)
			}
			runConcurrent(r, "C13")
		},
	})
	core.Register(&core.Check{
		ID: "C14", Level: "exploration", Rule: concRule + ". Scenario kinds: concurrent creates (postings and scripts) sharing references, including one already used by the pre-history; plus sequential creates over two ledgers of one bucket",
		Assumptions: []string{seqAssume, "the partial unique index on (ledger, reference) is modelled, not executed"},
		Run: func(r *core.Run) {
			if !r.RaceMode {
				runC14Sequential(r)
				runC14ConflictTranslation(r)
			}
			runConcurrent(r, "C14")
		},
	})
}
