package checks

// C38 — assembly of the systematic mutant list of a (route, valid request) and
// of the random mutants.

import (
	"encoding/base64"
	"fmt"
	"math/rand"
	"strings"
)

var c38AllParamNames = []string{"pageSize", "cursor", "pit", "oot", "sort", "expand", "query", "dryRun", "schemaVersion", "force", "atEffectiveDate", "order", "reverse", "groupBy", "startTime", "endTime", "insertionDate", "useInsertionDate",
	"includeDeleted", "continueOnFailure", "atomic", "parallel", "after", "start_time", "end_time", "reference", "source", "destination", "account", "address", "balance", "balanceOperator", "metadata[k1]", "metadata", "preview", "disableChecks"}

func c38ParamValues(kind string) (class string, vals []string) {
	switch kind {
	case "date":
		return "bad_date_param", c38BadDates
	case "uint":
		return "bad_pagesize_param", c38BadUints
	case "int":
		return "bad_number_param", append(append([]string(nil), c38BadUints...), "-9223372036854775808", "-9223372036854775809", "9223372036854775807")
	case "bool":
		return "bad_bool_param", c38BadBools
	case "sort":
		return "bad_sort_param", c38BadSorts
	case "expand":
		return "bad_expand_param", c38BadExpands
	case "groupby":
		return "bad_groupby_param", c38BadGroupBys
	case "order":
		return "bad_order_param", []string{"asc", "desc", "ASC", "sideways", "", "1", "effective", "\x00"}
	case "balop":
		return "bad_operator_param", []string{"e", "ne", "lt", "lte", "gt", "gte", "eq", "", "GTE", "like", "$gte", "\x00", "in"}
	case "str":
		return "boundary_string_param", c38LeafStrings()
	}
	return "", nil
}

func c38PathValues(param string) (class string, vals []string) {
	switch param {
	case "ledger":
		return "bad_ledger_path", c38BadLedgers
	case "id":
		return "bad_id_path", c38BadIDs
	case "address":
		return "bad_address_path", c38BadAddresses
	case "key":
		return "bad_key_path", c38BadKeys
	case "version":
		return "bad_version_path", append(append([]string(nil), c38BadKeys...), "v1", "v2", "latest", "V1", "1")
	case "bucket":
		return "bad_bucket_path", append(append([]string(nil), c38BadLedgers...), "_default", "b2", "nope")
	}
	return "bad_path_param", c38BadKeys
}

// c38FilterPlace tells where the valid request carries its filter.
func c38FilterPlace(valid c38Req) (inQuery bool, filter string) {
	if v, ok := valid.getQuery("query"); ok {
		return true, v
	}
	if !valid.NoBody && valid.Body != nil {
		return false, string(valid.Body)
	}
	return false, ""
}

func c38SetFilter(valid c38Req, inQuery bool, f string) c38Req {
	if inQuery {
		return valid.setQuery("query", f)
	}
	return valid.withBody([]byte(f))
}

func c38SysMutants(rt *c38Route, variant int, valid c38Req, st *c38State) []c38Mut {
	var out []c38Mut
	add := func(class, desc string, q c38Req) { out = append(out, c38Mut{Class: class, Desc: desc, Req: q}) }
	body := func(class, desc string, b []byte) { add(class, desc, valid.withBody(b)) }
	first := variant == 0 // request-level mutations (path, headers, method, raw body) are enumerated once per route
	hasBody := !valid.NoBody && valid.Body != nil

	// ---- body
	switch rt.Body {
	case "json", "schema":
		if root, ok := c38Parse(valid.Body); ok && hasBody {
			if rt.Body == "schema" {
				// large document: full mutations down to depth 2, type confusion + missing below
				c38TreeMutants(root, 2, 0, body)
				c38TreeMutants(root, 0, 1, func(class, desc string, b []byte) {
					if strings.Count(desc, ".")+strings.Count(desc, "[") >= 2 {
						body(class, desc, b)
					}
				})
			} else {
				c38TreeMutants(root, 0, 0, body)
			}
			if cur := root.get("cursor"); cur != nil && cur.isString() {
				c38CursorMutants(st.cursors["query:QA"], st.cursors, func(class, desc, c string) {
					r2 := root.clone()
					r2.set("cursor", c38RawStr(c))
					body(class, "body.cursor: "+desc, r2.Bytes())
				})
			}
			if rt.Name == "POST /v2/{ledger}/queries/{id}/run" && first {
				for _, q := range c38QueryIDs {
					if c := st.cursors["query:"+q]; c != "" {
						body("cursor_wrong_resource", "body.cursor = cursor of query "+q, c38Obj("cursor", c).Bytes())
					}
				}
				for _, p := range c38BadRunBodies {
					body("query_template_input", "run body = "+c38Trunc(p, 60), []byte(p))
				}
			}
		}
		if first {
			c38RawBodyMutants(valid.Body, body)
			if rt.Body == "schema" {
				for _, d := range c38BadSchemas {
					body("schema_document", c38Trunc(d, 70), []byte(d))
				}
			}
		}
	case "filter":
		inQ, f := c38FilterPlace(valid)
		if f == "" {
			f = `{"$match":{"address":"x"}}`
		}
		setf := func(class, desc, nf string) { add(class, desc, c38SetFilter(valid, inQ, nf)) }
		level := 2
		switch {
		case variant == 0 && rt.Method() != "HEAD":
			level = 0
		case variant <= 1:
			level = 1
		}
		c38FilterMutants(rt.Resource, f, level, setf)
		if root, ok := c38Parse([]byte(f)); ok && variant <= 3 {
			c38TreeMutants(root, 0, 1, func(class, desc string, b []byte) { setf("filter_"+class, desc, string(b)) })
		}
		if first {
			c38RawBodyMutants(valid.Body, body)
			add("filter_both_places", "filter in the body and a different one in `query`", valid.setQuery("query", `{"$match":{"unknown":"x"}}`))
		} else if variant == 1 {
			add("filter_both_places", "filter in `query` and junk in the body", valid.withBody([]byte(`{"$junk":`)))
		}
	case "bulk":
		ct := valid.header("Content-Type")
		switch ct {
		case c38CTScript:
			for _, t := range c38BadScriptStreams(string(valid.Body)) {
				body("bulk_script_stream", fmt.Sprintf("%q", c38Trunc(t, 60)), []byte(t))
			}
		case c38CTJSONStream:
			lines := strings.Split(strings.TrimSpace(string(valid.Body)), "\n")
			for li, l := range lines {
				if root, ok := c38Parse([]byte(l)); ok {
					c38TreeMutants(root, 3, 1, func(class, desc string, b []byte) {
						nl := append([]string(nil), lines...)
						nl[li] = string(b)
						body(class, fmt.Sprintf("stream element %d: %s", li, desc), []byte(strings.Join(nl, "\n")))
					})
				}
			}
			for _, t := range c38BadJSONStreams(lines) {
				body("bulk_json_stream", fmt.Sprintf("%q", c38Trunc(t, 60)), []byte(t))
			}
			c38RawBodyMutants(valid.Body, body)
		default:
			if root, ok := c38Parse(valid.Body); ok {
				if first {
					c38TreeMutants(root, 0, 0, body)
				}
				for _, t := range c38BadBulks(root) {
					body("bulk_shape", c38Trunc(t, 70), []byte(t))
				}
			}
			if first {
				c38RawBodyMutants(valid.Body, body)
			}
		}
		add("bulk_options", "atomic=true&parallel=true", valid.setQuery("atomic", "true").setQuery("parallel", "true"))
		// rollback of an atomic bulk: valid elements followed by an invalid one
		for _, ab := range [][2]string{
			{"atomic: two valid elements then a failing one", `[{"action":"CREATE_TRANSACTION","data":{"postings":[{"source":"world","destination":"bank","asset":"USD","amount":10}]}},{"action":"ADD_METADATA","data":{"targetType":"ACCOUNT","targetId":"bank","metadata":{"z":"z"}}},{"action":"REVERT_TRANSACTION","data":{"id":999999}}]`},
			{"atomic: valid element then insufficient funds", `[{"action":"CREATE_TRANSACTION","data":{"postings":[{"source":"world","destination":"bank","asset":"USD","amount":10}]}},{"action":"CREATE_TRANSACTION","data":{"postings":[{"source":"nofunds","destination":"bank","asset":"USD","amount":10}]}}]`},
			{"atomic: valid element then malformed data shape", `[{"action":"CREATE_TRANSACTION","data":{"postings":[{"source":"world","destination":"bank","asset":"USD","amount":10}]}},{"action":"ADD_METADATA","data":{"targetType":"TRANSACTION","targetId":"x","metadata":{}}}]`},
		} {
			add("bulk_atomic_rollback", ab[0], valid.withBody([]byte(ab[1])).setHeader("Content-Type", c38CTJSON).setQuery("atomic", "true").dropQuery("parallel"))
		}
	case "import":
		for _, m := range c38BadImports(st.export) {
			body(m[0], m[1], []byte(m[2]))
		}
		// per log type: payload mutations of one line
		seenType := map[string]bool{}
		for li, l := range st.export {
			root, ok := c38Parse([]byte(l))
			if !ok {
				continue
			}
			t := root.get("type").String()
			if seenType[t] {
				continue
			}
			seenType[t] = true
			c38UltraLight = true
			c38TreeMutants(root, 3, 1, func(class, desc string, b []byte) {
				nl := append([]string(nil), st.export...)
				nl[li] = string(b)
				body("import_"+class, fmt.Sprintf("log line %d (%s): %s", li, t, desc), []byte(strings.Join(nl, "\n")+"\n"))
			})
			c38UltraLight = false
		}
		add("import_nonempty_ledger", "valid export imported into the non-empty ledger l1", valid.setParam("ledger", "l1"))
		c38RawBodyMutants(valid.Body, body)
	default:
		if first {
			for _, b := range []string{`{}`, `null`, `[]`, `{"$match":{"address":"x"}}`, `{"$junk":`, "\x00\xff", c38Long} {
				body("unexpected_body", fmt.Sprintf("body on a body-less route: %q", c38Trunc(b, 30)), []byte(b))
			}
		}
	}

	// ---- query string
	declared := map[string]bool{}
	for _, p := range rt.Params {
		declared[p.Name] = true
		_, present := valid.getQuery(p.Name)
		switch p.Kind {
		case "cursor":
			key := c38CursorKeyFor(rt, valid)
			if !(first || key != rt.Name) {
				continue
			}
			c38CursorMutants(st.cursors[key], st.cursors, func(class, desc, c string) { add(class, desc, valid.setQuery("cursor", c)) })
			// a valid cursor combined with a changed page size (the handler re-reads pageSize)
			if c := st.cursors[key]; c != "" {
				for _, ps := range []string{"0", "1", "1000", "1001", "-1", "abc", "18446744073709551616"} {
					add("cursor_with_pagesize", "valid cursor & pageSize="+ps, valid.setQuery("cursor", c).setQuery("pageSize", ps))
				}
				add("cursor_with_filter", "valid cursor & junk body", valid.setQuery("cursor", c).withBody([]byte(`{"$junk":`)))
			}
		case "filter":
			// covered by the body section for the variant that carries the filter in `query`
			if !present && first {
				for _, f := range []string{`{"$junk":1}`, `{`, `[]`, `null`, `1`, `{"$match":{"unknown":"x"}}`, `{"$and":[]}`, "\x00", `""`} {
					add("filter_structure", "query="+f, valid.setQuery("query", f))
				}
			}
		default:
			if !(first || present) {
				continue
			}
			class, vals := c38ParamValues(p.Kind)
			for _, v := range vals {
				add(class, fmt.Sprintf("%s=%q", p.Name, c38Trunc(v, 30)), valid.setQuery(p.Name, v))
			}
			add("duplicated_param", p.Name+" given twice", valid.addQuery(p.Name, "1").addQuery(p.Name, "zzz"))
			add("empty_param", p.Name+"=", valid.setQuery(p.Name, ""))
			if present {
				add("missing_param", "without "+p.Name, valid.dropQuery(p.Name))
			}
		}
	}
	if !first {
		return out
	}
	for _, name := range c38AllParamNames {
		if declared[name] {
			continue
		}
		add("undeclared_param", fmt.Sprintf("%s=%q", name, "abc"), valid.setQuery(name, "abc"))
	}
	add("unknown_param", "zzz=1", valid.setQuery("zzz", "1"))
	add("unknown_param", "=1 (empty name)", valid.setQuery("", "1"))
	add("unknown_param", "3000 parameters", func() c38Req {
		c := valid.clone()
		for i := 0; i < 3000; i++ {
			c.Query = append(c.Query, c38KV{fmt.Sprintf("p%d", i), "v"})
		}
		return c
	}())

	// ---- path parameters
	for _, s := range valid.Segs {
		if s.Param == "" {
			continue
		}
		class, vals := c38PathValues(s.Param)
		for _, v := range vals {
			if v == "" {
				continue // an empty segment changes the route, the router answers
			}
			add(class, fmt.Sprintf("{%s}=%q", s.Param, c38Trunc(v, 30)), valid.setParam(s.Param, v))
		}
		for _, v := range c38LeafStrings() {
			if v == "" || len(v) > 10000 {
				continue
			}
			add(class, fmt.Sprintf("{%s}=%q", s.Param, c38Trunc(v, 30)), valid.setParam(s.Param, v))
		}
	}

	// ---- headers, method
	if hasBody {
		for _, ct := range c38ContentTypes {
			add("content_type", "Content-Type: "+c38Trunc(ct, 50), valid.setHeader("Content-Type", ct))
		}
		add("content_type", "no Content-Type", valid.dropHeader("Content-Type"))
		add("content_encoding", "Content-Encoding: gzip on a plain body", valid.setHeader("Content-Encoding", "gzip"))
	}
	if rt.Write {
		for _, ik := range c38IdemKeys {
			add("idempotency_key", fmt.Sprintf("Idempotency-Key: %q", c38Trunc(ik, 30)), valid.setHeader("Idempotency-Key", ik))
		}
		// the same key with a different input: `ik-seed-a` was used by the seeding history
	}
	for _, h := range [][2]string{{"Accept", "text/xml"}, {"Accept", "\xff"}, {"Origin", "null"}, {"Origin", "http://\xff"}, {"X-HTTP-Method-Override", "DELETE"}, {"Authorization", "Bearer x.y.z"}, {"Authorization", "\xff"}, {"Traceparent", "00-zz-zz-01"}, {"X-Request-Id", c38Long[:9000]}, {"Idempotency-Hit", "true"}} {
		add("header", fmt.Sprintf("%s: %q", h[0], c38Trunc(h[1], 30)), valid.setHeader(h[0], h[1]))
	}
	for _, m := range []string{"OPTIONS", "PATCH", "TRACE", "FOO", "GET", "POST", "PUT", "DELETE", "HEAD", "CONNECT"} {
		if m != valid.Method {
			c := valid.clone()
			c.Method = m
			if m == "OPTIONS" {
				c = c.setHeader("Origin", "http://x").setHeader("Access-Control-Request-Method", "POST")
			}
			add("method", "method "+m, c)
		}
	}
	return out
}

func (rt *c38Route) Method() string { return strings.SplitN(rt.Name, " ", 2)[0] }

var c38BadRunBodies = []string{`{"params":{"sort":"junk:asc"}}`, `{"params":{"sort":"metadata:asc"}}`, `{"params":{"sort":":"}}`, `{"params":{"pageSize":-1}}`, `{"params":{"pageSize":0}}`, `{"params":{"pageSize":100000000}}`, `{"params":{"pageSize":"1"}}`, `{"params":{"pageSize":1.5}}`,
	`{"params":{"groupBy":-1}}`, `{"params":{"groupBy":"x"}}`, `{"params":{"unknown":1}}`, `{"params":{"endTime":"junk"}}`, `{"params":{"startTime":1}}`, `{"params":{"expand":"volumes"}}`, `{"params":{"expand":["junk"]}}`, `{"params":{"expand":[1]}}`, `{"params":{"insertionDate":"x"}}`,
	`{"params":[]}`, `{"params":"x"}`, `{"params":null}`, `{"params":1}`, `{"vars":{"pfx":1}}`, `{"vars":{"pfx":null}}`, `{"vars":{"pfx":["a"]}}`, `{"vars":{"pfx":{"a":1}}}`, `{"vars":{"min":"x"}}`, `{"vars":{"min":1.5}}`, `{"vars":{"min":1e400}}`, `{"vars":{"rev":"yes"}}`, `{"vars":{"since":"junk"}}`, `{"vars":{"since":1}}`,
	`{"vars":{"undeclared":1}}`, `{"vars":{"pfx":"${pfx}"}}`, `{"vars":{"pfx":"a\"b"}}`, `{"vars":{"pfx":"%"}}`, `{"vars":{"pfx":"::"}}`, `{"vars":{"pfx":"...:"}}`, `{"vars":{"min":340282366920938463463374607431768211456}}`, `{"vars":{"min":-340282366920938463463374607431768211456}}`,
	`{"resource":"logs"}`, `{"body":{"$match":{"address":"x"}}}`}

// c38CursorKeyFor: which harvested cursor fits the valid request.
func c38CursorKeyFor(rt *c38Route, valid c38Req) string {
	if rt.Name == "GET /v2/{ledger}/transactions" {
		if v, _ := valid.getQuery("order"); v == "effective" {
			return rt.Name + "#timestamp"
		}
	}
	return rt.Name
}

// ---------------------------------------------------------------------------

var c38BadSchemas = []string{
	`{"chart":{"users":{"$a":{},"$b":{}}}}`, `{"chart":{"$top":{}}}`, `{"chart":{"users":{".pattern":"x"}}}`, `{"chart":{"users":{"$id":{".pattern":"("}}}}`, `{"chart":{"users":{"$id":{".pattern":123}}}}`, `{"chart":{"users":{"$id":{".pattern":"^(a+)+$"}}}}`,
	`{"chart":{"a:b":{}}}`, `{"chart":{"":{}}}`, `{"chart":{"a b":{}}}`, `{"chart":{".self":{}}}`, `{"chart":{"users":{".self":1}}}`, `{"chart":{"users":{".self":null}}}`, `{"chart":{"users":{".metadata":[]}}}`, `{"chart":{"users":{".metadata":{"k":1}}}}`, `{"chart":{"users":{".metadata":{"k":{"default":1}}}}}`,
	`{"chart":{"users":{".rules":{"x":1}}}}`, `{"chart":{"users":{".rules":1}}}`, `{"chart":{"users":"x"}}`, `{"chart":{"users":null}}`, `{"chart":{"users":[]}}`, `{"chart":{"users":1}}`, `{"chart":{"$":{}}}`, `{"chart":{"users":{"$":{}}}}`, `{"chart":{"users":{"$id":{"$id2":{"$id3":{}}}}}}`,
	`{"chart":null}`, `{"chart":[]}`, `{"chart":"x"}`, `{"chart":{}}`, `{}`, `{"transactions":{}}`, `{"chart":{"world":{".metadata":{"k":{}}, "sub":{}}}}`, `{"chart":{"users":{".unknown":1}}}`, `{"chart":{"é":{}}}`, `{"chart":{"A":{}}}`, `{"chart":{"a-b":{}}}`, `{"chart":{"a_b":{}}}`, `{"chart":{"0":{}}}`,
	`{"chart":` + strings.Repeat(`{"a":`, 300) + `{}` + strings.Repeat(`}`, 300) + `}`,
	`{"chart":{"world":{}},"transactions":{"T":{"script":123}}}`, `{"chart":{"world":{}},"transactions":{"T":{}}}`, `{"chart":{"world":{}},"transactions":{"T":{"script":"bad"}}}`, `{"chart":{"world":{}},"transactions":{"T":{"script":"send [USD 1] (\n source=@world\n destination=@b\n)","runtime":"zzz"}}}`,
	`{"chart":{"world":{}},"transactions":{"":{"script":"send [USD 1] (\n source=@world\n destination=@b\n)"}}}`, `{"chart":{"world":{}},"transactions":{"T":null}}`, `{"chart":{"world":{}},"transactions":[]}`, `{"chart":{"world":{}},"transactions":"x"}`, `{"chart":{"world":{}},"transactions":{"T":{"script":"send [USD 1] (\n source=@world\n destination=@b\n)","runtime":"experimental-interpreter"}}}`,
	`{"chart":{"world":{}},"queries":{"Q":{"resource":"junk"}}}`, `{"chart":{"world":{}},"queries":{"Q":{}}}`, `{"chart":{"world":{}},"queries":{"Q":null}}`, `{"chart":{"world":{}},"queries":[]}`, `{"chart":{"world":{}},"queries":{"Q":{"resource":"accounts","params":{"sort":"junk:asc"}}}}`, `{"chart":{"world":{}},"queries":{"Q":{"resource":"accounts","params":{"sort":"metadata:asc"}}}}`,
	`{"chart":{"world":{}},"queries":{"Q":{"resource":"accounts","params":{"unknown":1}}}}`, `{"chart":{"world":{}},"queries":{"Q":{"resource":"accounts","params":{"pageSize":-1}}}}`, `{"chart":{"world":{}},"queries":{"Q":{"resource":"accounts","params":{"pageSize":"x"}}}}`, `{"chart":{"world":{}},"queries":{"Q":{"resource":"accounts","params":{"pageSize":18446744073709551616}}}}`,
	`{"chart":{"world":{}},"queries":{"Q":{"resource":"accounts","params":[]}}}`, `{"chart":{"world":{}},"queries":{"Q":{"resource":"accounts","params":"x"}}}`, `{"chart":{"world":{}},"queries":{"Q":{"resource":"volumes","params":{"groupBy":"x"}}}}`, `{"chart":{"world":{}},"queries":{"Q":{"resource":"volumes","params":{"groupBy":-1}}}}`, `{"chart":{"world":{}},"queries":{"Q":{"resource":"accounts","params":{"groupBy":1}}}}`,
	`{"chart":{"world":{}},"queries":{"Q":{"resource":"accounts","vars":{"x":"junktype"}}}}`, `{"chart":{"world":{}},"queries":{"Q":{"resource":"accounts","vars":{"x":{"type":"int","default":"notint"}}}}}`, `{"chart":{"world":{}},"queries":{"Q":{"resource":"accounts","vars":{"x":{"type":"int","default":1.5}}}}}`, `{"chart":{"world":{}},"queries":{"Q":{"resource":"accounts","vars":{"x":{"type":"date","default":"junk"}}}}}`,
	`{"chart":{"world":{}},"queries":{"Q":{"resource":"accounts","vars":{"x":{"type":"boolean","default":"yes"}}}}}`, `{"chart":{"world":{}},"queries":{"Q":{"resource":"accounts","vars":{"x":{"type":"string","default":null}}}}}`, `{"chart":{"world":{}},"queries":{"Q":{"resource":"accounts","vars":{"x":1}}}}`, `{"chart":{"world":{}},"queries":{"Q":{"resource":"accounts","vars":{"x":{}}}}}`, `{"chart":{"world":{}},"queries":{"Q":{"resource":"accounts","vars":[]}}}`,
	`{"chart":{"world":{}},"queries":{"Q":{"resource":"accounts","body":{"$match":{"unknown":"x"}}}}}`, `{"chart":{"world":{}},"queries":{"Q":{"resource":"accounts","body":{"$match":{"address":"${undeclared}"}}}}}`, `{"chart":{"world":{}},"queries":{"Q":{"resource":"accounts","body":{"$junk":1}}}}`, `{"chart":{"world":{}},"queries":{"Q":{"resource":"accounts","body":[]}}}`, `{"chart":{"world":{}},"queries":{"Q":{"resource":"accounts","body":"x"}}}`,
	`{"chart":{"world":{}},"queries":{"Q":{"resource":"accounts","body":{"$in":{"address":"${x}"}},"vars":{"x":"string"}}}}`, `{"chart":{"world":{}},"queries":{"Q":{"resource":"logs","body":{"$in":{"type":["NEW_TRANSACTION"]}}}}}`, `{"chart":{"world":{}},"queries":{"Q":{"resource":"transactions","body":{"$lt":{"metadata[k]":"${x}"}},"vars":{"x":"int"}}}}`,
	`{"chart":{"world":{}},"queries":{"Q":{"resource":"accounts","body":{"$match":{"address":"${x"}}}}}`, `{"chart":{"world":{}},"queries":{"Q":{"resource":"accounts","body":{"$match":{"address":"$${x}}"}}}}}`, `{"chart":{"world":{}},"queries":{"Q":{"resource":["accounts"]}}}`, `{"chart":{"world":{}},"queries":{"Q":{"resource":null}}}`,
}

func c38BadScriptStreams(valid string) []string {
	send := "send [USD 1] (\n source = @world\n destination = @bank\n)\n"
	return []string{
		"//script", "//script\n", "//script\n//end", "//script\n//end\n", "//script\n\n//end\n", "//script ik", "//script ik=", "//script ik=a,ik=b\n" + send + "//end\n", "//script foo=bar\n" + send + "//end\n", "//script ik=a,\n" + send + "//end\n", "//script ,\n" + send + "//end\n", "//script =\n" + send + "//end\n",
		"//script ik=a=b\n" + send + "//end\n", "//scriptx\n" + send + "//end\n", "// script\n" + send + "//end\n", send, "//end", "//end\n", "", "\n\n", " ", "//script\n" + send, "//script\n" + strings.TrimSuffix(send, "\n"), "//script\nnot numscript\n//end\n", "//script\n" + send + "//end\n//script", "//script\n" + send + "//end\n//script\n",
		"//script\n" + send + "//end\ngarbage\n", "//script\n" + send + "// end\n", "//script\n" + send + "//END\n", "//script\r\n" + strings.ReplaceAll(send, "\n", "\r\n") + "//end\r\n", "//script\n" + strings.Repeat("x", 70_000) + "\n//end\n", "//script " + strings.Repeat("x", 70_000) + "\n" + send + "//end\n", "//script\n" + send + strings.Repeat("x", 70_000) + "\n//end\n", "//script\n" + send + "// " + strings.Repeat("c", 70_000) + "\n//end\n", "//script\n" + send + "//end\n//script\n" + send + "// " + strings.Repeat("c", 70_000) + "\n//end\n", "//script ik=sik-long\n" + send + strings.Repeat(" ", 66_000) + "\n" + send + "//end\n", "//script\n\x00\xff\n//end\n", "\xef\xbb\xbf//script\n" + send + "//end\n",
		"//script ik=sik-dup\n" + send + "//end\n//script ik=sik-dup\n" + send + "//end\n", "//script ik=sik-dup2\n" + send + "//end\n//script ik=sik-dup2\nsend [USD 2] (\n source = @world\n destination = @bank\n)\n//end\n", "//script\nsend [USD 1] (\n source = @nofunds\n destination = @bank\n)\n//end\n",
		strings.Repeat("//script\n"+send+"//end\n", 150), valid + valid, "//script\n//script\n" + send + "//end\n//end\n", "//script\nvars {\n monetary $m\n}\nsend $m (\n source = @world\n destination = @bank\n)\n//end\n",
	}
}

func c38BadJSONStreams(lines []string) []string {
	l0 := lines[0]
	return []string{
		strings.Join(lines, ""), strings.Join(lines, ","), "[" + strings.Join(lines, ",") + "]", l0 + "\ngarbage", l0 + "\n{", l0 + "\n{\"action\":", l0 + "\nnull", l0 + "\n[]", l0 + "\n1", l0 + "\n\"x\"", l0 + "\n{}", "null", "[]", "{}", "", " \n ", l0 + "\n" + l0,
		`{"action":"UNKNOWN","data":{}}`, `{"action":"","data":{}}`, `{"data":{}}`, `{"action":"CREATE_TRANSACTION"}`, `{"action":"CREATE_TRANSACTION","data":null}`, `{"action":null,"data":{}}`, `{"action":1,"data":{}}`,
		l0 + "\n" + `{"action":"REVERT_TRANSACTION","data":{"id":999999}}` + "\n" + l0, strings.Repeat(`{"action":"ADD_METADATA","data":{"targetType":"ACCOUNT","targetId":"bank","metadata":{"a":"b"}}}`+"\n", 150),
	}
}

func c38BadBulks(valid *c38N) []string {
	el := func(action, data string) string { return fmt.Sprintf(`{"action":%s,"data":%s}`, action, data) }
	tx := `{"postings":[{"source":"world","destination":"bank","asset":"USD","amount":1}]}`
	var out []string
	for _, a := range []string{`""`, `"create_transaction"`, `"UNKNOWN"`, `null`, `1`, `[]`, `{}`, `"CREATE_TRANSACTION "`, `"ADD_METADATA\u0000"`} {
		out = append(out, "["+el(a, tx)+"]", "["+el(`"CREATE_TRANSACTION"`, tx)+","+el(a, tx)+"]")
	}
	for _, a := range []string{"CREATE_TRANSACTION", "ADD_METADATA", "REVERT_TRANSACTION", "DELETE_METADATA"} {
		for _, d := range []string{`null`, `[]`, `"x"`, `1`, `{}`, `true`, `[{}]`, tx, `{"targetType":"ACCOUNT"}`, `{"targetType":"TRANSACTION"}`, `{"targetType":"UNKNOWN","targetId":"a","metadata":{},"key":"k"}`, `{"targetType":"","targetId":"a","metadata":{},"key":"k"}`, `{"targetType":"account","targetId":"a","metadata":{},"key":"k"}`,
			`{"targetType":"ACCOUNT","targetId":1,"metadata":{},"key":"k"}`, `{"targetType":"ACCOUNT","targetId":null,"metadata":{},"key":"k"}`, `{"targetType":"ACCOUNT","targetId":{},"metadata":{},"key":"k"}`, `{"targetType":"ACCOUNT","targetId":[],"metadata":{},"key":"k"}`, `{"targetType":"ACCOUNT","targetId":"","metadata":{},"key":"k"}`, `{"targetType":"ACCOUNT","targetId":"a b","metadata":{},"key":"k"}`,
			`{"targetType":"ACCOUNT","metadata":{},"key":"k"}`, `{"targetType":"TRANSACTION","metadata":{},"key":"k"}`,
			`{"targetType":"TRANSACTION","targetId":"1","metadata":{},"key":"k"}`, `{"targetType":"TRANSACTION","targetId":"abc","metadata":{},"key":"k"}`, `{"targetType":"TRANSACTION","targetId":-1,"metadata":{},"key":"k"}`, `{"targetType":"TRANSACTION","targetId":1.5,"metadata":{},"key":"k"}`, `{"targetType":"TRANSACTION","targetId":null,"metadata":{},"key":"k"}`,
			`{"targetType":"TRANSACTION","targetId":{},"metadata":{},"key":"k"}`, `{"targetType":"TRANSACTION","targetId":18446744073709551616,"metadata":{},"key":"k"}`, `{"targetType":"TRANSACTION","targetId":999999,"metadata":{"a":"b"},"key":"k"}`, `{"targetType":"TRANSACTION","targetId":1,"metadata":null,"key":null}`, `{"targetType":"TRANSACTION","targetId":1,"metadata":{"k":1}}`,
			`{"targetType":"ACCOUNT","targetId":"bank","metadata":{"k":null}}`, `{"targetType":"ACCOUNT","targetId":"bank","metadata":[]}`, `{"targetType":"ACCOUNT","targetId":"bank","key":1}`, `{"targetType":"ACCOUNT","targetId":"bank","key":""}`, `{"targetType":"ACCOUNT","targetId":"bank"}`,
			`{"id":"1"}`, `{"id":-1}`, `{"id":0}`, `{"id":1.5}`, `{"id":null}`, `{"id":999999}`, `{"id":18446744073709551616}`, `{"id":1,"force":"true"}`, `{"id":1,"force":1}`, `{"id":1,"atEffectiveDate":null}`, `{"id":1,"metadata":[]}`, `{"id":1,"metadata":{"k":1}}`,
			`{"script":{"plain":""}}`, `{"script":{"plain":"x"}}`, `{"script":{"plain":"send [USD 1] (\n source=@world\n destination=@b\n)","vars":[]}}`, `{"script":{"template":"nope"}}`, `{"postings":[]}`, `{"postings":null}`, `{"postings":[{"source":"world","destination":"bank","asset":"USD","amount":-1}]}`, `{"postings":[{"source":"a b","destination":"bank","asset":"USD","amount":1}]}`, `{"postings":[{}]}`, `{"postings":[null]}`,
			`{"postings":[{"source":"world","destination":"bank","asset":"USD","amount":1}],"script":{"plain":"send [USD 1] (\n source=@world\n destination=@b\n)"}}`, `{"postings":[{"source":"world","destination":"bank","asset":"USD","amount":1}],"timestamp":"junk"}`, `{"postings":[{"source":"world","destination":"bank","asset":"USD","amount":1}],"runtime":"zzz"}`} {
			out = append(out, "["+el(`"`+a+`"`, d)+"]")
		}
		out = append(out, `[{"action":"`+a+`"}]`, `[{"action":"`+a+`","data":`+tx+`,"ik":1}]`, `[{"action":"`+a+`","data":`+tx+`,"ik":null}]`, `[{"action":"`+a+`","data":`+tx+`,"ik":{}}]`)
	}
	many := func(n int) string {
		return "[" + strings.TrimSuffix(strings.Repeat(el(`"ADD_METADATA"`, `{"targetType":"ACCOUNT","targetId":"bank","metadata":{"a":"b"}}`)+",", n), ",") + "]"
	}
	out = append(out, `[]`, many(100), many(101), many(1000), `{"action":"CREATE_TRANSACTION","data":`+tx+`}`, `[[`+el(`"CREATE_TRANSACTION"`, tx)+`]]`, `[null]`, `[[]]`, `["x"]`, `[1]`, `[{}]`,
		"["+el(`"CREATE_TRANSACTION"`, `{"postings":[{"source":"world","destination":"bank","asset":"USD","amount":1}],"reference":"dupref"}`)+","+el(`"CREATE_TRANSACTION"`, `{"postings":[{"source":"world","destination":"bank","asset":"USD","amount":1}],"reference":"dupref"}`)+"]",
		`[{"action":"CREATE_TRANSACTION","ik":"same","data":`+tx+`},{"action":"CREATE_TRANSACTION","ik":"same","data":{"postings":[{"source":"world","destination":"bank","asset":"USD","amount":2}]}}]`,
		`[{"action":"CREATE_TRANSACTION","ik":"same2","data":`+tx+`},{"action":"ADD_METADATA","ik":"same2","data":{"targetType":"ACCOUNT","targetId":"bank","metadata":{"a":"b"}}}]`)
	return out
}

// c38BadImports: [class, desc, body].
func c38BadImports(lines []string) [][3]string {
	all := strings.Join(lines, "\n") + "\n"
	l0 := lines[0]
	var out [][3]string
	add := func(class, desc, body string) { out = append(out, [3]string{class, desc, body}) }
	for _, b := range []string{"", " ", "\n", "null", "[]", "{}", `{"id":1}`, `{"type":"NEW_TRANSACTION"}`, `{"id":1,"type":"NEW_TRANSACTION"}`, `{"id":1,"type":"NEW_TRANSACTION","data":{}}`, `{"id":1,"type":"NEW_TRANSACTION","data":null}`, `{"id":1,"type":"NEW_TRANSACTION","data":{"transaction":null}}`,
		`{"id":1,"type":"NEW_TRANSACTION","data":{"transaction":{}}}`, `{"id":1,"type":"NEW_TRANSACTION","data":{"transaction":{"id":1}}}`, `{"id":1,"type":"NEW_TRANSACTION","data":{"transaction":{"postings":[{"source":"world","destination":"bank","asset":"USD","amount":1}]}}}`,
		`{"id":1,"type":"NEW_TRANSACTION","data":{"transaction":{"id":1,"postings":[{"source":"world","destination":"bank","asset":"USD","amount":1}]}}}`, `{"id":1,"type":"NEW_TRANSACTION","data":{"transaction":{"id":1,"postings":[{"source":"world","destination":"bank","asset":"USD","amount":-1}]}}}`,
		`{"id":1,"type":"NEW_TRANSACTION","data":{"transaction":{"id":1,"postings":[{"source":"a b","destination":"","asset":"usd","amount":1}]}}}`, `{"id":1,"type":"NEW_TRANSACTION","data":{"transaction":{"id":1,"postings":[]}}}`, `{"id":1,"type":"NEW_TRANSACTION","data":{"transaction":{"id":0,"postings":[{"source":"world","destination":"bank","asset":"USD","amount":1}]}}}`,
		`{"id":1,"type":"REVERTED_TRANSACTION","data":{}}`, `{"id":1,"type":"REVERTED_TRANSACTION","data":{"revertedTransaction":{"id":1},"transaction":{"id":2}}}`, `{"id":1,"type":"REVERTED_TRANSACTION","data":{"revertedTransaction":{"id":1,"revertedAt":"2030-01-01T00:00:00Z"},"transaction":{"id":2,"postings":[{"source":"bank","destination":"world","asset":"USD","amount":1}]}}}`,
		`{"id":1,"type":"SET_METADATA","data":{}}`, `{"id":1,"type":"SET_METADATA","data":{"targetType":"ACCOUNT","targetId":"bank","metadata":{"a":"b"}}}`, `{"id":1,"type":"SET_METADATA","data":{"targetType":"TRANSACTION","targetId":1,"metadata":{"a":"b"}}}`, `{"id":1,"type":"SET_METADATA","data":{"targetType":"TRANSACTION","targetId":"x","metadata":{"a":"b"}}}`,
		`{"id":1,"type":"SET_METADATA","data":{"targetType":"UNKNOWN","targetId":"x","metadata":{"a":"b"}}}`, `{"id":1,"type":"SET_METADATA","data":{"targetType":"ACCOUNT","targetId":1,"metadata":{"a":"b"}}}`, `{"id":1,"type":"DELETE_METADATA","data":{}}`, `{"id":1,"type":"DELETE_METADATA","data":{"targetType":"ACCOUNT","targetId":"bank","key":"a"}}`,
		`{"id":1,"type":"DELETE_METADATA","data":{"targetType":"TRANSACTION","targetId":1,"key":"a"}}`, `{"id":1,"type":"DELETE_METADATA","data":{"targetType":"TRANSACTION","targetId":"x","key":"a"}}`, `{"id":1,"type":"INSERTED_SCHEMA","data":{}}`, `{"id":1,"type":"INSERTED_SCHEMA","data":{"schema":{"version":"v1"}}}`, `{"id":1,"type":"INSERTED_SCHEMA","data":{"schema":{"version":"v1","chart":{"$x":{}}}}}`,
		`{"id":1,"type":"NEW_TRANSACTION","schemaVersion":"nope","data":{"transaction":{"id":1,"postings":[{"source":"world","destination":"bank","asset":"USD","amount":1}]}}}`} {
		add("import_stream", "body = "+c38Trunc(b, 70), b)
	}
	for _, t := range []string{`"UNKNOWN"`, `""`, `null`, `1`, `"new_transaction"`, `"NEW_TRANSACTION "`, `[]`, `{}`, `"SET_METADATA"`, `"REVERTED_TRANSACTION"`, `"DELETE_METADATA"`, `"INSERTED_SCHEMA"`, `"CREATED_TRANSACTION"`} {
		if root, ok := c38Parse([]byte(l0)); ok {
			root.set("type", c38Raw(t))
			add("import_log_type", "first log type = "+t, root.String()+"\n"+strings.Join(lines[1:], "\n")+"\n")
		}
	}
	for _, id := range []string{`0`, `-1`, `"1"`, `1.5`, `null`, `2`, `18446744073709551615`, `18446744073709551616`, `1e3`, `true`, `[1]`, `{}`} {
		if root, ok := c38Parse([]byte(l0)); ok {
			root.set("id", c38Raw(id))
			add("import_log_id", "first log id = "+id, root.String()+"\n"+strings.Join(lines[1:], "\n")+"\n")
			add("import_log_id", "single log, id = "+id, root.String()+"\n")
		}
	}
	if root, ok := c38Parse([]byte(l0)); ok {
		r2 := c38Delete(root, c38Site{parent: []int{c38indexOf(root, "id")}})
		add("import_log_id", "first log without id", r2.String()+"\n"+strings.Join(lines[1:], "\n")+"\n")
		add("import_log_id", "single log without id", r2.String()+"\n")
		r3 := c38Delete(root, c38Site{parent: []int{c38indexOf(root, "data")}})
		add("import_stream", "first log without data", r3.String()+"\n"+strings.Join(lines[1:], "\n")+"\n")
		r4 := c38Delete(root, c38Site{parent: []int{c38indexOf(root, "type")}})
		add("import_stream", "first log without type", r4.String()+"\n"+strings.Join(lines[1:], "\n")+"\n")
	}
	if len(lines) > 2 {
		add("import_log_id", "first log twice", l0+"\n"+all)
		add("import_log_id", "last log twice", all+lines[len(lines)-1]+"\n")
		rev := append([]string(nil), lines...)
		for i, j := 0, len(rev)-1; i < j; i, j = i+1, j-1 {
			rev[i], rev[j] = rev[j], rev[i]
		}
		add("import_log_id", "reversed order", strings.Join(rev, "\n")+"\n")
		add("import_log_id", "second log skipped (id gap)", l0+"\n"+strings.Join(lines[2:], "\n")+"\n")
		add("import_log_id", "first log skipped", strings.Join(lines[1:], "\n")+"\n")
		add("import_stream", "garbage line in the middle", l0+"\ngarbage\n"+strings.Join(lines[1:], "\n")+"\n")
		add("import_stream", "empty object in the middle", l0+"\n{}\n"+strings.Join(lines[1:], "\n")+"\n")
		add("import_stream", "null in the middle", l0+"\nnull\n"+strings.Join(lines[1:], "\n")+"\n")
		add("import_stream", "cut mid-line (second log)", l0+"\n"+lines[1][:len(lines[1])/2])
		add("import_stream", "cut mid-line (last log)", all[:len(all)-len(lines[len(lines)-1])/2])
		add("import_stream", "JSON array of logs", "["+strings.Join(lines, ",")+"]")
		add("import_stream", "logs concatenated without separator", strings.Join(lines, ""))
		add("import_stream", "CRLF separators", strings.Join(lines, "\r\n")+"\r\n")
		add("import_stream", "hash of the first log tampered", strings.Replace(all, `"hash":"`, `"hash":"AAAA`, 1))
		add("import_stream", "date of the first log = junk", strings.Replace(all, `"date":"2030`, `"date":"junk`, 1))
		add("import_stream", "trailing garbage", all+"garbage")
		add("import_stream", "the export twice", all+all)
	}
	return out
}

// ---------------------------------------------------------------------------
// random mutants

func c38RandString(rng *rand.Rand) string {
	switch rng.Intn(8) {
	case 0:
		n := rng.Intn(40)
		b := make([]byte, n)
		for i := range b {
			b[i] = byte(rng.Intn(256))
		}
		return string(b)
	case 1:
		return c38BadDates[rng.Intn(len(c38BadDates))]
	case 2:
		return c38BadAddresses[rng.Intn(len(c38BadAddresses))]
	case 3:
		return c38BadAssets[rng.Intn(len(c38BadAssets))]
	case 4:
		return c38BadUints[rng.Intn(len(c38BadUints))]
	case 5:
		return c38BadSorts[rng.Intn(len(c38BadSorts))]
	}
	bs := c38BoundaryStrings()
	return bs[rng.Intn(len(bs))]
}

func c38RandNode(rng *rand.Rand, x *c38N, depth int) *c38N {
	switch rng.Intn(9) {
	case 0:
		cs := c38Confusions(x, false)
		return cs[rng.Intn(len(cs))]
	case 1:
		return c38RawStr(c38RandString(rng))
	case 2:
		return c38Raw(c38BadAmounts[rng.Intn(len(c38BadAmounts))])
	case 3:
		return c38Raw(c38VarValues[rng.Intn(len(c38VarValues))])
	case 4:
		return c38Raw(c38FilterValues[rng.Intn(len(c38FilterValues))])
	case 5:
		if depth < 3 {
			return c38Arr(c38RandNode(rng, x, depth+1), c38RandNode(rng, x, depth+1))
		}
	case 6:
		if depth < 3 {
			return c38Obj(c38RandString(rng), c38RandNode(rng, x, depth+1))
		}
	case 7:
		return c38Raw(fmt.Sprint(rng.Int63() - rng.Int63()))
	}
	return c38Raw("null")
}

func c38RandMutant(rng *rand.Rand, rt *c38Route, valid c38Req, st *c38State) c38Mut {
	m := c38RandMutant0(rng, rt, valid, st)
	if rt.Body == "filter" && c38Channel(m.Class) == "body" {
		m.Class = "filter_" + m.Class // the body of these routes IS the filter
	}
	return m
}

func c38RandMutant0(rng *rand.Rand, rt *c38Route, valid c38Req, st *c38State) c38Mut {
	hasBody := !valid.NoBody && valid.Body != nil
	for tries := 0; tries < 20; tries++ {
		switch rng.Intn(12) {
		case 0, 1, 2: // random node replacement in a JSON body
			if !hasBody {
				continue
			}
			body := valid.Body
			if rt.Body == "import" || valid.header("Content-Type") == c38CTJSONStream {
				lines := strings.Split(strings.TrimSpace(string(body)), "\n")
				li := rng.Intn(len(lines))
				root, ok := c38Parse([]byte(lines[li]))
				if !ok {
					continue
				}
				sites := c38Sites(root, 0)
				s := sites[rng.Intn(len(sites))]
				_, _, n := c38At(root, s)
				lines[li] = c38Replace(root, s, c38RandNode(rng, n, 0)).String()
				return c38Mut{"random_node", fmt.Sprintf("line %d: %s replaced", li, s.Path), valid.withBody([]byte(strings.Join(lines, "\n") + "\n"))}
			}
			root, ok := c38Parse(body)
			if !ok {
				continue
			}
			sites := c38Sites(root, 0)
			s := sites[rng.Intn(len(sites))]
			_, _, n := c38At(root, s)
			rep := c38RandNode(rng, n, 0)
			return c38Mut{"random_node", fmt.Sprintf("%s: %s -> %s", s.Path, n.kindName(), c38Trunc(rep.String(), 50)), valid.withBody(c38Replace(root, s, rep).Bytes())}
		case 3: // byte-level mutation of the body
			if !hasBody || len(valid.Body) == 0 {
				continue
			}
			b := append([]byte(nil), valid.Body...)
			n := 1 + rng.Intn(3)
			for i := 0; i < n; i++ {
				p := rng.Intn(len(b))
				switch rng.Intn(4) {
				case 0:
					b[p] = byte(rng.Intn(256))
				case 1:
					b = append(b[:p:p], b[p+1:]...)
					if len(b) == 0 {
						b = []byte{' '}
					}
				case 2:
					b = append(b[:p:p], append([]byte{`{}[]":,0-e.`[rng.Intn(11)]}, b[p:]...)...)
				default:
					b = b[:p+1]
				}
			}
			return c38Mut{"random_bytes", fmt.Sprintf("%d random byte edits", n), valid.withBody(b)}
		case 4, 5: // random query parameter
			name := c38AllParamNames[rng.Intn(len(c38AllParamNames))]
			if len(rt.Params) > 0 && rng.Intn(3) > 0 {
				name = rt.Params[rng.Intn(len(rt.Params))].Name
			}
			var v string
			switch name {
			case "cursor":
				v = c38RandCursor(rng, st)
			case "query":
				v = c38RandFilter(rng, 3)
			default:
				v = c38RandString(rng)
			}
			cls := "random_param"
			switch name {
			case "cursor":
				cls = "random_cursor"
			case "query":
				cls = "random_filter"
			}
			return c38Mut{cls, fmt.Sprintf("%s=%q", name, c38Trunc(v, 40)), valid.setQuery(name, v)}
		case 6: // random filter
			if rt.Body != "filter" {
				continue
			}
			inQ, _ := c38FilterPlace(valid)
			f := c38RandFilter(rng, 4)
			return c38Mut{"random_filter", c38Trunc(f, 80), c38SetFilter(valid, inQ, f)}
		case 7: // random cursor
			has := false
			for _, p := range rt.Params {
				has = has || p.Kind == "cursor"
			}
			if !has {
				continue
			}
			c := c38RandCursor(rng, st)
			return c38Mut{"random_cursor", c38Trunc(c, 60), valid.setQuery("cursor", c)}
		case 8: // random path parameter
			var ps []string
			for _, s := range valid.Segs {
				if s.Param != "" {
					ps = append(ps, s.Param)
				}
			}
			if len(ps) == 0 {
				continue
			}
			p := ps[rng.Intn(len(ps))]
			v := c38RandString(rng)
			if v == "" {
				continue
			}
			return c38Mut{"random_path", fmt.Sprintf("{%s}=%q", p, c38Trunc(v, 30)), valid.setParam(p, v)}
		case 9: // random header
			h := []string{"Idempotency-Key", "Content-Type", "Accept", "Origin"}[rng.Intn(4)]
			v := c38RandString(rng)
			return c38Mut{"random_header", fmt.Sprintf("%s: %q", h, c38Trunc(v, 30)), valid.setHeader(h, v)}
		case 10: // truncation at a random point
			if !hasBody || len(valid.Body) < 2 {
				continue
			}
			p := 1 + rng.Intn(len(valid.Body)-1)
			return c38Mut{"truncated_body", fmt.Sprintf("cut at byte %d of %d", p, len(valid.Body)), valid.withBody(append([]byte(nil), valid.Body[:p]...))}
		default: // a body where none is expected / swapped body of another kind
			b := []string{`{"$match":{"address":"x"}}`, `[]`, `{"postings":[]}`, c38RandFilter(rng, 2), c38RandString(rng)}[rng.Intn(5)]
			return c38Mut{"random_body", fmt.Sprintf("body = %q", c38Trunc(b, 40)), valid.withBody([]byte(b))}
		}
	}
	return c38Mut{"unknown_param", "zzz=1", valid.setQuery("zzz", "1")}
}

// c38RandCursor: a valid cursor of a random resource with 1-3 random field edits, re-encoded.
func c38RandCursor(rng *rand.Rand, st *c38State) string {
	keys := c38Keys(st.cursors)
	if len(keys) == 0 || rng.Intn(10) == 0 {
		return c38EncodeCursor(c38RandString(rng))
	}
	c := st.cursors[keys[rng.Intn(len(keys))]]
	raw, err := base64.RawURLEncoding.DecodeString(c)
	if err != nil {
		return c
	}
	root, ok := c38Parse(raw)
	if !ok {
		return c
	}
	for i, n := 0, 1+rng.Intn(3); i < n; i++ {
		sites := c38Sites(root, 0)
		s := sites[rng.Intn(len(sites))]
		_, _, node := c38At(root, s)
		if len(s.parent) == 0 {
			continue
		}
		root = c38Replace(root, s, c38RandNode(rng, node, 1))
	}
	return c38EncodeCursor(root.String())
}
