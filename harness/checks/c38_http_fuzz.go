package checks

// C38 — Malformed client input yields a client error and no effect.
//
// Every route of the v2 router (exporters/pipelines are not mounted) and of the
// v1 router gets VALID requests (generated from the handlers' request structs,
// over a ledger seeded through the API itself) and grammar-aware MUTATIONS of
// them (c38_mutate.go). Each request is served in-process by the real
// api.NewRouter over the real system controller over memstore.
//
// Oracle, per request: (1) status < 500, (2) not a recovered panic (500 with an
// empty body), (3) a non-empty body with a JSON content type parses as JSON
// (export streams: every line), (4) after a 4xx the digest of the ledgers'
// committed state is unchanged, (5) a create-transaction request whose single
// mutation is a certainly-invalid posting value (negative amount, address or
// asset outside the documented pattern: c38MustReject) is not answered 2xx.
// No fault is injected, so a 5xx is attributed to
// the client input. 500s whose logged error / panic comes from the harness
// (memstore / microsql / pgshim) are counted as `harness_gap`, not violations
// (c38IsHarnessGap).
//
// Process discipline: handlers start goroutines (bulk streams, import) whose
// panics kill the process, so the cases are executed in CHILD processes (this
// binary re-executed with C38_CHILD set), one request in flight per child, each
// request written to <verif>/.build/c38-inflight/<batch>.json BEFORE it is
// sent. A child that dies is a finding (`...:crash:<site>`), attributed to the
// request on disk and re-tried in isolation; the rest of the batch continues in
// a new child. A request that does not return within 60 s of wall clock is counted as an inconclusive request (more than 3 quick / 30 thorough of them make
// the run inconclusive); never a violation.

import (
	"bufio"
	"bytes"
	"context"
	"crypto/sha256"
	"encoding/base64"
	"encoding/binary"
	"encoding/json"
	"fmt"
	"io"
	"math/rand"
	"net/http"
	"net/http/httptest"
	"net/url"
	"os"
	"os/exec"
	"path/filepath"
	"regexp"
	"runtime"
	"runtime/debug"
	"sort"
	"strconv"
	"strings"
	"sync"
	"sync/atomic"
	"syscall"
	"time"
	"unicode/utf8"

	"github.com/go-chi/chi/v5"

	"github.com/formancehq/go-libs/v5/pkg/authn/jwt"
	logging "github.com/formancehq/go-libs/v5/pkg/observe/log"

	"github.com/formancehq/ledger/internal/api/bulking"
	apiv1 "github.com/formancehq/ledger/internal/api/v1"
	apiv2 "github.com/formancehq/ledger/internal/api/v2"

	"github.com/formancehq/ledger/verifharness/core"
	"github.com/formancehq/ledger/verifharness/sim"
)

const (
	c38WatchdogSeconds = 60
	c38RandPerCase     = 24
	c38MinimizeBudget  = 60
)

func init() {
	core.Register(&core.Check{
		ID: "C38", Level: "exploration",
		Rule: "one evaluation = one HTTP request served by the real router (api.NewRouter: v2 under /v2, v1 at the root) over the real system controller over memstore. " +
			"For every route of internal/api/v2/routes.go (exporters/pipelines not mounted) and internal/api/v1/routes.go: structurally different VALID requests (path params, query string, JSON body, Idempotency-Key, the three bulk content types) on a ledger seeded through the API (schema with chart/templates/query templates, postings/script/template transactions, metadata, a revert, random sim.GenOp operations), then single grammar-aware mutations of the valid request. " +
			"Loop `sys` enumerates them exhaustively per (route, variant): type confusion of every JSON node (null/bool/number/float/1e400/2^64/string/array/object, nested), missing / duplicated / case-variant / unknown / renamed fields, boundary strings (sim.StrPool, 70 kB, invalid UTF-8, NUL, control chars), invalid addresses / assets / amounts / dates / ids / scripts, script variables of every JSON shape, invalid and tampered cursors (truncated, flipped, decoded and re-encoded with every field changed, other resources' cursors, cursor in a run-query body), filters (every operator x every field of every resource, every operand type, structural junk, deep nesting) in the body and in `query`, every typed query parameter with out-of-domain values, unknown/duplicated parameters, path parameters, content types, Idempotency-Key values, bodies cut mid-token / empty / junk / huge / deeply nested, bulk payloads (unknown actions, wrong data shapes, sizes, stream framing), import streams (malformed lines, unknown types, ids, per-type payload mutations), schema documents (invalid charts, templates, query templates). Loop `rand` draws random single mutations with random values. " +
			"Distinct = (route pattern, mutation class); non-trivial = the mutated request reached the handler (not a 404/405 produced by the router itself) and differs from the valid one.",
		Assumptions: []string{
			"memstore/microsql/pgshim are trusted: a 500 whose logged error or panic value/site comes from them is counted as harness_gap, not as a violation",
			"errors only Postgres would raise on a value the Go layer lets through (e.g. NUL bytes, numeric overflow in SQL) are not observable here",
			"requests are served in-process (httptest): net/http's own request parsing (malformed request line, invalid percent-encoding, header syntax) is not exercised; the request context is cancelled when the handler returns, as net/http does - except for POST /logs/import, whose import goroutine can outlive the handler: memstore cannot serve a store call made after that cancellation (it panics holding its mutex), so that route keeps its context",
			"the v2 ledger listing is served by memstore without the real paginator: cursor tampering on GET /v2/ only exercises cursor decoding",
			"a 4xx of a NON-atomic bulk whose response reports at least one successful element is the documented per-element commit (a bulk is a container of independent requests): counted, and only a change WITHOUT any successful element is a violation; exact per-element accounting is C32's oracle. A 4xx of an import after some logs were committed is reported under a dedicated `state-changed-import-partial-commit` signature (recorded known finding)",
		},
		Run: runC38,
	})
}

// ---------------------------------------------------------------------------
// aggregation (child -> parent)

type c38Viol struct {
	Sig    string `json:"sig"`
	Loop   string `json:"loop"`
	Case   int    `json:"case"`
	Detail any    `json:"detail"`
}

type c38Agg struct {
	Counts       map[string]int64          `json:"counts"`
	Sets         map[string]map[string]int `json:"sets"`
	Evals        map[string][2]int64       `json:"evals"` // sig -> [trivial, nontrivial]
	Violations   []c38Viol                 `json:"violations"`
	Inconclusive []string                  `json:"inconclusive"`
	Samples      []any                     `json:"samples"`
}

func c38NewAgg() *c38Agg {
	return &c38Agg{Counts: map[string]int64{}, Sets: map[string]map[string]int{}, Evals: map[string][2]int64{}}
}

func (a *c38Agg) count(k string, n int64) { a.Counts[k] += n }
func (a *c38Agg) seen(set, m string) {
	s := a.Sets[set]
	if s == nil {
		s = map[string]int{}
		a.Sets[set] = s
	}
	s[m]++
}
func (a *c38Agg) eval(sig string, nt bool) {
	e := a.Evals[sig]
	if nt {
		e[1]++
	} else {
		e[0]++
	}
	a.Evals[sig] = e
}

var c38MergeMu sync.Mutex
var c38SamplesGiven int
var c38CrashConfirmed = map[string]bool{}

func c38Merge(r *core.Run, a *c38Agg) {
	c38MergeMu.Lock()
	defer c38MergeMu.Unlock()
	for k, v := range a.Counts {
		r.Count(k, v)
	}
	for set, ms := range a.Sets {
		for m := range ms {
			r.Seen(set, m)
		}
	}
	for sig, e := range a.Evals {
		for i := int64(0); i < e[0]; i++ {
			r.Eval(sig, false)
		}
		for i := int64(0); i < e[1]; i++ {
			r.Eval(sig, true)
		}
	}
	for _, s := range a.Inconclusive {
		if strings.HasPrefix(s, "watchdog: ") {
			// one request abandoned by the wall-clock watchdog is an inconclusive CASE (counted, listed); the
			// run only becomes inconclusive beyond a handful (a loaded machine stretches the slowest inputs,
			// e.g. 5 KiB of garbage in a script, past any fixed deadline)
			r.Seen("inconclusive_requests_abandoned_by_the_watchdog", c38Trunc(s, 220))
			if n := atomic.AddInt64(&c38Abandoned, 1); n <= int64(r.N(3, 30)) {
				continue
			}
		}
		r.Inconclusive(s)
	}
	for _, s := range a.Samples {
		if c38SamplesGiven < 6 {
			r.Sample(s)
			c38SamplesGiven++
		}
	}
	for _, v := range a.Violations {
		(&core.Case{R: r, Loop: v.Loop, Index: v.Case}).Violation(v.Sig, v.Detail)
	}
}

// ---------------------------------------------------------------------------
// plan

type c38SysCase struct {
	Route   int
	Variant int
	Shard   int // this case executes the mutants whose index % Shards == Shard
	Shards  int
}

func c38SysPlan(routes []*c38Route) []c38SysCase {
	var out []c38SysCase
	for i, rt := range routes {
		for v := 0; v < rt.Variants; v++ {
			n := rt.Shards
			if n < 1 {
				n = 1
			}
			for sh := 0; sh < n; sh++ {
				out = append(out, c38SysCase{i, v, sh, n})
			}
		}
	}
	return out
}

func c38RandCases(r *core.Run) int { return r.N(110, 3_000) }

func c38Rng(seed int64, loop string, idx int) *rand.Rand {
	h := sha256.New()
	var b [8]byte
	binary.LittleEndian.PutUint64(b[:], uint64(seed))
	h.Write(b[:])
	h.Write([]byte("C38|" + loop + "|"))
	binary.LittleEndian.PutUint64(b[:], uint64(idx))
	h.Write(b[:])
	s := h.Sum(nil)
	return rand.New(rand.NewSource(int64(binary.LittleEndian.Uint64(s[:8]) & 0x7fffffffffffffff)))
}

// ---------------------------------------------------------------------------
// entry point

func runC38(r *core.Run) {
	c38Thorough = !r.Quick()
	routes := c38Routes()
	sys := c38SysPlan(routes)
	nRand := c38RandCases(r)

	if spec := os.Getenv("C38_CHILD"); spec != "" {
		c38ChildMain(r, spec, routes, sys)
		return
	}

	r.Floor("distinct_nontrivial", 600)
	r.Floor("routes", int64(len(routes)))
	r.Floor("mutation_classes", 30)
	r.Floor("requests", int64(r.N(15_000, 300_000)))
	r.Floor("valid_baseline_ok", int64(len(sys)*2/3))
	r.Extra("routes_total", len(routes))
	r.Extra("sys_cases", len(sys))
	r.Extra("rand_cases", nRand)

	dir := filepath.Join(r.VerifDir, ".build", "c38-inflight")
	if r.Only >= 0 {
		// replay: one case, in this process (a crash is then visible directly)
		_ = os.MkdirAll(dir, 0o755)
		inflight := filepath.Join(dir, "replay.json")
		for _, loop := range []string{"sys", "rand"} {
			n := len(sys)
			if loop == "rand" {
				n = nRand
			}
			r.ForEach(loop, n, 1, func(c *core.Case) {
				agg := c38RunCase(r.Seed, loop, c.Index, routes, sys, inflight, -1, 0, nil)
				if os.Getenv("C38_DUMP") != "" {
					b, _ := json.MarshalIndent(map[string]any{"counts": agg.Counts, "sets": agg.Sets, "inconclusive": agg.Inconclusive}, "", " ")
					fmt.Println(string(b))
				}
				c38Merge(r, agg)
			})
		}
		return
	}
	_ = os.RemoveAll(dir)
	_ = os.MkdirAll(dir, 0o755)
	r.Extra("inflight_dir", dir)
	c38NestingProbe(r)

	// batches
	type batch struct {
		loop     string
		from, to int
	}
	var batches []batch
	for i := range sys {
		batches = append(batches, batch{"sys", i, i + 1})
	}
	per := 8
	if !r.Quick() {
		per = 12
	}
	for i := 0; i < nRand; i += per {
		j := i + per
		if j > nRand {
			j = nRand
		}
		batches = append(batches, batch{"rand", i, j})
	}
	// biggest first is not known; keep order (sys first: they are the long ones)
	workers := runtime.NumCPU()
	ch := make(chan int)
	var wg sync.WaitGroup
	for w := 0; w < workers; w++ {
		wg.Add(1)
		go func() {
			defer wg.Done()
			for bi := range ch {
				b := batches[bi]
				t0 := time.Now()
				c38RunBatchInChildren(r, bi, b.loop, b.from, b.to, dir)
				if d := time.Since(t0); d > 15*time.Second {
					name := fmt.Sprintf("%s[%d,%d)", b.loop, b.from, b.to)
					if b.loop == "sys" {
						name += " " + routes[sys[b.from].Route].Name + fmt.Sprintf(" v%d shard %d/%d", sys[b.from].Variant, sys[b.from].Shard, sys[b.from].Shards)
					}
					r.Seen("slow_batches", fmt.Sprintf("%s %.0fs", name, d.Seconds()))
				}
			}
		}()
	}
	only := os.Getenv("C38_BATCHES") // debugging aid: comma separated batch indexes
	for i := range batches {
		if only != "" && !strings.Contains(","+only+",", fmt.Sprintf(",%d,", i)) {
			continue
		}
		ch <- i
	}
	close(ch)
	wg.Wait()
	// normal completion: nothing is in flight any more
	if entries, err := os.ReadDir(dir); err == nil {
		for _, e := range entries {
			if !strings.HasPrefix(e.Name(), "CRASH-") && !strings.HasPrefix(e.Name(), "HUNG-") {
				_ = os.Remove(filepath.Join(dir, e.Name()))
			}
		}
	}
}

// c38NestingProbe records (evidence only, no verdict) how long GET /v2/l1/logs
// takes with a filter of N nested `$not`: found while building the check, a
// 9000-level filter (80 kB, below encoding/json's depth limit) keeps a handler
// busy for 5-8 s of CPU and is answered 200.
func c38NestingProbe(r *core.Run) {
	env := sim.NewEnv(sim.Options{})
	defer func() { go env.Close() }()
	x := &c38Exec{env: env, agg: c38NewAgg(), onlyReq: -1, reported: map[string]bool{}, st: &c38State{cursors: map[string]string{}}}
	x.raw(c38New("POST", "/v2/l1").raw(`{}`))
	x.raw(c38New("POST", "/v2/l1/transactions").raw(`{"postings":[{"source":"world","destination":"bank","asset":"USD","amount":1}]}`))
	out := map[string]any{}
	for _, n := range []int{500, 1000, 2000, 4000} {
		f := strings.Repeat(`{"$not":`, n) + `{"$match":{"id":1}}` + strings.Repeat(`}`, n)
		t0 := time.Now()
		resp := x.raw(c38New("GET", "/v2/l1/logs").raw(f))
		out[fmt.Sprintf("not_x%d", n)] = map[string]any{"bytes": len(f), "status": resp.Status, "seconds": time.Since(t0).Seconds(), "timed_out": resp.TimedOut}
		if resp.TimedOut {
			break
		}
	}
	r.Extra("filter_nesting_probe_wall_clock_no_verdict", out)
}

// ---------------------------------------------------------------------------
// parent side: children

type c38Inflight struct {
	Loop    string         `json:"loop"`
	Case    int            `json:"case"`
	Seq     int            `json:"seq"`
	Route   string         `json:"route"`
	Class   string         `json:"class"`
	Desc    string         `json:"desc"`
	Request map[string]any `json:"request"`
}

func c38RunBatchInChildren(r *core.Run, bi int, loop string, from, to int, dir string) {
	exe, err := os.Executable()
	if err != nil {
		r.Inconclusive("C38: cannot find own executable: " + err.Error())
		return
	}
	base := filepath.Join(dir, fmt.Sprintf("b%04d", bi))
	scratch := base + ".verif"
	_ = os.MkdirAll(scratch, 0o755)
	defer os.RemoveAll(scratch)
	next := from
	startSeq := 0
	restarts := 0
	for next < to {
		out := base + ".out"
		inflight := base + ".json"
		_ = os.Remove(out)
		_ = os.Remove(inflight)
		_ = os.Remove(inflight + ".prev")
		onlyReq := -1
		stderr, exit, timedOut := c38Spawn(exe, r, scratch, loop, next, to, out, inflight, onlyReq, startSeq)
		done := c38ReadOut(r, out)
		if exit == 0 && !timedOut {
			break
		}
		// crash (or kill): completed cases are merged; attribute to the request on disk
		r.Count("child_crashes", 1)
		var inf, prev c38Inflight
		b, _ := os.ReadFile(inflight)
		pb, _ := os.ReadFile(inflight + ".prev")
		hist, _ := os.ReadFile(inflight + ".history")
		_ = json.Unmarshal(pb, &prev)
		if json.Unmarshal(b, &inf) != nil || inf.Route == "" {
			inf, b, prev = prev, pb, c38Inflight{}
		}
		if inf.Route == "" {
			r.Inconclusive(fmt.Sprintf("C38: child for %s[%d,%d) ended with status %d (timeout=%v) without an in-flight request on disk; stderr tail: %s", loop, next, to, exit, timedOut, c38Tail(stderr, 1500)))
			next = c38NextAfter(done, next)
			startSeq = 0
			restarts++
			if restarts > 50 {
				break
			}
			continue
		}
		resumeAt := inf.Seq + 1
		crashName := filepath.Join(dir, fmt.Sprintf("CRASH-%s-%d-%d.json", loop, inf.Case, inf.Seq))
		_ = os.WriteFile(crashName, b, 0o644)
		if timedOut {
			r.Inconclusive(fmt.Sprintf("C38: child for %s[%d,%d) killed by the batch watchdog while serving %s %s (%s: %s); request kept in %s", loop, next, to, inf.Route, inf.Class, inf.Desc, c38Tail(string(b), 600), crashName))
		} else {
			msg, site := c38CrashSite(stderr)
			// Attribute and confirm in isolation (first crash of each signature): a fresh child replays the case's
			// seeding and only one request. The process can die a little after the culprit's response (the panic is
			// in a goroutine the handler started), i.e. while the NEXT request is on disk: try the previous one too.
			var reproduced any = "not attempted (signature already confirmed)"
			sigKey := inf.Route + "|" + c38Channel(inf.Class) + "|" + site
			c38MergeMu.Lock()
			first := !c38CrashConfirmed[sigKey]
			c38MergeMu.Unlock()
			if first {
				reproduced = false
				for ci, cand := range []c38Inflight{inf, prev} {
					if cand.Route == "" || cand.Case != inf.Case {
						continue
					}
					stderr2, exit2, _ := c38Spawn(exe, r, scratch, loop, cand.Case, cand.Case+1, base+".out2", base+".json2", cand.Seq, 0)
					_, site2 := c38CrashSite(stderr2)
					if exit2 != 0 && site2 == site {
						reproduced = true
						if ci == 1 {
							inf = cand // the previous request is the culprit; the on-disk one is simply re-run
							resumeAt = cand.Seq + 1
						}
						break
					}
				}
				for _, suffix := range []string{".out2", ".json2", ".json2.history", ".json2.prev"} {
					_ = os.Remove(base + suffix)
				}
				if reproduced == true {
					c38MergeMu.Lock()
					c38CrashConfirmed[inf.Route+"|"+c38Channel(inf.Class)+"|"+site] = true
					c38MergeMu.Unlock()
				}
			}
			var histAny any
			_ = json.Unmarshal(hist, &histAny)
			if c38IsHarnessGap(msg + " " + site) {
				r.Count("harness_gap", 1)
				r.Seen("harness_gaps", c38Normalize(inf.Route+" crash "+site+" "+msg, 160))
			} else {
				sig := fmt.Sprintf("C38/%s:%s:crash:%s", inf.Route, c38Channel(inf.Class), site)
				(&core.Case{R: r, Loop: loop, Index: inf.Case}).Violation(sig, map[string]any{
					"what":                    "the server PROCESS died (panic outside the request goroutine / fatal error) while or shortly after serving this request",
					"route":                   inf.Route,
					"mutation_class":          inf.Class,
					"mutation":                inf.Desc,
					"request":                 inf.Request,
					"request_seq_in_case":     inf.Seq,
					"panic":                   msg,
					"panic_site":              site,
					"reproduced_in_isolation": reproduced,
					"child_exit_status":       exit,
					"stderr_tail":             c38Tail(stderr, 6000),
					"seeding_history":         histAny,
				})
				r.Count("crash_violations", 1)
				r.Seen("crash_sites", site)
			}
		}
		// continue the same case after the crashed request (the case is re-seeded)
		if inf.Case >= next {
			next = inf.Case
			startSeq = resumeAt
		} else {
			next++
			startSeq = 0
		}
		restarts++
		if restarts > 400 {
			r.Inconclusive(fmt.Sprintf("C38: batch %s[%d,%d): more than 400 child restarts, giving up at case %d", loop, from, to, next))
			break
		}
	}
	for _, suffix := range []string{".out", ".json", ".json.history", ".json.prev", ".json.tmp"} {
		_ = os.Remove(base + suffix)
	}
}

func c38NextAfter(done []int, next int) int {
	m := next
	for _, d := range done {
		if d+1 > m {
			m = d + 1
		}
	}
	if m == next {
		m++
	}
	return m
}

var c38Abandoned int64

func c38Spawn(exe string, r *core.Run, scratch, loop string, from, to int, out, inflight string, onlyReq, startSeq int) (stderr string, exit int, timedOut bool) {
	ctx, cancel := context.WithTimeout(context.Background(), 8*time.Minute)
	defer cancel()
	// Pdeathsig is delivered when the forking THREAD exits: pin this goroutine to its thread for the child's lifetime
	runtime.LockOSThread()
	defer runtime.UnlockOSThread()
	cmd := exec.CommandContext(ctx, exe, "--tier", r.Tier, "--seed", strconv.FormatInt(r.Seed, 10), "--verif", scratch, "C38")
	cmd.Env = append(os.Environ(),
		fmt.Sprintf("C38_CHILD=%s:%d:%d:%d:%d", loop, from, to, onlyReq, startSeq),
		"C38_OUT="+out, "C38_INFLIGHT="+inflight, "GOTRACEBACK=all", "GOMAXPROCS=2", "GOGC=400")
	var eb c38TailBuf
	cmd.Stdout = io.Discard
	cmd.Stderr = &eb
	// a child must not outlive the check process (killed watchdog, interrupted run)
	cmd.SysProcAttr = &syscall.SysProcAttr{Pdeathsig: syscall.SIGKILL}
	err := cmd.Run()
	exit = 0
	if err != nil {
		exit = -1
		if ee, ok := err.(*exec.ExitError); ok {
			exit = ee.ExitCode()
			if exit == 0 {
				exit = -1
			}
		}
	}
	return eb.String(), exit, ctx.Err() != nil
}

// c38TailBuf keeps the head (panic message + first stack) and the tail of a stream.
type c38TailBuf struct {
	mu   sync.Mutex
	head []byte
	tail []byte
}

func (t *c38TailBuf) Write(p []byte) (int, error) {
	t.mu.Lock()
	defer t.mu.Unlock()
	if len(t.head) < 256<<10 {
		n := 256<<10 - len(t.head)
		if n > len(p) {
			n = len(p)
		}
		t.head = append(t.head, p[:n]...)
		if n < len(p) {
			t.tail = append(t.tail, p[n:]...)
		}
	} else {
		t.tail = append(t.tail, p...)
	}
	if len(t.tail) > 64<<10 {
		t.tail = t.tail[len(t.tail)-(64<<10):]
	}
	return len(p), nil
}

func (t *c38TailBuf) String() string {
	t.mu.Lock()
	defer t.mu.Unlock()
	return string(t.head) + string(t.tail)
}

func c38Tail(s string, n int) string {
	if len(s) <= n {
		return s
	}
	return "..." + s[len(s)-n:]
}

// c38CrashSite extracts the panic / fatal message and the first formance frame of a crash dump.
func c38CrashSite(stderr string) (msg, site string) {
	lines := strings.Split(stderr, "\n")
	start := -1
	for i, l := range lines {
		if strings.HasPrefix(l, "panic: ") || strings.HasPrefix(l, "fatal error: ") {
			start = i
			msg = l
			break
		}
	}
	if start < 0 {
		return c38Tail(strings.TrimSpace(stderr), 200), "unknown"
	}
	if len(msg) > 300 {
		msg = msg[:300]
	}
	for _, l := range lines[start+1:] {
		if strings.HasPrefix(l, "github.com/formancehq/") {
			return msg, c38FrameName(l)
		}
	}
	return msg, "unknown"
}

func c38FrameName(l string) string {
	if j := strings.LastIndex(l, "("); j > 0 {
		l = l[:j]
	}
	l = strings.TrimPrefix(l, "github.com/formancehq/")
	// strip generic instantiation noise
	l = regexp.MustCompile(`\[[^\]]*\]`).ReplaceAllString(l, "")
	return l
}

// c38ReadOut merges the per-case results a child has written; returns the completed case indexes.
func c38ReadOut(r *core.Run, out string) []int {
	b, err := os.ReadFile(out)
	if err != nil {
		return nil
	}
	var done []int
	dec := json.NewDecoder(bytes.NewReader(b))
	for {
		var rec struct {
			Case int     `json:"case"`
			Agg  *c38Agg `json:"agg"`
		}
		if err := dec.Decode(&rec); err != nil {
			break
		}
		if rec.Agg != nil {
			c38Merge(r, rec.Agg)
			done = append(done, rec.Case)
		}
	}
	return done
}

// ---------------------------------------------------------------------------
// child side

func c38ChildMain(r *core.Run, spec string, routes []*c38Route, sys []c38SysCase) {
	parts := strings.Split(spec, ":")
	if len(parts) != 5 {
		fmt.Fprintln(os.Stderr, "C38 child: bad spec", spec)
		os.Exit(3)
	}
	loop := parts[0]
	from, _ := strconv.Atoi(parts[1])
	to, _ := strconv.Atoi(parts[2])
	onlyReq, _ := strconv.Atoi(parts[3])
	startSeq, _ := strconv.Atoi(parts[4])
	out := os.Getenv("C38_OUT")
	inflight := os.Getenv("C38_INFLIGHT")
	f, err := os.OpenFile(out, os.O_CREATE|os.O_WRONLY|os.O_APPEND, 0o644)
	if err != nil {
		fmt.Fprintln(os.Stderr, "C38 child: cannot open out file:", err)
		os.Exit(3)
	}
	defer f.Close()
	for i := from; i < to; i++ {
		var w io.Writer = f
		if onlyReq >= 0 {
			w = io.Discard
		}
		c38RunCase(r.Seed, loop, i, routes, sys, inflight, onlyReq, startSeq, w)
		startSeq = 0
	}
}

// ---------------------------------------------------------------------------
// executing one case

type c38Exec struct {
	seed                int64
	loop                string
	idx                 int
	env                 *sim.Env
	st                  *c38State
	agg                 *c38Agg
	inflight            string
	seq                 int
	uniq                int
	onlyReq             int
	newLedg             string
	bare                http.Handler
	reported            map[string]bool
	aborted             bool
	wedged              bool
	importTargetChanged bool
	validBad            string // status:error-class of the current valid request when it is itself answered 5xx
	startSeq            int
	lastDig             string // digest after the previous request ("" = unknown)
	digCache            string
	digCommits          int64
	digLedger           string
	digOK               bool
	writes              int // requests since the last (re)seeding that moved the commit counter
	reseeds             int
	out                 io.Writer
	sinceFl             int
}

type c38Resp struct {
	Status      int
	Header      http.Header
	Body        []byte
	Logged      []string
	TimedOut    bool
	Wedged      bool
	Unbuildable string
}

type c38LogSink struct {
	mu   sync.Mutex
	errs []string
}

func (s *c38LogSink) add(m string) {
	s.mu.Lock()
	if len(s.errs) < 8 {
		if len(m) > 2000 {
			m = m[:2000]
		}
		s.errs = append(s.errs, m)
	}
	s.mu.Unlock()
}

type c38Logger struct{ sink *c38LogSink }

func (l c38Logger) Tracef(string, ...any)                      {}
func (l c38Logger) Debugf(string, ...any)                      {}
func (l c38Logger) Infof(string, ...any)                       {}
func (l c38Logger) Errorf(f string, a ...any)                  { l.sink.add(fmt.Sprintf(f, a...)) }
func (l c38Logger) Trace(...any)                               {}
func (l c38Logger) Debug(...any)                               {}
func (l c38Logger) Info(...any)                                {}
func (l c38Logger) Error(a ...any)                             { l.sink.add(fmt.Sprint(a...)) }
func (l c38Logger) WithFields(map[string]any) logging.Logger   { return l }
func (l c38Logger) WithField(string, any) logging.Logger       { return l }
func (l c38Logger) WithContext(context.Context) logging.Logger { return l }
func (l c38Logger) Writer() io.Writer                          { return io.Discard }
func (l c38Logger) Enabled(level logging.Level) bool           { return level >= logging.ErrorLevel }

var _ logging.Logger = c38Logger{}

func c38HasPlaceholder(q c38Req) bool {
	has := func(s string) bool { return strings.Contains(s, "@@") }
	need := has(string(q.Body))
	for _, s := range q.Segs {
		need = need || has(s.Val)
	}
	for _, kv := range q.Query {
		need = need || has(kv.V)
	}
	for _, kv := range q.Headers {
		need = need || has(kv.V)
	}
	return need
}

// skip keeps the placeholder counter in step for a request that is not executed.
func (x *c38Exec) skip(q c38Req) {
	if c38HasPlaceholder(q) {
		x.uniq++
	}
}

// c38Subst replaces the placeholders of a request (see c38Req).
func (x *c38Exec) subst(q c38Req) c38Req {
	has := func(s string) bool { return strings.Contains(s, "@@") }
	if !c38HasPlaceholder(q) {
		return q
	}
	x.uniq++
	u := fmt.Sprintf("%d", x.uniq)
	newTx, newLedger := "", ""
	rep := func(s string) string {
		if !has(s) {
			return s
		}
		s = strings.ReplaceAll(s, "@@U@@", u)
		if strings.Contains(s, "@@NEWTX@@") {
			if newTx == "" {
				newTx = x.freshTx()
			}
			s = strings.ReplaceAll(s, "@@NEWTX@@", newTx)
		}
		if strings.Contains(s, "@@NEWLEDGER@@") {
			if newLedger == "" {
				newLedger = "imp" + u
				x.raw(c38New("POST", "/v2", newLedger).raw(`{"bucket":"impb"}`))
				x.newLedg = newLedger
			}
			s = strings.ReplaceAll(s, "@@NEWLEDGER@@", newLedger)
		}
		return s
	}
	c := q.clone()
	for i := range c.Segs {
		c.Segs[i].Val = rep(c.Segs[i].Val)
	}
	for i := range c.Query {
		c.Query[i].V = rep(c.Query[i].V)
	}
	for i := range c.Headers {
		c.Headers[i].V = rep(c.Headers[i].V)
	}
	if c.Body != nil {
		c.Body = []byte(rep(string(c.Body)))
	}
	return c
}

// freshTx creates a transaction and returns its id.
func (x *c38Exec) freshTx() string {
	resp := x.raw(c38New("POST", "/v2/l1/transactions").raw(`{"postings":[{"source":"world","destination":"bank","asset":"USD","amount":2}]}`))
	var out struct {
		Data struct {
			ID uint64 `json:"id"`
		} `json:"data"`
	}
	if json.Unmarshal(resp.Body, &out) == nil && out.Data.ID > 0 {
		return fmt.Sprint(out.Data.ID)
	}
	return "1"
}

func c38ValidHeaderValue(v string) bool {
	for i := 0; i < len(v); i++ {
		c := v[i]
		if c == '\r' || c == '\n' || c == 0 {
			return false
		}
	}
	return true
}

// raw serves one request without oracle (seeding / helper requests).
func (x *c38Exec) raw(q c38Req) *c38Resp {
	target := q.target()
	if os.Getenv("C38_TRACE") != "" {
		fmt.Fprintf(os.Stderr, "TRACE seq=%d %s %s body=%s\n", x.seq, q.Method, c38Trunc(target, 100), c38Trunc(string(q.Body), 120))
	}
	if u, err := url.ParseRequestURI(target); err != nil || u == nil || strings.ContainsAny(target, " \x00\r\n\t") {
		return &c38Resp{Unbuildable: "target not a valid request URI"}
	}
	method := q.Method
	for _, c := range method {
		if !(c >= 'A' && c <= 'Z') {
			return &c38Resp{Unbuildable: "method"}
		}
	}
	var resp c38Resp
	done := make(chan struct{})
	go func() {
		defer close(done)
		defer func() {
			if p := recover(); p != nil {
				// httptest.NewRequest panics on unparsable input; http.ErrAbortHandler is re-panicked by the router
				resp = c38Resp{Unbuildable: fmt.Sprint("panic outside the handler chain: ", p)}
			}
		}()
		var rd io.Reader
		if !q.NoBody && q.Body != nil {
			rd = bytes.NewReader(q.Body)
		}
		sink := &c38LogSink{}
		ctx, cancel := context.WithCancel(logging.ContextWithLogger(context.Background(), c38Logger{sink}))
		if strings.HasSuffix(q.path(), "/logs/import") {
			// importLogs can return while its import goroutine is still inside a store call; memstore
			// panics with its mutex held when a store call follows the cancellation of its transaction's
			// context (harness limitation), so this one route keeps its context alive.
			_ = cancel
		} else {
			defer cancel()
		}
		req := httptest.NewRequest(method, target, rd).WithContext(ctx)
		for _, kv := range q.Headers {
			if kv.K == "" || !c38ValidHeaderValue(kv.V) {
				continue
			}
			req.Header.Set(kv.K, kv.V)
		}
		rec := httptest.NewRecorder()
		x.env.Router().ServeHTTP(rec, req)
		sink.mu.Lock()
		logged := append([]string(nil), sink.errs...)
		sink.mu.Unlock()
		resp = c38Resp{Status: rec.Code, Header: rec.Header(), Body: rec.Body.Bytes(), Logged: logged}
	}()
	timer := time.NewTimer(c38WatchdogSeconds * time.Second)
	defer timer.Stop()
	probe := time.NewTimer(3 * time.Second)
	defer probe.Stop()
	for {
		select {
		case <-done:
			return &resp
		case <-timer.C:
			return &c38Resp{TimedOut: true}
		case <-probe.C:
			// slow request: is the handler waiting for a wedged store (see guard)?
			ok := make(chan struct{})
			go func() { x.env.C.Stats(); close(ok) }()
			select {
			case <-ok:
			case <-done:
				return &resp
			case <-time.After(2 * time.Second):
				return &c38Resp{TimedOut: true, Wedged: true}
			}
		}
	}
}

func (x *c38Exec) bareRouter() http.Handler {
	if x.bare != nil {
		return x.bare
	}
	v2r := apiv2.NewRouter(x.env.Sys, jwt.NewNoAuth(), "verif",
		apiv2.WithBulkerFactory(bulking.NewDefaultBulkerFactory(bulking.WithParallelism(4))),
		apiv2.WithDefaultBulkHandlerFactories(100),
		apiv2.WithExporters(false),
	)
	v1r := apiv1.NewRouter(x.env.Sys, jwt.NewNoAuth(), "verif", false)
	mux := chi.NewRouter()
	mux.Handle("/v2*", http.StripPrefix("/v2", http.HandlerFunc(func(w http.ResponseWriter, r *http.Request) {
		chi.RouteContext(r.Context()).Reset()
		v2r.ServeHTTP(w, r)
	})))
	mux.Handle("/*", v1r)
	x.bare = mux
	return mux
}

// panicInfo replays a request that the recover middleware answered with an empty
// 500 against the same v1/v2 routers mounted WITHOUT that middleware.
func (x *c38Exec) panicInfo(q c38Req) (value, site, stack string) {
	if strings.HasSuffix(q.path(), "/logs/import") {
		// the first attempt may have imported some logs: replay into a fresh, empty ledger
		x.uniq++
		name := fmt.Sprintf("rp%d", x.uniq)
		x.raw(c38New("POST", "/v2", name).raw(`{"bucket":"impb"}`))
		q = q.setParam("ledger", name)
	}
	done := make(chan struct{})
	go func() {
		defer close(done)
		defer func() {
			if p := recover(); p != nil {
				value = fmt.Sprint(p)
				st := debug.Stack()
				stack = string(st)
				site = c38PanicSite(st)
			}
		}()
		var rd io.Reader
		if !q.NoBody && q.Body != nil {
			rd = bytes.NewReader(q.Body)
		}
		ctx, cancel := context.WithCancel(sim.Quiet(context.Background()))
		defer cancel()
		req := httptest.NewRequest(q.Method, q.target(), rd).WithContext(ctx)
		for _, kv := range q.Headers {
			if kv.K != "" && c38ValidHeaderValue(kv.V) {
				req.Header.Set(kv.K, kv.V)
			}
		}
		x.bareRouter().ServeHTTP(httptest.NewRecorder(), req)
	}()
	select {
	case <-done:
	case <-time.After(c38WatchdogSeconds * time.Second):
		return "", "site-unknown(replay did not reproduce)", ""
	}
	x.abortAll()
	if site == "" {
		site = "site-unknown(replay did not reproduce)"
	}
	if len(value) > 300 {
		value = value[:300]
	}
	if len(stack) > 5000 {
		stack = stack[:5000]
	}
	return
}

func c38PanicSite(stack []byte) string {
	lines := strings.Split(string(stack), "\n")
	seen := false
	for _, l := range lines {
		if strings.HasPrefix(l, "panic(") {
			seen = true
			continue
		}
		if seen && strings.HasPrefix(l, "github.com/formancehq/") {
			return c38FrameName(l)
		}
	}
	return "unknown"
}

var (
	c38ReDigits = regexp.MustCompile(`[0-9]+`)
	c38ReSpace  = regexp.MustCompile(`\s+`)
)

// c38Normalize makes an error text input-independent: everything between the
// first and the last quote character (values echoed by the error) becomes `_`,
// digits become `#`.
func c38Normalize(s string, n int) string {
	s = strings.ToValidUTF8(s, "?")
	if i := strings.IndexAny(s, "\"'`"); i >= 0 {
		j := strings.LastIndexAny(s, "\"'`")
		if j > i {
			s = s[:i] + "_" + s[j+1:]
		} else {
			s = s[:i] + "_"
		}
	}
	s = c38ReDigits.ReplaceAllString(s, "#")
	s = c38ReSpace.ReplaceAllString(s, " ")
	s = strings.TrimSpace(s)
	if len(s) > n {
		s = s[:n]
	}
	return s
}

// c38ErrClass: the outermost wrapping segment of a logged error, up to the first quoted value (input-independent, at most 60 chars);
// the full text is in the violation's detail.
func c38ErrClass(msg string) string {
	if i := strings.Index(msg, " | "); i >= 0 {
		msg = msg[:i]
	}
	if i := strings.Index(msg, ": "); i >= 0 {
		msg = msg[:i]
	}
	// values echoed by the error are quoted (and may be cut by the log capture): keep what precedes them
	if i := strings.IndexAny(msg, "\"'`"); i > 0 {
		msg = msg[:i]
	}
	return c38Normalize(msg, 60)
}

// c38Channel maps a (fine) mutation class to the coarse class used in
// signatures: WHERE the invalid input sits. Evidence keeps the fine classes.
func c38Channel(class string) string {
	switch {
	case class == "valid":
		return "valid"
	case strings.HasPrefix(class, "cursor_") || class == "random_cursor":
		return "cursor"
	case strings.HasPrefix(class, "filter_") || class == "random_filter":
		return "filter"
	case strings.HasSuffix(class, "_param") || class == "random_param":
		return "query"
	case strings.HasSuffix(class, "_path") || class == "random_path":
		return "path"
	case class == "content_type" || class == "content_encoding" || class == "idempotency_key" || class == "header" || class == "random_header":
		return "header"
	case class == "method":
		return "method"
	}
	return "body"
}

// c38IsHarnessGap: the error / panic comes from the in-memory store, not from /repo.
func c38IsHarnessGap(text string) bool {
	for _, m := range []string{"memstore:", "microsql:", "pgshim", "statement outside the modelled family", "ledger/verifharness/", `"mem"."snap_`, "storedPayload"} {
		if strings.Contains(text, m) {
			return true
		}
	}
	return false
}

// guard runs fn (which takes memstore's cluster mutex) with a 3 s limit: when
// the code under test calls the store after its request context was cancelled
// (importLogs returns while its import goroutine is still running), memstore
// panics with its mutex held and the mutex is never released. That is a
// harness limitation, counted as harness_gap; the case continues on a fresh,
// re-seeded env (x.wedged, see exec). Never a verdict.
func (x *c38Exec) guard(what string, fn func()) bool {
	if x.aborted || x.wedged {
		return false
	}
	done := make(chan struct{})
	go func() { defer close(done); fn() }()
	select {
	case <-done:
		return true
	case <-time.After(3 * time.Second):
		x.wedged = true
		x.agg.count("harness_gap", 1)
		x.agg.count("store_wedged", 1)
		x.agg.seen("harness_gaps", "memstore cluster mutex never released ("+what+" blocked 3 s): memstore panicked inside a store call made after the request context was cancelled - env replaced")
		if len(x.st.history) > 0 {
			h := x.st.history[len(x.st.history)-1]
			x.agg.seen("harness_gap_examples", c38Trunc(fmt.Sprintf("store wedged after: %s %s %s", h.Method, h.Target, h.Body), 600))
		}
		return false
	}
}

func (x *c38Exec) abortAll() { x.guard("AbortAll", func() { x.env.C.AbortAll() }) }

// digest: hash of the committed state of the case's ledgers. memstore only
// changes committed state at a commit, so the (expensive) snapshot is recomputed
// only when the cluster's commit counter moved.
func (x *c38Exec) digest() (d string) {
	if !x.guard("Snapshot", func() { d = x.digestUnguarded() }) {
		return "wedged"
	}
	return d
}

func (x *c38Exec) digestUnguarded() string {
	commits := x.env.C.Stats()["commits"]
	if x.digOK && commits == x.digCommits && x.digLedger == x.newLedg {
		return x.digCache
	}
	d := x.env.C.Snapshot("l1").Digest() + x.env.C.Snapshot("l2").Digest() + x.env.C.Snapshot("l3").Digest()
	if x.newLedg != "" {
		d += x.env.C.Snapshot(x.newLedg).Digest()
	}
	x.digCache, x.digCommits, x.digLedger, x.digOK = d, commits, x.newLedg, true
	return d
}

func c38BodyField(b []byte) (string, string) {
	if b == nil {
		return "body", ""
	}
	if len(b) > 64<<10 {
		h := sha256.Sum256(b)
		pre := b[:2048]
		if !utf8.Valid(pre) {
			return "body_truncated_base64", base64.StdEncoding.EncodeToString(pre) + fmt.Sprintf(" ...(%d bytes, sha256 %x; see `mutation` for how it is built)", len(b), h[:8])
		}
		return "body_truncated", string(pre) + fmt.Sprintf(" ...(%d bytes, sha256 %x; see `mutation` for how it is built)", len(b), h[:8])
	}
	if utf8.Valid(b) {
		return "body", string(b)
	}
	return "body_base64", base64.StdEncoding.EncodeToString(b)
}

func c38ReqJSON(q c38Req) map[string]any {
	hs := map[string]string{}
	for _, kv := range q.Headers {
		if utf8.ValidString(kv.V) {
			hs[kv.K] = kv.V
		} else {
			hs[kv.K+" (base64)"] = base64.StdEncoding.EncodeToString([]byte(kv.V))
		}
	}
	m := map[string]any{"method": q.Method, "path_and_query": q.target(), "headers": hs}
	if q.NoBody || q.Body == nil {
		m["body"] = nil
	} else {
		k, v := c38BodyField(q.Body)
		m[k] = v
		if _, ok := hs["Content-Type"]; !ok {
			hs["Content-Type (implicit: none sent)"] = ""
		}
	}
	return m
}

func (x *c38Exec) hist(q c38Req, status int) {
	h := c38Hist{Method: q.Method, Target: q.target(), Status: status}
	if len(q.Headers) > 0 {
		h.Headers = map[string]string{}
		for _, kv := range q.Headers {
			h.Headers[kv.K] = kv.V
		}
	}
	if !q.NoBody && q.Body != nil {
		if utf8.Valid(q.Body) {
			h.Body = string(q.Body)
		} else {
			h.BodyB64 = base64.StdEncoding.EncodeToString(q.Body)
		}
	}
	x.st.history = append(x.st.history, h)
}

func (x *c38Exec) writeInflight(rt *c38Route, m c38Mut, q c38Req) {
	if x.inflight == "" {
		return
	}
	b, _ := json.Marshal(c38Inflight{Loop: x.loop, Case: x.idx, Seq: x.seq, Route: rt.Name, Class: m.Class, Desc: m.Desc, Request: c38ReqJSON(q)})
	// the previous request stays on disk too: a goroutine it started can kill the process a little later
	_ = os.Rename(x.inflight, x.inflight+".prev")
	_ = os.WriteFile(x.inflight+".tmp", b, 0o644)
	_ = os.Rename(x.inflight+".tmp", x.inflight)
}

func (x *c38Exec) writeHistory() {
	if x.inflight == "" {
		return
	}
	b, _ := json.Marshal(x.st.history)
	_ = os.WriteFile(x.inflight+".history", b, 0o644)
}

func c38IsJSONCT(h http.Header) bool {
	ct := strings.ToLower(h.Get("Content-Type"))
	return strings.HasPrefix(ct, "application/json") || strings.Contains(ct, "+json")
}

func c38ReqKey(q c38Req) string {
	var sb strings.Builder
	sb.WriteString(q.Method + " " + q.target() + "\n")
	for _, kv := range q.Headers {
		sb.WriteString(kv.K + ": " + kv.V + "\n")
	}
	if !q.NoBody && q.Body != nil {
		sb.WriteString("B:")
		sb.Write(q.Body)
	} else {
		sb.WriteString("nobody")
	}
	return sb.String()
}

type c38Verdict struct {
	Sig      string
	Kind     string // "", 5xx, panic, malformed-json, state-changed, harness_gap
	PanicVal string
	Site     string
	Stack    string
}

// judge applies the oracle to a response. before/after are state digests.
func (x *c38Exec) judge(rt *c38Route, class string, q c38Req, resp *c38Resp, before, after string) c38Verdict {
	return x.judge2(rt, class, "", q, resp, before, after)
}

func (x *c38Exec) judge2(rt *c38Route, class, mdesc string, q c38Req, resp *c38Resp, before, after string) c38Verdict {
	prefix := fmt.Sprintf("C38/%s:%s:", rt.Name, c38Channel(class))
	switch {
	case resp.Status >= 500 && len(resp.Body) == 0:
		val, site, stack := x.panicInfo(q)
		text := val + " " + site + " " + strings.Join(resp.Logged, " ")
		if c38IsHarnessGap(text) {
			return c38Verdict{Kind: "harness_gap", Sig: c38Normalize(rt.Name+" panic@"+site+" "+val, 160), PanicVal: val, Site: site, Stack: stack}
		}
		return c38Verdict{Kind: "panic", Sig: fmt.Sprintf("%s%d:panic@%s", prefix, resp.Status, site), PanicVal: val, Site: site, Stack: stack}
	case resp.Status >= 500:
		msg := strings.Join(resp.Logged, " | ")
		if msg == "" {
			msg = string(resp.Body)
		}
		if c38IsHarnessGap(msg) {
			return c38Verdict{Kind: "harness_gap", Sig: c38Normalize(rt.Name+" "+msg, 160)}
		}
		return c38Verdict{Kind: "5xx", Sig: fmt.Sprintf("%s%d:%s", prefix, resp.Status, c38ErrClass(msg))}
	}
	if resp.Status < 100 || resp.Status > 599 {
		return c38Verdict{Kind: "bad-status", Sig: fmt.Sprintf("%s%d:invalid-status-code", prefix, resp.Status)}
	}
	if len(resp.Body) > 0 {
		if c38IsJSONCT(resp.Header) {
			if !json.Valid(resp.Body) {
				return c38Verdict{Kind: "malformed-json", Sig: fmt.Sprintf("%s%d:malformed-json-response", prefix, resp.Status)}
			}
		} else if rt.Name == "POST /v2/{ledger}/logs/export" && resp.Status == 200 {
			for _, line := range bytes.Split(resp.Body, []byte("\n")) {
				if len(bytes.TrimSpace(line)) > 0 && !json.Valid(line) {
					return c38Verdict{Kind: "malformed-json", Sig: fmt.Sprintf("%s%d:malformed-ndjson-line", prefix, resp.Status)}
				}
			}
		}
	}
	if i := strings.Index(mdesc, c38MustRejectMark); i >= 0 && resp.Status < 400 && strings.HasSuffix(rt.Name, "/transactions") && rt.Method() == "POST" {
		return c38Verdict{Kind: "invalid-accepted", Sig: fmt.Sprintf("%s%d:accepted-%s", prefix, resp.Status, strings.ReplaceAll(strings.Trim(mdesc[i+len(c38MustRejectMark):], "]"), " ", "-"))}
	}
	// A script-stream bulk is read line by line through a bufio.Scanner: a line longer than the
	// scanner's buffer cannot be read, so no element may be built from anything at or after it. Every
	// successful element consumed one `//end` line (a clean end of stream is impossible once a line
	// is unreadable), hence successes <= `//end` lines before the first unreadable line: more means a
	// script the server failed to read in full was executed (the request had an effect it was never sent).
	if strings.HasSuffix(rt.Name, "/_bulk") && strings.EqualFold(q.header("Content-Type"), c38CTScript) {
		if bound, unreadable := c38ScriptStreamBound(q.Body); unreadable {
			x.agg.count("script_stream_unreadable_line_requests", 1)
			ok, _, parsed := c38BulkResults(resp.Body)
			if parsed && ok > bound {
				return c38Verdict{Kind: "state-changed", Sig: fmt.Sprintf("C38/%s:any:%d:script-stream-executed-a-script-it-could-not-read", rt.Name, resp.Status)}
			}
		}
	}
	if resp.Status >= 400 && before != after {
		code := c38ErrCode(resp.Body)
		what := "state-changed"
		switch {
		case strings.HasSuffix(rt.Name, "/_bulk"):
			if v, _ := q.getQuery("atomic"); !c38QueryTrue(v) {
				// A non-atomic bulk is a container of independent requests: the API documents that
				// each element is committed on its own and that the HTTP status is 400 as soon as one
				// element failed, with one result per element in the body. The invalid element had no
				// effect iff the change is explained by elements reported as successful (exact
				// per-element accounting is C32's oracle); a change with NO successful element is not.
				ok, failed, parsed := c38BulkResults(resp.Body)
				if parsed && ok > 0 {
					x.agg.count("non_atomic_bulk_4xx_with_committed_elements", 1)
					x.agg.seen("non_atomic_bulk_partial_shapes", fmt.Sprintf("ok=%d failed=%d", c38Bucket(ok), c38Bucket(failed)))
					return c38Verdict{}
				}
				what = "state-changed-non-atomic-bulk-without-successful-element"
			} else {
				what = "state-changed-ATOMIC-bulk"
			}
		case strings.HasSuffix(rt.Name, "/logs/import"):
			// only the request's own target ledger counts (an earlier import's goroutine may still be committing elsewhere)
			what = "state-changed-import-partial-commit"
			if !x.importTargetChanged {
				return c38Verdict{}
			}
		default:
			// background activity of an earlier bulk/import request can move the digest: confirm by repeating the request
			b2 := x.digest()
			r2 := x.raw(q)
			if r2.TimedOut || r2.Unbuildable != "" || r2.Status < 400 || x.digest() == b2 {
				x.agg.count("state_change_not_reproduced", 1)
				return c38Verdict{}
			}
		}
		return c38Verdict{Kind: "state-changed", Sig: fmt.Sprintf("C38/%s:any:%d:%s:%s", rt.Name, resp.Status, what, c38Normalize(code, 30))}
	}
	return c38Verdict{}
}

func c38QueryTrue(v string) bool {
	v = strings.ToUpper(v)
	return v == "YES" || v == "Y" || v == "TRUE" || v == "1" || v == "T"
}

func c38ErrCode(body []byte) string {
	var e struct {
		ErrorCode string `json:"errorCode"`
	}
	if json.Unmarshal(body, &e) == nil {
		return e.ErrorCode
	}
	return ""
}

// exec serves one (valid or mutated) request with the full oracle.
func (x *c38Exec) exec(rt *c38Route, m c38Mut, validKey string) (status int) {
	if x.aborted {
		return 0
	}
	x.seq++
	if x.onlyReq >= 0 && x.seq != x.onlyReq {
		// isolation replay: placeholders must still advance identically
		x.skip(m.Req)
		return 0
	}
	if x.seq < x.startSeq {
		x.skip(m.Req)
		return 0
	}
	if x.wedged {
		x.maybeReseed()
	}
	usedBefore := x.uniq
	q := x.subst(m.Req)
	a := x.agg
	before := x.lastDig
	if before == "" || x.uniq != usedBefore {
		before = x.digest()
	}
	if (rt.Body == "import" || rt.Body == "bulk") && x.sinceFl > 0 {
		x.flush() // handlers with goroutines of their own can kill the process: hand over what we have
	}
	x.writeInflight(rt, m, q)
	importTarget, importBefore := "", ""
	if rt.Body == "import" {
		for _, sg := range q.Segs {
			if sg.Param == "ledger" {
				importTarget = sg.Val
			}
		}
		x.guard("Snapshot", func() { importBefore = x.env.C.Snapshot(importTarget).Digest() })
	}
	t0 := time.Now()
	resp := x.raw(q)
	if d := time.Since(t0); d > 200*time.Millisecond && os.Getenv("C38_DUMP") != "" {
		fmt.Fprintf(os.Stderr, "SLOW %v seq=%d %s %s: %s -> %d\n", d, x.seq, rt.Name, m.Class, c38Trunc(m.Desc, 80), resp.Status)
	}
	if resp.Unbuildable != "" {
		a.count("unbuildable_requests", 1)
		a.seen("unbuildable", c38Normalize(resp.Unbuildable, 60))
		return 0
	}
	if resp.Wedged {
		x.guard("probe during a request that did not return", func() { x.env.C.Stats() })
		x.wedged = true
		x.hist(q, 0)
		x.maybeReseed()
		return 0
	}
	if resp.TimedOut && !x.guard("probe after a request that did not return", func() { x.env.C.Stats() }) {
		// the store is wedged (see guard): the handler was waiting for it; not an observation about /repo
		x.hist(q, 0)
		x.maybeReseed()
		return 0
	}
	if resp.TimedOut {
		hung := filepath.Join(filepath.Dir(x.inflight), fmt.Sprintf("HUNG-%s-%d-%d.json", x.loop, x.idx, x.seq))
		if x.inflight != "" {
			_ = os.Rename(x.inflight, hung)
		}
		b, _ := json.Marshal(c38ReqJSON(q))
		a.Inconclusive = append(a.Inconclusive, fmt.Sprintf("watchdog: %s[%d] request #%d (%s, %s: %s) did not return within %d s of wall clock; request: %s (kept in %s)", x.loop, x.idx, x.seq, rt.Name, m.Class, m.Desc, c38WatchdogSeconds, c38Trunc(string(b), 1500), hung))
		a.count("watchdog_fired", 1)
		x.aborted = true // the env may be wedged: abandon the case
		return 0
	}
	if resp.Status >= 500 && len(resp.Body) == 0 {
		x.abortAll() // a panicked handler leaves its store transaction open
	}
	after := x.digest()
	if importTarget != "" {
		x.importTargetChanged = false
		x.guard("Snapshot", func() { x.importTargetChanged = x.env.C.Snapshot(importTarget).Digest() != importBefore })
	}
	if x.wedged {
		x.hist(q, resp.Status)
		x.maybeReseed()
		return 0
	}
	if after != before {
		x.writes++
	}
	x.lastDig = after
	if rt.Body == "bulk" || rt.Body == "import" {
		x.lastDig = "" // handlers with background goroutines: never reuse a digest across them
	}
	x.hist(q, resp.Status)
	x.sinceFl++
	defer x.maybeFlush()
	defer x.maybeReseed()

	// evidence
	a.count("requests", 1)
	a.count("route:"+rt.Name, 1)
	a.count("class:"+m.Class, 1)
	a.seen("routes", rt.Name)
	a.seen("mutation_classes", m.Class)
	a.count(fmt.Sprintf("status_%dxx", resp.Status/100), 1)
	a.seen("status_codes", fmt.Sprint(resp.Status))
	routerMiss := resp.Status == 405 || (resp.Status == 404 && !c38IsJSONCT(resp.Header))
	if routerMiss {
		a.count("router_404_405", 1)
	}
	if m.Class == "valid" {
		switch {
		case resp.Status >= 200 && resp.Status < 400:
			a.count("valid_baseline_ok", 1)
		case resp.Status >= 400 && resp.Status < 500:
			a.count("valid_baseline_4xx", 1)
			a.seen("valid_4xx", fmt.Sprintf("%s -> %d %s", rt.Name, resp.Status, c38ErrCode(resp.Body)))
		}
	} else {
		if resp.Status >= 400 && resp.Status < 500 {
			a.count("mutants_rejected_4xx", 1)
			a.seen("error_codes", c38ErrCode(resp.Body))
		} else if resp.Status < 400 {
			a.count("mutants_accepted", 1)
		}
	}
	differs := m.Class != "valid" && c38ReqKey(m.Req) != validKey
	a.eval(rt.Name+"|"+m.Class, !routerMiss && differs)
	if len(a.Samples) < 2 && m.Class != "valid" && x.seq%17 == 3 {
		a.Samples = append(a.Samples, map[string]any{"route": rt.Name, "class": m.Class, "mutation": m.Desc, "request": c38ReqJSON(q), "status": resp.Status, "response": c38Trunc(string(resp.Body), 300)})
	}

	v := x.judge2(rt, m.Class, m.Desc, q, resp, before, after)
	switch v.Kind {
	case "":
		return resp.Status
	case "harness_gap":
		a.count("harness_gap", 1)
		a.seen("harness_gaps", v.Sig)
		if !x.reported["gap:"+v.Sig] {
			x.reported["gap:"+v.Sig] = true
			b, _ := json.Marshal(map[string]any{"request": c38ReqJSON(q), "status": resp.Status, "logged": resp.Logged, "panic": v.PanicVal, "site": v.Site})
			a.seen("harness_gap_examples", c38Trunc(string(b), 700))
		}
		return resp.Status
	}
	if i := strings.Index(v.Sig, ":"+c38Channel(m.Class)+":"); i >= 0 && (v.Kind == "5xx" || v.Kind == "panic") {
		tail := v.Sig[i+len(c38Channel(m.Class))+2:]
		if m.Class == "valid" {
			x.validBad = tail
		} else if tail == x.validBad {
			// the unmutated request of this variant already fails this way: not attributable to the mutation
			a.count("inherited_from_failing_valid_request", 1)
			return resp.Status
		}
	}
	a.count("violating_requests", 1)
	a.count("violating_"+v.Kind, 1)
	if x.reported[v.Sig] {
		return resp.Status
	}
	x.reported[v.Sig] = true
	detail := map[string]any{
		"route":               rt.Name,
		"mutation_class":      m.Class,
		"mutation":            m.Desc,
		"request":             c38ReqJSON(q),
		"status":              resp.Status,
		"response_headers":    resp.Header,
		"response_body":       c38Trunc(string(resp.Body), 4000),
		"logged_errors":       resp.Logged,
		"state_changed":       before != after,
		"request_seq_in_case": x.seq,
		"seeding_history":     append([]c38Hist(nil), x.st.history[:len(x.st.history)-1]...),
	}
	if v.Kind == "panic" {
		detail["panic"] = map[string]any{"value": v.PanicVal, "site": v.Site, "stack": v.Stack}
	}
	if (v.Kind == "5xx" || v.Kind == "panic") && rt.Body != "import" {
		min, n := x.minimize(rt, m.Class, q, v.Sig)
		x.lastDig = ""
		if n > 0 {
			detail["minimal_request"] = c38ReqJSON(min)
			detail["minimization_steps"] = n
		}
	}
	a.Violations = append(a.Violations, c38Viol{Sig: v.Sig, Loop: x.loop, Case: x.idx, Detail: detail})
	return resp.Status
}

// maybeReseed keeps the ledgers small (the state digest is linear in their size):
// after 80 state-changing requests the case continues on a fresh, re-seeded env.
func (x *c38Exec) maybeReseed() {
	if (x.writes < 80 && !x.wedged) || x.aborted {
		return
	}
	x.wedged = false
	x.reseeds++
	go x.env.Close()
	x.env = sim.NewEnv(sim.Options{})
	x.bare, x.digOK, x.lastDig, x.newLedg, x.writes = nil, false, "", "", 0
	keep := x.st
	x.st = &c38State{rng: keep.rng, cursors: map[string]string{}}
	if !x.seed_(c38Rng(x.seed, x.loop+"/reseed", x.idx*1000+x.reseeds)) {
		x.aborted = true
		return
	}
	x.agg.count("reseeds", 1)
	x.writeHistory()
}

// maybeFlush hands the partial results of a long case to the parent, so that a
// later crash of this process loses little.
func (x *c38Exec) maybeFlush() {
	if x.out == nil || x.sinceFl < 100 {
		return
	}
	x.flush()
}

func (x *c38Exec) flush() {
	if x.out == nil {
		return
	}
	x.sinceFl = 0
	b, err := json.Marshal(map[string]any{"case": x.idx, "agg": x.agg})
	if err != nil {
		b, _ = json.Marshal(map[string]any{"case": x.idx, "agg": &c38Agg{Inconclusive: []string{"C38 child: unserialisable case result: " + err.Error()}}})
	}
	_, _ = x.out.Write(append(b, '\n'))
	*x.agg = *c38NewAgg()
}

// minimize greedily removes query parameters, headers and JSON members while the
// same signature is produced. Returns the reduced request and the number of
// successful reductions.
func (x *c38Exec) minimize(rt *c38Route, class string, q c38Req, sig string) (c38Req, int) {
	budget := c38MinimizeBudget
	same := func(c c38Req) bool {
		if budget <= 0 {
			return false
		}
		budget--
		if x.wedged || x.aborted {
			budget = 0
			return false
		}
		before := x.digest()
		resp := x.raw(c)
		if resp.TimedOut {
			budget = 0 // never spend the wall clock on minimisation
			return false
		}
		if resp.Unbuildable != "" {
			return false
		}
		if resp.Status >= 500 && len(resp.Body) == 0 {
			x.abortAll()
		}
		x.agg.count("minimization_requests", 1)
		return x.judge(rt, class, c, resp, before, x.digest()).Sig == sig
	}
	cur, n := q, 0
	for i := 0; i < len(cur.Query); {
		c := cur.clone()
		c.Query = append(c.Query[:i:i], c.Query[i+1:]...)
		if same(c) {
			cur = c
			n++
		} else {
			i++
		}
	}
	for i := 0; i < len(cur.Headers); {
		c := cur.clone()
		c.Headers = append(c.Headers[:i:i], c.Headers[i+1:]...)
		if same(c) {
			cur = c
			n++
		} else {
			i++
		}
	}
	if !cur.NoBody && len(cur.Body) > 0 && len(cur.Body) < 32<<10 {
		if root, ok := c38Parse(cur.Body); ok {
			changed := true
			for changed && budget > 0 {
				changed = false
				sites := c38Sites(root, 0)
				for i := len(sites) - 1; i >= 1; i-- { // deepest / last first
					c := cur.withBody(c38Delete(root, sites[i]).Bytes())
					if same(c) {
						root, _ = c38Parse(c.Body)
						cur = c
						n++
						changed = true
						break
					}
				}
			}
		}
	}
	return cur, n
}

// ---------------------------------------------------------------------------
// a case

var c38Thorough bool

func c38RunCase(seed int64, loop string, idx int, routes []*c38Route, sys []c38SysCase, inflight string, onlyReq, startSeq int, out io.Writer) *c38Agg {
	agg := c38NewAgg()
	rng := c38Rng(seed, loop, idx)
	env := sim.NewEnv(sim.Options{})
	x := &c38Exec{seed: seed, loop: loop, idx: idx, env: env, agg: agg, inflight: inflight, onlyReq: onlyReq, startSeq: startSeq, out: out, reported: map[string]bool{},
		st: &c38State{rng: rng, cursors: map[string]string{}}}
	defer func() { go x.env.Close() }() // Close waits for leaked store transactions: never wait for it
	defer x.flush()
	if !x.seed_(c38Rng(seed, loop+"/seed", idx)) {
		return agg
	}
	x.writeHistory()
	if startSeq == 0 {
		agg.count("cases_"+loop, 1)
	}

	run := func(rt *c38Route, variant int, muts func(valid c38Req) []c38Mut) {
		valid := rt.Gen(x.st, variant)
		key := c38ReqKey(valid)
		x.validBad = ""
		x.exec(rt, c38Mut{Class: "valid", Desc: fmt.Sprintf("valid request, variant %d", variant), Req: valid}, key)
		for _, m := range muts(valid) {
			if x.aborted {
				return
			}
			x.exec(rt, m, key)
		}
	}
	switch loop {
	case "sys":
		if idx >= len(sys) {
			return agg
		}
		rt := routes[sys[idx].Route]
		sc := sys[idx]
		run(rt, sc.Variant, func(valid c38Req) []c38Mut {
			all := c38SysMutants(rt, sc.Variant, valid, x.st)
			if sc.Shards <= 1 {
				return all
			}
			var mine []c38Mut
			for i, m := range all {
				if i%sc.Shards == sc.Shard {
					mine = append(mine, m)
				}
			}
			return mine
		})
	default:
		perRoute := c38RandPerCase / 3
		if c38Thorough {
			perRoute = 40
		}
		for k := 0; k < 3 && !x.aborted; k++ {
			rt := routes[rng.Intn(len(routes))]
			run(rt, rng.Intn(rt.Variants), func(valid c38Req) []c38Mut {
				var out []c38Mut
				for i := 0; i < perRoute; i++ {
					out = append(out, c38RandMutant(rng, rt, valid, x.st))
				}
				return out
			})
		}
	}
	return agg
}

// seed_ builds the case's ledgers through the API and harvests ids and cursors.
func (x *c38Exec) seed_(srng *rand.Rand) bool {
	a := x.agg
	do := func(q c38Req) *c38Resp {
		resp := x.raw(q)
		if resp.TimedOut || resp.Unbuildable != "" {
			a.Inconclusive = append(a.Inconclusive, fmt.Sprintf("C38 seeding: %s %s: timeout=%v %s", q.Method, q.target(), resp.TimedOut, resp.Unbuildable))
			return resp
		}
		if resp.Status >= 500 {
			if len(resp.Body) == 0 {
				x.abortAll()
			}
			val, site, _ := "", "", ""
			if len(resp.Body) == 0 {
				val, site, _ = x.panicInfo(q)
			}
			a.seen("seed_5xx", c38Normalize(fmt.Sprintf("%s %s -> %d %v %s %s", q.Method, q.target(), resp.Status, resp.Logged, val, site), 300))
		}
		x.hist(q, resp.Status)
		a.count("seed_requests", 1)
		a.count(fmt.Sprintf("seed_status_%dxx", resp.Status/100), 1)
		return resp
	}
	for i, q := range c38SeedRequests() {
		resp := do(q)
		if resp.TimedOut {
			return false
		}
		if resp.Status >= 400 {
			a.Inconclusive = append(a.Inconclusive, fmt.Sprintf("C38 seeding request #%d %s %s failed: %d %s %v", i, q.Method, q.target(), resp.Status, c38Trunc(string(resp.Body), 300), resp.Logged))
			return false
		}
	}
	// random valid operations
	gs := &sim.GenState{TxIDs: []uint64{1, 3, 4, 5, 6}}
	n := 3 + srng.Intn(6)
	for i := 0; i < n; i++ {
		op := sim.GenOp(srng, gs)
		q, ok := c38OpToReq(op)
		if !ok {
			continue
		}
		resp := do(q)
		if resp.TimedOut {
			return false
		}
		a.seen("seed_ops", fmt.Sprintf("%s->%dxx", op.Kind, resp.Status/100))
		if resp.Status >= 500 {
			// a valid operation answered 5xx: report through the normal oracle under a pseudo route
			a.seen("seed_5xx", fmt.Sprintf("%s %s -> %d %v", q.Method, q.path(), resp.Status, resp.Logged))
		}
		if op.IsCreate() && resp.Status == 200 {
			var out struct {
				Data struct {
					ID uint64 `json:"id"`
				} `json:"data"`
			}
			if json.Unmarshal(resp.Body, &out) == nil && out.Data.ID > 0 {
				gs.TxIDs = append(gs.TxIDs, out.Data.ID)
			}
		}
	}
	do(c38New("POST", "/v2/l1/accounts/bank/metadata").raw(`{"tmp":"x"}`))
	do(c38New("DELETE", "/v2/l1/accounts/bank/metadata/tmp"))
	do(c38New("DELETE", "/v2/l1/transactions/1/metadata/note"))
	do(c38New("POST", "/v2/l1/transactions/1/metadata").raw(`{"note":"again"}`))
	// harvest
	type cur struct {
		Cursor struct {
			Next string            `json:"next"`
			Data []json.RawMessage `json:"data"`
		} `json:"cursor"`
	}
	for _, kv := range c38HarvestCursorRequests() {
		resp := do(kv[1].(c38Req))
		var c cur
		if resp.Status == 200 && json.Unmarshal(resp.Body, &c) == nil && c.Cursor.Next != "" {
			x.st.cursors[kv[0].(string)] = c.Cursor.Next
		}
	}
	a.count("harvested_cursors", int64(len(x.st.cursors)))
	resp := do(c38New("GET", "/v2/l1/transactions").q("pageSize", "100"))
	var txs struct {
		Cursor struct {
			Data []struct {
				ID uint64 `json:"id"`
			} `json:"data"`
		} `json:"cursor"`
	}
	if json.Unmarshal(resp.Body, &txs) == nil {
		for _, t := range txs.Cursor.Data {
			x.st.txIDs = append(x.st.txIDs, fmt.Sprint(t.ID))
		}
	}
	resp = do(c38New("GET", "/v2/l1/accounts").q("pageSize", "100"))
	var accs struct {
		Cursor struct {
			Data []struct {
				Address string `json:"address"`
			} `json:"data"`
		} `json:"cursor"`
	}
	if json.Unmarshal(resp.Body, &accs) == nil {
		for _, t := range accs.Cursor.Data {
			x.st.accounts = append(x.st.accounts, t.Address)
		}
	}
	resp = do(c38New("POST", "/v2/l1/logs/export"))
	for _, l := range strings.Split(string(resp.Body), "\n") {
		if strings.TrimSpace(l) != "" {
			x.st.export = append(x.st.export, l)
		}
	}
	if len(x.st.export) == 0 || len(x.st.txIDs) < 5 || len(x.st.cursors) < 8 {
		a.Inconclusive = append(a.Inconclusive, fmt.Sprintf("C38 seeding: harvest too small: export=%d txs=%d cursors=%d (%v)", len(x.st.export), len(x.st.txIDs), len(x.st.cursors), c38Keys(x.st.cursors)))
		return false
	}
	return true
}

func c38Keys(m map[string]string) []string {
	var ks []string
	for k := range m {
		ks = append(ks, k)
	}
	sort.Strings(ks)
	return ks
}

// c38BulkResults counts the per-element results of a bulk response body.
func c38BulkResults(body []byte) (ok, failed int, parsed bool) {
	var doc struct {
		Data []struct {
			ResponseType string `json:"responseType"`
			ErrorCode    string `json:"errorCode"`
		} `json:"data"`
	}
	if err := json.Unmarshal(body, &doc); err != nil || doc.Data == nil {
		return 0, 0, false
	}
	for _, e := range doc.Data {
		if e.ErrorCode != "" || e.ResponseType == "ERROR" {
			failed++
		} else {
			ok++
		}
	}
	return ok, failed, true
}

func c38Bucket(n int) int {
	if n > 3 {
		return 3
	}
	return n
}

// c38ScriptStreamBound: for a script-stream body with a line longer than bufio.MaxScanTokenSize
// (definitely unreadable by the default bufio.Scanner), the number of `//end` lines before it.
func c38ScriptStreamBound(body []byte) (bound int, unreadable bool) {
	for len(body) > 0 {
		line := body
		if i := bytes.IndexByte(body, '\n'); i >= 0 {
			line, body = body[:i], body[i+1:]
		} else {
			body = nil
		}
		if len(line) > bufio.MaxScanTokenSize {
			return bound, true
		}
		if string(bytes.TrimSpace(line)) == "//end" {
			bound++
		}
	}
	return 0, false
}
