package checks

import "github.com/formancehq/ledger/verifharness/core"

// runDirectDrive drives the REAL storage/ledger.Store.CommitTransaction over
// pgshim responders (filled in by directdrive_impl.go).
var runDirectDrive = func(r *core.Run, prop string) {}
