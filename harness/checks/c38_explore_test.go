package checks

import (
	"encoding/base64"
	"testing"

	"github.com/formancehq/ledger/verifharness/sim"
)

func TestC38Explore(t *testing.T) {
	e := sim.NewEnv(sim.Options{})
	defer e.Close()
	do := func(m, p, b string, h map[string]string) *sim.Resp {
		var body []byte
		if b != "" {
			body = []byte(b)
		}
		r := e.Do(m, p, body, h)
		bs := string(r.Body)
		if len(bs) > 1500 {
			bs = bs[:1500]
		}
		t.Logf("%s %s %s\n -> %d %v %s", m, p, b, r.Status, r.Header, bs)
		return r
	}
	do("POST", "/v2/l1", `{}`, nil)
	do("POST", "/v2/l2", `{"bucket":"b2","metadata":{"a":"b"},"features":{}}`, nil)
	do("POST", "/v2/l1/schemas/v1", `{"chart":{"world":{},"bank":{},"users":{"$id":{".pattern":"^[0-9]+$",".metadata":{"k":{"default":"x"}},"wallet":{},"sub":{}}},"orders":{"$oid":{".self":{},"pending":{}}},"fees":{},"meta":{"only":{"$n":{}}}},
	 "transactions":{"PAY":{"description":"d","script":"vars {\n account $dst\n monetary $amt\n}\nsend $amt (\n source = @world\n destination = $dst\n)"}},
	 "queries":{"Q1":{"resource":"accounts","vars":{"pfx":"string"},"body":{"$match":{"address":"${pfx}:"}}},"QT":{"resource":"transactions","params":{"pageSize":2,"sort":"id:asc"},"vars":{"rev":{"type":"boolean","default":false}},"body":{"$match":{"reverted":"${rev}"}}},"QL":{"resource":"logs"},"QV":{"resource":"volumes","params":{"groupBy":1}}}}`, nil)
	do("GET", "/v2/l1/schemas/v1", "", nil)
	do("GET", "/v2/l1/schemas?pageSize=1", "", nil)
	for i := 0; i < 3; i++ {
		do("POST", "/v2/l1/transactions", `{"postings":[{"source":"world","destination":"users:001","asset":"USD","amount":100}],"metadata":{"k":"v"},"reference":"r`+string(rune('a'+i))+`"}`, map[string]string{"Idempotency-Key": "ik" + string(rune('a'+i))})
	}
	do("POST", "/v2/l1/transactions?schemaVersion=v1", `{"script":{"template":"PAY","vars":{"dst":"users:002","amt":"USD 5"}}}`, nil)
	do("POST", "/v2/l1/transactions", `{"script":{"plain":"vars {\n monetary $amt\n}\nsend $amt (\n source = @world\n destination = @bank\n)","vars":{"amt":{"asset":"USD","amount":5}}}}`, nil)
	do("POST", "/l1/transactions", `{"script":{"plain":"vars {\n monetary $amt\n account $a\n}\nsend $amt (\n source = @world\n destination = $a\n)","vars":{"amt":{"asset":"USD","amount":5},"a":"bank"}}}`, nil)
	do("POST", "/v2/l1/transactions/1/revert", "", nil)
	do("POST", "/v2/l1/accounts/users:001/metadata", `{"color":"red"}`, nil)
	for _, p := range []string{"/v2/l1/transactions?pageSize=1", "/v2/l1/accounts?pageSize=1", "/v2/l1/logs?pageSize=1", "/v2/l1/volumes?pageSize=1", "/v2?pageSize=1", "/l1/transactions?pageSize=1", "/l1/accounts?pageSize=1", "/l1/logs?pageSize=1", "/l1/balances?pageSize=1", "/v2/l1/transactions?pageSize=1&sort=timestamp:asc"} {
		do("GET", p, "", nil)
	}
	r := do("GET", "/v2/l1/transactions?pageSize=1", `{"$match":{"metadata[k]":"v"}}`, nil)
	_ = r
	for _, c := range []string{"eyJvZmZzZXQiOjB9"} {
		b, _ := base64.RawURLEncoding.DecodeString(c)
		t.Logf("%s", b)
	}
	do("POST", "/v2/l1/queries/Q1/run?schemaVersion=v1", `{"vars":{"pfx":"users"}}`, nil)
	do("POST", "/v2/l1/queries/QT/run?schemaVersion=v1", `{}`, nil)
	do("POST", "/v2/l1/queries/QV/run?schemaVersion=v1", `{"params":{"pageSize":1}}`, nil)
	ex := do("POST", "/v2/l1/logs/export", "", nil)
	do("POST", "/v2/l2/logs/import", string(ex.Body), nil)
	do("GET", "/v2/l1/aggregate/balances", `{"$match":{"address":"users:"}}`, nil)
	do("GET", "/v2/l1/stats", "", nil)
	do("GET", "/v2/l1/_info", "", nil)
	do("GET", "/v2/_info", "", nil)
	do("GET", "/_info", "", nil)
	do("HEAD", "/v2/l1/transactions", "", nil)
	do("DELETE", "/v2/_/buckets/b2", "", nil)
	do("GET", "/v2/l2", "", nil)
	do("POST", "/v2/_/buckets/b2/restore", "", nil)
	do("POST", "/v2/l1/_bulk", "//script ik=a\nsend [USD 1] (\n source=@world\n destination=@bank\n)\n//end\n", map[string]string{"Content-Type": "application/vnd.formance.ledger.api.v2.bulk+script-stream"})
	do("POST", "/v2/l1/_bulk", `{"action":"ADD_METADATA","data":{"targetType":"ACCOUNT","targetId":"bank","metadata":{"a":"b"}}}{"action":"REVERT_TRANSACTION","data":{"id":2}}`, map[string]string{"Content-Type": "application/vnd.formance.ledger.api.v2.bulk+json-stream"})
	do("GET", "/v2/l1/logs", `{"$in":{"type":["NEW_TRANSACTION"]}}`, nil)
}
