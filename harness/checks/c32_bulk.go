package checks

import (
	"context"
	"encoding/json"
	"fmt"
	"math/rand"
	"strings"
	"sync"

	"github.com/formancehq/ledger/verifharness/core"
	"github.com/formancehq/ledger/verifharness/memstore"
	"github.com/formancehq/ledger/verifharness/sim"
)

func init() {
	core.Register(&core.Check{
		ID: "C32", Level: "exploration",
		Rule:        "random bulks of 1-40 self-identifying elements (creates by postings / script tagged with their index, metadata writes, reverts, metadata deletes; failing elements — insufficient funds, unknown transaction, missing metadata key — injected at random positions; dependent pairs where element k+1 spends what element k received; ADD_METADATA of a key followed by DELETE_METADATA of the same key on the same account / transaction in the same bulk, one bulk in three of the atomic ones built around such pairs followed by a failing element) posted to POST /v2/{ledger}/_bulk as application/json and as the json-stream content type with options {none, atomic, continueOnFailure, parallel, parallel+continueOnFailure, atomic+parallel}; oracle: one result per element, result i describes element i, atomic = all or nothing, sequential stop-after-first-failure, continueOnFailure applies every non-failing element, successful create results equal the submitted element; the ledger snapshot must agree with the reported results (including: a bulk that committed something leaves the ledger in use, like the same write on its own); a sequential bulk is the only request in flight, so any lock its own statements have to wait for (memstore lock table: holder = a session of the same request that waits for nothing) is a self-deadlock: reported, never waited out. Parallel bulks also run under the race detector. Distinct = (options, handler, element-kind vector, failure positions); non-trivial = bulk has >=2 elements and >=1 failing element or dependent pair",
		Assumptions: []string{seqAssume},
		Run:         func(r *core.Run) { runC32(r, "C32") },
	})
}

type c32El struct {
	JSON  string
	Kind  string
	Fails bool   // fails whatever the other elements do
	Dep   bool   // succeeds only if the previous element was applied before it
	Tag   string // unique destination account for creates
	Logs  int    // logs it appends when applied
}

func c32Gen(rng *rand.Rand, n int, allowDep bool) []c32El {
	var els []c32El
	for i := 0; i < n; i++ {
		tag := fmt.Sprintf("el:%d", i)
		if allowDep && i+1 < n && rng.Intn(8) == 0 {
			// a key added and deleted again by the same bulk: the delete must see the add
			if rng.Intn(2) == 0 {
				els = append(els, c32AccountPair(i)...)
			} else {
				els = append(els, c32TxPair(i)...)
			}
			i++
			continue
		}
		x := rng.Intn(100)
		switch {
		case x < 35:
			els = append(els, c32El{Kind: "create", Tag: tag, Logs: 1,
				JSON: fmt.Sprintf(`{"action":"CREATE_TRANSACTION","data":{"postings":[{"source":"world","destination":"%s","asset":"USD","amount":%d}],"metadata":{"el":"%d"}}}`, tag, 10+i, i)})
			if allowDep && rng.Intn(3) == 0 && i+1 < n {
				i++
				els = append(els, c32El{Kind: "create-dependent", Tag: fmt.Sprintf("el:%d", i), Dep: true, Logs: 1,
					JSON: fmt.Sprintf(`{"action":"CREATE_TRANSACTION","data":{"postings":[{"source":"%s","destination":"el:%d","asset":"USD","amount":%d}],"metadata":{"el":"%d"}}}`, tag, i, 10+i-1, i)})
			}
		case x < 45:
			els = append(els, c32El{Kind: "create-script", Tag: tag, Logs: 1,
				JSON: fmt.Sprintf(`{"action":"CREATE_TRANSACTION","data":{"script":{"plain":"send [USD %d] (\n source = @world\n destination = @%s\n)\n","vars":{}},"metadata":{"el":"%d"}}}`, 10+i, tag, i)})
		case x < 57:
			if rng.Intn(2) == 0 {
				els = append(els, c32FailingCreate(rng, i))
				break
			}
			els = append(els, c32El{Kind: "create-fail", Tag: tag, Fails: true,
				JSON: fmt.Sprintf(`{"action":"CREATE_TRANSACTION","data":{"postings":[{"source":"nofunds:%d","destination":"%s","asset":"USD","amount":5}],"metadata":{"el":"%d"}}}`, i, tag, i)})
		case x < 67:
			els = append(els, c32El{Kind: "add-account-meta", Logs: 1,
				JSON: fmt.Sprintf(`{"action":"ADD_METADATA","data":{"targetType":"ACCOUNT","targetId":"meta:%d","metadata":{"el":"%d"}}}`, i, i)})
		case x < 75:
			els = append(els, c32El{Kind: "add-tx-meta", Logs: 1,
				JSON: fmt.Sprintf(`{"action":"ADD_METADATA","data":{"targetType":"TRANSACTION","targetId":1,"metadata":{"el%d":"%d"}}}`, i, i)})
		case x < 83:
			els = append(els, c32El{Kind: "revert-unknown", Fails: true,
				JSON: fmt.Sprintf(`{"action":"REVERT_TRANSACTION","data":{"id":%d}}`, 900000+i)})
		case x < 90:
			els = append(els, c32El{Kind: "delete-missing-meta", Fails: true,
				JSON: fmt.Sprintf(`{"action":"DELETE_METADATA","data":{"targetType":"TRANSACTION","targetId":1,"key":"absent%d"}}`, i)})
		default:
			els = append(els, c32El{Kind: "delete-account-meta", Logs: 1,
				JSON: fmt.Sprintf(`{"action":"DELETE_METADATA","data":{"targetType":"ACCOUNT","targetId":"bank","key":"k%d"}}`, i)})
		}
	}
	return els
}

func c32AccountPair(i int) []c32El {
	return []c32El{
		{Kind: "add-own-account-meta", Logs: 1,
			JSON: fmt.Sprintf(`{"action":"ADD_METADATA","data":{"targetType":"ACCOUNT","targetId":"pair:%d","metadata":{"pk":"%d"}}}`, i, i)},
		{Kind: "delete-own-account-meta", Dep: true, Logs: 1,
			JSON: fmt.Sprintf(`{"action":"DELETE_METADATA","data":{"targetType":"ACCOUNT","targetId":"pair:%d","key":"pk"}}`, i)},
	}
}

func c32TxPair(i int) []c32El {
	return []c32El{
		{Kind: "add-tx-meta-key", Logs: 1,
			JSON: fmt.Sprintf(`{"action":"ADD_METADATA","data":{"targetType":"TRANSACTION","targetId":1,"metadata":{"pk%d":"%d"}}}`, i, i)},
		{Kind: "delete-tx-meta-key", Dep: true, Logs: 1,
			JSON: fmt.Sprintf(`{"action":"DELETE_METADATA","data":{"targetType":"TRANSACTION","targetId":1,"key":"pk%d"}}`, i)},
	}
}

func c32FailingEl(rng *rand.Rand, i int) c32El {
	switch rng.Intn(3) {
	case 0:
		return c32El{Kind: "revert-unknown", Fails: true, JSON: fmt.Sprintf(`{"action":"REVERT_TRANSACTION","data":{"id":%d}}`, 900000+i)}
	case 1:
		return c32El{Kind: "delete-missing-meta", Fails: true, JSON: fmt.Sprintf(`{"action":"DELETE_METADATA","data":{"targetType":"TRANSACTION","targetId":1,"key":"absent%d"}}`, i)}
	}
	return c32FailingCreate(rng, i)
}

func c32FailingCreate(rng *rand.Rand, i int) c32El {
	// a create that fails whatever precedes it: insufficient funds (refused by the machine), or a
	// request that is invalid in itself (refused by validation before anything is executed)
	posting := fmt.Sprintf(`{"source":"nofunds:%d","destination":"el:%d","asset":"USD","amount":5}`, i, i)
	switch rng.Intn(5) {
	case 0:
		posting = fmt.Sprintf(`{"source":"world","destination":"el:%d","asset":"USD","amount":-5}`, i)
	case 1:
		posting = fmt.Sprintf(`{"source":"world","destination":"el:%d","asset":"usd","amount":5}`, i)
	case 2:
		posting = fmt.Sprintf(`{"source":"world","destination":"el %d","asset":"USD","amount":5}`, i)
	}
	return c32El{Kind: "create-fail", Tag: fmt.Sprintf("el:%d", i), Fails: true,
		JSON: fmt.Sprintf(`{"action":"CREATE_TRANSACTION","data":{"postings":[%s],"metadata":{"el":"%d"}}}`, posting, i)}
}

// c32GenTargeted: bulks built around "delete what an earlier element of the same bulk added"
// (account and transaction metadata) and around deletions of pre-existing account metadata,
// with or without a failing element behind them, between 0-2 random elements.
func c32GenTargeted(rng *rand.Rand) ([]c32El, string) {
	var els []c32El
	add := func(more ...c32El) { els = append(els, more...) }
	random := func(k int) {
		for _, el := range c32Gen(rng, k, false) {
			// keep the indices of self-identifying elements unique
			if strings.HasPrefix(el.Kind, "create") {
				j := 100 + len(els)
				el = c32El{Kind: "create", Tag: fmt.Sprintf("el:%d", j), Logs: 1,
					JSON: fmt.Sprintf(`{"action":"CREATE_TRANSACTION","data":{"postings":[{"source":"world","destination":"el:%d","asset":"USD","amount":7}],"metadata":{"el":"%d"}}}`, j, j)}
			}
			if el.Kind == "delete-account-meta" {
				el.JSON = fmt.Sprintf(`{"action":"DELETE_METADATA","data":{"targetType":"ACCOUNT","targetId":"bank","key":"k%d"}}`, 25+len(els))
			}
			add(el)
		}
	}
	random(rng.Intn(3))
	variant := []string{"pairs+failure", "pairs+failure", "pairs", "delete-existing-first+failure", "account-pair+failure", "tx-pair+failure"}[rng.Intn(6)]
	switch variant {
	case "pairs+failure", "pairs":
		if rng.Intn(2) == 0 {
			add(c32AccountPair(50)...)
			add(c32TxPair(51)...)
		} else {
			add(c32TxPair(51)...)
			add(c32AccountPair(50)...)
		}
	case "delete-existing-first+failure":
		els = els[:0]
		add(c32El{Kind: "delete-account-meta", Logs: 1, JSON: `{"action":"DELETE_METADATA","data":{"targetType":"ACCOUNT","targetId":"bank","key":"k0"}}`})
		random(rng.Intn(2))
	case "account-pair+failure":
		add(c32AccountPair(50)...)
	case "tx-pair+failure":
		add(c32TxPair(51)...)
	}
	if variant != "pairs" {
		random(rng.Intn(2))
		add(c32FailingEl(rng, 60))
	}
	random(rng.Intn(2))
	return els, variant
}

type c32Result struct {
	ErrorCode    string          `json:"errorCode"`
	ErrorDesc    string          `json:"errorDescription"`
	ResponseType string          `json:"responseType"`
	LogID        uint64          `json:"logID"`
	Data         json.RawMessage `json:"data"`
}

// runC32 reports the findings of property prop ("C32", or "C31" for the event rules on bulks).
func runC32(r *core.Run, prop string) {
	report := func(c *core.Case, sig string, detail any) {
		if strings.HasPrefix(sig, prop+"/") {
			c.Violation(sig, detail)
		} else {
			r.Seen("findings_for_other_properties", sig)
		}
	}
	_ = report
	optsAll := []string{"", "atomic=true", "continueOnFailure=true", "parallel=true", "parallel=true&continueOnFailure=true", "atomic=true&parallel=true", "atomic=true&continueOnFailure=true"}
	n := r.N(1500, 40000)
	workers := 0
	if r.RaceMode {
		n = r.N(400, 6000)
		workers = 8
	}
	r.Floor("bulks_with_failures", int64(n/10))
	if !r.RaceMode {
		r.Floor("atomic_bulks_delete_after_add_then_failing_element", int64(n/40))
	}
	r.ForEach("bulk", n, workers, func(c *core.Case) {
		rng := c.Rng
		opts := optsAll[c.Index%len(optsAll)]
		if r.RaceMode {
			opts = []string{"parallel=true", "parallel=true&continueOnFailure=true", ""}[c.Index%3]
		}
		parallel := strings.Contains(opts, "parallel=true")
		atomic := strings.Contains(opts, "atomic=true")
		cont := strings.Contains(opts, "continueOnFailure=true")
		size := 1 + rng.Intn(8)
		if rng.Intn(4) == 0 {
			size = 10 + rng.Intn(30)
		}
		fresh := c.Index%5 == 3 // bulk as the FIRST write of an initializing ledger
		els := c32Gen(rng, size, !parallel)
		targeted := ""
		if !parallel && !fresh && !r.RaceMode && ((atomic && rng.Intn(3) == 0) || (!atomic && rng.Intn(8) == 0)) {
			els, targeted = c32GenTargeted(rng)
		}
		if fresh {
			var keep []c32El
			for _, el := range els {
				switch el.Kind {
				case "add-tx-meta", "delete-missing-meta", "delete-account-meta", "add-tx-meta-key", "delete-tx-meta-key":
				default:
					keep = append(keep, el)
				}
			}
			els = keep
			if len(els) == 0 {
				els = c32Gen(rng, 1, false)[:0]
				els = append(els, c32El{Kind: "create", Tag: "el:0", Logs: 1, JSON: `{"action":"CREATE_TRANSACTION","data":{"postings":[{"source":"world","destination":"el:0","asset":"USD","amount":10}],"metadata":{"el":"0"}}}`})
			}
		}
		handler := []string{"json", "json-stream"}[rng.Intn(2)]
		e := sim.NewEnv(sim.Options{})
		defer e.Close()
		_ = e.CreateLedger("l1", "_default", nil)
		// pre-history: tx 1 exists, account bank has metadata k*
		md := map[string]string{}
		for i := 0; i < 45; i++ {
			md[fmt.Sprintf("k%d", i)] = "v"
		}
		if !fresh {
			e.Apply("l1", sim.Op{Kind: "postings", Postings: []sim.P{{Source: "world", Destination: "bank", Asset: "USD", Amount: "100"}}})
			e.Apply("l1", sim.Op{Kind: "save_acc_meta", Address: "bank", Metadata: md})
		}
		e.C.ResetEvents()
		e.C.Trace = true
		before := e.C.Snapshot("l1")
		evBefore := e.Listener.Len()
		var body string
		headers := map[string]string{}
		var parts []string
		for _, el := range els {
			parts = append(parts, el.JSON)
		}
		if handler == "json" {
			body = "[" + strings.Join(parts, ",") + "]"
		} else {
			body = strings.Join(parts, "\n")
			headers["Content-Type"] = "application/vnd.formance.ledger.api.v2.bulk+json-stream"
		}
		path := "/v2/l1/_bulk"
		if opts != "" {
			path += "?" + opts
		}
		// A sequential bulk is the only request in flight and runs its elements one after the
		// other: a statement of it that has to wait for a lock waits for a session of the same
		// request (tagged client 1) which is not itself waiting for anything, i.e. for a
		// transaction only the waiting goroutine could ever end. Decided from the lock table
		// when the wait starts; the statement is cancelled instead of hanging the run.
		var lwMu sync.Mutex
		var blockedOn []memstore.LockWait
		var lockTable []string
		if !parallel {
			e.C.OnLockWait = func(_ context.Context, w memstore.LockWait) error {
				lwMu.Lock()
				defer lwMu.Unlock()
				if lockTable == nil {
					lockTable = e.C.DebugLocks()
				}
				blockedOn = append(blockedOn, w)
				return fmt.Errorf("verif: statement cancelled: it waits for lock %q held by session s%d of its own request: %w", w.Key, w.Holder, context.Canceled)
			}
		}
		resp := e.DoCtx(memstore.WithClient(context.Background(), 1), "POST", path, []byte(body), headers)
		e.C.OnLockWait = nil
		e.C.Trace = false
		if len(blockedOn) > 0 {
			e.C.AbortAll()
		}
		after := e.C.Snapshot("l1")
		// (in a parallel bulk several elements have their own SQL transactions open at once: the
		// single-operation automaton does not apply there)
		if viol, _, _ := c31Automaton(e.C.Events()); viol != "" && !strings.Contains(opts, "parallel=true") {
			st := "in-use-ledger"
			if fresh {
				st = "first-write-on-initializing-ledger"
			}
			report(c, fmt.Sprintf("C31/event-before-commit:bulk:%s:%s", map[bool]string{true: "atomic", false: "non-atomic"}[strings.Contains(opts, "atomic=true")], st), map[string]any{"options": opts, "body": body, "what": viol, "trace": e.C.Events()})
		}
		var kinds []string
		nFail, nDep := 0, 0
		for _, el := range els {
			kinds = append(kinds, el.Kind)
			if el.Fails {
				nFail++
			}
			if el.Dep {
				nDep++
			}
		}
		r.Eval(fmt.Sprintf("%s|%s|%s", opts, handler, strings.Join(kinds, ",")), len(els) >= 2 && (nFail > 0 || nDep > 0))
		r.Seen("options", opts)
		r.Seen("handlers", handler)
		r.Seen("ledger_state", map[bool]string{true: "initializing", false: "in-use"}[fresh])
		if nFail > 0 {
			r.Count("bulks_with_failures", 1)
		}
		r.Count("elements", int64(len(els)))
		for _, k := range kinds {
			r.Seen("element_kinds", k)
		}
		for i := 1; i < len(els); i++ {
			if els[i].Kind == "delete-own-account-meta" || els[i].Kind == "delete-tx-meta-key" {
				failingBehind := false
				for _, el := range els[i+1:] {
					failingBehind = failingBehind || el.Fails
				}
				r.Count(fmt.Sprintf("bulks_deleting_a_key_added_by_the_same_bulk:%s:atomic=%v:failing_element_behind=%v", map[bool]string{true: "account", false: "transaction"}[els[i].Kind == "delete-own-account-meta"], atomic, failingBehind), 1)
				if atomic && failingBehind {
					r.Count("atomic_bulks_delete_after_add_then_failing_element", 1)
				}
			}
		}
		if targeted != "" {
			r.Seen("targeted_variants", targeted)
			r.Count("targeted_bulks", 1)
		}
		detail := func(extra map[string]any) map[string]any {
			d := map[string]any{"options": opts, "handler": handler, "body": body, "status": resp.Status, "response": string(resp.Body)}
			for k, v := range extra {
				d[k] = v
			}
			return d
		}
		sigBase := fmt.Sprintf("%s:%s", map[bool]string{true: "parallel", false: "sequential"}[parallel], handler)
		if len(blockedOn) > 0 {
			w := blockedOn[0]
			sig := "C32/atomic-bulk-element-blocked-on-own-transaction"
			if !atomic {
				sig = "C32/sequential-bulk-element-blocked-on-own-request:" + handler
			}
			r.Count("bulks_with_a_statement_blocked_on_the_requests_own_session", 1)
			report(c, sig, detail(map[string]any{
				"what": fmt.Sprintf("a statement of the bulk (store call %s, session s%d) had to wait for lock %q held by session s%d of the same request (holder in a transaction: %v, holder waiting for: %q): nothing but the waiting goroutine could ever release it; against Postgres the request would hang until a timeout",
					w.Site, w.Waiter, w.Key, w.Holder, w.HolderInTxn, w.HolderWaitingKey),
				"lock_waits": blockedOn, "lock_table_at_first_wait": lockTable, "same_logical_client": w.WaiterClient == w.HolderClient,
			}))
			return
		}
		if atomic && parallel {
			if resp.Status != 412 {
				report(c, "C32/atomic-and-parallel-not-refused:"+handler, detail(nil))
			}
			if before.Digest() != after.Digest() {
				report(c, "C32/refused-bulk-had-an-effect", detail(nil))
			}
			return
		}
		if resp.Status == 500 {
			if len(resp.Body) == 0 {
				e.C.AbortAll()
			}
			report(c, "C32/bulk-answered-500:"+sigBase, detail(nil))
			return
		}
		var out struct {
			Data []c32Result `json:"data"`
		}
		if err := json.Unmarshal(resp.Body, &out); err != nil {
			report(c, "C32/response-not-json:"+sigBase, detail(map[string]any{"error": err.Error()}))
			return
		}
		if len(out.Data) != len(els) {
			report(c, fmt.Sprintf("C32/result-count-differs-from-element-count:%s", sigBase), detail(map[string]any{"results": len(out.Data), "elements": len(els)}))
			return
		}
		// result i must describe element i
		applied := 0
		firstFailure := -1
		for i, res := range out.Data {
			el := els[i]
			failed := res.ErrorCode != ""
			if failed && firstFailure < 0 {
				firstFailure = i
			}
			if !failed {
				applied += el.Logs
				want := map[string]string{"create": "CREATE_TRANSACTION", "create-dependent": "CREATE_TRANSACTION", "create-script": "CREATE_TRANSACTION", "create-fail": "CREATE_TRANSACTION",
					"add-account-meta": "ADD_METADATA", "add-tx-meta": "ADD_METADATA", "add-own-account-meta": "ADD_METADATA", "add-tx-meta-key": "ADD_METADATA", "delete-own-account-meta": "DELETE_METADATA", "delete-tx-meta-key": "DELETE_METADATA", "revert-unknown": "REVERT_TRANSACTION", "delete-missing-meta": "DELETE_METADATA", "delete-account-meta": "DELETE_METADATA"}[el.Kind]
				if res.ResponseType != want {
					report(c, "C32/result-does-not-describe-its-element:response-type:"+sigBase, detail(map[string]any{"index": i, "want": want, "got": res.ResponseType}))
					return
				}
				if strings.HasPrefix(el.Kind, "create") {
					var tx struct {
						Postings []struct {
							Source, Destination, Asset string
							Amount                     json.Number
						} `json:"postings"`
						Metadata map[string]string `json:"metadata"`
					}
					if err := json.Unmarshal(res.Data, &tx); err != nil || len(tx.Postings) != 1 || tx.Postings[0].Destination != el.Tag || tx.Metadata["el"] != fmt.Sprint(strings.TrimPrefix(el.Tag, "el:")) {
						report(c, "C32/result-does-not-describe-its-element:transaction:"+sigBase, detail(map[string]any{"index": i, "element": el.JSON, "result": string(res.Data)}))
						return
					}
				}
				if el.Fails {
					report(c, "C32/always-failing-element-reported-successful:"+el.Kind, detail(map[string]any{"index": i}))
				}
			}
		}
		newLogs := len(after.Logs) - len(before.Logs)
		anyFailed := firstFailure >= 0
		// the same write sent on its own leaves the ledger in use: so must a bulk that applied something
		if newLogs > 0 {
			r.Count("bulks_that_committed_something:ledger_was_"+before.State, 1)
			if after.State != "in-use" {
				mode := map[bool]string{true: "parallel", false: "sequential"}[parallel]
				if atomic {
					mode = "atomic"
				} else if cont {
					mode += "+continue-on-failure"
				}
				report(c, "C32/bulk-committed-elements-but-ledger-not-in-use:"+mode, detail(map[string]any{"ledger_state_before": before.State, "ledger_state_after": after.State, "new_logs": newLogs, "first_failure": firstFailure}))
			}
		}
		switch {
		case atomic:
			if anyFailed && before.Digest() != after.Digest() {
				report(c, "C32/atomic-bulk-with-a-failing-element-left-an-effect:"+handler, detail(map[string]any{"first_failure": firstFailure}))
			}
			if anyFailed && e.Listener.Len() != evBefore {
				report(c, "C31/atomic-bulk-rolled-back-but-published-events", detail(nil))
			}
			if !anyFailed && newLogs != applied {
				report(c, "C32/atomic-bulk-without-failure-not-fully-applied:"+handler, detail(map[string]any{"new_logs": newLogs, "expected": applied}))
			}
			if nFail == 0 && anyFailed {
				report(c, "C32/atomic-bulk-failed-without-a-failing-element:"+handler, detail(map[string]any{"first_failure": firstFailure}))
			}
		case !parallel && !cont:
			// elements after the first failure must not be applied
			for i := firstFailure + 1; firstFailure >= 0 && i < len(out.Data); i++ {
				if out.Data[i].ErrorCode == "" {
					report(c, "C32/sequential-bulk-applied-an-element-after-the-first-failure:"+handler, detail(map[string]any{"first_failure": firstFailure, "index": i}))
					break
				}
			}
			if newLogs != applied {
				report(c, "C32/ledger-disagrees-with-reported-results:sequential:"+handler, detail(map[string]any{"new_logs": newLogs, "reported_applied": applied}))
			}
			if nFail == 0 && anyFailed {
				report(c, "C32/sequential-bulk-failed-without-a-failing-element:"+handler, detail(map[string]any{"first_failure": firstFailure}))
			}
		case !parallel && cont:
			for i, res := range out.Data {
				if !els[i].Fails && res.ErrorCode != "" {
					report(c, "C32/continue-on-failure-skipped-a-valid-element:"+handler, detail(map[string]any{"index": i}))
					break
				}
			}
			if newLogs != applied {
				report(c, "C32/ledger-disagrees-with-reported-results:continue:"+handler, detail(map[string]any{"new_logs": newLogs, "reported_applied": applied}))
			}
		default: // parallel
			if newLogs != applied {
				report(c, "C32/ledger-disagrees-with-reported-results:parallel:"+handler, detail(map[string]any{"new_logs": newLogs, "reported_applied": applied}))
			}
			if cont {
				for i, res := range out.Data {
					if !els[i].Fails && res.ErrorCode != "" {
						report(c, "C32/continue-on-failure-skipped-a-valid-element:parallel:"+handler, detail(map[string]any{"index": i}))
						break
					}
				}
			}
		}
		if !(atomic && anyFailed) && e.Listener.Len()-evBefore != newLogs {
			report(c, "C31/bulk-events-differ-from-committed-writes:"+sigBase, detail(map[string]any{"events": e.Listener.Len() - evBefore, "new_logs": newLogs}))
		}
		if c.Index < 2 {
			r.Sample(map[string]any{"options": opts, "handler": handler, "elements": kinds, "status": resp.Status})
		}
	})
	if r.RaceMode {
		return
	}
	// Idempotency keys of bulk elements: "each successful element's result matches what the same
	// request would return on its own" includes the element's `ik` — a request replayed with its key
	// is answered from the original log and writes nothing. A bulk with one keyed element of every
	// action kind (random order) is posted twice; the replay must leave the ledger untouched and
	// report the same log id for every element.
	nIK := r.N(60, 1500)
	r.Floor("ik_replays_compared", int64(nIK/2))
	r.ForEach("ik_replay", nIK, 0, func(c *core.Case) {
		rng := c.Rng
		e := sim.NewEnv(sim.Options{})
		defer e.Close()
		_ = e.CreateLedger("l1", "_default", nil)
		e.Apply("l1", sim.Op{Kind: "postings", Postings: []sim.P{{Source: "world", Destination: "bank", Asset: "USD", Amount: "100"}}})
		e.Apply("l1", sim.Op{Kind: "postings", Postings: []sim.P{{Source: "world", Destination: "bank", Asset: "USD", Amount: "5"}}})
		e.Apply("l1", sim.Op{Kind: "save_acc_meta", Address: "bank", Metadata: map[string]string{"ka": "v"}})
		e.Apply("l1", sim.Op{Kind: "save_tx_meta", TxID: 1, Metadata: map[string]string{"kt": "v"}})
		parts := []string{
			`{"action":"CREATE_TRANSACTION","ik":"ik-create","data":{"postings":[{"source":"world","destination":"x","asset":"USD","amount":3}]}}`,
			`{"action":"ADD_METADATA","ik":"ik-add-acc","data":{"targetType":"ACCOUNT","targetId":"bank","metadata":{"n":"1"}}}`,
			`{"action":"ADD_METADATA","ik":"ik-add-tx","data":{"targetType":"TRANSACTION","targetId":1,"metadata":{"n":"1"}}}`,
			`{"action":"DELETE_METADATA","ik":"ik-del-acc","data":{"targetType":"ACCOUNT","targetId":"bank","key":"ka"}}`,
			`{"action":"DELETE_METADATA","ik":"ik-del-tx","data":{"targetType":"TRANSACTION","targetId":1,"key":"kt"}}`,
			`{"action":"REVERT_TRANSACTION","ik":"ik-revert","data":{"id":2}}`,
		}
		rng.Shuffle(len(parts), func(i, j int) { parts[i], parts[j] = parts[j], parts[i] })
		parts = parts[:1+rng.Intn(len(parts))]
		opts := []string{"", "atomic=true", "continueOnFailure=true"}[rng.Intn(3)]
		path := "/v2/l1/_bulk"
		if opts != "" {
			path += "?" + opts
		}
		body := "[" + strings.Join(parts, ",") + "]"
		type resT struct {
			Data []struct {
				ErrorCode    string `json:"errorCode"`
				ResponseType string `json:"responseType"`
				LogID        uint64 `json:"logID"`
			} `json:"data"`
		}
		post := func() (int, resT) {
			resp := e.DoCtx(memstore.WithClient(context.Background(), 1), "POST", path, []byte(body), map[string]string{})
			var out resT
			_ = json.Unmarshal(resp.Body, &out)
			return resp.Status, out
		}
		st1, out1 := post()
		if st1 != 200 || len(out1.Data) != len(parts) {
			r.Count("ik_first_post_not_200", 1)
			return
		}
		mid := e.C.Snapshot("l1").Digest()
		st2, out2 := post()
		after := e.C.Snapshot("l1").Digest()
		r.Count("ik_replays_compared", 1)
		r.Seen("ik_replay_shapes", fmt.Sprintf("%s n=%d", opts, len(parts)))
		detail := map[string]any{"options": opts, "body": body, "first_status": st1, "replay_status": st2, "first": out1, "replay": out2}
		if mid != after {
			report(c, "C32/keyed-bulk-replayed-with-the-same-keys-changed-the-ledger", detail)
			return
		}
		if st2 != 200 || len(out2.Data) != len(parts) {
			report(c, "C32/keyed-bulk-replay-not-answered-like-the-original", detail)
			return
		}
		for i := range out1.Data {
			if out1.Data[i].LogID != out2.Data[i].LogID || out2.Data[i].ErrorCode != "" {
				report(c, "C32/keyed-bulk-replay-element-answered-from-another-log", detail)
				return
			}
		}
	})
}
