package checks

import (
	"bytes"
	"encoding/json"
	"fmt"
	"math/big"
	"math/rand"
	"reflect"
	"sort"
	"strings"
	"time"

	libtime "github.com/formancehq/go-libs/v5/pkg/types/time"

	ledger "github.com/formancehq/ledger/internal"
	"github.com/formancehq/ledger/internal/queries"
	"github.com/formancehq/ledger/verifharness/core"
)

// C30 — Schemas round-trip without changing meaning.
//
// The operation under test is the round trip itself, done by the REAL
// (Un)MarshalJSON of ledger.ChartOfAccounts / ChartSegment / ChartVariableSegment,
// ledger.SchemaData, ledger.Schema, ledger.TransactionTemplate(s),
// ledger.QueryTemplate(s) and queries.VarDecl. The oracle is differential:
// the schema parsed from the request body (what insertSchema does) versus the
// schema obtained after each round trip must
//   - have the same chart (own structural comparison, nil map == empty map),
//   - classify every probe address identically through the real
//     ChartOfAccounts.FindAccountSchema (accepted/rejected, same DefaultMetadata()),
//   - keep the same transaction templates and query templates (RawMessage fields
//     compared as JSON values, numbers by exact value), and the same
//     Validate() verdicts.

func init() {
	core.Register(&core.Check{
		ID: "C30", Level: "exploration",
		Rule: "one case = one random schema document {chart, transactions, queries} accepted by the real decoder + NewSchema: chart of depth<=4 with 1-4 root segments, 0-3 fixed children per node, " +
			"at most one `$variable` child (optional `.pattern` from a pool incl. unanchored, HTML-sensitive and non-ASCII regexes), `.self`, `.metadata` (with/without default, empty and non-ASCII values), `.rules`, unknown dotted keys; " +
			"0-3 transaction templates (all runtimes) and 0-3 query templates (all 4 resources; params, vars in short and long form with defaults incl. >2^64 integers, filter bodies) written with random key order/whitespace. " +
			"Round trips: Marshal->Unmarshal of the chart (x1, x2), of SchemaData, of Schema, and per-column (chart/transactions/queries) Marshal -> jsonb-style normalisation (keys reordered by length then bytes, whitespace, numbers re-encoded, no HTML escapes) -> Unmarshal. " +
			"Probes per chart: 200 random addresses (random walks + noise) plus boundary addresses (every path, each with one segment altered / made non-matching, one segment shorter, one segment longer; capped at 400). " +
			"Shape = (depth, #variable segments, #patterns, #.self, #accounts with metadata, #tx templates, #query templates). Non-trivial = the chart has a variable segment, a `.self` or a `.metadata`, and the probes contain both an accepted and a rejected address.",
		Assumptions: []string{
			"a jsonb column is modelled as: the bytes produced by json.Marshal of the column value (what bun sends), normalised the way jsonb does (object keys deduplicated and reordered, insignificant whitespace dropped, numbers kept as exact decimals, strings unescaped), then json.Unmarshal into the Go type (what bun's scan does); no Postgres runs in this sandbox",
			"`valid chart` = accepted by the real ChartOfAccounts.UnmarshalJSON and ledger.NewSchema (generated documents that are rejected are counted per error class and skipped)",
			"error texts of rejected addresses are compared too but a difference is only counted (the statement speaks of accepted/rejected and default metadata)",
			"Schema.CreatedAt/Version are outside the statement; their round trip is only counted",
		},
		Run: runC30,
	})
}

// ---------- random JSON writer (random key order and whitespace) ----------

type c30Raw string // pre-rendered JSON

func c30WS(rng *rand.Rand) string {
	switch rng.Intn(6) {
	case 0:
		return " "
	case 1:
		return "\n  "
	case 2:
		return "\t"
	default:
		return ""
	}
}

func c30Encode(rng *rand.Rand, v any, sb *strings.Builder) {
	switch x := v.(type) {
	case nil:
		sb.WriteString("null")
	case c30Raw:
		sb.WriteString(string(x))
	case bool:
		fmt.Fprintf(sb, "%v", x)
	case int:
		fmt.Fprintf(sb, "%d", x)
	case json.Number:
		sb.WriteString(string(x))
	case string:
		b, _ := json.Marshal(x)
		if rng.Intn(3) == 0 { // without HTML escaping
			var bb bytes.Buffer
			enc := json.NewEncoder(&bb)
			enc.SetEscapeHTML(false)
			_ = enc.Encode(x)
			b = bytes.TrimRight(bb.Bytes(), "\n")
		}
		sb.Write(b)
	case []any:
		sb.WriteString("[" + c30WS(rng))
		for i, e := range x {
			if i > 0 {
				sb.WriteString("," + c30WS(rng))
			}
			c30Encode(rng, e, sb)
		}
		sb.WriteString(c30WS(rng) + "]")
	case map[string]any:
		keys := make([]string, 0, len(x))
		for k := range x {
			keys = append(keys, k)
		}
		sort.Strings(keys)
		rng.Shuffle(len(keys), func(i, j int) { keys[i], keys[j] = keys[j], keys[i] })
		sb.WriteString("{" + c30WS(rng))
		for i, k := range keys {
			if i > 0 {
				sb.WriteString("," + c30WS(rng))
			}
			kb, _ := json.Marshal(k)
			sb.Write(kb)
			sb.WriteString(c30WS(rng) + ":" + c30WS(rng))
			c30Encode(rng, x[k], sb)
		}
		sb.WriteString(c30WS(rng) + "}")
	default:
		panic(fmt.Sprintf("c30Encode: unsupported %T", v))
	}
}

func c30JSON(rng *rand.Rand, v any) string {
	var sb strings.Builder
	c30Encode(rng, v, &sb)
	return sb.String()
}

// ---------- jsonb-style normalisation ----------

func c30JsonbNumber(s string) string {
	if !strings.ContainsAny(s, "eE") {
		if s == "-0" {
			return "0"
		}
		return s
	}
	r, ok := new(big.Rat).SetString(s)
	if !ok {
		return s
	}
	if r.IsInt() {
		return r.Num().String()
	}
	// enough decimals to be exact: denominator is 2^a*5^b with a,b <= digits of exponent
	for prec := 1; prec < 400; prec++ {
		txt := r.FloatString(prec)
		if back, ok := new(big.Rat).SetString(txt); ok && back.Cmp(r) == 0 {
			return txt
		}
	}
	return s
}

func c30JsonbWrite(v any, sb *bytes.Buffer) {
	switch x := v.(type) {
	case nil:
		sb.WriteString("null")
	case bool:
		fmt.Fprintf(sb, "%v", x)
	case json.Number:
		sb.WriteString(c30JsonbNumber(string(x)))
	case string:
		var bb bytes.Buffer
		enc := json.NewEncoder(&bb)
		enc.SetEscapeHTML(false)
		_ = enc.Encode(x)
		sb.Write(bytes.TrimRight(bb.Bytes(), "\n"))
	case []any:
		sb.WriteString("[")
		for i, e := range x {
			if i > 0 {
				sb.WriteString(", ")
			}
			c30JsonbWrite(e, sb)
		}
		sb.WriteString("]")
	case map[string]any:
		keys := make([]string, 0, len(x))
		for k := range x {
			keys = append(keys, k)
		}
		sort.Slice(keys, func(i, j int) bool { // jsonb order: shorter keys first, then bytewise
			if len(keys[i]) != len(keys[j]) {
				return len(keys[i]) < len(keys[j])
			}
			return keys[i] < keys[j]
		})
		sb.WriteString("{")
		for i, k := range keys {
			if i > 0 {
				sb.WriteString(", ")
			}
			c30JsonbWrite(k, sb)
			sb.WriteString(": ")
			c30JsonbWrite(x[k], sb)
		}
		sb.WriteString("}")
	default:
		panic(fmt.Sprintf("c30JsonbWrite: unsupported %T", v))
	}
}

func c30Jsonb(b []byte) ([]byte, error) {
	dec := json.NewDecoder(bytes.NewReader(b))
	dec.UseNumber()
	var v any
	if err := dec.Decode(&v); err != nil {
		return nil, err
	}
	var out bytes.Buffer
	c30JsonbWrite(v, &out)
	return out.Bytes(), nil
}

// ---------- generators ----------

type c30Pattern struct{ re, match, nomatch string }

var c30Patterns = []c30Pattern{
	{`^[0-9]{3}$`, "123", "12a"},
	{`^[a-z]+$`, "abc", "ABC"},
	{`.*`, "anything", ""},
	{`^(eu|us)$`, "eu", "uk"},
	{`[0-9]+`, "x1y", "xyz"}, // unanchored
	{`^u-[0-9a-f]{4}$`, "u-00af", "u-zz"},
	{`^[A-Z]{2}[0-9]{2}$`, "FR76", "fr76"},
	{`^[^<>&]+$`, "ok", "a<b"}, // HTML-escaped by encoding/json
	{`^\d{2}$`, "42", "4"},     // backslash
	{`^(é|ü)+$`, "éü", "e"},    // non-ASCII
	{`^"?q"?$`, "q", "p"},      // quotes
	{`^$`, "", "x"},            // only the empty segment
}

var c30Names = []string{"users", "banks", "main", "out", "pending_out", "001", "a", "A", "x-y", "x_y", "self", "metadata", "pattern", "rules", "world", "orders", "fees", "eu", "123", "abc", "zz9"}
var c30Labels = []string{"id", "userID", "iban", "main", "x", "a-b", "a_b", "0"}
var c30Strings = []string{"", "BAR", "a b", "é€", "<tag>&amp;", "line\nbreak", "tab\t", `quote"back\slash`, "0", "null", "{}", "EUR/2", "日本"}

type c30ChartStats struct{ depth, variables, patterns, selfs, metas, nodes int }

func c30GenSegment(rng *rand.Rand, depth int, variable bool, st *c30ChartStats) map[string]any {
	st.nodes++
	seg := map[string]any{}
	if variable {
		st.variables++
		if rng.Intn(3) > 0 {
			seg[".pattern"] = c30Patterns[rng.Intn(len(c30Patterns))].re
			st.patterns++
		}
	}
	children := 0
	if depth < 4 {
		k := rng.Intn(4)
		if depth >= 3 {
			k = rng.Intn(3)
		}
		if rng.Intn(4) == 0 {
			k = 0
		}
		for i := 0; i < k; i++ {
			name := c30Names[rng.Intn(len(c30Names))]
			if _, dup := seg[name]; dup {
				continue
			}
			seg[name] = c30GenSegment(rng, depth+1, false, st)
			children++
		}
		if rng.Intn(3) == 0 {
			seg["$"+c30Labels[rng.Intn(len(c30Labels))]] = c30GenSegment(rng, depth+1, true, st)
			children++
		}
	}
	if depth > st.depth {
		st.depth = depth
	}
	account := children == 0
	if children > 0 && rng.Intn(5) < 2 {
		seg[".self"] = map[string]any{}
		st.selfs++
		account = true
	}
	if account {
		if rng.Intn(2) == 0 {
			md := map[string]any{}
			for i, k := 0, rng.Intn(4); i < k; i++ {
				key := []string{"foo", "bar", "k-1", "K", "é", "a b", "<k>"}[rng.Intn(7)]
				if rng.Intn(3) == 0 {
					md[key] = map[string]any{}
				} else {
					md[key] = map[string]any{"default": c30Strings[rng.Intn(len(c30Strings))]}
				}
			}
			seg[".metadata"] = md
			st.metas++
		}
		if rng.Intn(8) == 0 {
			seg[".rules"] = map[string]any{}
		}
	}
	if rng.Intn(25) == 0 {
		seg[".note"] = "unknown dotted keys are ignored by the decoder"
	}
	return seg
}

func c30GenChart(rng *rand.Rand) (map[string]any, c30ChartStats) {
	st := c30ChartStats{}
	chart := map[string]any{}
	for i, k := 0, 1+rng.Intn(4); i < k; i++ {
		name := c30Names[rng.Intn(len(c30Names))]
		if _, dup := chart[name]; dup {
			continue
		}
		chart[name] = c30GenSegment(rng, 1, false, &st)
	}
	return chart, st
}

func c30GenTxTemplates(rng *rand.Rand) map[string]any {
	out := map[string]any{}
	for i, k := 0, rng.Intn(4); i < k; i++ {
		t := map[string]any{
			"description": c30Strings[rng.Intn(len(c30Strings))],
			"script": []string{
				"send [COIN 100] (\n  source = @world\n  destination = @users:001\n)",
				"vars {\n  account $a\n  monetary $m\n}\nsend $m (\n  source = @world\n  destination = $a\n)\nset_tx_meta(\"k\", \"<v> & \\\"q\\\"\")",
				"",
				"not a script at all é <>",
			}[rng.Intn(4)],
		}
		switch rng.Intn(4) {
		case 0:
			t["runtime"] = "machine"
		case 1:
			t["runtime"] = "experimental-interpreter"
		case 2:
			t["runtime"] = ""
		}
		out[[]string{"PAY", "refund", "t-1", "é", "a b"}[rng.Intn(5)]] = t
	}
	return out
}

func c30GenQueryTemplates(rng *rand.Rand) map[string]any {
	out := map[string]any{}
	big1 := json.Number("340282366920938463463374607431768211456") // 2^128
	for i, k := 0, rng.Intn(4); i < k; i++ {
		var t map[string]any
		switch rng.Intn(7) {
		case 0:
			t = map[string]any{"resource": "accounts", "vars": map[string]any{"iban": "string"},
				"body": map[string]any{"$match": map[string]any{"address": "banks:${iban}:"}}}
		case 1:
			t = map[string]any{"resource": "volumes", "params": map[string]any{"pageSize": 42, "groupBy": 2}}
		case 2:
			t = map[string]any{"resource": "accounts", "vars": map[string]any{"foo": "string", "bar": map[string]any{"type": "string", "default": c30Strings[rng.Intn(len(c30Strings))]}},
				"body": map[string]any{"$in": map[string]any{"metadata[foo]": []any{"${foo}", "${bar}", "<lit>&"}}}}
		case 3:
			t = map[string]any{"resource": "accounts", "vars": map[string]any{"min": map[string]any{"type": "int", "default": []any{json.Number("0"), json.Number("-5"), big1, json.Number("18446744073709551616")}[rng.Intn(4)]}},
				"params": map[string]any{"sort": "address:desc", "pageSize": 1 + rng.Intn(100), "expand": []any{"volumes"}},
				"body": map[string]any{"$and": []any{
					map[string]any{"$gte": map[string]any{"balance[EUR/2]": "${min}"}},
					map[string]any{"$lt": map[string]any{"balance[COIN]": big1}},
					map[string]any{"$not": map[string]any{"$exists": map[string]any{"metadata": "flag"}}},
				}}}
		case 4:
			t = map[string]any{"resource": "transactions", "vars": map[string]any{"rev": map[string]any{"type": "boolean", "default": rng.Intn(2) == 0}, "since": map[string]any{"type": "date", "default": "2024-01-02T03:04:05Z"}, "ref": "string"},
				"params": map[string]any{"sort": "timestamp:asc", "endTime": "2025-06-01T00:00:00Z"},
				"body": map[string]any{"$or": []any{
					map[string]any{"$match": map[string]any{"reverted": "${rev}"}},
					map[string]any{"$gt": map[string]any{"timestamp": "${since}"}},
					map[string]any{"$like": map[string]any{"reference": "inv-${ref}%"}},
					map[string]any{"$match": map[string]any{"id": rng.Intn(1000)}},
				}}}
		case 5:
			t = map[string]any{"resource": "logs", "params": map[string]any{"pageSize": 5, "sort": "id"},
				"body": map[string]any{"$lte": map[string]any{"id": json.Number("9007199254740993")}}}
		default:
			t = map[string]any{"resource": []string{"accounts", "transactions", "logs", "volumes"}[rng.Intn(4)]}
		}
		if rng.Intn(2) == 0 {
			t["description"] = c30Strings[rng.Intn(len(c30Strings))]
		}
		out[[]string{"Q1", "by-iban", "q_2", "é", "a b"}[rng.Intn(5)]] = t
	}
	return out
}

// ---------- comparisons ----------

func c30AccountDiff(path string, a, b *ledger.ChartAccount) string {
	if (a == nil) != (b == nil) {
		return fmt.Sprintf("%s: account-ness differs (%v vs %v)", path, a != nil, b != nil)
	}
	if a == nil {
		return ""
	}
	if len(a.Metadata) != len(b.Metadata) {
		return fmt.Sprintf("%s: .metadata keys differ", path)
	}
	for k, va := range a.Metadata {
		vb, ok := b.Metadata[k]
		if !ok {
			return fmt.Sprintf("%s: .metadata key %q lost", path, k)
		}
		if (va.Default == nil) != (vb.Default == nil) || (va.Default != nil && *va.Default != *vb.Default) {
			return fmt.Sprintf("%s: .metadata[%q].default differs", path, k)
		}
	}
	if a.Rules != b.Rules {
		return fmt.Sprintf("%s: .rules differ", path)
	}
	return ""
}

func c30SegmentDiff(path string, a, b ledger.ChartSegment) string {
	if d := c30AccountDiff(path, a.Account, b.Account); d != "" {
		return d
	}
	if len(a.FixedSegments) != len(b.FixedSegments) {
		return fmt.Sprintf("%s: fixed children differ", path)
	}
	for k, ca := range a.FixedSegments {
		cb, ok := b.FixedSegments[k]
		if !ok {
			return fmt.Sprintf("%s: fixed child %q lost", path, k)
		}
		if d := c30SegmentDiff(path+":"+k, ca, cb); d != "" {
			return d
		}
	}
	if (a.VariableSegment == nil) != (b.VariableSegment == nil) {
		return fmt.Sprintf("%s: variable child presence differs", path)
	}
	if a.VariableSegment != nil {
		va, vb := a.VariableSegment, b.VariableSegment
		if va.Label != vb.Label {
			return fmt.Sprintf("%s: variable label differs", path)
		}
		if (va.Pattern == nil) != (vb.Pattern == nil) || (va.Pattern != nil && *va.Pattern != *vb.Pattern) {
			return fmt.Sprintf("%s: variable pattern differs", path)
		}
		return c30SegmentDiff(path+":$"+va.Label, va.ChartSegment, vb.ChartSegment)
	}
	return ""
}

func c30ChartDiff(a, b ledger.ChartOfAccounts) string {
	if len(a) != len(b) {
		return "root: segments differ"
	}
	for k, sa := range a {
		sb, ok := b[k]
		if !ok {
			return fmt.Sprintf("root: segment %q lost", k)
		}
		if d := c30SegmentDiff(k, sa, sb); d != "" {
			return d
		}
	}
	return ""
}

// c30DiffClass strips the path so that signatures are stable across seeds.
func c30DiffClass(d string) string {
	if i := strings.Index(d, ": "); i >= 0 {
		d = d[i+2:]
	}
	if i := strings.Index(d, " \""); i >= 0 {
		d = d[:i]
	}
	if i := strings.Index(d, "["); i >= 0 {
		d = d[:i] + "[k].default differs"
	}
	return strings.ReplaceAll(d, " ", "-")
}

type c30Verdict struct {
	ok   bool
	meta map[string]string
	err  string
}

func c30Classify(ch ledger.ChartOfAccounts, addr string) c30Verdict {
	acc, err := ch.FindAccountSchema(addr)
	if err != nil {
		return c30Verdict{err: err.Error()}
	}
	if acc == nil {
		return c30Verdict{err: "<nil account, nil error>"}
	}
	m := map[string]string{}
	for k, v := range acc.DefaultMetadata() {
		m[k] = v
	}
	return c30Verdict{ok: true, meta: m}
}

func c30JSONValueEqual(a, b any) bool {
	switch x := a.(type) {
	case json.Number:
		y, ok := b.(json.Number)
		if !ok {
			return false
		}
		rx, ok1 := new(big.Rat).SetString(string(x))
		ry, ok2 := new(big.Rat).SetString(string(y))
		if !ok1 || !ok2 {
			return string(x) == string(y)
		}
		return rx.Cmp(ry) == 0
	case []any:
		y, ok := b.([]any)
		if !ok || len(x) != len(y) {
			return false
		}
		for i := range x {
			if !c30JSONValueEqual(x[i], y[i]) {
				return false
			}
		}
		return true
	case map[string]any:
		y, ok := b.(map[string]any)
		if !ok || len(x) != len(y) {
			return false
		}
		for k, vx := range x {
			vy, ok := y[k]
			if !ok || !c30JSONValueEqual(vx, vy) {
				return false
			}
		}
		return true
	default:
		return reflect.DeepEqual(a, b)
	}
}

func c30RawEqual(a, b json.RawMessage) bool {
	if len(bytes.TrimSpace(a)) == 0 || len(bytes.TrimSpace(b)) == 0 {
		return len(bytes.TrimSpace(a)) == len(bytes.TrimSpace(b))
	}
	dec := func(r json.RawMessage) (any, error) {
		d := json.NewDecoder(bytes.NewReader(r))
		d.UseNumber()
		var v any
		err := d.Decode(&v)
		return v, err
	}
	va, ea := dec(a)
	vb, eb := dec(b)
	if ea != nil || eb != nil {
		return bytes.Equal(a, b)
	}
	return c30JSONValueEqual(va, vb)
}

func c30TxDiff(a, b ledger.TransactionTemplates) string {
	if len(a) != len(b) {
		return "transaction-templates: count differs"
	}
	for k, ta := range a {
		tb, ok := b[k]
		if !ok {
			return "transaction-templates: name lost"
		}
		if ta.Description != tb.Description {
			return "transaction-templates: description differs"
		}
		if ta.Script != tb.Script {
			return "transaction-templates: script differs"
		}
		if ta.Runtime != tb.Runtime {
			return "transaction-templates: runtime differs"
		}
	}
	return ""
}

func c30DefaultEqual(a, b any) bool {
	// defaults are decoded with UseNumber by VarDecl.UnmarshalJSON
	return c30JSONValueEqual(a, b)
}

func c30QueryDiff(a, b ledger.QueryTemplates) string {
	if len(a) != len(b) {
		return "query-templates: count differs"
	}
	for k, qa := range a {
		qb, ok := b[k]
		if !ok {
			return "query-templates: name lost"
		}
		if qa.Description != qb.Description {
			return "query-templates: description differs"
		}
		if qa.Resource != qb.Resource {
			return "query-templates: resource differs"
		}
		if !c30RawEqual(qa.Params, qb.Params) {
			return "query-templates: params differ"
		}
		if !c30RawEqual(qa.Body, qb.Body) {
			return "query-templates: body differs"
		}
		if len(qa.Vars) != len(qb.Vars) {
			return "query-templates: vars count differs"
		}
		for name, da := range qa.Vars {
			db, ok := qb.Vars[name]
			if !ok {
				return "query-templates: var lost"
			}
			if (da.Type == nil) != (db.Type == nil) || (da.Type != nil && queries.FieldTypeToString(da.Type) != queries.FieldTypeToString(db.Type)) {
				return "query-templates: var type differs"
			}
			if !c30DefaultEqual(da.Default, db.Default) {
				return "query-templates: var default differs"
			}
		}
	}
	return ""
}

// ---------- probe addresses ----------

type c30Walker struct {
	rng   *rand.Rand
	paths [][]string // a concrete address per chart node (variable segments instantiated)
	vars  [][]bool   // which positions are variable segments
	alts  [][]string // non-matching example for each position ("" entry = none)
}

func c30PatternExamples(p *string, rng *rand.Rand) (match, nomatch string) {
	if p == nil {
		return []string{"v1", "anything", "0", "A-b_c"}[rng.Intn(4)], ""
	}
	for _, e := range c30Patterns {
		if e.re == *p {
			return e.match, e.nomatch
		}
	}
	return "x1", "???"
}

func (w *c30Walker) walk(prefix []string, isVar []bool, alts []string, fixed map[string]ledger.ChartSegment, variable *ledger.ChartVariableSegment) {
	names := make([]string, 0, len(fixed))
	for k := range fixed {
		names = append(names, k)
	}
	sort.Strings(names)
	for _, k := range names {
		p := append(append([]string{}, prefix...), k)
		v := append(append([]bool{}, isVar...), false)
		a := append(append([]string{}, alts...), "")
		w.paths, w.vars, w.alts = append(w.paths, p), append(w.vars, v), append(w.alts, a)
		w.walk(p, v, a, fixed[k].FixedSegments, fixed[k].VariableSegment)
	}
	if variable != nil {
		m, nm := c30PatternExamples(variable.Pattern, w.rng)
		p := append(append([]string{}, prefix...), m)
		v := append(append([]bool{}, isVar...), true)
		a := append(append([]string{}, alts...), nm)
		w.paths, w.vars, w.alts = append(w.paths, p), append(w.vars, v), append(w.alts, a)
		w.walk(p, v, a, variable.FixedSegments, variable.VariableSegment)
	}
}

func c30Probes(rng *rand.Rand, ch ledger.ChartOfAccounts) (random []string, boundary []string) {
	w := &c30Walker{rng: rng}
	w.walk(nil, nil, nil, map[string]ledger.ChartSegment(ch), nil)
	seen := map[string]struct{}{}
	add := func(dst *[]string, segs []string) {
		a := strings.Join(segs, ":")
		if _, dup := seen[a]; dup {
			return
		}
		seen[a] = struct{}{}
		*dst = append(*dst, a)
	}
	for i, p := range w.paths {
		add(&boundary, p)
		if len(p) > 1 {
			add(&boundary, p[:len(p)-1]) // too short
		}
		add(&boundary, append(append([]string{}, p...), "extra"))                           // too long
		add(&boundary, append(append([]string{}, p...), c30Names[rng.Intn(len(c30Names))])) // too long, plausible name
		add(&boundary, append(append([]string{}, p...), ""))                                // trailing ':'
		for j := range p {
			q := append([]string{}, p...)
			q[j] = "zz9-altered"
			add(&boundary, q)
			if w.vars[i][j] {
				q = append([]string{}, p...)
				q[j] = w.alts[i][j]
				add(&boundary, q)
			} else {
				q = append([]string{}, p...)
				q[j] = strings.ToUpper(p[j]) + "x"
				add(&boundary, q)
			}
		}
	}
	if len(boundary) > 400 {
		rng.Shuffle(len(boundary), func(i, j int) { boundary[i], boundary[j] = boundary[j], boundary[i] })
		boundary = boundary[:400]
	}
	noise := []string{"", "world", "zz9", "001", "a", "éü", "x1y", "12a", "u-00af", "eu", "uk", "FR76", "42", "a<b", "q", "ok"}
	for tries := 0; len(random) < 200 && tries < 2000; tries++ {
		var segs []string
		if len(w.paths) > 0 && rng.Intn(5) > 0 {
			segs = append(segs, w.paths[rng.Intn(len(w.paths))]...)
			for m := rng.Intn(3); m > 0 && len(segs) > 0; m-- { // mutate
				switch rng.Intn(4) {
				case 0:
					segs[rng.Intn(len(segs))] = noise[rng.Intn(len(noise))]
				case 1:
					segs = append(segs, c30Names[rng.Intn(len(c30Names))])
				case 2:
					segs = segs[:len(segs)-1]
				default:
					j := rng.Intn(len(segs))
					segs[j] = c30Patterns[rng.Intn(len(c30Patterns))].match
				}
			}
		} else {
			for m := 1 + rng.Intn(5); m > 0; m-- {
				if rng.Intn(2) == 0 {
					segs = append(segs, c30Names[rng.Intn(len(c30Names))])
				} else {
					segs = append(segs, noise[rng.Intn(len(noise))])
				}
			}
		}
		if len(segs) == 0 {
			segs = []string{""}
		}
		add(&random, segs)
	}
	return random, boundary
}

// ---------- the check ----------

type c30Variant struct {
	name    string
	chart   ledger.ChartOfAccounts
	txs     ledger.TransactionTemplates
	queries ledger.QueryTemplates
	hasTpl  bool
	wire    string
}

func c30ErrClass(err error) string {
	s := c24Digits.ReplaceAllString(err.Error(), "N")
	if i := strings.Index(s, "`"); i >= 0 {
		s = s[:i]
	}
	if len(s) > 70 {
		s = s[:70]
	}
	return s
}

func runC30(r *core.Run) {
	r.Floor("distinct_nontrivial", 300)
	r.Floor("schemas_checked", 1000)
	r.Floor("addresses_accepted", 5000)
	r.Floor("addresses_rejected", 5000)
	r.Floor("accepted_with_default_metadata", 300)
	r.Floor("charts_with_pattern", 200)
	r.Floor("charts_with_self", 200)
	r.Floor("schemas_with_query_templates", 200)
	r.Floor("schemas_with_tx_templates", 200)

	r.ForEach("main", r.N(5_000, 100_000), 0, func(c *core.Case) {
		rng := c.Rng
		chartDoc, st := c30GenChart(rng)
		doc := map[string]any{"chart": chartDoc}
		txDoc, qDoc := c30GenTxTemplates(rng), c30GenQueryTemplates(rng)
		if len(txDoc) > 0 || rng.Intn(4) == 0 {
			doc["transactions"] = txDoc
		}
		if len(qDoc) > 0 || rng.Intn(4) == 0 {
			doc["queries"] = qDoc
		}
		body := c30JSON(rng, doc)

		// what insertSchema does with a request body
		var data ledger.SchemaData
		if err := json.NewDecoder(strings.NewReader(body)).Decode(&data); err != nil {
			r.Count("generated_documents_rejected", 1)
			r.Seen("reject_classes", "decode: "+c30ErrClass(err))
			return
		}
		schema, err := ledger.NewSchema("v1", data)
		if err != nil {
			r.Count("generated_documents_rejected", 1)
			r.Seen("reject_classes", "NewSchema: "+c30ErrClass(err))
			return
		}
		schema.CreatedAt = libtime.New(time.Unix(1_700_000_000+int64(rng.Intn(1_000_000)), int64(rng.Intn(1_000_000))*1000).UTC())
		orig := data

		fail := func(variant, class string, extra map[string]any) {
			d := map[string]any{"request_body": body, "variant": variant}
			for k, v := range extra {
				d[k] = v
			}
			c.Violation("C30/"+variant+":"+class, d)
		}

		var variants []c30Variant
		// chart alone: 1 and 2 round trips
		b1, err := json.Marshal(orig.Chart)
		if err != nil {
			fail("chart-json", "marshal-error", map[string]any{"error": err.Error()})
			return
		}
		var ch1 ledger.ChartOfAccounts
		if err := json.Unmarshal(b1, &ch1); err != nil {
			fail("chart-json", "marshalled-chart-not-accepted-back", map[string]any{"error": err.Error(), "wire": string(b1)})
			return
		}
		variants = append(variants, c30Variant{name: "chart-json", chart: ch1, wire: string(b1)})
		b2, err := json.Marshal(ch1)
		var ch2 ledger.ChartOfAccounts
		if err == nil {
			err = json.Unmarshal(b2, &ch2)
		}
		if err != nil {
			fail("chart-json-x2", "second-round-trip-error", map[string]any{"error": err.Error(), "wire": string(b2)})
			return
		}
		variants = append(variants, c30Variant{name: "chart-json-x2", chart: ch2, wire: string(b2)})

		// whole SchemaData / Schema
		bd, err := json.Marshal(orig)
		var d1 ledger.SchemaData
		if err == nil {
			err = json.Unmarshal(bd, &d1)
		}
		if err != nil {
			fail("schemadata-json", "round-trip-error", map[string]any{"error": err.Error(), "wire": string(bd)})
			return
		}
		variants = append(variants, c30Variant{name: "schemadata-json", chart: d1.Chart, txs: d1.Transactions, queries: d1.Queries, hasTpl: true, wire: string(bd)})
		bs, err := json.Marshal(schema)
		var s1 ledger.Schema
		if err == nil {
			err = json.Unmarshal(bs, &s1)
		}
		if err != nil {
			fail("schema-json", "round-trip-error", map[string]any{"error": err.Error(), "wire": string(bs)})
			return
		}
		variants = append(variants, c30Variant{name: "schema-json", chart: s1.Chart, txs: s1.Transactions, queries: s1.Queries, hasTpl: true, wire: string(bs)})
		if s1.Version != schema.Version {
			r.Count("schema_version_changed", 1)
		}
		if !s1.CreatedAt.Equal(schema.CreatedAt) {
			r.Count("schema_created_at_changed", 1)
		}
		// whole Schema through the jsonb normaliser (log payload / generic map re-encoding)
		if nb, err := c30Jsonb(bs); err == nil {
			var s2 ledger.Schema
			if err := json.Unmarshal(nb, &s2); err != nil {
				fail("schema-jsonb", "normalised-document-not-accepted-back", map[string]any{"error": err.Error(), "wire": string(nb)})
				return
			}
			variants = append(variants, c30Variant{name: "schema-jsonb", chart: s2.Chart, txs: s2.Transactions, queries: s2.Queries, hasTpl: true, wire: string(nb)})
		} else {
			fail("schema-jsonb", "marshalled-schema-is-not-json", map[string]any{"error": err.Error(), "wire": string(bs)})
			return
		}
		// storage model: three jsonb columns
		{
			col := func(v any, into any, name string) (string, bool) {
				b, err := json.Marshal(v)
				if err != nil {
					fail("jsonb-columns", name+"-marshal-error", map[string]any{"error": err.Error()})
					return "", false
				}
				nb, err := c30Jsonb(b)
				if err != nil {
					fail("jsonb-columns", name+"-column-is-not-json", map[string]any{"error": err.Error(), "wire": string(b)})
					return "", false
				}
				if err := json.Unmarshal(nb, into); err != nil {
					fail("jsonb-columns", name+"-column-not-accepted-back", map[string]any{"error": err.Error(), "wire": string(nb)})
					return "", false
				}
				return string(nb), true
			}
			var s3 ledger.Schema
			w1, ok1 := col(orig.Chart, &s3.Chart, "chart")
			w2, ok2 := col(orig.Transactions, &s3.Transactions, "transactions")
			w3, ok3 := col(orig.Queries, &s3.Queries, "queries")
			if !ok1 || !ok2 || !ok3 {
				return
			}
			variants = append(variants, c30Variant{name: "jsonb-columns", chart: s3.Chart, txs: s3.Transactions, queries: s3.Queries, hasTpl: true, wire: w1 + "\n" + w2 + "\n" + w3})
		}

		random, boundary := c30Probes(rng, orig.Chart)
		probes := append(append([]string{}, random...), boundary...)
		base := make([]c30Verdict, len(probes))
		nOK, nKO, nMeta := 0, 0, 0
		for i, a := range probes {
			base[i] = c30Classify(orig.Chart, a)
			if base[i].ok {
				nOK++
				if len(base[i].meta) > 0 {
					nMeta++
				}
			} else {
				nKO++
			}
		}
		origTxErr, origQErr := orig.Transactions.Validate(), orig.Queries.Validate()

		for _, v := range variants {
			r.Seen("variants", v.name)
			if d := c30ChartDiff(orig.Chart, v.chart); d != "" {
				fail(v.name, "chart-differs:"+c30DiffClass(d), map[string]any{"difference": d, "wire": v.wire})
			}
			for i, a := range probes {
				got := c30Classify(v.chart, a)
				switch {
				case got.ok != base[i].ok:
					fail(v.name, fmt.Sprintf("address-classified-differently:accepted-%v-to-%v", base[i].ok, got.ok), map[string]any{"address": a, "before": base[i], "after": got, "wire": v.wire})
				case got.ok && !reflect.DeepEqual(got.meta, base[i].meta):
					fail(v.name, "default-metadata-differs", map[string]any{"address": a, "before": base[i].meta, "after": got.meta, "wire": v.wire})
				case !got.ok && got.err != base[i].err:
					r.Count("rejection_text_changed", 1)
				}
			}
			if v.hasTpl {
				if d := c30TxDiff(orig.Transactions, v.txs); d != "" {
					fail(v.name, strings.ReplaceAll(strings.ReplaceAll(d, ": ", ":"), " ", "-"), map[string]any{"wire": v.wire})
				}
				if d := c30QueryDiff(orig.Queries, v.queries); d != "" {
					fail(v.name, strings.ReplaceAll(strings.ReplaceAll(d, ": ", ":"), " ", "-"), map[string]any{"wire": v.wire})
				}
				if (v.txs.Validate() == nil) != (origTxErr == nil) {
					fail(v.name, "transaction-templates-validity-differs", map[string]any{"wire": v.wire})
				}
				if (v.queries.Validate() == nil) != (origQErr == nil) {
					fail(v.name, "query-templates-validity-differs", map[string]any{"wire": v.wire, "after": fmt.Sprint(v.queries.Validate())})
				}
			}
		}

		r.Count("schemas_checked", 1)
		r.Count("round_trips_checked", int64(len(variants)))
		r.Count("addresses_probed", int64(len(probes)))
		r.Count("boundary_addresses", int64(len(boundary)))
		r.Count("addresses_accepted", int64(nOK))
		r.Count("addresses_rejected", int64(nKO))
		r.Count("accepted_with_default_metadata", int64(nMeta))
		if st.patterns > 0 {
			r.Count("charts_with_pattern", 1)
		}
		if st.selfs > 0 {
			r.Count("charts_with_self", 1)
		}
		if st.metas > 0 {
			r.Count("charts_with_metadata", 1)
		}
		if len(orig.Queries) > 0 {
			r.Count("schemas_with_query_templates", 1)
			r.Count("query_templates", int64(len(orig.Queries)))
		}
		if len(orig.Transactions) > 0 {
			r.Count("schemas_with_tx_templates", 1)
		}
		r.Seen("depths", fmt.Sprint(st.depth))
		r.Eval(fmt.Sprintf("d%d|v%d|p%d|s%d|m%d|t%d|q%d", st.depth, st.variables, st.patterns, st.selfs, st.metas, len(orig.Transactions), len(orig.Queries)),
			(st.variables > 0 || st.selfs > 0 || st.metas > 0) && nOK > 0 && nKO > 0)
		if c.Index < 3 {
			r.Sample(map[string]any{"request_body": body, "chart_wire": string(b1), "probes": len(probes), "accepted": nOK, "rejected": nKO, "example_probes": probes[:c30Min(8, len(probes))]})
		}
	})
}

func c30Min(a, b int) int {
	if a < b {
		return a
	}
	return b
}
