package checks

// C38 — route table of the v2 and v1 routers (internal/api/v2/routes.go without
// exporters/pipelines, internal/api/v1/routes.go), one generator of VALID
// requests per route (several structural variants), and the seeding of a case's
// ledgers through the HTTP API itself.

import (
	"encoding/json"
	"fmt"
	"math/rand"
	"net/url"
	"sort"
	"strings"

	"github.com/formancehq/ledger/verifharness/sim"
)

const (
	c38CTJSON       = "application/json"
	c38CTScript     = "application/vnd.formance.ledger.api.v2.bulk+script-stream"
	c38CTJSONStream = "application/vnd.formance.ledger.api.v2.bulk+json-stream"
)

type c38Seg struct {
	Val   string
	Param string // "" for a literal segment
}

type c38KV struct{ K, V string }

// c38Req is a request description. Placeholders (substituted at send time):
// @@U@@ a per-case unique counter, @@NEWTX@@ the id of a freshly created,
// not yet reverted transaction.
type c38Req struct {
	Method  string
	Segs    []c38Seg
	Query   []c38KV
	Headers []c38KV
	Body    []byte
	NoBody  bool // true: send no body at all (Body ignored)
}

func (q c38Req) clone() c38Req {
	c := q
	c.Segs = append([]c38Seg(nil), q.Segs...)
	c.Query = append([]c38KV(nil), q.Query...)
	c.Headers = append([]c38KV(nil), q.Headers...)
	if q.Body != nil {
		c.Body = append([]byte{}, q.Body...)
	}
	return c
}

func (q c38Req) path() string {
	var sb strings.Builder
	for _, s := range q.Segs {
		sb.WriteByte('/')
		sb.WriteString(url.PathEscape(s.Val))
	}
	if sb.Len() == 0 {
		return "/"
	}
	return sb.String()
}

func (q c38Req) target() string {
	t := q.path()
	if len(q.Query) > 0 {
		var parts []string
		for _, kv := range q.Query {
			parts = append(parts, url.QueryEscape(kv.K)+"="+url.QueryEscape(kv.V))
		}
		t += "?" + strings.Join(parts, "&")
	}
	return t
}

func (q c38Req) header(k string) string {
	for _, kv := range q.Headers {
		if strings.EqualFold(kv.K, k) {
			return kv.V
		}
	}
	return ""
}

func (q c38Req) setHeader(k, v string) c38Req {
	c := q.clone()
	for i, kv := range c.Headers {
		if strings.EqualFold(kv.K, k) {
			c.Headers[i].V = v
			return c
		}
	}
	c.Headers = append(c.Headers, c38KV{k, v})
	return c
}

func (q c38Req) dropHeader(k string) c38Req {
	c := q.clone()
	c.Headers = nil
	for _, kv := range q.Headers {
		if !strings.EqualFold(kv.K, k) {
			c.Headers = append(c.Headers, kv)
		}
	}
	return c
}

func (q c38Req) setQuery(k, v string) c38Req {
	c := q.clone()
	for i, kv := range c.Query {
		if kv.K == k {
			c.Query[i].V = v
			return c
		}
	}
	c.Query = append(c.Query, c38KV{k, v})
	return c
}

func (q c38Req) addQuery(k, v string) c38Req {
	c := q.clone()
	c.Query = append(c.Query, c38KV{k, v})
	return c
}

func (q c38Req) dropQuery(k string) c38Req {
	c := q.clone()
	c.Query = nil
	for _, kv := range q.Query {
		if kv.K != k {
			c.Query = append(c.Query, kv)
		}
	}
	return c
}

func (q c38Req) getQuery(k string) (string, bool) {
	for _, kv := range q.Query {
		if kv.K == k {
			return kv.V, true
		}
	}
	return "", false
}

func (q c38Req) withBody(b []byte) c38Req {
	c := q.clone()
	c.Body = b
	c.NoBody = b == nil
	return c
}

func (q c38Req) setParam(name, val string) c38Req {
	c := q.clone()
	for i, s := range c.Segs {
		if s.Param == name {
			c.Segs[i].Val = val
		}
	}
	return c
}

// P marks a path parameter.
func c38P(name, val string) c38Seg { return c38Seg{Val: val, Param: name} }

func c38New(method string, segs ...any) c38Req {
	r := c38Req{Method: method, NoBody: true}
	for _, s := range segs {
		switch x := s.(type) {
		case string:
			for _, p := range strings.Split(strings.Trim(x, "/"), "/") {
				if p != "" {
					r.Segs = append(r.Segs, c38Seg{Val: p})
				}
			}
		case c38Seg:
			r.Segs = append(r.Segs, x)
		}
	}
	return r
}

func (q c38Req) q(kv ...string) c38Req {
	c := q.clone()
	for i := 0; i+1 < len(kv); i += 2 {
		c.Query = append(c.Query, c38KV{kv[i], kv[i+1]})
	}
	return c
}

func (q c38Req) h(kv ...string) c38Req {
	c := q.clone()
	for i := 0; i+1 < len(kv); i += 2 {
		c.Headers = append(c.Headers, c38KV{kv[i], kv[i+1]})
	}
	return c
}

func (q c38Req) json(v any) c38Req {
	c := q.clone()
	c.Body = c38Of(v).Bytes()
	c.NoBody = false
	return c
}

func (q c38Req) raw(b string) c38Req {
	c := q.clone()
	c.Body = []byte(b)
	c.NoBody = false
	return c
}

// ---------------------------------------------------------------------------
// generator state of one case

type c38Hist struct {
	Method  string            `json:"method"`
	Target  string            `json:"target"`
	Headers map[string]string `json:"headers,omitempty"`
	Body    string            `json:"body,omitempty"`
	BodyB64 string            `json:"body_base64,omitempty"`
	Status  int               `json:"status"`
}

type c38State struct {
	rng      *rand.Rand
	txIDs    []string
	accounts []string
	cursors  map[string]string // route key -> valid `next` cursor
	export   []string          // NDJSON lines of POST /v2/l1/logs/export
	history  []c38Hist
}

func (s *c38State) tx() string {
	if len(s.txIDs) == 0 {
		return "1"
	}
	return s.txIDs[s.rng.Intn(len(s.txIDs))]
}

func (s *c38State) acc() string {
	if len(s.accounts) == 0 {
		return "bank"
	}
	return s.accounts[s.rng.Intn(len(s.accounts))]
}

func (s *c38State) pick(xs ...string) string { return xs[s.rng.Intn(len(xs))] }

const c38Schema = `{"chart":{"world":{},"bank":{},"fees":{},"users":{"$id":{".pattern":"^[0-9]+$",".self":{},".metadata":{"tier":{"default":"basic"}},"wallet":{},"sub":{}}},"orders":{"$oid":{".self":{},"pending":{}}},"meta":{"only":{"$n":{}}}},
"transactions":{"PAY":{"description":"pay someone","script":"vars {\n account $dst\n monetary $amt\n}\nsend $amt (\n source = @world\n destination = $dst\n)\nset_tx_meta(\"tpl\", \"PAY\")"},
 "FEE":{"script":"send [USD 1] (\n source = @world\n destination = @fees\n)","runtime":"machine"}},
"queries":{"QA":{"description":"accounts by prefix","resource":"accounts","vars":{"pfx":"string","min":{"type":"int","default":0}},"params":{"pageSize":2,"sort":"address:desc","expand":["volumes"]},"body":{"$and":[{"$match":{"address":"${pfx}:"}},{"$gte":{"balance[USD]":"${min}"}}]}},
 "QT":{"resource":"transactions","params":{"pageSize":1,"sort":"id:asc"},"vars":{"rev":{"type":"boolean","default":false},"since":{"type":"date","default":"2020-01-02T03:04:05Z"},"ref":{"type":"string","default":"r"}},"body":{"$or":[{"$match":{"reverted":"${rev}"}},{"$gt":{"timestamp":"${since}"}},{"$like":{"reference":"${ref}%"}}]}},
 "QL":{"resource":"logs","params":{"pageSize":1}},
 "QV":{"resource":"volumes","params":{"groupBy":1,"pageSize":1,"insertionDate":false}}}}`

var c38QueryIDs = []string{"QA", "QT", "QL", "QV"}

// valid filters per resource
var c38ValidFilters = map[string][]string{
	"transactions": {`{"$match":{"metadata[k1]":"v"}}`, `{"$and":[{"$match":{"account":"users:"}},{"$gte":{"id":1}},{"$not":{"$match":{"reverted":true}}}]}`, `{"$or":[{"$lt":{"timestamp":"2031-01-01T00:00:00Z"}},{"$match":{"reference":"ra"}},{"$exists":{"metadata":"k1"}},{"$in":{"source":["world","bank"]}}]}`, `{"$like":{"reference":"r%"}}`},
	"accounts":     {`{"$match":{"address":"users:"}}`, `{"$and":[{"$gte":{"balance[USD]":0}},{"$match":{"metadata[color]":"red"}}]}`, `{"$or":[{"$lt":{"first_usage":"2031-01-01T00:00:00Z"}},{"$exists":{"metadata":"color"}},{"$in":{"address":["bank","world"]}},{"$like":{"address":"use%"}}]}`},
	"logs":         {`{"$gte":{"id":1}}`, `{"$and":[{"$lt":{"date":"2031-01-01T00:00:00Z"}},{"$match":{"type":"NEW_TRANSACTION"}}]}`},
	"volumes":      {`{"$match":{"account":"users:"}}`, `{"$and":[{"$gte":{"balance[USD]":0}},{"$match":{"metadata[color]":"red"}}]}`, `{"$or":[{"$match":{"address":"bank"}},{"$lt":{"first_usage":"2031-01-01T00:00:00Z"}}]}`},
	"aggregated":   {`{"$match":{"address":"users:"}}`, `{"$or":[{"$match":{"metadata[color]":"red"}},{"$match":{"address":"bank"}}]}`},
	"ledgers":      {`{"$match":{"bucket":"_default"}}`, `{"$and":[{"$match":{"name":"l1"}},{"$match":{"features[HASH_LOGS]":"SYNC"}},{"$match":{"metadata[a]":"b"}}]}`},
	"schemas":      {`{"$match":{"version":"v1"}}`},
}

// ---------------------------------------------------------------------------
// route table

type c38Param struct{ Name, Kind string } // Kind: date uint bool sort expand cursor filter str int order balop

type c38Route struct {
	Name     string // "<METHOD> <pattern>", the route key of signatures
	Variants int
	Gen      func(s *c38State, variant int) c38Req
	Body     string // "", json, filter, bulk-json, bulk-json-stream, bulk-script-stream, import, schema
	Resource string // filter / cursor family
	Params   []c38Param
	Write    bool // accepts Idempotency-Key
	Shards   int  // >1: the systematic mutants of each variant are split over that many cases (long, crash-prone routes)
}

var (
	c38PPage   = []c38Param{{"pageSize", "uint"}, {"cursor", "cursor"}}
	c38PPitOot = []c38Param{{"pit", "date"}, {"oot", "date"}}
	c38PV2List = []c38Param{{"pageSize", "uint"}, {"cursor", "cursor"}, {"pit", "date"}, {"oot", "date"}, {"sort", "sort"}, {"expand", "expand"}, {"query", "filter"}}
	c38PCmd    = []c38Param{{"dryRun", "bool"}, {"schemaVersion", "str"}}
)

func c38cat(ps ...[]c38Param) []c38Param {
	var out []c38Param
	for _, p := range ps {
		out = append(out, p...)
	}
	return out
}

func c38L() c38Seg { return c38P("ledger", "l1") }

// filterVariant applies a valid filter in the body (even variants) or in the
// `query` parameter (odd variants).
func c38WithFilter(s *c38State, r c38Req, resource string, variant int) c38Req {
	fs := c38ValidFilters[resource]
	f := fs[(variant/2)%len(fs)]
	if variant%2 == 1 {
		return r.q("query", f)
	}
	return r.raw(f)
}

func c38PostingsBody(s *c38State) *c38N {
	return c38Obj(
		"postings", c38Arr(
			c38Obj("source", "world", "destination", "users:001", "asset", "USD", "amount", 100),
			c38Obj("source", "users:001", "destination", "bank", "asset", "USD", "amount", 40),
			c38Obj("source", "world", "destination", "orders:1:pending", "asset", "EUR/2", "amount", json.Number("18446744073709551617")),
		),
		"metadata", c38Obj("k1", "v", "color", "blue"),
		"accountMetadata", c38Obj("users:001", c38Obj("tier", "gold")),
		"reference", "sysref-@@U@@",
		"timestamp", "2029-12-31T23:00:00Z",
		"force", false,
		"runtime", "machine",
	)
}

const c38Plain = "vars {\n account $dst\n monetary $amt\n number $n\n string $s\n portion $p\n}\nsend $amt (\n source = @world\n destination = {\n  $p to $dst\n  remaining to @fees\n }\n)\nset_tx_meta(\"n\", $n)\nset_tx_meta(\"s\", $s)"

func c38ScriptBody(v1 bool) *c38N {
	vars := c38Obj("dst", "users:002", "amt", c38Obj("asset", "USD", "amount", 30), "n", "42", "s", "hello", "p", "1/2")
	if !v1 {
		vars = c38Obj("dst", "users:002", "amt", "USD 30", "n", "42", "s", "hello", "p", "1/2")
	}
	return c38Obj(
		"script", c38Obj("plain", c38Plain, "vars", vars),
		"metadata", c38Obj("k2", "w"),
		"reference", "sref-@@U@@",
		"timestamp", "2030-01-01T00:00:00Z",
	)
}

func c38BulkElements() *c38N {
	return c38Arr(
		c38Obj("action", "CREATE_TRANSACTION", "ik", "bik-@@U@@", "data", c38Obj("postings", c38Arr(c38Obj("source", "world", "destination", "bank", "asset", "USD", "amount", 10)), "metadata", c38Obj("k1", "v"), "reference", "bref-@@U@@")),
		c38Obj("action", "CREATE_TRANSACTION", "data", c38Obj("script", c38Obj("plain", "vars {\n monetary $amt\n}\nsend $amt (\n source = @world\n destination = @bank\n)", "vars", c38Obj("amt", c38Obj("asset", "USD", "amount", 5))))),
		c38Obj("action", "ADD_METADATA", "data", c38Obj("targetType", "ACCOUNT", "targetId", "bank", "metadata", c38Obj("a", "b"))),
		c38Obj("action", "ADD_METADATA", "data", c38Obj("targetType", "TRANSACTION", "targetId", 1, "metadata", c38Obj("a", "b"))),
		c38Obj("action", "REVERT_TRANSACTION", "data", c38Obj("id", c38Raw("@@NEWTX@@"), "force", false, "atEffectiveDate", false, "metadata", c38Obj("why", "test"))),
		c38Obj("action", "DELETE_METADATA", "data", c38Obj("targetType", "ACCOUNT", "targetId", "bank", "key", "a")),
		c38Obj("action", "DELETE_METADATA", "data", c38Obj("targetType", "TRANSACTION", "targetId", 1, "key", "a")),
	)
}

const c38ScriptStream = "//script ik=sik-@@U@@\nsend [USD 1] (\n source = @world\n destination = @bank\n)\n//end\n\n//script\nsend [EUR/2 7] (\n source = @world\n destination = @users:001\n)\nset_tx_meta(\"a\", \"b\")\n//end\n"

func c38Routes() []*c38Route {
	mk := func(name string, variants int, body, resource string, write bool, params []c38Param, gen func(s *c38State, v int) c38Req) *c38Route {
		return &c38Route{Name: name, Variants: variants, Gen: gen, Body: body, Resource: resource, Params: params, Write: write}
	}
	var rs []*c38Route
	add := func(r *c38Route) { rs = append(rs, r) }
	shard := func(n int, r *c38Route) *c38Route { r.Shards = n; return r }

	// ----- v2, system level
	add(mk("GET /v2/_info", 1, "", "", false, nil, func(s *c38State, v int) c38Req { return c38New("GET", "/v2/_info") }))
	add(mk("GET /v2/", 4, "filter", "ledgers", false, c38cat(c38PV2List, []c38Param{{"includeDeleted", "bool"}}), func(s *c38State, v int) c38Req {
		return c38WithFilter(s, c38New("GET", "/v2").q("pageSize", "1", "includeDeleted", "true"), "ledgers", v)
	}))
	add(mk("POST /v2/{ledger}", 3, "json", "", false, nil, func(s *c38State, v int) c38Req {
		r := c38New("POST", "/v2", c38P("ledger", "n@@U@@"))
		switch v {
		case 0:
			return r.json(c38Obj("bucket", "nb", "metadata", c38Obj("owner", "me"), "features", c38Obj("HASH_LOGS", "DISABLED", "MOVES_HISTORY", "ON", "MOVES_HISTORY_POST_COMMIT_EFFECTIVE_VOLUMES", "SYNC", "ACCOUNT_METADATA_HISTORY", "SYNC", "TRANSACTION_METADATA_HISTORY", "DISABLED")))
		case 1:
			return r.json(c38Obj())
		}
		return r
	}))
	add(mk("GET /v2/{ledger}", 1, "", "", false, nil, func(s *c38State, v int) c38Req { return c38New("GET", "/v2", c38L()) }))
	add(mk("PUT /v2/{ledger}/metadata", 1, "json", "", false, nil, func(s *c38State, v int) c38Req {
		return c38New("PUT", "/v2", c38L(), "metadata").json(c38Obj("owner", "me", "a", "b"))
	}))
	add(mk("DELETE /v2/{ledger}/metadata/{key}", 1, "", "", false, nil, func(s *c38State, v int) c38Req {
		return c38New("DELETE", "/v2", c38L(), "metadata", c38P("key", "a"))
	}))
	add(mk("DELETE /v2/_/buckets/{bucket}", 1, "", "", false, nil, func(s *c38State, v int) c38Req {
		return c38New("DELETE", "/v2/_/buckets", c38P("bucket", "b3"))
	}))
	add(mk("POST /v2/_/buckets/{bucket}/restore", 1, "", "", false, nil, func(s *c38State, v int) c38Req {
		return c38New("POST", "/v2/_/buckets", c38P("bucket", "b3"), "restore")
	}))

	// ----- v2, ledger level
	bulkParams := []c38Param{{"continueOnFailure", "bool"}, {"atomic", "bool"}, {"parallel", "bool"}, {"schemaVersion", "str"}}
	add(mk("POST /v2/{ledger}/_bulk", 6, "bulk", "", false, bulkParams, func(s *c38State, v int) c38Req {
		r := c38New("POST", "/v2", c38L(), "_bulk")
		switch v {
		case 0:
			return r.json(c38BulkElements()).h("Content-Type", c38CTJSON)
		case 1:
			return r.json(c38BulkElements()).h("Content-Type", c38CTJSON).q("atomic", "true")
		case 2:
			return r.json(c38BulkElements()).q("parallel", "true", "continueOnFailure", "true")
		case 3:
			return r.raw(c38ScriptStream).h("Content-Type", c38CTScript)
		case 4:
			var sb strings.Builder
			for _, e := range c38BulkElements().Kids {
				sb.WriteString(e.String())
				sb.WriteByte('\n')
			}
			return r.raw(sb.String()).h("Content-Type", c38CTJSONStream)
		}
		return r.raw(c38ScriptStream).h("Content-Type", c38CTScript).q("atomic", "true", "continueOnFailure", "false")
	}))
	add(mk("GET /v2/{ledger}/_info", 1, "", "", false, nil, func(s *c38State, v int) c38Req { return c38New("GET", "/v2", c38L(), "_info") }))
	add(mk("GET /v2/{ledger}/stats", 1, "", "", false, nil, func(s *c38State, v int) c38Req { return c38New("GET", "/v2", c38L(), "stats") }))
	add(mk("POST /v2/{ledger}/schemas/{version}", 2, "schema", "", true, c38PCmd, func(s *c38State, v int) c38Req {
		r := c38New("POST", "/v2", c38L(), "schemas", c38P("version", "s@@U@@")).raw(c38Schema)
		if v == 1 {
			r = r.h("Idempotency-Key", "sk-@@U@@")
		}
		return r
	}))
	add(mk("GET /v2/{ledger}/schemas/{version}", 1, "", "", false, nil, func(s *c38State, v int) c38Req {
		return c38New("GET", "/v2", c38L(), "schemas", c38P("version", "v1"))
	}))
	add(mk("GET /v2/{ledger}/schemas", 2, "filter", "schemas", false, c38cat(c38PV2List, []c38Param{{"order", "order"}}), func(s *c38State, v int) c38Req {
		r := c38New("GET", "/v2", c38L(), "schemas").q("pageSize", "1")
		if v == 1 {
			r = r.q("sort", "version", "order", "asc")
		}
		return r
	}))
	add(mk("GET /v2/{ledger}/logs", 4, "filter", "logs", false, c38PV2List, func(s *c38State, v int) c38Req {
		return c38WithFilter(s, c38New("GET", "/v2", c38L(), "logs").q("pageSize", "2"), "logs", v)
	}))
	add(shard(12, mk("POST /v2/{ledger}/logs/import", 1, "import", "", false, nil, func(s *c38State, v int) c38Req {
		return c38New("POST", "/v2", c38P("ledger", "@@NEWLEDGER@@"), "logs/import").raw(strings.Join(s.export, "\n")+"\n").h("Content-Type", "application/octet-stream")
	})))
	add(mk("POST /v2/{ledger}/logs/export", 1, "", "", false, nil, func(s *c38State, v int) c38Req { return c38New("POST", "/v2", c38L(), "logs/export") }))

	add(mk("GET /v2/{ledger}/accounts", 6, "filter", "accounts", false, c38PV2List, func(s *c38State, v int) c38Req {
		r := c38New("GET", "/v2", c38L(), "accounts").q("pageSize", "2", "expand", "volumes", "expand", "effectiveVolumes")
		if v >= 4 {
			r = r.q("pit", "2030-01-01T00:00:01Z")
		}
		return c38WithFilter(s, r, "accounts", v)
	}))
	add(mk("HEAD /v2/{ledger}/accounts", 2, "filter", "accounts", false, c38cat(c38PPitOot, []c38Param{{"query", "filter"}, {"expand", "expand"}}), func(s *c38State, v int) c38Req {
		return c38WithFilter(s, c38New("HEAD", "/v2", c38L(), "accounts"), "accounts", v)
	}))
	add(mk("GET /v2/{ledger}/accounts/{address}", 2, "", "", false, []c38Param{{"pit", "date"}, {"expand", "expand"}}, func(s *c38State, v int) c38Req {
		r := c38New("GET", "/v2", c38L(), "accounts", c38P("address", "users:001"))
		if v == 1 {
			r = r.q("expand", "volumes", "expand", "effectiveVolumes", "pit", "2030-01-01T00:00:01Z")
		}
		return r
	}))
	add(mk("POST /v2/{ledger}/accounts/{address}/metadata", 1, "json", "", true, c38PCmd, func(s *c38State, v int) c38Req {
		return c38New("POST", "/v2", c38L(), "accounts", c38P("address", "users:001"), "metadata").json(c38Obj("color", "red", "tier", "gold")).h("Idempotency-Key", "am-@@U@@")
	}))
	add(mk("DELETE /v2/{ledger}/accounts/{address}/metadata/{key}", 1, "", "", true, c38PCmd, func(s *c38State, v int) c38Req {
		return c38New("DELETE", "/v2", c38L(), "accounts", c38P("address", "users:001"), "metadata", c38P("key", "color"))
	}))

	txListParams := c38cat(c38PV2List, []c38Param{{"order", "str"}, {"reverse", "bool"}})
	add(mk("GET /v2/{ledger}/transactions", 8, "filter", "transactions", false, txListParams, func(s *c38State, v int) c38Req {
		r := c38New("GET", "/v2", c38L(), "transactions").q("pageSize", "2", "expand", "volumes", "expand", "effectiveVolumes")
		if v >= 4 {
			r = r.q("order", "effective", "reverse", "true", "pit", "2030-01-01T00:00:01Z")
		}
		return c38WithFilter(s, r, "transactions", v)
	}))
	add(mk("HEAD /v2/{ledger}/transactions", 2, "filter", "transactions", false, c38cat(c38PPitOot, []c38Param{{"query", "filter"}, {"expand", "expand"}}), func(s *c38State, v int) c38Req {
		return c38WithFilter(s, c38New("HEAD", "/v2", c38L(), "transactions"), "transactions", v)
	}))
	add(mk("POST /v2/{ledger}/transactions", 5, "json", "", true, c38cat(c38PCmd, []c38Param{{"force", "bool"}}), func(s *c38State, v int) c38Req {
		r := c38New("POST", "/v2", c38L(), "transactions")
		switch v {
		case 0:
			return r.json(c38PostingsBody(s)).h("Idempotency-Key", "tk-@@U@@").q("dryRun", "false", "force", "false")
		case 1:
			return r.json(c38ScriptBody(false))
		case 2:
			return r.json(c38Obj("script", c38Obj("template", "PAY", "vars", c38Obj("dst", "users:003", "amt", "USD 5")), "metadata", c38Obj("k3", "x"))).q("schemaVersion", "v1")
		case 3:
			return r.json(c38Obj("postings", c38Arr(c38Obj("source", "world", "destination", "bank", "asset", "COIN", "amount", 1)), "runtime", "experimental-interpreter")).q("dryRun", "true")
		}
		return r.json(c38Obj("script", c38Obj("plain", "vars {\n monetary $amt\n}\nsend $amt (\n source = @world\n destination = @bank\n)", "vars", c38Obj("amt", c38Obj("asset", "USD", "amount", 5))), "runtime", "experimental-interpreter"))
	}))
	add(mk("GET /v2/{ledger}/transactions/{id}", 2, "", "", false, []c38Param{{"pit", "date"}, {"expand", "expand"}}, func(s *c38State, v int) c38Req {
		r := c38New("GET", "/v2", c38L(), "transactions", c38P("id", "1"))
		if v == 1 {
			r = r.q("expand", "volumes", "expand", "effectiveVolumes", "pit", "2030-01-01T00:00:01Z")
		}
		return r
	}))
	add(mk("POST /v2/{ledger}/transactions/{id}/revert", 2, "json", "", true, c38cat(c38PCmd, []c38Param{{"force", "bool"}, {"atEffectiveDate", "bool"}}), func(s *c38State, v int) c38Req {
		r := c38New("POST", "/v2", c38L(), "transactions", c38P("id", "@@NEWTX@@"), "revert")
		if v == 1 {
			return r.json(c38Obj("metadata", c38Obj("why", "test"))).q("force", "true", "atEffectiveDate", "true").h("Idempotency-Key", "rk-@@U@@")
		}
		return r
	}))
	add(mk("POST /v2/{ledger}/transactions/{id}/metadata", 1, "json", "", true, c38PCmd, func(s *c38State, v int) c38Req {
		return c38New("POST", "/v2", c38L(), "transactions", c38P("id", "1"), "metadata").json(c38Obj("k1", "v2", "note", "x")).h("Idempotency-Key", "tm-@@U@@")
	}))
	add(mk("DELETE /v2/{ledger}/transactions/{id}/metadata/{key}", 1, "", "", true, c38PCmd, func(s *c38State, v int) c38Req {
		return c38New("DELETE", "/v2", c38L(), "transactions", c38P("id", "1"), "metadata", c38P("key", "note"))
	}))
	add(mk("GET /v2/{ledger}/aggregate/balances", 4, "filter", "aggregated", false, c38cat(c38PPitOot, []c38Param{{"query", "filter"}, {"useInsertionDate", "bool"}, {"use_insertion_date", "bool"}, {"expand", "expand"}}), func(s *c38State, v int) c38Req {
		r := c38New("GET", "/v2", c38L(), "aggregate/balances")
		if v >= 2 {
			r = r.q("pit", "2030-01-01T00:00:01Z", "useInsertionDate", "true")
		}
		return c38WithFilter(s, r, "aggregated", v)
	}))
	volParams := c38cat(c38PV2List, []c38Param{{"groupBy", "groupby"}, {"startTime", "date"}, {"endTime", "date"}, {"insertionDate", "bool"}})
	add(mk("GET /v2/{ledger}/volumes", 6, "filter", "volumes", false, volParams, func(s *c38State, v int) c38Req {
		r := c38New("GET", "/v2", c38L(), "volumes").q("pageSize", "2")
		if v >= 2 {
			r = r.q("groupBy", "1", "startTime", "2029-01-01T00:00:00Z", "endTime", "2031-01-01T00:00:00Z", "insertionDate", "true")
		}
		return c38WithFilter(s, r, "volumes", v)
	}))
	add(mk("POST /v2/{ledger}/queries/{id}/run", 5, "json", "", false, []c38Param{{"schemaVersion", "str"}}, func(s *c38State, v int) c38Req {
		r := c38New("POST", "/v2", c38L(), "queries", c38P("id", c38QueryIDs[v%4]), "run").q("schemaVersion", "v1")
		switch v {
		case 0:
			return r.json(c38Obj("vars", c38Obj("pfx", "users", "min", 0), "params", c38Obj("pageSize", 1, "sort", "address:asc", "expand", c38Arr("volumes"), "endTime", "2031-01-01T00:00:00Z")))
		case 1:
			return r.json(c38Obj("vars", c38Obj("rev", false, "since", "2020-01-01T00:00:00Z", "ref", "r"), "params", c38Obj("pageSize", 1, "startTime", "2000-01-01T00:00:00Z")))
		case 2:
			return r.json(c38Obj("params", c38Obj("pageSize", 1, "sort", "id:desc")))
		case 3:
			return r.json(c38Obj("params", c38Obj("groupBy", 2, "insertionDate", true, "pageSize", 1)))
		}
		return r.json(c38Obj("vars", c38Obj("pfx", "users"), "cursor", s.cursors["query:QA"]))
	}))

	// ----- v1
	add(mk("GET /_info", 1, "", "", false, nil, func(s *c38State, v int) c38Req { return c38New("GET", "/_info") }))
	add(mk("GET /{ledger}/_info", 1, "", "", false, nil, func(s *c38State, v int) c38Req { return c38New("GET", c38L(), "_info") }))
	add(mk("GET /{ledger}/stats", 1, "", "", false, nil, func(s *c38State, v int) c38Req { return c38New("GET", c38L(), "stats") }))
	add(mk("GET /{ledger}/logs", 2, "", "logs", false, c38cat(c38PPage, c38PPitOot, []c38Param{{"after", "str"}, {"start_time", "date"}, {"end_time", "date"}, {"expand", "expand"}}), func(s *c38State, v int) c38Req {
		r := c38New("GET", c38L(), "logs").q("pageSize", "2")
		if v == 1 {
			r = r.q("after", "100", "start_time", "2029-01-01T00:00:00Z", "end_time", "2031-01-01T00:00:00Z")
		}
		return r
	}))
	v1AccParams := c38cat(c38PPage, c38PPitOot, []c38Param{{"balance", "int"}, {"balanceOperator", "balop"}, {"address", "str"}, {"metadata[color]", "str"}, {"expand", "expand"}})
	add(mk("GET /{ledger}/accounts", 2, "", "accounts", false, v1AccParams, func(s *c38State, v int) c38Req {
		r := c38New("GET", c38L(), "accounts").q("pageSize", "2")
		if v == 1 {
			r = r.q("balance", "0", "balanceOperator", "gte", "address", "users:", "metadata[color]", "red")
		}
		return r
	}))
	add(mk("HEAD /{ledger}/accounts", 2, "", "accounts", false, v1AccParams[2:], func(s *c38State, v int) c38Req {
		r := c38New("HEAD", c38L(), "accounts")
		if v == 1 {
			r = r.q("balance", "0", "balanceOperator", "gte", "address", "users:", "metadata[color]", "red")
		}
		return r
	}))
	add(mk("GET /{ledger}/accounts/{address}", 1, "", "", false, nil, func(s *c38State, v int) c38Req {
		return c38New("GET", c38L(), "accounts", c38P("address", "users:001"))
	}))
	add(mk("POST /{ledger}/accounts/{address}/metadata", 1, "json", "", true, []c38Param{{"preview", "bool"}}, func(s *c38State, v int) c38Req {
		return c38New("POST", c38L(), "accounts", c38P("address", "users:001"), "metadata").json(c38Obj("color", "red")).h("Idempotency-Key", "v1am-@@U@@")
	}))
	add(mk("DELETE /{ledger}/accounts/{address}/metadata/{key}", 1, "", "", true, []c38Param{{"preview", "bool"}}, func(s *c38State, v int) c38Req {
		return c38New("DELETE", c38L(), "accounts", c38P("address", "users:001"), "metadata", c38P("key", "color"))
	}))
	v1TxParams := c38cat(c38PPage, c38PPitOot, []c38Param{{"after", "str"}, {"startTime", "date"}, {"endTime", "date"}, {"start_time", "date"}, {"end_time", "date"}, {"reference", "str"}, {"source", "str"}, {"destination", "str"}, {"account", "str"}, {"metadata[k1]", "str"}, {"expand", "expand"}})
	add(mk("GET /{ledger}/transactions", 2, "", "transactions", false, v1TxParams, func(s *c38State, v int) c38Req {
		r := c38New("GET", c38L(), "transactions").q("pageSize", "2")
		if v == 1 {
			r = r.q("after", "100", "startTime", "2029-01-01T00:00:00Z", "endTime", "2031-01-01T00:00:00Z", "source", "world", "destination", "users:001", "account", "users:", "metadata[k1]", "v")
		}
		return r
	}))
	add(mk("HEAD /{ledger}/transactions", 2, "", "transactions", false, v1TxParams[2:], func(s *c38State, v int) c38Req {
		r := c38New("HEAD", c38L(), "transactions")
		if v == 1 {
			r = r.q("after", "100", "startTime", "2029-01-01T00:00:00Z", "endTime", "2031-01-01T00:00:00Z", "reference", "ra", "account", "users:", "metadata[k1]", "v")
		}
		return r
	}))
	add(mk("POST /{ledger}/transactions", 2, "json", "", true, []c38Param{{"preview", "bool"}}, func(s *c38State, v int) c38Req {
		r := c38New("POST", c38L(), "transactions")
		if v == 0 {
			b := c38PostingsBody(s)
			b = c38Delete(b, c38Site{parent: []int{c38indexOf(b, "runtime")}})
			b = c38Delete(b, c38Site{parent: []int{c38indexOf(b, "force")}})
			b = c38Delete(b, c38Site{parent: []int{c38indexOf(b, "accountMetadata")}})
			return r.json(b).h("Idempotency-Key", "v1tk-@@U@@").q("preview", "false")
		}
		return r.json(c38ScriptBody(true))
	}))
	add(mk("POST /{ledger}/transactions/batch", 1, "", "", false, nil, func(s *c38State, v int) c38Req {
		return c38New("POST", c38L(), "transactions/batch").json(c38Obj("transactions", c38Arr(c38PostingsBody(s))))
	}))
	add(mk("GET /{ledger}/transactions/{id}", 1, "", "", false, c38cat(c38PPitOot, []c38Param{{"expand", "expand"}}), func(s *c38State, v int) c38Req {
		return c38New("GET", c38L(), "transactions", c38P("id", "1"))
	}))
	add(mk("POST /{ledger}/transactions/{id}/revert", 1, "", "", true, []c38Param{{"disableChecks", "bool"}, {"preview", "bool"}}, func(s *c38State, v int) c38Req {
		return c38New("POST", c38L(), "transactions", c38P("id", "@@NEWTX@@"), "revert").q("disableChecks", "false")
	}))
	add(mk("POST /{ledger}/transactions/{id}/metadata", 1, "json", "", true, []c38Param{{"preview", "bool"}}, func(s *c38State, v int) c38Req {
		return c38New("POST", c38L(), "transactions", c38P("id", "1"), "metadata").json(c38Obj("k1", "v3"))
	}))
	add(mk("DELETE /{ledger}/transactions/{id}/metadata/{key}", 1, "", "", true, []c38Param{{"preview", "bool"}}, func(s *c38State, v int) c38Req {
		return c38New("DELETE", c38L(), "transactions", c38P("id", "1"), "metadata", c38P("key", "note"))
	}))
	add(mk("GET /{ledger}/balances", 2, "", "balances", false, v1AccParams, func(s *c38State, v int) c38Req {
		r := c38New("GET", c38L(), "balances").q("pageSize", "2")
		if v == 1 {
			r = r.q("address", "users:", "balance", "1", "balanceOperator", "gt")
		}
		return r
	}))
	add(mk("GET /{ledger}/aggregate/balances", 2, "", "", false, c38cat(c38PPitOot, []c38Param{{"address", "str"}}), func(s *c38State, v int) c38Req {
		r := c38New("GET", c38L(), "aggregate/balances")
		if v == 1 {
			r = r.q("address", "users:", "pit", "2030-01-01T00:00:01Z")
		}
		return r
	}))
	// long first variants: split their systematic mutants over several cases
	for name, n := range map[string]int{"GET /v2/{ledger}/transactions": 3, "POST /v2/{ledger}/transactions": 2, "GET /v2/{ledger}/volumes": 2, "GET /v2/{ledger}/logs": 2, "GET /v2/{ledger}/accounts": 2, "POST /v2/{ledger}/schemas/{version}": 2} {
		for _, r := range rs {
			if r.Name == name {
				r.Shards = n
			}
		}
	}
	return rs
}

// cursor key of a route (which valid cursor it accepts)
func c38CursorKey(rt *c38Route) string {
	for _, p := range rt.Params {
		if p.Kind == "cursor" {
			return rt.Name
		}
	}
	return ""
}

// ---------------------------------------------------------------------------
// seeding

// c38OpToReq translates a sim.Op (valid controller-level operation) into a v2 request.
func c38OpToReq(o sim.Op) (c38Req, bool) {
	withCmd := func(r c38Req) c38Req {
		if o.IK != "" {
			r = r.h("Idempotency-Key", o.IK)
		}
		if o.DryRun {
			r = r.q("dryRun", "true")
		}
		return r
	}
	meta := func(m map[string]string) *c38N {
		n := c38Obj()
		keys := make([]string, 0, len(m))
		for k := range m {
			keys = append(keys, k)
		}
		sort.Strings(keys)
		for _, k := range keys {
			n.set(k, c38Str(m[k]))
		}
		return n
	}
	switch o.Kind {
	case "postings":
		ps := c38Arr()
		for _, p := range o.Postings {
			ps.Kids = append(ps.Kids, c38Obj("source", p.Source, "destination", p.Destination, "asset", p.Asset, "amount", json.Number(p.Amount)))
		}
		b := c38Obj("postings", ps)
		if o.Metadata != nil {
			b.set("metadata", meta(o.Metadata))
		}
		if o.AccountMetadata != nil {
			am := c38Obj()
			keys := make([]string, 0)
			for k := range o.AccountMetadata {
				keys = append(keys, k)
			}
			sort.Strings(keys)
			for _, k := range keys {
				am.set(k, meta(o.AccountMetadata[k]))
			}
			b.set("accountMetadata", am)
		}
		if o.Timestamp != "" {
			b.set("timestamp", c38Str(o.Timestamp))
		}
		if o.Reference != "" {
			b.set("reference", c38Str(o.Reference))
		}
		if o.Force {
			b.set("force", c38Raw("true"))
		}
		return withCmd(c38New("POST", "/v2/l1/transactions").json(b)), true
	case "script":
		sc := c38Obj("plain", o.Plain)
		if o.Vars != nil {
			sc.set("vars", meta(o.Vars))
		}
		b := c38Obj("script", sc)
		if o.Metadata != nil {
			b.set("metadata", meta(o.Metadata))
		}
		if o.Timestamp != "" {
			b.set("timestamp", c38Str(o.Timestamp))
		}
		if o.Reference != "" {
			b.set("reference", c38Str(o.Reference))
		}
		if o.Runtime != "" {
			b.set("runtime", c38Str(o.Runtime))
		}
		return withCmd(c38New("POST", "/v2/l1/transactions").json(b)), true
	case "revert":
		r := c38New("POST", "/v2/l1/transactions", fmt.Sprint(o.TxID), "revert")
		if o.Force {
			r = r.q("force", "true")
		}
		if o.AtEffectiveDate {
			r = r.q("atEffectiveDate", "true")
		}
		if o.Metadata != nil {
			r = r.json(c38Obj("metadata", meta(o.Metadata)))
		}
		return withCmd(r), true
	case "save_tx_meta":
		return withCmd(c38New("POST", "/v2/l1/transactions", fmt.Sprint(o.TxID), "metadata").json(meta(o.Metadata))), true
	case "del_tx_meta":
		return withCmd(c38New("DELETE", "/v2/l1/transactions", fmt.Sprint(o.TxID), "metadata", c38Seg{Val: o.Key})), true
	case "save_acc_meta":
		return withCmd(c38New("POST", "/v2/l1/accounts", c38Seg{Val: o.Address}, "metadata").json(meta(o.Metadata))), true
	case "del_acc_meta":
		return withCmd(c38New("DELETE", "/v2/l1/accounts", c38Seg{Val: o.Address}, "metadata", c38Seg{Val: o.Key})), true
	}
	return c38Req{}, false
}

// c38SeedRequests: the fixed part of the history (every id / key / template the
// valid generators refer to exists afterwards).
func c38SeedRequests() []c38Req {
	tx := func(body string, kv ...string) c38Req {
		return c38New("POST", "/v2/l1/transactions").raw(body).h(kv...)
	}
	return []c38Req{
		c38New("POST", "/v2/l1").raw(`{"metadata":{"a":"b"}}`),
		c38New("POST", "/v2/l2").raw(`{"bucket":"b2"}`),
		c38New("POST", "/v2/l3").raw(`{"bucket":"b3"}`),
		c38New("POST", "/v2/l1/schemas/v1").raw(c38Schema),
		c38New("POST", "/v2/l1/schemas/v2").raw(c38Schema),
		tx(`{"postings":[{"source":"world","destination":"users:001","asset":"USD","amount":100}],"metadata":{"k1":"v","note":"n"},"reference":"ra"}`, "Idempotency-Key", "ik-seed-a"),
		tx(`{"postings":[{"source":"world","destination":"users:002","asset":"USD","amount":50},{"source":"users:002","destination":"bank","asset":"USD","amount":20}],"metadata":{"k1":"v"},"reference":"rb","timestamp":"2029-12-31T12:00:00Z"}`),
		tx(`{"postings":[{"source":"world","destination":"orders:1:pending","asset":"EUR/2","amount":18446744073709551617}],"accountMetadata":{"orders:1:pending":{"color":"red"}},"reference":"rc"}`),
		tx(`{"script":{"plain":"vars {\n monetary $amt\n account $a\n}\nsend $amt (\n source = @world\n destination = $a\n)\nset_account_meta($a, \"sacc\", \"x\")","vars":{"amt":"COIN 7","a":"users:003:wallet"}},"metadata":{"k2":"w"}}`),
		c38New("POST", "/v2/l1/transactions").q("schemaVersion", "v1").raw(`{"script":{"template":"PAY","vars":{"dst":"users:001","amt":"USD 5"}}}`),
		c38New("POST", "/l1/transactions").raw(`{"script":{"plain":"vars {\n monetary $amt\n}\nsend $amt (\n source = @world\n destination = @fees\n)","vars":{"amt":{"asset":"USD","amount":3}}},"reference":"v1r"}`),
		c38New("POST", "/v2/l1/transactions/1/metadata").raw(`{"note":"x","k1":"v"}`),
		c38New("POST", "/v2/l1/accounts/users:001/metadata").raw(`{"color":"red","tier":"gold"}`),
		c38New("POST", "/v2/l1/accounts/bank/metadata").raw(`{"a":"b"}`),
		c38New("POST", "/v2/l1/transactions/2/revert").q("force", "true"),
	}
}

// c38HarvestRequests: reads whose responses give ids and cursors. key -> request.
func c38HarvestCursorRequests() [][2]any {
	return [][2]any{
		{"GET /v2/{ledger}/transactions", c38New("GET", "/v2/l1/transactions").q("pageSize", "1")},
		{"GET /v2/{ledger}/transactions#timestamp", c38New("GET", "/v2/l1/transactions").q("pageSize", "1", "order", "effective")},
		{"GET /v2/{ledger}/transactions#filter", c38New("GET", "/v2/l1/transactions").q("pageSize", "1", "expand", "volumes").raw(`{"$match":{"metadata[k1]":"v"}}`)},
		{"GET /v2/{ledger}/accounts", c38New("GET", "/v2/l1/accounts").q("pageSize", "1")},
		{"GET /v2/{ledger}/logs", c38New("GET", "/v2/l1/logs").q("pageSize", "1")},
		{"GET /v2/{ledger}/volumes", c38New("GET", "/v2/l1/volumes").q("pageSize", "1", "groupBy", "1")},
		{"GET /v2/{ledger}/schemas", c38New("GET", "/v2/l1/schemas").q("pageSize", "1")},
		{"GET /v2/", c38New("GET", "/v2").q("pageSize", "1")},
		{"GET /{ledger}/transactions", c38New("GET", "/l1/transactions").q("pageSize", "1")},
		{"GET /{ledger}/accounts", c38New("GET", "/l1/accounts").q("pageSize", "1")},
		{"GET /{ledger}/logs", c38New("GET", "/l1/logs").q("pageSize", "1")},
		{"GET /{ledger}/balances", c38New("GET", "/l1/balances").q("pageSize", "1")},
		{"query:QA", c38New("POST", "/v2/l1/queries/QA/run").q("schemaVersion", "v1").raw(`{"vars":{"pfx":"users"},"params":{"pageSize":1}}`)},
		{"query:QT", c38New("POST", "/v2/l1/queries/QT/run").q("schemaVersion", "v1").raw(`{}`)},
	}
}
