package checks

import (
	"encoding/json"
	"fmt"
	"math/rand"
	"regexp"
	"strconv"
	"strings"

	"github.com/formancehq/go-libs/v5/pkg/query"

	"github.com/formancehq/ledger/internal/storage/common"
	ledgerstore "github.com/formancehq/ledger/internal/storage/ledger"

	"github.com/formancehq/ledger/verifharness/core"
	"github.com/formancehq/ledger/verifharness/realstore"
	"github.com/formancehq/ledger/verifharness/sim"
)

func init() {
	core.Register(&core.Check{
		ID: "C20", Level: "exploration",
		Rule: "(a) the SQL fragments the real filterAccountAddress / filterAccountAddressOnTransactions emit for random addresses and patterns (exact, partial `a::c`, prefix `a:...`, quotes, backslashes) are evaluated by a 40-line evaluator of exactly that fragment family (jsonb_array_length, `@@ '$[i] == \"s\"'`, `= 's'`, `@> '[{...}]'`) on random address arrays and compared with an independent address matcher; (b) for random filter ASTs (depth <= 4) canPushAddressFilterToLateral(F)=true must imply F(row) => pushed disjunction(row) on random rows with non-address leaves as free booleans; (c) random filters with unknown keys, disallowed operators and wrongly typed values must be refused as invalid queries by the real repository, valid ones accepted; (d) over random histories Count* equals the number of entities listed through all pages for random filters. Distinct = (sub-check, pattern/AST shape); non-trivial = pattern is partial or the AST mixes address and non-address leaves",
		Assumptions: []string{"only address semantics and the composition machinery are judged; metadata @>, balance, date, $in, $like leaves as executed by Postgres are not (they are SQL)", seqAssume, "addresses with exactly one segment fewer than an `a:...` pattern are counted as ambiguous (the documentation does not say whether `a:...` matches `a`) and excluded"},
		Run:  runC20,
	})
}

// independent address matcher (documented meaning)
func c20Match(pattern, addr string) (match, ambiguous bool) {
	ps, as := strings.Split(pattern, ":"), strings.Split(addr, ":")
	partial := false
	for i, s := range ps {
		if s == "" || (s == "..." && i == len(ps)-1) {
			partial = true
		}
	}
	if !partial {
		return pattern == addr, false
	}
	open := ps[len(ps)-1] == "..."
	if open {
		// documented forms are `a::c` (partial) and `a:...` (prefix); what a pattern mixing both
		// (`a::...`) requires of shorter addresses is not documented: excluded from the verdict
		for _, sgm := range ps[:len(ps)-1] {
			if sgm == "" && len(as) < len(ps) {
				ambiguous = true
			}
		}
		if len(as) == len(ps)-1 {
			ambiguous = true
		}
		if len(as) < len(ps)-1 {
			return false, ambiguous
		}
	} else if len(as) != len(ps) {
		return false, false
	}
	for i, s := range ps {
		if s == "" || (open && i == len(ps)-1) {
			continue
		}
		if i >= len(as) || as[i] != s {
			return false, ambiguous
		}
	}
	return true, ambiguous
}

var (
	reLen   = regexp.MustCompile(`^jsonb_array_length\((\w+)_array\) = (\d+)$`)
	reJPath = regexp.MustCompile(`^(\w+)_array @@ \('\$\[(\d+)\] == "((?:[^"\\]|\\.)*)"'\)::jsonpath$`)
	reEq    = regexp.MustCompile(`^(\w+) = '((?:[^']|'')*)'$`)
)

// evaluator of the fragment family emitted by filterAccountAddress
func c20EvalAccount(frag, addr string) (bool, error) {
	segs := strings.Split(addr, ":")
	if frag == "1 = 1" {
		return true, nil
	}
	for _, part := range strings.Split(frag, " and ") {
		part = strings.TrimSpace(part)
		switch {
		case reLen.MatchString(part):
			n, _ := strconv.Atoi(reLen.FindStringSubmatch(part)[2])
			if len(segs) != n {
				return false, nil
			}
		case reJPath.MatchString(part):
			m := reJPath.FindStringSubmatch(part)
			i, _ := strconv.Atoi(m[2])
			// SQL literal unescape ('' -> '), then jsonpath string unescape (\\ -> \, \" -> ")
			lit := strings.ReplaceAll(m[3], "''", "'")
			lit = strings.ReplaceAll(strings.ReplaceAll(lit, `\"`, `"`), `\\`, `\`)
			if i >= len(segs) || segs[i] != lit {
				return false, nil
			}
		case reEq.MatchString(part):
			if strings.ReplaceAll(reEq.FindStringSubmatch(part)[2], "''", "'") != addr {
				return false, nil
			}
		default:
			return false, fmt.Errorf("fragment outside the family: %q", part)
		}
	}
	return true, nil
}

var reContain = regexp.MustCompile(`^(sources|destinations)(_arrays)? @> '((?:[^']|'')*)'$`)

// evaluator for filterAccountAddressOnTransactions: jsonb containment on the exploded addresses
func c20EvalTx(frag string, sources, destinations []string) (bool, error) {
	for _, part := range strings.Split(frag, " or ") {
		m := reContain.FindStringSubmatch(strings.TrimSpace(part))
		if m == nil {
			return false, fmt.Errorf("fragment outside the family: %q", part)
		}
		addrs := sources
		if m[1] == "destinations" {
			addrs = destinations
		}
		lit := strings.ReplaceAll(m[3], "''", "'")
		if m[2] == "" {
			var want []string
			if err := json.Unmarshal([]byte(lit), &want); err != nil {
				return false, err
			}
			for _, w := range want {
				for _, a := range addrs {
					if a == w {
						return true, nil
					}
				}
			}
			continue
		}
		var pats []map[string]any
		if err := json.Unmarshal([]byte(lit), &pats); err != nil {
			return false, err
		}
		for _, a := range addrs {
			ex := ledgerstore.VerifExplodeAddress(a) // the stored representation
			ok := true
			for k, v := range pats[0] {
				ev, present := ex[k]
				if !present || fmt.Sprint(ev) != fmt.Sprint(v) {
					ok = false
				}
			}
			if ok {
				return true, nil
			}
		}
	}
	return false, nil
}

var c20Segs = []string{"users", "bank", "001", "a", "it's", `q"uote`, `back\slash`, "x_y", "..."}

func c20Addr(rng *rand.Rand) string {
	n := 1 + rng.Intn(4)
	var s []string
	for i := 0; i < n; i++ {
		s = append(s, c20Segs[rng.Intn(len(c20Segs)-1)])
	}
	return strings.Join(s, ":")
}

func c20Pattern(rng *rand.Rand) string {
	n := 1 + rng.Intn(4)
	var s []string
	for i := 0; i < n; i++ {
		if rng.Intn(4) == 0 {
			s = append(s, "")
		} else {
			s = append(s, c20Segs[rng.Intn(len(c20Segs)-1)])
		}
	}
	if rng.Intn(3) == 0 {
		s = append(s, "...")
	}
	return strings.Join(s, ":")
}

// AST for (b)
type c20Node struct {
	Op    string // and, or, not, addr, other
	Kids  []*c20Node
	Addr  string
	Other int
}

func c20GenAST(rng *rand.Rand, depth int, nOther *int) *c20Node {
	if depth <= 0 || rng.Intn(3) == 0 {
		if rng.Intn(2) == 0 {
			return &c20Node{Op: "addr", Addr: c20Pattern(rng)}
		}
		*nOther++
		return &c20Node{Op: "other", Other: *nOther - 1}
	}
	switch rng.Intn(3) {
	case 0:
		return &c20Node{Op: "not", Kids: []*c20Node{c20GenAST(rng, depth-1, nOther)}}
	case 1:
		n := &c20Node{Op: "and"}
		for i := 0; i < 1+rng.Intn(3); i++ {
			n.Kids = append(n.Kids, c20GenAST(rng, depth-1, nOther))
		}
		return n
	default:
		n := &c20Node{Op: "or"}
		for i := 0; i < 1+rng.Intn(3); i++ {
			n.Kids = append(n.Kids, c20GenAST(rng, depth-1, nOther))
		}
		return n
	}
}

func (n *c20Node) builder() query.Builder {
	switch n.Op {
	case "addr":
		return query.Match("address", n.Addr)
	case "other":
		return query.Match(fmt.Sprintf("metadata[k%d]", n.Other), "v")
	case "not":
		return query.Not(n.Kids[0].builder())
	}
	var items []query.Builder
	for _, k := range n.Kids {
		items = append(items, k.builder())
	}
	if n.Op == "and" {
		return query.And(items...)
	}
	return query.Or(items...)
}

func (n *c20Node) eval(addr string, others []bool) bool {
	switch n.Op {
	case "addr":
		m, _ := c20Match(n.Addr, addr)
		return m
	case "other":
		return others[n.Other]
	case "not":
		return !n.Kids[0].eval(addr, others)
	case "and":
		for _, k := range n.Kids {
			if !k.eval(addr, others) {
				return false
			}
		}
		return true
	}
	for _, k := range n.Kids {
		if k.eval(addr, others) {
			return true
		}
	}
	return false
}

func (n *c20Node) addrs(out *[]string) {
	if n.Op == "addr" {
		*out = append(*out, n.Addr)
	}
	for _, k := range n.Kids {
		k.addrs(out)
	}
}

func runC20(r *core.Run) {
	// (a) address fragments
	r.ForEach("addr", r.N(20000, 400000), 0, func(c *core.Case) {
		rng := c.Rng
		pat := c20Pattern(rng)
		if rng.Intn(3) == 0 {
			pat = c20Addr(rng)
		}
		partial := ledgerstore.VerifIsPartialAddress(pat)
		frag := ledgerstore.VerifFilterAccountAddress(pat, "address")
		for i := 0; i < 6; i++ {
			addr := c20Addr(rng)
			if i == 0 && !partial {
				addr = pat
			}
			want, amb := c20Match(pat, addr)
			if amb {
				r.Count("ambiguous_excluded", 1)
				continue
			}
			got, err := c20EvalAccount(frag, addr)
			if err != nil {
				r.Inconclusive(err.Error())
				return
			}
			r.Count("address_evaluations", 1)
			if got != want {
				c.Violation(fmt.Sprintf("C20/account-address-filter-disagrees-with-documented-meaning:%s", map[bool]string{true: "partial", false: "exact"}[partial]), map[string]any{"pattern": pat, "address": addr, "fragment": frag, "fragment_says": got, "documented": want})
			}
		}
		// transactions
		src, dst := rng.Intn(2) == 0, rng.Intn(2) == 0
		if !src && !dst {
			src = true
		}
		tfrag := ledgerstore.VerifFilterAccountAddressOnTransactions(pat, src, dst)
		sources := []string{c20Addr(rng), c20Addr(rng)}
		dests := []string{c20Addr(rng)}
		if rng.Intn(3) == 0 && !partial {
			dests = append(dests, pat)
		}
		want, amb := false, false
		check := func(list []string) {
			for _, a := range list {
				m, am := c20Match(pat, a)
				if am {
					amb = true
				}
				if m {
					want = true
				}
			}
		}
		if src {
			check(sources)
		}
		if dst {
			check(dests)
		}
		if !amb {
			got, err := c20EvalTx(tfrag, sources, dests)
			if err != nil {
				r.Inconclusive(err.Error())
				return
			}
			r.Count("transaction_address_evaluations", 1)
			if got != want {
				c.Violation(fmt.Sprintf("C20/transaction-address-filter-disagrees-with-documented-meaning:%s", map[bool]string{true: "partial", false: "exact"}[partial]), map[string]any{"pattern": pat, "sources": sources, "destinations": dests, "on_source": src, "on_destination": dst, "fragment": tfrag, "fragment_says": got, "documented": want})
			}
		}
		r.Eval("addr|"+strings.Join(strings.FieldsFunc(pat, func(r rune) bool { return r != ':' && r != '.' }), ""), partial)
	})
	// (b) lateral push-down safety
	r.ForEach("lateral", r.N(20000, 300000), 0, func(c *core.Case) {
		rng := c.Rng
		nOther := 0
		ast := c20GenAST(rng, 4, &nOther)
		var addrs []string
		ast.addrs(&addrs)
		b := ast.builder()
		can := ledgerstore.VerifCanPushAddressFilterToLateral(b)
		js, _ := json.Marshal(b)
		mixed := len(addrs) > 0 && nOther > 0
		r.Eval("lateral|"+shapeOf(ast), mixed)
		r.Seen("can_push", fmt.Sprint(can))
		if !can || len(addrs) == 0 {
			return
		}
		pushed := ledgerstore.VerifBuildAddressFilterForLateral(addrs)
		for i := 0; i < 12; i++ {
			addr := c20Addr(rng)
			if rng.Intn(3) == 0 {
				// derive a near-match from one of the patterns
				p := addrs[rng.Intn(len(addrs))]
				addr = strings.ReplaceAll(strings.ReplaceAll(p, ":...", ":zz"), "::", ":zz:")
				addr = strings.Trim(addr, ":")
				if addr == "" {
					addr = "zz"
				}
			}
			others := make([]bool, nOther)
			for k := range others {
				others[k] = rng.Intn(2) == 0
			}
			anyAmb := false
			for _, p := range addrs {
				if _, am := c20Match(p, addr); am {
					anyAmb = true
				}
			}
			if anyAmb {
				continue
			}
			f := ast.eval(addr, others)
			// pushed disjunction evaluated on the emitted fragment
			inLateral := false
			for _, part := range strings.Split(pushed, " OR ") {
				ok, err := c20EvalAccount(strings.TrimSuffix(strings.TrimPrefix(strings.TrimSpace(part), "("), ")"), addr)
				if err != nil {
					r.Inconclusive(err.Error())
					return
				}
				if ok {
					inLateral = true
				}
			}
			r.Count("lateral_rows_checked", 1)
			if f && !inLateral {
				c.Violation("C20/lateral-pushdown-drops-a-matching-row", map[string]any{"filter": string(js), "address": addr, "other_leaves": others, "pushed": pushed})
				return
			}
		}
	})
	// (c) validation + (d) count == listed, through the controller stack
	r.ForEach("count", r.N(300, 6000), 0, func(c *core.Case) {
		rng := c.Rng
		e := sim.NewEnv(sim.Options{})
		defer e.Close()
		_ = e.CreateLedger("l1", "_default", nil)
		st := &sim.GenState{NoBig: true}
		for i := 0; i < 20; i++ {
			op := sim.GenOp(rng, st)
			op.DryRun = false
			out := e.Apply("l1", op)
			if out.OK() && out.Created != nil {
				st.TxIDs = append(st.TxIDs, *out.Created.Transaction.ID)
			}
		}
		for k := 0; k < 6; k++ {
			resource := []string{"transactions", "accounts"}[rng.Intn(2)]
			b := realstore.GenFilter(rng, resource, 3)
			js, _ := json.Marshal(b)
			listed := 0
			var cnt int
			var err error
			if resource == "transactions" {
				cnt, err = e.Ctrl("l1").CountTransactions(e.Ctx, common.ResourceQuery[any]{Builder: b})
				var q common.PaginatedQuery[any] = common.InitialPaginatedQuery[any]{PageSize: 4, Options: common.ResourceQuery[any]{Builder: b}}
				for i := 0; i < 200 && err == nil; i++ {
					cur, e2 := e.Ctrl("l1").ListTransactions(e.Ctx, q)
					if e2 != nil {
						err = e2
						break
					}
					listed += len(cur.Data)
					if !cur.HasMore {
						break
					}
					q, _ = common.UnmarshalCursor[any](cur.Next)
				}
			} else {
				cnt, err = e.Ctrl("l1").CountAccounts(e.Ctx, common.ResourceQuery[any]{Builder: b})
				var q common.PaginatedQuery[any] = common.InitialPaginatedQuery[any]{PageSize: 4, Options: common.ResourceQuery[any]{Builder: b}}
				for i := 0; i < 200 && err == nil; i++ {
					cur, e2 := e.Ctrl("l1").ListAccounts(e.Ctx, q)
					if e2 != nil {
						err = e2
						break
					}
					listed += len(cur.Data)
					if !cur.HasMore {
						break
					}
					q, _ = common.UnmarshalCursor[any](cur.Next)
				}
			}
			r.Eval("count|"+resource+"|"+shapeOfJSON(string(js)), true)
			if err != nil {
				c.Violation("C20/valid-filter-refused:"+resource, map[string]any{"filter": string(js), "error": err.Error()})
				continue
			}
			r.Count("count_vs_list_comparisons", 1)
			if cnt != listed {
				c.Violation("C20/count-differs-from-number-of-listed-entities:"+resource, map[string]any{"filter": string(js), "count": cnt, "listed": listed})
			}
		}
		// invalid filters must be refused as invalid queries (not accepted, not a 5xx)
		bad := []string{`{"$match":{"nosuchkey":"x"}}`, `{"$lt":{"reference":"x"}}`, `{"$match":{"id":"notanumber"}}`, `{"$match":{"reverted":"yes"}}`, `{"$gte":{"timestamp":"yesterday"}}`, `{"$exists":{"id":"x"}}`, `{"$like":{"id":"1%"}}`}
		for _, bjs := range bad {
			resp := e.Do("GET", "/v2/l1/transactions", []byte(bjs), nil)
			r.Count("invalid_filters_tried", 1)
			if resp.Status == 200 {
				c.Violation("C20/invalid-filter-accepted", map[string]any{"filter": bjs, "response": string(resp.Body)})
			}
			if resp.Status >= 500 {
				if len(resp.Body) == 0 {
					e.C.AbortAll()
				}
				c.Violation("C20/invalid-filter-answered-5xx", map[string]any{"filter": bjs, "status": resp.Status, "response": string(resp.Body)})
			}
		}
	})
}

func shapeOf(n *c20Node) string {
	if len(n.Kids) == 0 {
		return n.Op[:1]
	}
	var ks []string
	for _, k := range n.Kids {
		ks = append(ks, shapeOf(k))
	}
	return n.Op[:1] + "(" + strings.Join(ks, "") + ")"
}

func shapeOfJSON(s string) string {
	return regexp.MustCompile(`"[^"$]*"|\d+`).ReplaceAllString(s, "")
}
