package checks

import (
	"context"
	"encoding/json"
	"fmt"
	"math/rand"
	"regexp"
	"strconv"
	"strings"
	"sync"

	"github.com/formancehq/go-libs/v5/pkg/query"

	ledger "github.com/formancehq/ledger/internal"
	"github.com/formancehq/ledger/internal/storage/common"
	ledgerstore "github.com/formancehq/ledger/internal/storage/ledger"

	"github.com/formancehq/ledger/verifharness/core"
	"github.com/formancehq/ledger/verifharness/realstore"
	"github.com/formancehq/ledger/verifharness/sim"
)

func init() {
	core.Register(&core.Check{
		ID: "C20", Level: "exploration",
		Rule:        "(a) the SQL fragments the real filterAccountAddress / filterAccountAddressOnTransactions emit for random addresses and patterns (exact, partial `a::c`, prefix `a:...`, quotes, backslashes) are evaluated by a 40-line evaluator of exactly that fragment family (jsonb_array_length, `@@ '$[i] == \"s\"'`, `= 's'`, `@> '[{...}]'`) on random address arrays and compared with an independent address matcher; (b) for random filter ASTs (depth <= 4) canPushAddressFilterToLateral(F)=true must imply F(row) => pushed disjunction(row) on random rows with non-address leaves as free booleans; (c) random filters with unknown keys, disallowed operators and wrongly typed values must be refused as invalid queries by the real repository, valid ones accepted; (d) over random histories Count* equals the number of entities listed through all pages for random filters. Distinct = (sub-check, pattern/AST shape); non-trivial = pattern is partial or the AST mixes address and non-address leaves",
		Assumptions: []string{"only address semantics and the composition machinery are judged; metadata @>, balance, date, $in, $like leaves as executed by Postgres are not (they are SQL)", seqAssume, "addresses with exactly one segment fewer than an `a:...` pattern are counted as ambiguous (the documentation does not say whether `a:...` matches `a`) and excluded"},
		Run:         runC20,
	})
}

// independent address matcher (documented meaning)
func c20Match(pattern, addr string) (match, ambiguous bool) {
	ps, as := strings.Split(pattern, ":"), strings.Split(addr, ":")
	partial := false
	for i, s := range ps {
		if s == "" || (s == "..." && i == len(ps)-1) {
			partial = true
		}
	}
	if !partial {
		return pattern == addr, false
	}
	open := ps[len(ps)-1] == "..."
	if open {
		// documented forms are `a::c` (partial) and `a:...` (prefix); what a pattern mixing both
		// (`a::...`) requires of shorter addresses is not documented: excluded from the verdict
		for _, sgm := range ps[:len(ps)-1] {
			if sgm == "" && len(as) < len(ps) {
				ambiguous = true
			}
		}
		if len(as) == len(ps)-1 {
			ambiguous = true
		}
		if len(as) < len(ps)-1 {
			return false, ambiguous
		}
	} else if len(as) != len(ps) {
		return false, false
	}
	for i, s := range ps {
		if s == "" || (open && i == len(ps)-1) {
			continue
		}
		if i >= len(as) || as[i] != s {
			return false, ambiguous
		}
	}
	return true, ambiguous
}

var (
	reLen   = regexp.MustCompile(`^jsonb_array_length\((\w+)_array\) = (\d+)$`)
	reJPath = regexp.MustCompile(`^(\w+)_array @@ \('\$\[(\d+)\] == "((?:[^"\\]|\\.)*)"'\)::jsonpath$`)
	reEq    = regexp.MustCompile(`^(\w+) = '((?:[^']|'')*)'$`)
)

// evaluator of the fragment family emitted by filterAccountAddress
func c20EvalAccount(frag, addr string) (bool, error) {
	segs := strings.Split(addr, ":")
	if frag == "1 = 1" {
		return true, nil
	}
	for _, part := range strings.Split(frag, " and ") {
		part = strings.TrimSpace(part)
		switch {
		case reLen.MatchString(part):
			n, _ := strconv.Atoi(reLen.FindStringSubmatch(part)[2])
			if len(segs) != n {
				return false, nil
			}
		case reJPath.MatchString(part):
			m := reJPath.FindStringSubmatch(part)
			i, _ := strconv.Atoi(m[2])
			// SQL literal unescape ('' -> '), then jsonpath string unescape (\\ -> \, \" -> ")
			lit := strings.ReplaceAll(m[3], "''", "'")
			lit = strings.ReplaceAll(strings.ReplaceAll(lit, `\"`, `"`), `\\`, `\`)
			if i >= len(segs) || segs[i] != lit {
				return false, nil
			}
		case reEq.MatchString(part):
			if strings.ReplaceAll(reEq.FindStringSubmatch(part)[2], "''", "'") != addr {
				return false, nil
			}
		default:
			return false, fmt.Errorf("fragment outside the family: %q", part)
		}
	}
	return true, nil
}

var reContain = regexp.MustCompile(`^(sources|destinations)(_arrays)? @> '((?:[^']|'')*)'$`)

// evaluator for filterAccountAddressOnTransactions: jsonb containment on the exploded addresses
func c20EvalTx(frag string, sources, destinations []string) (bool, error) {
	for _, part := range strings.Split(frag, " or ") {
		m := reContain.FindStringSubmatch(strings.TrimSpace(part))
		if m == nil {
			return false, fmt.Errorf("fragment outside the family: %q", part)
		}
		addrs := sources
		if m[1] == "destinations" {
			addrs = destinations
		}
		lit := strings.ReplaceAll(m[3], "''", "'")
		if m[2] == "" {
			var want []string
			if err := json.Unmarshal([]byte(lit), &want); err != nil {
				return false, err
			}
			for _, w := range want {
				for _, a := range addrs {
					if a == w {
						return true, nil
					}
				}
			}
			continue
		}
		var pats []map[string]any
		if err := json.Unmarshal([]byte(lit), &pats); err != nil {
			return false, err
		}
		for _, a := range addrs {
			ex := ledgerstore.VerifExplodeAddress(a) // the stored representation
			ok := true
			for k, v := range pats[0] {
				ev, present := ex[k]
				if !present || fmt.Sprint(ev) != fmt.Sprint(v) {
					ok = false
				}
			}
			if ok {
				return true, nil
			}
		}
	}
	return false, nil
}

var c20Segs = []string{"users", "bank", "001", "a", "it's", `q"uote`, `back\slash`, "x_y", "..."}

func c20Addr(rng *rand.Rand) string {
	n := 1 + rng.Intn(4)
	var s []string
	for i := 0; i < n; i++ {
		s = append(s, c20Segs[rng.Intn(len(c20Segs)-1)])
	}
	return strings.Join(s, ":")
}

func c20Pattern(rng *rand.Rand) string {
	n := 1 + rng.Intn(4)
	var s []string
	for i := 0; i < n; i++ {
		if rng.Intn(4) == 0 {
			s = append(s, "")
		} else {
			s = append(s, c20Segs[rng.Intn(len(c20Segs)-1)])
		}
	}
	if rng.Intn(3) == 0 {
		s = append(s, "...")
	}
	return strings.Join(s, ":")
}

// AST for (b)
type c20Node struct {
	Op    string // and, or, not, addr, in, other
	Kids  []*c20Node
	Addr  string
	In    []string // exact addresses of an $in leaf
	Other int
}

// c20WithIn makes c20GenAST also draw `$in` leaves on the address (exact addresses only).
var c20WithIn = false

func c20GenAST(rng *rand.Rand, depth int, nOther *int) *c20Node {
	if depth <= 0 || rng.Intn(3) == 0 {
		if rng.Intn(2) == 0 {
			if c20WithIn && rng.Intn(3) == 0 {
				n := &c20Node{Op: "in"}
				for i := 0; i < 1+rng.Intn(3); i++ {
					n.In = append(n.In, c20Addr(rng))
				}
				return n
			}
			return &c20Node{Op: "addr", Addr: c20Pattern(rng)}
		}
		*nOther++
		return &c20Node{Op: "other", Other: *nOther - 1}
	}
	switch rng.Intn(3) {
	case 0:
		return &c20Node{Op: "not", Kids: []*c20Node{c20GenAST(rng, depth-1, nOther)}}
	case 1:
		n := &c20Node{Op: "and"}
		for i := 0; i < 1+rng.Intn(3); i++ {
			n.Kids = append(n.Kids, c20GenAST(rng, depth-1, nOther))
		}
		return n
	default:
		n := &c20Node{Op: "or"}
		for i := 0; i < 1+rng.Intn(3); i++ {
			n.Kids = append(n.Kids, c20GenAST(rng, depth-1, nOther))
		}
		return n
	}
}

func (n *c20Node) builder() query.Builder {
	switch n.Op {
	case "addr":
		return query.Match("address", n.Addr)
	case "in":
		vs := make([]any, len(n.In))
		for i, a := range n.In {
			vs[i] = a
		}
		return query.In("address", vs)
	case "other":
		return query.Match(fmt.Sprintf("metadata[k%d]", n.Other), "v")
	case "not":
		return query.Not(n.Kids[0].builder())
	}
	var items []query.Builder
	for _, k := range n.Kids {
		items = append(items, k.builder())
	}
	if n.Op == "and" {
		return query.And(items...)
	}
	return query.Or(items...)
}

func (n *c20Node) eval(addr string, others []bool) bool {
	switch n.Op {
	case "addr":
		m, _ := c20Match(n.Addr, addr)
		return m
	case "in":
		for _, a := range n.In {
			if a == addr {
				return true
			}
		}
		return false
	case "other":
		return others[n.Other]
	case "not":
		return !n.Kids[0].eval(addr, others)
	case "and":
		for _, k := range n.Kids {
			if !k.eval(addr, others) {
				return false
			}
		}
		return true
	}
	for _, k := range n.Kids {
		if k.eval(addr, others) {
			return true
		}
	}
	return false
}

func (n *c20Node) addrs(out *[]string) {
	if n.Op == "addr" {
		*out = append(*out, n.Addr)
	}
	for _, k := range n.Kids {
		k.addrs(out)
	}
}

func runC20(r *core.Run) {
	// (a) address fragments
	r.ForEach("addr", r.N(20000, 400000), 0, func(c *core.Case) {
		rng := c.Rng
		pat := c20Pattern(rng)
		if rng.Intn(3) == 0 {
			pat = c20Addr(rng)
		}
		partial := ledgerstore.VerifIsPartialAddress(pat)
		frag := ledgerstore.VerifFilterAccountAddress(pat, "address")
		for i := 0; i < 6; i++ {
			addr := c20Addr(rng)
			if i == 0 && !partial {
				addr = pat
			}
			want, amb := c20Match(pat, addr)
			if amb {
				r.Count("ambiguous_excluded", 1)
				continue
			}
			got, err := c20EvalAccount(frag, addr)
			if err != nil {
				r.Inconclusive(err.Error())
				return
			}
			r.Count("address_evaluations", 1)
			if got != want {
				c.Violation(fmt.Sprintf("C20/account-address-filter-disagrees-with-documented-meaning:%s", map[bool]string{true: "partial", false: "exact"}[partial]), map[string]any{"pattern": pat, "address": addr, "fragment": frag, "fragment_says": got, "documented": want})
			}
		}
		// transactions
		src, dst := rng.Intn(2) == 0, rng.Intn(2) == 0
		if !src && !dst {
			src = true
		}
		tfrag := ledgerstore.VerifFilterAccountAddressOnTransactions(pat, src, dst)
		sources := []string{c20Addr(rng), c20Addr(rng)}
		dests := []string{c20Addr(rng)}
		if rng.Intn(3) == 0 && !partial {
			dests = append(dests, pat)
		}
		want, amb := false, false
		check := func(list []string) {
			for _, a := range list {
				m, am := c20Match(pat, a)
				if am {
					amb = true
				}
				if m {
					want = true
				}
			}
		}
		if src {
			check(sources)
		}
		if dst {
			check(dests)
		}
		if !amb {
			got, err := c20EvalTx(tfrag, sources, dests)
			if err != nil {
				r.Inconclusive(err.Error())
				return
			}
			r.Count("transaction_address_evaluations", 1)
			if got != want {
				c.Violation(fmt.Sprintf("C20/transaction-address-filter-disagrees-with-documented-meaning:%s", map[bool]string{true: "partial", false: "exact"}[partial]), map[string]any{"pattern": pat, "sources": sources, "destinations": dests, "on_source": src, "on_destination": dst, "fragment": tfrag, "fragment_says": got, "documented": want})
			}
		}
		r.Eval("addr|"+strings.Join(strings.FieldsFunc(pat, func(r rune) bool { return r != ':' && r != '.' }), ""), partial)
		if c.Index < 3 {
			r.Sample(map[string]any{"loop": "address", "pattern": pat, "partial": partial, "account_fragment": frag, "transaction_fragment": tfrag})
		}
	})
	// (b) lateral push-down safety
	r.ForEach("lateral", r.N(20000, 300000), 0, func(c *core.Case) {
		rng := c.Rng
		nOther := 0
		ast := c20GenAST(rng, 4, &nOther)
		var addrs []string
		ast.addrs(&addrs)
		b := ast.builder()
		can := ledgerstore.VerifCanPushAddressFilterToLateral(b)
		js, _ := json.Marshal(b)
		mixed := len(addrs) > 0 && nOther > 0
		r.Eval("lateral|"+shapeOf(ast), mixed)
		r.Seen("can_push", fmt.Sprint(can))
		if !can || len(addrs) == 0 {
			return
		}
		pushed := ledgerstore.VerifBuildAddressFilterForLateral(addrs)
		for i := 0; i < 12; i++ {
			addr := c20Addr(rng)
			if rng.Intn(3) == 0 {
				// derive a near-match from one of the patterns
				p := addrs[rng.Intn(len(addrs))]
				addr = strings.ReplaceAll(strings.ReplaceAll(p, ":...", ":zz"), "::", ":zz:")
				addr = strings.Trim(addr, ":")
				if addr == "" {
					addr = "zz"
				}
			}
			others := make([]bool, nOther)
			for k := range others {
				others[k] = rng.Intn(2) == 0
			}
			anyAmb := false
			for _, p := range addrs {
				if _, am := c20Match(p, addr); am {
					anyAmb = true
				}
			}
			if anyAmb {
				continue
			}
			f := ast.eval(addr, others)
			// pushed disjunction evaluated on the emitted fragment
			inLateral := false
			for _, part := range strings.Split(pushed, " OR ") {
				ok, err := c20EvalAccount(strings.TrimSuffix(strings.TrimPrefix(strings.TrimSpace(part), "("), ")"), addr)
				if err != nil {
					r.Inconclusive(err.Error())
					return
				}
				if ok {
					inLateral = true
				}
			}
			r.Count("lateral_rows_checked", 1)
			if f && !inLateral {
				c.Violation("C20/lateral-pushdown-drops-a-matching-row", map[string]any{"filter": string(js), "address": addr, "other_leaves": others, "pushed": pushed})
				return
			}
		}
	})
	// (b') the same implication on the SQL the REAL volumes / aggregated-balances handlers emit (which address
	// values are pushed is decided there): whatever restricts the accounts inside `join lateral (...)` must be
	// implied by the filter, for $match and $in leaves on the address under any nesting
	r.Floor("lateral_sql_pushed", 200)
	r.ForEach("lateral-sql", r.N(3000, 60000), 0, func(c *core.Case) {
		rng := c.Rng
		nOther := 0
		c20WithInMu.Lock()
		c20WithIn = true
		ast := c20GenAST(rng, 3, &nOther)
		c20WithIn = false
		c20WithInMu.Unlock()
		hasIn, hasMatch := ast.has("in"), ast.has("addr")
		b := ast.builder()
		js, _ := json.Marshal(b)
		db := realstore.NewSysDB()
		defer db.Close()
		d := db.NewDriver()
		ctx := context.Background()
		l := ledger.MustNewWithDefault("l1")
		st, err := d.CreateLedger(ctx, &l)
		if err != nil {
			r.Inconclusive("CreateLedger: " + err.Error())
			return
		}
		resource := []string{"volumes", "aggregated"}[c.Index%2]
		db.Shim.ResetLog()
		if resource == "volumes" {
			_, err = st.Volumes().Paginate(ctx, common.InitialPaginatedQuery[ledger.GetVolumesOptions]{PageSize: 5, Options: common.ResourceQuery[ledger.GetVolumesOptions]{Builder: b}})
		} else {
			_, err = st.AggregatedVolumes().GetOne(ctx, common.ResourceQuery[ledger.GetAggregatedVolumesOptions]{Builder: b})
		}
		r.Eval("lateral-sql|"+resource+"|"+shapeOf(ast), hasIn && hasMatch)
		var sqlText string
		for _, s := range db.Shim.Log() {
			if strings.Contains(s.SQL, "join lateral (") {
				sqlText = s.SQL
			}
		}
		if sqlText == "" {
			r.Seen("lateral_sql_outcome", "no-lateral-statement:"+fmt.Sprint(err != nil))
			return
		}
		pushed, ok := c20LateralRestriction(sqlText)
		if !ok {
			r.Inconclusive("cannot locate the lateral subquery in: " + sqlText)
			return
		}
		if len(pushed) == 0 {
			r.Count("lateral_sql_not_pushed", 1)
			return
		}
		r.Count("lateral_sql_pushed", 1)
		if c.Index < 40 && len(pushed) > 0 && hasIn {
			r.Sample(map[string]any{"loop": "lateral-sql", "resource": resource, "filter": string(js), "restriction_inside_the_lateral_join": pushed})
		}
		if hasIn {
			r.Count("lateral_sql_pushed_with_in_leaf", 1)
		}
		var pats []string
		ast.addrs(&pats)
		for i := 0; i < 16; i++ {
			addr := c20Addr(rng)
			switch rng.Intn(3) {
			case 0:
				if ins := ast.ins(); len(ins) > 0 {
					addr = ins[rng.Intn(len(ins))]
				}
			case 1:
				if len(pats) > 0 {
					p := pats[rng.Intn(len(pats))]
					addr = strings.Trim(strings.ReplaceAll(strings.ReplaceAll(p, ":...", ":zz"), "::", ":zz:"), ":")
					if addr == "" {
						addr = "zz"
					}
				}
			}
			amb := false
			for _, p := range pats {
				if _, am := c20Match(p, addr); am {
					amb = true
				}
			}
			if amb {
				continue
			}
			others := make([]bool, nOther)
			for k := range others {
				others[k] = rng.Intn(2) == 0
			}
			f := ast.eval(addr, others)
			in := true
			for _, conj := range pushed { // conjuncts: all must hold
				any := false
				for _, part := range c20SplitTop(conj, " OR ") {
					okp, err := c20EvalAccount(c20StripParens(part), addr)
					if err != nil {
						r.Inconclusive(err.Error())
						return
					}
					if okp {
						any = true
					}
				}
				if !any {
					in = false
				}
			}
			r.Count("lateral_sql_rows_checked", 1)
			if f && !in {
				kind := "match-only"
				if hasIn {
					kind = "with-$in-leaf"
				}
				c.Violation("C20/lateral-pushdown-drops-a-matching-row:"+resource+":"+kind, map[string]any{"filter": string(js), "address": addr, "other_leaves": others, "lateral_restriction": pushed, "sql": sqlText})
				return
			}
		}
	})
	// (c) validation + (d) count == listed, through the controller stack
	r.ForEach("count", r.N(300, 6000), 0, func(c *core.Case) {
		rng := c.Rng
		e := sim.NewEnv(sim.Options{})
		defer e.Close()
		_ = e.CreateLedger("l1", "_default", nil)
		st := &sim.GenState{NoBig: true}
		for i := 0; i < 20; i++ {
			op := sim.GenOp(rng, st)
			op.DryRun = false
			out := e.Apply("l1", op)
			if out.OK() && out.Created != nil {
				st.TxIDs = append(st.TxIDs, *out.Created.Transaction.ID)
			}
		}
		for k := 0; k < 6; k++ {
			resource := []string{"transactions", "accounts"}[rng.Intn(2)]
			b := realstore.GenFilter(rng, resource, 3)
			js, _ := json.Marshal(b)
			listed := 0
			var cnt int
			var err error
			if resource == "transactions" {
				cnt, err = e.Ctrl("l1").CountTransactions(e.Ctx, common.ResourceQuery[any]{Builder: b})
				var q common.PaginatedQuery[any] = common.InitialPaginatedQuery[any]{PageSize: 4, Options: common.ResourceQuery[any]{Builder: b}}
				for i := 0; i < 200 && err == nil; i++ {
					cur, e2 := e.Ctrl("l1").ListTransactions(e.Ctx, q)
					if e2 != nil {
						err = e2
						break
					}
					listed += len(cur.Data)
					if !cur.HasMore {
						break
					}
					q, _ = common.UnmarshalCursor[any](cur.Next)
				}
			} else {
				cnt, err = e.Ctrl("l1").CountAccounts(e.Ctx, common.ResourceQuery[any]{Builder: b})
				var q common.PaginatedQuery[any] = common.InitialPaginatedQuery[any]{PageSize: 4, Options: common.ResourceQuery[any]{Builder: b}}
				for i := 0; i < 200 && err == nil; i++ {
					cur, e2 := e.Ctrl("l1").ListAccounts(e.Ctx, q)
					if e2 != nil {
						err = e2
						break
					}
					listed += len(cur.Data)
					if !cur.HasMore {
						break
					}
					q, _ = common.UnmarshalCursor[any](cur.Next)
				}
			}
			r.Eval("count|"+resource+"|"+shapeOfJSON(string(js)), true)
			if err != nil {
				c.Violation("C20/valid-filter-refused:"+resource, map[string]any{"filter": string(js), "error": err.Error()})
				continue
			}
			r.Count("count_vs_list_comparisons", 1)
			if cnt != listed {
				c.Violation("C20/count-differs-from-number-of-listed-entities:"+resource, map[string]any{"filter": string(js), "count": cnt, "listed": listed})
			}
		}
		// invalid filters must be refused as invalid queries (not accepted, not a 5xx)
		bad := []string{`{"$match":{"nosuchkey":"x"}}`, `{"$lt":{"reference":"x"}}`, `{"$match":{"id":"notanumber"}}`, `{"$match":{"reverted":"yes"}}`, `{"$gte":{"timestamp":"yesterday"}}`, `{"$exists":{"id":"x"}}`, `{"$like":{"id":"1%"}}`}
		for _, bjs := range bad {
			resp := e.Do("GET", "/v2/l1/transactions", []byte(bjs), nil)
			r.Count("invalid_filters_tried", 1)
			if resp.Status == 200 {
				c.Violation("C20/invalid-filter-accepted", map[string]any{"filter": bjs, "response": string(resp.Body)})
			}
			if resp.Status >= 500 {
				if len(resp.Body) == 0 {
					e.C.AbortAll()
				}
				c.Violation("C20/invalid-filter-answered-5xx", map[string]any{"filter": bjs, "status": resp.Status, "response": string(resp.Body)})
			}
		}
	})
}

func shapeOf(n *c20Node) string {
	if len(n.Kids) == 0 {
		return n.Op[:1]
	}
	var ks []string
	for _, k := range n.Kids {
		ks = append(ks, shapeOf(k))
	}
	return n.Op[:1] + "(" + strings.Join(ks, "") + ")"
}

func shapeOfJSON(s string) string {
	return regexp.MustCompile(`"[^"$]*"|\d+`).ReplaceAllString(s, "")
}

var c20WithInMu sync.Mutex

func (n *c20Node) has(op string) bool {
	if n.Op == op {
		return true
	}
	for _, k := range n.Kids {
		if k.has(op) {
			return true
		}
	}
	return false
}

func (n *c20Node) ins() []string {
	var out []string
	if n.Op == "in" {
		out = append(out, n.In...)
	}
	for _, k := range n.Kids {
		out = append(out, k.ins()...)
	}
	return out
}

// c20LateralRestriction returns the conjuncts that restrict the accounts inside `join lateral ( ... )`
// beyond the join condition (and the ledger scoping).
func c20LateralRestriction(sqlText string) ([]string, bool) {
	i := strings.Index(sqlText, "join lateral (")
	if i < 0 {
		return nil, false
	}
	start := i + len("join lateral (")
	depth, inStr, end := 1, false, -1
	for j := start; j < len(sqlText); j++ {
		ch := sqlText[j]
		if ch == '\'' {
			inStr = !inStr
		}
		if inStr {
			continue
		}
		if ch == '(' {
			depth++
		}
		if ch == ')' {
			depth--
			if depth == 0 {
				end = j
				break
			}
		}
	}
	if end < 0 {
		return nil, false
	}
	sub := sqlText[start:end]
	w := strings.Index(sub, " WHERE ")
	if w < 0 {
		return nil, true
	}
	var out []string
	for _, conj := range c20SplitTop(sub[w+len(" WHERE "):], " AND ") {
		cj := c20StripParens(strings.TrimSpace(conj))
		if cj == "accounts.address = accounts_address" || strings.HasPrefix(cj, "ledger = ") || strings.HasPrefix(cj, `"accounts"."ledger" = `) || strings.HasPrefix(cj, "accounts.ledger = ") {
			continue
		}
		out = append(out, cj)
	}
	return out, true
}

// c20SplitTop splits on sep (case-insensitive) outside parentheses and quotes.
func c20SplitTop(s, sep string) []string {
	var out []string
	depth, inStr, last := 0, false, 0
	up := strings.ToUpper(s)
	usep := strings.ToUpper(sep)
	for i := 0; i < len(s); i++ {
		ch := s[i]
		if ch == '\'' {
			inStr = !inStr
		}
		if inStr {
			continue
		}
		if ch == '(' {
			depth++
		}
		if ch == ')' {
			depth--
		}
		if depth == 0 && strings.HasPrefix(up[i:], usep) {
			out = append(out, s[last:i])
			last = i + len(sep)
			i += len(sep) - 1
		}
	}
	return append(out, s[last:])
}

func c20StripParens(s string) string {
	s = strings.TrimSpace(s)
	for strings.HasPrefix(s, "(") && strings.HasSuffix(s, ")") {
		// only strip a pair that encloses the whole string
		depth, whole := 0, true
		for i := 0; i < len(s); i++ {
			if s[i] == '(' {
				depth++
			}
			if s[i] == ')' {
				depth--
				if depth == 0 && i < len(s)-1 {
					whole = false
					break
				}
			}
		}
		if !whole {
			break
		}
		s = strings.TrimSpace(s[1 : len(s)-1])
	}
	return s
}
