package checks

// C38 — mutation operators (grammar-aware): an order-preserving JSON tree that can
// hold raw (even invalid) literals and duplicate keys, value pools, and the
// systematic / random mutant generators for bodies, query strings, cursors,
// filters, path parameters and headers.

import (
	"bytes"
	"encoding/base64"
	"encoding/json"
	"fmt"
	"math/rand"
	"regexp"
	"sort"
	"strings"
	"unicode/utf8"

	"github.com/formancehq/ledger/verifharness/sim"
)

// ---------------------------------------------------------------------------
// JSON tree

type c38N struct {
	K    byte // 'o' object, 'a' array, 'r' raw scalar / raw text
	Keys []string
	Kids []*c38N
	Raw  string
}

func c38Raw(s string) *c38N { return &c38N{K: 'r', Raw: s} }
func c38Str(s string) *c38N {
	b, _ := json.Marshal(s)
	return &c38N{K: 'r', Raw: string(b)}
}

// c38RawStr builds a string literal from raw bytes (may be invalid UTF-8):
// only `"` and `\` and control characters are escaped.
func c38RawStr(s string) *c38N {
	var sb strings.Builder
	sb.WriteByte('"')
	for i := 0; i < len(s); i++ {
		c := s[i]
		switch {
		case c == '"' || c == '\\':
			sb.WriteByte('\\')
			sb.WriteByte(c)
		case c < 0x20:
			fmt.Fprintf(&sb, `\u%04x`, c)
		default:
			sb.WriteByte(c)
		}
	}
	sb.WriteByte('"')
	return &c38N{K: 'r', Raw: sb.String()}
}

func c38Obj(kv ...any) *c38N {
	n := &c38N{K: 'o'}
	for i := 0; i+1 < len(kv); i += 2 {
		n.Keys = append(n.Keys, kv[i].(string))
		n.Kids = append(n.Kids, c38Of(kv[i+1]))
	}
	return n
}

func c38Arr(items ...any) *c38N {
	n := &c38N{K: 'a'}
	for _, it := range items {
		n.Kids = append(n.Kids, c38Of(it))
	}
	return n
}

// c38Of converts a Go value (or a *c38N) to a tree.
func c38Of(v any) *c38N {
	switch x := v.(type) {
	case *c38N:
		return x
	case nil:
		return c38Raw("null")
	case string:
		return c38Str(x)
	case bool:
		if x {
			return c38Raw("true")
		}
		return c38Raw("false")
	case int:
		return c38Raw(fmt.Sprint(x))
	case int64:
		return c38Raw(fmt.Sprint(x))
	case uint64:
		return c38Raw(fmt.Sprint(x))
	case json.Number:
		return c38Raw(string(x))
	}
	b, err := json.Marshal(v)
	if err != nil {
		panic(err)
	}
	n, ok := c38Parse(b)
	if !ok {
		panic("c38Of: unparsable " + string(b))
	}
	return n
}

func c38Parse(b []byte) (*c38N, bool) {
	dec := json.NewDecoder(bytes.NewReader(b))
	dec.UseNumber()
	n, err := c38ParseValue(dec)
	if err != nil {
		return nil, false
	}
	if _, err := dec.Token(); err == nil {
		return nil, false // trailing data
	}
	return n, true
}

func c38ParseValue(dec *json.Decoder) (*c38N, error) {
	tok, err := dec.Token()
	if err != nil {
		return nil, err
	}
	switch t := tok.(type) {
	case json.Delim:
		switch t {
		case '{':
			n := &c38N{K: 'o'}
			for dec.More() {
				kt, err := dec.Token()
				if err != nil {
					return nil, err
				}
				k, _ := kt.(string)
				v, err := c38ParseValue(dec)
				if err != nil {
					return nil, err
				}
				n.Keys = append(n.Keys, k)
				n.Kids = append(n.Kids, v)
			}
			_, err := dec.Token()
			return n, err
		case '[':
			n := &c38N{K: 'a'}
			for dec.More() {
				v, err := c38ParseValue(dec)
				if err != nil {
					return nil, err
				}
				n.Kids = append(n.Kids, v)
			}
			_, err := dec.Token()
			return n, err
		}
		return nil, fmt.Errorf("unexpected delimiter")
	case string:
		return c38Str(t), nil
	case json.Number:
		return c38Raw(string(t)), nil
	case bool:
		if t {
			return c38Raw("true"), nil
		}
		return c38Raw("false"), nil
	case nil:
		return c38Raw("null"), nil
	}
	return nil, fmt.Errorf("unexpected token")
}

func (n *c38N) write(sb *strings.Builder) {
	switch n.K {
	case 'o':
		sb.WriteByte('{')
		for i, k := range n.Keys {
			if i > 0 {
				sb.WriteByte(',')
			}
			kb, _ := json.Marshal(k)
			sb.Write(kb)
			sb.WriteByte(':')
			n.Kids[i].write(sb)
		}
		sb.WriteByte('}')
	case 'a':
		sb.WriteByte('[')
		for i, c := range n.Kids {
			if i > 0 {
				sb.WriteByte(',')
			}
			c.write(sb)
		}
		sb.WriteByte(']')
	default:
		sb.WriteString(n.Raw)
	}
}

func (n *c38N) String() string {
	var sb strings.Builder
	n.write(&sb)
	return sb.String()
}

func (n *c38N) Bytes() []byte { return []byte(n.String()) }

func (n *c38N) clone() *c38N {
	c := &c38N{K: n.K, Raw: n.Raw}
	if n.Keys != nil {
		c.Keys = append([]string(nil), n.Keys...)
	}
	for _, k := range n.Kids {
		c.Kids = append(c.Kids, k.clone())
	}
	return c
}

func (n *c38N) get(key string) *c38N {
	if n == nil || n.K != 'o' {
		return nil
	}
	for i, k := range n.Keys {
		if k == key {
			return n.Kids[i]
		}
	}
	return nil
}

func (n *c38N) set(key string, v *c38N) {
	for i, k := range n.Keys {
		if k == key {
			n.Kids[i] = v
			return
		}
	}
	n.Keys = append(n.Keys, key)
	n.Kids = append(n.Kids, v)
}

func (n *c38N) isString() bool { return n.K == 'r' && strings.HasPrefix(n.Raw, `"`) }
func (n *c38N) kindName() string {
	switch n.K {
	case 'o':
		return "object"
	case 'a':
		return "array"
	}
	switch {
	case strings.HasPrefix(n.Raw, `"`):
		return "string"
	case n.Raw == "true" || n.Raw == "false":
		return "bool"
	case n.Raw == "null":
		return "null"
	}
	return "number"
}

// c38Site is one node position of a tree: parent + index (parent nil: root).
type c38Site struct {
	Path   string // e.g. postings[0].amount
	Key    string // last object key on the way ("" under arrays keeps the enclosing key)
	Depth  int
	parent []int // index path from the root
}

func c38Sites(root *c38N, maxDepth int) []c38Site {
	var out []c38Site
	var walk func(n *c38N, path, key string, idx []int, depth int)
	walk = func(n *c38N, path, key string, idx []int, depth int) {
		out = append(out, c38Site{Path: path, Key: key, Depth: depth, parent: append([]int(nil), idx...)})
		if maxDepth > 0 && depth >= maxDepth {
			return
		}
		for i, c := range n.Kids {
			p, k := path, key
			if n.K == 'o' {
				k = n.Keys[i]
				if p == "" {
					p = k
				} else {
					p = p + "." + k
				}
			} else {
				p = fmt.Sprintf("%s[%d]", p, i)
			}
			walk(c, p, k, append(idx, i), depth+1)
		}
	}
	walk(root, "", "", nil, 0)
	return out
}

// c38At returns (parent, index, node) for a site in a (cloned) tree.
func c38At(root *c38N, s c38Site) (*c38N, int, *c38N) {
	var parent *c38N
	n := root
	idx := -1
	for _, i := range s.parent {
		if i >= len(n.Kids) {
			return nil, -1, nil
		}
		parent, idx, n = n, i, n.Kids[i]
	}
	return parent, idx, n
}

// c38Replace returns a clone of root with the node at s replaced.
func c38Replace(root *c38N, s c38Site, v *c38N) *c38N {
	c := root.clone()
	p, i, _ := c38At(c, s)
	if p == nil {
		return v
	}
	p.Kids[i] = v
	return c
}

func c38Delete(root *c38N, s c38Site) *c38N {
	c := root.clone()
	p, i, _ := c38At(c, s)
	if p == nil {
		return c
	}
	p.Kids = append(p.Kids[:i:i], p.Kids[i+1:]...)
	if p.K == 'o' {
		p.Keys = append(p.Keys[:i:i], p.Keys[i+1:]...)
	}
	return c
}

// ---------------------------------------------------------------------------
// value pools

var c38Long = strings.Repeat("A", 70_000)

func c38BoundaryStrings() []string {
	out := append([]string(nil), sim.StrPool...)
	out = append(out,
		c38Long,
		"\xff\xfe\xfd",       // invalid UTF-8
		"a\xc3",              // truncated UTF-8 sequence
		"\x00",               // NUL
		"a\x00b",             // embedded NUL
		"\x01\x02\x1f\x7f",   // control characters
		"\u202e\u200b\ufeff", // bidi / zero width / BOM
		"\U0001F600",         // astral plane
		"' OR 1=1 --",        // SQL-looking
		"${x}",               // template-looking
		"%s%d%!",             // format-looking
		"../../etc/passwd",
		strings.Repeat("é", 300),
	)
	return out
}

var c38BadAddresses = []string{"", " ", "a b", "world:", ":a", "a::b", ":", "é", "wor\x00ld", "@world", "a:b:", "users:001:", "USERS:001", "a.b", "a/b", "a*", "a%", "a'b", `a"b`, "-", "_", "a\nb", strings.Repeat("a:", 400) + "a", strings.Repeat("x", 5000), "world", "users:"}
var c38BadAssets = []string{"", "usd", "USD/", "USD/-1", "USD/1000000000000", "/2", "U SD", "$", "USD/2/2", "USD.2", "é", "USD\x00", strings.Repeat("A", 5000), "1", "USD/a", "A/0", "*"}

// raw JSON literals
var c38BadAmounts = []string{"-1", "-0", "0", "1.5", "1e400", "1e2", "1E+3", "0.0", "1.0", `"100"`, `"-1"`, `"abc"`, `""`,
	"115792089237316195423570985008687907853269984665640564039457584007913129639936", // 2^256
	"-115792089237316195423570985008687907853269984665640564039457584007913129639936",
	"1" + strings.Repeat("0", 5000), "0x10", "NaN", "Infinity", "+1", "01", "1.", ".5", "1e-400", "9223372036854775808", "18446744073709551616"}
var c38BadDates = []string{"notadate", "2023-13-45T00:00:00Z", "0000-00-00T00:00:00Z", "9999999999", "-1", "2023-01-01", "2023-01-01T00:00:00+99:00",
	"2023-01-01T25:61:61Z", "10000-01-01T00:00:00Z", "0001-01-01T00:00:00Z", "292277026596-12-04T15:30:07Z", "2023-02-30T00:00:00Z", "2023-01-01T00:00:00.123456789123Z",
	"2023-01-01 00:00:00", " ", "\x00", "2262-04-11T23:47:16.854775808Z", "1677-09-21T00:12:43Z"}
var c38BadUints = []string{"-1", "0", "abc", "1e3", "99999999999999999999", "1.5", "18446744073709551615", "18446744073709551616", "9223372036854775808", " 1", "1 ", "+1", "0x10", "", "١", "1000", "1001", "2147483648", "4294967296"}
var c38BadBools = []string{"maybe", "2", "TRUE ", "yes", "on", "null", "", "0", "1", "t", "True", "TRUE", "\x00"}
var c38BadSorts = []string{"unknown:asc", "id:sideways", "id:", ":asc", ":", "metadata[x]:asc", "metadata:asc", "timestamp:desc", "timestamp:asc", "a:b:c", "id", "ID:ASC", "inserted_at:asc", "insertedAt:desc", "updatedAt:asc", "revertedAt:asc",
	"reference:asc", "reverted:asc", "account:asc", "address:asc", "address:desc", "balance:asc", "balance[USD]:asc", "first_usage:asc", "firstUsage:desc", "insertion_date:asc", "insertionDate:asc", "date:asc", "type:asc", "version:asc", "created_at:asc", "createdAt:asc",
	"bucket:asc", "name:asc", "features:asc", "id;drop table:asc", "\"id\":asc", "id :asc", strings.Repeat("x", 3000) + ":asc", "é:asc", "\x00:asc", "source:asc", "destination:asc", "asset:asc", "input:asc"}
var c38BadExpands = []string{"volumes", "effectiveVolumes", "junk", "volumes,volumes", "", ",", "volumes,", "VOLUMES", "effectiveVolumes,volumes", "volumes,junk", "\x00", "postCommitVolumes", "metadata"}
var c38BadGroupBys = []string{"-1", "0", "1", "2", "3", "100", "abc", "99999999999", "9223372036854775807", "9223372036854775808", "1.5", "1e2", " 1"}
var c38BadIDs = []string{"abc", "-1", "0", "18446744073709551615", "18446744073709551616", "9223372036854775807", "9223372036854775808", "1.5", "0x10", "1e3", " 1", "+1", "01", "１", "9999", "1%00", "null", strings.Repeat("9", 400)}
var c38BadLedgers = []string{"L 1", "_x", "-", strings.Repeat("l", 63), strings.Repeat("l", 64), strings.Repeat("l", 5000), "é", "l.1", "l%2F1", "_", "_info", "_system", "l\x00", "..", "*", "v2", "@@U@@new"}
var c38BadKeys = []string{"", " ", "a b", "é", "a/b", "a%2Fb", "..", ".", strings.Repeat("k", 5000), "k\x00", "k'", `k"`, "k]", "[k", "k[0]", "com.formance.spec/state/reverts", "$k", "k.k", "null", "\xff"}
var c38ContentTypes = []string{"text/plain", "application/xml", "multipart/form-data; boundary=x", "", "garbage", "application/json; charset=utf-16", "application/json;", ";", "application/x-www-form-urlencoded",
	"application/vnd.formance.ledger.api.v2.bulk+script-stream", "application/vnd.formance.ledger.api.v2.bulk+json-stream", "application/vnd.formance.ledger.api.v2.bulk+unknown", "APPLICATION/JSON", "application/json, text/plain", strings.Repeat("a", 3000) + "/json", "application/octet-stream"}
var c38IdemKeys = []string{"", " ", strings.Repeat("i", 5000), "\xff\xfe", "é", "ik with space", "ik\ttab", "null", "0", "ik-seed-a", "'; --", "\x7f", "a,b", `"q"`}

// c38UltraLight (set around the import-stream enumeration only): 4 replacements per node
var c38UltraLight bool

// type confusion replacements for a node (raw JSON); X = the node itself
func c38Confusions(x *c38N, light bool) []*c38N {
	if light && c38UltraLight {
		return []*c38N{c38Raw("null"), c38Raw("1.5"), c38Str("x"), c38Obj()}
	}
	if light {
		return []*c38N{c38Raw("null"), c38Raw("true"), c38Raw("0"), c38Raw("-1"), c38Raw("1.5"), c38Str("x"), c38Arr(), c38Obj()}
	}
	return []*c38N{
		c38Raw("null"), c38Raw("true"), c38Raw("0"), c38Raw("-1"), c38Raw("1.5"), c38Raw("1e400"), c38Raw("18446744073709551616"),
		c38Str("x"), c38Str(""), c38Arr(), c38Arr(x.clone()), c38Arr(nil), c38Obj(), c38Obj("k", x.clone()),
	}
}

// boundary strings applied to every string leaf of a body (the full pool is used by the random loop and for parameters)
func c38LeafStrings() []string {
	return []string{"", "it's", `"quoted"`, "héllo wörld ☃", "line\nbreak", strings.Repeat("k", 256), c38Long[:5000], "\xff\xfe\xfd", "\x00", "' OR 1=1 --", "${x}", "%s%d%!", "null", "0"}
}

// ---------------------------------------------------------------------------
// mutants

type c38Mut struct {
	Class string
	Desc  string
	Req   c38Req
}

func c38Trunc(s string, n int) string {
	if len(s) <= n {
		return s
	}
	return s[:n] + fmt.Sprintf("...(%d bytes)", len(s))
}

// c38TreeMutants: grammar-aware mutants of a JSON document. `emit` receives the
// class, a description and the mutated document bytes.
// level 0: everything; level 1 (light): type confusion (8 values) and missing fields only.
func c38TreeMutants(root *c38N, maxDepth, level int, emit func(class, desc string, body []byte)) {
	light := level > 0
	orig := root.String()
	sites := c38Sites(root, maxDepth)
	for _, s := range sites {
		_, _, node := c38At(root, s)
		at := s.Path
		if at == "" {
			at = "$"
		}
		// type confusion
		for _, rep := range c38Confusions(node, light) {
			if rep.String() == node.String() {
				continue
			}
			emit("type_confusion", fmt.Sprintf("%s: %s -> %s", at, node.kindName(), c38Trunc(rep.String(), 60)), c38Replace(root, s, rep).Bytes())
		}
		if len(s.parent) > 0 {
			parent, idx, _ := c38At(root, c38Site{parent: s.parent[:len(s.parent)-1]})
			if parent == nil {
				parent = root
			}
			_ = idx
			// missing
			emit("missing_field", "remove "+at, c38Delete(root, s).Bytes())
			if light {
				continue
			}
			// duplicated (objects: same key twice with a different value; arrays: element twice)
			c := root.clone()
			p, i, n := c38At(c, s)
			if p != nil {
				if p.K == 'o' {
					p.Keys = append(p.Keys, p.Keys[i])
					p.Kids = append(p.Kids, c38Raw("null"))
					emit("duplicated_field", "duplicate key "+at+" (second = null)", c.Bytes())
					// case-variant key (encoding/json matches case-insensitively)
					c3 := root.clone()
					p3, i3, _ := c38At(c3, s)
					p3.Keys = append(p3.Keys, strings.ToUpper(p3.Keys[i3]))
					p3.Kids = append(p3.Kids, c38Obj("x", 1))
					emit("duplicated_field", "case-variant duplicate of "+at+" (= object)", c3.Bytes())
				} else {
					p.Kids = append(p.Kids, n.clone())
					emit("duplicated_field", "duplicate element "+at, c.Bytes())
				}
			}
		}
		if light {
			continue
		}
		// unknown fields in objects
		if node.K == 'o' {
			for _, uk := range []struct {
				k string
				v *c38N
			}{{"unknownField", c38Obj("x", 1)}, {"", c38Raw("1")}} {
				c := root.clone()
				_, _, n := c38At(c, s)
				n.Keys = append(n.Keys, uk.k)
				n.Kids = append(n.Kids, uk.v)
				emit("unknown_field", fmt.Sprintf("add %q to %s", c38Trunc(uk.k, 20), at), c.Bytes())
			}
			// object key renamed to boundary strings
			for i := range node.Keys {
				if s.Depth > 1 {
					break
				}
				for _, nk := range []string{"", node.Keys[i] + "\x00"} {
					c := root.clone()
					_, _, n := c38At(c, s)
					n.Keys[i] = nk
					var sb strings.Builder
					// keys go through json.Marshal (invalid UTF-8 is replaced): write raw for \xff
					_ = sb
					emit("boundary_string", fmt.Sprintf("rename key %s.%s -> %q", at, node.Keys[i], c38Trunc(nk, 20)), c.Bytes())
				}
			}
		}
		// arrays: empty, many elements
		if node.K == 'a' && len(node.Kids) > 0 {
			big := &c38N{K: 'a'}
			for i := 0; i < 150; i++ {
				big.Kids = append(big.Kids, node.Kids[i%len(node.Kids)].clone())
			}
			emit("boundary_size", fmt.Sprintf("%s: 150 elements", at), c38Replace(root, s, big).Bytes())
		}
		// strings: boundary strings and domain-specific bad values
		if node.isString() {
			for _, bs := range c38LeafStrings() {
				emit("boundary_string", fmt.Sprintf("%s = %q", at, c38Trunc(bs, 24)), c38Replace(root, s, c38RawStr(bs)).Bytes())
			}
		}
		key := strings.ToLower(s.Key)
		switch {
		case key == "source" || key == "destination" || key == "address" || key == "targetid" && node.isString():
			for _, a := range c38BadAddresses {
				emit("bad_address", fmt.Sprintf("%s = %q", at, c38Trunc(a, 24))+c38MustReject(at, key, a), c38Replace(root, s, c38RawStr(a)).Bytes())
			}
		case key == "asset":
			for _, a := range c38BadAssets {
				emit("bad_asset", fmt.Sprintf("%s = %q", at, c38Trunc(a, 24))+c38MustReject(at, key, a), c38Replace(root, s, c38RawStr(a)).Bytes())
			}
		case key == "amount" || key == "input" || key == "output" || key == "balance":
			for _, a := range c38BadAmounts {
				emit("bad_amount", fmt.Sprintf("%s = %s", at, c38Trunc(a, 24))+c38MustReject(at, key, a), c38Replace(root, s, c38Raw(a)).Bytes())
			}
		case key == "timestamp" || key == "date" || key == "pit" || key == "oot" || key == "endtime" || key == "starttime" || key == "insertedat" || key == "updatedat" || key == "revertedat" || key == "createdat":
			for _, d := range c38BadDates {
				emit("bad_date", fmt.Sprintf("%s = %q", at, c38Trunc(d, 30)), c38Replace(root, s, c38RawStr(d)).Bytes())
			}
		case key == "id" || key == "targetid" || key == "logid" || key == "pagesize" || key == "groupby":
			for _, d := range c38BadAmounts {
				emit("bad_number", fmt.Sprintf("%s = %s", at, c38Trunc(d, 24)), c38Replace(root, s, c38Raw(d)).Bytes())
			}
		case key == "plain" || key == "script" && node.isString():
			for _, sc := range c38BadScripts {
				emit("bad_script", fmt.Sprintf("%s = %q", at, c38Trunc(sc, 30)), c38Replace(root, s, c38RawStr(sc)).Bytes())
			}
		case key == "cursor" && node.isString():
			// handled by the caller (needs the cursor pool)
		}
		// script variables: the `vars` object gets every wrong JSON type per variable
		if key == "vars" && node.K == 'o' {
			for i, vk := range node.Keys {
				for _, v := range c38VarValues {
					c := root.clone()
					_, _, n := c38At(c, s)
					n.Kids[i] = c38Raw(v)
					emit("script_vars", fmt.Sprintf("%s.%s = %s", at, vk, c38Trunc(v, 40)), c.Bytes())
				}
			}
			for _, whole := range []string{`null`, `[]`, `"x"`, `1`, `{"":""}`, `{"undeclared":"x"}`, `{}`} {
				emit("script_vars", fmt.Sprintf("%s = %s", at, whole), c38Replace(root, s, c38Raw(whole)).Bytes())
			}
		}
	}
	_ = orig
}

// Independent validity rules of a posting, from the documented formats
// (address: segments of [a-zA-Z0-9_-]+ joined by ':'; asset: [A-Z][A-Z0-9]{0,16}(_[A-Z]{1,16})?(/\d{1,6})?;
// amount: a non-negative integer). c38MustReject returns a marker for values that are certainly invalid:
// a create-transaction request carrying one in `postings[i]` must not be answered 2xx.
var (
	c38ReAddress  = regexp.MustCompile(`^[a-zA-Z0-9_-]+(:[a-zA-Z0-9_-]+)*$`)
	c38ReAsset    = regexp.MustCompile(`^[A-Z][A-Z0-9]{0,16}(_[A-Z]{1,16})?(/[0-9]{1,6})?$`)
	c38ReNegative = regexp.MustCompile(`^-[0-9]*[1-9][0-9]*$`)
)

const c38MustRejectMark = " [must-reject: "

func c38MustReject(path, key, value string) string {
	if !strings.HasPrefix(path, "postings[") || strings.Count(path, ".") != 1 {
		return ""
	}
	switch key {
	case "source", "destination":
		if utf8.ValidString(value) && !c38ReAddress.MatchString(value) {
			return c38MustRejectMark + "invalid " + key + " address]"
		}
	case "asset":
		if utf8.ValidString(value) && !c38ReAsset.MatchString(value) {
			return c38MustRejectMark + "invalid asset]"
		}
	case "amount":
		if c38ReNegative.MatchString(value) {
			return c38MustRejectMark + "negative amount]"
		}
	}
	return ""
}

var c38BadScripts = []string{"", " ", "send", "not a script at all é <>", "send [USD 1] (", "vars {", "send [USD 1] (\n source = @world\n destination = @bank\n)\nsend", "\x00", "send [USD -1] (\n source = @world\n destination = @bank\n)",
	"send [USD 1] (\n source = @bank allowing overdraft up to [EUR 1]\n destination = @world\n)", "send [USD *] (\n source = @world\n destination = @bank\n)", "send [usd 1] (\n source = @world\n destination = @bank\n)",
	"send [USD 99999999999999999999999999999999999999999999999999] (\n source = @nofunds\n destination = @bank\n)", "vars {\n monetary $m\n}\nsend $m (\n source = @world\n destination = @bank\n)",
	"vars {\n account $a = meta(@nope, \"k\")\n}\nsend [USD 1] (\n source = @world\n destination = $a\n)", "vars {\n monetary $b = balance(@world, USD)\n}\nsend $b (\n source = @world\n destination = @bank\n)",
	"set_tx_meta(\"k1\", \"clash\")\nsend [USD 1] (\n source = @world\n destination = @bank\n)", "send [USD 1] (\n source = @world\n destination = {\n 1/0 to @a\n remaining to @b\n }\n)",
	strings.Repeat("send [USD 1] (\n source = @world\n destination = @bank\n)\n", 300), strings.Repeat("/*", 40) + strings.Repeat("*/", 40), "//only a comment", "fail", "print 1"}

// every JSON shape for a script variable (v1 accepts arbitrary JSON; v2 map[string]any)
var c38VarValues = []string{`null`, `true`, `false`, `0`, `1`, `-1`, `1.5`, `1e400`, `18446744073709551616`, `""`, `"x"`, `"USD 1"`, `"USD -1"`, `"USD 1.5"`, `"usd 1"`, `"USD"`, `"USD 1 1"`, `"world"`, `"a b"`, `"@world"`,
	`[]`, `[1]`, `["USD",1]`, `[{"asset":"USD","amount":1}]`, `{}`, `{"asset":"USD"}`, `{"amount":1}`, `{"asset":"USD","amount":null}`, `{"asset":null,"amount":1}`, `{"asset":1,"amount":"1"}`,
	`{"asset":"USD","amount":"1"}`, `{"asset":"USD","amount":-1}`, `{"asset":"USD","amount":1.5}`, `{"asset":"USD","amount":1e400}`, `{"asset":"USD","amount":1e30}`, `{"asset":"USD","amount":9007199254740993}`,
	`{"asset":"USD","amount":{"x":1}}`, `{"asset":"USD","amount":[1]}`, `{"asset":["USD"],"amount":1}`, `{"asset":"usd","amount":1}`, `{"asset":"","amount":1}`, `{"asset":"USD","amount":true}`,
	`{"asset":"USD","amount":1,"extra":1}`, `{"a":{"b":{"c":1}}}`, `{"asset":{"asset":"USD","amount":1},"amount":{"asset":"USD","amount":1}}`, `"` + strings.Repeat("x", 3000) + `"`}

// c38RawBodyMutants: content-agnostic body mutants.
func c38RawBodyMutants(body []byte, emit func(class, desc string, body []byte)) {
	emit("empty_body", "zero-length body", []byte{})
	emit("empty_body", "no body at all", nil)
	for _, lit := range []string{"null", "[]", "{}", `"str"`, "123", "true", " ", "\n", "\x00", "\xef\xbb\xbf{}", "{", "[", `{"a"`, `{"a":`, "}", "]", `{"a":1,}`, `{'a':1}`, "{a:1}", `[{}]`, `[null]`, `[[]]`, `{"":{}}`, "nul", "tru", "-", "1e", `"\ud800"`, `"\x"`, "<xml/>", "a=b&c=d"} {
		emit("junk_body", "body = "+fmt.Sprintf("%q", lit), []byte(lit))
	}
	if len(body) > 1 {
		cuts := map[int]bool{1: true, len(body) - 1: true, len(body) / 4: true, len(body) / 2: true, 3 * len(body) / 4: true}
		for i := 1; i < len(body); i++ { // also cut right after the first occurrences of structural characters
			if len(cuts) > 14 {
				break
			}
			if strings.ContainsRune(`":,[{`, rune(body[i-1])) && i%3 == 0 {
				cuts[i] = true
			}
		}
		var cs []int
		for c := range cuts {
			if c > 0 && c < len(body) {
				cs = append(cs, c)
			}
		}
		sort.Ints(cs)
		for _, c := range cs {
			emit("truncated_body", fmt.Sprintf("cut at byte %d of %d", c, len(body)), append([]byte(nil), body[:c]...))
		}
		emit("trailing_garbage", "valid body + `}`", append(append([]byte(nil), body...), '}'))
		emit("trailing_garbage", "valid body + second copy", append(append([]byte(nil), body...), body...))
		emit("trailing_garbage", "valid body + NUL", append(append([]byte(nil), body...), 0))
		emit("invalid_utf8_body", "0xff inserted in the middle", append(append(append([]byte(nil), body[:len(body)/2]...), 0xff, 0xfe), body[len(body)/2:]...))
		emit("invalid_utf8_body", "UTF-16LE encoded", c38UTF16(body))
	}
	emit("deep_nesting", "[ x 20000", []byte(strings.Repeat("[", 20000)))
	emit("deep_nesting", "[ x 9000 closed", []byte(strings.Repeat("[", 9000)+strings.Repeat("]", 9000)))
	emit("deep_nesting", `{"a": x 9000 closed`, []byte(strings.Repeat(`{"a":`, 9000)+"1"+strings.Repeat("}", 9000)))
	emit("huge_body", "2 MiB of spaces then {}", append(bytes.Repeat([]byte(" "), 2<<20), '{', '}'))
	emit("huge_body", "1 MiB string", []byte(`{"a":"`+strings.Repeat("x", 1<<20)+`"}`))
}

func c38UTF16(b []byte) []byte {
	out := []byte{0xff, 0xfe}
	for _, c := range b {
		out = append(out, c, 0)
	}
	return out
}

// ---------------------------------------------------------------------------
// filters

var c38FieldsByResource = map[string][]string{
	"transactions": {"reverted", "account", "source", "destination", "timestamp", "metadata", "metadata[k1]", "id", "reference", "inserted_at", "updated_at", "reverted_at", "insertedAt", "postings", "address", "balance[USD]"},
	"accounts":     {"address", "first_usage", "balance", "balance[USD]", "balance[EUR/2]", "metadata", "metadata[color]", "insertion_date", "updated_at", "volumes", "id", "account"},
	"logs":         {"date", "id", "type", "metadata", "address"},
	"volumes":      {"address", "account", "balance", "balance[USD]", "first_usage", "metadata", "metadata[color]", "id", "asset"},
	"aggregated":   {"address", "metadata", "metadata[color]", "balance", "account", "asset"},
	"ledgers":      {"bucket", "features", "features[HASH_LOGS]", "metadata", "metadata[a]", "name", "id", "address"},
	"schemas":      {"version", "created_at", "id"},
}

var c38JunkFields = []string{"", "unknown", "metadata[]", "balance[]", "metadata[k1", "ID", "metadata.k1", "a\x00b"}

// every field of every resource (random loop)
var c38FilterFields = func() []string {
	seen := map[string]bool{}
	var out []string
	for _, r := range []string{"transactions", "accounts", "logs", "volumes", "aggregated", "ledgers", "schemas"} {
		for _, f := range c38FieldsByResource[r] {
			if !seen[f] {
				seen[f] = true
				out = append(out, f)
			}
		}
	}
	return append(out, c38JunkFields...)
}()

var c38FilterOps = []string{"$match", "$lt", "$lte", "$gt", "$gte", "$like", "$in", "$exists", "$nin", "$eq", "$regex", "match"}

// raw JSON values used as filter operands
var c38FilterValues = []string{`"x"`, `""`, `"users:"`, `"users:001"`, `"users::"`, `"users:..."`, `":"`, `"..."`, `"%"`, `"_%\\"`, `1`, `0`, `-1`, `1.5`, `1e400`, `18446744073709551616`, `340282366920938463463374607431768211456`, `true`, `false`, `null`,
	`[]`, `["x"]`, `[1]`, `[1,"x",null]`, `[[1]]`, `[{}]`, `{}`, `{"a":1}`, `"2030-01-01T00:00:00Z"`, `"2030-01-01"`, `"notadate"`, `"NEW_TRANSACTION"`, `"1"`, `"true"`, `"` + strings.Repeat("x", 5000) + `"`, `"\u0000"`, `"a\"b'c"`}

func c38PlausibleValue(field, op string) string {
	switch op {
	case "$in", "$nin":
		return `["x",1]`
	case "$exists":
		return `true`
	case "$like":
		return `"%x%"`
	}
	switch {
	case strings.HasPrefix(field, "balance"), field == "id":
		return `1`
	case strings.Contains(field, "_at") || strings.Contains(field, "date") || field == "timestamp" || field == "first_usage":
		return `"2030-01-01T00:00:00Z"`
	case field == "reverted":
		return `true`
	}
	return `"x"`
}

func c38KV1(op, field, rawValue string) string {
	fb, _ := json.Marshal(field)
	ob, _ := json.Marshal(op)
	return fmt.Sprintf(`{%s:{%s:%s}}`, ob, fb, rawValue)
}

// c38FilterMutants enumerates invalid / unusual filters. valid is a valid filter of the route.
// level 0: operators x fields, operand types x fields, structure; 1: operators x fields, structure; 2: structure only.
func c38FilterMutants(resource, valid string, level int, emit func(class, desc, filter string)) {
	fields := append(append([]string(nil), c38FieldsByResource[resource]...), c38JunkFields...)
	if level >= 2 {
		fields = nil
	}
	for _, f := range fields {
		for _, op := range c38FilterOps {
			emit("filter_operator", fmt.Sprintf("%s on %q", op, f), c38KV1(op, f, c38PlausibleValue(f, op)))
		}
		if level >= 1 {
			continue
		}
		for _, v := range []string{`"x"`, `""`, `"users::"`, `"..."`, `1`, `-1`, `1.5`, `1e400`, `18446744073709551616`, `true`, `null`, `[]`, `{}`, `"notadate"`, `"a\"b'c"`} {
			emit("filter_value_type", fmt.Sprintf("$match %q = %s", f, c38Trunc(v, 30)), c38KV1("$match", f, v))
		}
		for _, v := range []string{`"x"`, `1.5`, `true`, `null`, `[1]`, `"notadate"`} {
			emit("filter_value_type", fmt.Sprintf("$lt %q = %s", f, v), c38KV1("$lt", f, v))
		}
		for _, v := range []string{`"x"`, `null`, `{}`, `[]`, `[[]]`, `[null]`, `[1.5]`, `["x","y"]`} {
			emit("filter_value_type", fmt.Sprintf("$in %q = %s", f, v), c38KV1("$in", f, v))
		}
		for _, v := range []string{`1`, `null`, `"%"`, `"\\\\"`} {
			emit("filter_value_type", fmt.Sprintf("$like %q = %s", f, v), c38KV1("$like", f, v))
		}
		for _, v := range []string{`"yes"`, `1`, `null`} {
			emit("filter_value_type", fmt.Sprintf("$exists %q = %s", f, v), c38KV1("$exists", f, v))
		}
	}
	structural := []string{
		`{"$and":[]}`, `{"$or":[]}`, `{"$and":null}`, `{"$and":{}}`, `{"$and":"x"}`, `{"$and":[1]}`, `{"$and":[null]}`, `{"$and":[[]]}`, `{"$and":[{}]}`, `{"$or":[{},{}]}`,
		`{"$not":1}`, `{"$not":[]}`, `{"$not":{}}`, `{"$not":null}`, `{"$not":"x"}`, `{"$not":{"$not":{"$not":` + valid + `}}}`, `{"$not":{"$and":[]}}`, `{"$not":{"$junk":1}}`,
		`{}`, `[]`, `null`, `1`, `"x"`, `true`, `{"$match":{}}`, `{"$match":[]}`, `{"$match":null}`, `{"$match":"x"}`, `{"$match":1}`, `{"$match":{"a":1,"b":2}}`, `{"$match":{"address":"a"},"$lt":{"id":1}}`,
		`{"$foo":{"a":1}}`, `{"":{"a":1}}`, `{"$":{"a":1}}`, `{"match":{"a":1}}`, `{"$MATCH":{"address":"x"}}`, `{"$match":{"":""}}`, `{"$and":[` + valid + `,` + valid + `],"$or":[]}`,
		`{"$or":[` + valid + `,{"$and":[` + valid + `,{"$not":` + valid + `}]}]}`,
		`{"$match":{"address":"x"},"$match":{"address":"y"}}`,
		strings.Repeat(`{"$not":`, 200) + valid + strings.Repeat(`}`, 200),
		strings.Repeat(`{"$and":[`, 200) + valid + strings.Repeat(`]}`, 200),
		// deeper nests are measured by c38NestingProbe: the cost is quadratic in the depth (9000 levels = 80 kB take 5-8 s of CPU)
		strings.Repeat(`{"$not":`, 1200) + valid + strings.Repeat(`}`, 1200),
		`{"$and":[` + strings.TrimSuffix(strings.Repeat(valid+",", 400), ",") + `]}`,
		`{"$in":{"address":[` + strings.TrimSuffix(strings.Repeat(`"a",`, 2000), ",") + `]}}`,
	}
	for _, s := range structural {
		emit("filter_structure", c38Trunc(s, 70), s)
	}
}

// c38RandFilter draws a random filter tree.
func c38RandFilter(rng *rand.Rand, depth int) string {
	if depth > 0 && rng.Intn(3) == 0 {
		switch rng.Intn(3) {
		case 0:
			return `{"$not":` + c38RandFilter(rng, depth-1) + `}`
		default:
			n := rng.Intn(4)
			var parts []string
			for i := 0; i < n; i++ {
				parts = append(parts, c38RandFilter(rng, depth-1))
			}
			return `{"` + []string{"$and", "$or"}[rng.Intn(2)] + `":[` + strings.Join(parts, ",") + `]}`
		}
	}
	f := c38FilterFields[rng.Intn(len(c38FilterFields))]
	if rng.Intn(4) == 0 {
		bs := c38BoundaryStrings()
		f = []string{"metadata[", "balance["}[rng.Intn(2)] + c38Trunc(bs[rng.Intn(len(bs))], 30) + "]"
	}
	return c38KV1(c38FilterOps[rng.Intn(len(c38FilterOps))], f, c38FilterValues[rng.Intn(len(c38FilterValues))])
}

func c38min(a, b int) int {
	if a < b {
		return a
	}
	return b
}

// ---------------------------------------------------------------------------
// cursors

func c38EncodeCursor(s string) string { return base64.RawURLEncoding.EncodeToString([]byte(s)) }

// c38CursorMutants: invalid cursors and tampered versions of a valid one.
// others: valid cursors of other resources (name -> cursor).
func c38CursorMutants(valid string, others map[string]string, emit func(class, desc, cursor string)) {
	for _, c := range []string{"x", "!!!!", "====", "e30", "e30=", c38EncodeCursor("null"), c38EncodeCursor("[]"), c38EncodeCursor(`"str"`), c38EncodeCursor("1"), c38EncodeCursor("{"), c38EncodeCursor(""), c38EncodeCursor(" "),
		c38EncodeCursor(`{}`), c38EncodeCursor(`{"offset":0}`), c38EncodeCursor(`{"offset":null}`), c38EncodeCursor(`{"offset":-1}`), c38EncodeCursor(`{"offset":"1"}`), c38EncodeCursor(`{"offset":1.5}`), c38EncodeCursor(`{"offset":18446744073709551616}`),
		c38EncodeCursor(`{"bottom":1}`), c38EncodeCursor(`{"paginationID":1}`), c38EncodeCursor(`{"column":"id"}`), c38EncodeCursor(`{"column":"id","bottom":1,"paginationID":1}`), c38EncodeCursor(`{"column":"id","order":1,"pageSize":1}`),
		c38EncodeCursor(`{"offset":1,"column":"id","order":1,"pageSize":1,"filters":null}`), c38EncodeCursor(`{"offset":1,"filters":{"qb":1}}`), c38EncodeCursor(`{"offset":1,"pageSize":1,"column":"address","order":0,"filters":{"qb":{}}}`),
		base64.StdEncoding.EncodeToString([]byte(`{"offset":0}`)), c38EncodeCursor(strings.Repeat("[", 20000)), c38Long[:8000], "%00", "\xff", c38EncodeCursor("\xff\xfe")} {
		emit("cursor_invalid", "cursor = "+c38Trunc(c, 40), c)
	}
	if valid == "" {
		return
	}
	emit("cursor_tamper", "truncate last char", valid[:len(valid)-1])
	emit("cursor_tamper", "truncate half", valid[:len(valid)/2])
	flip := []byte(valid)
	flip[len(flip)/2] ^= 1
	emit("cursor_tamper", "flip a char in the middle", string(flip))
	flip2 := []byte(valid)
	flip2[1] = 'A'
	emit("cursor_tamper", "change 2nd char", string(flip2))
	emit("cursor_tamper", "append junk", valid+"AAAA")
	emit("cursor_tamper", "std base64 padding", valid+"==")
	names := make([]string, 0, len(others))
	for k := range others {
		names = append(names, k)
	}
	sort.Strings(names)
	for _, k := range names {
		if others[k] != "" && others[k] != valid {
			emit("cursor_wrong_resource", "cursor of "+k, others[k])
		}
	}
	raw, err := base64.RawURLEncoding.DecodeString(valid)
	if err != nil {
		return
	}
	root, ok := c38Parse(raw)
	if !ok {
		return
	}
	// generic tree mutants of the decoded cursor (type confusion, missing, dup, ...)
	c38TreeMutants(root, 4, 1, func(class, desc string, body []byte) {
		emit("cursor_tamper", class+" "+desc, c38EncodeCursor(string(body)))
	})
	// targeted value edits
	edits := []struct{ path, raw string }{
		{"pageSize", "0"}, {"pageSize", "1"}, {"pageSize", "-1"}, {"pageSize", "1000000000"}, {"pageSize", "18446744073709551615"}, {"pageSize", "18446744073709551616"}, {"pageSize", `"10"`}, {"pageSize", "1.5"}, {"pageSize", "9223372036854775807"},
		{"offset", "0"}, {"offset", "-1"}, {"offset", "1000000000"}, {"offset", "18446744073709551615"}, {"offset", "18446744073709551616"}, {"offset", `"1"`}, {"offset", "9223372036854775807"}, {"offset", "9223372036854775808"},
		{"column", `""`}, {"column", `"nonexistent"`}, {"column", `"metadata"`}, {"column", `"timestamp"`}, {"column", `"id"`}, {"column", `"address"`}, {"column", `"reference"`}, {"column", `"reverted"`}, {"column", `"balance"`}, {"column", `"inserted_at"`}, {"column", `"date"`}, {"column", `"type"`}, {"column", `"account"`}, {"column", `"first_usage"`}, {"column", `"id; drop"`}, {"column", `"\"id\""`}, {"column", `"version"`}, {"column", `"created_at"`},
		{"order", "null"}, {"order", "0"}, {"order", "1"}, {"order", "2"}, {"order", "-1"}, {"order", `"asc"`}, {"order", "1.5"}, {"order", "256"}, {"order", "9223372036854775807"},
		{"bottom", "null"}, {"bottom", `"6"`}, {"bottom", "-1"}, {"bottom", "0"}, {"bottom", "1.5"}, {"bottom", "1e400"}, {"bottom", "340282366920938463463374607431768211456"}, {"bottom", `"2030-01-01T00:00:00Z"`}, {"bottom", "true"},
		{"paginationID", "null"}, {"paginationID", `"5"`}, {"paginationID", "-1"}, {"paginationID", "0"}, {"paginationID", "1.5"}, {"paginationID", "1e400"}, {"paginationID", "340282366920938463463374607431768211456"}, {"paginationID", `"2030-01-01T00:00:00Z"`}, {"paginationID", "true"},
		{"reverse", "true"}, {"reverse", "false"}, {"reverse", `"yes"`}, {"reverse", "1"}, {"reverse", "null"},
		{"filters", "null"}, {"filters", "{}"}, {"filters", "[]"}, {"filters", `"x"`},
		{"filters.qb", `{"$match":{"unknown":"x"}}`}, {"filters.qb", `{"$in":{"type":["x"]}}`}, {"filters.qb", `{"$junk":1}`}, {"filters.qb", `1`}, {"filters.qb", `[]`}, {"filters.qb", `""`}, {"filters.qb", `{"$match":{"address":1}}`}, {"filters.qb", `{"$match":{"id":"x"}}`}, {"filters.qb", `{"$lt":{"metadata[k]":1}}`}, {"filters.qb", `{"$and":[]}`},
		{"filters.pit", `"notadate"`}, {"filters.pit", `1`}, {"filters.pit", `"0001-01-01T00:00:00Z"`}, {"filters.pit", `"2030-01-01T00:00:00Z"`}, {"filters.pit", `"9999-12-31T23:59:59Z"`},
		{"filters.oot", `"notadate"`}, {"filters.oot", `"2030-01-01T00:00:00Z"`}, {"filters.oot", `"9999-12-31T23:59:59Z"`},
		{"filters.expand", `["junk"]`}, {"filters.expand", `"volumes"`}, {"filters.expand", `["volumes","effectiveVolumes"]`}, {"filters.expand", `[1]`}, {"filters.expand", `[null]`},
		{"filters.opts", `{"groupBy":-1}`}, {"filters.opts", `{"groupBy":"x"}`}, {"filters.opts", `{"groupBy":100}`}, {"filters.opts", `{"insertionDate":"x"}`}, {"filters.opts", `{"insertionDate":true}`}, {"filters.opts", `1`}, {"filters.opts", `"x"`}, {"filters.opts", `[]`}, {"filters.opts", `{"groupBy":3,"insertionDate":true}`},
	}
	for _, e := range edits {
		c := root.clone()
		parts := strings.Split(e.path, ".")
		n := c
		okp := true
		for _, p := range parts[:len(parts)-1] {
			nx := n.get(p)
			if nx == nil || nx.K != 'o' {
				nx = c38Obj()
				n.set(p, nx)
			}
			n = nx
		}
		if !okp || n.K != 'o' {
			continue
		}
		n.set(parts[len(parts)-1], c38Raw(e.raw))
		emit("cursor_tamper", fmt.Sprintf("set %s = %s", e.path, c38Trunc(e.raw, 40)), c38EncodeCursor(c.String()))
	}
	// offset cursor turned into a column cursor and vice versa
	c := root.clone()
	if c.get("offset") != nil {
		c = c38Delete(c, c38Site{parent: []int{c38indexOf(c, "offset")}})
		c.set("bottom", c38Raw("3"))
		c.set("paginationID", c38Raw("2"))
		c.set("reverse", c38Raw("false"))
		emit("cursor_tamper", "offset cursor rewritten as column cursor", c38EncodeCursor(c.String()))
	} else {
		c.set("offset", c38Raw("1"))
		emit("cursor_tamper", "column cursor with an added offset", c38EncodeCursor(c.String()))
	}
}

func c38indexOf(n *c38N, key string) int {
	for i, k := range n.Keys {
		if k == key {
			return i
		}
	}
	return -1
}
