package checks

import (
	"context"
	"errors"
	"fmt"
	"math/big"
	"math/rand"
	"regexp"
	"strings"

	"github.com/formancehq/ledger/internal/machine"
	"github.com/formancehq/ledger/internal/machine/script/compiler"
	"github.com/formancehq/ledger/internal/machine/vm"
	"github.com/formancehq/ledger/verifharness/core"
)

// C24 — Allotments split amounts exactly.
//
// Code under test (all real): machine.NewPortionSpecific / ParsePortionSpecific /
// NewAllotment / Allotment.Allocate, and the same through compiled scripts
// (compiler.Compile -> vm.Machine -> postings), so that
// script/compiler/allotment.go:VisitAllotment and OP_MAKE_ALLOTMENT / OP_ALLOC
// take part.
//
// Oracle (math/big only, written from the statement):
//   (1) sum(parts) == amount
//   (2) floor(amount*p_i) <= part_i <= floor(amount*p_i)+1
//   (3) "the leftover units go to the earliest parts": no part j received a
//       leftover unit (part_j == floor_j+1) while an earlier part i<j received
//       none (part_i == floor_i).  Nothing stricter: a zero portion in an early
//       position may receive a unit (counted, not flagged).

func init() {
	core.Register(&core.Check{
		ID: "C24", Level: "exploration",
		Rule: "one case = one portion vector summing to exactly 100% (length 1-12; generated as integer weights over a common denominator, " +
			"as a chain of random fractions of what is left, as decimal percentages, or mixed; zero portions; optionally one `remaining` at any index) " +
			"x one non-negative amount from the pool {0,1,small,n±1,denominator±1,2^53±1,2^63±1,2^64±1,10^30,random<2^200}; evaluated through NewAllotment+Allocate " +
			"and through a compiled script (destination allotment from @world, or source allotment of unbounded-overdraft accounts; some portions passed as portion variables). " +
			"Shape = (generator, n, #zero portions, remaining index, amount class, leftover units, path). Non-trivial = n>=2 and the floors do not sum to the amount (leftover>=1).",
		Assumptions: []string{
			"math/big (Int, Rat) is trusted as the oracle arithmetic",
			"script path observes parts as the per-account sums of the postings returned by the machine (destination d<i> / source s<i>); a missing posting means 0",
			"vectors that do not sum to 100% are outside the statement: their acceptance/rejection by NewAllotment and the compiler is only counted",
			"100% vectors that the compiler rejects by design (`remaining` worth 0%, variables next to constants already worth 100%) are counted per class, not flagged",
		},
		Run: runC24,
	})
}

type c24Vector struct {
	gen     string
	rats    []*big.Rat // resolved value of every portion (remaining included)
	texts   []string   // numscript text of every specific portion
	remIdx  int        // index written as `remaining`, or -1
	denHint *big.Int   // a denominator of the vector (amount pool uses it)
}

var c24One = big.NewRat(1, 1)

func c24Pow(b, e int64) *big.Int { return new(big.Int).Exp(big.NewInt(b), big.NewInt(e), nil) }

func c24RandBig(rng *rand.Rand, bits int) *big.Int {
	if bits <= 0 {
		return new(big.Int)
	}
	return new(big.Int).Rand(rng, new(big.Int).Lsh(big.NewInt(1), uint(bits)))
}

func c24RandDen(rng *rand.Rand) *big.Int {
	switch rng.Intn(8) {
	case 0:
		return big.NewInt(int64(1 + rng.Intn(12)))
	case 1:
		return big.NewInt(int64([]int{3, 7, 11, 13, 97, 101, 997, 7919, 104729}[rng.Intn(9)]))
	case 2:
		return c24Pow(2, int64(1+rng.Intn(70)))
	case 3:
		return c24Pow(10, int64(1+rng.Intn(25)))
	case 4:
		return new(big.Int).Add(c24RandBig(rng, 64), big.NewInt(1))
	case 5:
		return new(big.Int).Add(c24RandBig(rng, 1+rng.Intn(130)), big.NewInt(1))
	default:
		return big.NewInt(int64(1 + rng.Intn(1000)))
	}
}

func c24FracText(rng *rand.Rand, num, den *big.Int) string {
	sep := "/"
	switch rng.Intn(8) {
	case 0:
		sep = " /"
	case 1:
		sep = "/ "
	case 2:
		sep = " / "
	}
	return num.String() + sep + den.String()
}

// c24Gen returns a vector whose portions sum to exactly 1.
func c24Gen(rng *rand.Rand) c24Vector {
	n := 1 + rng.Intn(12)
	if rng.Intn(6) == 0 {
		n = 1 + rng.Intn(3)
	}
	v := c24Vector{remIdx: -1, rats: make([]*big.Rat, n), texts: make([]string, n)}
	switch rng.Intn(4) {
	case 0: // integer weights over a common (unreduced, scaled) denominator
		v.gen = "weights"
		w := make([]*big.Int, n)
		sum := new(big.Int)
		for i := range w {
			switch rng.Intn(5) {
			case 0:
				w[i] = new(big.Int)
			case 1:
				w[i] = c24RandBig(rng, 1+rng.Intn(80))
			default:
				w[i] = big.NewInt(int64(rng.Intn(20)))
			}
			sum.Add(sum, w[i])
		}
		if sum.Sign() == 0 {
			w[rng.Intn(n)] = big.NewInt(1)
			sum.SetInt64(1)
		}
		scale := big.NewInt(1)
		if rng.Intn(3) == 0 {
			scale = new(big.Int).Add(c24RandBig(rng, 1+rng.Intn(40)), big.NewInt(1))
		}
		den := new(big.Int).Mul(sum, scale)
		for i := range w {
			num := new(big.Int).Mul(w[i], scale)
			v.rats[i] = new(big.Rat).SetFrac(num, den)
			v.texts[i] = c24FracText(rng, num, den)
		}
		v.denHint = den
	case 1: // chain: each portion is a random fraction of what is left, last takes the rest
		v.gen = "chain"
		left := new(big.Rat).Set(c24One)
		for i := 0; i < n; i++ {
			var p *big.Rat
			if i == n-1 {
				p = new(big.Rat).Set(left)
			} else if rng.Intn(6) == 0 {
				p = new(big.Rat)
			} else {
				den := c24RandDen(rng)
				num := new(big.Int).Rand(rng, new(big.Int).Add(den, big.NewInt(1)))
				p = new(big.Rat).Mul(left, new(big.Rat).SetFrac(num, den))
			}
			left.Sub(left, p)
			v.rats[i] = p
			v.texts[i] = c24FracText(rng, p.Num(), p.Denom())
			v.denHint = new(big.Int).Set(p.Denom())
		}
		// move the "rest" portion to a random index so that it is not always last
		j := rng.Intn(n)
		v.rats[j], v.rats[n-1] = v.rats[n-1], v.rats[j]
		v.texts[j], v.texts[n-1] = v.texts[n-1], v.texts[j]
	case 2: // decimal percentages with k decimals
		v.gen = "percent"
		k := rng.Intn(8)
		total := new(big.Int).Mul(big.NewInt(100), c24Pow(10, int64(k)))
		left := new(big.Int).Set(total)
		for i := 0; i < n; i++ {
			var u *big.Int
			if i == n-1 {
				u = new(big.Int).Set(left)
			} else if rng.Intn(6) == 0 {
				u = new(big.Int)
			} else {
				u = new(big.Int).Rand(rng, new(big.Int).Add(left, big.NewInt(1)))
				if rng.Intn(2) == 0 {
					u.Quo(u, big.NewInt(int64(1+rng.Intn(n))))
				}
			}
			left.Sub(left, u)
			v.rats[i] = new(big.Rat).SetFrac(u, total)
			v.texts[i] = c24PercentText(u, k)
		}
		j := rng.Intn(n)
		v.rats[j], v.rats[n-1] = v.rats[n-1], v.rats[j]
		v.texts[j], v.texts[n-1] = v.texts[n-1], v.texts[j]
		v.denHint = total
	default: // mixed: percentages and fractions, the rest as an exact fraction
		v.gen = "mixed"
		left := new(big.Rat).Set(c24One)
		for i := 0; i < n; i++ {
			var p *big.Rat
			var txt string
			if i == n-1 {
				p = new(big.Rat).Set(left)
				txt = c24FracText(rng, p.Num(), p.Denom())
			} else if rng.Intn(2) == 0 {
				// a percentage not exceeding what is left
				k := rng.Intn(4)
				unit := new(big.Rat).SetFrac(big.NewInt(1), new(big.Int).Mul(big.NewInt(100), c24Pow(10, int64(k))))
				maxUnits := new(big.Int).Quo(new(big.Rat).Quo(left, unit).Num(), new(big.Rat).Quo(left, unit).Denom())
				u := new(big.Int).Rand(rng, new(big.Int).Add(maxUnits, big.NewInt(1)))
				if rng.Intn(2) == 0 {
					u.Quo(u, big.NewInt(int64(2+rng.Intn(5))))
				}
				p = new(big.Rat).Mul(unit, new(big.Rat).SetInt(u))
				txt = c24PercentText(u, k)
			} else {
				den := c24RandDen(rng)
				num := new(big.Int).Rand(rng, new(big.Int).Add(den, big.NewInt(1)))
				p = new(big.Rat).Mul(left, new(big.Rat).SetFrac(num, den))
				txt = c24FracText(rng, p.Num(), p.Denom())
			}
			left.Sub(left, p)
			v.rats[i] = p
			v.texts[i] = txt
			v.denHint = new(big.Int).Set(p.Denom())
		}
	}
	// `remaining` at any index (mostly one worth > 0, sometimes one worth 0)
	if rng.Intn(5) < 2 {
		var cand []int
		wantZero := rng.Intn(6) == 0
		for i, p := range v.rats {
			if (p.Sign() == 0) == wantZero {
				cand = append(cand, i)
			}
		}
		if len(cand) > 0 {
			v.remIdx = cand[rng.Intn(len(cand))]
			v.texts[v.remIdx] = "remaining"
		}
	}
	return v
}

// c24PercentText renders u / 10^k percent with exactly k decimals.
func c24PercentText(u *big.Int, k int) string {
	s := u.String()
	if k == 0 {
		return s + "%"
	}
	for len(s) <= k {
		s = "0" + s
	}
	return s[:len(s)-k] + "." + s[len(s)-k:] + "%"
}

func c24Amount(rng *rand.Rand, v c24Vector) (*big.Int, string) {
	n := int64(len(v.rats))
	p := func(b, e, d int64) *big.Int { return new(big.Int).Add(c24Pow(b, e), big.NewInt(d)) }
	switch rng.Intn(16) {
	case 0:
		return []*big.Int{big.NewInt(0), big.NewInt(1)}[rng.Intn(2)], "0-1"
	case 1:
		return big.NewInt(n + int64(rng.Intn(3)) - 1), "n±1"
	case 2:
		return p(2, 53, int64(rng.Intn(3))-1), "2^53±1"
	case 3:
		return p(2, 63, int64(rng.Intn(3))-1), "2^63±1"
	case 4:
		return p(2, 64, int64(rng.Intn(3))-1), "2^64±1"
	case 5:
		return p(10, 30, int64(rng.Intn(3))-1), "10^30±1"
	case 6, 7:
		return c24RandBig(rng, 1+rng.Intn(200)), "rand<2^200"
	case 8:
		if v.denHint != nil {
			a := new(big.Int).Add(v.denHint, big.NewInt(int64(rng.Intn(3))-1))
			if a.Sign() >= 0 {
				return a, "den±1"
			}
		}
		return big.NewInt(int64(rng.Intn(1000))), "small"
	case 9:
		if v.denHint != nil {
			return new(big.Int).Add(new(big.Int).Mul(v.denHint, big.NewInt(int64(1+rng.Intn(5)))), big.NewInt(int64(rng.Intn(int(n)+1)))), "k*den+r"
		}
		return big.NewInt(int64(rng.Intn(1000))), "small"
	case 10:
		return c24RandBig(rng, 64), "rand<2^64"
	default:
		return big.NewInt(int64(rng.Intn(1000))), "small"
	}
}

// c24Oracle returns "" or the class of the violated clause; also the leftover
// (amount - sum of floors) and how many zero portions received a unit.
func c24Oracle(parts []*big.Int, rats []*big.Rat, amount *big.Int) (class string, leftover int64, zeroGotUnit int) {
	if len(parts) != len(rats) {
		return "length-mismatch", 0, 0
	}
	sum := new(big.Int)
	floors := make([]*big.Int, len(rats))
	sumFloors := new(big.Int)
	amt := new(big.Rat).SetInt(amount)
	for i, p := range rats {
		share := new(big.Rat).Mul(amt, p)
		floors[i] = new(big.Int).Quo(share.Num(), share.Denom()) // share >= 0: Quo == floor
		sumFloors.Add(sumFloors, floors[i])
	}
	leftover = new(big.Int).Sub(amount, sumFloors).Int64()
	for i, part := range parts {
		if part == nil {
			return "nil-part", leftover, 0
		}
		sum.Add(sum, part)
		d := new(big.Int).Sub(part, floors[i])
		if d.Sign() < 0 || d.Cmp(big.NewInt(1)) > 0 {
			return "part-outside-floor..floor+1", leftover, 0
		}
		if d.Sign() > 0 && rats[i].Sign() == 0 {
			zeroGotUnit++
		}
	}
	if sum.Cmp(amount) != 0 {
		return "parts-do-not-sum-to-amount", leftover, zeroGotUnit
	}
	seenNone := false // an earlier part that received no leftover unit
	for i, part := range parts {
		got := part.Cmp(floors[i]) > 0
		if got && seenNone {
			return "leftover-unit-given-to-later-part-while-earlier-got-none", leftover, zeroGotUnit
		}
		if !got {
			seenNone = true
		}
	}
	return "", leftover, zeroGotUnit
}

var c24Digits = regexp.MustCompile(`[0-9]+`)

func c24ErrClass(err error) string {
	if err == nil {
		return "ok"
	}
	msg := err.Error()
	var cel *compiler.CompileErrorList
	if errors.As(err, &cel) && len(cel.Errors) > 0 {
		msg = cel.Errors[0].Msg
	}
	msg = c24Digits.ReplaceAllString(msg, "N")
	if len(msg) > 90 {
		msg = msg[:90]
	}
	return msg
}

// c24Direct builds the allotment through the exported constructors.
func c24Direct(rng *rand.Rand, v c24Vector) (*machine.Allotment, error) {
	portions := make([]machine.Portion, len(v.rats))
	for i := range v.rats {
		switch {
		case i == v.remIdx:
			portions[i] = machine.NewPortionRemaining()
		case rng.Intn(2) == 0:
			p, err := machine.ParsePortionSpecific(v.texts[i])
			if err != nil {
				return nil, fmt.Errorf("ParsePortionSpecific(%q): %w", v.texts[i], err)
			}
			portions[i] = *p
		default:
			p, err := machine.NewPortionSpecific(*new(big.Rat).Set(v.rats[i]))
			if err != nil {
				return nil, fmt.Errorf("NewPortionSpecific(%s): %w", v.rats[i], err)
			}
			portions[i] = *p
		}
	}
	return machine.NewAllotment(portions)
}

// c24Script renders the vector as a script. kind: "dest" or "src". Some
// specific portions are passed as portion variables when a `remaining` exists.
func c24Script(rng *rand.Rand, v c24Vector, amount *big.Int, kind string, texts []string) (string, map[string]string) {
	vars := map[string]string{}
	lines := make([]string, len(texts))
	var decl []string
	for i, t := range texts {
		por := t
		if v.remIdx >= 0 && i != v.remIdx && rng.Intn(4) == 0 {
			name := fmt.Sprintf("p%c", 'a'+i)
			decl = append(decl, "  portion $"+name)
			vars[name] = strings.ReplaceAll(t, " ", "")
			if rng.Intn(2) == 0 {
				vars[name] = t // ParsePortionSpecific accepts one optional blank around '/'
			}
			por = "$" + name
		}
		if kind == "dest" {
			lines[i] = fmt.Sprintf("    %s to @d%d", por, i)
		} else {
			lines[i] = fmt.Sprintf("    %s from @s%d allowing unbounded overdraft", por, i)
		}
	}
	var sb strings.Builder
	if len(decl) > 0 {
		sb.WriteString("vars {\n" + strings.Join(decl, "\n") + "\n}\n")
	}
	fmt.Fprintf(&sb, "send [COIN %s] (\n", amount)
	if kind == "dest" {
		sb.WriteString("  source = @world\n  destination = {\n" + strings.Join(lines, "\n") + "\n  }\n)\n")
	} else {
		sb.WriteString("  source = {\n" + strings.Join(lines, "\n") + "\n  }\n  destination = @dest\n)\n")
	}
	return sb.String(), vars
}

// c24RunScript compiles and executes; returns the parts observed per index.
func c24RunScript(script string, vars map[string]string, kind string, n int) (parts []*big.Int, stage string, err error) {
	prog, err := compiler.Compile(script)
	if err != nil {
		return nil, "compile", err
	}
	m := vm.NewMachine(*prog)
	m.Printer = func(c chan machine.Value) {
		for range c {
		}
	}
	cp := map[string]string{}
	for k, v := range vars {
		cp[k] = v
	}
	if err := m.SetVarsFromJSON(cp); err != nil {
		return nil, "vars", err
	}
	if err := m.ResolveResources(context.Background(), vm.EmptyStore); err != nil {
		return nil, "resources", err
	}
	if err := m.ResolveBalances(context.Background(), vm.EmptyStore); err != nil {
		return nil, "balances", err
	}
	if err := m.Execute(); err != nil {
		return nil, "execute", err
	}
	parts = make([]*big.Int, n)
	for i := range parts {
		parts[i] = new(big.Int)
	}
	for _, p := range m.Postings {
		acc := p.Destination
		if kind == "src" {
			acc = p.Source
		}
		idx := -1
		if len(acc) >= 2 {
			if _, e := fmt.Sscanf(acc[1:], "%d", &idx); e != nil {
				idx = -1
			}
		}
		if idx < 0 || idx >= n {
			return nil, "postings", fmt.Errorf("unexpected posting account %q", acc)
		}
		if p.Asset != "COIN" {
			return nil, "postings", fmt.Errorf("unexpected posting asset %q", p.Asset)
		}
		parts[idx].Add(parts[idx], p.Amount.ToBigInt())
	}
	return parts, "ok", nil
}

func c24Strs(xs []*big.Int) []string {
	out := make([]string, len(xs))
	for i, x := range xs {
		if x == nil {
			out[i] = "<nil>"
		} else {
			out[i] = x.String()
		}
	}
	return out
}

func c24RatStrs(xs []*big.Rat) []string {
	out := make([]string, len(xs))
	for i, x := range xs {
		out[i] = x.RatString()
	}
	return out
}

func runC24(r *core.Run) {
	r.Floor("distinct_nontrivial", 200)
	r.Floor("direct_checked", 1000)
	r.Floor("script_checked", 1000)
	r.Floor("script_dest_checked", 300)
	r.Floor("script_src_checked", 300)
	r.Floor("leftover_ge1_cases", 500)
	r.Floor("cases_with_zero_portion", 100)
	r.Floor("cases_with_remaining", 100)

	r.ForEach("main", r.N(50_000, 1_000_000), 0, func(c *core.Case) {
		rng := c.Rng
		v := c24Gen(rng)
		amount, amtClass := c24Amount(rng, v)
		n := len(v.rats)

		// self-check of the generator (harness defect if it fails, never a violation)
		total := new(big.Rat)
		zeros := 0
		for _, p := range v.rats {
			total.Add(total, p)
			if p.Sign() == 0 {
				zeros++
			}
			if p.Sign() < 0 {
				panic("generator produced a negative portion")
			}
		}
		if total.Cmp(c24One) != 0 {
			panic("generator produced a vector not summing to 1")
		}
		r.Seen("generators", v.gen)
		r.Seen("amount_classes", amtClass)
		r.Seen("lengths", fmt.Sprint(n))
		if zeros > 0 {
			r.Count("cases_with_zero_portion", 1)
		}
		if v.remIdx >= 0 {
			r.Count("cases_with_remaining", 1)
			if v.remIdx != n-1 {
				r.Count("cases_with_remaining_not_last", 1)
			}
		}
		detail := func(extra map[string]any) map[string]any {
			d := map[string]any{"generator": v.gen, "portion_texts": v.texts, "portions": c24RatStrs(v.rats), "remaining_index": v.remIdx, "amount": amount.String()}
			for k, x := range extra {
				d[k] = x
			}
			return d
		}

		// ---- path 1: NewAllotment + Allocate
		var leftover int64
		allot, err := c24Direct(rng, v)
		if err != nil {
			// a 100% vector refused by the constructors: outside the statement (it
			// quantifies over allotments), but it would blind the monitor: counted
			// and surfaced through the floor on direct_checked.
			r.Count("direct_rejected_100pct_vector", 1)
			r.Seen("direct_reject_classes", c24ErrClass(err))
		} else {
			raw := allot.Allocate(machine.NewMonetaryIntFromBigInt(new(big.Int).Set(amount)))
			parts := make([]*big.Int, len(raw))
			for i, p := range raw {
				if p != nil {
					parts[i] = p.ToBigInt()
				}
			}
			class, lo, zgu := c24Oracle(parts, v.rats, amount)
			leftover = lo
			r.Count("direct_checked", 1)
			r.Count("zero_portion_received_a_leftover_unit", int64(zgu))
			if lo >= 1 {
				r.Count("leftover_ge1_cases", 1)
			}
			if class != "" {
				c.Violation("C24/Allocate:"+class, detail(map[string]any{"path": "NewAllotment+Allocate", "parts": c24Strs(parts), "allotment": allot.String()}))
			}
			if c.Index < 2 {
				r.Sample(detail(map[string]any{"path": "direct", "parts": c24Strs(parts), "leftover": lo}))
			}
		}

		// ---- path 2: compiled script
		kind := "dest"
		if rng.Intn(2) == 0 {
			kind = "src"
		}
		script, vars := c24Script(rng, v, amount, kind, v.texts)
		parts, stage, err := c24RunScript(script, vars, kind, n)
		r.Seen("script_stages", kind+":"+stage)
		if err != nil {
			r.Count("script_100pct_vector_not_executed", 1)
			r.Seen("script_reject_classes", stage+": "+c24ErrClass(err))
		} else {
			class, lo, _ := c24Oracle(parts, v.rats, amount)
			r.Count("script_checked", 1)
			r.Count("script_"+kind+"_checked", 1)
			if len(vars) > 0 {
				r.Count("script_checked_with_portion_variables", 1)
			}
			if class != "" {
				c.Violation("C24/script-"+kind+"-allotment:"+class, detail(map[string]any{"path": "compiled script", "script": script, "vars": vars, "parts": c24Strs(parts), "leftover": lo}))
			}
			if c.Index >= 2 && c.Index < 4 {
				r.Sample(detail(map[string]any{"path": "script", "script": script, "vars": vars, "parts": c24Strs(parts), "leftover": lo}))
			}
		}
		r.Eval(fmt.Sprintf("%s|n%d|z%d|r%d|%s|L%d|%s", v.gen, n, zeros, v.remIdx, amtClass, leftover, kind), n >= 2 && leftover >= 1)

		// ---- evidence only: vectors that do NOT sum to 100%
		if c.Index%4 == 0 {
			c24Non100(r, rng, v, amount)
		}
	})
}

// c24Non100 perturbs the vector so that it no longer sums to 100% and counts
// what NewAllotment and the compiler do with it (never a violation: the
// statement only speaks about allotments that do sum to 100%).
func c24Non100(r *core.Run, rng *rand.Rand, v c24Vector, amount *big.Int) {
	if v.remIdx >= 0 {
		return // with `remaining` every vector <= 100% sums to 100% by construction
	}
	n := len(v.rats)
	texts := append([]string{}, v.texts...)
	rats := make([]*big.Rat, n)
	for i := range rats {
		rats[i] = new(big.Rat).Set(v.rats[i])
	}
	i := rng.Intn(n)
	eps := new(big.Rat).SetFrac(big.NewInt(1), c24RandDen(rng))
	dir := "gt"
	if rng.Intn(2) == 0 && rats[i].Cmp(eps) >= 0 {
		dir = "lt"
		rats[i].Sub(rats[i], eps)
	} else {
		rats[i].Add(rats[i], eps)
	}
	single := rats[i].Cmp(c24One) > 0
	texts[i] = rats[i].Num().String() + "/" + rats[i].Denom().String()
	w := c24Vector{gen: v.gen, rats: rats, texts: texts, remIdx: -1}

	// constructors
	portions := make([]machine.Portion, n)
	rejectedAt := ""
	for j := range rats {
		p, err := machine.ParsePortionSpecific(texts[j])
		if err != nil {
			rejectedAt = "portion"
			break
		}
		portions[j] = *p
	}
	if rejectedAt == "" {
		if _, err := machine.NewAllotment(portions); err != nil {
			rejectedAt = "NewAllotment"
		}
	}
	switch {
	case rejectedAt != "":
		r.Count("non100_"+dir+"_rejected_by_"+rejectedAt, 1)
	default:
		r.Count("non100_"+dir+"_accepted_by_NewAllotment", 1)
	}
	if single {
		r.Count("non100_single_portion_over_100pct", 1)
	}
	// compiler
	kind := []string{"dest", "src"}[rng.Intn(2)]
	script, vars := c24Script(rng, w, amount, kind, texts)
	_, stage, err := c24RunScript(script, vars, kind, n)
	if err != nil {
		r.Count("non100_"+dir+"_script_rejected_at_"+stage, 1)
		r.Seen("non100_script_reject_classes", stage+": "+c24ErrClass(err))
	} else {
		r.Count("non100_"+dir+"_script_executed", 1)
	}
}
