package checks

// C33 monitor: one totally ordered event log (single mutex + logical counter)
// and the online oracles over it. In light mode (race-detector build) nothing
// is recorded and no shared mutex is taken, so the monitor does not create
// happens-before edges between goroutines of the code under test.

import (
	"context"
	"fmt"
	"strings"
	"sync"
	"sync/atomic"
)

// ---------- scenario description (JSON-serialisable, goes into details) ----------

type c33LedgerPlan struct {
	Name     string `json:"name"`
	Total    int    `json:"total"`
	BurstMax int    `json:"burst_max"`
	GapUS    int    `json:"gap_us"`
	PauseAt  int    `json:"pause_at,omitempty"` // producer waits for a "resume" op after this many logs
}

type c33AcceptPlan struct {
	Kind   string `json:"kind"` // ok | fail-k | fail-until-heal | slow | fail-on-batch | flaky | chunk-fail (batched exporters only)
	K      int    `json:"k,omitempty"`
	X      uint64 `json:"x,omitempty"`
	SlowUS int    `json:"slow_us,omitempty"`
	// chunk-fail: of every Every-th Accept call of the pipeline (at most K calls) the exporter
	// refuses the chunks at position Pos (first | middle | last | not-last | not-first | even | odd)
	Pos   string `json:"pos,omitempty"`
	Every int    `json:"every,omitempty"`
}

// c33BatchPlan: every exporter of the scenario is the recording driver wrapped in the REAL
// drivers.Batcher (built by drivers.NewWithBatchingDriverFactory, as internal/replication/module.go does).
type c33BatchPlan struct {
	MaxItems int `json:"max_items"` // 0 = unlimited (flush by interval only)
	FlushUS  int `json:"flush_interval_us"`
}

type c33PipePlan struct {
	Name       string        `json:"name"`
	Ledger     string        `json:"ledger"`
	Exporter   string        `json:"exporter"`
	Accept     c33AcceptPlan `json:"accept"`
	LateCreate bool          `json:"late_create,omitempty"`
}

type c33StorePlan struct {
	ListLogsFailEvery    int    `json:"listlogs_fail_every,omitempty"`
	ListLogsDelayEvery   int    `json:"listlogs_delay_every,omitempty"`
	ListLogsDelayUS      int    `json:"listlogs_delay_us,omitempty"`
	StoreFailEvery       int    `json:"store_fail_every,omitempty"`
	StoreDelayEvery      int    `json:"store_delay_every,omitempty"`
	StoreDelayUS         int    `json:"store_delay_us,omitempty"`
	GetPipelineFailEvery int    `json:"getpipeline_fail_every,omitempty"`
	OpenLedgerFailEvery  int    `json:"openledger_fail_every,omitempty"`
	UpdateFailEvery      int    `json:"updatepipeline_fail_every,omitempty"`
	ListEnabledFailEvery int    `json:"listenabled_fail_every,omitempty"`
	HoldStorePipe        string `json:"hold_store_pipe,omitempty"` // hold StorePipelineState(pipe, >= HoldStoreAt) until the pipe's reset is applied
	HoldStoreAt          uint64 `json:"hold_store_at,omitempty"`
	StartDelayUS         int    `json:"driver_start_delay_us,omitempty"`
}

type c33Op struct {
	Kind     string `json:"kind"` // start stop reset restart down up create stop-cancelled resume wait-hold
	Pipe     string `json:"pipe,omitempty"`
	Ledger   string `json:"ledger,omitempty"`
	SleepUS  int    `json:"sleep_us,omitempty"`
	WaitAcks int    `json:"wait_acks,omitempty"`
}

type c33Scenario struct {
	Class    string          `json:"class"`
	Ledgers  []c33LedgerPlan `json:"ledgers"`
	Pipes    []c33PipePlan   `json:"pipelines"`
	PageSize int             `json:"page_size"`
	PullUS   int             `json:"pull_us"`
	RetryUS  int             `json:"push_retry_us"`
	SyncUS   int             `json:"sync_us"` // 0 = one hour (never during a scenario)
	Store    c33StorePlan    `json:"storage_faults"`
	Ops      []c33Op         `json:"ops"`
	Batch    *c33BatchPlan   `json:"batching,omitempty"`
}

// ---------- events ----------

type c33Event struct {
	Seq  int64
	Gen  int
	Kind string
	Pipe string
	A, B uint64
	N    int
	Rep  int
	Note string
}

func (e c33Event) String() string {
	var sb strings.Builder
	fmt.Fprintf(&sb, "#%d g%d %s", e.Seq, e.Gen, e.Kind)
	if e.Pipe != "" {
		sb.WriteString(" " + e.Pipe)
	}
	switch e.Kind {
	case "ack", "accept_err", "accept_abandoned", "poll", "outer_accept", "outer_ok", "outer_err":
		if e.N > 0 {
			fmt.Fprintf(&sb, " ids=%d..%d n=%d", e.A, e.B, e.N)
		} else {
			sb.WriteString(" empty")
		}
	case "store_call", "store_err":
		fmt.Fprintf(&sb, " last_log_id=%d", e.A)
	case "store_apply":
		fmt.Fprintf(&sb, " last_log_id=%d (call #%d)", e.A, e.B)
	}
	if e.Rep > 0 {
		fmt.Fprintf(&sb, " x%d", e.Rep+1)
	}
	if e.Note != "" {
		sb.WriteString(" " + e.Note)
	}
	return sb.String()
}

type c33Viol struct {
	Sig   string
	Msg   string
	Pipe  string
	AtSeq int64
	AtIdx int
}

// ---------- per pipeline monitor state ----------

type c33Pipe struct {
	plan   c33PipePlan
	key    string // ledger/exporter
	total  int    // logs the ledger will contain at the end of production
	budget int64

	// light + heavy (atomics)
	attempts    atomic.Int64
	ackCount    atomic.Int64
	lastAckLast atomic.Uint64
	pollsAll    atomic.Int64
	forceFail   atomic.Bool
	healedP     atomic.Bool
	failedOnX   atomic.Int64

	// heavy only, protected by mon.mu
	epoch       int
	maxAck      uint64
	everAck     uint64
	persisted   uint64
	hasPersist  bool
	lateStore   bool
	fReset      bool
	fRestart    bool
	fStopStart  bool
	fAcceptErr  bool
	fPollErr    bool
	resetInProg bool
	resetMarked bool
	tainted     bool
	pollsQ      int64
	acceptsQ    atomic.Int64 // Accept calls made by the pipeline (outermost driver) since quiescence
	inflight    map[int64]context.Context
	created     int // handlers created (seen through the logger)
	terminated  int // handlers that logged "Pipeline terminated."
	zombie      bool
	batches     int

	// batched exporter (heavy only, protected by mon.mu). In batched mode maxAck is the
	// CONTIGUOUS accepted prefix since the last reset (every id <= maxAck was in a chunk the
	// recording driver accepted); acc holds accepted ids above it.
	batched        bool
	acc            map[uint64]struct{}
	maxAttempted   uint64 // highest id that reached the recording driver since the last reset (accepted or refused)
	outerSeq       int64
	chunkFailCalls int
	lastOuterNil   *c33OuterCall // last outer Accept that returned nil although a chunk of it was refused
}

func (p *c33Pipe) ctxClass() string {
	switch {
	case p.lateStore:
		return "after-late-store-after-reset"
	case p.fReset:
		return "after-reset"
	case p.fRestart:
		return "after-restart"
	case p.fStopStart:
		return "after-stop-start"
	case p.fAcceptErr:
		return "after-accept-error"
	case p.fPollErr:
		return "after-listlogs-error"
	}
	return "steady"
}

// ---------- monitor ----------

type c33Mon struct {
	light bool

	mu       sync.Mutex
	seq      int64
	gen      int
	events   []c33Event
	dropped  int64
	viols    []c33Viol
	quiesced bool
	inflSeq  int64

	byKey map[string]*c33Pipe // fixed after setup
	byNm  map[string]*c33Pipe

	// batched exporters (heavy only, under mu)
	calls         map[int64]*c33OuterCall
	callNo        int64
	chunksPerCall map[string]int64
	failPos       map[string]int64

	healed    atomic.Bool
	faultsOff atomic.Bool

	// counters (atomics: usable in both modes)
	nAccepts, nAcks, nAckedLogs, nAcceptErr, nAbandoned atomic.Int64
	nStoreCalls, nStoreApplied, nStoreErr               atomic.Int64
	nPolls, nPollErr, nResets, nRestarts, nFaults       atomic.Int64
	nCtlOps, nDriverStops, nLateStoreWindows            atomic.Int64

	nOuterCalls, nOuterOK, nOuterErr, nChunks, nChunkRefused, nMixedChunks      atomic.Int64
	nStaleItems, nAheadItems, nFailedThenOKLast, nPerItemErrChunks, nGlobalErrs atomic.Int64
	nOuterNilWithRefusedChunk, nBatcherPanics                                   atomic.Int64
}

const c33MaxEvents = 400_000

func newC33Mon(light bool) *c33Mon {
	return &c33Mon{light: light, byKey: map[string]*c33Pipe{}, byNm: map[string]*c33Pipe{},
		calls: map[int64]*c33OuterCall{}, chunksPerCall: map[string]int64{}, failPos: map[string]int64{}}
}

// ev appends an event; mu must be held.
func (m *c33Mon) ev(kind string, p *c33Pipe, a, b uint64, n int, note string) int64 {
	m.seq++
	name := ""
	if p != nil {
		name = p.plan.Name
	}
	if kind == "poll" && n == 0 && len(m.events) > 0 {
		last := &m.events[len(m.events)-1]
		if last.Kind == "poll" && last.N == 0 && last.Pipe == name && last.Gen == m.gen {
			last.Rep++
			return m.seq
		}
	}
	if len(m.events) >= c33MaxEvents {
		m.dropped++
		return m.seq
	}
	m.events = append(m.events, c33Event{Seq: m.seq, Gen: m.gen, Kind: kind, Pipe: name, A: a, B: b, N: n, Note: note})
	return m.seq
}

func (m *c33Mon) violate(p *c33Pipe, sig, msg string) {
	name := ""
	if p != nil {
		name = p.plan.Name
	}
	m.ev("VIOLATION", p, 0, 0, 0, sig+": "+msg)
	for _, v := range m.viols {
		if v.Sig == sig {
			return
		}
	}
	m.viols = append(m.viols, c33Viol{Sig: sig, Msg: msg, Pipe: name, AtSeq: m.seq, AtIdx: len(m.events) - 1})
}

func (m *c33Mon) note(kind string, p *c33Pipe, note string) {
	if m.light {
		return
	}
	m.mu.Lock()
	m.ev(kind, p, 0, 0, 0, note)
	m.mu.Unlock()
}

// ----- control operations -----

func (m *c33Mon) opBegin(kind string, p *c33Pipe) {
	m.nCtlOps.Add(1)
	if m.light {
		return
	}
	m.mu.Lock()
	defer m.mu.Unlock()
	m.ev("op_begin", p, 0, 0, 0, kind)
	if p != nil && kind == "reset" {
		p.resetInProg = true
		p.resetMarked = false
	}
}

// opEnd: errKind is "" | "already-started" | "ctx" | "other".
func (m *c33Mon) opEnd(kind string, p *c33Pipe, err error, errKind string) {
	if kind == "reset" && err == nil {
		m.nResets.Add(1)
	}
	if m.light {
		return
	}
	m.mu.Lock()
	defer m.mu.Unlock()
	note := kind + " -> ok"
	if err != nil {
		note = kind + " -> " + err.Error()
	}
	m.ev("op_end", p, 0, 0, 0, note)
	if p == nil {
		return
	}
	switch kind {
	case "reset":
		p.resetInProg = false
		if err == nil {
			if !p.resetMarked {
				m.markReset(p, "no UpdatePipeline seen during ResetPipeline")
			}
			if p.hasPersist && p.persisted > p.maxAck && !p.lateStore {
				m.violate(p, "C33/persisted-ahead-of-ack:reset-did-not-clear",
					fmt.Sprintf("ResetPipeline returned nil but persisted last_log_id=%d while only %d acknowledged since the reset", p.persisted, p.maxAck))
				p.tainted = true
			}
		}
	case "stop", "stop-cancelled":
		p.fStopStart = true
	case "start":
		p.fStopStart = true
		if errKind == "already-started" && p.created > 0 && p.created == p.terminated && !p.zombie {
			p.zombie = true
			p.tainted = true
			m.violate(p, "C33/liveness:zombie-pipeline-after-cancelled-stop",
				fmt.Sprintf("StartPipeline answers 'already started' but every handler created for the pipeline (%d) has logged 'Pipeline terminated.': a StopPipeline whose context was cancelled left the stop signal queued, the handler exited, the manager still lists it; nothing will ever export the remaining logs and a later Stop/Reset/manager Stop blocks forever on it", p.created))
		}
	}
}

func (m *c33Mon) managerStarted() {
	if m.light {
		return
	}
	m.mu.Lock()
	defer m.mu.Unlock()
	m.gen++
	m.ev("mgr_start", nil, 0, 0, 0, "")
	if m.gen > 1 {
		for _, p := range m.byKey {
			p.fRestart = true
		}
	}
}

// markReset: the reset point of a pipeline in the total order; mu held.
func (m *c33Mon) markReset(p *c33Pipe, note string) {
	p.epoch++
	p.maxAck = 0
	p.acc, p.maxAttempted = nil, 0
	p.lateStore = false
	p.fReset = true
	p.resetMarked = true
	m.ev("reset_mark", p, 0, 0, 0, note)
}

// ----- storage side -----

type c33StoreTok struct {
	seq      int64
	epoch    int
	runEpoch int // epoch of the pipeline when the run that issued the call was created, -1 unknown
}

func (m *c33Mon) storeCall(p *c33Pipe, last uint64, runEpoch int) c33StoreTok {
	m.nStoreCalls.Add(1)
	if m.light || p == nil {
		return c33StoreTok{runEpoch: -1}
	}
	m.mu.Lock()
	defer m.mu.Unlock()
	s := m.ev("store_call", p, last, 0, 0, "")
	return c33StoreTok{seq: s, epoch: p.epoch, runEpoch: runEpoch}
}

func (m *c33Mon) storeErr(p *c33Pipe, last uint64, why string) {
	m.nStoreErr.Add(1)
	if m.light || p == nil {
		return
	}
	m.mu.Lock()
	m.ev("store_err", p, last, 0, 0, why)
	m.mu.Unlock()
}

// storeApply runs apply (the write to the in-memory row) atomically with the event and oracle (2).
func (m *c33Mon) storeApply(p *c33Pipe, last uint64, tok c33StoreTok, apply func() error) error {
	if m.light || p == nil {
		err := apply()
		if err == nil {
			m.nStoreApplied.Add(1)
		}
		return err
	}
	m.mu.Lock()
	defer m.mu.Unlock()
	if err := apply(); err != nil {
		m.ev("store_err", p, last, 0, 0, err.Error())
		return err
	}
	m.nStoreApplied.Add(1)
	m.ev("store_apply", p, last, uint64(tok.seq), 0, "")
	p.persisted, p.hasPersist = last, true
	preReset := tok.epoch < p.epoch || (tok.runEpoch >= 0 && tok.runEpoch < p.epoch)
	if preReset {
		m.nLateStoreWindows.Add(1)
	}
	if last > p.maxAck {
		switch {
		case preReset:
			p.lateStore = true
			m.violate(p, "C33/persisted-ahead-of-ack:late-store-after-reset",
				fmt.Sprintf("StorePipelineState(%d) issued by the pre-reset run was applied after the reset cleared last_log_id; only %d acknowledged since the reset", last, p.maxAck))
		case last <= p.everAck && !(p.batched && last <= p.maxAttempted):
			m.violate(p, "C33/persisted-ahead-of-ack:stale-cursor-after-reset",
				fmt.Sprintf("StorePipelineState(%d): id acknowledged only before the last reset; %d acknowledged since", last, p.maxAck))
		default:
			msg := fmt.Sprintf("StorePipelineState(%d) applied while the exporter acknowledged at most %d", last, p.maxAck)
			if p.batched {
				msg += fmt.Sprintf(" without a gap: log %d was never in a chunk the exporter accepted since the last reset (highest id that reached the exporter: %d)", p.maxAck+1, p.maxAttempted)
				if c := p.lastOuterNil; c != nil {
					msg += fmt.Sprintf("; the real drivers.Batcher returned nil for Accept call #%d (ids %d..%d, flushed in %d chunks) although the exporter refused its chunk(s) at position %v and accepted only %d of its %d logs",
						c.no, c.first, c.last, c.chunks, c.failedPos, c.accepted, c.n)
				}
			}
			m.violate(p, "C33/persisted-ahead-of-ack:store-before-ack", msg)
		}
		if p.batched && !preReset {
			// the skipped logs will never be sent again: resynchronise so that the scenario can finish
			p.tainted = true
			m.resyncBatched(p, last)
		}
	}
	return nil
}

// updateApply: UpdatePipeline as used by ResetPipeline.
func (m *c33Mon) updateApply(p *c33Pipe, clears bool, note string, apply func() error) error {
	if m.light || p == nil {
		return apply()
	}
	m.mu.Lock()
	defer m.mu.Unlock()
	if err := apply(); err != nil {
		m.ev("update_err", p, 0, 0, 0, err.Error())
		return err
	}
	if clears {
		p.hasPersist, p.persisted = false, 0
	}
	if p.resetInProg || clears {
		m.markReset(p, note)
	} else {
		m.ev("update", p, 0, 0, 0, note)
	}
	return nil
}

func (m *c33Mon) poll(p *c33Pipe, n int, first, last uint64, hasMore bool, err error) {
	m.nPolls.Add(1)
	if p != nil {
		p.pollsAll.Add(1)
	}
	if err != nil {
		m.nPollErr.Add(1)
	}
	if m.light || p == nil {
		return
	}
	m.mu.Lock()
	defer m.mu.Unlock()
	if err != nil {
		m.ev("poll_err", p, 0, 0, 0, err.Error())
		p.fPollErr = true
	} else {
		note := ""
		if hasMore {
			note = "hasMore"
		}
		m.ev("poll", p, first, last, n, note)
	}
	if m.quiesced {
		p.pollsQ++
	}
}

// ----- exporter side -----

type c33AcceptDecision struct {
	skip    bool // context already cancelled when Accept was entered: abandoned before delivery
	id      int64
	attempt int64
	fail    bool
	why     string
	delayUS int
}

func (m *c33Mon) acceptBegin(p *c33Pipe, ctx context.Context, ids []uint64) c33AcceptDecision {
	m.nAccepts.Add(1)
	if ctx.Err() != nil {
		// the pipeline was stopped before its Accept goroutine even ran
		m.nAbandoned.Add(1)
		if !m.light {
			m.mu.Lock()
			m.ev("accept_abandoned", p, ids[0], ids[len(ids)-1], len(ids), "context already cancelled when Accept was entered")
			m.mu.Unlock()
		}
		return c33AcceptDecision{skip: true}
	}
	d := c33AcceptDecision{attempt: p.attempts.Add(1) - 1}
	pl := p.plan.Accept
	healed := m.healed.Load() || p.healedP.Load()
	switch {
	case p.forceFail.Load() && !healed:
		d.fail, d.why = true, "exporter down (op)"
	case healed:
	case pl.Kind == "fail-k" && d.attempt < int64(pl.K):
		d.fail, d.why = true, "fail-k"
	case pl.Kind == "fail-until-heal":
		d.fail, d.why = true, "fail-until-heal"
	case pl.Kind == "flaky" && pl.K > 0 && d.attempt%int64(pl.K) == int64(pl.K)-1:
		d.fail, d.why = true, "flaky"
	case pl.Kind == "fail-on-batch":
		for _, id := range ids {
			if id == pl.X && p.failedOnX.Add(1) <= int64(pl.K) {
				d.fail, d.why = true, "fail-on-batch"
			}
		}
	}
	if !healed && (pl.Kind == "slow" || pl.Kind == "flaky") {
		d.delayUS = pl.SlowUS
	}
	if d.fail {
		m.nFaults.Add(1)
	}
	if m.light {
		return d
	}
	m.mu.Lock()
	defer m.mu.Unlock()
	for id, other := range p.inflight {
		if other.Err() == nil {
			m.violate(p, "C33/concurrent-accept",
				fmt.Sprintf("Accept(ids %d..%d) started while another Accept (inflight #%d) of the same pipeline is in progress with a live context", ids[0], ids[len(ids)-1], id))
			break
		}
	}
	m.inflSeq++
	d.id = m.inflSeq
	if p.inflight == nil {
		p.inflight = map[int64]context.Context{}
	}
	p.inflight[d.id] = ctx
	return d
}

func (m *c33Mon) acceptFail(p *c33Pipe, d c33AcceptDecision, ids []uint64, why string, abandoned bool) {
	if abandoned {
		m.nAbandoned.Add(1)
	} else {
		m.nAcceptErr.Add(1)
	}
	if m.light {
		return
	}
	m.mu.Lock()
	defer m.mu.Unlock()
	delete(p.inflight, d.id)
	kind := "accept_err"
	if abandoned {
		kind = "accept_abandoned"
	} else {
		p.fAcceptErr = true
	}
	m.ev(kind, p, ids[0], ids[len(ids)-1], len(ids), why)
}

// acceptAck records the acknowledgement (Accept is about to return nil) and runs
// oracle (1)/(3). Returns false when the call's context is already cancelled: the
// pipeline abandoned this call (stop), nothing is acknowledged.
func (m *c33Mon) acceptAck(p *c33Pipe, d c33AcceptDecision, ctx context.Context, ids []uint64, tags []string, ledgers []string, produced func() int) bool {
	if m.light {
		if ctx.Err() != nil {
			m.nAbandoned.Add(1)
			return false
		}
		m.nAcks.Add(1)
		m.nAckedLogs.Add(int64(len(ids)))
		p.ackCount.Add(1)
		for last := ids[len(ids)-1]; ; {
			// light mode: highest id ever acknowledged (a reset followed by the known
			// late-store defect may legitimately never re-export, see heavy mode)
			cur := p.lastAckLast.Load()
			if last <= cur || p.lastAckLast.CompareAndSwap(cur, last) {
				break
			}
		}
		return true
	}
	m.mu.Lock()
	defer m.mu.Unlock()
	delete(p.inflight, d.id)
	if ctx.Err() != nil {
		m.nAbandoned.Add(1)
		m.ev("accept_abandoned", p, ids[0], ids[len(ids)-1], len(ids), "context cancelled by the pipeline")
		return false
	}
	m.nAcks.Add(1)
	m.nAckedLogs.Add(int64(len(ids)))
	m.ev("ack", p, ids[0], ids[len(ids)-1], len(ids), "")
	p.batches++
	// never a log of another ledger
	for i := range ids {
		want := fmt.Sprintf("%s#%d", p.plan.Ledger, ids[i])
		if tags[i] != want || ledgers[i] != p.plan.Ledger {
			m.violate(p, "C33/foreign-ledger-log",
				fmt.Sprintf("pipeline of ledger %s acknowledged log tagged %q (LogWithLedger.Ledger=%q, id %d)", p.plan.Ledger, tags[i], ledgers[i], ids[i]))
			p.tainted = true
			break
		}
	}
	// ids within a batch increasing, no gap
	for i := 1; i < len(ids); i++ {
		if ids[i] != ids[i-1]+1 {
			m.violate(p, "C33/batch-not-consecutive:"+p.ctxClass(),
				fmt.Sprintf("batch ids %d then %d", ids[i-1], ids[i]))
			p.tainted = true
			break
		}
	}
	if n := produced(); ids[len(ids)-1] > uint64(n) {
		m.violate(p, "C33/phantom-log", fmt.Sprintf("acknowledged id %d but ledger has %d logs", ids[len(ids)-1], n))
	}
	// monotone with replays
	if ids[0] > p.maxAck+1 {
		sig := "C33/ack-gap:" + p.ctxClass()
		if p.epoch > 0 && p.maxAck == 0 {
			sig = "C33/reset-not-from-first:" + p.ctxClass()
		}
		m.violate(p, sig, fmt.Sprintf("acknowledged batch starts at id %d but the highest id acknowledged since the last reset is %d (logs %d..%d skipped)", ids[0], p.maxAck, p.maxAck+1, ids[0]-1))
		p.tainted = true
		p.maxAck = ids[0] - 1 // resynchronise so that the scenario can finish
	}
	if last := ids[len(ids)-1]; last > p.maxAck {
		p.maxAck = last
	}
	if p.maxAck > p.everAck {
		p.everAck = p.maxAck
	}
	p.fReset, p.fRestart, p.fStopStart, p.fAcceptErr, p.fPollErr = false, false, false, false, false
	p.ackCount.Add(1)
	p.lastAckLast.Store(ids[len(ids)-1])
	return true
}

// ----- batched exporter: the REAL drivers.Batcher sits between the pipeline and the recording driver -----
//
// c33Outer (the driver the manager sees) numbers every Accept call of the pipeline and stamps
// the number on each log it hands to the Batcher; the recording driver below the Batcher reads
// the stamps back, so every flushed chunk is attributed to the call(s) it came from. A log is
// accepted only when the recording driver returned nil for the chunk that contained it.

type c33OuterCall struct {
	no          int64 // scenario-wide number, stamped on every log of the call
	seq         int64 // per pipeline
	p           *c33Pipe
	epoch       int
	ctx         context.Context
	first, last uint64
	n           int
	chunks      int
	failedPos   []string
	okChunks    int
	lastOK      bool
	accepted    int
	failPlan    bool
}

type c33Item struct {
	id      uint64
	tag     string
	ledger  string
	call    int64
	idx, n  int
	stamped bool
}

type c33CallPos struct {
	c   *c33OuterCall
	pos string // only | first | middle | last
	idx int    // chunk index within the call
}

// c33Group: the logs of one pipeline inside one flushed chunk.
type c33Group struct {
	p     *c33Pipe
	at    []int // positions in the chunk
	items []c33Item
	ids   []uint64
	dec   c33AcceptDecision
	calls []c33CallPos
}

func c33Bucket(n int) string {
	switch {
	case n <= 4:
		return fmt.Sprint(n)
	case n <= 8:
		return "5-8"
	case n <= 16:
		return "9-16"
	case n <= 32:
		return "17-32"
	}
	return "33+"
}

func c33PosMatch(want, pos string, idx int) bool {
	switch want {
	case "first":
		return pos == "first" || pos == "only"
	case "last":
		return pos == "last" || pos == "only"
	case "middle":
		return pos == "middle"
	case "not-last":
		return pos == "first" || pos == "middle"
	case "not-first":
		return pos == "middle" || pos == "last"
	case "even":
		return idx%2 == 0
	case "odd":
		return idx%2 == 1
	}
	return false
}

func (m *c33Mon) outerBegin(p *c33Pipe, ctx context.Context, ids []uint64) *c33OuterCall {
	m.nOuterCalls.Add(1)
	m.mu.Lock()
	defer m.mu.Unlock()
	m.callNo++
	p.outerSeq++
	c := &c33OuterCall{no: m.callNo, seq: p.outerSeq, p: p, epoch: p.epoch, ctx: ctx, first: ids[0], last: ids[len(ids)-1], n: len(ids)}
	pl := p.plan.Accept
	if pl.Kind == "chunk-fail" && !(m.healed.Load() || p.healedP.Load()) && p.chunkFailCalls < pl.K && (pl.Every <= 1 || c.seq%int64(pl.Every) == 0) {
		p.chunkFailCalls++
		c.failPlan = true
	}
	m.calls[c.no] = c
	m.ev("outer_accept", p, c.first, c.last, c.n, fmt.Sprintf("call#%d -> real Batcher", c.no))
	return c
}

func (m *c33Mon) outerEnd(c *c33OuterCall, err error) {
	m.mu.Lock()
	defer m.mu.Unlock()
	p := c.p
	live := c.ctx.Err() == nil
	m.chunksPerCall[c33Bucket(c.chunks)]++
	if len(c.failedPos) > 0 && c.lastOK {
		m.nFailedThenOKLast.Add(1)
	}
	note := fmt.Sprintf("call#%d chunks=%d refused=%v accepted_logs=%d/%d", c.no, c.chunks, c.failedPos, c.accepted, c.n)
	if err != nil {
		m.nOuterErr.Add(1)
		m.ev("outer_err", p, c.first, c.last, c.n, note+" Batcher.Accept -> "+err.Error())
		return
	}
	m.nOuterOK.Add(1)
	if live && c.epoch == p.epoch && c.accepted < c.n {
		m.nOuterNilWithRefusedChunk.Add(1)
		p.lastOuterNil = c
		note += " BUT Batcher.Accept -> nil"
	}
	m.ev("outer_ok", p, c.first, c.last, c.n, note)
}

// chunkBegin attributes the group to its calls and applies the chunk-fail plan; called after acceptBegin.
func (m *c33Mon) chunkBegin(g *c33Group) {
	m.nChunks.Add(1)
	m.mu.Lock()
	defer m.mu.Unlock()
	p := g.p
	healed := m.healed.Load() || p.healedP.Load()
	var cur *c33CallPos
	for _, it := range g.items {
		if !it.stamped {
			continue
		}
		c := m.calls[it.call]
		if c == nil {
			continue
		}
		if cur == nil || cur.c != c {
			g.calls = append(g.calls, c33CallPos{c: c, pos: "middle", idx: c.chunks})
			cur = &g.calls[len(g.calls)-1]
			c.chunks++
		}
		first := cur.pos == "first" || cur.pos == "only" || it.idx == 0
		last := cur.pos == "last" || cur.pos == "only" || it.idx == it.n-1
		switch {
		case first && last:
			cur.pos = "only"
		case first:
			cur.pos = "first"
		case last:
			cur.pos = "last"
		}
	}
	for _, cp := range g.calls {
		if cp.c.failPlan && !healed && !g.dec.fail && c33PosMatch(p.plan.Accept.Pos, cp.pos, cp.idx) {
			g.dec.fail, g.dec.why = true, "chunk-fail:"+p.plan.Accept.Pos
			m.nFaults.Add(1)
		}
	}
}

func (g *c33Group) note() string {
	var sb strings.Builder
	for i, cp := range g.calls {
		if i > 0 {
			sb.WriteString(" + ")
		}
		fmt.Fprintf(&sb, "call#%d chunk#%d(%s)", cp.c.no, cp.idx, cp.pos)
	}
	for i := 1; i < len(g.ids); i++ {
		if g.ids[i] != g.ids[i-1]+1 {
			fmt.Fprintf(&sb, " ids=%v", g.ids)
			break
		}
	}
	return sb.String()
}

// chunkFail: the recording driver refuses (or, abandoned, never delivers) the group's logs.
func (m *c33Mon) chunkFail(g *c33Group, why string, abandoned bool) {
	p := g.p
	if abandoned {
		m.nAbandoned.Add(1)
	} else {
		m.nAcceptErr.Add(1)
		m.nChunkRefused.Add(1)
	}
	m.mu.Lock()
	defer m.mu.Unlock()
	delete(p.inflight, g.dec.id)
	kind := "accept_err"
	if abandoned {
		kind = "accept_abandoned"
	} else {
		p.fAcceptErr = true
	}
	m.ev(kind, p, g.ids[0], g.ids[len(g.ids)-1], len(g.ids), why+" "+g.note())
	for _, cp := range g.calls {
		cp.c.failedPos = append(cp.c.failedPos, cp.pos)
		if cp.pos == "last" || cp.pos == "only" {
			cp.c.lastOK = false
		}
		if !abandoned {
			m.failPos[cp.pos]++
		}
	}
	for _, it := range g.items {
		if c := m.calls[it.call]; it.stamped && c != nil && c.epoch == p.epoch && it.id == p.maxAttempted+1 {
			p.maxAttempted = it.id
		}
	}
}

// resyncBatched: pretend everything up to id was accepted; mu held.
func (m *c33Mon) resyncBatched(p *c33Pipe, id uint64) {
	if id > p.maxAck {
		p.maxAck = id
	}
	for k := range p.acc {
		if k <= p.maxAck {
			delete(p.acc, k)
		}
	}
	for {
		if _, ok := p.acc[p.maxAck+1]; !ok {
			break
		}
		delete(p.acc, p.maxAck+1)
		p.maxAck++
	}
	if p.maxAttempted < p.maxAck {
		p.maxAttempted = p.maxAck
	}
	if p.maxAck > p.everAck {
		p.everAck = p.maxAck
	}
}

// chunkAck: the recording driver is about to return nil for the group's logs. Same oracles as
// acceptAck, stated per log: the stream of logs reaching the exporter from a live call never
// jumps ahead of what was sent before (no gap), and maxAck is the contiguous accepted prefix.
func (m *c33Mon) chunkAck(g *c33Group, ctx context.Context, produced func() int) bool {
	p := g.p
	m.mu.Lock()
	defer m.mu.Unlock()
	delete(p.inflight, g.dec.id)
	ids := g.ids
	if ctx.Err() != nil {
		m.nAbandoned.Add(1)
		m.ev("accept_abandoned", p, ids[0], ids[len(ids)-1], len(ids), "context of the Batcher cancelled "+g.note())
		for _, cp := range g.calls {
			cp.c.failedPos = append(cp.c.failedPos, cp.pos)
		}
		return false
	}
	m.nAcks.Add(1)
	m.nAckedLogs.Add(int64(len(ids)))
	m.ev("ack", p, ids[0], ids[len(ids)-1], len(ids), g.note())
	p.batches++
	for _, cp := range g.calls {
		cp.c.okChunks++
		if cp.pos == "last" || cp.pos == "only" {
			cp.c.lastOK = true
		}
	}
	for _, it := range g.items {
		want := fmt.Sprintf("%s#%d", p.plan.Ledger, it.id)
		if it.tag != want || it.ledger != p.plan.Ledger {
			m.violate(p, "C33/foreign-ledger-log",
				fmt.Sprintf("pipeline of ledger %s acknowledged log tagged %q (LogWithLedger.Ledger=%q, id %d)", p.plan.Ledger, it.tag, it.ledger, it.id))
			p.tainted = true
			break
		}
	}
	n := uint64(produced())
	for _, it := range g.items {
		if it.id > n {
			m.violate(p, "C33/phantom-log", fmt.Sprintf("acknowledged id %d but ledger has %d logs", it.id, n))
			break
		}
	}
	for _, it := range g.items {
		c := m.calls[it.call]
		if !it.stamped || c == nil {
			m.violate(p, "C33/batched-log-without-call-stamp", fmt.Sprintf("log %d reached the exporter without the stamp of the Accept call it was handed to the Batcher in", it.id))
			p.tainted = true
			continue
		}
		if c.epoch != p.epoch {
			m.nStaleItems.Add(1) // left in the Batcher by a call of the run before the reset: a duplicate, proves nothing about this run
			continue
		}
		c.accepted++
		if c.ctx.Err() == nil && it.id > p.maxAttempted+1 {
			sig := "C33/ack-gap:" + p.ctxClass()
			if p.epoch > 0 && p.maxAttempted == 0 {
				sig = "C33/reset-not-from-first:" + p.ctxClass()
			}
			m.violate(p, sig, fmt.Sprintf("log %d reached the exporter (call#%d) but the highest id sent to it since the last reset is %d (logs %d..%d skipped)", it.id, c.no, p.maxAttempted, p.maxAttempted+1, it.id-1))
			p.tainted = true
			m.resyncBatched(p, it.id-1) // resynchronise so that the scenario can finish
		}
		if it.id > p.maxAttempted {
			p.maxAttempted = it.id
		}
		if it.id > p.maxAck+1 {
			m.nAheadItems.Add(1) // accepted while an earlier chunk was refused: replayed later
		}
		if it.id > p.maxAck {
			if p.acc == nil {
				p.acc = map[uint64]struct{}{}
			}
			p.acc[it.id] = struct{}{}
			m.resyncBatched(p, p.maxAck)
		}
	}
	if p.maxAck > p.everAck {
		p.everAck = p.maxAck
	}
	p.fReset, p.fRestart, p.fStopStart, p.fAcceptErr, p.fPollErr = false, false, false, false, false
	p.ackCount.Add(1)
	p.lastAckLast.Store(ids[len(ids)-1])
	return true
}

// ----- logger observations -----

func (m *c33Mon) handlerCreated(p *c33Pipe) {
	if m.light || p == nil {
		return
	}
	m.mu.Lock()
	p.created++
	m.ev("handler_created", p, 0, 0, 0, "")
	m.mu.Unlock()
}

func (m *c33Mon) handlerTerminated(p *c33Pipe) {
	if m.light || p == nil {
		return
	}
	m.mu.Lock()
	p.terminated++
	m.ev("handler_terminated", p, 0, 0, 0, "")
	m.mu.Unlock()
}

func (m *c33Mon) epochOf(p *c33Pipe) int {
	if m.light || p == nil {
		return -1
	}
	m.mu.Lock()
	defer m.mu.Unlock()
	return p.epoch
}

// ----- end of scenario -----

func (m *c33Mon) quiesce() {
	m.faultsOff.Store(true)
	m.healed.Store(true)
	if m.light {
		return
	}
	m.mu.Lock()
	m.quiesced = true
	for _, p := range m.byKey {
		p.pollsQ = 0
		p.acceptsQ.Store(0)
	}
	m.ev("quiesce", nil, 0, 0, 0, "faults off, production finished")
	m.mu.Unlock()
}

// progress: done = every pipeline acknowledged everything since its last reset;
// exhausted lists untainted pipelines that used their poll budget without finishing.
func (m *c33Mon) progress() (done bool, exhausted []*c33Pipe) {
	if m.light {
		done = true
		for _, p := range m.byKey {
			if p.lastAckLast.Load() < uint64(p.total) {
				done = false
			}
		}
		return done, nil
	}
	m.mu.Lock()
	defer m.mu.Unlock()
	done = true
	for _, p := range m.byKey {
		if p.maxAck >= uint64(p.total) || p.zombie {
			continue
		}
		done = false
		// a pipeline that neither finishes nor polls again may be retrying one page for ever: its Accept
		// attempts are budgeted too (once faults are off every attempt succeeds, one per page)
		if p.pollsQ > p.budget || p.acceptsQ.Load() > p.budget+50 {
			exhausted = append(exhausted, p)
		}
	}
	return done, exhausted
}

// window returns the events around idx, restricted to pipe (and global events);
// runs of empty polls are folded into one line.
func (m *c33Mon) window(idx int, pipe string, before, after int) []string {
	keep := func(e c33Event) bool { return e.Pipe == pipe || e.Pipe == "" || pipe == "" }
	emptyPoll := func(e c33Event) bool { return e.Kind == "poll" && e.N == 0 }
	var sel []int
	n := 0
	for i := idx; i >= 0 && n < before; i-- {
		if !keep(m.events[i]) {
			continue
		}
		if emptyPoll(m.events[i]) && len(sel) > 0 && emptyPoll(m.events[sel[len(sel)-1]]) && m.events[sel[len(sel)-1]].Pipe == m.events[i].Pipe {
			sel[len(sel)-1] = i // keep the earliest of the run
			continue
		}
		sel = append(sel, i)
		n++
	}
	for i, j := 0, len(sel)-1; i < j; i, j = i+1, j-1 {
		sel[i], sel[j] = sel[j], sel[i]
	}
	n = 0
	for i := idx + 1; i < len(m.events) && n < after; i++ {
		if !keep(m.events[i]) {
			continue
		}
		if emptyPoll(m.events[i]) && len(sel) > 0 && emptyPoll(m.events[sel[len(sel)-1]]) && m.events[sel[len(sel)-1]].Pipe == m.events[i].Pipe {
			continue
		}
		sel = append(sel, i)
		n++
	}
	out := make([]string, 0, len(sel))
	for k, i := range sel {
		line := m.events[i].String()
		if emptyPoll(m.events[i]) {
			next := len(m.events)
			if k+1 < len(sel) {
				next = sel[k+1]
			}
			cnt := 0
			for j := i; j < next; j++ {
				if emptyPoll(m.events[j]) && m.events[j].Pipe == m.events[i].Pipe {
					cnt += 1 + m.events[j].Rep
				}
			}
			line = fmt.Sprintf("#%d g%d poll %s empty (x%d up to the next line)", m.events[i].Seq, m.events[i].Gen, m.events[i].Pipe, cnt)
		}
		out = append(out, line)
	}
	return out
}
