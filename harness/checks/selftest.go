package checks

import (
	"fmt"

	"github.com/formancehq/ledger/verifharness/core"
)

// SELFTEST is not a property: it exercises the runner (ForEach determinism,
// evidence writing). Not registered in MANIFEST.json.
func init() {
	core.Register(&core.Check{
		ID: "SELFTEST", Level: "exploration", Rule: "runner self test",
		Run: func(r *core.Run) {
			r.ForEach("main", r.N(100, 1000), 0, func(c *core.Case) {
				v := c.Rng.Intn(10)
				r.Eval(fmt.Sprint(v), v > 0)
				r.Sample(map[string]any{"i": c.Index, "v": v})
			})
		},
	})
}
