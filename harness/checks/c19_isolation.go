package checks

import (
	"context"
	"encoding/json"
	"fmt"
	"math/big"
	"math/rand"
	"sort"
	"strings"

	"github.com/formancehq/go-libs/v5/pkg/storage/bun/paginate"
	"github.com/formancehq/go-libs/v5/pkg/types/metadata"
	"github.com/formancehq/go-libs/v5/pkg/types/pointer"
	"github.com/formancehq/go-libs/v5/pkg/types/time"

	ledger "github.com/formancehq/ledger/internal"
	ledgercontroller "github.com/formancehq/ledger/internal/controller/ledger"
	systemcontroller "github.com/formancehq/ledger/internal/controller/system"
	"github.com/formancehq/ledger/internal/storage/common"
	storagedriver "github.com/formancehq/ledger/internal/storage/driver"
	ledgerstore "github.com/formancehq/ledger/internal/storage/ledger"
	systemstore "github.com/formancehq/ledger/internal/storage/system"

	"github.com/formancehq/ledger/verifharness/core"
	"github.com/formancehq/ledger/verifharness/pgshim"
	"github.com/formancehq/ledger/verifharness/realstore"
	"github.com/formancehq/ledger/verifharness/sim"
)

func init() {
	core.Register(&core.Check{
		ID: "C19", Level: "exploration",
		Rule:        "(trace) the REAL storage driver + ledger store factory + every resource handler and write method + the numscript runtimes (machine and interpreter, multi-source scripts) run over a recording SQL driver whose scripted _system.ledgers table EXECUTES the system store's statements (WHERE evaluated on rows with deleted_at): random sequences of CreateLedger / OpenLedger over 1-3 ledgers sharing a bucket plus one alone, ledger creation mid-history, store handles kept across creations; whenever the scripted table holds >=2 rows for the bucket (soft-deleted rows included: their data is still in the bucket tables) every statement emitted by a store of ledger L must IMPLY `ledger = 'L'` in each (sub)select / update scope touching a bucket table - the WHERE / inner-join ON condition is parsed with the SQL precedence (NOT > AND > OR, paren-aware) and the predicate must hold in every OR branch - and insert rows with ledger L; nothing is asserted while L's row is the only one of its bucket. GetBalances' select is answered by evaluating its WHERE on the accounts_volumes rows of ALL ledgers of the bucket (overlapping accounts, different amounts): the returned balances must be L's own, a multi-source script on L never takes more from a source than L's own balance. (softdel) A[,B] created and written in one bucket, bucket soft-deleted through the real system store (DeleteBucket), C created in the same bucket, every read / write / script on C and on the kept handles scanned as above; then RestoreBucket and reads on A/B/C; then HardDeleteBucket and a ledger really alone (negative control: unscoped statements are allowed and counted). (controller) random interleaved histories on 2-3 ledgers of one bucket with overlapping accounts / references / idempotency keys through the real controller stack: an operation on one ledger never changes the snapshot of another. Distinct = (loop, rows in bucket, method, query shape); non-trivial = statement emitted while the bucket held rows of >=2 ledgers",
		Assumptions: []string{"that a statement whose condition implies ledger = 'L' returns / locks / changes only that ledger's rows is Postgres' business; bucket DDL (migrations, AddLedger, DROP SCHEMA) is replaced by a fake bucket", "a revert's balance check is exercised as the store-level GetBalances with >=2 (account, asset) pairs, not through the controller's RevertTransaction (the controller half runs on the in-memory store, which emits no SQL)", seqAssume},
		Run:         runC19,
	})
}

// c19Op is what one random store operation did.
type c19Op struct {
	Method string
	// GetBalances: the query and the answer
	BalQuery ledgerstore.BalanceQuery
	Bal      ledger.Balances
	BalErr   error
	// RunScript
	Script     string
	Runtime    string
	Sources    []string
	Asset      string
	Amount     int64
	Postings   ledger.Postings
	ScriptErr  error
	Committed  bool
	CommitErr  error
	BeforeBals map[string]*big.Int // ground truth of the bounded sources before the script
}

var (
	c19Accounts = []string{"bank", "users:001", "users:002", "fees"}
	c19Assets   = []string{"USD", "EUR/2"}
)

const c19NKinds = 24

// c19GroundBalance is the ledger's own balance according to the rows the executed INSERTs wrote.
func c19GroundBalance(tab *realstore.Tables, name, account, asset string) *big.Int {
	if v, ok := tab.Volumes[[3]string{name, account, asset}]; ok {
		return new(big.Int).Sub(v[0], v[1])
	}
	return new(big.Int)
}

func c19RandomOp(ctx context.Context, rng *rand.Rand, st *ledgerstore.Store, name string, tab *realstore.Tables, kind int) c19Op {
	pit := realstore.GenPIT(rng)
	expand := func(opts ...string) []string {
		var out []string
		for _, o := range opts {
			if rng.Intn(3) == 0 {
				out = append(out, o)
			}
		}
		return out
	}
	order := pointer.For(paginate.Order(rng.Intn(2)))
	if kind < 0 {
		kind = rng.Intn(c19NKinds)
	}
	switch kind {
	case 0:
		q := common.ResourceQuery[any]{Builder: realstore.GenFilter(rng, "transactions", 3), PIT: pit, Expand: expand("volumes", "effectiveVolumes")}
		_, _ = st.Transactions().Paginate(ctx, common.InitialPaginatedQuery[any]{PageSize: 5, Order: order, Options: q})
		return c19Op{Method: "Transactions.Paginate"}
	case 1:
		_, _ = st.Transactions().Count(ctx, common.ResourceQuery[any]{Builder: realstore.GenFilter(rng, "transactions", 2), PIT: pit})
		return c19Op{Method: "Transactions.Count"}
	case 2:
		_, _ = st.Transactions().GetOne(ctx, common.ResourceQuery[any]{Builder: realstore.GenFilter(rng, "transactions", 1), PIT: pit, Expand: expand("volumes", "effectiveVolumes")})
		return c19Op{Method: "Transactions.GetOne"}
	case 3:
		q := common.ResourceQuery[any]{Builder: realstore.GenFilter(rng, "accounts", 3), PIT: pit, Expand: expand("volumes", "effectiveVolumes")}
		_, _ = st.Accounts().Paginate(ctx, common.InitialPaginatedQuery[any]{PageSize: 5, Order: order, Options: q})
		return c19Op{Method: "Accounts.Paginate"}
	case 4:
		_, _ = st.Accounts().Count(ctx, common.ResourceQuery[any]{Builder: realstore.GenFilter(rng, "accounts", 2), PIT: pit})
		return c19Op{Method: "Accounts.Count"}
	case 5:
		_, _ = st.Accounts().GetOne(ctx, common.ResourceQuery[any]{Builder: realstore.GenFilter(rng, "accounts", 1), PIT: pit, Expand: expand("volumes", "effectiveVolumes")})
		return c19Op{Method: "Accounts.GetOne"}
	case 6:
		q := common.ResourceQuery[ledger.GetVolumesOptions]{Builder: realstore.GenFilter(rng, "volumes", 3), PIT: pit, OOT: realstore.GenPIT(rng),
			Opts: ledger.GetVolumesOptions{UseInsertionDate: rng.Intn(2) == 0, GroupLvl: rng.Intn(3)}}
		_, _ = st.Volumes().Paginate(ctx, common.InitialPaginatedQuery[ledger.GetVolumesOptions]{PageSize: 5, Options: q})
		return c19Op{Method: "Volumes.Paginate"}
	case 7:
		q := common.ResourceQuery[ledger.GetAggregatedVolumesOptions]{Builder: realstore.GenFilter(rng, "aggregated", 3), PIT: pit, Opts: ledger.GetAggregatedVolumesOptions{UseInsertionDate: rng.Intn(2) == 0}}
		_, _ = st.AggregatedVolumes().GetOne(ctx, q)
		return c19Op{Method: "AggregatedVolumes.GetOne"}
	case 8:
		_, _ = st.Logs().Paginate(ctx, common.InitialPaginatedQuery[any]{PageSize: 5, Order: order, Options: common.ResourceQuery[any]{Builder: realstore.GenFilter(rng, "logs", 2)}})
		return c19Op{Method: "Logs.Paginate"}
	case 9:
		_, _ = st.Schemas().Paginate(ctx, common.InitialPaginatedQuery[any]{PageSize: 5})
		return c19Op{Method: "Schemas.Paginate"}
	case 10, 22:
		// 1..4 accounts x 1..2 assets: the balance lookup of a multi-source transaction / of the
		// revert of a transaction with several destinations
		q := ledgerstore.BalanceQuery{}
		perm := rng.Perm(len(c19Accounts))
		nAcc := 1 + rng.Intn(len(c19Accounts))
		if kind == 22 && nAcc < 2 {
			nAcc = 2
		}
		for _, i := range perm[:nAcc] {
			assets := []string{c19Assets[rng.Intn(2)]}
			if rng.Intn(3) == 0 {
				assets = []string{"USD", "EUR/2"}
			}
			q[c19Accounts[i]] = assets
		}
		bal, err := st.GetBalances(ctx, q)
		return c19Op{Method: "GetBalances", BalQuery: q, Bal: bal, BalErr: err}
	case 11:
		// funds only come from world and bank never gives more than it just received: no
		// account but world ever goes negative
		a := int64(1 + rng.Intn(500))
		b := int64(rng.Intn(int(a) + 1))
		ps := []ledger.Posting{ledger.NewPosting("world", "bank", "USD", big.NewInt(a))}
		if b > 0 {
			ps = append(ps, ledger.NewPosting("bank", "users:001", "USD", big.NewInt(b)))
		}
		if rng.Intn(2) == 0 {
			ps = append(ps, ledger.NewPosting("world", c19Accounts[rng.Intn(len(c19Accounts))], c19Assets[rng.Intn(2)], big.NewInt(int64(1+rng.Intn(500)))))
		}
		tx := ledger.NewTransaction().WithPostings(ps...).WithReference("r1")
		_ = st.CommitTransaction(ctx, &tx)
		return c19Op{Method: "CommitTransaction"}
	case 12:
		_ = st.UpsertAccounts(ctx, ledger.AccountWithDefaultMetadata{Account: &ledger.Account{Address: "bank", Metadata: metadata.Metadata{"k": "v"}}})
		return c19Op{Method: "UpsertAccounts"}
	case 13:
		l := ledger.NewLog(ledger.SavedMetadata{TargetType: ledger.MetaTargetTypeAccount, TargetID: "bank", Metadata: metadata.Metadata{"k": "v"}})
		l.IdempotencyKey = "ik"
		_ = st.InsertLog(ctx, &l)
		return c19Op{Method: "InsertLog"}
	case 14:
		_, _, _ = st.RevertTransaction(ctx, 1, time.Time{})
		return c19Op{Method: "RevertTransaction"}
	case 15:
		_, _, _ = st.UpdateTransactionMetadata(ctx, 1, metadata.Metadata{"k": "v"}, time.Time{})
		return c19Op{Method: "UpdateTransactionMetadata"}
	case 16:
		_, _, _ = st.DeleteTransactionMetadata(ctx, 1, "k", time.Time{})
		return c19Op{Method: "DeleteTransactionMetadata"}
	case 17:
		_ = st.UpdateAccountsMetadata(ctx, map[string]metadata.Metadata{"bank": {"k": "v"}}, time.Now())
		return c19Op{Method: "UpdateAccountsMetadata"}
	case 18:
		_ = st.DeleteAccountMetadata(ctx, "bank", "k")
		return c19Op{Method: "DeleteAccountMetadata"}
	case 19:
		_, _ = st.ReadLogWithIdempotencyKey(ctx, "ik")
		return c19Op{Method: "ReadLogWithIdempotencyKey"}
	case 20:
		_, _ = st.FindSchema(ctx, "v1")
		_, _ = st.FindLatestSchemaVersion(ctx)
		return c19Op{Method: "FindSchema"}
	case 21:
		sc := ledger.Schema{Version: "v1"}
		_ = st.InsertSchema(ctx, &sc)
		return c19Op{Method: "InsertSchema"}
	default:
		return c19RunScript(ctx, rng, st, name, tab)
	}
}

// c19RunScript runs a multi-source numscript through the real runtimes on the real store
// (balance lookup = one GetBalances over several (account, asset) pairs) and commits the
// resulting postings.
func c19RunScript(ctx context.Context, rng *rand.Rand, st *ledgerstore.Store, name string, tab *realstore.Tables) c19Op {
	op := c19Op{Method: "RunScript"}
	perm := rng.Perm(len(c19Accounts))
	nSrc := 2 + rng.Intn(2)
	op.Asset = c19Assets[rng.Intn(2)]
	total := new(big.Int)
	op.BeforeBals = map[string]*big.Int{}
	for _, i := range perm[:nSrc] {
		a := c19Accounts[i]
		op.Sources = append(op.Sources, a)
		op.BeforeBals[a] = c19GroundBalance(tab, name, a, op.Asset)
		total.Add(total, op.BeforeBals[a])
	}
	// amount around what the ledger really owns on these accounts
	switch t := total.Int64(); rng.Intn(4) {
	case 0:
		op.Amount = t + 1 + int64(rng.Intn(50))
	case 1:
		op.Amount = t
	default:
		op.Amount = 1 + rng.Int63n(t+1)
	}
	if op.Amount <= 0 {
		op.Amount = 1
	}
	var b strings.Builder
	fmt.Fprintf(&b, "send [%s %d] (\n  source = {\n", op.Asset, op.Amount)
	for _, s := range op.Sources {
		fmt.Fprintf(&b, "    @%s\n", s)
	}
	b.WriteString("  }\n  destination = @sink\n)\n")
	op.Script = b.String()
	var parser ledgercontroller.NumscriptParser
	if rng.Intn(2) == 0 {
		op.Runtime = "machine"
		parser = ledgercontroller.NewDefaultNumscriptParser()
	} else {
		op.Runtime = "interpreter"
		parser = ledgercontroller.NewInterpreterNumscriptParser(nil)
	}
	op.Method = "RunScript." + op.Runtime
	rt, err := parser.Parse(op.Script)
	if err != nil {
		op.ScriptErr = fmt.Errorf("parse: %w", err)
		return op
	}
	res, err := rt.Execute(ctx, systemcontroller.NewDefaultStoreAdapter(st), map[string]string{})
	if err != nil {
		op.ScriptErr = err
		return op
	}
	op.Postings = res.Postings
	if len(res.Postings) > 0 {
		tx := ledger.NewTransaction().WithPostings(res.Postings...)
		op.CommitErr = st.CommitTransaction(ctx, &tx)
		op.Committed = op.CommitErr == nil
	}
	return op
}

func c19ErrClass(err error) string {
	if err == nil {
		return "ok"
	}
	s := strings.ToLower(err.Error())
	switch {
	case strings.Contains(s, "insufficient") || strings.Contains(s, "not enough funds") || strings.Contains(s, "missing funds") || strings.Contains(s, "missingfunds"):
		return "insufficient-funds"
	case strings.HasPrefix(s, "parse:"):
		return "parse"
	}
	if len(s) > 60 {
		s = s[:60]
	}
	return "other:" + s
}

// c19Session is one scripted database with the real driver on top.
type c19Session struct {
	c    *core.Case
	r    *core.Run
	loop string
	db   *realstore.SysDB
	tab  *realstore.Tables
	d    *storagedriver.Driver
	ctx  context.Context
	// steps is the reproducible history of the case
	steps []string
}

func c19NewSession(c *core.Case, r *core.Run, loop string) *c19Session {
	s := &c19Session{c: c, r: r, loop: loop, ctx: context.Background()}
	s.db = realstore.NewSysDB()
	s.tab = realstore.NewTables()
	s.db.Responder = s.tab.Respond
	s.d = s.db.NewDriver()
	return s
}

func (s *c19Session) create(name, bucket string) *ledgerstore.Store {
	l := ledger.MustNewWithDefault(name)
	l.Bucket = bucket
	st, err := s.d.CreateLedger(s.ctx, &l)
	if err != nil {
		s.r.Inconclusive("CreateLedger over pgshim failed: " + err.Error())
		return nil
	}
	s.steps = append(s.steps, "create "+name+"@"+bucket)
	return st
}

// run performs one operation on a store of ledger `name` and judges every statement it
// emitted. phase names the situation for the violation signature ("" = plain shared bucket).
func (s *c19Session) run(rng *rand.Rand, st *ledgerstore.Store, name, bucket, phase string, kind int) {
	c, r := s.c, s.r
	s.db.Shim.ResetLog()
	op := c19RandomOp(s.ctx, rng, st, name, s.tab, kind)
	method := op.Method
	// ground truth, independent of any statement of the code under test: the rows of the
	// scripted _system.ledgers table naming this bucket, soft-deleted ones included
	rows, live := s.db.BucketRows(bucket)
	shared := rows >= 2
	s.steps = append(s.steps, fmt.Sprintf("%s on %s (rows in bucket %d, live %d)", method, name, rows, live))
	r.Seen("methods", method)
	r.Seen("situations", fmt.Sprintf("%s|%s|rows=%d|live=%d", s.loop, phase, rows, live))
	unscoped := 0
	for _, stmt := range s.db.Shim.Log() {
		if stmt.Kind != pgshim.KExec && stmt.Kind != pgshim.KQuery {
			continue
		}
		r.Count("statements_recorded", 1)
		rep := realstore.ScanScopedReport(stmt.SQL, bucket, name)
		r.Count("relations_examined", int64(rep.Relations))
		r.Count("conditions_parsed", int64(rep.Conditions))
		r.Count("or_branches_examined", int64(rep.OrBranches))
		for _, sh := range rep.DisjunctShapes {
			r.Seen("disjunct_structures", sh)
			r.Count("conditions_with_ledger_predicate_below_an_or", 1)
		}
		if !shared {
			if len(rep.Problems) > 0 {
				unscoped++
			}
			continue
		}
		r.Count("statements_checked_while_shared", 1)
		if phase != "" {
			r.Count("statements_checked_"+phase, 1)
		}
		if len(rep.Problems) == 0 {
			continue
		}
		sig := "C19/unscoped-statement-in-shared-bucket:" + method
		for _, p := range rep.Problems {
			if p.Kind == realstore.ProblemDisjunct {
				sig = "C19/unscoped-disjunct:" + method
			}
		}
		if phase != "" && !strings.HasPrefix(sig, "C19/unscoped-disjunct:") {
			sig = "C19/unscoped-statement-" + phase + ":" + method
		}
		if phase == "by-the-request-that-raced-a-ledger-creation" {
			// one history, whatever the racing request happens to read: a single signature
			sig = "C19/unscoped-read-by-the-request-whose-OpenLedger-raced-a-CreateLedger-in-its-bucket"
			r.Seen("methods_of_the_racing_request_found_unscoped", method)
		}
		c.Violation(sig, map[string]any{"ledger": name, "bucket": bucket, "rows_of_bucket_in_system_ledgers": rows, "live_rows": live, "steps": s.steps, "sql": stmt.SQL, "problems": rep.Texts()})
	}
	if !shared && unscoped > 0 {
		r.Count("unscoped_statements_while_truly_alone", int64(unscoped))
	}
	// the balances a ledger reads are its own
	if op.BalQuery != nil {
		pairs := 0
		for _, as := range op.BalQuery {
			pairs += len(as)
		}
		r.Seen("getbalances_pairs", fmt.Sprint(pairs))
		if pairs >= 2 && shared {
			r.Count("multi_pair_balance_reads_while_shared", 1)
		}
		if op.BalErr == nil {
			accs := make([]string, 0, len(op.BalQuery))
			for a := range op.BalQuery {
				accs = append(accs, a)
			}
			sort.Strings(accs)
			for _, a := range accs {
				for _, as := range op.BalQuery[a] {
					want := c19GroundBalance(s.tab, name, a, as)
					got := op.Bal[a][as]
					r.Count("balances_compared", 1)
					if got == nil || got.Cmp(want) != 0 {
						c.Violation("C19/balance-read-is-not-the-ledgers-own:GetBalances", map[string]any{"ledger": name, "bucket": bucket, "account": a, "asset": as, "got": fmt.Sprint(got), "own": want.String(), "query": op.BalQuery, "pairs": pairs, "steps": s.steps, "volumes_rows": c19DumpVolumes(s.tab)})
					}
				}
			}
		} else {
			r.Seen("getbalances_errors", c19ErrClass(op.BalErr))
		}
	}
	if op.Script != "" {
		r.Seen("script_outcomes", op.Runtime+"|"+c19ErrClass(op.ScriptErr))
		r.Count("scripts_run", 1)
		if shared {
			r.Count("scripts_run_while_shared", 1)
		}
		total := new(big.Int)
		for _, v := range op.BeforeBals {
			total.Add(total, v)
		}
		detail := map[string]any{"ledger": name, "bucket": bucket, "script": op.Script, "runtime": op.Runtime, "own_balances_before": fmt.Sprint(op.BeforeBals), "postings": op.Postings, "error": fmt.Sprint(op.ScriptErr), "steps": s.steps, "volumes_rows": c19DumpVolumes(s.tab)}
		switch cls := c19ErrClass(op.ScriptErr); {
		case cls == "ok":
			taken := map[string]*big.Int{}
			for _, p := range op.Postings {
				if taken[p.Source] == nil {
					taken[p.Source] = new(big.Int)
				}
				taken[p.Source].Add(taken[p.Source], p.Amount)
			}
			for src, amt := range taken {
				own, bounded := op.BeforeBals[src]
				if bounded && amt.Cmp(own) > 0 {
					detail["source"] = src
					c.Violation("C19/script-took-more-than-the-ledgers-own-balance:"+op.Runtime, detail)
				}
			}
		case cls == "insufficient-funds":
			if total.Cmp(big.NewInt(op.Amount)) >= 0 {
				c.Violation("C19/script-refused-although-the-ledgers-own-funds-suffice:"+op.Runtime, detail)
			}
		}
	}
	s.r.Eval(fmt.Sprintf("%s|%s|%d|%s|%v", s.loop, phase, rows, method, shared), shared)
}

func c19DumpVolumes(tab *realstore.Tables) []string {
	var out []string
	for k, v := range tab.Volumes {
		out = append(out, fmt.Sprintf("%s/%s/%s in=%s out=%s", k[0], k[1], k[2], v[0], v[1]))
	}
	sort.Strings(out)
	return out
}

func (s *c19Session) finish() {
	if s.tab.BalanceFallbacks > 0 {
		s.r.Count("getbalances_where_not_evaluable", int64(s.tab.BalanceFallbacks))
	}
	s.r.Count("getbalances_where_evaluated_on_all_rows_of_bucket", int64(s.tab.BalanceSelects))
	if len(s.db.Unknown) > 0 {
		s.r.Inconclusive("scripted _system.ledgers could not execute: " + s.db.Unknown[0])
	}
}

func runC19(r *core.Run) {
	n := r.N(400, 8000)
	r.Floor("statements_checked_while_shared", 1000)
	r.Floor("statements_checked_after-bucket-soft-delete", 500)
	r.Floor("multi_pair_balance_reads_while_shared", 100)
	r.Floor("conditions_with_ledger_predicate_below_an_or", 100)
	r.ForEach("trace", n, 0, func(c *core.Case) {
		rng := c.Rng
		s := c19NewSession(c, r, "trace")
		defer s.db.Close()
		type handle struct {
			name, bucket string
			st           *ledgerstore.Store
		}
		var handles []handle
		created := map[string]string{}
		names := []string{"la", "lb", "lc"}
		create := func(name, bucket string) bool {
			st := s.create(name, bucket)
			if st == nil {
				return false
			}
			created[name] = bucket
			handles = append(handles, handle{name, bucket, st})
			return true
		}
		if !create("ls", "solo") || !create(names[0], "shared") {
			return
		}
		nSteps := 12 + rng.Intn(20)
		for i := 0; i < nSteps; i++ {
			switch x := rng.Intn(10); {
			case x == 0 && len(created) < 4:
				for _, nm := range names {
					if _, ok := created[nm]; !ok {
						if !create(nm, "shared") {
							return
						}
						break
					}
				}
			case x == 1:
				// reopen an existing ledger
				h := handles[rng.Intn(len(handles))]
				st, _, err := s.d.OpenLedger(s.ctx, h.name)
				if err != nil {
					c.R.Inconclusive("OpenLedger over pgshim failed: " + err.Error())
					return
				}
				handles = append(handles, handle{h.name, h.bucket, st})
				s.steps = append(s.steps, "open "+h.name)
			default:
				h := handles[rng.Intn(len(handles))]
				s.run(rng, h.st, h.name, h.bucket, "", -1)
			}
		}
		s.finish()
		if c.Index < 2 {
			r.Sample(map[string]any{"steps": s.steps})
		}
	})

	// a ledger is created in the bucket WHILE another request opens the bucket's only ledger: the
	// opening request counted the ledgers before the creation committed (deterministic interleaving at
	// the count statement). Whatever that request itself does, every LATER request must be scoped again.
	r.ForEach("opencreate", r.N(60, 1000), 0, func(c *core.Case) {
		rng := c.Rng
		s := c19NewSession(c, r, "opencreate")
		defer s.db.Close()
		const bucket = "shared"
		if s.create("l1", bucket) == nil {
			return
		}
		var l2 *ledgerstore.Store
		fired := false
		s.db.AfterSys = func(q string) {
			up := strings.ToUpper(q)
			if fired || !strings.Contains(up, "COUNT(") {
				return
			}
			fired = true
			s.db.AfterSys = nil
			l2 = s.create("l2", bucket) // commits before the opener sees its (stale) count of 1
		}
		racing, _, err := s.d.OpenLedger(s.ctx, "l1")
		s.db.AfterSys = nil
		if err != nil || !fired || l2 == nil {
			r.Inconclusive(fmt.Sprintf("open-during-create interleaving not produced: err=%v fired=%v", err, fired))
			return
		}
		s.steps = append(s.steps, "OpenLedger(l1) counted the bucket before CreateLedger(l2) committed")
		r.Count("open_during_create_interleavings", 1)
		for k := 0; k < 1+rng.Intn(3); k++ {
			s.run(rng, l2, "l2", bucket, "", 11)
		}
		// the racing request's own statements: it decided with a stale count; observed and counted, judged
		// under a signature of its own (a window that closes with the next request)
		s.run(rng, racing, "l1", bucket, "by-the-request-that-raced-a-ledger-creation", -1)
		// every later request re-opens the ledger: all of its statements must be scoped
		for k := 0; k < 2+rng.Intn(3); k++ {
			st, _, err := s.d.OpenLedger(s.ctx, []string{"l1", "l2"}[k%2])
			if err != nil {
				r.Inconclusive("OpenLedger: " + err.Error())
				return
			}
			for j := 0; j < 2; j++ {
				s.run(rng, st, []string{"l1", "l2"}[k%2], bucket, "after-a-ledger-creation-raced-an-open", -1)
			}
		}
		r.Eval("opencreate|"+fmt.Sprint(len(s.steps)), true)
	})

	// soft-deleted bucket: the deleted ledgers' rows are still in the bucket tables
	r.ForEach("softdel", r.N(150, 2500), 0, func(c *core.Case) {
		rng := c.Rng
		s := c19NewSession(c, r, "softdel")
		defer s.db.Close()
		sys := systemstore.New(s.db.DB)
		const bucket = "shared"
		type handle struct {
			name string
			st   *ledgerstore.Store
		}
		var old []handle
		nOld := 1 + rng.Intn(2)
		for _, nm := range []string{"la", "lb"}[:nOld] {
			st := s.create(nm, bucket)
			if st == nil {
				return
			}
			old = append(old, handle{nm, st})
		}
		if s.create("ls", "solo") == nil {
			return
		}
		// write on all of them: overlapping accounts, different amounts
		for _, h := range old {
			for k := 0; k < 1+rng.Intn(3); k++ {
				s.run(rng, h.st, h.name, bucket, "", 11)
			}
			for k := 0; k < rng.Intn(4); k++ {
				s.run(rng, h.st, h.name, bucket, "", -1)
			}
		}
		if err := sys.DeleteBucket(s.ctx, bucket); err != nil {
			r.Inconclusive("DeleteBucket over pgshim failed: " + err.Error())
			return
		}
		s.steps = append(s.steps, "DeleteBucket "+bucket)
		if rows, live := s.db.BucketRows(bucket); rows != nOld || live != 0 {
			r.Inconclusive(fmt.Sprintf("scripted DeleteBucket left rows=%d live=%d, want %d/0", rows, live, nOld))
			return
		}
		r.Count("buckets_soft_deleted", 1)
		// a soft-deleted ledger cannot be opened any more, its rows stay
		if _, _, err := s.d.OpenLedger(s.ctx, old[0].name); err == nil {
			r.Count("deleted_ledger_still_opens", 1)
		} else {
			r.Count("deleted_ledger_open_refused", 1)
		}
		fresh := s.create("lc", bucket)
		if fresh == nil {
			return
		}
		const phase = "after-bucket-soft-delete"
		// every kind of read / write / script on the new ledger, in a random order, then more
		for _, k := range rng.Perm(c19NKinds) {
			s.run(rng, fresh, "lc", bucket, phase, k)
		}
		if st, _, err := s.d.OpenLedger(s.ctx, "lc"); err == nil {
			s.steps = append(s.steps, "open lc")
			for k := 0; k < 6; k++ {
				s.run(rng, st, "lc", bucket, phase, -1)
			}
		} else {
			r.Inconclusive("OpenLedger(lc) over pgshim failed: " + err.Error())
			return
		}
		// handles of the deleted ledgers kept by in-flight requests
		for _, h := range old {
			for k := 0; k < 3; k++ {
				s.run(rng, h.st, h.name, bucket, phase, -1)
			}
		}
		// restore
		if rng.Intn(3) != 0 {
			if err := sys.RestoreBucket(s.ctx, bucket); err != nil {
				r.Inconclusive("RestoreBucket over pgshim failed: " + err.Error())
				return
			}
			s.steps = append(s.steps, "RestoreBucket "+bucket)
			// RestoreBucket restores every deleted row of the bucket; lc was never deleted
			if rows, live := s.db.BucketRows(bucket); rows != nOld+1 || live != nOld+1 {
				r.Inconclusive(fmt.Sprintf("scripted RestoreBucket left rows=%d live=%d", rows, live))
				return
			}
			r.Count("buckets_restored", 1)
			for _, nm := range append([]string{"lc"}, []string{"la", "lb"}[:nOld]...) {
				st, _, err := s.d.OpenLedger(s.ctx, nm)
				if err != nil {
					c.Violation("C19/restored-ledger-cannot-be-opened", map[string]any{"ledger": nm, "error": err.Error(), "steps": s.steps})
					continue
				}
				s.steps = append(s.steps, "open "+nm)
				for k := 0; k < 8; k++ {
					s.run(rng, st, nm, bucket, "after-bucket-restore", -1)
				}
				s.run(rng, st, nm, bucket, "after-bucket-restore", 22)
			}
		} else {
			// hard delete (retention worker): the rows and the bucket's tables are gone, a ledger
			// created there afterwards is really alone - negative control of the ground truth
			if err := sys.DeleteBucket(s.ctx, bucket); err != nil {
				r.Inconclusive("DeleteBucket over pgshim failed: " + err.Error())
				return
			}
			if err := sys.HardDeleteBucket(s.ctx, bucket); err != nil {
				r.Inconclusive("HardDeleteBucket over pgshim failed: " + err.Error())
				return
			}
			s.steps = append(s.steps, "DeleteBucket+HardDeleteBucket "+bucket)
			if rows, _ := s.db.BucketRows(bucket); rows != 0 {
				r.Inconclusive("scripted HardDeleteBucket left rows")
				return
			}
			r.Count("buckets_hard_deleted", 1)
			st := s.create("ld", bucket)
			if st == nil {
				return
			}
			for k := 0; k < 10; k++ {
				s.run(rng, st, "ld", bucket, "after-bucket-hard-delete", -1)
			}
		}
		s.finish()
		if c.Index < 2 {
			r.Sample(map[string]any{"steps": s.steps})
		}
	})

	// controller half
	m := r.N(80, 1500)
	r.ForEach("ctrl", m, 0, func(c *core.Case) {
		rng := c.Rng
		e := sim.NewEnv(sim.Options{})
		defer e.Close()
		names := []string{"l1", "l2", "l3", "alone"}
		_ = e.CreateLedger("l1", "shared", nil)
		_ = e.CreateLedger("alone", "solo", nil)
		live := []string{"l1", "alone"}
		states := map[string]*sim.GenState{"l1": {}, "l2": {}, "l3": {}, "alone": {}}
		for i := 0; i < 40; i++ {
			if i == 8 {
				_ = e.CreateLedger("l2", "shared", nil)
				live = append(live, "l2")
			}
			if i == 20 && rng.Intn(2) == 0 {
				_ = e.CreateLedger("l3", "shared", nil)
				live = append(live, "l3")
			}
			target := live[rng.Intn(len(live))]
			before := map[string]string{}
			for _, n := range live {
				if n != target {
					before[n] = e.C.Snapshot(n).Digest()
				}
			}
			op := sim.GenOp(rng, states[target])
			out := e.Apply(target, op)
			if out.OK() && out.Created != nil && !op.DryRun {
				states[target].TxIDs = append(states[target].TxIDs, *out.Created.Transaction.ID)
			}
			r.Count("controller_operations", 1)
			for n, dg := range before {
				if e.C.Snapshot(n).Digest() != dg {
					c.Violation("C19/operation-on-one-ledger-changed-another:"+op.Kind, map[string]any{"target": target, "changed": n, "op": op})
				}
			}
		}
		// reads of one ledger never return entities of another: transaction ids / accounts are per ledger
		for _, n := range live {
			cur, err := e.Ctrl(n).ListTransactions(e.Ctx, common.InitialPaginatedQuery[any]{PageSize: 100})
			if err != nil {
				continue
			}
			want := map[uint64]string{}
			for _, t := range e.C.CommittedTransactions(n) {
				b, _ := json.Marshal(t.Postings)
				want[*t.ID] = string(b)
			}
			for _, t := range cur.Data {
				b, _ := json.Marshal(t.Postings)
				if want[*t.ID] != string(b) {
					c.Violation("C19/read-returned-an-entity-of-another-ledger", map[string]any{"ledger": n, "id": *t.ID})
				}
			}
		}
		r.Eval("ctrl|"+strings.Join(live, ","), true)
		_ = names
	})
}
