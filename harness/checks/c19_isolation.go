package checks

import (
	"context"
	"encoding/json"
	"fmt"
	"math/big"
	"math/rand"
	"strings"

	"github.com/formancehq/go-libs/v5/pkg/storage/bun/paginate"
	"github.com/formancehq/go-libs/v5/pkg/types/metadata"
	"github.com/formancehq/go-libs/v5/pkg/types/pointer"
	"github.com/formancehq/go-libs/v5/pkg/types/time"

	ledger "github.com/formancehq/ledger/internal"
	"github.com/formancehq/ledger/internal/storage/common"
	ledgerstore "github.com/formancehq/ledger/internal/storage/ledger"

	"github.com/formancehq/ledger/verifharness/core"
	"github.com/formancehq/ledger/verifharness/pgshim"
	"github.com/formancehq/ledger/verifharness/realstore"
	"github.com/formancehq/ledger/verifharness/sim"
)

func init() {
	core.Register(&core.Check{
		ID: "C19", Level: "exploration",
		Rule: "(trace) the REAL storage driver + ledger store factory + every resource handler and write method run over a recording SQL driver with a scripted _system.ledgers table: random sequences of CreateLedger / OpenLedger over 1-3 ledgers sharing a bucket plus one alone, ledger creation mid-history, store handles kept across creations; once >=2 ledgers share the bucket every statement emitted by a store of ledger L must constrain `ledger = 'L'` in each (sub)select / update scope touching a bucket table and insert rows with ledger L (paren-aware scanner); nothing is asserted while L is alone. (controller) random interleaved histories on 2-3 ledgers of one bucket with overlapping accounts / references / idempotency keys through the real controller stack: an operation on one ledger never changes the snapshot of another. Distinct = (ledger layout, method, query shape); non-trivial = statement emitted while the bucket was shared",
		Assumptions: []string{"that a scoped statement returns only that ledger's rows is Postgres' business; bucket DDL (migrations, AddLedger) is replaced by a fake bucket", seqAssume},
		Run:  runC19,
	})
}

func c19RandomOp(ctx context.Context, rng *rand.Rand, st *ledgerstore.Store) string {
	pit := realstore.GenPIT(rng)
	expand := func(opts ...string) []string {
		var out []string
		for _, o := range opts {
			if rng.Intn(3) == 0 {
				out = append(out, o)
			}
		}
		return out
	}
	order := pointer.For(paginate.Order(rng.Intn(2)))
	switch k := rng.Intn(22); k {
	case 0:
		q := common.ResourceQuery[any]{Builder: realstore.GenFilter(rng, "transactions", 3), PIT: pit, Expand: expand("volumes", "effectiveVolumes")}
		_, _ = st.Transactions().Paginate(ctx, common.InitialPaginatedQuery[any]{PageSize: 5, Order: order, Options: q})
		return "Transactions.Paginate"
	case 1:
		_, _ = st.Transactions().Count(ctx, common.ResourceQuery[any]{Builder: realstore.GenFilter(rng, "transactions", 2), PIT: pit})
		return "Transactions.Count"
	case 2:
		_, _ = st.Transactions().GetOne(ctx, common.ResourceQuery[any]{Builder: realstore.GenFilter(rng, "transactions", 1), PIT: pit, Expand: expand("volumes", "effectiveVolumes")})
		return "Transactions.GetOne"
	case 3:
		q := common.ResourceQuery[any]{Builder: realstore.GenFilter(rng, "accounts", 3), PIT: pit, Expand: expand("volumes", "effectiveVolumes")}
		_, _ = st.Accounts().Paginate(ctx, common.InitialPaginatedQuery[any]{PageSize: 5, Order: order, Options: q})
		return "Accounts.Paginate"
	case 4:
		_, _ = st.Accounts().Count(ctx, common.ResourceQuery[any]{Builder: realstore.GenFilter(rng, "accounts", 2), PIT: pit})
		return "Accounts.Count"
	case 5:
		_, _ = st.Accounts().GetOne(ctx, common.ResourceQuery[any]{Builder: realstore.GenFilter(rng, "accounts", 1), PIT: pit, Expand: expand("volumes", "effectiveVolumes")})
		return "Accounts.GetOne"
	case 6:
		q := common.ResourceQuery[ledger.GetVolumesOptions]{Builder: realstore.GenFilter(rng, "volumes", 3), PIT: pit, OOT: realstore.GenPIT(rng),
			Opts: ledger.GetVolumesOptions{UseInsertionDate: rng.Intn(2) == 0, GroupLvl: rng.Intn(3)}}
		_, _ = st.Volumes().Paginate(ctx, common.InitialPaginatedQuery[ledger.GetVolumesOptions]{PageSize: 5, Options: q})
		return "Volumes.Paginate"
	case 7:
		q := common.ResourceQuery[ledger.GetAggregatedVolumesOptions]{Builder: realstore.GenFilter(rng, "aggregated", 3), PIT: pit, Opts: ledger.GetAggregatedVolumesOptions{UseInsertionDate: rng.Intn(2) == 0}}
		_, _ = st.AggregatedVolumes().GetOne(ctx, q)
		return "AggregatedVolumes.GetOne"
	case 8:
		_, _ = st.Logs().Paginate(ctx, common.InitialPaginatedQuery[any]{PageSize: 5, Order: order, Options: common.ResourceQuery[any]{Builder: realstore.GenFilter(rng, "logs", 2)}})
		return "Logs.Paginate"
	case 9:
		_, _ = st.Schemas().Paginate(ctx, common.InitialPaginatedQuery[any]{PageSize: 5})
		return "Schemas.Paginate"
	case 10:
		_, _ = st.GetBalances(ctx, ledgerstore.BalanceQuery{"bank": {"USD", "EUR/2"}, "users:001": {"USD"}})
		return "GetBalances"
	case 11:
		tx := ledger.NewTransaction().WithPostings(ledger.NewPosting("world", "bank", "USD", big.NewInt(10)), ledger.NewPosting("bank", "users:001", "USD", big.NewInt(3))).WithReference("r1")
		_ = st.CommitTransaction(ctx, &tx)
		return "CommitTransaction"
	case 12:
		_ = st.UpsertAccounts(ctx, ledger.AccountWithDefaultMetadata{Account: &ledger.Account{Address: "bank", Metadata: metadata.Metadata{"k": "v"}}})
		return "UpsertAccounts"
	case 13:
		l := ledger.NewLog(ledger.SavedMetadata{TargetType: ledger.MetaTargetTypeAccount, TargetID: "bank", Metadata: metadata.Metadata{"k": "v"}})
		l.IdempotencyKey = "ik"
		_ = st.InsertLog(ctx, &l)
		return "InsertLog"
	case 14:
		_, _, _ = st.RevertTransaction(ctx, 1, time.Time{})
		return "RevertTransaction"
	case 15:
		_, _, _ = st.UpdateTransactionMetadata(ctx, 1, metadata.Metadata{"k": "v"}, time.Time{})
		return "UpdateTransactionMetadata"
	case 16:
		_, _, _ = st.DeleteTransactionMetadata(ctx, 1, "k", time.Time{})
		return "DeleteTransactionMetadata"
	case 17:
		_ = st.UpdateAccountsMetadata(ctx, map[string]metadata.Metadata{"bank": {"k": "v"}}, time.Now())
		return "UpdateAccountsMetadata"
	case 18:
		_ = st.DeleteAccountMetadata(ctx, "bank", "k")
		return "DeleteAccountMetadata"
	case 19:
		_, _ = st.ReadLogWithIdempotencyKey(ctx, "ik")
		return "ReadLogWithIdempotencyKey"
	case 20:
		_, _ = st.FindSchema(ctx, "v1")
		_, _ = st.FindLatestSchemaVersion(ctx)
		return "FindSchema"
	default:
		sc := ledger.Schema{Version: "v1"}
		_ = st.InsertSchema(ctx, &sc)
		return "InsertSchema"
	}
}

func runC19(r *core.Run) {
	n := r.N(400, 8000)
	r.Floor("statements_checked_while_shared", 1000)
	r.ForEach("trace", n, 0, func(c *core.Case) {
		rng := c.Rng
		db := realstore.NewSysDB()
		defer db.Close()
		db.Responder = realstore.NewTables().Respond
		d := db.NewDriver()
		ctx := context.Background()
		type handle struct {
			name, bucket string
			st           *ledgerstore.Store
		}
		var handles []handle
		inBucket := map[string]int{}
		created := map[string]string{}
		names := []string{"la", "lb", "lc"}
		var steps []string
		create := func(name, bucket string) {
			l := ledger.MustNewWithDefault(name)
			l.Bucket = bucket
			st, err := d.CreateLedger(ctx, &l)
			if err != nil {
				c.R.Inconclusive("CreateLedger over pgshim failed: " + err.Error())
				return
			}
			created[name] = bucket
			inBucket[bucket]++
			handles = append(handles, handle{name, bucket, st})
			steps = append(steps, "create "+name+"@"+bucket)
		}
		create("ls", "solo")
		create(names[0], "shared")
		nSteps := 12 + rng.Intn(20)
		for i := 0; i < nSteps; i++ {
			switch x := rng.Intn(10); {
			case x == 0 && len(created) < 4:
				for _, nm := range names {
					if _, ok := created[nm]; !ok {
						create(nm, "shared")
						break
					}
				}
			case x == 1:
				// reopen an existing ledger
				h := handles[rng.Intn(len(handles))]
				st, _, err := d.OpenLedger(ctx, h.name)
				if err != nil {
					c.R.Inconclusive("OpenLedger over pgshim failed: " + err.Error())
					return
				}
				handles = append(handles, handle{h.name, h.bucket, st})
				steps = append(steps, "open "+h.name)
			default:
				h := handles[rng.Intn(len(handles))]
				db.Shim.ResetLog()
				method := c19RandomOp(ctx, rng, h.st)
				shared := inBucket[h.bucket] >= 2
				r.Seen("methods", method)
				for _, stmt := range db.Shim.Log() {
					if stmt.Kind != pgshim.KExec && stmt.Kind != pgshim.KQuery {
						continue
					}
					r.Count("statements_recorded", 1)
					if !shared {
						continue
					}
					r.Count("statements_checked_while_shared", 1)
					if probs := realstore.ScanScoped(stmt.SQL, h.bucket, h.name); len(probs) > 0 {
						c.Violation("C19/unscoped-statement-in-shared-bucket:"+method, map[string]any{"ledger": h.name, "bucket": h.bucket, "ledgers_in_bucket": inBucket[h.bucket], "steps": steps, "sql": stmt.SQL, "problems": probs})
					}
				}
				r.Eval(fmt.Sprintf("%d|%s|%v", inBucket[h.bucket], method, shared), shared)
			}
		}
		if c.Index < 2 {
			r.Sample(map[string]any{"steps": steps})
		}
	})
	// controller half
	m := r.N(80, 1500)
	r.ForEach("ctrl", m, 0, func(c *core.Case) {
		rng := c.Rng
		e := sim.NewEnv(sim.Options{})
		defer e.Close()
		names := []string{"l1", "l2", "l3", "alone"}
		_ = e.CreateLedger("l1", "shared", nil)
		_ = e.CreateLedger("alone", "solo", nil)
		live := []string{"l1", "alone"}
		states := map[string]*sim.GenState{"l1": {}, "l2": {}, "l3": {}, "alone": {}}
		for i := 0; i < 40; i++ {
			if i == 8 {
				_ = e.CreateLedger("l2", "shared", nil)
				live = append(live, "l2")
			}
			if i == 20 && rng.Intn(2) == 0 {
				_ = e.CreateLedger("l3", "shared", nil)
				live = append(live, "l3")
			}
			target := live[rng.Intn(len(live))]
			before := map[string]string{}
			for _, n := range live {
				if n != target {
					before[n] = e.C.Snapshot(n).Digest()
				}
			}
			op := sim.GenOp(rng, states[target])
			out := e.Apply(target, op)
			if out.OK() && out.Created != nil && !op.DryRun {
				states[target].TxIDs = append(states[target].TxIDs, *out.Created.Transaction.ID)
			}
			r.Count("controller_operations", 1)
			for n, dg := range before {
				if e.C.Snapshot(n).Digest() != dg {
					c.Violation("C19/operation-on-one-ledger-changed-another:"+op.Kind, map[string]any{"target": target, "changed": n, "op": op})
				}
			}
		}
		// reads of one ledger never return entities of another: transaction ids / accounts are per ledger
		for _, n := range live {
			cur, err := e.Ctrl(n).ListTransactions(e.Ctx, common.InitialPaginatedQuery[any]{PageSize: 100})
			if err != nil {
				continue
			}
			want := map[uint64]string{}
			for _, t := range e.C.CommittedTransactions(n) {
				b, _ := json.Marshal(t.Postings)
				want[*t.ID] = string(b)
			}
			for _, t := range cur.Data {
				b, _ := json.Marshal(t.Postings)
				if want[*t.ID] != string(b) {
					c.Violation("C19/read-returned-an-entity-of-another-ledger", map[string]any{"ledger": n, "id": *t.ID})
				}
			}
		}
		r.Eval("ctrl|"+strings.Join(live, ","), true)
		_ = names
	})
}
