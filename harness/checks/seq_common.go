package checks

import (
	"fmt"
	"math/rand"
	"strings"

	"github.com/formancehq/ledger/pkg/features"

	"github.com/formancehq/ledger/verifharness/core"
	"github.com/formancehq/ledger/verifharness/sim"
)

// seqConfig tunes the shared sequential-history workload for one property.
type seqConfig struct {
	Prop       string
	Histories  [2]int // quick, thorough
	OpsPer     [2]int
	Tune       func(st *sim.GenState, rng *rand.Rand)
	Mutate     func(op *sim.Op, rng *rand.Rand, st *sim.GenState) // per-op adjustments (dry-run share, ...)
	Features   func(rng *rand.Rand) features.FeatureSet
	After      func(c *core.Case, m *sim.Mirror) // extra end-of-history monitors
	NonTrivial func(m *sim.Mirror) bool
	EnvOpts    sim.Options
}

const seqAssume = "memstore (in-memory implementation of controller/ledger.Store, transcribed from the storage SQL) is trusted base; SQL text, triggers and migrations are not executed"

func randFeatures(rng *rand.Rand) features.FeatureSet {
	fs := features.FeatureSet{}
	for k, vals := range features.FeatureConfigurations {
		fs[k] = vals[rng.Intn(len(vals))]
	}
	if fs[features.FeatureHashLogs] == "ASYNC" && rng.Intn(2) == 0 {
		fs[features.FeatureHashLogs] = "SYNC"
	}
	return fs
}

// runSeq executes generated sequential histories through the real controller
// stack over memstore with the Mirror monitors, reporting the findings that
// refute cfg.Prop.
func runSeq(r *core.Run, cfg seqConfig) {
	nh := r.N(cfg.Histories[0], cfg.Histories[1])
	nops := r.N(cfg.OpsPer[0], cfg.OpsPer[1])
	r.Floor("committed_writes", int64(nh))
	r.Floor("distinct_nontrivial", 2)
	r.ForEach("hist", nh, 0, func(c *core.Case) {
		e := sim.NewEnv(cfg.EnvOpts)
		defer e.Close()
		var fs features.FeatureSet
		if cfg.Features != nil {
			fs = cfg.Features(c.Rng)
		} else if c.Rng.Intn(3) == 0 {
			fs = randFeatures(c.Rng)
		}
		if err := e.CreateLedger("l1", "_default", fs); err != nil {
			c.R.Inconclusive("cannot create ledger: " + err.Error())
			return
		}
		m := sim.NewMirror(e, "l1")
		st := &sim.GenState{}
		if cfg.Tune != nil {
			cfg.Tune(st, c.Rng)
		}
		var shapes []string
		for i := 0; i < nops; i++ {
			op := sim.GenOp(c.Rng, st)
			if c.Rng.Intn(100) < 20 {
				op.DryRun = true
			}
			if cfg.Mutate != nil {
				cfg.Mutate(&op, c.Rng, st)
			}
			out := m.Step(op)
			if out.OK() && !op.DryRun {
				if out.Created != nil && !out.Hit {
					st.TxIDs = append(st.TxIDs, *out.Created.Transaction.ID)
				}
				if out.Reverted != nil && !out.Hit {
					st.TxIDs = append(st.TxIDs, *out.Reverted.RevertTransaction.ID)
				}
			}
			shapes = append(shapes, op.Shape()+"="+out.Class)
			r.Seen("op_shapes", op.Shape())
			r.Seen("outcome_classes", op.Kind+":"+out.Class)
		}
		if cfg.After != nil {
			cfg.After(c, m)
		}
		nt := m.Committed >= 1 && (m.Failed+m.DryRuns) >= 1
		if cfg.NonTrivial != nil {
			nt = cfg.NonTrivial(m)
		}
		r.Eval(strings.Join(shapes, "|"), nt)
		r.Count("operations", int64(m.Steps))
		r.Count("committed_writes", int64(m.Committed))
		r.Count("failed_writes", int64(m.Failed))
		r.Count("dry_runs", int64(m.DryRuns))
		r.Count("idempotency_hits", int64(m.Hits))
		r.Count("full_read_comparisons", int64(m.ReadsChecked))
		r.Count("ambiguous_excluded", int64(m.Ambiguous))
		for k, v := range e.C.Stats() {
			r.Count(k, v)
		}
		if c.Index < 2 {
			n := len(m.History)
			if n > 6 {
				n = 6
			}
			r.Sample(map[string]any{"history_prefix": m.History[:n], "outcomes": shapes[:n], "features": fmt.Sprint(fs)})
		}
		for _, f := range m.FindingsFor(cfg.Prop) {
			c.Violation(f.Sig, map[string]any{"finding": f, "features": fmt.Sprint(fs), "history": m.History})
		}
		for _, f := range m.Findings {
			if f.Prop != cfg.Prop {
				r.Seen("findings_for_other_properties", f.Sig)
			}
		}
	})
}
