package checks

import (
	"context"
	"errors"
	"fmt"
	"math/big"
	"regexp"
	"sort"
	"strings"

	"github.com/formancehq/go-libs/v5/pkg/query"
	"github.com/formancehq/go-libs/v5/pkg/types/metadata"
	"github.com/formancehq/go-libs/v5/pkg/types/time"

	ledger "github.com/formancehq/ledger/internal"
	"github.com/formancehq/ledger/internal/storage/common"
	ledgerstore "github.com/formancehq/ledger/internal/storage/ledger"
	"github.com/formancehq/ledger/pkg/features"

	"github.com/formancehq/ledger/verifharness/core"
	"github.com/formancehq/ledger/verifharness/pgshim"
	"github.com/formancehq/ledger/verifharness/realstore"
	"github.com/formancehq/ledger/verifharness/sim"
)

func init() {
	core.Register(&core.Check{
		ID: "C35", Level: "exploration",
		Rule: "all 48 feature combinations x the same generated history: (trace) the history is replayed through the REAL storage/ledger.Store (CommitTransaction, UpsertAccounts, InsertLog, RevertTransaction, metadata updates) over a SQL driver that answers its INSERT..RETURNING statements identically; the statement sequences on transactions / accounts_volumes / accounts / logs must be identical across combinations, INSERT INTO moves present iff MOVES_HISTORY=ON; (gates) each read that needs a feature (PIT/OOT volumes, accounts expand=volumes/effectiveVolumes, PIT balance filter, PIT aggregated balances in both date modes, transactions expand=effectiveVolumes) must be refused with the missing-feature / invalid-query error and emit no SQL on moves when the feature is off, and accepted when on; (controller) the same history through the real controller stack over memstore under every combination yields identical transactions, balances, metadata and log payloads, with hashes present iff HASH_LOGS=SYNC. Distinct = (feature set, probe); non-trivial = feature set differs from the default",
		Assumptions: []string{"what the per-feature triggers installed by AddLedger do is Postgres' business", seqAssume},
		Run:  runC35,
	})
}

func allFeatureSets() []features.FeatureSet {
	keys := make([]string, 0)
	for k := range features.FeatureConfigurations {
		keys = append(keys, k)
	}
	sort.Strings(keys)
	sets := []features.FeatureSet{{}}
	for _, k := range keys {
		var next []features.FeatureSet
		for _, s := range sets {
			for _, v := range features.FeatureConfigurations[k] {
				next = append(next, s.With(k, v))
			}
		}
		sets = next
	}
	return sets
}

var reTableOf = regexp.MustCompile(`(?i)^(?:WITH "ins" AS \()?\s*(?:INSERT INTO|UPDATE|DELETE FROM)\s+"[^"]+"\.(\w+)`)

// an INSERT whose VALUES list is empty is a syntax error for Postgres: the write fails under this feature set only
var reEmptyValues = regexp.MustCompile(`(?i)\bvalues\s*(\(\s*\))?\s*(returning\b|on\s+conflict\b|$)`)

func runC35(r *core.Run) {
	sets := allFeatureSets()
	nh := r.N(6, 60)
	r.Floor("feature_sets_compared", int64(len(sets)))
	r.ForEach("trace", nh, 0, func(c *core.Case) {
		rng := c.Rng
		// fixed history for this case
		type step struct {
			kind string
			tx   ledger.Transaction
		}
		var hist []step
		for i := 0; i < 6+rng.Intn(10); i++ {
			switch rng.Intn(5) {
			case 0, 1, 2:
				var ps []ledger.Posting
				for k := 0; k < 1+rng.Intn(3); k++ {
					ps = append(ps, ledger.NewPosting([]string{"world", "bank", "users:001"}[rng.Intn(3)], []string{"bank", "users:001", "fees"}[rng.Intn(3)], "USD", sim.Amount(rng, true)))
				}
				if rng.Intn(5) == 0 {
					// a transaction that moves nothing (all amounts zero) is still a transaction
					for k := range ps {
						ps[k].Amount = big.NewInt(0)
					}
				}
				hist = append(hist, step{kind: "commit", tx: ledger.NewTransaction().WithPostings(ps...).WithMetadata(metadata.Metadata{"k": "v"})})
			case 3:
				hist = append(hist, step{kind: "revert"})
			default:
				hist = append(hist, step{kind: "meta"})
			}
		}
		var ref []string
		var refSet string
		for _, fs := range sets {
			db := realstore.NewSysDB()
			db.Responder = realstore.NewTables().Respond
			d := db.NewDriver()
			ctx := context.Background()
			l := ledger.MustNewWithDefault("l1")
			l.Features = fs
			st, err := d.CreateLedger(ctx, &l)
			if err != nil {
				db.Close()
				r.Inconclusive("CreateLedger: " + err.Error())
				return
			}
			db.Shim.ResetLog()
			for _, h := range hist {
				switch h.kind {
				case "commit":
					tx := h.tx
					tx.Postings = append(ledger.Postings(nil), h.tx.Postings...)
					_ = st.CommitTransaction(ctx, &tx)
					_ = st.UpsertAccounts(ctx, tx.AccountsWithDefaultMetadata(nil, nil)...)
					lg := ledger.NewLog(ledger.CreatedTransaction{Transaction: tx})
					_ = st.InsertLog(ctx, &lg)
				case "revert":
					_, _, _ = st.RevertTransaction(ctx, 1, time.Time{})
				case "meta":
					_, _, _ = st.UpdateTransactionMetadata(ctx, 1, metadata.Metadata{"m": "1"}, time.Time{})
					_ = st.UpdateAccountsMetadata(ctx, map[string]metadata.Metadata{"bank": {"m": "1"}}, time.Now())
				}
			}
			var seq []string
			movesInserts := 0
			for _, s := range db.Shim.Log() {
				if s.Kind != pgshim.KExec && s.Kind != pgshim.KQuery {
					continue
				}
				m := reTableOf.FindStringSubmatch(strings.TrimSpace(s.SQL))
				if m == nil {
					continue
				}
				switch m[1] {
				case "moves":
					movesInserts++
					if reEmptyValues.MatchString(s.SQL) {
						c.Violation("C35/insert-into-moves-without-any-row", map[string]any{"features": fs.String(), "sql": s.SQL})
					}
				case "transactions", "accounts_volumes", "accounts", "logs":
					q := s.SQL
					// the UpdateAccountsMetadata timestamp is wall-clock in this harness call: blank it
					q = regexp.MustCompile(`'\d{4}-\d\d-\d\d[ T]\d\d:\d\d:\d\d[^']*'`).ReplaceAllString(q, "'<ts>'")
					if m[1] == "logs" {
						// the data column legitimately carries postCommitEffectiveVolumes only when that
						// feature is on; the memento (what is hashed and replayed) must be identical
						q = regexp.MustCompile(`'\{"transaction":.*?\}', '\\x`).ReplaceAllString(q, "'<data>', '\\x")
					}
					seq = append(seq, q)
				}
			}
			db.Close()
			r.Count("feature_sets_compared", 1)
			r.Count("statements_compared", int64(len(seq)))
			r.Eval(fs.String()+"|trace", fs.String() != features.DefaultFeatures.String())
			commits := 0
			for _, h := range hist {
				if h.kind == "commit" {
					commits++
				}
			}
			wantMoves := 0
			if fs[features.FeatureMovesHistory] == "ON" {
				wantMoves = commits
			}
			if movesInserts != wantMoves {
				c.Violation(fmt.Sprintf("C35/moves-inserts-%d-but-MOVES_HISTORY=%s-with-%d-commits", movesInserts, fs[features.FeatureMovesHistory], commits), map[string]any{"features": fs.String()})
			}
			if ref == nil {
				ref, refSet = seq, fs.String()
				continue
			}
			if len(seq) != len(ref) {
				c.Violation("C35/statement-count-on-core-tables-differs-between-feature-sets", map[string]any{"a": refSet, "b": fs.String(), "na": len(ref), "nb": len(seq)})
				continue
			}
			for i := range seq {
				if seq[i] != ref[i] {
					c.Violation("C35/statement-on-core-tables-differs-between-feature-sets", map[string]any{"a": refSet, "b": fs.String(), "index": i, "sql_a": ref[i], "sql_b": seq[i]})
					break
				}
			}
		}
		if c.Index < 1 {
			r.Sample(map[string]any{"history_steps": len(hist), "core_statements": len(ref), "first": firstOr(ref)})
		}
	})

	// ---- gates: reads that need a feature
	type probe struct {
		name string
		need map[string]string
		run  func(ctx context.Context, st *ledgerstore.Store) error
	}
	pit := time.New(time.Now().Time)
	probes := []probe{
		{"volumes-pit", map[string]string{features.FeatureMovesHistory: "ON"}, func(ctx context.Context, st *ledgerstore.Store) error {
			_, err := st.Volumes().Paginate(ctx, common.InitialPaginatedQuery[ledger.GetVolumesOptions]{PageSize: 5, Options: common.ResourceQuery[ledger.GetVolumesOptions]{PIT: &pit}})
			return err
		}},
		{"volumes-oot", map[string]string{features.FeatureMovesHistory: "ON"}, func(ctx context.Context, st *ledgerstore.Store) error {
			_, err := st.Volumes().Paginate(ctx, common.InitialPaginatedQuery[ledger.GetVolumesOptions]{PageSize: 5, Options: common.ResourceQuery[ledger.GetVolumesOptions]{OOT: &pit, Opts: ledger.GetVolumesOptions{UseInsertionDate: true}}})
			return err
		}},
		{"accounts-expand-volumes", map[string]string{features.FeatureMovesHistory: "ON"}, func(ctx context.Context, st *ledgerstore.Store) error {
			_, err := st.Accounts().Paginate(ctx, common.InitialPaginatedQuery[any]{PageSize: 5, Options: common.ResourceQuery[any]{Expand: []string{"volumes"}, PIT: &pit}})
			return err
		}},
		{"accounts-expand-effective-volumes", map[string]string{features.FeatureMovesHistoryPostCommitEffectiveVolumes: "SYNC"}, func(ctx context.Context, st *ledgerstore.Store) error {
			_, err := st.Accounts().Paginate(ctx, common.InitialPaginatedQuery[any]{PageSize: 5, Options: common.ResourceQuery[any]{Expand: []string{"effectiveVolumes"}, PIT: &pit}})
			return err
		}},
		{"accounts-pit-balance-filter", map[string]string{features.FeatureMovesHistory: "ON"}, func(ctx context.Context, st *ledgerstore.Store) error {
			_, err := st.Accounts().Paginate(ctx, common.InitialPaginatedQuery[any]{PageSize: 5, Options: common.ResourceQuery[any]{PIT: &pit, Builder: query.Gt("balance[USD]", big.NewInt(0))}})
			return err
		}},
		{"aggregated-pit-insertion-date", map[string]string{features.FeatureMovesHistory: "ON"}, func(ctx context.Context, st *ledgerstore.Store) error {
			_, err := st.AggregatedVolumes().GetOne(ctx, common.ResourceQuery[ledger.GetAggregatedVolumesOptions]{PIT: &pit, Opts: ledger.GetAggregatedVolumesOptions{UseInsertionDate: true}})
			return err
		}},
		{"aggregated-pit-effective-date", map[string]string{features.FeatureMovesHistoryPostCommitEffectiveVolumes: "SYNC"}, func(ctx context.Context, st *ledgerstore.Store) error {
			_, err := st.AggregatedVolumes().GetOne(ctx, common.ResourceQuery[ledger.GetAggregatedVolumesOptions]{PIT: &pit})
			return err
		}},
		{"transactions-expand-effective-volumes", map[string]string{features.FeatureMovesHistoryPostCommitEffectiveVolumes: "SYNC"}, func(ctx context.Context, st *ledgerstore.Store) error {
			_, err := st.Transactions().Paginate(ctx, common.InitialPaginatedQuery[any]{PageSize: 5, Options: common.ResourceQuery[any]{Expand: []string{"effectiveVolumes"}}})
			return err
		}},
	}
	r.ForEach("gates", len(sets), 0, func(c *core.Case) {
		fs := sets[c.Index]
		db := realstore.NewSysDB()
		defer db.Close()
		d := db.NewDriver()
		ctx := context.Background()
		l := ledger.MustNewWithDefault("l1")
		l.Features = fs
		st, err := d.CreateLedger(ctx, &l)
		if err != nil {
			r.Inconclusive("CreateLedger: " + err.Error())
			return
		}
		for _, p := range probes {
			db.Shim.ResetLog()
			err := p.run(ctx, st)
			enabled := true
			for k, v := range p.need {
				if fs[k] != v {
					enabled = false
				}
			}
			touchesMoves := false
			for _, s := range db.Shim.Log() {
				if strings.Contains(s.SQL, `".moves`) {
					touchesMoves = true
				}
			}
			refused := err != nil && (errors.Is(err, ledgerstore.ErrMissingFeature{}) || errors.Is(err, common.ErrInvalidQuery{}))
			r.Eval(fs.String()+"|"+p.name, fs.String() != features.DefaultFeatures.String())
			r.Count("gate_probes", 1)
			r.Seen("gate_outcomes", fmt.Sprintf("%s enabled=%v refused=%v", p.name, enabled, refused))
			detail := map[string]any{"features": fs.String(), "probe": p.name, "needs": p.need, "error": fmt.Sprint(err), "sql_touches_moves": touchesMoves}
			if !enabled && !refused {
				c.Violation("C35/read-needing-a-disabled-feature-not-refused:"+p.name, detail)
			}
			if !enabled && touchesMoves {
				c.Violation("C35/read-needing-a-disabled-feature-emitted-sql-on-moves:"+p.name, detail)
			}
			if enabled && refused {
				c.Violation("C35/read-refused-although-feature-is-on:"+p.name, detail)
			}
		}
	})

	// ---- controller level: same history under every feature set
	r.ForEach("ctrl", r.N(4, 40), 0, func(c *core.Case) {
		rng := c.Rng
		st := &sim.GenState{}
		var ops []sim.Op
		for i := 0; i < 25; i++ {
			op := sim.GenOp(rng, st)
			if op.IsCreate() && i < 12 {
				st.TxIDs = append(st.TxIDs, uint64(len(st.TxIDs)+1)) // ids are deterministic: 1..n for successful creates; good enough for targets
			}
			ops = append(ops, op)
		}
		var ref string
		var refSet string
		for _, fs := range sets {
			e := sim.NewEnv(sim.Options{})
			_ = e.CreateLedger("l1", "_default", fs)
			for _, op := range ops {
				e.Apply("l1", op)
			}
			sn := e.C.Snapshot("l1")
			e.Close()
			var b strings.Builder
			for _, t := range sn.Transactions {
				fmt.Fprintf(&b, "tx %d %v %v %s %s|", t.ID, t.Postings, t.Metadata, t.Reference, t.RevertedAt != "")
			}
			for _, v := range sn.Volumes {
				if v.Input != "0" || v.Output != "0" {
					fmt.Fprintf(&b, "vol %v|", v)
				}
			}
			for _, a := range sn.Accounts {
				fmt.Fprintf(&b, "acc %s %v|", a.Address, a.Metadata)
			}
			for _, lg := range sn.Logs {
				fmt.Fprintf(&b, "log %d %s|", lg.ID, lg.Type)
				if (lg.Hash != "") != (fs[features.FeatureHashLogs] == "SYNC") {
					c.Violation("C35/log-hash-presence-disagrees-with-HASH_LOGS", map[string]any{"features": fs.String(), "log": lg.ID, "hash": lg.Hash})
				}
			}
			r.Count("controller_histories", 1)
			if ref == "" {
				ref, refSet = b.String(), fs.String()
			} else if b.String() != ref {
				c.Violation("C35/history-outcome-differs-between-feature-sets", map[string]any{"a": refSet, "b": fs.String(), "ops": ops})
			}
		}
		r.Eval("ctrl", true)
	})
}

func firstOr(s []string) string {
	if len(s) == 0 {
		return ""
	}
	if len(s[0]) > 300 {
		return s[0][:300]
	}
	return s[0]
}
