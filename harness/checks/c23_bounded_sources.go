package checks

import (
	"fmt"
	"math/big"

	"github.com/formancehq/ledger/verifharness/core"
	"github.com/formancehq/ledger/verifharness/gen"
)

// C23 — Numscript never overdraws a bounded source. Shares the C22 workload
// (same generator, same real machine runs), reports its own oracle.

func init() {
	core.Register(&core.Check{
		ID: "C23", Level: "exploration",
		Rule: "same cases as C22 (grammar-generated programs run by the real compiler + vm.Machine against random, also negative and huge, balances). Shape = statement/source/destination tree without names and amounts. Non-trivial = the run succeeded and at least one source account that is neither world nor declared unbounded was debited a non-zero amount.",
		Assumptions: []string{
			"balance = initial balance + all postings of the run, per (account, asset); computed with big.Int from Machine.Postings only",
			"an account that appears several times as a source of the same asset is judged against the largest bound it was given; an (account, asset) that is declared unbounded anywhere in the program is not judged",
			"source accounts and their bounds come from the generator's description (resolved variable values included), never from parsing",
		},
		Run: func(r *core.Run) { c22Workload(r, "C23") },
	})
}

// c23Judge returns the C23 violations of one run; record=false (shrinking)
// leaves the evidence counters alone.
func c23Judge(r *core.Run, p *gen.NSProgram, res c22Result, record bool) []c22Violation {
	var out []c22Violation
	count := func(k string) {
		if record {
			r.Count(k, 1)
		}
	}
	if res.err != nil {
		if record {
			r.Eval(p.Shape(), false)
		}
		return nil
	}
	type pair struct{ acc, asset string }
	bound := map[pair]*big.Int{}
	unbounded := map[pair]bool{}
	for _, sd := range p.Sends {
		for _, s := range sd.Sources {
			k := pair{s.Account, sd.Asset}
			if s.Account == "world" {
				continue
			}
			if s.Unbounded {
				unbounded[k] = true
				continue
			}
			b := s.Bound
			if b.Sign() < 0 {
				b = new(big.Int)
			}
			if cur, ok := bound[k]; !ok || b.Cmp(cur) > 0 {
				bound[k] = b
			}
		}
	}
	net := map[pair]*big.Int{}
	debited := map[pair]bool{}
	get := func(k pair) *big.Int {
		if v, ok := net[k]; ok {
			return v
		}
		v := new(big.Int)
		net[k] = v
		return v
	}
	for _, po := range res.postings {
		a := po.Amount.ToBigInt()
		get(pair{po.Source, po.Asset}).Sub(get(pair{po.Source, po.Asset}), a)
		get(pair{po.Destination, po.Asset}).Add(get(pair{po.Destination, po.Asset}), a)
		if a.Sign() > 0 {
			debited[pair{po.Source, po.Asset}] = true
		}
	}
	nontrivial := false
	for k, b := range bound {
		if unbounded[k] {
			count("pairs_skipped_also_unbounded")
			continue
		}
		count("bounded_sources_judged")
		if b.Sign() > 0 {
			count("bounded_sources_with_overdraft_judged")
		}
		initial := p.World.Balance(k.acc, k.asset)
		final := new(big.Int).Add(initial, get(k))
		floor := new(big.Int).Neg(b)
		if initial.Cmp(floor) < 0 {
			floor = initial
		}
		if initial.Sign() < 0 {
			count("bounded_sources_initially_negative")
		}
		if debited[k] {
			nontrivial = true
			count("bounded_sources_debited")
			if final.Sign() < 0 {
				count("bounded_sources_ending_negative")
			}
			if final.Cmp(floor) == 0 {
				count("bounded_sources_ending_exactly_at_floor")
			}
		}
		if final.Cmp(floor) < 0 {
			kind := "no overdraft clause"
			if b.Sign() > 0 {
				kind = "allowing overdraft up to X"
			}
			out = append(out, c22Violation{fmt.Sprintf("C23/bounded source ends below min(initial, -bound) (%s)", kind), map[string]any{
				"program": p.Text, "vars": p.Vars, "balances": p.World.Balances, "meta": p.World.Meta,
				"postings": c22PostingsJSON(res.postings), "sends": p.Sends,
				"account": k.acc, "asset": k.asset, "initial": initial.String(), "bound": b.String(), "final": final.String(), "floor": floor.String(),
			}, ""})
		}
	}
	if record {
		r.Eval(p.Shape(), nontrivial)
	}
	return out
}
