package checks

import (
	"encoding/json"
	"fmt"
	"math/rand"
	"strings"

	"github.com/formancehq/go-libs/v5/pkg/query"
	"github.com/formancehq/go-libs/v5/pkg/storage/bun/paginate"
	"github.com/formancehq/go-libs/v5/pkg/types/pointer"

	ledger "github.com/formancehq/ledger/internal"
	"github.com/formancehq/ledger/internal/storage/common"

	"github.com/formancehq/ledger/verifharness/core"
	"github.com/formancehq/ledger/verifharness/sim"
)

func init() {
	core.Register(&core.Check{
		ID: "C37", Level: "exploration",
		Rule: "random query templates on all four resources (filter bodies built from typed placeholder leaves combined with $and/$or/$not, variables of type string/int/boolean/date with and without defaults, template params pageSize/sort/expand/groupBy) stored in a schema through the real InsertSchema, over a generated ledger; RunQuery(template, vars, request params) is compared page by page (keys in order, pageSize, hasMore, then the continuation through the returned cursor) with the direct List* call whose filter was substituted by an independent JSON-level substituter and whose parameters were overridden defaults <- template <- request; bindings include omitted variables (default or error) and wrongly typed values (both sides must fail). Distinct = (resource, filter shape, binding kind, params); non-trivial = the template has >=1 variable actually substituted and the result has >=1 row",
		Assumptions: []string{seqAssume},
		Run:  runC37,
	})
}

type c37Leaf struct {
	tmpl string // JSON with ${var}
	vars map[string]string // var -> type
}

func c37Leaves(resource string) []c37Leaf {
	switch resource {
	case "transactions":
		return []c37Leaf{
			{`{"$match":{"account":"${acc}"}}`, map[string]string{"acc": "string"}},
			{`{"$match":{"destination":"acc:${seg}"}}`, map[string]string{"seg": "string"}},
			{`{"$gte":{"id":"${minid}"}}`, map[string]string{"minid": "int"}},
			{`{"$match":{"metadata[tag]":"${tag}"}}`, map[string]string{"tag": "string"}},
			{`{"$match":{"reverted":"${rev}"}}`, map[string]string{"rev": "boolean"}},
			{`{"$lte":{"timestamp":"${ts}"}}`, map[string]string{"ts": "date"}},
		}
	case "accounts":
		return []c37Leaf{
			{`{"$match":{"address":"${acc}"}}`, map[string]string{"acc": "string"}},
			{`{"$match":{"address":"acc:${seg}"}}`, map[string]string{"seg": "string"}},
			{`{"$gte":{"balance[USD]":"${minbal}"}}`, map[string]string{"minbal": "int"}},
			{`{"$match":{"metadata[tag]":"${tag}"}}`, map[string]string{"tag": "string"}},
		}
	case "logs":
		return []c37Leaf{
			{`{"$gte":{"id":"${minid}"}}`, map[string]string{"minid": "int"}},
			{`{"$lte":{"date":"${ts}"}}`, map[string]string{"ts": "date"}},
		}
	default:
		return []c37Leaf{
			{`{"$match":{"account":"${acc}"}}`, map[string]string{"acc": "string"}},
			{`{"$gte":{"balance[USD]":"${minbal}"}}`, map[string]string{"minbal": "int"}},
			{`{"$match":{"metadata[tag]":"${tag}"}}`, map[string]string{"tag": "string"}},
		}
	}
}

func c37Body(rng *rand.Rand, leaves []c37Leaf, depth int, vars map[string]string) string {
	if depth <= 0 || rng.Intn(3) == 0 {
		l := leaves[rng.Intn(len(leaves))]
		for k, v := range l.vars {
			vars[k] = v
		}
		return l.tmpl
	}
	switch rng.Intn(3) {
	case 0:
		return `{"$not":` + c37Body(rng, leaves, depth-1, vars) + `}`
	case 1:
		return `{"$and":[` + c37Body(rng, leaves, depth-1, vars) + `,` + c37Body(rng, leaves, depth-1, vars) + `]}`
	default:
		return `{"$or":[` + c37Body(rng, leaves, depth-1, vars) + `,` + c37Body(rng, leaves, depth-1, vars) + `]}`
	}
}

func c37Value(rng *rand.Rand, typ string) any {
	switch typ {
	case "string":
		return []string{"acc:01", "01", "02", "a", "b", "acc:", "world", "acc:0"}[rng.Intn(8)]
	case "int":
		return json.Number(fmt.Sprint(rng.Intn(12)))
	case "boolean":
		return rng.Intn(2) == 0
	default:
		return fmt.Sprintf("2030-01-01T00:00:00.0000%02dZ", rng.Intn(60))
	}
}

// independent substitution on the decoded JSON tree
func c37Subst(v any, vars map[string]any) (any, error) {
	switch x := v.(type) {
	case map[string]any:
		out := map[string]any{}
		for k, vv := range x {
			nv, err := c37Subst(vv, vars)
			if err != nil {
				return nil, err
			}
			out[k] = nv
		}
		return out, nil
	case []any:
		out := make([]any, len(x))
		for i, vv := range x {
			nv, err := c37Subst(vv, vars)
			if err != nil {
				return nil, err
			}
			out[i] = nv
		}
		return out, nil
	case string:
		if strings.HasPrefix(x, "${") && strings.HasSuffix(x, "}") && strings.Count(x, "${") == 1 {
			name := x[2 : len(x)-1]
			val, ok := vars[name]
			if !ok {
				return nil, fmt.Errorf("missing %s", name)
			}
			return val, nil
		}
		s := x
		for strings.Contains(s, "${") {
			i := strings.Index(s, "${")
			j := strings.Index(s[i:], "}")
			if j < 0 {
				break
			}
			name := s[i+2 : i+j]
			val, ok := vars[name]
			if !ok {
				return nil, fmt.Errorf("missing %s", name)
			}
			s = s[:i] + fmt.Sprint(val) + s[i+j+1:]
		}
		return s, nil
	}
	return v, nil
}

func runC37(r *core.Run) {
	resources := []string{"transactions", "accounts", "logs", "volumes"}
	n := r.N(400, 10000)
	r.Floor("queries_compared", int64(n/3))
	r.ForEach("tmpl", n, 0, func(c *core.Case) {
		rng := c.Rng
		resource := resources[c.Index%4]
		e := sim.NewEnv(sim.Options{})
		defer e.Close()
		_ = e.CreateLedger("l1", "_default", nil)
		for i := 0; i < 10+rng.Intn(15); i++ {
			acct := fmt.Sprintf("acc:%02d", rng.Intn(5))
			op := sim.Op{Kind: "postings", Postings: []sim.P{{Source: "world", Destination: acct, Asset: "USD", Amount: fmt.Sprint(1 + rng.Intn(9))}}}
			if rng.Intn(3) == 0 {
				op.Metadata = map[string]string{"tag": []string{"a", "b"}[rng.Intn(2)]}
			}
			e.Apply("l1", op)
			if rng.Intn(5) == 0 {
				e.Apply("l1", sim.Op{Kind: "save_acc_meta", Address: acct, Metadata: map[string]string{"tag": []string{"a", "b"}[rng.Intn(2)]}})
			}
			if rng.Intn(8) == 0 {
				e.Apply("l1", sim.Op{Kind: "revert", TxID: uint64(1 + rng.Intn(i+1)), Force: true})
			}
		}
		varTypes := map[string]string{}
		body := c37Body(rng, c37Leaves(resource), 2, varTypes)
		decls := map[string]any{}
		defaults := map[string]any{}
		for name, typ := range varTypes {
			if rng.Intn(3) == 0 {
				d := c37Value(rng, typ)
				defaults[name] = d
				decls[name] = map[string]any{"type": typ, "default": d}
			} else {
				decls[name] = typ
			}
		}
		tparams := map[string]any{}
		if rng.Intn(2) == 0 {
			tparams["pageSize"] = 1 + rng.Intn(6)
		}
		sortCol := map[string]string{"transactions": "id", "accounts": "address", "logs": "id", "volumes": "account"}[resource]
		if rng.Intn(2) == 0 {
			tparams["sort"] = sortCol + ":" + []string{"asc", "desc"}[rng.Intn(2)]
		}
		if resource == "volumes" && rng.Intn(3) == 0 {
			tparams["groupBy"] = 1
		}
		tpl := map[string]any{"resource": resource, "vars": decls, "body": json.RawMessage(body)}
		if len(tparams) > 0 {
			tpl["params"] = tparams
		}
		schema := map[string]any{"chart": map[string]any{}, "queries": map[string]any{"q1": tpl}}
		sb, _ := json.Marshal(schema)
		ins := e.Do("POST", "/v2/l1/schemas/v1", sb, nil)
		if ins.Status >= 300 {
			c.Violation(fmt.Sprintf("C37/valid-template-refused-by-schema-insert:%d", ins.Status), map[string]any{"schema": string(sb), "response": string(ins.Body)})
			return
		}
		// bindings
		bindKind := []string{"all", "all", "omit-some", "wrong-type"}[rng.Intn(4)]
		call := map[string]any{}
		eff := map[string]any{}
		for k, v := range defaults {
			eff[k] = v
		}
		expectErr := false
		for name, typ := range varTypes {
			switch bindKind {
			case "omit-some":
				if rng.Intn(2) == 0 {
					if _, ok := defaults[name]; !ok {
						expectErr = true
					}
					continue
				}
			case "wrong-type":
				if typ != "string" && rng.Intn(2) == 0 {
					call[name] = "not-a-" + typ
					expectErr = true
					continue
				}
			}
			v := c37Value(rng, typ)
			call[name] = v
			eff[name] = v
		}
		rparams := map[string]any{}
		if rng.Intn(2) == 0 {
			rparams["pageSize"] = 1 + rng.Intn(5)
		}
		if rng.Intn(3) == 0 {
			rparams["sort"] = sortCol + ":" + []string{"asc", "desc"}[rng.Intn(2)]
		}
		reqBody := map[string]any{"vars": call}
		if len(rparams) > 0 {
			reqBody["params"] = rparams
		}
		rb, _ := json.Marshal(reqBody)
		shape := fmt.Sprintf("%s|%s|%s|t%v|r%v", resource, strings.NewReplacer("acc:", "", "\"", "").Replace(body), bindKind, len(tparams), len(rparams))
		detail := map[string]any{"schema": string(sb), "request": string(rb)}
		resp := e.Do("POST", "/v2/l1/queries/q1/run?schemaVersion=v1", rb, nil)
		if resp.Status >= 500 {
			if len(resp.Body) == 0 {
				e.C.AbortAll()
			}
			detail["response"] = string(resp.Body)
			c.Violation(fmt.Sprintf("C37/run-query-answered-%d:%s", resp.Status, resource), detail)
			return
		}
		// direct query
		var tree any
		d := json.NewDecoder(strings.NewReader(body))
		d.UseNumber()
		_ = d.Decode(&tree)
		sub, serr := c37Subst(tree, eff)
		if expectErr || serr != nil {
			r.Eval(shape, false)
			r.Count("error_bindings", 1)
			if resp.Status != 400 {
				detail["response"] = string(resp.Body)
				detail["status"] = resp.Status
				c.Violation("C37/invalid-binding-not-refused:"+bindKind, detail)
			}
			return
		}
		sj, _ := json.Marshal(sub)
		builder, err := query.ParseJSON(string(sj))
		if err != nil {
			r.Inconclusive("substituted filter not parseable: " + err.Error())
			return
		}
		pageSize := 15
		order := map[string]paginate.Order{"transactions": paginate.OrderDesc, "accounts": paginate.OrderAsc, "logs": paginate.OrderDesc, "volumes": paginate.OrderAsc}[resource]
		for _, p := range []map[string]any{tparams, rparams} {
			if v, ok := p["pageSize"]; ok {
				pageSize = v.(int)
			}
			if v, ok := p["sort"]; ok {
				if strings.HasSuffix(v.(string), ":desc") {
					order = paginate.OrderDesc
				} else {
					order = paginate.OrderAsc
				}
			}
		}
		group := 0
		if v, ok := tparams["groupBy"]; ok {
			group = v.(int)
		}
		var wantKeys []string
		var wantNext string
		var wantMore bool
		ctx := e.Ctx
		var derr error
		switch resource {
		case "transactions":
			cur, err := e.Ctrl("l1").ListTransactions(ctx, common.InitialPaginatedQuery[any]{PageSize: uint64(pageSize), Column: "id", Order: pointer.For(order), Options: common.ResourceQuery[any]{Builder: builder}})
			derr = err
			if err == nil {
				for _, t := range cur.Data {
					wantKeys = append(wantKeys, fmt.Sprint(*t.ID))
				}
				wantNext, wantMore = cur.Next, cur.HasMore
			}
		case "accounts":
			cur, err := e.Ctrl("l1").ListAccounts(ctx, common.InitialPaginatedQuery[any]{PageSize: uint64(pageSize), Column: "address", Order: pointer.For(order), Options: common.ResourceQuery[any]{Builder: builder}})
			derr = err
			if err == nil {
				for _, a := range cur.Data {
					wantKeys = append(wantKeys, a.Address)
				}
				wantNext, wantMore = cur.Next, cur.HasMore
			}
		case "logs":
			cur, err := e.Ctrl("l1").ListLogs(ctx, common.InitialPaginatedQuery[any]{PageSize: uint64(pageSize), Column: "id", Order: pointer.For(order), Options: common.ResourceQuery[any]{Builder: builder}})
			derr = err
			if err == nil {
				for _, l := range cur.Data {
					wantKeys = append(wantKeys, fmt.Sprint(*l.ID))
				}
				wantNext, wantMore = cur.Next, cur.HasMore
			}
		default:
			cur, err := e.Ctrl("l1").GetVolumesWithBalances(ctx, common.InitialPaginatedQuery[ledger.GetVolumesOptions]{PageSize: uint64(pageSize), Column: "account", Order: pointer.For(order),
				Options: common.ResourceQuery[ledger.GetVolumesOptions]{Builder: builder, Opts: ledger.GetVolumesOptions{GroupLvl: group}}})
			derr = err
			if err == nil {
				for _, v := range cur.Data {
					wantKeys = append(wantKeys, v.Account+"/"+v.Asset)
				}
				wantNext, wantMore = cur.Next, cur.HasMore
			}
		}
		if derr != nil {
			if resp.Status < 400 {
				detail["direct_error"] = derr.Error()
				c.Violation("C37/direct-query-fails-but-template-succeeds:"+resource, detail)
			}
			r.Eval(shape, false)
			return
		}
		if resp.Status != 200 {
			detail["response"] = string(resp.Body)
			detail["direct_keys"] = wantKeys
			c.Violation(fmt.Sprintf("C37/template-refused-%d-but-direct-query-succeeds:%s", resp.Status, resource), detail)
			return
		}
		gotKeys, gotNext, gotMore, gotPS := c37ParseCursor(resp.Body, resource)
		r.Count("queries_compared", 1)
		r.Seen("resources", resource)
		r.Eval(shape, len(varTypes) > 0 && len(wantKeys) > 0)
		detail["got"], detail["want"] = gotKeys, wantKeys
		if strings.Join(gotKeys, "|") != strings.Join(wantKeys, "|") {
			c.Violation("C37/template-result-differs-from-direct-query:"+resource, detail)
			return
		}
		if gotMore != wantMore || gotPS != pageSize {
			detail["got_hasMore"], detail["want_hasMore"], detail["got_pageSize"], detail["want_pageSize"] = gotMore, wantMore, gotPS, pageSize
			c.Violation("C37/template-page-size-or-hasMore-differs:"+resource, detail)
			return
		}
		// continuation
		if wantNext != "" && gotNext != "" {
			cb, _ := json.Marshal(map[string]any{"cursor": gotNext})
			resp2 := e.Do("POST", "/v2/l1/queries/q1/run?schemaVersion=v1", cb, nil)
			got2, _, _, _ := c37ParseCursor(resp2.Body, resource)
			var want2 []string
			switch resource {
			case "transactions":
				q, _ := common.UnmarshalCursor[any](wantNext)
				cur, err := e.Ctrl("l1").ListTransactions(ctx, q)
				if err == nil {
					for _, t := range cur.Data {
						want2 = append(want2, fmt.Sprint(*t.ID))
					}
				}
			case "accounts":
				q, _ := common.UnmarshalCursor[any](wantNext)
				cur, err := e.Ctrl("l1").ListAccounts(ctx, q)
				if err == nil {
					for _, a := range cur.Data {
						want2 = append(want2, a.Address)
					}
				}
			case "logs":
				q, _ := common.UnmarshalCursor[any](wantNext)
				cur, err := e.Ctrl("l1").ListLogs(ctx, q)
				if err == nil {
					for _, l := range cur.Data {
						want2 = append(want2, fmt.Sprint(*l.ID))
					}
				}
			default:
				q, _ := common.UnmarshalCursor[ledger.GetVolumesOptions](wantNext)
				cur, err := e.Ctrl("l1").GetVolumesWithBalances(ctx, q)
				if err == nil {
					for _, v := range cur.Data {
						want2 = append(want2, v.Account+"/"+v.Asset)
					}
				}
			}
			r.Count("continuations_compared", 1)
			if strings.Join(got2, "|") != strings.Join(want2, "|") {
				detail["got_page2"], detail["want_page2"], detail["status2"] = got2, want2, resp2.Status
				c.Violation("C37/cursor-continuation-differs-from-direct-query:"+resource, detail)
			}
		} else if (wantNext == "") != (gotNext == "") {
			c.Violation("C37/next-cursor-presence-differs:"+resource, detail)
		}
		if c.Index < 3 {
			r.Sample(map[string]any{"template": tpl, "request": reqBody, "keys": gotKeys})
		}
	})
}

func c37ParseCursor(body []byte, resource string) (keys []string, next string, hasMore bool, pageSize int) {
	var v struct {
		Cursor struct {
			PageSize int               `json:"pageSize"`
			HasMore  bool              `json:"hasMore"`
			Next     string            `json:"next"`
			Data     []json.RawMessage `json:"data"`
		} `json:"cursor"`
	}
	_ = json.Unmarshal(body, &v)
	for _, d := range v.Cursor.Data {
		var m map[string]any
		dec := json.NewDecoder(strings.NewReader(string(d)))
		dec.UseNumber()
		_ = dec.Decode(&m)
		switch resource {
		case "transactions", "logs":
			keys = append(keys, fmt.Sprint(m["id"]))
		case "accounts":
			keys = append(keys, fmt.Sprint(m["address"]))
		default:
			keys = append(keys, fmt.Sprint(m["account"])+"/"+fmt.Sprint(m["asset"]))
		}
	}
	return keys, v.Cursor.Next, v.Cursor.HasMore, v.Cursor.PageSize
}
