package checks

import (
	"context"
	"errors"
	"math/big"
	"strings"

	"github.com/jackc/pgx/v5/pgconn"

	ledger "github.com/formancehq/ledger/internal"
	ledgerstore "github.com/formancehq/ledger/internal/storage/ledger"

	"fmt"
	"github.com/formancehq/ledger/verifharness/pgshim"
	"github.com/formancehq/ledger/verifharness/realstore"
	"sort"

	"github.com/formancehq/ledger/verifharness/core"
	"github.com/formancehq/ledger/verifharness/sim"
)

// runC13Sequential: every write kind, replayed sequentially under one key with
// the same input (must answer the original log/result flagged as a hit, without
// effect) and with a different input (validation error, no effect).
func runC13Sequential(r *core.Run) {
	n := r.N(300, 6000)
	r.ForEach("ikseq", n, 0, func(c *core.Case) {
		rng := c.Rng
		e := sim.NewEnv(sim.Options{})
		defer e.Close()
		_ = e.CreateLedger("l1", "_default", nil)
		m := sim.NewMirror(e, "l1")
		m.FullReadEvery = 0
		st := &sim.GenState{NoBig: rng.Intn(2) == 0}
		for i := 0; i < 3+rng.Intn(6); i++ {
			op := sim.GenOp(rng, st)
			op.IK = ""
			out := m.Step(op)
			if out.OK() && out.Created != nil {
				st.TxIDs = append(st.TxIDs, *out.Created.Transaction.ID)
			}
		}
		op := sim.GenOp(rng, st)
		op.IK = "the-key"
		op.DryRun = false
		first := m.Step(op)
		r.Seen("first_outcomes", op.Kind+":"+first.Class)
		// interleave unrelated writes, then replay
		for i := 0; i < rng.Intn(3); i++ {
			o2 := sim.GenOp(rng, st)
			o2.IK = ""
			m.Step(o2)
		}
		before := e.C.Snapshot("l1").Digest()
		second := m.Step(op)
		after := e.C.Snapshot("l1").Digest()
		shape := fmt.Sprintf("%s|first=%s|second=%s/hit=%v", op.Shape(), first.Class, second.Class, second.Hit)
		r.Eval(shape, first.OK())
		detail := map[string]any{"history": m.History, "first": first.Class, "second": second.Class, "second_hit": second.Hit}
		if second.Err != nil {
			detail["second_error"] = second.Err.Error()
		}
		if first.OK() {
			r.Count("replays_of_committed_key", 1)
			if !second.OK() || !second.Hit {
				c.Violation(fmt.Sprintf("C13/sequential:replay-of-committed-key-not-a-hit:%s:%s", op.Kind, second.Class), detail)
			} else {
				if first.Log == nil || second.Log == nil || *first.Log.ID != *second.Log.ID {
					c.Violation("C13/sequential:replay-returned-a-different-log:"+op.Kind, detail)
				}
				if first.Created != nil && (second.Created == nil || *first.Created.Transaction.ID != *second.Created.Transaction.ID) {
					c.Violation("C13/sequential:replay-returned-a-different-transaction", detail)
				}
			}
			if before != after {
				c.Violation("C13/sequential:replay-changed-the-ledger:"+op.Kind, detail)
			}
			// same key, different input
			other := op
			switch op.Kind {
			case "postings":
				other.Postings = append([]sim.P(nil), op.Postings...)
				other.Postings = append(other.Postings, sim.P{Source: "world", Destination: "fees", Asset: "USD", Amount: "1"})
			case "script":
				other.Plain = op.Plain + "\nset_tx_meta(\"x\", \"y\")\n"
			case "revert":
				other.Force = !op.Force
			case "save_tx_meta", "save_acc_meta":
				other.Metadata = map[string]string{"different": "input"}
			case "del_tx_meta", "del_acc_meta":
				other.Key = op.Key + "x"
			}
			b2 := e.C.Snapshot("l1").Digest()
			third := m.Step(other)
			r.Count("same_key_different_input", 1)
			if third.Class != sim.CIKMismatch {
				detail["third"] = third.Class
				c.Violation(fmt.Sprintf("C13/sequential:same-key-different-input-answered-%s:%s", third.Class, op.Kind), detail)
			}
			if e.C.Snapshot("l1").Digest() != b2 {
				c.Violation("C13/sequential:same-key-different-input-had-an-effect", detail)
			}
			// same key, another KIND of request (the stored log holds another payload type)
			var cross sim.Op
			for tries := 0; tries < 20; tries++ {
				cross = sim.GenOp(rng, st)
				if cross.Kind != op.Kind {
					break
				}
			}
			if cross.Kind != op.Kind {
				cross.IK, cross.DryRun = "the-key", false
				b3 := e.C.Snapshot("l1").Digest()
				fourth := m.Step(cross)
				r.Count("same_key_other_kind", 1)
				r.Seen("same_key_other_kind_pairs", op.Kind+"->"+cross.Kind+":"+fourth.Class)
				// kinds that store the same payload type (save_tx_meta/save_acc_meta, del_*) legitimately compare inputs only
				if fourth.Class != sim.CIKMismatch {
					detail["fourth"], detail["fourth_kind"] = fourth.Class, cross.Kind
					if fourth.Err != nil {
						detail["fourth_error"] = fourth.Err.Error()
					}
					c.Violation(fmt.Sprintf("C13/sequential:same-key-other-kind-answered-%s:%s->%s", fourth.Class, op.Kind, cross.Kind), detail)
				}
				if e.C.Snapshot("l1").Digest() != b3 {
					c.Violation("C13/sequential:same-key-other-kind-had-an-effect", detail)
				}
			}
		} else {
			r.Count("replays_of_failed_key", 1)
			// a failed write did not consume the key: the replay is judged on its own
			if second.Hit {
				c.Violation("C13/sequential:hit-for-a-key-whose-write-failed:"+op.Kind, detail)
			}
		}
		for _, f := range m.FindingsFor("C13") {
			c.Violation(f.Sig, map[string]any{"finding": f, "history": m.History})
		}
	})
}

// runC14Sequential: references over two ledgers sharing a bucket.
func runC14Sequential(r *core.Run) {
	n := r.N(200, 4000)
	r.ForEach("refseq", n, 0, func(c *core.Case) {
		rng := c.Rng
		e := sim.NewEnv(sim.Options{})
		defer e.Close()
		_ = e.CreateLedger("l1", "shared", nil)
		_ = e.CreateLedger("l2", "shared", nil)
		used := map[string]map[string]bool{"l1": {}, "l2": {}}
		var shape []string
		for i := 0; i < 12; i++ {
			l := []string{"l1", "l2"}[rng.Intn(2)]
			ref := fmt.Sprintf("r%d", rng.Intn(4))
			op := sim.Op{Kind: "postings", Postings: []sim.P{{Source: "world", Destination: "a", Asset: "USD", Amount: "1"}}, Reference: ref}
			if rng.Intn(3) == 0 {
				op = sim.Op{Kind: "script", Plain: "send [USD 1] (\n source = @world\n destination = @a\n)\n", Reference: ref}
			}
			before := e.C.Snapshot(l).Digest()
			out := e.Apply(l, op)
			shape = append(shape, fmt.Sprintf("%s:%s:%s", l, ref, out.Class))
			detail := map[string]any{"ledger": l, "reference": ref, "outcome": out.Class, "steps": shape}
			if used[l][ref] {
				r.Count("duplicate_reference_attempts", 1)
				if out.Class != sim.CRefConflict {
					c.Violation("C14/sequential:duplicate-reference-answered-"+out.Class, detail)
				}
				if e.C.Snapshot(l).Digest() != before {
					c.Violation("C14/sequential:refused-duplicate-had-an-effect", detail)
				}
			} else {
				r.Count("fresh_reference_attempts", 1)
				if !out.OK() {
					c.Violation("C14/sequential:fresh-reference-refused-"+out.Class+":possibly-used-in-other-ledger", detail)
				}
				used[l][ref] = true
			}
		}
		// HTTP status of a conflict
		resp := e.Do("POST", "/v2/l1/transactions", []byte(`{"postings":[{"source":"world","destination":"a","asset":"USD","amount":1}],"reference":"r0"}`), nil)
		resp2 := e.Do("POST", "/v2/l1/transactions", []byte(`{"postings":[{"source":"world","destination":"a","asset":"USD","amount":1}],"reference":"r0"}`), nil)
		if resp2.Status != 409 {
			c.Violation(fmt.Sprintf("C14/sequential:http-duplicate-reference-status-%d", resp2.Status), map[string]any{"first": resp.Status, "body": string(resp2.Body)})
		}
		// references that arrived through an import: the copy is still "initializing", so its first
		// native writes take the state tracker's slow path; a duplicate must still be a conflict (409)
		exp := e.Do("POST", "/v2/l1/logs/export", nil, nil)
		_ = e.CreateLedger("copy", "b2", nil)
		if imp := e.Do("POST", "/v2/copy/logs/import", exp.Body, nil); imp.Status == 204 {
			r.Count("imported_copies", 1)
			refs := make([]string, 0, len(used["l1"])+1)
			for ref := range used["l1"] {
				refs = append(refs, ref)
			}
			sort.Strings(refs)
			refs = append(refs, "r0") // committed over HTTP above
			ref := refs[rng.Intn(len(refs))]
			before := e.C.Snapshot("copy").Digest()
			via := []string{"controller", "http"}[rng.Intn(2)]
			detail := map[string]any{"reference": ref, "via": via, "steps": shape}
			if via == "controller" {
				out := e.Apply("copy", sim.Op{Kind: "postings", Postings: []sim.P{{Source: "world", Destination: "a", Asset: "USD", Amount: "1"}}, Reference: ref})
				detail["outcome"] = out.Class
				if out.Class != sim.CRefConflict {
					c.Violation("C14/sequential:duplicate-of-an-imported-reference-answered-"+out.Class+":first-write-after-import", detail)
				}
			} else {
				resp := e.Do("POST", "/v2/copy/transactions", []byte(`{"postings":[{"source":"world","destination":"a","asset":"USD","amount":1}],"reference":"`+ref+`"}`), nil)
				detail["status"], detail["body"] = resp.Status, string(resp.Body)
				if resp.Status != 409 {
					c.Violation(fmt.Sprintf("C14/sequential:http-duplicate-of-an-imported-reference-status-%d:first-write-after-import", resp.Status), detail)
				}
			}
			r.Count("duplicate_of_imported_reference_attempts:"+via, 1)
			if e.C.Snapshot("copy").Digest() != before {
				c.Violation("C14/sequential:refused-duplicate-had-an-effect:first-write-after-import", detail)
			}
			// and a fresh reference is accepted, then refused the second time
			o1 := e.Apply("copy", sim.Op{Kind: "postings", Postings: []sim.P{{Source: "world", Destination: "a", Asset: "USD", Amount: "1"}}, Reference: "fresh-after-import"})
			o2 := e.Apply("copy", sim.Op{Kind: "postings", Postings: []sim.P{{Source: "world", Destination: "a", Asset: "USD", Amount: "1"}}, Reference: "fresh-after-import"})
			if !o1.OK() || o2.Class != sim.CRefConflict {
				c.Violation("C14/sequential:fresh-reference-after-import:"+o1.Class+"-then-"+o2.Class, detail)
			}
		} else {
			r.Count("import_of_export_refused", 1)
		}
		r.Eval(fmt.Sprint(shape), true)
	})
}

// runC14ConflictTranslation drives the REAL storage CommitTransaction over the SQL driver answering the
// INSERT INTO transactions with Postgres' unique violation on the per-ledger reference index: whatever the
// shape of the transaction (id drawn from the sequence, or given by the caller as imports do), the caller
// must get the reference-conflict error that the API maps to 409 / the import maps to a refusal.
func runC14ConflictTranslation(r *core.Run) {
	r.Floor("reference_violations_translated", 8)
	r.ForEach("conflict-translation", r.N(16, 160), 0, func(c *core.Case) {
		withID := c.Index%2 == 0
		inTx := (c.Index/2)%2 == 0
		db := realstore.NewSysDB()
		defer db.Close()
		tables := realstore.NewTables()
		db.Responder = func(ctx context.Context, cn *pgshim.Conn, kind, sqlText string) (*pgshim.Rows, bool, error) {
			if strings.HasPrefix(strings.ToLower(strings.TrimSpace(sqlText)), `insert into "_default".transactions`) {
				return nil, true, &pgconn.PgError{Severity: "ERROR", Code: "23505", ConstraintName: "transactions_reference", Message: `duplicate key value violates unique constraint "transactions_reference"`}
			}
			return tables.Respond(ctx, cn, kind, sqlText)
		}
		d := db.NewDriver()
		ctx := context.Background()
		l := ledger.MustNewWithDefault("l1")
		st, err := d.CreateLedger(ctx, &l)
		if err != nil {
			r.Inconclusive("CreateLedger: " + err.Error())
			return
		}
		tx := ledger.NewTransaction().WithPostings(ledger.NewPosting("world", "bank", "USD", big.NewInt(int64(1+c.Rng.Intn(100))))).WithReference("ref-1")
		if withID {
			tx = tx.WithID(uint64(1 + c.Rng.Intn(50)))
		}
		target := st
		if inTx {
			t, _, err := st.BeginTX(ctx, nil)
			if err != nil {
				r.Inconclusive("BeginTX: " + err.Error())
				return
			}
			defer func() { _ = t.Rollback(ctx) }()
			target = t
		}
		err = target.CommitTransaction(ctx, &tx)
		shape := fmt.Sprintf("id-given=%v|in-tx=%v", withID, inTx)
		r.Eval("conflict-translation|"+shape, withID)
		r.Count("reference_violations_translated", 1)
		r.Seen("reference_violation_results", fmt.Sprintf("%s -> conflict=%v", shape, errors.Is(err, ledgerstore.ErrTransactionReferenceConflict{})))
		if !errors.Is(err, ledgerstore.ErrTransactionReferenceConflict{}) {
			c.Violation("C14/unique-violation-on-the-reference-index-not-reported-as-a-reference-conflict:"+shape, map[string]any{"error": fmt.Sprint(err), "transaction_id_given_by_caller": withID})
		}
	})
}
