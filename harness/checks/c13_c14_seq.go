package checks

import (
	"fmt"

	"github.com/formancehq/ledger/verifharness/core"
	"github.com/formancehq/ledger/verifharness/sim"
)

// runC13Sequential: every write kind, replayed sequentially under one key with
// the same input (must answer the original log/result flagged as a hit, without
// effect) and with a different input (validation error, no effect).
func runC13Sequential(r *core.Run) {
	n := r.N(300, 6000)
	r.ForEach("ikseq", n, 0, func(c *core.Case) {
		rng := c.Rng
		e := sim.NewEnv(sim.Options{})
		defer e.Close()
		_ = e.CreateLedger("l1", "_default", nil)
		m := sim.NewMirror(e, "l1")
		m.FullReadEvery = 0
		st := &sim.GenState{NoBig: rng.Intn(2) == 0}
		for i := 0; i < 3+rng.Intn(6); i++ {
			op := sim.GenOp(rng, st)
			op.IK = ""
			out := m.Step(op)
			if out.OK() && out.Created != nil {
				st.TxIDs = append(st.TxIDs, *out.Created.Transaction.ID)
			}
		}
		op := sim.GenOp(rng, st)
		op.IK = "the-key"
		op.DryRun = false
		first := m.Step(op)
		r.Seen("first_outcomes", op.Kind+":"+first.Class)
		// interleave unrelated writes, then replay
		for i := 0; i < rng.Intn(3); i++ {
			o2 := sim.GenOp(rng, st)
			o2.IK = ""
			m.Step(o2)
		}
		before := e.C.Snapshot("l1").Digest()
		second := m.Step(op)
		after := e.C.Snapshot("l1").Digest()
		shape := fmt.Sprintf("%s|first=%s|second=%s/hit=%v", op.Shape(), first.Class, second.Class, second.Hit)
		r.Eval(shape, first.OK())
		detail := map[string]any{"history": m.History, "first": first.Class, "second": second.Class, "second_hit": second.Hit}
		if second.Err != nil {
			detail["second_error"] = second.Err.Error()
		}
		if first.OK() {
			r.Count("replays_of_committed_key", 1)
			if !second.OK() || !second.Hit {
				c.Violation(fmt.Sprintf("C13/sequential:replay-of-committed-key-not-a-hit:%s:%s", op.Kind, second.Class), detail)
			} else {
				if first.Log == nil || second.Log == nil || *first.Log.ID != *second.Log.ID {
					c.Violation("C13/sequential:replay-returned-a-different-log:"+op.Kind, detail)
				}
				if first.Created != nil && (second.Created == nil || *first.Created.Transaction.ID != *second.Created.Transaction.ID) {
					c.Violation("C13/sequential:replay-returned-a-different-transaction", detail)
				}
			}
			if before != after {
				c.Violation("C13/sequential:replay-changed-the-ledger:"+op.Kind, detail)
			}
			// same key, different input
			other := op
			switch op.Kind {
			case "postings":
				other.Postings = append([]sim.P(nil), op.Postings...)
				other.Postings = append(other.Postings, sim.P{Source: "world", Destination: "fees", Asset: "USD", Amount: "1"})
			case "script":
				other.Plain = op.Plain + "\nset_tx_meta(\"x\", \"y\")\n"
			case "revert":
				other.Force = !op.Force
			case "save_tx_meta", "save_acc_meta":
				other.Metadata = map[string]string{"different": "input"}
			case "del_tx_meta", "del_acc_meta":
				other.Key = op.Key + "x"
			}
			b2 := e.C.Snapshot("l1").Digest()
			third := m.Step(other)
			r.Count("same_key_different_input", 1)
			if third.Class != sim.CIKMismatch {
				detail["third"] = third.Class
				c.Violation(fmt.Sprintf("C13/sequential:same-key-different-input-answered-%s:%s", third.Class, op.Kind), detail)
			}
			if e.C.Snapshot("l1").Digest() != b2 {
				c.Violation("C13/sequential:same-key-different-input-had-an-effect", detail)
			}
		} else {
			r.Count("replays_of_failed_key", 1)
			// a failed write did not consume the key: the replay is judged on its own
			if second.Hit {
				c.Violation("C13/sequential:hit-for-a-key-whose-write-failed:"+op.Kind, detail)
			}
		}
		for _, f := range m.FindingsFor("C13") {
			c.Violation(f.Sig, map[string]any{"finding": f, "history": m.History})
		}
	})
}

// runC14Sequential: references over two ledgers sharing a bucket.
func runC14Sequential(r *core.Run) {
	n := r.N(200, 4000)
	r.ForEach("refseq", n, 0, func(c *core.Case) {
		rng := c.Rng
		e := sim.NewEnv(sim.Options{})
		defer e.Close()
		_ = e.CreateLedger("l1", "shared", nil)
		_ = e.CreateLedger("l2", "shared", nil)
		used := map[string]map[string]bool{"l1": {}, "l2": {}}
		var shape []string
		for i := 0; i < 12; i++ {
			l := []string{"l1", "l2"}[rng.Intn(2)]
			ref := fmt.Sprintf("r%d", rng.Intn(4))
			op := sim.Op{Kind: "postings", Postings: []sim.P{{Source: "world", Destination: "a", Asset: "USD", Amount: "1"}}, Reference: ref}
			if rng.Intn(3) == 0 {
				op = sim.Op{Kind: "script", Plain: "send [USD 1] (\n source = @world\n destination = @a\n)\n", Reference: ref}
			}
			before := e.C.Snapshot(l).Digest()
			out := e.Apply(l, op)
			shape = append(shape, fmt.Sprintf("%s:%s:%s", l, ref, out.Class))
			detail := map[string]any{"ledger": l, "reference": ref, "outcome": out.Class, "steps": shape}
			if used[l][ref] {
				r.Count("duplicate_reference_attempts", 1)
				if out.Class != sim.CRefConflict {
					c.Violation("C14/sequential:duplicate-reference-answered-"+out.Class, detail)
				}
				if e.C.Snapshot(l).Digest() != before {
					c.Violation("C14/sequential:refused-duplicate-had-an-effect", detail)
				}
			} else {
				r.Count("fresh_reference_attempts", 1)
				if !out.OK() {
					c.Violation("C14/sequential:fresh-reference-refused-"+out.Class+":possibly-used-in-other-ledger", detail)
				}
				used[l][ref] = true
			}
		}
		// HTTP status of a conflict
		resp := e.Do("POST", "/v2/l1/transactions", []byte(`{"postings":[{"source":"world","destination":"a","asset":"USD","amount":1}],"reference":"r0"}`), nil)
		resp2 := e.Do("POST", "/v2/l1/transactions", []byte(`{"postings":[{"source":"world","destination":"a","asset":"USD","amount":1}],"reference":"r0"}`), nil)
		if resp2.Status != 409 {
			c.Violation(fmt.Sprintf("C14/sequential:http-duplicate-reference-status-%d", resp2.Status), map[string]any{"first": resp.Status, "body": string(resp2.Body)})
		}
		r.Eval(fmt.Sprint(shape), true)
	})
}
