package checks

import (
	"context"
	"encoding/json"
	"fmt"
	"math/big"
	"math/rand"
	"sort"
	"strings"
	"time"

	"github.com/formancehq/ledger/verifharness/core"
	"github.com/formancehq/ledger/verifharness/lin"
	"github.com/formancehq/ledger/verifharness/sched"
	"github.com/formancehq/ledger/verifharness/sim"
)

// ---------------------------------------------------------------------------
// scenarios of concurrent clients over few shared keys

type concOp struct {
	Op sim.Op `json:"op"`
	In lin.In `json:"model_input"`
}

type concScenario struct {
	Kind    string     `json:"kind"`
	Prep    []sim.Op   `json:"prep"`
	Clients [][]concOp `json:"clients"`
}

const cAsset = "USD"

func mkTransfer(rng *rand.Rand, src, dst string, amount int64, mode string) concOp {
	tr := lin.Transfer{Src: src, Dst: dst, Asset: cAsset, Amount: amount}
	var op sim.Op
	switch mode {
	case "postings":
		op = sim.Op{Kind: "postings", Postings: []sim.P{{Source: src, Destination: dst, Asset: cAsset, Amount: fmt.Sprint(amount)}}}
	case "force":
		op = sim.Op{Kind: "postings", Postings: []sim.P{{Source: src, Destination: dst, Asset: cAsset, Amount: fmt.Sprint(amount)}}, Force: true}
		tr.Bound = -1
	case "script":
		op = sim.Op{Kind: "script", Plain: fmt.Sprintf("send [%s %d] (\n source = @%s\n destination = @%s\n)\n", cAsset, amount, src, dst)}
	case "overdraft":
		b := int64(1 + rng.Intn(6))
		op = sim.Op{Kind: "script", Plain: fmt.Sprintf("send [%s %d] (\n source = @%s allowing overdraft up to [%s %d]\n destination = @%s\n)\n", cAsset, amount, src, cAsset, b, dst)}
		tr.Bound = b
	case "unbounded":
		op = sim.Op{Kind: "script", Plain: fmt.Sprintf("send [%s %d] (\n source = @%s allowing unbounded overdraft\n destination = @%s\n)\n", cAsset, amount, src, dst)}
		tr.Bound = -1
	}
	if src == "world" {
		tr.Bound = -1
	}
	in := lin.In{Kind: "transfer", Transfers: []lin.Transfer{tr}, Force: op.Force, Label: fmt.Sprintf("%s %s->%s %d", mode, src, dst, amount)}
	return concOp{Op: op, In: in}
}

func finish(o *concOp) {
	o.In.Reference = o.Op.Reference
	o.In.IK = o.Op.IK
	cp := o.Op
	cp.IK = ""
	b, _ := json.Marshal(cp)
	o.In.Hash = string(b)
	if o.Op.IK != "" {
		o.In.Label += " ik=" + o.Op.IK
	}
	if o.Op.Reference != "" {
		o.In.Label += " ref=" + o.Op.Reference
	}
}

func mkRevert(id uint64, force, eff bool) concOp {
	return concOp{Op: sim.Op{Kind: "revert", TxID: id, Force: force, AtEffectiveDate: eff},
		In: lin.In{Kind: "revert", RevertID: id, Force: force, Label: fmt.Sprintf("revert %d force=%v", id, force)}}
}

var cAccounts = []string{"a", "b", "c", "fresh:1"}

// prep: tx1 world->a 10, tx2 world->b 6, tx3 a->c 4  => a=6 b=6 c=4
var concPrep = []sim.Op{
	{Kind: "postings", Postings: []sim.P{{Source: "world", Destination: "a", Asset: cAsset, Amount: "10"}}, Reference: "prep-ref"},
	{Kind: "postings", Postings: []sim.P{{Source: "world", Destination: "b", Asset: cAsset, Amount: "6"}}},
	{Kind: "postings", Postings: []sim.P{{Source: "a", Destination: "c", Asset: cAsset, Amount: "4"}}},
}

func genConcScenario(rng *rand.Rand, prop string, idx int) concScenario {
	sc := concScenario{Prep: concPrep}
	modes := []string{"postings", "script", "overdraft", "unbounded", "force"}
	nClients := 2 + rng.Intn(2)
	if rng.Intn(6) == 0 {
		nClients = 4
	}
	forceSingleOp := false
	if ks := map[string][]string{"C13": {"ik-same", "ik-drain", "ik-different", "ik-revert", "ik-meta", "ik-drain"}}[prop]; ks != nil && ks[idx%len(ks)] == "ik-drain" {
		nClients = 3
		forceSingleOp = true
	}
	kinds := map[string][]string{
		"C06": {"overdraft", "overdraft", "revert-funds", "mixed"},
		"C13": {"ik-same", "ik-drain", "ik-different", "ik-revert", "ik-meta", "ik-drain"},
		"C14": {"reference"},
		"C15": {"revert", "revert", "revert-funds"},
		"C08": {"mixed", "overdraft", "revert", "ik-same", "reference"},
	}[prop]
	sc.Kind = kinds[idx%len(kinds)]
	for c := 0; c < nClients; c++ {
		nOps := 1
		if rng.Intn(3) == 0 && nClients < 4 && !forceSingleOp {
			nOps = 2
		}
		var ops []concOp
		for k := 0; k < nOps; k++ {
			var o concOp
			switch sc.Kind {
			case "overdraft":
				src := []string{"a", "a", "b", "fresh:1"}[rng.Intn(4)]
				o = mkTransfer(rng, src, []string{"b", "c", "fresh:2"}[rng.Intn(3)], int64(2+rng.Intn(6)), modes[rng.Intn(3)])
			case "mixed":
				switch rng.Intn(4) {
				case 0:
					o = mkRevert(uint64(1+rng.Intn(3)), rng.Intn(2) == 0, rng.Intn(2) == 0)
				case 1:
					o = concOp{Op: sim.Op{Kind: "save_acc_meta", Address: "a", Metadata: map[string]string{"k": fmt.Sprint(c)}}, In: lin.In{Kind: "meta", Label: "save_acc_meta a"}}
				default:
					o = mkTransfer(rng, cAccounts[rng.Intn(3)], cAccounts[rng.Intn(4)], int64(1+rng.Intn(7)), modes[rng.Intn(len(modes))])
				}
			case "revert-funds":
				// revert of tx1 (world->a 10) needs a >= 10 unless forced; others spend or fund a
				if c == 0 || rng.Intn(3) == 0 {
					o = mkRevert(1, rng.Intn(4) == 0, rng.Intn(2) == 0)
				} else if rng.Intn(2) == 0 {
					o = mkTransfer(rng, "world", "a", int64(3+rng.Intn(4)), "postings")
				} else {
					o = mkTransfer(rng, "a", "b", int64(1+rng.Intn(6)), modes[rng.Intn(2)])
				}
			case "revert":
				id := uint64(1 + rng.Intn(3))
				if rng.Intn(3) > 0 {
					id = 3
				}
				o = mkRevert(id, rng.Intn(2) == 0, rng.Intn(2) == 0)
			case "ik-same":
				// identical input under one key; the input spends the whole balance so that a second execution would fail on its own
				o = mkTransfer(rng, "a", "b", 6, []string{"postings", "script"}[idx%2])
				o.Op.IK = "shared-key"
				if idx%3 == 0 {
					o.Op.Reference = "ik-ref"
				}
			case "ik-drain":
				// two requests share a key and an input that fits twice (a=6, send 3); a third, keyless request
				// drains the rest: the retried execution of the late twin then fails on its own
				if c < 2 {
					o = mkTransfer(rng, "a", "b", 3, []string{"postings", "script"}[idx%2])
					o.Op.IK = "shared-key"
				} else {
					o = mkTransfer(rng, "a", "c", 3, "postings")
				}
			case "ik-different":
				o = mkTransfer(rng, "a", "b", int64(1+c), "postings")
				if c == 0 && rng.Intn(2) == 0 {
					o = mkTransfer(rng, "a", "b", 6, "postings")
				}
				o.Op.IK = "shared-key"
			case "ik-revert":
				o = mkRevert(3, idx%2 == 0, false)
				o.Op.IK = "shared-key"
			case "ik-meta":
				o = concOp{Op: sim.Op{Kind: "save_acc_meta", Address: "a", Metadata: map[string]string{"k": "v"}, IK: "shared-key"}, In: lin.In{Kind: "meta", Label: "save_acc_meta a"}}
				if rng.Intn(3) == 0 {
					o = concOp{Op: sim.Op{Kind: "save_tx_meta", TxID: 1, Metadata: map[string]string{"k": "v"}, IK: "shared-key"}, In: lin.In{Kind: "meta", Label: "save_tx_meta 1"}}
				}
			case "reference":
				o = mkTransfer(rng, "world", cAccounts[rng.Intn(3)], int64(1+rng.Intn(5)), []string{"postings", "script"}[rng.Intn(2)])
				o.Op.Reference = []string{"shared-ref", "shared-ref", "prep-ref", fmt.Sprintf("own-%d", c)}[rng.Intn(4)]
			}
			finish(&o)
			ops = append(ops, o)
		}
		sc.Clients = append(sc.Clients, ops)
	}
	return sc
}

// ---------------------------------------------------------------------------
// one execution of a scenario under a chooser

type concRun struct {
	env      *sim.Env
	sc       concScenario
	s        *sched.Sched
	outcomes [][]sim.Outcome
	rec      *lin.Recorder
	init     lin.Init
	findings []sim.Finding
	locksAtEnd []string
}

func (cr *concRun) find(prop, sig string, detail any) {
	cr.findings = append(cr.findings, sim.Finding{Prop: prop, Sig: sig, Detail: detail})
}

func outOf(o sim.Outcome) lin.Out {
	out := lin.Out{Class: o.Class, Hit: o.Hit}
	if o.Created != nil {
		out.TxID = *o.Created.Transaction.ID
	}
	if o.Reverted != nil {
		out.TxID = *o.Reverted.RevertTransaction.ID
	}
	return out
}

func execConc(sc concScenario, chooser sched.Chooser, free bool, jitter *rand.Rand) *concRun {
	e := sim.NewEnv(sim.Options{})
	cr := &concRun{env: e, sc: sc, rec: &lin.Recorder{}}
	if err := e.CreateLedger("l1", "_default", nil); err != nil {
		panic(err)
	}
	for _, op := range sc.Prep {
		if out := e.Apply("l1", op); out.Err != nil {
			panic(fmt.Sprintf("prep failed: %v", out.Err))
		}
	}
	cr.init = lin.Init{Balances: map[string]int64{}, Txs: map[uint64][]lin.Transfer{}}
	for k, v := range e.C.CommittedVolumes("l1") {
		cr.init.Balances[k[0]+"|"+k[1]] = new(big.Int).Sub(v[0], v[1]).Int64()
	}
	for _, tx := range e.C.CommittedTransactions("l1") {
		var ts []lin.Transfer
		for _, p := range tx.Postings {
			ts = append(ts, lin.Transfer{Src: p.Source, Dst: p.Destination, Asset: p.Asset, Amount: p.Amount.Int64()})
		}
		cr.init.Txs[*tx.ID] = ts
		if tx.Reference != "" {
			cr.init.Refs = append(cr.init.Refs, tx.Reference)
		}
	}
	cr.outcomes = make([][]sim.Outcome, len(sc.Clients))
	bodies := make([]func(ctx context.Context), len(sc.Clients))
	for ci := range sc.Clients {
		ci := ci
		cr.outcomes[ci] = make([]sim.Outcome, len(sc.Clients[ci]))
		bodies[ci] = func(ctx context.Context) {
			for k, o := range sc.Clients[ci] {
				call := cr.rec.Call()
				out := e.ApplyCtx(ctx, "l1", o.Op)
				cr.outcomes[ci][k] = out
				cr.rec.Return(ci, o.In, call, outOf(out))
			}
		}
	}
	ctx := e.Ctx
	if free {
		done := make(chan struct{})
		go func() {
			defer close(done)
			runFree(ctx, bodies)
		}()
		select {
		case <-done:
		case <-time.After(60 * time.Second):
			cr.find("HARNESS", "free-run-watchdog", nil)
		}
		return cr
	}
	cr.s = sched.New(len(bodies), chooser)
	e.C.Sched = cr.s
	cr.s.Run(ctx, bodies)
	e.C.Sched = nil
	if cr.s.Stuck {
		cr.locksAtEnd = e.C.DebugLocks()
	}
	return cr
}

func runFree(ctx context.Context, bodies []func(ctx context.Context)) {
	done := make(chan struct{}, len(bodies))
	start := make(chan struct{})
	for i, b := range bodies {
		i, b := i, b
		go func() {
			<-start
			b(simWithClient(ctx, i))
			done <- struct{}{}
		}()
	}
	close(start)
	for range bodies {
		<-done
	}
}

// ---------------------------------------------------------------------------
// monitors over one finished execution

func (cr *concRun) monitors(prop string, doLin bool) (linResult string) {
	e, sc := cr.env, cr.sc
	desc := func() map[string]any {
		var outs [][]string
		for ci := range cr.outcomes {
			var row []string
			for k, o := range cr.outcomes[ci] {
				s := sc.Clients[ci][k].In.Label + " => " + o.Class
				if o.Hit {
					s += "(hit)"
				}
				if o.Err != nil && (o.Class == sim.COther || o.Class == sim.CPanic) {
					s += ": " + o.Err.Error()
				}
				row = append(row, s)
			}
			outs = append(outs, row)
		}
		d := map[string]any{"scenario": sc, "outcomes": outs}
		if cr.s != nil {
			d["schedule"] = cr.s.Choices()
			d["interleaving"] = cr.s.String()
		}
		return d
	}
	with := func(extra map[string]any) map[string]any {
		d := desc()
		for k, v := range extra {
			d[k] = v
		}
		return d
	}
	if pend, locks := e.C.PendingLeftovers(); pend != 0 || locks != 0 {
		cr.find("C07", "C07/open-transaction-or-lock-after-all-clients-returned:"+sc.Kind, with(map[string]any{"pending": pend, "locks": locks}))
	}
	snap := e.C.Snapshot("l1")
	txs := e.C.CommittedTransactions("l1")
	// --- store-level: volumes = fold of committed postings (lost updates)
	fold := map[[2]string][2]*big.Int{}
	get := func(k [2]string) [2]*big.Int {
		if _, ok := fold[k]; !ok {
			fold[k] = [2]*big.Int{new(big.Int), new(big.Int)}
		}
		return fold[k]
	}
	for _, tx := range txs {
		for _, p := range tx.Postings {
			get([2]string{p.Source, p.Asset})[1].Add(get([2]string{p.Source, p.Asset})[1], p.Amount)
			get([2]string{p.Destination, p.Asset})[0].Add(get([2]string{p.Destination, p.Asset})[0], p.Amount)
		}
	}
	for k, v := range e.C.CommittedVolumes("l1") {
		f := get(k)
		if f[0].Cmp(v[0]) != 0 || f[1].Cmp(v[1]) != 0 {
			cr.find("C02", "C02/concurrent:volumes-differ-from-fold-of-committed-postings", with(map[string]any{"account": k[0], "asset": k[1], "stored": [2]string{v[0].String(), v[1].String()}, "fold": [2]string{f[0].String(), f[1].String()}}))
			break
		}
	}
	// --- per-response bookkeeping
	okCount, hitCount := 0, 0
	txByID := map[uint64]int{}
	byIK := map[string][]sim.Outcome{}
	revertOK := map[uint64]int{}
	for ci := range cr.outcomes {
		for k, o := range cr.outcomes[ci] {
			cop := sc.Clients[ci][k]
			if o.Class == sim.CPanic || o.Class == sim.COther {
				cr.find(prop, fmt.Sprintf("%s/concurrent:unexpected-%s:%s", prop, o.Class, cop.Op.Kind), with(map[string]any{"error": o.Err.Error()}))
			}
			if o.OK() && !o.Hit {
				okCount++
				if id := outOf(o).TxID; id != 0 {
					txByID[id]++
				}
				if cop.Op.Kind == "revert" {
					revertOK[cop.Op.TxID]++
				}
			}
			if o.OK() && o.Hit {
				hitCount++
			}
			if cop.Op.IK != "" {
				byIK[cop.Op.IK] = append(byIK[cop.Op.IK], o)
			}
		}
	}
	// C08: one log per successful non-hit write
	if len(snap.Logs) != len(sc.Prep)+okCount {
		cr.find("C08", "C08/concurrent:log-count-differs-from-successful-writes:"+sc.Kind, with(map[string]any{"logs": len(snap.Logs), "prep": len(sc.Prep), "successful": okCount}))
	}
	for i := 1; i < len(snap.Logs); i++ {
		if snap.Logs[i].ID <= snap.Logs[i-1].ID {
			cr.find("C08", "C08/concurrent:log-ids-not-unique", with(nil))
		}
	}
	if n := e.Listener.Len(); n != len(sc.Prep)+okCount {
		cr.find("C31", "C31/concurrent:event-count-differs-from-successful-writes:"+sc.Kind, with(map[string]any{"events": n, "successful": len(sc.Prep) + okCount}))
	}
	for id, n := range txByID {
		if n > 1 {
			cr.find("C16", "C16/concurrent:transaction-id-returned-twice", with(map[string]any{"id": id}))
		}
	}
	// C14: references unique among committed transactions
	refs := map[string]int{}
	for _, tx := range txs {
		if tx.Reference != "" {
			refs[tx.Reference]++
		}
	}
	for ref, n := range refs {
		if n > 1 {
			cr.find("C14", "C14/concurrent:two-committed-transactions-share-a-reference", with(map[string]any{"reference": ref, "count": n}))
		}
	}
	for ci := range cr.outcomes {
		for k, o := range cr.outcomes[ci] {
			cop := sc.Clients[ci][k]
			if cop.Op.Reference == "" || !cop.Op.IsCreate() {
				continue
			}
			if !o.OK() && o.Class != sim.CRefConflict && o.Class != sim.CInsufficient && o.Class != sim.CIKMismatch && !strings.HasPrefix(o.Class, "ik") && o.Class != sim.CDeadlock {
				cr.find("C14", "C14/concurrent:duplicate-reference-answered-with-"+o.Class, with(nil))
			}
		}
	}
	// C13: at most one log per idempotency key; every response legal
	ikLogs := map[string]int{}
	for _, l := range snap.Logs {
		if l.IK != "" {
			ikLogs[l.IK]++
		}
	}
	for ik, n := range ikLogs {
		if n > 1 {
			cr.find("C13", "C13/concurrent:several-logs-carry-one-idempotency-key", with(map[string]any{"ik": ik, "logs": n}))
		}
	}
	for ik, outs := range byIK {
		committed := ikLogs[ik] > 0
		for _, o := range outs {
			switch o.Class {
			case sim.COK, sim.CIKMismatch, sim.CIKConflict, sim.CDeadlock, sim.CTooManyClients, sim.CConcurrentTx:
			default:
				if committed {
					cr.find("C13", "C13/concurrent:business-error-although-key-committed:"+o.Class+":"+sc.Kind, with(map[string]any{"ik": ik}))
				}
			}
		}
	}
	// C15: each transaction reverted at most once
	for id, n := range revertOK {
		if n > 1 {
			cr.find("C15", "C15/concurrent:transaction-reverted-more-than-once", with(map[string]any{"id": id, "successes": n}))
		}
	}
	revertTxs := map[string]int{}
	for _, tx := range txs {
		if v, ok := tx.Metadata["com.formance.spec/state/reverts"]; ok {
			revertTxs[v]++
		}
	}
	for id, n := range revertTxs {
		if n > 1 {
			cr.find("C15", "C15/concurrent:several-revert-transactions-for-one-transaction", with(map[string]any{"id": id, "count": n}))
		}
	}
	// C06: commit-time allowance of every bounded source, judged on the
	// post-commit volumes the store computed under its row locks
	byTx := map[uint64]*concOp{}
	for ci := range cr.outcomes {
		for k, o := range cr.outcomes[ci] {
			if o.OK() && !o.Hit && o.Created != nil {
				byTx[*o.Created.Transaction.ID] = &sc.Clients[ci][k]
			}
		}
	}
	for _, tx := range txs {
		cop := byTx[*tx.ID]
		if cop == nil || cop.Op.Force {
			continue
		}
		for _, tr := range cop.In.Transfers {
			if tr.Src == "world" || tr.Bound < 0 {
				continue
			}
			v, ok := tx.PostCommitVolumes[tr.Src][tr.Asset]
			if !ok {
				continue
			}
			post := new(big.Int).Sub(v.Input, v.Output)
			pre := new(big.Int).Add(post, big.NewInt(tr.Amount))
			floor := big.NewInt(-tr.Bound)
			if pre.Cmp(floor) < 0 {
				floor = pre
			}
			if post.Cmp(floor) < 0 {
				cr.find("C06", "C06/concurrent:committed-transaction-overdraws-bounded-source:"+cop.Op.Kind, with(map[string]any{"tx": *tx.ID, "source": tr.Src, "balance_after": post.String(), "allowance": tr.Bound, "balance_before": pre.String()}))
			}
		}
	}
	// --- linearizability
	if doLin {
		res, witness := lin.Check(cr.init, cr.rec.Ops(), 20*time.Second)
		linResult = res
		if res == "illegal" {
			p := prop
			if p != "C06" && p != "C13" && p != "C15" && p != "C14" {
				p = "C06"
			}
			cr.find(p, p+"/concurrent:history-not-linearizable:"+sc.Kind, with(map[string]any{"history": strings.Split(witness, "\n"), "initial": cr.init}))
		}
	}
	return
}

func sortedKeys[V any](m map[string]V) []string {
	ks := make([]string, 0, len(m))
	for k := range m {
		ks = append(ks, k)
	}
	sort.Strings(ks)
	return ks
}

// ---------------------------------------------------------------------------
// the runner used by C06, C13, C14, C15, C08

func init() {
	runConcurrent = runConcurrentImpl
}

func runConcurrentImpl(r *core.Run, prop string) {
	if r.RaceMode {
		// free-running: real goroutines, memstore's own mutexes, race detector watching
		n := r.N(600, 8000)
		r.ForEach("free", n, 8, func(c *core.Case) {
			sc := genConcScenario(c.Rng, prop, c.Index)
			cr := execConc(sc, nil, true, c.Rng)
			lr := cr.monitors(prop, true)
			cr.env.Close()
			r.Eval(fmt.Sprintf("%s|%v", sc.Kind, cr.outcomes), true)
			r.Count("free_runs", 1)
			r.Seen("lin_results", lr)
			for _, f := range cr.findings {
				if f.Prop == prop || f.Prop == "HARNESS" {
					c.Violation(f.Sig+":free-mode", f.Detail)
				}
			}
		})
		return
	}
	nsc := r.N(40, 400)
	perScenario := r.N(300, 1500)
	r.Floor("interleavings", int64(nsc*perScenario/4))
	r.ForEach("conc", nsc, 0, func(c *core.Case) {
		sc := genConcScenario(c.Rng, prop, c.Index)
		if c.Index < 2 {
			r.Sample(map[string]any{"scenario": sc})
		}
		report := func(cr *concRun, lr string) {
			r.Count("schedules_run", 1)
			r.Seen("interleavings", fmt.Sprintf("%d/%s", c.Index, cr.s.Hash()))
			r.Count("scheduling_decisions", int64(len(cr.s.Trace)))
			for k, v := range cr.env.C.Stats() {
				r.Count(k, v)
			}
			if lr != "" {
				r.Count("histories_checked_by_porcupine_"+lr, 1)
			}
			var classes []string
			overlapped := 0
			for ci := range cr.outcomes {
				for _, o := range cr.outcomes[ci] {
					classes = append(classes, o.Class)
				}
			}
			for _, st := range cr.s.Trace {
				if st.Current >= 0 && st.Chosen != st.Current {
					overlapped++
				}
			}
			r.Eval(fmt.Sprintf("%d|%s|%s", c.Index, cr.s.Hash(), strings.Join(classes, ",")), overlapped > 0)
			r.Seen("outcome_vectors", sc.Kind+":"+strings.Join(classes, ","))
			if cr.s.Stuck {
				r.Count("stuck_runs", 1)
				c.Violation(fmt.Sprintf("%s/concurrent:all-clients-blocked-forever:%s", prop, sc.Kind), map[string]any{"scenario": sc, "interleaving": cr.s.String(), "locks": cr.locksAtEnd})
			}
			for _, f := range cr.findings {
				if f.Prop == prop {
					c.Violation(f.Sig, f.Detail)
				} else {
					r.Seen("findings_for_other_properties", f.Sig)
				}
			}
		}
		// (1) bounded exhaustive exploration
		x := &sched.Explorer{Bound: r.N(2, 3), MaxRuns: perScenario * 2 / 3, Rng: c.Rng}
		x.Explore(func(prefix []int) *sched.Sched {
			cr := execConc(sc, &sched.PrefixChooser{Prefix: prefix}, false, nil)
			lr := cr.monitors(prop, true)
			cr.env.Close()
			report(cr, lr)
			return cr.s
		})
		if x.Complete {
			r.Count("scenarios_with_bounded_space_fully_enumerated", 1)
		}
		r.Count("replay_divergences", int64(x.Diverged))
		// (2) random walks (unbounded preemptions)
		for i := 0; i < perScenario/3; i++ {
			cr := execConc(sc, &sched.RandomChooser{Rng: c.Rng, Switch: 2 + c.Rng.Intn(4)}, false, nil)
			lr := cr.monitors(prop, true)
			cr.env.Close()
			report(cr, lr)
		}
	})
}
