package checks

import (
	"encoding/json"
	"fmt"
	"math/rand"
	"net/url"
	"sort"
	"strings"

	ledger "github.com/formancehq/ledger/internal"
	"github.com/formancehq/ledger/pkg/features"

	"github.com/formancehq/ledger/verifharness/core"
	"github.com/formancehq/ledger/verifharness/memstore"
	"github.com/formancehq/ledger/verifharness/sim"
)

func init() {
	core.Register(&core.Check{
		ID: "C11", Level: "exploration",
		Rule:        "random source histories (all write kinds, adversarial strings, amount pool, back-dated timestamps, random feature sets) interleaved with ID-BURNING operations at the beginning, in the middle and at the end (dry runs, failed atomic bulks, writes whose COMMIT fails, reference conflicts after id allocation), so that log / transaction ids have holes and need not start at 1 -> POST /logs/export bytes -> POST /logs/import on fresh ledgers with the same features (real handlers, real Log JSON codec, real state tracker) -> committed snapshots compared field by field, export of the copy compared with the export of the source -> post-import continuation: the SAME writes are applied to the copy and to the source, the FIRST one drawn in turn from every (write kind x path) pair {create postings, create script, revert of an imported transaction, save/delete transaction metadata, save/delete account metadata, schema insert, dry-run create/revert, failing create/revert} x {controller call, HTTP v2, HTTP v1, non-atomic bulk, atomic bulk}, followed by random further writes (incl. reference conflicts and idempotent replays of imported keys): outcomes must coincide, new ids must continue the imported ones exactly as they continue the source's sequences, reduced final states must coincide -> the copy's export is imported once more (second generation) and compared. Distinct = (history shape, first-write kind, path); non-trivial = source history committed >=3 logs of >=2 types",
		Assumptions: []string{seqAssume, "sequence semantics (nextval not rolled back, setval(max(id))) as modelled in memstore"},
		Run:         runC11,
	})
}

func diffSnap(a, b *memstore.Snap) []string {
	var d []string
	ja, _ := json.Marshal(a.Transactions)
	jb, _ := json.Marshal(b.Transactions)
	if string(ja) != string(jb) {
		n := len(a.Transactions)
		if len(b.Transactions) != n {
			d = append(d, fmt.Sprintf("transaction-count: %d vs %d", n, len(b.Transactions)))
		} else {
			for i := range a.Transactions {
				x, _ := json.Marshal(a.Transactions[i])
				y, _ := json.Marshal(b.Transactions[i])
				if string(x) != string(y) {
					d = append(d, fmt.Sprintf("transaction: %d: %s vs %s", a.Transactions[i].ID, x, y))
					break
				}
			}
		}
	}
	if len(a.Accounts) != len(b.Accounts) {
		d = append(d, fmt.Sprintf("account-count: %d vs %d", len(a.Accounts), len(b.Accounts)))
	} else {
		for i := range a.Accounts {
			x, y := a.Accounts[i], b.Accounts[i]
			mx, _ := json.Marshal(x.Metadata)
			my, _ := json.Marshal(y.Metadata)
			if x.Address != y.Address || string(mx) != string(my) {
				d = append(d, fmt.Sprintf("account-metadata: %s: %+v vs %+v", x.Address, x, y))
				break
			}
			if x.FirstUsage != y.FirstUsage {
				cls := "account-first-usage"
				// narrow class: a SET_METADATA log on this account dated before the source's first usage
				for _, l := range a.Logs {
					if l.Type == "SET_METADATA" && strings.Contains(l.Data, `"targetId":"`+x.Address+`"`) && l.Date < x.FirstUsage {
						cls = "account-first-usage:metadata-saved-before-first-usage"
					}
				}
				d = append(d, fmt.Sprintf("%s: %s: %+v vs %+v", cls, x.Address, x, y))
				break
			}
		}
	}
	nz := func(vs []memstore.SnapVolume) []memstore.SnapVolume {
		var out []memstore.SnapVolume
		for _, v := range vs {
			if v.Input != "0" || v.Output != "0" {
				out = append(out, v)
			}
		}
		return out
	}
	va, _ := json.Marshal(nz(a.Volumes))
	vb, _ := json.Marshal(nz(b.Volumes))
	if string(va) != string(vb) {
		d = append(d, "volumes: differ")
	}
	if len(a.Logs) != len(b.Logs) {
		d = append(d, fmt.Sprintf("log-count: %d vs %d", len(a.Logs), len(b.Logs)))
	} else {
		for i := range a.Logs {
			x, y := a.Logs[i], b.Logs[i]
			if x.ID != y.ID || x.Type != y.Type || x.Date != y.Date || x.IK != y.IK || x.Hash != y.Hash || x.Schema != y.Schema {
				d = append(d, fmt.Sprintf("log-header: %d: %+v vs %+v", x.ID, x, y))
				break
			}
			if x.IKHash != y.IKHash {
				d = append(d, fmt.Sprintf("log-idempotency-hash: %d: %q vs %q", x.ID, x.IKHash, y.IKHash))
				break
			}
			var dx, dy any
			_ = json.Unmarshal([]byte(x.Data), &dx)
			_ = json.Unmarshal([]byte(y.Data), &dy)
			nx, _ := json.Marshal(dx)
			ny, _ := json.Marshal(dy)
			if string(nx) != string(ny) {
				d = append(d, fmt.Sprintf("log-payload: %d: %s vs %s", x.ID, nx, ny))
				break
			}
		}
	}
	if strings.Join(a.Schemas, ",") != strings.Join(b.Schemas, ",") {
		d = append(d, "schemas: differ")
	}
	return d
}

const c11KnownFirstUsage = "account-first-usage:metadata-saved-before-first-usage"

// ---------------------------------------------------------------------------
// source histories with burnt ids

type c11Step struct {
	Note    string  `json:"note"`
	Op      *sim.Op `json:"op,omitempty"`
	Outcome string  `json:"outcome"`
}

type c11Source struct {
	e     *sim.Env
	rng   *rand.Rand
	st    *sim.GenState
	Steps []c11Step
	types map[string]bool
	refs  []string
	// committed, non-dry-run source ops carrying an idempotency key
	ikOps   []sim.Op
	burners map[string]bool
}

func c11Features(rng *rand.Rand) features.FeatureSet {
	fs := features.FeatureSet{}
	keys := make([]string, 0, len(features.FeatureConfigurations))
	for k := range features.FeatureConfigurations {
		keys = append(keys, k)
	}
	sort.Strings(keys)
	for _, k := range keys {
		vals := features.FeatureConfigurations[k]
		fs[k] = vals[rng.Intn(len(vals))]
	}
	if rng.Intn(3) > 0 {
		fs[features.FeatureHashLogs] = "SYNC"
	}
	return fs
}

func (s *c11Source) apply(note string, op sim.Op) sim.Outcome {
	out := s.e.Apply("src", op)
	cp := op
	oc := out.Class
	if out.Hit {
		oc += ":hit"
	}
	s.Steps = append(s.Steps, c11Step{Note: note, Op: &cp, Outcome: oc})
	if out.OK() && out.Log != nil && !out.Hit && !op.DryRun {
		s.types[out.Log.Type.String()] = true
		if out.Created != nil {
			s.st.TxIDs = append(s.st.TxIDs, *out.Created.Transaction.ID)
			if op.Reference != "" {
				s.refs = append(s.refs, op.Reference)
			}
		}
		if out.Reverted != nil {
			s.st.TxIDs = append(s.st.TxIDs, *out.Reverted.RevertTransaction.ID)
		}
		if op.IK != "" {
			s.ikOps = append(s.ikOps, op)
		}
	}
	return out
}

var c11ValidCreate = sim.Op{Kind: "postings", Postings: []sim.P{{Source: "world", Destination: "burn:er", Asset: "USD", Amount: "3"}}}

// burn performs one operation that allocates ids from the sequences and then rolls back.
func (s *c11Source) burn(where string) {
	kinds := []string{"dry-run-create", "dry-run-account-metadata", "failed-atomic-bulk", "failed-commit", "dry-run-random-op", "reference-conflict", "dry-run-revert"}
	k := kinds[s.rng.Intn(len(kinds))]
	if k == "reference-conflict" && len(s.refs) == 0 {
		k = "dry-run-create"
	}
	if k == "dry-run-revert" && len(s.st.TxIDs) == 0 {
		k = "failed-commit"
	}
	s.burners[where+":"+k] = true
	note := "burn(" + where + "):" + k
	switch k {
	case "dry-run-create":
		op := c11ValidCreate
		op.DryRun = true
		s.apply(note, op)
	case "dry-run-account-metadata":
		s.apply(note, sim.Op{Kind: "save_acc_meta", Address: "burn:er", Metadata: map[string]string{"b": "1"}, DryRun: true})
	case "dry-run-revert":
		s.apply(note, sim.Op{Kind: "revert", TxID: s.st.TxIDs[s.rng.Intn(len(s.st.TxIDs))], Force: true, DryRun: true})
	case "dry-run-random-op":
		op := sim.GenOp(s.rng, s.st)
		op.DryRun = true
		op.IK = ""
		s.apply(note, op)
	case "reference-conflict":
		op := c11ValidCreate
		op.Reference = s.refs[s.rng.Intn(len(s.refs))]
		s.apply(note, op)
	case "failed-commit":
		p := &sim.FaultPlan{N: 1, Kind: "commit-failure"}
		un := p.Install(s.e)
		s.apply(note, c11ValidCreate)
		un()
	case "failed-atomic-bulk":
		body := `[{"action":"CREATE_TRANSACTION","data":{"postings":[{"source":"world","destination":"burn:er","asset":"USD","amount":3}]}},{"action":"ADD_METADATA","data":{"targetType":"ACCOUNT","targetId":"burn:er","metadata":{"b":"1"}}},{"action":"CREATE_TRANSACTION","data":{"postings":[{"source":"burn:empty","destination":"burn:er","asset":"USD","amount":3}]}}]`
		r := s.e.Do("POST", "/v2/src/_bulk?atomic=true", []byte(body), nil)
		if r.Status == 500 && len(r.Body) == 0 {
			s.e.C.AbortAll()
		}
		s.Steps = append(s.Steps, c11Step{Note: note + " POST /v2/src/_bulk?atomic=true " + body, Outcome: fmt.Sprint(r.Status)})
	}
}

// c11Holes describes the id holes of a snapshot.
type c11Holes struct {
	LogFirstAbove1, LogMiddle, LogTrailing bool
	TxFirstAbove1, TxMiddle, TxTrailing    bool
}

func c11HolesOf(s *memstore.Snap) c11Holes {
	var h c11Holes
	for i, l := range s.Logs {
		if i == 0 && l.ID > 1 {
			h.LogFirstAbove1 = true
		}
		if i > 0 && l.ID != s.Logs[i-1].ID+1 {
			h.LogMiddle = true
		}
	}
	if n := len(s.Logs); n > 0 && s.SeqLog > s.Logs[n-1].ID {
		h.LogTrailing = true
	}
	for i, t := range s.Transactions {
		if i == 0 && t.ID > 1 {
			h.TxFirstAbove1 = true
		}
		if i > 0 && t.ID != s.Transactions[i-1].ID+1 {
			h.TxMiddle = true
		}
	}
	if n := len(s.Transactions); n > 0 && s.SeqTx > s.Transactions[n-1].ID {
		h.TxTrailing = true
	}
	return h
}

// ---------------------------------------------------------------------------
// post-import writes

// c11Write is one request: a single operation through the controller / HTTP, or a bulk of operations.
type c11Write struct {
	Kind string   `json:"kind"`
	Path string   `json:"path"` // controller, http, http-v1, bulk, bulk-atomic
	Ops  []sim.Op `json:"ops"`
}

var c11Kinds = []string{"create", "script", "revert", "save_tx_meta", "del_tx_meta", "save_acc_meta", "del_acc_meta", "insert_schema",
	"dry-run-create", "dry-run-revert", "failing-create", "failing-revert"}

func c11PathsOf(kind string) []string {
	switch kind {
	case "create":
		return []string{"controller", "http", "http-v1", "bulk", "bulk-atomic"}
	case "insert_schema", "dry-run-create", "dry-run-revert":
		return []string{"controller", "http"}
	}
	return []string{"controller", "http", "bulk", "bulk-atomic"}
}

type c11Pair struct{ Kind, Path string }

var c11Pairs = func() []c11Pair {
	var out []c11Pair
	for _, k := range c11Kinds {
		for _, p := range c11PathsOf(k) {
			out = append(out, c11Pair{k, p})
		}
	}
	return out
}()

// c11Cont is what the continuation generator knows about the imported ledger.
type c11Cont struct {
	rng      *rand.Rand
	n        int
	liveTx   []uint64            // imported, not reverted (as far as the generator knows)
	allTx    []uint64            // imported
	txKeys   map[uint64][]string // metadata keys of imported transactions
	accounts []string
	accKeys  map[string][]string
	refs     []string // references used by continuation creates
	ikOps    []sim.Op // imported operations with idempotency keys
	ownIK    []c11Write
}

func c11NewCont(rng *rand.Rand, s *memstore.Snap, ikOps []sim.Op) *c11Cont {
	c := &c11Cont{rng: rng, txKeys: map[uint64][]string{}, accKeys: map[string][]string{}, ikOps: ikOps}
	for _, t := range s.Transactions {
		c.allTx = append(c.allTx, t.ID)
		if t.RevertedAt == "" {
			c.liveTx = append(c.liveTx, t.ID)
		}
		for k := range t.Metadata {
			if c11SimpleKey(k) {
				c.txKeys[t.ID] = append(c.txKeys[t.ID], k)
			}
		}
		sort.Strings(c.txKeys[t.ID])
	}
	for _, a := range s.Accounts {
		c.accounts = append(c.accounts, a.Address)
		for k := range a.Metadata {
			if c11SimpleKey(k) {
				c.accKeys[a.Address] = append(c.accKeys[a.Address], k)
			}
		}
		sort.Strings(c.accKeys[a.Address])
	}
	return c
}

func c11SimpleKey(k string) bool {
	if k == "" {
		return false
	}
	for _, r := range k {
		if !(r >= 'a' && r <= 'z' || r >= 'A' && r <= 'Z' || r >= '0' && r <= '9' || r == '_' || r == '-') {
			return false
		}
	}
	return true
}

var c11SchemaData = func() ledger.SchemaData {
	var sd ledger.SchemaData
	if err := json.Unmarshal([]byte(`{"chart":{"world":{},"post":{"$any":{}},"users":{"$id":{}}}}`), &sd); err != nil {
		panic(err)
	}
	return sd
}()

func (c *c11Cont) pickTx(live bool) uint64 {
	pool := c.allTx
	if live {
		pool = c.liveTx
	}
	if len(pool) == 0 {
		return 424242
	}
	return pool[c.rng.Intn(len(pool))]
}

func (c *c11Cont) markReverted(id uint64) {
	for i, x := range c.liveTx {
		if x == id {
			c.liveTx = append(append([]uint64{}, c.liveTx[:i]...), c.liveTx[i+1:]...)
			return
		}
	}
}

func (c *c11Cont) op(kind string) sim.Op {
	c.n++
	rng := c.rng
	switch kind {
	case "create", "dry-run-create", "plain-create":
		o := sim.Op{Kind: "postings", Postings: []sim.P{{Source: "world", Destination: fmt.Sprintf("post:import%d", c.n), Asset: "USD", Amount: fmt.Sprint(c.n)}}}
		if rng.Intn(2) == 0 {
			o.Metadata = map[string]string{"pi": fmt.Sprint(c.n)}
		}
		if kind == "plain-create" {
			return o
		}
		if kind == "dry-run-create" {
			o.DryRun = true
			return o
		}
		if rng.Intn(3) == 0 {
			o.Reference = fmt.Sprintf("pi-ref-%d", c.n)
			c.refs = append(c.refs, o.Reference)
		}
		if rng.Intn(4) == 0 {
			o.IK = fmt.Sprintf("pi-ik-%d", c.n)
		}
		return o
	case "reference-conflict":
		o := sim.Op{Kind: "postings", Postings: []sim.P{{Source: "world", Destination: "post:dup", Asset: "USD", Amount: "1"}}}
		o.Reference = c.refs[rng.Intn(len(c.refs))]
		return o
	case "script":
		return sim.Op{Kind: "script", Plain: fmt.Sprintf("send [USD %d] (\n source = @world\n destination = @post:script\n)\nset_tx_meta(\"pi\", \"s\")\n", c.n)}
	case "revert", "dry-run-revert":
		o := sim.Op{Kind: "revert", TxID: c.pickTx(true), Force: true, AtEffectiveDate: rng.Intn(2) == 0}
		if kind == "dry-run-revert" {
			o.DryRun = true
		} else {
			c.markReverted(o.TxID)
		}
		return o
	case "save_tx_meta":
		return sim.Op{Kind: "save_tx_meta", TxID: c.pickTx(false), Metadata: map[string]string{"pi": fmt.Sprint(c.n)}}
	case "del_tx_meta":
		id := c.pickTx(false)
		var withKeys []uint64
		for _, t := range c.allTx {
			if len(c.txKeys[t]) > 0 {
				withKeys = append(withKeys, t)
			}
		}
		if len(withKeys) > 0 && rng.Intn(5) > 0 {
			id = withKeys[rng.Intn(len(withKeys))]
		}
		key := "absent"
		if ks := c.txKeys[id]; len(ks) > 0 {
			key = ks[rng.Intn(len(ks))]
		}
		return sim.Op{Kind: "del_tx_meta", TxID: id, Key: key}
	case "save_acc_meta":
		addr := "post:meta"
		if len(c.accounts) > 0 && rng.Intn(3) > 0 {
			addr = c.accounts[rng.Intn(len(c.accounts))]
		}
		return sim.Op{Kind: "save_acc_meta", Address: addr, Metadata: map[string]string{"pi": fmt.Sprint(c.n)}}
	case "del_acc_meta":
		addr, key := "post:meta", "absent"
		if len(c.accounts) > 0 {
			addr = c.accounts[rng.Intn(len(c.accounts))]
			if ks := c.accKeys[addr]; len(ks) > 0 {
				key = ks[rng.Intn(len(ks))]
			}
		}
		return sim.Op{Kind: "del_acc_meta", Address: addr, Key: key}
	case "insert_schema":
		return sim.Op{Kind: "insert_schema", Version: fmt.Sprintf("pi-v%d", c.n), Schema: c11SchemaData}
	case "failing-create":
		return sim.Op{Kind: "postings", Postings: []sim.P{{Source: "post:empty", Destination: "post:nobody", Asset: "USD", Amount: "5"}}}
	case "failing-revert":
		return sim.Op{Kind: "revert", TxID: 999999}
	}
	panic(kind)
}

// write builds the request for (kind, path). A bulk gets, half of the time, a trailing always-valid create.
func (c *c11Cont) write(kind, path string) c11Write {
	w := c11Write{Kind: kind, Path: path, Ops: []sim.Op{c.op(kind)}}
	if strings.HasPrefix(path, "bulk") && kind != "reference-conflict" && c.rng.Intn(2) == 0 {
		w.Ops = append(w.Ops, c.op("plain-create"))
	}
	if len(w.Ops) == 1 && w.Ops[0].IK != "" {
		c.ownIK = append(c.ownIK, w)
	}
	return w
}

// later draws a follow-up write.
func (c *c11Cont) later() c11Write {
	rng := c.rng
	switch x := rng.Intn(12); {
	case x == 0 && len(c.refs) > 0:
		return c.write("reference-conflict", []string{"controller", "http", "bulk", "bulk-atomic"}[rng.Intn(4)])
	case x == 1 && len(c.ikOps) > 0:
		// idempotent replay of an imported operation
		return c11Write{Kind: "replay-imported-idempotency-key", Path: "controller", Ops: []sim.Op{c.ikOps[rng.Intn(len(c.ikOps))]}}
	case x == 2 && len(c.ownIK) > 0:
		w := c.ownIK[rng.Intn(len(c.ownIK))]
		w.Kind = "replay-own-idempotency-key"
		return w
	}
	k := c11Kinds[rng.Intn(len(c11Kinds))]
	ps := c11PathsOf(k)
	return c.write(k, ps[rng.Intn(len(ps))])
}

func c11CreateBody(o sim.Op) map[string]any {
	b := map[string]any{}
	if o.Kind == "postings" {
		ps := make([]map[string]any, 0, len(o.Postings))
		for _, p := range o.Postings {
			ps = append(ps, map[string]any{"source": p.Source, "destination": p.Destination, "asset": p.Asset, "amount": json.Number(p.Amount)})
		}
		b["postings"] = ps
	} else {
		sc := map[string]any{"plain": o.Plain}
		if o.Vars != nil {
			sc["vars"] = o.Vars
		}
		b["script"] = sc
	}
	if o.Metadata != nil {
		b["metadata"] = o.Metadata
	}
	if o.Reference != "" {
		b["reference"] = o.Reference
	}
	if o.Timestamp != "" {
		b["timestamp"] = o.Timestamp
	}
	return b
}

// c11HTTP maps an operation to its v2 (or, for creates, v1) request.
func c11HTTP(name string, o sim.Op, v1 bool) (method, path string, body []byte, hdr map[string]string) {
	q := url.Values{}
	if o.DryRun {
		q.Set("dryRun", "true")
	}
	if o.Force {
		q.Set("force", "true")
	}
	hdr = map[string]string{}
	if o.IK != "" {
		hdr["Idempotency-Key"] = o.IK
	}
	base := "/v2/" + name
	if v1 {
		base = "/" + name
	}
	method = "POST"
	switch o.Kind {
	case "postings", "script":
		path = base + "/transactions"
		body, _ = json.Marshal(c11CreateBody(o))
	case "revert":
		path = fmt.Sprintf("%s/transactions/%d/revert", base, o.TxID)
		if o.AtEffectiveDate {
			q.Set("atEffectiveDate", "true")
		}
		if o.Metadata != nil {
			body, _ = json.Marshal(map[string]any{"metadata": o.Metadata})
		}
	case "save_tx_meta":
		path = fmt.Sprintf("%s/transactions/%d/metadata", base, o.TxID)
		body, _ = json.Marshal(o.Metadata)
	case "del_tx_meta":
		method, path = "DELETE", fmt.Sprintf("%s/transactions/%d/metadata/%s", base, o.TxID, url.PathEscape(o.Key))
	case "save_acc_meta":
		path = fmt.Sprintf("%s/accounts/%s/metadata", base, o.Address)
		body, _ = json.Marshal(o.Metadata)
	case "del_acc_meta":
		method, path = "DELETE", fmt.Sprintf("%s/accounts/%s/metadata/%s", base, o.Address, url.PathEscape(o.Key))
	case "insert_schema":
		path = fmt.Sprintf("%s/schemas/%s", base, o.Version)
		body, _ = json.Marshal(o.Schema)
	default:
		panic(o.Kind)
	}
	if len(q) > 0 {
		path += "?" + q.Encode()
	}
	return
}

func c11BulkElem(o sim.Op) map[string]any {
	el := map[string]any{}
	if o.IK != "" {
		el["ik"] = o.IK
	}
	switch o.Kind {
	case "postings", "script":
		d := c11CreateBody(o)
		if o.Force {
			d["force"] = true
		}
		el["action"], el["data"] = "CREATE_TRANSACTION", d
	case "revert":
		d := map[string]any{"id": o.TxID, "force": o.Force, "atEffectiveDate": o.AtEffectiveDate}
		if o.Metadata != nil {
			d["metadata"] = o.Metadata
		}
		el["action"], el["data"] = "REVERT_TRANSACTION", d
	case "save_tx_meta":
		el["action"], el["data"] = "ADD_METADATA", map[string]any{"targetType": "TRANSACTION", "targetId": o.TxID, "metadata": o.Metadata}
	case "save_acc_meta":
		el["action"], el["data"] = "ADD_METADATA", map[string]any{"targetType": "ACCOUNT", "targetId": o.Address, "metadata": o.Metadata}
	case "del_tx_meta":
		el["action"], el["data"] = "DELETE_METADATA", map[string]any{"targetType": "TRANSACTION", "targetId": o.TxID, "key": o.Key}
	case "del_acc_meta":
		el["action"], el["data"] = "DELETE_METADATA", map[string]any{"targetType": "ACCOUNT", "targetId": o.Address, "key": o.Key}
	default:
		panic(o.Kind)
	}
	return el
}

// c11Exec performs w on the named ledger; returns an outcome string (comparable between ledgers) and the
// transaction / log ids the response announced (0 when the response does not carry one).
func c11Exec(e *sim.Env, name string, w c11Write) (status string, txID, logID uint64) {
	switch w.Path {
	case "controller":
		out := e.Apply(name, w.Ops[0])
		status = out.Class
		if out.Hit {
			status += ":hit"
		}
		if out.OK() {
			if out.Created != nil {
				txID = *out.Created.Transaction.ID
			}
			if out.Reverted != nil {
				txID = *out.Reverted.RevertTransaction.ID
			}
			if out.Log != nil && out.Log.ID != nil {
				logID = *out.Log.ID
			}
		}
		return
	case "http", "http-v1":
		m, p, body, hdr := c11HTTP(name, w.Ops[0], w.Path == "http-v1")
		r := e.Do(m, p, body, hdr)
		if r.Status == 500 && len(r.Body) == 0 {
			e.C.AbortAll()
		}
		var v struct {
			Data      json.RawMessage `json:"data"`
			ErrorCode string          `json:"errorCode"`
		}
		_ = json.Unmarshal(r.Body, &v)
		status = fmt.Sprintf("%d:%s", r.Status, v.ErrorCode)
		if r.Header.Get("Idempotency-Hit") != "" {
			status += ":hit"
		}
		if r.Status/100 == 2 && len(v.Data) > 0 {
			var one struct {
				ID uint64 `json:"id"`
			}
			var arr []struct {
				ID uint64 `json:"id"`
			}
			if json.Unmarshal(v.Data, &arr) == nil && len(arr) == 1 {
				txID = arr[0].ID
			} else if json.Unmarshal(v.Data, &one) == nil {
				txID = one.ID
			}
		}
		return
	default:
		els := make([]map[string]any, 0, len(w.Ops))
		for _, o := range w.Ops {
			els = append(els, c11BulkElem(o))
		}
		body, _ := json.Marshal(els)
		q := ""
		if w.Path == "bulk-atomic" {
			q = "?atomic=true"
		}
		r := e.Do("POST", "/v2/"+name+"/_bulk"+q, body, nil)
		if r.Status == 500 && len(r.Body) == 0 {
			e.C.AbortAll()
		}
		var v struct {
			Data []struct {
				ErrorCode string `json:"errorCode"`
				LogID     uint64 `json:"logID"`
			} `json:"data"`
			ErrorCode string `json:"errorCode"`
		}
		_ = json.Unmarshal(r.Body, &v)
		status = fmt.Sprintf("%d:%s", r.Status, v.ErrorCode)
		for _, d := range v.Data {
			if d.ErrorCode != "" {
				status += ":" + d.ErrorCode
			} else {
				status += ":ok"
			}
		}
		return
	}
}

func c11MaxIDs(s *memstore.Snap) (tx, log uint64) {
	for _, t := range s.Transactions {
		if t.ID > tx {
			tx = t.ID
		}
	}
	for _, l := range s.Logs {
		if l.ID > log {
			log = l.ID
		}
	}
	return
}

// c11NewIDs: ids present in after and not in before.
func c11NewIDs(before, after *memstore.Snap) (txs, logs []uint64) {
	bt := map[uint64]bool{}
	for _, t := range before.Transactions {
		bt[t.ID] = true
	}
	for _, t := range after.Transactions {
		if !bt[t.ID] {
			txs = append(txs, t.ID)
		}
	}
	bl := map[uint64]bool{}
	for _, l := range before.Logs {
		bl[l.ID] = true
	}
	for _, l := range after.Logs {
		if !bl[l.ID] {
			logs = append(logs, l.ID)
		}
	}
	return
}

// c11Bases: the values the id sequences effectively start from for the next write. A ledger still
// "initializing" resynchronises both sequences to max(id) (when there are rows) before its first write.
func c11Bases(s *memstore.Snap) (tx, log uint64) {
	tx, log = s.SeqTx, s.SeqLog
	if s.State == "initializing" {
		mt, ml := c11MaxIDs(s)
		if len(s.Transactions) > 0 {
			tx = mt
		}
		if len(s.Logs) > 0 {
			log = ml
		}
	}
	return
}

func c11Rel(ids []uint64, base uint64) []int64 {
	out := make([]int64, len(ids))
	for i, id := range ids {
		out[i] = int64(id) - int64(base)
	}
	return out
}

// c11Reduced: clock-independent view of a ledger after the continuation; transactions and logs that are
// not part of the imported set are numbered by rank.
func c11Reduced(s *memstore.Snap, imported *memstore.Snap) []string {
	it, il := map[uint64]bool{}, map[uint64]bool{}
	for _, t := range imported.Transactions {
		it[t.ID] = true
	}
	for _, l := range imported.Logs {
		il[l.ID] = true
	}
	var out []string
	n := 0
	for _, t := range s.Transactions {
		label := fmt.Sprint(t.ID)
		ts := t.Timestamp
		if !it[t.ID] {
			n++
			label = fmt.Sprintf("new#%d", n)
			ts = ""
		}
		md, _ := json.Marshal(t.Metadata)
		out = append(out, fmt.Sprintf("tx %s %v md=%s ref=%q reverted=%v ts=%s", label, t.Postings, md, t.Reference, t.RevertedAt != "", ts))
	}
	n = 0
	for _, l := range s.Logs {
		if il[l.ID] {
			out = append(out, fmt.Sprintf("log %d %s ik=%q schema=%q hash=%s", l.ID, l.Type, l.IK, l.Schema, l.Hash))
			continue
		}
		n++
		out = append(out, fmt.Sprintf("log new#%d %s ik=%q schema=%q", n, l.Type, l.IK, l.Schema))
	}
	for _, a := range s.Accounts {
		md, _ := json.Marshal(a.Metadata)
		out = append(out, fmt.Sprintf("account %s md=%s", a.Address, md))
	}
	for _, v := range s.Volumes {
		if v.Input != "0" || v.Output != "0" {
			out = append(out, fmt.Sprintf("volumes %s %s %s/%s", v.Account, v.Asset, v.Input, v.Output))
		}
	}
	out = append(out, "schemas="+strings.Join(s.Schemas, ","))
	return out
}

func runC11(r *core.Run) {
	n := r.N(4*len(c11Pairs), 150*len(c11Pairs))
	r.Floor("imports_compared", int64(n*8/10))
	r.Floor("histories_with_log_id_hole_in_the_middle", int64(n/4))
	r.Floor("histories_with_first_log_id_above_1", int64(n/6))
	r.Floor("first_write_kinds", int64(len(c11Pairs)))
	r.Floor("histories_longer_than_two_export_pages", int64(n/20))
	r.ForEach("hist", n, 0, func(c *core.Case) {
		rng := c.Rng
		e := sim.NewEnv(sim.Options{})
		defer e.Close()
		fs := c11Features(rng)
		if err := e.CreateLedger("src", "_default", fs); err != nil {
			r.Inconclusive(err.Error())
			return
		}
		pair := c11Pairs[c.Index%len(c11Pairs)]
		src := &c11Source{e: e, rng: rng, st: &sim.GenState{}, types: map[string]bool{}, burners: map[string]bool{}}
		// ---- source history, with id-burning operations at the beginning, in the middle, at the end
		clean := rng.Intn(6) == 0 // no id burnt before the last log: contiguous ids
		if !clean && rng.Intn(5) < 3 {
			for i := 0; i <= rng.Intn(2); i++ {
				src.burn("begin")
			}
		}
		nops := 4 + rng.Intn(r.N(25, 40))
		if c.Index%16 == 5 {
			// a source with more logs than one export page (the export walks the logs 100 at a time)
			nops = 205 + rng.Intn(20)
			r.Count("histories_longer_than_two_export_pages", 1)
			// and one log whose exported line is far longer than 64 KiB (a transaction with hundreds of postings)
			var ps []sim.P
			for k := 0; k < 700; k++ {
				ps = append(ps, sim.P{Source: "world", Destination: fmt.Sprintf("payouts:batch:%04d:beneficiary", k), Asset: "USD/2", Amount: fmt.Sprint(1000 + k)})
			}
			src.apply("a-transaction-with-700-postings", sim.Op{Kind: "postings", Postings: ps, Metadata: map[string]string{"k1": "bulk payout"}})
			r.Count("histories_with_an_export_line_over_64KiB", 1)
		}
		for i := 0; i < nops; i++ {
			if !clean && i > 0 && rng.Intn(6) == 0 {
				src.burn("middle")
			}
			src.apply("", sim.GenOp(rng, src.st))
		}
		needsTx := pair.Kind == "revert" || pair.Kind == "dry-run-revert" || pair.Kind == "save_tx_meta" || pair.Kind == "del_tx_meta"
		if pre := c11NewCont(rng, e.C.Snapshot("src"), nil); needsTx && (len(pre.liveTx) == 0 || pair.Kind == "del_tx_meta" && len(pre.txKeys) == 0) {
			src.apply("guarantee-a-revertible-transaction", sim.Op{Kind: "postings", Postings: []sim.P{{Source: "world", Destination: "users:001", Asset: "USD", Amount: "12"}}, Metadata: map[string]string{"k1": "v"}})
		}
		if rng.Intn(2) == 0 {
			for i := 0; i <= rng.Intn(2); i++ {
				src.burn("end")
			}
		}
		exp := e.Do("POST", "/v2/src/logs/export", nil, nil)
		detail := func(extra map[string]any) map[string]any {
			d := map[string]any{"features": fs.String(), "source_history": src.Steps, "export": string(exp.Body), "first_write": pair}
			for k, v := range extra {
				d[k] = v
			}
			return d
		}
		if exp.Status != 200 {
			c.Violation("C11/export-failed", detail(map[string]any{"status": exp.Status, "body": string(exp.Body)}))
			return
		}
		srcSnap := e.C.Snapshot("src")
		holes := c11HolesOf(srcSnap)
		for name, b := range map[string]bool{
			"histories_with_log_id_holes":                         holes.LogFirstAbove1 || holes.LogMiddle,
			"histories_with_first_log_id_above_1":                 holes.LogFirstAbove1,
			"histories_with_log_id_hole_in_the_middle":            holes.LogMiddle,
			"histories_with_burnt_log_ids_after_the_last_log":     holes.LogTrailing,
			"histories_with_transaction_id_holes":                 holes.TxFirstAbove1 || holes.TxMiddle,
			"histories_with_first_transaction_id_above_1":         holes.TxFirstAbove1,
			"histories_with_burnt_transaction_ids_after_the_last": holes.TxTrailing,
		} {
			if b {
				r.Count(name, 1)
			}
		}
		for b := range src.burners {
			r.Seen("id_burning_operations", b)
		}
		r.Eval(fmt.Sprintf("%d logs %v|holes=%v|%s via %s", len(srcSnap.Logs), len(src.types), holes.LogFirstAbove1 || holes.LogMiddle, pair.Kind, pair.Path), len(srcSnap.Logs) >= 3 && len(src.types) >= 2)
		for t := range src.types {
			r.Seen("log_types_exported", t)
		}
		bucket := "_default"
		if rng.Intn(2) == 0 {
			bucket = "other"
		}
		if err := e.CreateLedger("dst", bucket, fs); err != nil {
			r.Inconclusive(err.Error())
			return
		}
		imp := e.Do("POST", "/v2/dst/logs/import", exp.Body, map[string]string{"Content-Type": "application/octet-stream"})
		if imp.Status == 500 && len(imp.Body) == 0 {
			e.C.AbortAll()
		}
		holeClass := "contiguous-ids"
		if holes.LogFirstAbove1 || holes.LogMiddle {
			holeClass = "log-ids-with-holes"
		}
		if imp.Status != 204 {
			if len(srcSnap.Logs) == 0 {
				return
			}
			c.Violation("C11/import-of-own-export-rejected:"+holeClass+":"+errCode(imp.Body), detail(map[string]any{"status": imp.Status, "body": string(imp.Body), "holes": holes}))
			return
		}
		r.Count("imports_compared", 1)
		r.Count("logs_imported", int64(len(srcSnap.Logs)))
		dstSnap := e.C.Snapshot("dst")
		if d := diffSnap(srcSnap, dstSnap); len(d) > 0 {
			cls := strings.SplitN(d[0], ": ", 2)[0]
			c.Violation("C11/copy-differs:"+cls, detail(map[string]any{"diff": d, "generation": 1}))
			if !(len(d) == 1 && cls == c11KnownFirstUsage) {
				return
			}
		}
		if exp2 := e.Do("POST", "/v2/dst/logs/export", nil, nil); exp2.Status != 200 || string(exp2.Body) != string(exp.Body) {
			c.Violation("C11/export-of-the-copy-differs-from-the-export-of-the-source", detail(map[string]any{"status": exp2.Status, "export_of_copy": string(exp2.Body)}))
			return
		}
		if dstSnap.State != "initializing" {
			c.Violation("C11/imported-ledger-not-left-initializing", detail(map[string]any{"state": dstSnap.State}))
		}
		if c.Index < 2 {
			r.Sample(map[string]any{"features": fs.String(), "logs": len(srcSnap.Logs), "first_write": pair, "holes": holes, "export_first_line": firstLine(string(exp.Body))})
		}

		// ---- post-import continuation: the same writes on the copy and on the source
		cont := c11NewCont(rng, srcSnap, src.ikOps)
		var writes []c11Write
		first := cont.write(pair.Kind, pair.Path)
		writes = append(writes, first)
		effective := !(strings.HasPrefix(pair.Kind, "dry-run") || strings.HasPrefix(pair.Kind, "failing"))
		if !effective && rng.Intn(2) == 0 && len(cont.liveTx) > 0 {
			// the first write left the copy initializing: the effective first write is a revert
			writes = append(writes, cont.write("revert", []string{"controller", "http", "bulk", "bulk-atomic"}[rng.Intn(4)]))
		}
		for i, nl := 0, 2+rng.Intn(4); i < nl; i++ {
			writes = append(writes, cont.later())
		}
		r.Seen("first_write_kinds", pair.Kind+" via "+pair.Path)
		sawCommit, sawHit := false, false
		type step struct {
			Write     c11Write `json:"write"`
			OnSource  string   `json:"outcome_on_source"`
			OnCopy    string   `json:"outcome_on_copy"`
			NewSource string   `json:"new_ids_on_source"`
			NewCopy   string   `json:"new_ids_on_copy"`
		}
		var trace []step
		for i, w := range writes {
			sb, db := e.C.Snapshot("src"), e.C.Snapshot("dst")
			so, _, _ := c11Exec(e, "src", w)
			do, dTx, dLog := c11Exec(e, "dst", w)
			sa, da := e.C.Snapshot("src"), e.C.Snapshot("dst")
			r.Count("post_import_writes", 1)
			r.Seen("post_import_write_kinds", w.Kind+" via "+w.Path)
			r.Seen("post_import_outcomes", w.Kind+" via "+w.Path+" => "+do)
			sTxs, sLogs := c11NewIDs(sb, sa)
			dTxs, dLogs := c11NewIDs(db, da)
			sbt, sbl := c11Bases(sb)
			dbt, dbl := c11Bases(db)
			trace = append(trace, step{w, so, do, fmt.Sprintf("tx %v (sequence at %d) log %v (sequence at %d)", sTxs, sbt, sLogs, sbl),
				fmt.Sprintf("tx %v (sequence at %d, state %s) log %v (sequence at %d)", dTxs, dbt, db.State, dLogs, dbl)})
			vd := func(extra map[string]any) map[string]any {
				m := detail(map[string]any{"continuation": trace, "max_imported_ids": fmt.Sprint(c11MaxIDs(dstSnap))})
				for k, v := range extra {
					m[k] = v
				}
				return m
			}
			// signature: the first write with its path; a later write by kind only (path and first write are in the detail)
			where := fmt.Sprintf("first-write:%s-via-%s", w.Kind, w.Path)
			if i > 0 {
				where = "later-write:" + w.Kind
			}
			if so != do {
				c.Violation("C11/post-import-write-outcome-differs-from-source:"+where, vd(nil))
				return
			}
			mt, ml := c11MaxIDs(db)
			for _, id := range dTxs {
				if id <= mt {
					c.Violation("C11/post-import-write-used-a-transaction-id-not-above-the-existing-ones:"+where, vd(map[string]any{"id": id, "max_existing": mt}))
					return
				}
			}
			for _, id := range dLogs {
				if id <= ml {
					c.Violation("C11/post-import-write-used-a-log-id-not-above-the-existing-ones:"+where, vd(map[string]any{"id": id, "max_existing": ml}))
					return
				}
			}
			if fmt.Sprint(c11Rel(sTxs, sbt)) != fmt.Sprint(c11Rel(dTxs, dbt)) {
				c.Violation("C11/post-import-transaction-ids-do-not-continue-like-the-source:"+where, vd(nil))
				return
			}
			if fmt.Sprint(c11Rel(sLogs, sbl)) != fmt.Sprint(c11Rel(dLogs, dbl)) {
				c.Violation("C11/post-import-log-ids-do-not-continue-like-the-source:"+where, vd(nil))
				return
			}
			if dTx != 0 && !w.Ops[0].DryRun && !strings.HasSuffix(do, ":hit") && (len(dTxs) == 0 || dTxs[0] != dTx) {
				c.Violation("C11/post-import-write-announced-an-id-it-did-not-store:"+where, vd(map[string]any{"announced_tx": dTx, "announced_log": dLog}))
				return
			}
			if len(dLogs) > 0 {
				sawCommit = true
			}
			if strings.HasSuffix(do, ":hit") {
				sawHit = true
			}
			if sawCommit && da.State != "in-use" {
				c.Violation("C11/ledger-still-initializing-after-a-committed-write:"+where, vd(map[string]any{"state": da.State}))
				return
			}
			// (an idempotent replay is a successful write request: it moves the ledger to in-use without a new log)
			if !sawCommit && da.State != "initializing" && !strings.HasSuffix(do, ":hit") && !sawHit {
				c.Violation("C11/ledger-in-use-although-nothing-was-committed:"+where, vd(map[string]any{"state": da.State}))
				return
			}
		}
		r.Count("continuations_compared", 1)
		srcAfter, dstAfter := e.C.Snapshot("src"), e.C.Snapshot("dst")
		ra, rb := c11Reduced(srcAfter, srcSnap), c11Reduced(dstAfter, srcSnap)
		if strings.Join(ra, "\n") != strings.Join(rb, "\n") {
			var diff []string
			for i := 0; i < len(ra) || i < len(rb); i++ {
				x, y := "", ""
				if i < len(ra) {
					x = ra[i]
				}
				if i < len(rb) {
					y = rb[i]
				}
				if x != y {
					diff = append(diff, "source: "+x+" | copy: "+y)
					if len(diff) > 5 {
						break
					}
				}
			}
			c.Violation("C11/state-after-continuation-differs-from-source:first-write="+pair.Kind, detail(map[string]any{"continuation": trace, "diff": diff}))
			return
		}

		// ---- second generation: the copy, after its own writes, exports and imports like any ledger
		exp3 := e.Do("POST", "/v2/dst/logs/export", nil, nil)
		if err := e.CreateLedger("dst2", "gen2", fs); err != nil {
			r.Inconclusive(err.Error())
			return
		}
		imp3 := e.Do("POST", "/v2/dst2/logs/import", exp3.Body, map[string]string{"Content-Type": "application/octet-stream"})
		if imp3.Status == 500 && len(imp3.Body) == 0 {
			e.C.AbortAll()
		}
		if imp3.Status != 204 {
			c.Violation("C11/import-of-own-export-rejected:second-generation:"+errCode(imp3.Body), detail(map[string]any{"continuation": trace, "status": imp3.Status, "body": string(imp3.Body), "export_of_copy": string(exp3.Body)}))
			return
		}
		r.Count("second_generation_imports_compared", 1)
		if d := diffSnap(dstAfter, e.C.Snapshot("dst2")); len(d) > 0 {
			c.Violation("C11/copy-differs:"+strings.SplitN(d[0], ": ", 2)[0], detail(map[string]any{"continuation": trace, "diff": d, "generation": 2}))
		}
	})
}

func firstLine(s string) string {
	if i := strings.Index(s, "\n"); i >= 0 {
		s = s[:i]
	}
	if len(s) > 400 {
		s = s[:400]
	}
	return s
}

func errCode(body []byte) string {
	var v struct {
		ErrorCode    string `json:"errorCode"`
		ErrorMessage string `json:"errorMessage"`
	}
	_ = json.Unmarshal(body, &v)
	msg := v.ErrorMessage
	if i := strings.Index(msg, ":"); i > 0 {
		parts := strings.Split(msg, ":")
		msg = strings.TrimSpace(parts[len(parts)-1])
	}
	clean := strings.Map(func(r rune) rune {
		if r >= '0' && r <= '9' {
			return -1
		}
		return r
	}, msg)
	if len(clean) > 60 {
		clean = clean[:60]
	}
	return v.ErrorCode + ":" + clean
}
