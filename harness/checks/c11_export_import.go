package checks

import (
	"encoding/json"
	"fmt"
	"math/rand"
	"strings"

	"github.com/formancehq/ledger/pkg/features"

	"github.com/formancehq/ledger/verifharness/core"
	"github.com/formancehq/ledger/verifharness/memstore"
	"github.com/formancehq/ledger/verifharness/sim"
)

func init() {
	core.Register(&core.Check{
		ID: "C11", Level: "exploration",
		Rule: "random source histories (all write kinds, adversarial strings, amount pool, back-dated timestamps, random feature sets) -> POST /logs/export bytes -> POST /logs/import on fresh ledgers with the same features (real handlers, real Log JSON codec, real state tracker) -> committed snapshots compared field by field -> post-import writes whose FIRST one is drawn from each path in turn {controller call, HTTP v2 create, HTTP v1 create, non-atomic bulk, atomic bulk} followed by random further writes: all must succeed and continue the id sequences. Distinct = (history shape, first-write path); non-trivial = source history committed >=3 logs of >=2 types",
		Assumptions: []string{seqAssume, "sequence semantics (nextval not rolled back, setval(max(id))) as modelled in memstore"},
		Run:  runC11,
	})
}

func diffSnap(a, b *memstore.Snap) []string {
	var d []string
	ja, _ := json.Marshal(a.Transactions)
	jb, _ := json.Marshal(b.Transactions)
	if string(ja) != string(jb) {
		n := len(a.Transactions)
		if len(b.Transactions) != n {
			d = append(d, fmt.Sprintf("transaction-count: %d vs %d", n, len(b.Transactions)))
		} else {
			for i := range a.Transactions {
				x, _ := json.Marshal(a.Transactions[i])
				y, _ := json.Marshal(b.Transactions[i])
				if string(x) != string(y) {
					d = append(d, fmt.Sprintf("transaction: %d: %s vs %s", a.Transactions[i].ID, x, y))
					break
				}
			}
		}
	}
	if len(a.Accounts) != len(b.Accounts) {
		d = append(d, fmt.Sprintf("account-count: %d vs %d", len(a.Accounts), len(b.Accounts)))
	} else {
		for i := range a.Accounts {
			x, y := a.Accounts[i], b.Accounts[i]
			mx, _ := json.Marshal(x.Metadata)
			my, _ := json.Marshal(y.Metadata)
			if x.Address != y.Address || string(mx) != string(my) {
				d = append(d, fmt.Sprintf("account-metadata: %s: %+v vs %+v", x.Address, x, y))
				break
			}
			if x.FirstUsage != y.FirstUsage {
				cls := "account-first-usage"
				// narrow class: a SET_METADATA log on this account dated before the source's first usage
				for _, l := range a.Logs {
					if l.Type == "SET_METADATA" && strings.Contains(l.Data, `"targetId":"`+x.Address+`"`) && l.Date < x.FirstUsage {
						cls = "account-first-usage:metadata-saved-before-first-usage"
					}
				}
				d = append(d, fmt.Sprintf("%s: %s: %+v vs %+v", cls, x.Address, x, y))
				break
			}
		}
	}
	nz := func(vs []memstore.SnapVolume) []memstore.SnapVolume {
		var out []memstore.SnapVolume
		for _, v := range vs {
			if v.Input != "0" || v.Output != "0" {
				out = append(out, v)
			}
		}
		return out
	}
	va, _ := json.Marshal(nz(a.Volumes))
	vb, _ := json.Marshal(nz(b.Volumes))
	if string(va) != string(vb) {
		d = append(d, "volumes: differ")
	}
	if len(a.Logs) != len(b.Logs) {
		d = append(d, fmt.Sprintf("log-count: %d vs %d", len(a.Logs), len(b.Logs)))
	} else {
		for i := range a.Logs {
			x, y := a.Logs[i], b.Logs[i]
			if x.ID != y.ID || x.Type != y.Type || x.Date != y.Date || x.IK != y.IK || x.Hash != y.Hash || x.Schema != y.Schema {
				d = append(d, fmt.Sprintf("log-header: %d: %+v vs %+v", x.ID, x, y))
				break
			}
			var dx, dy any
			_ = json.Unmarshal([]byte(x.Data), &dx)
			_ = json.Unmarshal([]byte(y.Data), &dy)
			nx, _ := json.Marshal(dx)
			ny, _ := json.Marshal(dy)
			if string(nx) != string(ny) {
				d = append(d, fmt.Sprintf("log-payload: %d: %s vs %s", x.ID, nx, ny))
				break
			}
		}
	}
	if strings.Join(a.Schemas, ",") != strings.Join(b.Schemas, ",") {
		d = append(d, "schemas: differ")
	}
	return d
}

var c11Paths = []string{"controller", "http-v2", "http-v1", "bulk", "bulk-atomic"}

// c11Write performs one simple always-valid write through the given path; returns (txID, logID, error text).
func c11Write(e *sim.Env, name, path string, n int) (uint64, string) {
	body := fmt.Sprintf(`{"postings":[{"source":"world","destination":"post:import","asset":"USD","amount":%d}]}`, n)
	switch path {
	case "controller":
		out := e.Apply(name, sim.Op{Kind: "postings", Postings: []sim.P{{Source: "world", Destination: "post:import", Asset: "USD", Amount: fmt.Sprint(n)}}})
		if out.Err != nil {
			return 0, out.Err.Error()
		}
		return *out.Created.Transaction.ID, ""
	case "http-v2", "http-v1":
		p := "/v2/" + name + "/transactions"
		if path == "http-v1" {
			p = "/" + name + "/transactions"
		}
		r := e.Do("POST", p, []byte(body), nil)
		if r.Status != 200 {
			return 0, fmt.Sprintf("status %d: %s", r.Status, r.Body)
		}
		var v struct {
			Data json.RawMessage `json:"data"`
		}
		_ = json.Unmarshal(r.Body, &v)
		var one struct {
			ID uint64 `json:"id"`
		}
		if path == "http-v1" {
			var arr []struct {
				ID uint64 `json:"id"`
			}
			_ = json.Unmarshal(v.Data, &arr)
			if len(arr) == 1 {
				return arr[0].ID, ""
			}
			return 0, "unexpected v1 body " + string(r.Body)
		}
		_ = json.Unmarshal(v.Data, &one)
		return one.ID, ""
	default:
		q := ""
		if path == "bulk-atomic" {
			q = "?atomic=true"
		}
		r := e.Do("POST", "/v2/"+name+"/_bulk"+q, []byte(`[{"action":"CREATE_TRANSACTION","data":`+body+`}]`), nil)
		if r.Status != 200 {
			if r.Status == 500 && len(r.Body) == 0 {
				e.C.AbortAll()
			}
			return 0, fmt.Sprintf("status %d: %s", r.Status, r.Body)
		}
		var v struct {
			Data []struct {
				Data struct {
					ID uint64 `json:"id"`
				} `json:"data"`
				ResponseType string `json:"responseType"`
				ErrorCode    string `json:"errorCode"`
				ErrorDesc    string `json:"errorDescription"`
			} `json:"data"`
		}
		_ = json.Unmarshal(r.Body, &v)
		if len(v.Data) != 1 || v.Data[0].ErrorCode != "" {
			return 0, "bulk element failed: " + string(r.Body)
		}
		return v.Data[0].Data.ID, ""
	}
}

func runC11(r *core.Run) {
	n := r.N(60, 1500)
	r.Floor("imports_compared", int64(n))
	r.ForEach("hist", n, 0, func(c *core.Case) {
		rng := c.Rng
		e := sim.NewEnv(sim.Options{})
		defer e.Close()
		fs := randFeatures(rng)
		if rng.Intn(3) > 0 {
			fs[features.FeatureHashLogs] = "SYNC"
		}
		if err := e.CreateLedger("src", "_default", fs); err != nil {
			r.Inconclusive(err.Error())
			return
		}
		m := sim.NewMirror(e, "src")
		m.FullReadEvery = 0
		st := &sim.GenState{}
		nops := 4 + rng.Intn(r.N(25, 40))
		types := map[string]bool{}
		for i := 0; i < nops; i++ {
			op := sim.GenOp(rng, st)
			out := m.Step(op)
			if out.OK() && out.Log != nil && !out.Hit {
				types[out.Log.Type.String()] = true
				if out.Created != nil {
					st.TxIDs = append(st.TxIDs, *out.Created.Transaction.ID)
				}
				if out.Reverted != nil {
					st.TxIDs = append(st.TxIDs, *out.Reverted.RevertTransaction.ID)
				}
			}
		}
		exp := e.Do("POST", "/v2/src/logs/export", nil, nil)
		if exp.Status != 200 {
			c.Violation("C11/export-failed", map[string]any{"status": exp.Status, "body": string(exp.Body), "history": m.History})
			return
		}
		src := e.C.Snapshot("src")
		path := c11Paths[c.Index%len(c11Paths)]
		r.Eval(fmt.Sprintf("%d logs %v|%s", len(src.Logs), len(types), path), len(src.Logs) >= 3 && len(types) >= 2)
		r.Seen("first_write_paths", path)
		for t := range types {
			r.Seen("log_types_exported", t)
		}
		bucket := "_default"
		if rng.Intn(2) == 0 {
			bucket = "other"
		}
		if err := e.CreateLedger("dst", bucket, fs); err != nil {
			r.Inconclusive(err.Error())
			return
		}
		imp := e.Do("POST", "/v2/dst/logs/import", exp.Body, map[string]string{"Content-Type": "application/octet-stream"})
		detail := func(extra map[string]any) map[string]any {
			d := map[string]any{"features": fmt.Sprint(fs), "history": m.History, "export": string(exp.Body), "first_write_path": path}
			for k, v := range extra {
				d[k] = v
			}
			return d
		}
		if imp.Status != 204 {
			if len(src.Logs) == 0 {
				return
			}
			c.Violation("C11/import-of-own-export-rejected:"+errCode(imp.Body), detail(map[string]any{"status": imp.Status, "body": string(imp.Body)}))
			return
		}
		r.Count("imports_compared", 1)
		r.Count("logs_imported", int64(len(src.Logs)))
		dst := e.C.Snapshot("dst")
		if d := diffSnap(src, dst); len(d) > 0 {
			c.Violation("C11/copy-differs:"+strings.SplitN(d[0], ": ", 2)[0], detail(map[string]any{"diff": d}))
			return
		}
		if c.Index < 2 {
			r.Sample(map[string]any{"features": fmt.Sprint(fs), "logs": len(src.Logs), "first_write_path": path, "export_first_line": firstLine(string(exp.Body))})
		}
		// post-import writes
		var maxTx, maxLog uint64
		for _, t := range dst.Transactions {
			if t.ID > maxTx {
				maxTx = t.ID
			}
		}
		for _, l := range dst.Logs {
			if l.ID > maxLog {
				maxLog = l.ID
			}
		}
		seq := []string{path}
		for i := 0; i < 3; i++ {
			seq = append(seq, c11Paths[rng.Intn(len(c11Paths))])
		}
		for i, p := range seq {
			id, errText := c11Write(e, "dst", p, i+1)
			r.Count("post_import_writes", 1)
			which := "later"
			if i == 0 {
				which = "first"
			}
			if errText != "" {
				c.Violation(fmt.Sprintf("C11/post-import-write-failed:%s-write-via-%s", which, p), detail(map[string]any{"error": errText, "sequence": seq[:i+1], "max_imported_tx": maxTx}))
				return
			}
			if id <= maxTx {
				c.Violation(fmt.Sprintf("C11/post-import-write-reused-id:%s-write-via-%s", which, p), detail(map[string]any{"id": id, "max_imported_tx": maxTx, "sequence": seq[:i+1]}))
				return
			}
			maxTx = id
		}
		after := e.C.Snapshot("dst")
		if len(after.Logs) != len(dst.Logs)+len(seq) {
			c.Violation("C11/post-import-log-count", detail(map[string]any{"before": len(dst.Logs), "after": len(after.Logs), "writes": len(seq)}))
		}
		for _, l := range after.Logs[len(dst.Logs):] {
			if l.ID <= maxLog {
				c.Violation("C11/post-import-log-id-collides", detail(map[string]any{"id": l.ID, "max_imported_log": maxLog}))
			}
			maxLog = l.ID
		}
		if e.C.LedgerState("dst") != "in-use" {
			c.Violation("C11/ledger-still-initializing-after-writes:first-write-via-"+path, detail(map[string]any{"sequence": seq}))
		}
	})
}

func firstLine(s string) string {
	if i := strings.Index(s, "\n"); i >= 0 {
		s = s[:i]
	}
	if len(s) > 400 {
		s = s[:400]
	}
	return s
}

func errCode(body []byte) string {
	var v struct {
		ErrorCode    string `json:"errorCode"`
		ErrorMessage string `json:"errorMessage"`
	}
	_ = json.Unmarshal(body, &v)
	msg := v.ErrorMessage
	if i := strings.Index(msg, ":"); i > 0 {
		parts := strings.Split(msg, ":")
		msg = strings.TrimSpace(parts[len(parts)-1])
	}
	clean := strings.Map(func(r rune) rune {
		if r >= '0' && r <= '9' {
			return -1
		}
		return r
	}, msg)
	if len(clean) > 60 {
		clean = clean[:60]
	}
	return v.ErrorCode + ":" + clean
}

var _ = rand.Int
