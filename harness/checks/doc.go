// Package checks holds one file per property; each registers itself in init().
package checks
