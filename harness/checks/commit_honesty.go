package checks

import (
	"context"
	"fmt"
	"strings"
	gotime "time"

	"github.com/formancehq/go-libs/v5/pkg/types/metadata"

	ledger "github.com/formancehq/ledger/internal"

	"github.com/formancehq/ledger/verifharness/core"
	"github.com/formancehq/ledger/verifharness/pgshim"
	"github.com/formancehq/ledger/verifharness/realstore"
)

// runCommitHonesty drives the REAL storage/ledger Store (over the recording SQL driver) through
// begin / writes / {context cancelled before COMMIT, rolled back before COMMIT, plain} / Commit,
// including nested stores (savepoints). Everything above the store (log processors, bulker, events
// wrapper) decides "the write is committed, publish / answer success" on Commit() == nil, so:
// Commit() may return nil only if the driver executed COMMIT (or RELEASE SAVEPOINT for a nested
// store) for that transaction, after no ROLLBACK of it.
func runCommitHonesty(r *core.Run, prop string) {
	shapes := []string{"plain", "ctx-cancelled-before-commit", "rollback-then-commit", "commit-twice", "nested-plain", "nested-parent-rolled-back", "ctx-cancelled-before-rollback"}
	r.Floor("commit_honesty_cases", int64(len(shapes)))
	r.ForEach("commit-honesty", r.N(70, 700), 0, func(c *core.Case) {
		shape := shapes[c.Index%len(shapes)]
		db := realstore.NewSysDB()
		defer db.Close()
		db.Responder = realstore.NewTables().Respond
		d := db.NewDriver()
		l := ledger.MustNewWithDefault("l1")
		st, err := d.CreateLedger(context.Background(), &l)
		if err != nil {
			r.Inconclusive("CreateLedger: " + err.Error())
			return
		}
		db.Shim.ResetLog()
		ctx, cancel := context.WithCancel(context.Background())
		defer cancel()
		tx, _, err := st.BeginTX(ctx, nil)
		if err != nil {
			r.Inconclusive("BeginTX: " + err.Error())
			return
		}
		for i := 0; i < 1+c.Rng.Intn(3); i++ {
			_ = tx.UpdateAccountsMetadata(ctx, map[string]metadata.Metadata{fmt.Sprintf("acc%d", i): {"k": "v"}}, l.AddedAt)
		}
		var commitErr error
		nested := false
		switch shape {
		case "plain":
			commitErr = tx.Commit(ctx)
		case "ctx-cancelled-before-commit":
			cancel()
			// database/sql rolls the transaction back in the background once its context is done
			for i := 0; i < 400 && !c09HasKind(db.Shim.Log(), pgshim.KRollback); i++ {
				gotime.Sleep(gotime.Millisecond)
			}
			commitErr = tx.Commit(context.Background())
		case "rollback-then-commit":
			_ = tx.Rollback(ctx)
			commitErr = tx.Commit(ctx)
		case "commit-twice":
			_ = tx.Commit(ctx)
			n := c09CountKind(db.Shim.Log(), pgshim.KCommit)
			commitErr = tx.Commit(ctx)
			if commitErr == nil && c09CountKind(db.Shim.Log(), pgshim.KCommit) == n {
				c.Violation(prop+"/store-commit-reported-success-without-a-COMMIT:"+shape, map[string]any{"statements": c09Kinds(db.Shim.Log())})
			}
			r.Count("commit_honesty_cases", 1)
			r.Eval("commit-honesty|"+shape, true)
			return
		case "nested-plain", "nested-parent-rolled-back":
			nested = true
			sp, _, err := tx.BeginTX(ctx, nil)
			if err != nil {
				r.Inconclusive("nested BeginTX: " + err.Error())
				return
			}
			_ = sp.UpdateAccountsMetadata(ctx, map[string]metadata.Metadata{"nested": {"k": "v"}}, l.AddedAt)
			if shape == "nested-parent-rolled-back" {
				_ = tx.Rollback(ctx)
			}
			commitErr = sp.Commit(ctx)
		case "ctx-cancelled-before-rollback":
			cancel()
			for i := 0; i < 400 && !c09HasKind(db.Shim.Log(), pgshim.KRollback); i++ {
				gotime.Sleep(gotime.Millisecond)
			}
			_ = tx.Rollback(context.Background()) // any answer is fine: nothing is claimed committed
			r.Count("commit_honesty_cases", 1)
			r.Eval("commit-honesty|"+shape, true)
			return
		}
		log := db.Shim.Log()
		committed, rolledBackFirst := false, false
		for _, s := range log {
			switch {
			case s.Kind == pgshim.KRollback:
				if !committed {
					rolledBackFirst = true
				}
			case s.Kind == pgshim.KCommit && !nested:
				committed = true
			case nested && (s.Kind == pgshim.KExec || s.Kind == pgshim.KQuery) && strings.HasPrefix(strings.ToUpper(strings.TrimSpace(s.SQL)), "RELEASE SAVEPOINT"):
				committed = true
			}
		}
		r.Count("commit_honesty_cases", 1)
		r.Seen("commit_honesty_outcomes", fmt.Sprintf("%s commit_err=%v driver_committed=%v rolled_back_first=%v", shape, commitErr != nil, committed, rolledBackFirst))
		r.Eval("commit-honesty|"+shape, shape != "plain" && shape != "nested-plain")
		if commitErr == nil && (!committed || rolledBackFirst) {
			c.Violation(prop+"/store-commit-reported-success-without-a-COMMIT:"+shape, map[string]any{"statements": c09Kinds(log), "driver_committed": committed, "rolled_back_first": rolledBackFirst})
		}
		if commitErr != nil && committed && !rolledBackFirst && (shape == "plain" || shape == "nested-plain") {
			c.Violation(prop+"/store-commit-failed-although-the-driver-committed:"+shape, map[string]any{"error": commitErr.Error(), "statements": c09Kinds(log)})
		}
	})
}

func c09HasKind(log []pgshim.Stmt, kind string) bool { return c09CountKind(log, kind) > 0 }

func c09CountKind(log []pgshim.Stmt, kind string) int {
	n := 0
	for _, s := range log {
		if s.Kind == kind {
			n++
		}
	}
	return n
}

func c09Kinds(log []pgshim.Stmt) []string {
	var out []string
	for _, s := range log {
		t := s.SQL
		if len(t) > 60 {
			t = t[:60]
		}
		out = append(out, fmt.Sprintf("tx%d %s %s", s.TxID, s.Kind, t))
	}
	return out
}
