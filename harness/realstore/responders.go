package realstore

import (
	"context"
	"database/sql/driver"
	"fmt"
	"github.com/jackc/pgx/v5/pgconn"
	"math/big"
	"regexp"
	"sort"
	"strings"
	"sync"
	"time"

	"github.com/formancehq/ledger/verifharness/pgshim"
)

// Tables answers, by executing them as written, the three INSERT ... RETURNING
// statements of storage/ledger.Store.CommitTransaction (plus GetBalances' select):
//
//	INSERT INTO "b".accounts_volumes (...) VALUES (...),... ON CONFLICT (...) DO UPDATE SET <exprs> RETURNING input, output
//	INSERT INTO "b".transactions (...) VALUES (...) RETURNING id, timestamp, inserted_at, updated_at
//	INSERT INTO "b".moves (...) VALUES (...),... RETURNING post_commit_volumes, post_commit_effective_volumes
//
// The DO UPDATE SET expressions are evaluated (tbl.col, excluded.col, +, -, literals),
// so an edited upsert is executed as written and judged by the oracle.
type Tables struct {
	mu      sync.Mutex
	Volumes map[[3]string][2]*big.Int // (ledger, account, asset) -> input, output
	// VolBucket: the bucket (schema) whose accounts_volumes table holds the row
	VolBucket map[[3]string]string
	// BalanceSelects counts GetBalances selects answered by evaluating their WHERE clause on
	// every row of the bucket; BalanceFallbacks those whose WHERE could not be evaluated and
	// were answered from the per-pair conditions found in the text (previous behaviour).
	BalanceSelects, BalanceFallbacks int
	Seq                              map[string]int64
	Clock                            int64
	// Recorded rows of the last statements, parsed column-by-name
	Moves        []map[string]string
	Transactions []map[string]string
}

func NewTables() *Tables {
	return &Tables{Volumes: map[[3]string][2]*big.Int{}, VolBucket: map[[3]string]string{}, Seq: map[string]int64{}}
}

var (
	reDropSchema = regexp.MustCompile(`(?is)^DROP SCHEMA (?:IF EXISTS )?"([^"]+)"`)
	reInsert     = regexp.MustCompile(`(?is)^INSERT INTO "([^"]+)"\.(\w+)(?: AS "?\w+"?)?\s*\(([^)]*)\)\s*VALUES\s*(.*)$`)
)

var reEmptyValues = regexp.MustCompile(`(?i)\bvalues\s*(\(\s*\))?\s*(returning\b|on\s+conflict\b|$)`)

func parseTuples(s string) (tuples [][]string, rest string) {
	i := 0
	for i < len(s) {
		for i < len(s) && (s[i] == ' ' || s[i] == ',' || s[i] == '\n' || s[i] == '\t') {
			i++
		}
		if i >= len(s) || s[i] != '(' {
			break
		}
		depth, inStr := 0, false
		j := i
		for ; j < len(s); j++ {
			ch := s[j]
			if ch == '\'' {
				if inStr && j+1 < len(s) && s[j+1] == '\'' {
					j++
					continue
				}
				inStr = !inStr
			}
			if inStr {
				continue
			}
			if ch == '(' {
				depth++
			}
			if ch == ')' {
				depth--
				if depth == 0 {
					break
				}
			}
		}
		tuples = append(tuples, splitTop(s[i+1:j]))
		i = j + 1
	}
	return tuples, strings.TrimSpace(s[i:])
}

func colIndex(cols []string, name string) int {
	for i, c := range cols {
		if strings.Trim(strings.TrimSpace(c), `"`) == name {
			return i
		}
	}
	return -1
}

func (t *Tables) now() time.Time {
	t.Clock++
	return time.Date(2031, 1, 1, 0, 0, 0, 0, time.UTC).Add(time.Duration(t.Clock) * time.Microsecond)
}

// evalExpr evaluates  term ((+|-) term)*  with terms  <table>.<col> | excluded.<col> | <int literal>
func evalExpr(expr string, cur, exc map[string]*big.Int) (*big.Int, error) {
	toks := strings.Fields(strings.NewReplacer("+", " + ", "-", " - ").Replace(expr))
	acc := new(big.Int)
	sign := 1
	for _, tk := range toks {
		switch tk {
		case "+":
			sign = 1
			continue
		case "-":
			sign = -1
			continue
		}
		var v *big.Int
		low := strings.ToLower(strings.ReplaceAll(tk, `"`, ""))
		switch {
		case strings.HasPrefix(low, "excluded."):
			v = exc[strings.TrimPrefix(low, "excluded.")]
		case strings.Contains(low, "."):
			v = cur[low[strings.Index(low, ".")+1:]]
		default:
			n, ok := new(big.Int).SetString(strings.Trim(tk, "'"), 10)
			if !ok {
				if cv, isCol := cur[low]; isCol {
					n = cv
				} else {
					return nil, fmt.Errorf("unsupported term %q", tk)
				}
			}
			v = n
		}
		if v == nil {
			return nil, fmt.Errorf("unknown column in %q", tk)
		}
		if sign > 0 {
			acc.Add(acc, v)
		} else {
			acc.Sub(acc, v)
		}
	}
	return acc, nil
}

// Respond is a SysDB.Responder.
func (t *Tables) Respond(ctx context.Context, c *pgshim.Conn, kind, sql string) (*pgshim.Rows, bool, error) {
	trim := strings.TrimSpace(sql)
	up := strings.ToUpper(trim)
	if strings.HasPrefix(up, "WITH \"INS\" AS (INSERT INTO") && strings.Contains(trim, "accounts_volumes") {
		return t.getBalances(trim)
	}
	if dm := reDropSchema.FindStringSubmatch(trim); dm != nil {
		t.mu.Lock()
		for k, b := range t.VolBucket {
			if b == dm[1] {
				delete(t.VolBucket, k)
				delete(t.Volumes, k)
			}
		}
		t.mu.Unlock()
		return &pgshim.Rows{}, true, nil
	}
	if strings.HasPrefix(up, "INSERT") && reEmptyValues.MatchString(trim) {
		// what Postgres answers to INSERT ... VALUES () / VALUES with no row
		return nil, true, &pgconn.PgError{Severity: "ERROR", Code: "42601", Message: `syntax error at or near ")"`}
	}
	m := reInsert.FindStringSubmatch(trim)
	if m == nil {
		return nil, false, nil
	}
	table := m[2]
	cols := splitTop(m[3])
	tuples, rest := parseTuples(m[4])
	t.mu.Lock()
	defer t.mu.Unlock()
	switch table {
	case "accounts_volumes":
		li, ai, si, ii, oi := colIndex(cols, "ledger"), colIndex(cols, "accounts_address"), colIndex(cols, "asset"), colIndex(cols, "input"), colIndex(cols, "output")
		if li < 0 || ai < 0 || si < 0 || ii < 0 || oi < 0 {
			return nil, true, fmt.Errorf("responder: accounts_volumes insert without expected columns")
		}
		upRest := strings.ToUpper(rest)
		var sets [][2]string
		if i := strings.Index(upRest, "DO UPDATE SET"); i >= 0 {
			setPart := rest[i+len("DO UPDATE SET"):]
			if j := strings.Index(strings.ToUpper(setPart), "RETURNING"); j >= 0 {
				setPart = setPart[:j]
			}
			if j := strings.Index(strings.ToUpper(setPart), " WHERE "); j >= 0 {
				setPart = setPart[:j]
			}
			for _, a := range splitTop(setPart) {
				kv := strings.SplitN(a, "=", 2)
				if len(kv) == 2 {
					sets = append(sets, [2]string{strings.Trim(strings.TrimSpace(kv[0]), `"`), strings.TrimSpace(kv[1])})
				}
			}
		}
		doNothing := strings.Contains(upRest, "DO NOTHING")
		res := &pgshim.Rows{Cols: []string{"input", "output"}}
		for _, tp := range tuples {
			k := [3]string{unq(tp[li]), unq(tp[ai]), unq(tp[si])}
			in, ok1 := new(big.Int).SetString(unq(tp[ii]), 10)
			out, ok2 := new(big.Int).SetString(unq(tp[oi]), 10)
			if !ok1 || !ok2 {
				return nil, true, fmt.Errorf("responder: non numeric volumes %v", tp)
			}
			cur, exists := t.Volumes[k]
			switch {
			case !exists:
				t.Volumes[k] = [2]*big.Int{in, out}
				t.VolBucket[k] = m[1]
			case doNothing:
				continue
			default:
				curm := map[string]*big.Int{"input": cur[0], "output": cur[1]}
				excm := map[string]*big.Int{"input": in, "output": out}
				nv := [2]*big.Int{new(big.Int).Set(cur[0]), new(big.Int).Set(cur[1])}
				for _, st := range sets {
					v, err := evalExpr(st[1], curm, excm)
					if err != nil {
						return nil, true, fmt.Errorf("responder: %w", err)
					}
					switch st[0] {
					case "input":
						nv[0] = v
					case "output":
						nv[1] = v
					}
				}
				t.Volumes[k] = nv
			}
			v := t.Volumes[k]
			res.Data = append(res.Data, []driver.Value{v[0].String(), v[1].String()})
		}
		if !strings.Contains(upRest, "RETURNING") {
			return &pgshim.Rows{Affected: int64(len(tuples))}, true, nil
		}
		return res, true, nil
	case "transactions":
		res := &pgshim.Rows{Cols: []string{"id", "timestamp", "inserted_at", "updated_at"}}
		for _, tp := range tuples {
			row := map[string]string{}
			for i, cn := range cols {
				if i < len(tp) {
					row[strings.Trim(strings.TrimSpace(cn), `"`)] = tp[i]
				}
			}
			t.Transactions = append(t.Transactions, row)
			var id int64
			idv := row["id"]
			if strings.HasPrefix(strings.ToLower(idv), "nextval") {
				t.Seq[idv]++
				id = t.Seq[idv]
			} else {
				fmt.Sscan(unq(idv), &id)
			}
			now := t.now()
			ts := now
			if v := row["timestamp"]; v != "" && strings.ToUpper(v) != "DEFAULT" {
				if p, err := time.Parse("2006-01-02 15:04:05.999999999-07:00", unq(v)); err == nil {
					ts = p.UTC()
				} else if p, err := time.Parse(time.RFC3339Nano, unq(v)); err == nil {
					ts = p.UTC()
				}
			}
			ins := now
			if v := row["inserted_at"]; v != "" && strings.ToUpper(v) != "DEFAULT" {
				if p, err := time.Parse(time.RFC3339Nano, unq(v)); err == nil {
					ins = p.UTC()
				}
			}
			res.Data = append(res.Data, []driver.Value{fmt.Sprint(id), ts, ins, ins})
		}
		return res, true, nil
	case "moves":
		res := &pgshim.Rows{Cols: []string{"post_commit_volumes", "post_commit_effective_volumes"}}
		for _, tp := range tuples {
			row := map[string]string{}
			for i, cn := range cols {
				if i < len(tp) {
					row[strings.Trim(strings.TrimSpace(cn), `"`)] = unq(tp[i])
				}
			}
			t.Moves = append(t.Moves, row)
			// Postgres prints a composite value without blanks: (in,out)
			pcv := strings.ReplaceAll(row["post_commit_volumes"], " ", "")
			res.Data = append(res.Data, []driver.Value{pcv, pcv})
		}
		return res, true, nil
	}
	return nil, false, nil
}

var reBalCond = regexp.MustCompile(`ledger = '((?:[^']|'')*)' and accounts_address = '((?:[^']|'')*)' and asset = '((?:[^']|'')*)'`)

// getBalances answers GetBalances' statement
//
//	WITH "ins" AS (INSERT INTO "b".accounts_volumes (…) VALUES (…),… ON conflict do nothing)
//	SELECT … FROM "b".accounts_volumes WHERE <condition> ORDER BY "accounts_address", "asset" FOR update
//
// as written: the select sees the rows that existed BEFORE the statement (not the CTE's own
// inserts); its WHERE condition is parsed with the SQL precedence and evaluated on EVERY row
// of the bucket's accounts_volumes table, whatever ledger it belongs to - so a condition that
// lets rows of another ledger through returns them, exactly as Postgres would. Then the
// zero rows of the CTE are inserted.
func (t *Tables) getBalances(sql string) (*pgshim.Rows, bool, error) {
	t.mu.Lock()
	defer t.mu.Unlock()
	res := &pgshim.Rows{Cols: []string{"accounts_address", "asset", "input", "output"}}
	ts := lexSQL(sql)
	// the CTE group and the main select
	var cte []sqlTok
	mainFrom := 0
	if len(ts) > 4 && ts[0].isWord("WITH") && ts[2].isWord("AS") && ts[3].kind == tkLP {
		d := 0
		for i := 3; i < len(ts); i++ {
			if ts[i].kind == tkLP {
				d++
			} else if ts[i].kind == tkRP {
				d--
				if d == 0 {
					cte = ts[4:i]
					mainFrom = i + 1
					break
				}
			}
		}
	}
	main := ts[mainFrom:]
	bucket := ""
	if f := depth0Index(main, 0, "FROM"); f >= 0 && f+3 < len(main) && main[f+1].kind == tkIdent && main[f+2].text == "." && main[f+3].text == "accounts_volumes" {
		bucket = main[f+1].text
	}
	evaluated := false
	if w, _, ok := topLevelClause(main, 0, "WHERE", whereTerminators); ok && bucket != "" && main[0].isWord("SELECT") {
		if cond, err := parseBool(w); err == nil {
			var keys [][3]string
			for k, b := range t.VolBucket {
				if b == bucket {
					keys = append(keys, k)
				}
			}
			// ORDER BY accounts_address, asset (rows of several ledgers: by ledger, deterministic)
			sort.Slice(keys, func(i, j int) bool {
				a, b := keys[i], keys[j]
				if a[1] != b[1] {
					return a[1] < b[1]
				}
				if a[2] != b[2] {
					return a[2] < b[2]
				}
				return a[0] < b[0]
			})
			var data [][]driver.Value
			evaluated = true
			for _, k := range keys {
				v := t.Volumes[k]
				hit, err := evalBool(cond, sqlRow{"ledger": k[0], "accounts_address": k[1], "asset": k[2], "input": v[0].String(), "output": v[1].String()})
				if err != nil {
					evaluated = false
					break
				}
				if hit {
					data = append(data, []driver.Value{k[1], k[2], v[0].String(), v[1].String()})
				}
			}
			if evaluated {
				res.Data = data
			}
		}
	}
	if evaluated {
		t.BalanceSelects++
		// the CTE's insert … on conflict do nothing
		if m := reInsert.FindStringSubmatch(strings.TrimSpace(toksSrc(sql, cte))); m != nil && m[2] == "accounts_volumes" {
			cols := splitTop(m[3])
			tuples, _ := parseTuples(m[4])
			li, ai, si := colIndex(cols, "ledger"), colIndex(cols, "accounts_address"), colIndex(cols, "asset")
			if li >= 0 && ai >= 0 && si >= 0 {
				for _, tp := range tuples {
					if li >= len(tp) || ai >= len(tp) || si >= len(tp) {
						continue
					}
					k := [3]string{unq(tp[li]), unq(tp[ai]), unq(tp[si])}
					if _, ok := t.Volumes[k]; !ok {
						t.Volumes[k] = [2]*big.Int{new(big.Int), new(big.Int)}
						t.VolBucket[k] = m[1]
					}
				}
			}
		}
		return res, true, nil
	}
	t.BalanceFallbacks++
	for _, m := range reBalCond.FindAllStringSubmatch(sql, -1) {
		k := [3]string{strings.ReplaceAll(m[1], "''", "'"), strings.ReplaceAll(m[2], "''", "'"), strings.ReplaceAll(m[3], "''", "'")}
		if v, ok := t.Volumes[k]; ok {
			res.Data = append(res.Data, []driver.Value{k[1], k[2], v[0].String(), v[1].String()})
		} else {
			t.Volumes[k] = [2]*big.Int{new(big.Int), new(big.Int)}
			if bucket != "" {
				t.VolBucket[k] = bucket
			}
		}
	}
	return res, true, nil
}

// toksSrc is the source text spanned by a token run.
func toksSrc(sql string, ts []sqlTok) string {
	if len(ts) == 0 {
		return ""
	}
	return sql[ts[0].pos:ts[len(ts)-1].end]
}
