package realstore

import (
	"fmt"
	"regexp"
	"strings"
)

var bucketTables = []string{"transactions", "accounts", "accounts_volumes", "moves", "logs", "accounts_metadata", "transactions_metadata", "schemas"}

func isBucketTable(s string) bool {
	for _, t := range bucketTables {
		if t == s {
			return true
		}
	}
	return false
}

// Problem kinds reported by ScanScopedReport.
const (
	ProblemNoPredicate = "no-ledger-predicate" // the scope never mentions ledger = '<name>'
	ProblemDisjunct    = "unscoped-disjunct"   // it does, but some OR branch of the condition escapes it
	ProblemInsert      = "insert"              // an insert does not write the store's ledger
	ProblemUnparsable  = "unparsable-condition"
)

type ScanProblem struct {
	Kind string
	Text string
}

// ScanReport is the result of scanning one statement.
type ScanReport struct {
	Problems []ScanProblem
	// Relations = bucket-table references examined (insert targets included)
	Relations int
	// Conditions = WHERE / inner-join ON conditions parsed into a boolean tree
	Conditions int
	// OrBranches = OR branches each of which had to imply the ledger predicate
	OrBranches int
	// DisjunctShapes = boolean skeletons (L = ledger predicate, x = other atom) of the
	// conditions in which the ledger predicate sits below an OR
	DisjunctShapes []string
}

func (r ScanReport) Texts() []string {
	var out []string
	for _, p := range r.Problems {
		out = append(out, p.Text)
	}
	return out
}

// ScanScoped checks one statement emitted by a store of ledger `name` in bucket
// `bucket`: every (sub)select / update / delete scope that references a bucket
// table must constrain `ledger = '<name>'`, every insert must write that ledger.
// It returns human-readable problems (empty = scoped).
func ScanScoped(sql, bucket, name string) []string {
	return ScanScopedReport(sql, bucket, name).Texts()
}

// ScanScopedReport is the structural version. A scope is one (sub)query: the statement or a
// parenthesised group starting with SELECT / WITH / INSERT / UPDATE / DELETE / VALUES, with
// nested subqueries collapsed, cut at set operators (UNION …). For every bucket table
// referenced as a relation in a scope, the scope's WHERE condition (or the ON condition of
// an inner join of that scope) is parsed with the SQL precedence NOT > AND > OR and must
// IMPLY `ledger = '<name>'`: an OR node implies it when every branch does, an AND node when
// some operand does, NOT never does.
func ScanScopedReport(sql, bucket, name string) ScanReport {
	var rep ScanReport
	toks := lexSQL(sql)
	match := make([]int, len(toks))
	for i := range match {
		match[i] = -1
	}
	var stack []int
	for i, t := range toks {
		if t.kind == tkLP {
			stack = append(stack, i)
		} else if t.kind == tkRP && len(stack) > 0 {
			match[stack[len(stack)-1]] = i
			stack = stack[:len(stack)-1]
		}
	}
	isSub := func(i int) bool {
		if toks[i].kind != tkLP || match[i] < 0 || i+1 >= len(toks) {
			return false
		}
		for _, kw := range []string{"SELECT", "WITH", "INSERT", "UPDATE", "DELETE", "VALUES"} {
			if toks[i+1].isWord(kw) {
				return true
			}
		}
		return false
	}
	// collapsed token list of the scope [from, to)
	collapse := func(from, to int) []sqlTok {
		var out []sqlTok
		for i := from; i < to; i++ {
			if toks[i].kind == tkLP && isSub(i) && match[i] < to {
				out = append(out, sqlTok{kind: tkSub, text: "(…)", pos: toks[i].pos, end: toks[match[i]].end, sub: i})
				i = match[i]
				continue
			}
			out = append(out, toks[i])
		}
		return out
	}
	srcText := func(ts []sqlTok) string {
		var b strings.Builder
		for i, t := range ts {
			if i > 0 {
				if gap := sql[ts[i-1].end:t.pos]; gap != "" {
					b.WriteByte(' ')
				}
			}
			if t.kind == tkSub {
				b.WriteString("(…)")
			} else {
				b.WriteString(sql[t.pos:t.end])
			}
		}
		return b.String()
	}
	type scope struct{ from, to int }
	scopes := []scope{{0, len(toks)}}
	for i := range toks {
		if isSub(i) {
			scopes = append(scopes, scope{i + 1, match[i]})
		}
	}
	for _, sc := range scopes {
		ts := collapse(sc.from, sc.to)
		// segments at depth-0 set operators
		var segs [][]sqlTok
		depth, start := 0, 0
		for i, t := range ts {
			switch {
			case t.kind == tkLP:
				depth++
			case t.kind == tkRP:
				depth--
			case depth == 0 && (t.isWord("UNION") || t.isWord("INTERSECT") || t.isWord("EXCEPT")):
				segs = append(segs, ts[start:i])
				start = i + 1
			}
		}
		segs = append(segs, ts[start:])
		for _, seg := range segs {
			scanSegment(&rep, seg, srcText, bucket, name)
		}
	}
	return rep
}

type relRef struct {
	idx    int // index of the bucket identifier token in the segment
	table  string
	alias  string
	insert bool
}

var aliasStop = map[string]bool{"SET": true, "WHERE": true, "JOIN": true, "LEFT": true, "RIGHT": true, "FULL": true, "INNER": true, "CROSS": true, "NATURAL": true, "ON": true, "USING": true, "GROUP": true, "ORDER": true, "LIMIT": true, "OFFSET": true, "FOR": true, "RETURNING": true, "HAVING": true, "WINDOW": true, "FETCH": true, "VALUES": true, "SELECT": true, "DEFAULT": true, "LATERAL": true}

func scanSegment(rep *ScanReport, seg []sqlTok, srcText func([]sqlTok) string, bucket, name string) {
	var refs []relRef
	for i := 0; i+2 < len(seg); i++ {
		if !(seg[i].kind == tkIdent && seg[i].text == bucket) || !(seg[i+1].kind == tkSym && seg[i+1].text == ".") {
			continue
		}
		tt := seg[i+2]
		if (tt.kind != tkWord && tt.kind != tkIdent) || !isBucketTable(tt.text) {
			continue
		}
		if i+3 < len(seg) && seg[i+3].kind == tkSym && seg[i+3].text == "." {
			continue // qualified column "b".table.col
		}
		if i == 0 {
			continue
		}
		prev := seg[i-1]
		isRel := false
		for _, kw := range []string{"FROM", "JOIN", "UPDATE", "INTO", "ONLY", "LATERAL", "USING"} {
			if prev.isWord(kw) {
				isRel = true
			}
		}
		if prev.kind == tkSym && prev.text == "," {
			isRel = true
		}
		if !isRel {
			continue
		}
		r := relRef{idx: i, table: tt.text, insert: prev.isWord("INTO")}
		j := i + 3
		if j < len(seg) && seg[j].isWord("AS") {
			j++
		}
		if j < len(seg) && (seg[j].kind == tkIdent || (seg[j].kind == tkWord && !aliasStop[strings.ToUpper(seg[j].text)])) {
			r.alias = seg[j].text
		}
		refs = append(refs, r)
	}
	if len(refs) == 0 {
		return
	}
	// conditions of the segment: WHERE, and ON of inner joins
	type cond struct {
		what string
		toks []sqlTok
	}
	var conds []cond
	if w, _, ok := topLevelClause(seg, 0, "WHERE", whereTerminators); ok && len(w) > 0 {
		conds = append(conds, cond{"WHERE", w})
	}
	depth := 0
	for i := 0; i < len(seg); i++ {
		t := seg[i]
		if t.kind == tkLP {
			depth++
		} else if t.kind == tkRP {
			depth--
		}
		if depth != 0 || !t.isWord("JOIN") {
			continue
		}
		outer := false
		for k := i - 1; k >= 0 && k >= i-2; k-- {
			if seg[k].isWord("LEFT") || seg[k].isWord("RIGHT") || seg[k].isWord("FULL") {
				outer = true
			}
		}
		if outer {
			continue
		}
		// the ON of THIS join: first depth-0 ON before the next join / clause keyword
		d2, onAt := 0, -1
	find:
		for k := i + 1; k < len(seg); k++ {
			switch {
			case seg[k].kind == tkLP:
				d2++
			case seg[k].kind == tkRP:
				d2--
				if d2 < 0 {
					break find
				}
			case d2 != 0 || seg[k].kind != tkWord:
			case seg[k].isWord("ON"):
				onAt = k
				break find
			case seg[k].isWord("JOIN") || seg[k].isWord("WHERE") || seg[k].isWord("GROUP") || seg[k].isWord("ORDER") || seg[k].isWord("LIMIT") || seg[k].isWord("USING"):
				break find
			}
		}
		if onAt < 0 {
			continue
		}
		if on, _, ok := topLevelClause(seg, onAt, "ON", whereTerminators); ok && len(on) > 0 {
			conds = append(conds, cond{"ON", on})
		}
	}
	type parsed struct {
		what string
		n    *boolNode
		err  error
	}
	var trees []parsed
	for _, c := range conds {
		n, err := parseBool(c.toks)
		trees = append(trees, parsed{c.what, n, err})
		if err == nil {
			rep.Conditions++
		}
	}
	for _, r := range refs {
		rep.Relations++
		table := `"` + bucket + `".` + r.table
		if r.insert {
			// text from INSERT on
			k := r.idx
			for k > 0 && !seg[k].isWord("INSERT") {
				k--
			}
			if p := checkInsert(srcText(seg[k:]), name); p != "" {
				rep.Problems = append(rep.Problems, ScanProblem{ProblemInsert, fmt.Sprintf("insert into %s: %s", table, p)})
			}
			continue
		}
		quals := map[string]bool{"": true, strings.ToLower(r.table): true}
		if r.alias != "" {
			quals[strings.ToLower(r.alias)] = true
		}
		implied, mentioned, unparsable := false, false, false
		for _, t := range trees {
			if t.err != nil {
				unparsable = true
				continue
			}
			ok, m, branches := implies(t.n, name, quals)
			rep.OrBranches += branches
			if m {
				mentioned = true
				if sh := t.n.shape(func(a *boolNode) string {
					if _, is := ledgerPred(a.atom, name); is {
						return "L"
					}
					return "x"
				}); ledgerUnderOr(t.n, name, false) {
					rep.DisjunctShapes = append(rep.DisjunctShapes, compressShape(sh))
				}
			}
			if ok {
				implied = true
			}
		}
		if implied {
			continue
		}
		txt := trunc(srcText(seg), 400)
		switch {
		case mentioned:
			rep.Problems = append(rep.Problems, ScanProblem{ProblemDisjunct, fmt.Sprintf("scope referencing %s mentions ledger = '%s' but the condition does not imply it (AND binds tighter than OR: some OR branch is not restricted to the ledger): %s", table, name, txt)})
		case unparsable:
			rep.Problems = append(rep.Problems, ScanProblem{ProblemUnparsable, fmt.Sprintf("scope referencing %s: condition could not be parsed: %s", table, txt)})
		default:
			rep.Problems = append(rep.Problems, ScanProblem{ProblemNoPredicate, fmt.Sprintf("scope referencing %s does not constrain ledger = '%s': %s", table, name, txt)})
		}
	}
}

// ledgerPred recognises  [q.]ledger = '<name>'  |  '<name>' = [q.]ledger  |  [q.]ledger IN ('<name>')
// (optional ::casts) and returns the qualifier (lower case, "" when none).
func ledgerPred(atom []sqlTok, name string) (string, bool) {
	var ts []sqlTok
	for i := 0; i < len(atom); i++ {
		if atom[i].kind == tkSym && atom[i].text == "::" && i+1 < len(atom) {
			i++
			continue
		}
		ts = append(ts, atom[i])
	}
	isLit := func(t sqlTok) bool { return t.kind == tkStr && t.text == name }
	// '<name>' = col  → col = '<name>'
	if len(ts) >= 3 && isLit(ts[0]) && ts[1].kind == tkSym && ts[1].text == "=" {
		ts = append(append([]sqlTok{}, ts[2:]...), ts[1], ts[0])
	}
	qual := ""
	if len(ts) >= 3 && (ts[0].kind == tkWord || ts[0].kind == tkIdent) && ts[1].kind == tkSym && ts[1].text == "." {
		qual = strings.ToLower(ts[0].text)
		ts = ts[2:]
	}
	if len(ts) < 3 || !((ts[0].kind == tkWord || ts[0].kind == tkIdent) && strings.EqualFold(ts[0].text, "ledger")) {
		return "", false
	}
	if len(ts) == 3 && ts[1].kind == tkSym && ts[1].text == "=" && isLit(ts[2]) {
		return qual, true
	}
	if len(ts) == 5 && ts[1].isWord("IN") && ts[2].kind == tkLP && isLit(ts[3]) && ts[4].kind == tkRP {
		return qual, true
	}
	return "", false
}

// implies: does the condition imply ledger = '<name>' (for one of the accepted qualifiers)?
// mentioned: some atom is such a predicate. branches: OR branches examined.
func implies(n *boolNode, name string, quals map[string]bool) (ok, mentioned bool, branches int) {
	switch n.op {
	case "atom":
		q, is := ledgerPred(n.atom, name)
		return is && quals[q], is, 0
	case "not":
		_, m, b := implies(n.kids[0], name, quals)
		return false, m, b
	case "and":
		for _, k := range n.kids {
			o, m, b := implies(k, name, quals)
			ok = ok || o
			mentioned = mentioned || m
			branches += b
		}
		return
	default: // or
		ok = true
		for _, k := range n.kids {
			o, m, b := implies(k, name, quals)
			ok = ok && o
			mentioned = mentioned || m
			branches += b + 1
		}
		return
	}
}

func ledgerUnderOr(n *boolNode, name string, under bool) bool {
	switch n.op {
	case "atom":
		_, is := ledgerPred(n.atom, name)
		return is && under
	case "or":
		under = true
	}
	for _, k := range n.kids {
		if ledgerUnderOr(k, name, under) {
			return true
		}
	}
	return false
}

var reShapeRun = regexp.MustCompile(`x(&x)+`)

// compressShape makes skeletons independent of the number of non-ledger conjuncts.
func compressShape(s string) string {
	s = reShapeRun.ReplaceAllString(s, "x+")
	// collapse repeated identical OR branches: A|A|A → A|…
	for {
		changed := false
		parts := strings.Split(s, "|")
		var out []string
		for i, p := range parts {
			if i >= 2 && parts[i-1] == p && parts[i-2] == p {
				changed = true
				continue
			}
			out = append(out, p)
		}
		s = strings.Join(out, "|")
		if !changed {
			break
		}
	}
	if len(s) > 120 {
		s = s[:120] + "…"
	}
	return s
}

func trunc(s string, n int) string {
	s = strings.Join(strings.Fields(s), " ")
	if len(s) > n {
		return s[:n] + "…"
	}
	return s
}

var reInsertHead = regexp.MustCompile(`(?is)^\s*INSERT INTO\s+\S+(?:\s+AS\s+\S+)?\s*\(([^)]*)\)\s*(VALUES|SELECT|\(…\))`)

// checkInsert: the ledger column must be written with the store's ledger name.
func checkInsert(txt, name string) string {
	m := reInsertHead.FindStringSubmatch(txt)
	if m == nil {
		return "unrecognised insert shape: " + trunc(txt, 200)
	}
	cols := splitTop(m[1])
	idx := -1
	for i, c := range cols {
		if strings.Trim(strings.TrimSpace(c), `"`) == "ledger" {
			idx = i
		}
	}
	if idx < 0 {
		return "no ledger column"
	}
	want := "'" + strings.ReplaceAll(name, "'", "''") + "'"
	rest := txt[strings.Index(txt, m[0])+len(m[0]):]
	switch strings.ToUpper(m[2]) {
	case "VALUES":
		// tuples: (..), (..) up to ON CONFLICT / RETURNING
		end := len(rest)
		for _, kw := range []string{" ON CONFLICT", " RETURNING"} {
			if i := strings.Index(strings.ToUpper(rest), kw); i >= 0 && i < end {
				end = i
			}
		}
		tuples := splitTop(rest[:end])
		for _, t := range tuples {
			t = strings.TrimSpace(t)
			if len(t) < 2 || t[0] != '(' {
				continue
			}
			vals := splitTop(t[1 : len(t)-1])
			if idx >= len(vals) || strings.TrimSpace(vals[idx]) != want {
				got := "?"
				if idx < len(vals) {
					got = vals[idx]
				}
				return fmt.Sprintf("ledger value %s, want %s", trunc(got, 60), want)
			}
		}
		return ""
	default:
		// INSERT ... SELECT: the select list carries the ledger as a literal
		if !strings.Contains(txt, want) {
			return "insert-select does not mention " + want
		}
		return ""
	}
}
