package realstore

import (
	"fmt"
	"regexp"
	"strings"
)

var bucketTables = []string{"transactions", "accounts", "accounts_volumes", "moves", "logs", "accounts_metadata", "transactions_metadata", "schemas"}

// ScanScoped checks one statement emitted by a store of ledger `name` in bucket
// `bucket`: every (sub)select / update / delete scope that references a bucket
// table must constrain `ledger = '<name>'`, every insert must write that ledger.
// It returns human-readable problems (empty = scoped).
func ScanScoped(sql, bucket, name string) []string {
	var problems []string
	// positions of paren open/close outside string literals
	n := len(sql)
	depthAt := make([]int, n+1)
	open := []int{}
	match := map[int]int{} // open -> close
	parent := map[int]int{}
	inStr := false
	d := 0
	for i := 0; i < n; i++ {
		ch := sql[i]
		depthAt[i] = d
		if ch == '\'' {
			if inStr && i+1 < n && sql[i+1] == '\'' {
				depthAt[i+1] = d
				i++
				continue
			}
			inStr = !inStr
			continue
		}
		if inStr {
			continue
		}
		if ch == '(' {
			if len(open) > 0 {
				parent[i] = open[len(open)-1]
			} else {
				parent[i] = -1
			}
			open = append(open, i)
			d++
		} else if ch == ')' && len(open) > 0 {
			match[open[len(open)-1]] = i
			open = open[:len(open)-1]
			d--
		}
	}
	isSubquery := func(o int) bool {
		c, ok := match[o]
		if !ok {
			return false
		}
		inner := strings.TrimSpace(sql[o+1 : c])
		up := strings.ToUpper(inner)
		return strings.HasPrefix(up, "SELECT") || strings.HasPrefix(up, "WITH") || strings.HasPrefix(up, "INSERT") || strings.HasPrefix(up, "UPDATE") || strings.HasPrefix(up, "DELETE") || strings.HasPrefix(up, "VALUES")
	}
	// enclosing scope of position p: innermost subquery paren group containing p, or whole statement
	scopeOf := func(p int) (int, int) {
		best, bestEnd := -1, n
		for o, c := range match {
			if o < p && p < c && isSubquery(o) && o > best {
				best, bestEnd = o, c
			}
		}
		return best + 1, bestEnd
	}
	// scope text with nested subqueries blanked
	scopeText := func(s, e int) string {
		var b strings.Builder
		i := s
		for i < e {
			if sql[i] == '(' {
				if c, ok := match[i]; ok && isSubquery(i) && c <= e {
					b.WriteString("(…)")
					i = c + 1
					continue
				}
			}
			b.WriteByte(sql[i])
			i++
		}
		return b.String()
	}
	qb := regexp.QuoteMeta(bucket)
	qn := regexp.QuoteMeta(strings.ReplaceAll(name, "'", "''"))
	reTable := regexp.MustCompile(`"` + qb + `"\."?(` + strings.Join(bucketTables, "|") + `)"?\b`)
	reScoped := regexp.MustCompile(`(?i)(?:\b\w+\.|"\w+"\.)?"?ledger"?\s*(?:=\s*'` + qn + `'|IN\s*\(\s*'` + qn + `'\s*\))`)
	seenScope := map[int]bool{}
	for _, loc := range reTable.FindAllStringIndex(sql, -1) {
		// skip occurrences inside string literals (e.g. sequence names in nextval('...'))
		if inLiteral(sql, loc[0]) {
			continue
		}
		// only relation references count: FROM / JOIN / UPDATE / INTO <table>, not qualified columns
		if loc[1] < len(sql) && sql[loc[1]] == '.' {
			continue
		}
		before := strings.ToUpper(strings.TrimRight(sql[:loc[0]], " \t\n\r"))
		isRel := false
		for _, kw := range []string{"FROM", "JOIN", "UPDATE", "INTO", ","} {
			if strings.HasSuffix(before, kw) {
				isRel = true
			}
		}
		if !isRel {
			continue
		}
		s, e := scopeOf(loc[0])
		if seenScope[s] {
			continue
		}
		seenScope[s] = true
		txt := scopeText(s, e)
		up := strings.ToUpper(strings.TrimSpace(txt))
		table := sql[loc[0]:loc[1]]
		if strings.HasPrefix(up, "INSERT") {
			if p := checkInsert(txt, name); p != "" {
				problems = append(problems, fmt.Sprintf("insert into %s: %s", table, p))
			}
			continue
		}
		if !reScoped.MatchString(txt) {
			problems = append(problems, fmt.Sprintf("scope referencing %s does not constrain ledger = '%s': %s", table, name, trunc(txt, 300)))
		}
	}
	return problems
}

func trunc(s string, n int) string {
	s = strings.Join(strings.Fields(s), " ")
	if len(s) > n {
		return s[:n] + "…"
	}
	return s
}

func inLiteral(sql string, pos int) bool {
	in := false
	for i := 0; i < pos && i < len(sql); i++ {
		if sql[i] == '\'' {
			if in && i+1 < len(sql) && sql[i+1] == '\'' {
				i++
				continue
			}
			in = !in
		}
	}
	return in
}

var reInsertHead = regexp.MustCompile(`(?is)^\s*INSERT INTO\s+\S+(?:\s+AS\s+\S+)?\s*\(([^)]*)\)\s*(VALUES|SELECT|\(…\))`)

// checkInsert: the ledger column must be written with the store's ledger name.
func checkInsert(txt, name string) string {
	m := reInsertHead.FindStringSubmatch(txt)
	if m == nil {
		return "unrecognised insert shape: " + trunc(txt, 200)
	}
	cols := splitTop(m[1])
	idx := -1
	for i, c := range cols {
		if strings.Trim(strings.TrimSpace(c), `"`) == "ledger" {
			idx = i
		}
	}
	if idx < 0 {
		return "no ledger column"
	}
	want := "'" + strings.ReplaceAll(name, "'", "''") + "'"
	rest := txt[strings.Index(txt, m[0])+len(m[0]):]
	switch strings.ToUpper(m[2]) {
	case "VALUES":
		// tuples: (..), (..) up to ON CONFLICT / RETURNING
		end := len(rest)
		for _, kw := range []string{" ON CONFLICT", " RETURNING"} {
			if i := strings.Index(strings.ToUpper(rest), kw); i >= 0 && i < end {
				end = i
			}
		}
		tuples := splitTop(rest[:end])
		for _, t := range tuples {
			t = strings.TrimSpace(t)
			if len(t) < 2 || t[0] != '(' {
				continue
			}
			vals := splitTop(t[1 : len(t)-1])
			if idx >= len(vals) || strings.TrimSpace(vals[idx]) != want {
				got := "?"
				if idx < len(vals) {
					got = vals[idx]
				}
				return fmt.Sprintf("ledger value %s, want %s", trunc(got, 60), want)
			}
		}
		return ""
	default:
		// INSERT ... SELECT: the select list carries the ledger as a literal
		if !strings.Contains(txt, want) {
			return "insert-select does not mention " + want
		}
		return ""
	}
}
