package realstore

import (
	"database/sql/driver"
	"encoding/json"
	"fmt"
	"sort"
	"strconv"
	"strings"
	"time"

	libtime "github.com/formancehq/go-libs/v5/pkg/types/time"

	ledger "github.com/formancehq/ledger/internal"

	"github.com/formancehq/ledger/verifharness/pgshim"
)

// The scripted _system.ledgers table executes the statements of the real system store AS
// WRITTEN: their WHERE clause is parsed (sqlbool.go) and evaluated on every scripted row
// (columns id, name, bucket, state, added_at, deleted_at), so an added / removed / altered
// predicate changes the answer exactly as it would in Postgres:
//
//	SELECT count(*) FROM "_system"."ledgers" AS "ledgers" WHERE …            (CountLedgersInBucket)
//	SELECT … FROM "_system"."ledgers" AS "ledgers" WHERE … [LIMIT n]          (GetLedger)
//	SELECT DISTINCT ON ("bucket") … FROM "_system"."ledgers" … [WHERE …]      (GetDistinctBuckets, GetDeletedBucketsOlderThan)
//	UPDATE "_system"."ledgers" AS "ledgers" SET deleted_at = '…' | NULL WHERE … (DeleteBucket, RestoreBucket)
//	DELETE FROM "_system"."ledgers" AS "ledgers" WHERE …                      (HardDeleteBucket)

var sysAddedAt = time.Date(2030, 1, 1, 0, 0, 0, 0, time.UTC)

func (s *SysDB) sysRow(l *ledger.Ledger) sqlRow {
	r := sqlRow{"id": int64(l.ID), "name": l.Name, "bucket": l.Bucket, "state": l.State, "added_at": sysAddedAt.Format(time.RFC3339), "deleted_at": nil}
	if l.DeletedAt != nil {
		if lit, ok := s.deletedLit[l.Name]; ok {
			r["deleted_at"] = lit
		} else {
			r["deleted_at"] = l.DeletedAt.UTC().Format("2006-01-02 15:04:05.999999-07:00")
		}
	}
	return r
}

func isSysLedgers(ts []sqlTok, i int) bool {
	return i+2 < len(ts) && ts[i].kind == tkIdent && ts[i].text == "_system" && ts[i+1].kind == tkSym && ts[i+1].text == "." && ts[i+2].kind == tkIdent && ts[i+2].text == "ledgers"
}

// depth0Index: first index >= from of keyword kw at paren depth 0.
func depth0Index(ts []sqlTok, from int, kw string) int {
	d := 0
	for i := from; i < len(ts); i++ {
		switch {
		case ts[i].kind == tkLP:
			d++
		case ts[i].kind == tkRP:
			d--
		case d == 0 && ts[i].isWord(kw):
			return i
		}
	}
	return -1
}

func (s *SysDB) sysStatement(q string) (*pgshim.Rows, bool, error) {
	ts := lexSQL(q)
	if len(ts) < 4 {
		return nil, false, nil
	}
	verb := strings.ToUpper(ts[0].text)
	switch verb {
	case "SELECT":
		f := depth0Index(ts, 0, "FROM")
		if f < 0 || !isSysLedgers(ts, f+1) {
			return nil, false, nil
		}
	case "UPDATE":
		if !isSysLedgers(ts, 1) {
			return nil, false, nil
		}
	case "DELETE":
		if !ts[1].isWord("FROM") || !isSysLedgers(ts, 2) {
			return nil, false, nil
		}
	default:
		return nil, false, nil
	}
	var cond *boolNode
	if w, _, ok := topLevelClause(ts, 0, "WHERE", whereTerminators); ok {
		n, err := parseBool(w)
		if err != nil {
			return nil, true, fmt.Errorf("sysdb: cannot parse the condition of %q: %w", q, err)
		}
		cond = n
	}
	s.mu.Lock()
	defer s.mu.Unlock()
	var hit []*ledger.Ledger
	for _, l := range s.Ledgers {
		ok := true
		if cond != nil {
			var err error
			if ok, err = evalBool(cond, s.sysRow(l)); err != nil {
				return nil, true, fmt.Errorf("sysdb: cannot evaluate the condition of %q: %w", q, err)
			}
		}
		if ok {
			hit = append(hit, l)
		}
	}
	switch verb {
	case "SELECT":
		switch {
		case ts[1].isWord("count") && ts[2].kind == tkLP:
			return &pgshim.Rows{Cols: []string{"count"}, Data: [][]driver.Value{{int64(len(hit))}}}, true, nil
		case ts[1].isWord("DISTINCT"):
			seen := map[string]bool{}
			var bs []string
			for _, l := range hit {
				if !seen[l.Bucket] {
					seen[l.Bucket] = true
					bs = append(bs, l.Bucket)
				}
			}
			sort.Strings(bs)
			res := &pgshim.Rows{Cols: []string{"bucket"}}
			for _, b := range bs {
				res.Data = append(res.Data, []driver.Value{b})
			}
			return res, true, nil
		}
		limit := -1
		if i := depth0Index(ts, 0, "LIMIT"); i >= 0 && i+1 < len(ts) {
			if n, err := strconv.Atoi(ts[i+1].text); err == nil {
				limit = n
			}
		}
		res := &pgshim.Rows{Cols: []string{"bucket", "metadata", "features", "id", "name", "added_at", "state", "deleted_at"}}
		for i, l := range hit {
			if limit >= 0 && i >= limit {
				break
			}
			f, _ := json.Marshal(l.Features)
			md, _ := json.Marshal(l.Metadata)
			var del driver.Value
			if l.DeletedAt != nil {
				del = l.DeletedAt.Time
			}
			res.Data = append(res.Data, []driver.Value{l.Bucket, md, f, int64(l.ID), l.Name, sysAddedAt, l.State, del})
		}
		return res, true, nil
	case "UPDATE":
		si := depth0Index(ts, 0, "SET")
		if si < 0 {
			return nil, false, nil
		}
		end := depth0Index(ts, si, "WHERE")
		if end < 0 {
			end = len(ts)
		}
		set := ts[si+1 : end]
		// only  deleted_at = <literal> | NULL  is scripted; other updates (ledger metadata) keep
		// the previous behaviour (not executed)
		if !(len(set) == 3 && (set[0].kind == tkWord || set[0].kind == tkIdent) && strings.EqualFold(set[0].text, "deleted_at") && set[1].text == "=") {
			return nil, false, nil
		}
		for _, l := range hit {
			switch {
			case set[2].isWord("NULL"):
				l.DeletedAt = nil
				delete(s.deletedLit, l.Name)
			case set[2].kind == tkStr:
				lit := set[2].text
				at := time.Time{}
				for _, layout := range []string{"2006-01-02 15:04:05.999999999-07:00", time.RFC3339Nano, "2006-01-02 15:04:05.999999999Z07:00"} {
					if p, err := time.Parse(layout, lit); err == nil {
						at = p.UTC()
						break
					}
				}
				lt := libtime.Time{Time: at}
				l.DeletedAt = &lt
				if s.deletedLit == nil {
					s.deletedLit = map[string]string{}
				}
				s.deletedLit[l.Name] = lit
			default:
				return nil, true, fmt.Errorf("sysdb: unsupported SET in %q", q)
			}
		}
		return &pgshim.Rows{Affected: int64(len(hit))}, true, nil
	default: // DELETE
		gone := map[*ledger.Ledger]bool{}
		for _, l := range hit {
			gone[l] = true
			delete(s.deletedLit, l.Name)
		}
		var keep []*ledger.Ledger
		for _, l := range s.Ledgers {
			if !gone[l] {
				keep = append(keep, l)
			}
		}
		s.Ledgers = keep
		return &pgshim.Rows{Affected: int64(len(hit))}, true, nil
	}
}

// BucketRows is the ground truth of the scripted table, independent of any statement of the
// code under test: how many rows (soft-deleted ones included) name the bucket, and how many
// of them are live.
func (s *SysDB) BucketRows(bucket string) (all, live int) {
	s.mu.Lock()
	defer s.mu.Unlock()
	for _, l := range s.Ledgers {
		if l.Bucket == bucket {
			all++
			if l.DeletedAt == nil {
				live++
			}
		}
	}
	return
}
