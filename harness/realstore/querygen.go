package realstore

import (
	"fmt"
	"math/big"
	"math/rand"
	gotime "time"

	"github.com/formancehq/go-libs/v5/pkg/query"
	"github.com/formancehq/go-libs/v5/pkg/types/time"
)

var addrPool = []string{"users:001", "users:", "users:...", ":001", "users::wallet", "bank", "world", "orders:1:pending", "a:b:c:...", "::"}

func leaf(rng *rand.Rand, resource string) query.Builder {
	addr := addrPool[rng.Intn(len(addrPool))]
	date := gotime.Date(2030, 1, 1, 0, 0, rng.Intn(60), 0, gotime.UTC).Format(gotime.RFC3339)
	num := big.NewInt(int64(rng.Intn(50)))
	switch resource {
	case "transactions":
		switch rng.Intn(9) {
		case 0:
			return query.Match("account", addr)
		case 1:
			return query.Match("source", addr)
		case 2:
			return query.Match("destination", addr)
		case 3:
			return query.Lt("id", num)
		case 4:
			return query.Match("reference", "ref-1")
		case 5:
			return query.Gte("timestamp", date)
		case 6:
			return query.Match("metadata[k]", "v")
		case 7:
			return query.Exists("metadata", "k")
		default:
			return query.Match("reverted", rng.Intn(2) == 0)
		}
	case "accounts":
		switch rng.Intn(7) {
		case 0:
			return query.Match("address", addr)
		case 1:
			return query.Gt("balance[USD]", num)
		case 2:
			return query.Lt("balance", num)
		case 3:
			return query.Match("metadata[k]", "v")
		case 4:
			return query.Exists("metadata", "k")
		case 5:
			return query.Lte("first_usage", date)
		default:
			return query.In("address", []any{"bank", "users:001"})
		}
	case "volumes":
		switch rng.Intn(6) {
		case 0:
			return query.Match("account", addr)
		case 1:
			return query.Match("address", addr)
		case 2:
			return query.Gte("balance[USD]", num)
		case 3:
			return query.Match("metadata[k]", "v")
		case 4:
			return query.Exists("metadata", "k")
		default:
			return query.Lte("first_usage", date)
		}
	case "aggregated":
		switch rng.Intn(3) {
		case 0:
			return query.Match("address", addr)
		case 1:
			return query.Match("metadata[k]", "v")
		default:
			return query.Exists("metadata", "k")
		}
	case "logs":
		switch rng.Intn(3) {
		case 0:
			return query.Gte("id", num)
		case 1:
			return query.Lt("date", date)
		default:
			return query.Match("type", "NEW_TRANSACTION")
		}
	}
	panic(resource)
}

// GenFilter builds a random filter AST (depth <= maxDepth) of valid leaves for the resource.
func GenFilter(rng *rand.Rand, resource string, maxDepth int) query.Builder {
	if maxDepth <= 0 || rng.Intn(3) == 0 {
		return leaf(rng, resource)
	}
	switch rng.Intn(3) {
	case 0:
		return query.Not(GenFilter(rng, resource, maxDepth-1))
	case 1:
		n := 1 + rng.Intn(3)
		items := make([]query.Builder, n)
		for i := range items {
			items[i] = GenFilter(rng, resource, maxDepth-1)
		}
		return query.And(items...)
	default:
		n := 1 + rng.Intn(3)
		items := make([]query.Builder, n)
		for i := range items {
			items[i] = GenFilter(rng, resource, maxDepth-1)
		}
		return query.Or(items...)
	}
}

func GenPIT(rng *rand.Rand) *time.Time {
	if rng.Intn(3) != 0 {
		return nil
	}
	t := time.New(gotime.Date(2030, 1, 1, 0, 0, rng.Intn(60), 0, gotime.UTC))
	return &t
}

func Describe(b query.Builder) string {
	if b == nil {
		return "<nil>"
	}
	return fmt.Sprint(b)
}
