// Package realstore drives the REAL storage Go code of /repo (storage/driver,
// storage/system, storage/ledger) over pgshim: a scripted _system.ledgers table
// executes the statements of the system store as written (sysdb.go: WHERE clauses are
// evaluated on the scripted rows, deleted_at included), everything else is
// recorded (and optionally answered by responders).
package realstore

import (
	"context"
	"database/sql/driver"
	"encoding/json"
	"fmt"
	"regexp"
	"strings"
	"sync"
	"time"

	"github.com/uptrace/bun"

	"github.com/formancehq/go-libs/v5/pkg/storage/migrations"

	ledger "github.com/formancehq/ledger/internal"
	"github.com/formancehq/ledger/internal/storage/bucket"
	storagedriver "github.com/formancehq/ledger/internal/storage/driver"
	ledgerstore "github.com/formancehq/ledger/internal/storage/ledger"
	systemstore "github.com/formancehq/ledger/internal/storage/system"

	"github.com/formancehq/ledger/verifharness/pgshim"
)

// SysDB is the scripted _system.ledgers table.
type SysDB struct {
	mu      sync.Mutex
	Ledgers []*ledger.Ledger
	nextID  int
	// literal text of deleted_at as written by the UPDATE (compared as written by later statements)
	deletedLit map[string]string
	Shim       *pgshim.Shim
	DB         *bun.DB
	// Responder, when set, may answer any other statement (nil result = not handled).
	Responder func(ctx context.Context, c *pgshim.Conn, kind, sql string) (*pgshim.Rows, bool, error)
	// AfterSys, when set, runs after a statement on _system.ledgers has been answered and before the
	// answer is returned to the caller (no SysDB lock held): a deterministic interleaving point.
	AfterSys func(sql string)
	Unknown  []string
}

var (
	reInsertLedger = regexp.MustCompile(`(?is)^INSERT INTO "_system"\."ledgers" \(([^)]*)\) VALUES \((.*)\) RETURNING`)
	reSysStmt      = regexp.MustCompile(`(?is)^(SELECT|UPDATE|DELETE)\b.*"_system"\."ledgers"`)
)

func NewSysDB() *SysDB {
	s := &SysDB{}
	s.Shim = pgshim.New(s.handle)
	s.DB = s.Shim.DB()
	return s
}

func (s *SysDB) Close() { _ = s.DB.Close() }

func splitTop(v string) []string {
	var out []string
	depth, start := 0, 0
	inStr := false
	for i := 0; i < len(v); i++ {
		ch := v[i]
		switch {
		case ch == '\'':
			if inStr && i+1 < len(v) && v[i+1] == '\'' {
				i++
				continue
			}
			inStr = !inStr
		case inStr:
		case ch == '(':
			depth++
		case ch == ')':
			depth--
		case ch == ',' && depth == 0:
			out = append(out, strings.TrimSpace(v[start:i]))
			start = i + 1
		}
	}
	out = append(out, strings.TrimSpace(v[start:]))
	return out
}

func unq(v string) string {
	v = strings.TrimSpace(v)
	if i := strings.LastIndex(v, "'::"); i > 0 {
		v = v[:i+1]
	}
	if len(v) >= 2 && v[0] == '\'' && v[len(v)-1] == '\'' {
		return strings.ReplaceAll(v[1:len(v)-1], "''", "'")
	}
	return v
}

func (s *SysDB) handle(ctx context.Context, c *pgshim.Conn, kind, q string) (*pgshim.Rows, error) {
	if kind != pgshim.KExec && kind != pgshim.KQuery {
		return nil, nil
	}
	t := strings.TrimSpace(q)
	if m := reInsertLedger.FindStringSubmatch(t); m != nil {
		cols := splitTop(m[1])
		vals := splitTop(m[2])
		l := &ledger.Ledger{}
		for i, col := range cols {
			col = strings.Trim(col, `" `)
			if i >= len(vals) {
				break
			}
			v := unq(vals[i])
			switch col {
			case "name":
				l.Name = v
			case "bucket":
				l.Bucket = v
			case "state":
				l.State = v
			case "features":
				_ = json.Unmarshal([]byte(v), &l.Features)
			case "metadata":
				_ = json.Unmarshal([]byte(v), &l.Metadata)
			}
		}
		s.mu.Lock()
		for _, e := range s.Ledgers {
			if e.Name == l.Name {
				s.mu.Unlock()
				return nil, fmt.Errorf("duplicate ledger")
			}
		}
		s.nextID++
		l.ID = s.nextID
		s.Ledgers = append(s.Ledgers, l)
		s.mu.Unlock()
		return &pgshim.Rows{Cols: []string{"id", "added_at"}, Data: [][]driver.Value{{int64(l.ID), time.Date(2030, 1, 1, 0, 0, 0, 0, time.UTC)}}}, nil
	}
	if m := reSysStmt.FindStringSubmatch(t); m != nil {
		if r, handled, err := s.sysStatement(t); handled || err != nil {
			if h := s.AfterSys; h != nil && err == nil {
				// interleaving point: the statement has been answered from the state as of now; the hook may let
				// "another request" run to completion before the caller sees the answer
				h(t)
			}
			if err != nil {
				s.mu.Lock()
				s.Unknown = append(s.Unknown, t)
				s.mu.Unlock()
			}
			return r, err
		}
	}
	if s.Responder != nil {
		if r, ok, err := s.Responder(ctx, c, kind, t); ok || err != nil {
			return r, err
		}
	}
	return nil, nil
}

// fakeBucket stands for an already migrated, up to date bucket: the 54
// migrations and AddLedger's per-ledger SQL (sequences, triggers) are Postgres DDL
// that cannot run here.
type fakeBucket struct{ name string }

func (fakeBucket) Migrate(context.Context, bun.IDB, ...migrations.Option) error { return nil }
func (fakeBucket) AddLedger(context.Context, bun.IDB, ledger.Ledger) error      { return nil }
func (fakeBucket) HasMinimalVersion(context.Context, bun.IDB) (bool, error)     { return true, nil }
func (fakeBucket) IsUpToDate(context.Context, bun.IDB) (bool, error)            { return true, nil }
func (fakeBucket) GetMigrationsInfo(context.Context, bun.IDB) ([]migrations.Info, error) {
	return nil, nil
}
func (fakeBucket) IsInitialized(context.Context, bun.IDB) (bool, error) { return true, nil }
func (fakeBucket) GetLastVersion(context.Context, bun.IDB) (int, error) { return 1000, nil }

type fakeBucketFactory struct{}

func (fakeBucketFactory) Create(name string) bucket.Bucket { return fakeBucket{name: name} }
func (fakeBucketFactory) GetMigrator(string, bun.IDB) *migrations.Migrator {
	return nil
}

// NewDriver builds the REAL storage driver (real ledger store factory with its
// shared per-bucket flag, real system store) over the scripted database.
func (s *SysDB) NewDriver(opts ...ledgerstore.Option) *storagedriver.Driver {
	return storagedriver.New(s.DB, ledgerstore.NewFactory(s.DB, opts...), fakeBucketFactory{}, systemstore.NewStoreFactory())
}
