package realstore

import "testing"

func TestScanScopedBooleanStructure(t *testing.T) {
	const b, n = "shared", "la"
	cases := []struct {
		sql  string
		kind string // "" = scoped
	}{
		{`SELECT * FROM "shared".accounts_volumes WHERE ((ledger = 'la' and accounts_address = 'a' and asset = 'USD') OR (ledger = 'la' and accounts_address = 'b' and asset = 'USD')) ORDER BY "accounts_address" FOR update`, ""},
		{`SELECT * FROM "shared".accounts_volumes WHERE (ledger = 'la' and (accounts_address = 'a' and asset = 'USD') OR (accounts_address = 'b' and asset = 'USD')) FOR update`, ProblemDisjunct},
		{`SELECT * FROM "shared".accounts_volumes WHERE (ledger = 'la' and ((accounts_address = 'a' and asset = 'USD') OR (accounts_address = 'b' and asset = 'USD')))`, ""},
		{`SELECT * FROM "shared".accounts_volumes WHERE (accounts_address = 'a') OR (accounts_address = 'b') AND (ledger = 'la')`, ProblemDisjunct},
		{`SELECT * FROM "shared".transactions WHERE (id = 1) AND (ledger = 'la')`, ""},
		{`SELECT * FROM "shared".transactions WHERE (id = 1)`, ProblemNoPredicate},
		{`SELECT * FROM "shared".transactions WHERE (id = 1) AND (ledger = 'lb')`, ProblemNoPredicate},
		{`SELECT * FROM "shared".transactions WHERE (id = 1) AND NOT (ledger = 'la')`, ProblemDisjunct},
		{`SELECT * FROM "shared".transactions WHERE (ledger = 'la' OR ledger = 'lb') AND id = 1`, ProblemDisjunct},
		{`SELECT * FROM "shared".transactions WHERE (ledger = 'la' OR ledger = 'lb') AND ledger = 'la'`, ""},
		{`SELECT * FROM "shared".transactions WHERE id BETWEEN 1 AND 5 AND ledger = 'la'`, ""},
		{`SELECT * FROM "shared".transactions WHERE id BETWEEN 1 AND 5 OR ledger = 'la'`, ProblemDisjunct},
		{`SELECT * FROM "shared".transactions WHERE CASE WHEN id = 1 OR id = 2 THEN true ELSE false END AND ledger = 'la'`, ""},
		{`SELECT * FROM "shared".transactions WHERE reference = 'x OR (y' AND ledger = 'la'`, ""},
		{`SELECT * FROM "shared".transactions WHERE reference = 'ledger = ''la''' `, ProblemNoPredicate},
		{`SELECT a.address FROM "shared".accounts a JOIN data_batch d ON a.address = d.address AND a.ledger = 'la'`, ""},
		{`SELECT a.address FROM "shared".accounts a LEFT JOIN data_batch d ON a.address = d.address AND a.ledger = 'la'`, ProblemNoPredicate}, // an outer join's ON does not restrict the left side
		{`SELECT a.address FROM "shared".accounts a JOIN data_batch d ON a.address = d.address OR a.ledger = 'la'`, ProblemDisjunct},
		{`SELECT a.address FROM "shared".accounts a JOIN "shared".moves m ON m.accounts_address = a.address WHERE a.ledger = 'la'`, ProblemDisjunct},
		{`SELECT a.address FROM "shared".accounts a JOIN "shared".moves m ON m.accounts_address = a.address AND m.ledger = 'la' WHERE a.ledger = 'la'`, ""},
		{`SELECT count(*) FROM (SELECT * FROM "shared".accounts WHERE (ledger = 'la')) dataset WHERE ((address = 'x') or (address = 'y'))`, ""},
		{`SELECT count(*) FROM (SELECT * FROM "shared".accounts WHERE (address = 'z')) dataset WHERE (ledger = 'la')`, ProblemNoPredicate},
		{`WITH "upd" AS (UPDATE "shared".transactions SET metadata = metadata - 'k' WHERE (id = 1) AND (ledger = 'la') RETURNING *) SELECT * FROM ((SELECT upd.*, true as modified FROM upd) UNION ALL (SELECT *, false as modified FROM "shared".transactions WHERE (id = 1 and ledger = 'la') LIMIT 1)) transactions LIMIT 1`, ""},
		{`WITH "upd" AS (UPDATE "shared".transactions SET metadata = metadata - 'k' WHERE (id = 1) OR (ledger = 'la') RETURNING *) SELECT * FROM upd`, ProblemDisjunct},
		{`SELECT * FROM "shared".logs WHERE ledger = 'la' UNION ALL SELECT * FROM "shared".logs WHERE id = 3`, ProblemNoPredicate},
		{`INSERT INTO "shared".schemas ("version", "ledger") VALUES ('v1', 'la') RETURNING created_at`, ""},
		{`INSERT INTO "shared".schemas ("version", "ledger") VALUES ('v1', 'lb') RETURNING created_at`, ProblemInsert},
		{`DELETE FROM "shared".accounts_metadata WHERE ledger IN ('la') AND accounts_address = 'x'`, ""},
		{`DELETE FROM "shared".accounts_metadata WHERE accounts_address = 'x'`, ProblemNoPredicate},
	}
	for i, c := range cases {
		rep := ScanScopedReport(c.sql, b, n)
		got := ""
		for _, p := range rep.Problems {
			got = p.Kind
			if p.Kind == c.kind {
				break
			}
		}
		if got != c.kind {
			t.Errorf("case %d: got %q want %q\n  %s\n  %v", i, got, c.kind, c.sql, rep.Texts())
		}
	}
}

func TestEvalBoolPrecedence(t *testing.T) {
	parse := func(s string) *boolNode {
		n, err := parseBool(lexSQL(s))
		if err != nil {
			t.Fatal(err)
		}
		return n
	}
	row := sqlRow{"ledger": "lb", "accounts_address": "bank", "asset": "USD", "deleted_at": nil, "bucket": "x"}
	for s, want := range map[string]bool{
		`ledger = 'la' and (accounts_address = 'alice' and asset = 'USD') OR (accounts_address = 'bank' and asset = 'USD')`:   true,
		`ledger = 'la' and ((accounts_address = 'alice' and asset = 'USD') OR (accounts_address = 'bank' and asset = 'USD'))`: false,
		`(bucket = 'x') AND (deleted_at IS NULL)`:             true,
		`(bucket = 'x') AND (deleted_at IS NOT NULL)`:         false,
		`NOT (bucket = 'x') OR "t"."asset" IN ('EUR', 'USD')`: true,
	} {
		got, err := evalBool(parse(s), row)
		if err != nil || got != want {
			t.Errorf("%s: got %v (%v) want %v", s, got, err, want)
		}
	}
	if _, err := evalBool(parse(`metadata @> '{}'`), row); err == nil {
		t.Errorf("unsupported atom must be an error")
	}
}
