package realstore

import (
	"context"
	"testing"

	ledger "github.com/formancehq/ledger/internal"
	"github.com/formancehq/ledger/internal/storage/common"
)

func TestProbe(t *testing.T) {
	s := NewSysDB()
	d := s.NewDriver()
	ctx := context.Background()
	l1 := ledger.MustNewWithDefault("l1")
	st1, err := d.CreateLedger(ctx, &l1)
	if err != nil {
		t.Fatal(err)
	}
	s.Shim.ResetLog()
	_, _ = st1.Transactions().Paginate(ctx, common.InitialPaginatedQuery[any]{PageSize: 3})
	l2 := ledger.MustNewWithDefault("l2")
	if _, err := d.CreateLedger(ctx, &l2); err != nil {
		t.Fatal(err)
	}
	_, _ = st1.Transactions().Paginate(ctx, common.InitialPaginatedQuery[any]{PageSize: 3})
	st1b, _, err := d.OpenLedger(ctx, "l1")
	if err != nil {
		t.Fatal(err)
	}
	_, _ = st1b.Accounts().Paginate(ctx, common.InitialPaginatedQuery[any]{PageSize: 3})
	for _, st := range s.Shim.Log() {
		t.Logf("%s tx=%d: %s  err=%s", st.Kind, st.TxID, st.SQL, st.Err)
	}
}
