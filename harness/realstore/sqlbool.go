package realstore

import (
	"fmt"
	"strings"
)

// A small SQL lexer + boolean-condition parser, used by the isolation scanner
// (scan.go: is `ledger = '<name>'` implied by the WHERE clause, whatever disjunct is
// taken?) and by the scripted tables (realstore.go / responders.go: evaluate a WHERE
// clause as written, with the SQL precedence NOT > AND > OR, on scripted rows).

const (
	tkWord  = iota // identifier, keyword or number
	tkIdent        // "quoted identifier" (text without the quotes)
	tkStr          // 'string literal' (text = unescaped value)
	tkSym          // operator / punctuation
	tkLP
	tkRP
	tkSub // a collapsed subquery group "(…)" (scan.go only); sub = index of its '(' token
)

type sqlTok struct {
	kind     int
	text     string
	pos, end int // byte range in the statement
	sub      int
}

func (t sqlTok) isWord(w string) bool { return t.kind == tkWord && strings.EqualFold(t.text, w) }

func isWordByte(c byte) bool {
	return c == '_' || c == '$' || (c >= '0' && c <= '9') || (c >= 'a' && c <= 'z') || (c >= 'A' && c <= 'Z') || c >= 0x80
}

// lexSQL splits a statement; comments (-- … and /* … */) are dropped.
func lexSQL(s string) []sqlTok {
	var out []sqlTok
	n := len(s)
	for i := 0; i < n; {
		c := s[i]
		switch {
		case c == ' ' || c == '\t' || c == '\n' || c == '\r':
			i++
		case c == '-' && i+1 < n && s[i+1] == '-':
			for i < n && s[i] != '\n' {
				i++
			}
		case c == '/' && i+1 < n && s[i+1] == '*':
			j := strings.Index(s[i+2:], "*/")
			if j < 0 {
				i = n
			} else {
				i += j + 4
			}
		case c == '\'':
			j := i + 1
			var b strings.Builder
			for j < n {
				if s[j] == '\'' {
					if j+1 < n && s[j+1] == '\'' {
						b.WriteByte('\'')
						j += 2
						continue
					}
					break
				}
				b.WriteByte(s[j])
				j++
			}
			if j < n {
				j++
			}
			out = append(out, sqlTok{kind: tkStr, text: b.String(), pos: i, end: j})
			i = j
		case c == '"':
			j := i + 1
			var b strings.Builder
			for j < n {
				if s[j] == '"' {
					if j+1 < n && s[j+1] == '"' {
						b.WriteByte('"')
						j += 2
						continue
					}
					break
				}
				b.WriteByte(s[j])
				j++
			}
			if j < n {
				j++
			}
			out = append(out, sqlTok{kind: tkIdent, text: b.String(), pos: i, end: j})
			i = j
		case c == '(':
			out = append(out, sqlTok{kind: tkLP, text: "(", pos: i, end: i + 1})
			i++
		case c == ')':
			out = append(out, sqlTok{kind: tkRP, text: ")", pos: i, end: i + 1})
			i++
		case isWordByte(c):
			j := i
			for j < n && isWordByte(s[j]) {
				j++
			}
			out = append(out, sqlTok{kind: tkWord, text: s[i:j], pos: i, end: j})
			i = j
		default:
			// multi-character operators
			j := i + 1
			for _, op := range []string{"<=", ">=", "<>", "!=", "::", "||", "->>", "->", "@>", "<@", "@@", "#>>", "#>"} {
				if strings.HasPrefix(s[i:], op) && len(op) > j-i {
					j = i + len(op)
				}
			}
			out = append(out, sqlTok{kind: tkSym, text: s[i:j], pos: i, end: j})
			i = j
		}
	}
	return out
}

func toksText(ts []sqlTok) string {
	var b strings.Builder
	for i, t := range ts {
		if i > 0 {
			b.WriteByte(' ')
		}
		switch t.kind {
		case tkStr:
			b.WriteString("'" + strings.ReplaceAll(t.text, "'", "''") + "'")
		case tkIdent:
			b.WriteString(`"` + t.text + `"`)
		case tkSub:
			b.WriteString("(…)")
		default:
			b.WriteString(t.text)
		}
	}
	return b.String()
}

// boolNode is a parsed condition.
type boolNode struct {
	op   string // "or", "and", "not", "atom"
	kids []*boolNode
	atom []sqlTok
}

func (n *boolNode) String() string {
	switch n.op {
	case "atom":
		return toksText(n.atom)
	case "not":
		return "NOT " + n.kids[0].String()
	}
	parts := make([]string, len(n.kids))
	for i, k := range n.kids {
		parts[i] = k.String()
	}
	return "(" + strings.Join(parts, " "+strings.ToUpper(n.op)+" ") + ")"
}

// shape renders the boolean skeleton with atoms abstracted by f.
func (n *boolNode) shape(f func(*boolNode) string) string {
	switch n.op {
	case "atom":
		return f(n)
	case "not":
		return "!" + n.kids[0].shape(f)
	}
	parts := make([]string, len(n.kids))
	for i, k := range n.kids {
		parts[i] = k.shape(f)
	}
	sep := "&"
	if n.op == "or" {
		sep = "|"
	}
	return "(" + strings.Join(parts, sep) + ")"
}

// parseBool parses  expr := and (OR and)* ; and := not (AND not)* ; not := NOT not | primary ;
// primary := '(' expr ')' when the whole primary is one parenthesised group, otherwise
// an opaque atom (maximal token run up to the next AND / OR at nesting depth 0).
// CASE … END and BETWEEN x AND y are kept inside atoms.
func parseBool(ts []sqlTok) (*boolNode, error) {
	if len(ts) == 0 {
		return nil, fmt.Errorf("empty condition")
	}
	// split at depth-0 OR
	ors, err := splitBool(ts, "OR")
	if err != nil {
		return nil, err
	}
	if len(ors) > 1 {
		n := &boolNode{op: "or"}
		for _, part := range ors {
			k, err := parseBool(part)
			if err != nil {
				return nil, err
			}
			n.kids = append(n.kids, k)
		}
		return n, nil
	}
	ands, err := splitBool(ts, "AND")
	if err != nil {
		return nil, err
	}
	if len(ands) > 1 {
		n := &boolNode{op: "and"}
		for _, part := range ands {
			k, err := parseBool(part)
			if err != nil {
				return nil, err
			}
			n.kids = append(n.kids, k)
		}
		return n, nil
	}
	if ts[0].isWord("NOT") {
		k, err := parseBool(ts[1:])
		if err != nil {
			return nil, err
		}
		return &boolNode{op: "not", kids: []*boolNode{k}}, nil
	}
	if ts[0].kind == tkLP {
		// one group spanning everything?
		d := 0
		for i, t := range ts {
			if t.kind == tkLP {
				d++
			} else if t.kind == tkRP {
				d--
				if d == 0 {
					if i == len(ts)-1 {
						return parseBool(ts[1 : len(ts)-1])
					}
					break
				}
			}
		}
	}
	return &boolNode{op: "atom", atom: ts}, nil
}

// splitBool splits at the keyword (AND / OR) found at paren depth 0, outside CASE … END,
// and (for AND) not the AND of a BETWEEN.
func splitBool(ts []sqlTok, kw string) ([][]sqlTok, error) {
	var out [][]sqlTok
	depth, caseDepth, start := 0, 0, 0
	between := false
	for i, t := range ts {
		switch {
		case t.kind == tkLP:
			depth++
		case t.kind == tkRP:
			depth--
			if depth < 0 {
				return nil, fmt.Errorf("unbalanced parentheses in condition")
			}
		case depth > 0:
		case t.isWord("CASE"):
			caseDepth++
		case t.isWord("END") && caseDepth > 0:
			caseDepth--
		case caseDepth > 0:
		case t.isWord("BETWEEN"):
			between = true
		case t.isWord("AND") && between:
			between = false
		case t.isWord("OR"):
			between = false
			if kw == "OR" {
				out = append(out, ts[start:i])
				start = i + 1
			}
		case t.isWord("AND"):
			if kw == "AND" {
				out = append(out, ts[start:i])
				start = i + 1
			}
		}
	}
	if depth != 0 {
		return nil, fmt.Errorf("unbalanced parentheses in condition")
	}
	out = append(out, ts[start:])
	for _, p := range out {
		if len(p) == 0 {
			return nil, fmt.Errorf("empty operand of %s", kw)
		}
	}
	return out, nil
}

// --- evaluation on scripted rows (three-valued logic collapsed: NULL comparisons are false) ---

// sqlRow maps a column name to its value; nil = SQL NULL.
type sqlRow map[string]any

func stripQualifier(ts []sqlTok) []sqlTok {
	// [qualifier .] column  → column
	for len(ts) >= 3 && (ts[0].kind == tkWord || ts[0].kind == tkIdent) && ts[1].kind == tkSym && ts[1].text == "." {
		ts = ts[2:]
	}
	return ts
}

// evalBool evaluates a parsed condition on a row. Supported atoms:
//
//	col = 'lit' | col <> 'lit' | col < <= > >= 'lit' | col IS [NOT] NULL | col IN ('a','b') | TRUE | FALSE
//
// (column optionally qualified / quoted, literal optionally cast with ::type). Anything
// else is an error: the caller must not guess.
func evalBool(n *boolNode, row sqlRow) (bool, error) {
	switch n.op {
	case "or":
		res := false
		for _, k := range n.kids {
			v, err := evalBool(k, row)
			if err != nil {
				return false, err
			}
			res = res || v
		}
		return res, nil
	case "and":
		res := true
		for _, k := range n.kids {
			v, err := evalBool(k, row)
			if err != nil {
				return false, err
			}
			res = res && v
		}
		return res, nil
	case "not":
		v, err := evalBool(n.kids[0], row)
		return !v, err
	}
	ts := stripQualifier(n.atom)
	// drop casts  ::type
	var clean []sqlTok
	for i := 0; i < len(ts); i++ {
		if ts[i].kind == tkSym && ts[i].text == "::" && i+1 < len(ts) {
			i++
			continue
		}
		clean = append(clean, ts[i])
	}
	ts = clean
	unsupported := fmt.Errorf("unsupported condition %q", toksText(n.atom))
	if len(ts) == 1 && ts[0].isWord("TRUE") {
		return true, nil
	}
	if len(ts) == 1 && ts[0].isWord("FALSE") {
		return false, nil
	}
	if len(ts) < 3 || (ts[0].kind != tkWord && ts[0].kind != tkIdent) {
		return false, unsupported
	}
	col := strings.ToLower(ts[0].text)
	val, known := row[col]
	if !known {
		return false, fmt.Errorf("unknown column %q in %q", col, toksText(n.atom))
	}
	str := func(v any) string { return fmt.Sprint(v) }
	switch {
	case len(ts) == 3 && ts[1].isWord("IS") && ts[2].isWord("NULL"):
		return val == nil, nil
	case len(ts) == 4 && ts[1].isWord("IS") && ts[2].isWord("NOT") && ts[3].isWord("NULL"):
		return val != nil, nil
	case len(ts) == 3 && ts[1].kind == tkSym && (ts[2].kind == tkStr || ts[2].kind == tkWord):
		if ts[2].kind == tkWord && ts[2].isWord("NULL") {
			return false, nil
		}
		if val == nil {
			return false, nil
		}
		a, b := str(val), ts[2].text
		switch ts[1].text {
		case "=":
			return a == b, nil
		case "<>", "!=":
			return a != b, nil
		case "<":
			return a < b, nil
		case "<=":
			return a <= b, nil
		case ">":
			return a > b, nil
		case ">=":
			return a >= b, nil
		}
		return false, unsupported
	case len(ts) >= 5 && ts[1].isWord("IN") && ts[2].kind == tkLP && ts[len(ts)-1].kind == tkRP:
		if val == nil {
			return false, nil
		}
		for _, t := range ts[3 : len(ts)-1] {
			switch {
			case t.kind == tkSym && t.text == ",":
			case t.kind == tkStr || t.kind == tkWord:
				if str(val) == t.text {
					return true, nil
				}
			default:
				return false, unsupported
			}
		}
		return false, nil
	}
	return false, unsupported
}

// topLevelClause returns the tokens of the first clause introduced by keyword kw at paren
// depth 0 at or after index from, ending before the next depth-0 terminator keyword (or a
// closing parenthesis of an enclosing group, or the end). ok=false when kw is absent.
func topLevelClause(ts []sqlTok, from int, kw string, terminators []string) (clause []sqlTok, next int, ok bool) {
	depth := 0
	start := -1
	for i := from; i < len(ts); i++ {
		t := ts[i]
		if t.kind == tkLP {
			depth++
			continue
		}
		if t.kind == tkRP {
			depth--
			if depth < 0 {
				if start >= 0 {
					return ts[start:i], i, true
				}
				return nil, i, false
			}
			continue
		}
		if depth != 0 || t.kind != tkWord {
			continue
		}
		if start < 0 {
			if t.isWord(kw) {
				start = i + 1
			}
			continue
		}
		for _, term := range terminators {
			if t.isWord(term) {
				return ts[start:i], i, true
			}
		}
	}
	if start >= 0 {
		return ts[start:], len(ts), true
	}
	return nil, len(ts), false
}

var whereTerminators = []string{"GROUP", "ORDER", "LIMIT", "OFFSET", "FOR", "RETURNING", "HAVING", "WINDOW", "FETCH", "UNION", "INTERSECT", "EXCEPT", "WHERE", "JOIN", "LEFT", "RIGHT", "FULL", "INNER", "CROSS", "NATURAL", "ON"}
