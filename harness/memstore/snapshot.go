package memstore

import (
	"crypto/sha256"
	"encoding/hex"
	"encoding/json"
	"fmt"
	"math/big"
	"sort"

	ledger "github.com/formancehq/ledger/internal"
)

// Snap is a canonical dump of one ledger's COMMITTED state, taken directly from
// the tables (not through the code under test).
type Snap struct {
	Transactions []SnapTx          `json:"transactions"`
	Accounts     []SnapAccount     `json:"accounts"`
	Volumes      []SnapVolume      `json:"volumes"`
	Logs         []SnapLog         `json:"logs"`
	Schemas      []string          `json:"schemas"`
	State        string            `json:"state"`
	SeqTx        uint64            `json:"-"`
	SeqLog       uint64            `json:"-"`
	OpenTxns     int               `json:"-"`
	HeldLocks    int               `json:"-"`
}

type SnapTx struct {
	ID         uint64            `json:"id"`
	Postings   []SnapPosting     `json:"postings"`
	Metadata   map[string]string `json:"metadata"`
	Timestamp  string            `json:"timestamp"`
	InsertedAt string            `json:"insertedAt"`
	UpdatedAt  string            `json:"updatedAt"`
	Reference  string            `json:"reference"`
	RevertedAt string            `json:"revertedAt"`
	Template   string            `json:"template"`
	PCV        map[string]map[string][2]string `json:"pcv"`
}

type SnapPosting struct {
	Source, Destination, Asset, Amount string
}

type SnapAccount struct {
	Address       string            `json:"address"`
	Metadata      map[string]string `json:"metadata"`
	FirstUsage    string            `json:"firstUsage"`
	InsertionDate string            `json:"insertionDate"`
	UpdatedAt     string            `json:"updatedAt"`
}

type SnapVolume struct {
	Account, Asset, Input, Output string
}

type SnapLog struct {
	ID      uint64 `json:"id"`
	Type    string `json:"type"`
	Data    string `json:"data"`
	Date    string `json:"date"`
	IK      string `json:"ik"`
	IKHash  string `json:"ikHash"`
	Hash    string `json:"hash"`
	Schema  string `json:"schemaVersion"`
}

const tfmt = "2006-01-02T15:04:05.000000Z"

func (c *Cluster) Snapshot(name string) *Snap {
	c.mu.Lock()
	defer c.mu.Unlock()
	d := c.data[name]
	s := &Snap{}
	if d == nil {
		return s
	}
	if r := c.sysLedgers[name]; r != nil && r.committed != nil {
		s.State = r.committed.State
	}
	s.SeqTx, s.SeqLog = d.seqTx, d.seqLog
	var ids []uint64
	for id, r := range d.txs {
		if r.committed != nil {
			ids = append(ids, id)
		}
	}
	sort.Slice(ids, func(i, j int) bool { return ids[i] < ids[j] })
	for _, id := range ids {
		tx := d.txs[id].committed
		st := SnapTx{ID: id, Metadata: map[string]string(cpMeta(tx.Metadata)), Timestamp: tx.Timestamp.UTC().Format(tfmt),
			InsertedAt: tx.InsertedAt.UTC().Format(tfmt), UpdatedAt: tx.UpdatedAt.UTC().Format(tfmt), Reference: tx.Reference, Template: tx.Template}
		if tx.RevertedAt != nil {
			st.RevertedAt = tx.RevertedAt.UTC().Format(tfmt)
		}
		for _, p := range tx.Postings {
			st.Postings = append(st.Postings, SnapPosting{p.Source, p.Destination, p.Asset, p.Amount.String()})
		}
		st.PCV = map[string]map[string][2]string{}
		for acc, m := range tx.PostCommitVolumes {
			st.PCV[acc] = map[string][2]string{}
			for a, v := range m {
				st.PCV[acc][a] = [2]string{v.Input.String(), v.Output.String()}
			}
		}
		s.Transactions = append(s.Transactions, st)
	}
	var addrs []string
	for a, r := range d.accounts {
		if r.committed != nil {
			addrs = append(addrs, a)
		}
	}
	sort.Strings(addrs)
	for _, a := range addrs {
		acc := d.accounts[a].committed
		s.Accounts = append(s.Accounts, SnapAccount{Address: a, Metadata: map[string]string(cpMeta(acc.Metadata)),
			FirstUsage: acc.FirstUsage.UTC().Format(tfmt), InsertionDate: acc.InsertionDate.UTC().Format(tfmt), UpdatedAt: acc.UpdatedAt.UTC().Format(tfmt)})
	}
	for _, k := range sortedVolKeys(d.volumes) {
		if v := d.volumes[k].committed; v != nil {
			s.Volumes = append(s.Volumes, SnapVolume{k.Account, k.Asset, v.Input.String(), v.Output.String()})
		}
	}
	var lids []uint64
	for id, r := range d.logs {
		if r.committed != nil {
			lids = append(lids, id)
		}
	}
	sort.Slice(lids, func(i, j int) bool { return lids[i] < lids[j] })
	for _, id := range lids {
		l := d.logs[id].committed
		sp := l.Data.(storedPayload)
		s.Logs = append(s.Logs, SnapLog{ID: id, Type: l.Type.String(), Data: string(sp.raw), Date: l.Date.UTC().Format(tfmt), IK: l.IdempotencyKey,
			IKHash: l.IdempotencyHash, Hash: hex.EncodeToString(l.Hash), Schema: l.SchemaVersion})
	}
	for v, r := range d.schemas {
		if r.committed != nil {
			s.Schemas = append(s.Schemas, v)
		}
	}
	sort.Strings(s.Schemas)
	for _, ls := range c.locks {
		if ls.owner != nil {
			s.HeldLocks++
		}
	}
	return s
}

// Digest is a stable hash of the snapshot (zero-volume rows created by
// GetBalances' "insert if absent" are ignored: they are not observable).
func (s *Snap) Digest() string {
	cp := *s
	cp.Volumes = nil
	for _, v := range s.Volumes {
		if v.Input == "0" && v.Output == "0" {
			continue
		}
		cp.Volumes = append(cp.Volumes, v)
	}
	b, _ := json.Marshal(cp)
	h := sha256.Sum256(b)
	return hex.EncodeToString(h[:])
}

func (s *Snap) JSON() string {
	b, _ := json.MarshalIndent(s, "", " ")
	return string(b)
}

// PendingLeftovers reports open transactions / held locks: after every client
// call has returned there must be none.
func (c *Cluster) PendingLeftovers() (pendingRows, locks int) {
	c.mu.Lock()
	defer c.mu.Unlock()
	for _, d := range c.data {
		for _, r := range d.txs {
			if r.pendingBy != nil {
				pendingRows++
			}
		}
		for _, r := range d.accounts {
			if r.pendingBy != nil {
				pendingRows++
			}
		}
		for _, r := range d.volumes {
			if r.pendingBy != nil {
				pendingRows++
			}
		}
		for _, r := range d.logs {
			if r.pendingBy != nil {
				pendingRows++
			}
		}
	}
	return pendingRows, len(c.locks)
}

// Volumes returns committed (input, output) per account/asset.
func (c *Cluster) CommittedVolumes(name string) map[[2]string][2]*big.Int {
	c.mu.Lock()
	defer c.mu.Unlock()
	out := map[[2]string][2]*big.Int{}
	d := c.data[name]
	if d == nil {
		return out
	}
	for k, r := range d.volumes {
		if v := r.committed; v != nil {
			out[[2]string{k.Account, k.Asset}] = [2]*big.Int{cpBig(v.Input), cpBig(v.Output)}
		}
	}
	return out
}

// CommittedTransactions returns deep copies of the committed transactions by id.
func (c *Cluster) CommittedTransactions(name string) []*ledger.Transaction {
	c.mu.Lock()
	defer c.mu.Unlock()
	d := c.data[name]
	if d == nil {
		return nil
	}
	var ids []uint64
	for id, r := range d.txs {
		if r.committed != nil {
			ids = append(ids, id)
		}
	}
	sort.Slice(ids, func(i, j int) bool { return ids[i] < ids[j] })
	out := make([]*ledger.Transaction, 0, len(ids))
	for _, id := range ids {
		out = append(out, cpTx(d.txs[id].committed))
	}
	return out
}

// CommittedVolumesLocked is for OnCommit callbacks (cluster lock already held).
func (c *Cluster) CommittedVolumesLocked(name string) map[[2]string][2]*big.Int {
	out := map[[2]string][2]*big.Int{}
	d := c.data[name]
	if d == nil {
		return out
	}
	for k, r := range d.volumes {
		if v := r.committed; v != nil {
			out[[2]string{k.Account, k.Asset}] = [2]*big.Int{cpBig(v.Input), cpBig(v.Output)}
		}
	}
	return out
}

func (c *Cluster) CommittedTransactionsLocked(name string) []*ledger.Transaction {
	d := c.data[name]
	if d == nil {
		return nil
	}
	var out []*ledger.Transaction
	for _, r := range d.txs {
		if r.committed != nil {
			out = append(out, cpTx(r.committed))
		}
	}
	sort.Slice(out, func(i, j int) bool { return *out[i].ID < *out[j].ID })
	return out
}

func (c *Cluster) LedgerState(name string) string {
	c.mu.Lock()
	defer c.mu.Unlock()
	if r := c.sysLedgers[name]; r != nil && r.committed != nil {
		return r.committed.State
	}
	return ""
}

var _ = fmt.Sprint

// AbortAll rolls back every open transaction and drops every session lock: what
// the database does when the request context of a panicked / cancelled handler
// ends (database/sql rolls a Tx back when its context is done).
func (c *Cluster) AbortAll() {
	c.mu.Lock()
	defer c.mu.Unlock()
	seen := map[*Session]bool{}
	for _, ls := range c.locks {
		if ls.owner != nil {
			seen[ls.owner] = true
		}
	}
	for s := range seen {
		if s.txn != nil {
			c.rollbackLocked(s)
		}
	}
	for k, ls := range c.locks {
		if ls.owner != nil {
			delete(c.locks, k)
		}
	}
	c.waitq = map[string][]*Session{}
	for _, d := range c.data {
		clearPending(d.txs)
		clearPending(d.accounts)
		clearPending(d.volumes)
		clearPending(d.logs)
		clearPending(d.schemas)
	}
	for _, r := range c.sysLedgers {
		r.pending, r.pendingBy = nil, nil
	}
	c.broadcastLocked()
}

func clearPending[K comparable, T any](m map[K]*vrow[T]) {
	for _, r := range m {
		if r.pendingBy != nil {
			r.pendingBy.done = true
			r.pending, r.pendingBy = nil, nil
		}
	}
}

// DebugLocks describes the lock table and wait-for edges (for stuck-run reports).
func (c *Cluster) DebugLocks() []string {
	c.mu.Lock()
	defer c.mu.Unlock()
	var out []string
	for k, ls := range c.locks {
		w := ""
		if ls.owner != nil && ls.owner.waitingKey != "" {
			w = " owner-waits-for-key=" + ls.owner.waitingKey
		}
		out = append(out, fmt.Sprintf("%s owner=s%d(client %d) sess=%d xact=%v%s", k, ls.owner.id, ls.owner.client, ls.sess, ls.xact, w))
	}
	sort.Strings(out)
	return out
}
