package memstore

import (
	"context"
	"errors"
	"fmt"
	"sort"

	"github.com/formancehq/go-libs/v5/pkg/storage/bun/paginate"
	"github.com/formancehq/go-libs/v5/pkg/storage/postgres"
	"github.com/formancehq/go-libs/v5/pkg/types/metadata"
	"github.com/formancehq/go-libs/v5/pkg/types/time"

	ledger "github.com/formancehq/ledger/internal"
	ledgercontroller "github.com/formancehq/ledger/internal/controller/ledger"
	systemcontroller "github.com/formancehq/ledger/internal/controller/system"
	"github.com/formancehq/ledger/internal/storage/common"
	ledgerstore "github.com/formancehq/ledger/internal/storage/ledger"
	systemstore "github.com/formancehq/ledger/internal/storage/system"

	"github.com/formancehq/ledger/verifharness/pgshim"
)

// Driver implements controller/system.Driver and Store over the cluster.
type Driver struct{ c *Cluster }

func (c *Cluster) Driver() *Driver { return &Driver{c: c} }

var _ systemcontroller.Driver = (*Driver)(nil)
var _ systemcontroller.Store = (*Driver)(nil)

func (d *Driver) GetSystemStore() systemcontroller.Store { return d }

func (d *Driver) CreateLedger(ctx context.Context, l *ledger.Ledger) error {
	c := d.c
	c.mu.Lock()
	defer c.mu.Unlock()
	if r := c.sysLedgers[l.Name]; r != nil && r.committed != nil {
		return systemstore.ErrLedgerAlreadyExists
	}
	if l.Metadata == nil {
		l.Metadata = metadata.Metadata{}
	}
	c.nextLedger++
	l.ID = c.nextLedger
	l.AddedAt = time.New(c.nowLocked())
	cp := *l
	cp.Metadata = cpMeta(l.Metadata)
	cp.Features = l.Features.With("MOVES_HISTORY", l.Features["MOVES_HISTORY"]) // copy
	c.sysLedgers[l.Name] = &vrow[ledger.Ledger]{committed: &cp}
	c.data[l.Name] = newLedgerData(l.Name)
	return nil
}

func (d *Driver) getLedgerLocked(name string) (*ledger.Ledger, error) {
	r := d.c.sysLedgers[name]
	if r == nil || r.committed == nil || r.committed.DeletedAt != nil {
		return nil, postgres.ErrNotFound
	}
	cp := *r.committed
	cp.Metadata = cpMeta(r.committed.Metadata)
	// every read of the ledgers table yields its own maps (as scanning a row does): controllers of
	// different requests must not share the Features map (the state tracker re-scans into it)
	if r.committed.Features != nil {
		cp.Features = make(map[string]string, len(r.committed.Features))
		for k, v := range r.committed.Features {
			cp.Features[k] = v
		}
	}
	return &cp, nil
}

func (d *Driver) GetLedger(ctx context.Context, name string) (*ledger.Ledger, error) {
	d.c.mu.Lock()
	defer d.c.mu.Unlock()
	return d.getLedgerLocked(name)
}

func (d *Driver) OpenLedger(ctx context.Context, name string) (ledgercontroller.Store, *ledger.Ledger, error) {
	d.c.mu.Lock()
	l, err := d.getLedgerLocked(name)
	d.c.mu.Unlock()
	if err != nil {
		return nil, nil, err
	}
	return &Store{c: d.c, l: *l}, l, nil
}

// Store opens a root store directly (for monitors).
func (c *Cluster) Store(name string) *Store {
	c.mu.Lock()
	defer c.mu.Unlock()
	r := c.sysLedgers[name]
	if r == nil || r.committed == nil {
		return nil
	}
	return &Store{c: c, l: *r.committed}
}

func (d *Driver) UpdateLedgerMetadata(ctx context.Context, name string, m metadata.Metadata) error {
	d.c.mu.Lock()
	defer d.c.mu.Unlock()
	if r := d.c.sysLedgers[name]; r != nil && r.committed != nil {
		cp := *r.committed
		cp.Metadata = mergeMeta(r.committed.Metadata, m)
		r.committed = &cp
	}
	return nil
}

func (d *Driver) DeleteLedgerMetadata(ctx context.Context, name string, key string) error {
	d.c.mu.Lock()
	defer d.c.mu.Unlock()
	if r := d.c.sysLedgers[name]; r != nil && r.committed != nil {
		cp := *r.committed
		cp.Metadata = cpMeta(r.committed.Metadata)
		delete(cp.Metadata, key)
		r.committed = &cp
	}
	return nil
}

func (d *Driver) DeleteBucket(ctx context.Context, bucket string) error {
	d.c.mu.Lock()
	defer d.c.mu.Unlock()
	now := time.New(d.c.nowLocked())
	for _, r := range d.c.sysLedgers {
		if r.committed != nil && r.committed.Bucket == bucket && r.committed.DeletedAt == nil {
			cp := *r.committed
			cp.DeletedAt = &now
			r.committed = &cp
		}
	}
	return nil
}

func (d *Driver) RestoreBucket(ctx context.Context, bucket string) error {
	d.c.mu.Lock()
	defer d.c.mu.Unlock()
	for _, r := range d.c.sysLedgers {
		if r.committed != nil && r.committed.Bucket == bucket && r.committed.DeletedAt != nil {
			cp := *r.committed
			cp.DeletedAt = nil
			r.committed = &cp
		}
	}
	return nil
}

// Ledgers: listing of _system.ledgers. A plain in-Go pagination (id ASC, offset
// cursor not modelled): the API's ledger listing is outside every property here.
type ledgersResource struct{ d *Driver }

func (d *Driver) Ledgers() common.PaginatedResource[ledger.Ledger, systemstore.ListLedgersQueryPayload] {
	return &ledgersResource{d: d}
}

func (r *ledgersResource) all() []ledger.Ledger {
	r.d.c.mu.Lock()
	defer r.d.c.mu.Unlock()
	var out []ledger.Ledger
	for _, row := range r.d.c.sysLedgers {
		if row.committed != nil && row.committed.DeletedAt == nil {
			out = append(out, *row.committed)
		}
	}
	sort.Slice(out, func(i, j int) bool { return out[i].ID < out[j].ID })
	return out
}

func (r *ledgersResource) GetOne(ctx context.Context, q common.ResourceQuery[systemstore.ListLedgersQueryPayload]) (*ledger.Ledger, error) {
	all := r.all()
	if len(all) == 0 {
		return nil, postgres.ErrNotFound
	}
	return &all[0], nil
}

func (r *ledgersResource) Count(ctx context.Context, q common.ResourceQuery[systemstore.ListLedgersQueryPayload]) (int, error) {
	return len(r.all()), nil
}

func (r *ledgersResource) Paginate(ctx context.Context, q common.PaginatedQuery[systemstore.ListLedgersQueryPayload]) (*paginate.Cursor[ledger.Ledger], error) {
	all := r.all()
	return &paginate.Cursor[ledger.Ledger]{PageSize: len(all), Data: all}, nil
}

// ---------------------------------------------------------------------------
// shadow rendering through the REAL storage/ledger.Store on a record-only
// pgshim: the real resource handlers validate the query (filters, features,
// expands) and render their SQL; their validation errors are what the caller
// gets, exactly as in production. Rows are never taken from it.

type shadowState struct {
	shim *pgshim.Shim
}

func (c *Cluster) shadowShim() *pgshim.Shim {
	c.mu.Lock()
	defer c.mu.Unlock()
	if c.shadow == nil {
		sh := pgshim.New(nil)
		sh.SetRecord(false)
		c.shadow = sh
		c.shadowDB = sh.DB()
	}
	return c.shadow
}

// ShadowShim exposes the record-only shim (C19/C35 read its log).
func (c *Cluster) ShadowShim() *pgshim.Shim { return c.shadowShim() }

func ignorable(err error) bool {
	return err == nil || errors.Is(err, postgres.ErrNotFound)
}

func (s *Store) shadowFn(kind string) func(ctx context.Context, mode string, q any) error {
	return func(ctx context.Context, mode string, q any) (err error) {
		if s.c.NoShadow {
			return nil
		}
		s.c.shadowShim()
		real := ledgerstore.New(s.c.shadowDB, nil, s.l)
		switch kind {
		case "transactions":
			err = shadowCall[ledger.Transaction, any](ctx, real.Transactions(), mode, q)
		case "accounts":
			err = shadowCall[ledger.Account, any](ctx, real.Accounts(), mode, q)
		case "logs":
			err = shadowCall[ledger.Log, any](ctx, real.Logs(), mode, q)
		case "volumes":
			err = shadowCall[ledger.VolumesWithBalanceByAssetByAccount, ledger.GetVolumesOptions](ctx, real.Volumes(), mode, q)
		case "aggregated":
			_, e := real.AggregatedVolumes().GetOne(ctx, q.(common.ResourceQuery[ledger.GetAggregatedVolumesOptions]))
			err = e
		default:
			return fmt.Errorf("memstore: unknown shadow kind %s", kind)
		}
		if ignorable(err) {
			return nil
		}
		return err
	}
}

func shadowCall[T, O any](ctx context.Context, r common.PaginatedResource[T, O], mode string, q any) error {
	switch mode {
	case "one":
		_, err := r.GetOne(ctx, q.(common.ResourceQuery[O]))
		return err
	case "count":
		_, err := r.Count(ctx, q.(common.ResourceQuery[O]))
		return err
	default:
		_, err := r.Paginate(ctx, q.(common.PaginatedQuery[O]))
		return err
	}
}
