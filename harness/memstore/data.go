package memstore

import (
	"math/big"
	"sort"

	"github.com/formancehq/go-libs/v5/pkg/types/metadata"
	"github.com/formancehq/go-libs/v5/pkg/types/time"

	ledger "github.com/formancehq/ledger/internal"
)

type volKey struct{ Account, Asset string }

// LedgerData holds the bucket tables' rows of one ledger. Rows of ledgers that
// share a bucket are kept apart by construction (what `ledger = ?` does in SQL).
type LedgerData struct {
	name     string
	txs      map[uint64]*vrow[ledger.Transaction]
	accounts map[string]*vrow[ledger.Account]
	volumes  map[volKey]*vrow[ledger.Volumes]
	logs     map[uint64]*vrow[ledger.Log]
	schemas  map[string]*vrow[ledger.Schema]
	// insertion sequence of transactions (for effective-volume ties and PIT on insertion date)
	txSeq map[uint64]int64
	seqN  int64

	seqTx, seqLog uint64 // sequences: last value handed out (non-transactional)
}

func newLedgerData(name string) *LedgerData {
	return &LedgerData{
		name:     name,
		txs:      map[uint64]*vrow[ledger.Transaction]{},
		accounts: map[string]*vrow[ledger.Account]{},
		volumes:  map[volKey]*vrow[ledger.Volumes]{},
		logs:     map[uint64]*vrow[ledger.Log]{},
		schemas:  map[string]*vrow[ledger.Schema]{},
		txSeq:    map[uint64]int64{},
	}
}

// ---- deep copies (nothing handed in or out may alias stored state) ----

func cpBig(b *big.Int) *big.Int {
	if b == nil {
		return nil
	}
	return new(big.Int).Set(b)
}

func cpMeta(m metadata.Metadata) metadata.Metadata {
	if m == nil {
		return nil
	}
	r := make(metadata.Metadata, len(m))
	for k, v := range m {
		r[k] = v
	}
	return r
}

func cpPostings(ps ledger.Postings) ledger.Postings {
	if ps == nil {
		return nil
	}
	r := make(ledger.Postings, len(ps))
	for i, p := range ps {
		r[i] = ledger.Posting{Source: p.Source, Destination: p.Destination, Asset: p.Asset, Amount: cpBig(p.Amount)}
	}
	return r
}

func cpPCV(v ledger.PostCommitVolumes) ledger.PostCommitVolumes {
	if v == nil {
		return nil
	}
	r := ledger.PostCommitVolumes{}
	for acc, byAsset := range v {
		m := ledger.VolumesByAssets{}
		for a, vol := range byAsset {
			m[a] = ledger.Volumes{Input: cpBig(vol.Input), Output: cpBig(vol.Output)}
		}
		r[acc] = m
	}
	return r
}

func cpTime(t *time.Time) *time.Time {
	if t == nil {
		return nil
	}
	v := *t
	return &v
}

func cpTx(t *ledger.Transaction) *ledger.Transaction {
	if t == nil {
		return nil
	}
	r := *t
	r.Postings = cpPostings(t.Postings)
	r.Metadata = cpMeta(t.Metadata)
	if t.ID != nil {
		id := *t.ID
		r.ID = &id
	}
	r.RevertedAt = cpTime(t.RevertedAt)
	r.PostCommitVolumes = cpPCV(t.PostCommitVolumes)
	r.PostCommitEffectiveVolumes = cpPCV(t.PostCommitEffectiveVolumes)
	return &r
}

func cpAccount(a *ledger.Account) *ledger.Account {
	if a == nil {
		return nil
	}
	r := *a
	r.Metadata = cpMeta(a.Metadata)
	r.Volumes = nil
	r.EffectiveVolumes = nil
	return &r
}

func trunc(t time.Time) time.Time {
	if t.IsZero() {
		return t
	}
	return time.New(t.Time) // UTC, rounded to µs: what a timestamp column keeps
}

func sortedVolKeys(m map[volKey]*vrow[ledger.Volumes]) []volKey {
	ks := make([]volKey, 0, len(m))
	for k := range m {
		ks = append(ks, k)
	}
	sort.Slice(ks, func(i, j int) bool {
		if ks[i].Account != ks[j].Account {
			return ks[i].Account < ks[j].Account
		}
		return ks[i].Asset < ks[j].Asset
	})
	return ks
}
