package memstore

import (
	"context"
	gotime "time"
	"database/sql/driver"
	"encoding/json"
	"errors"
	"fmt"
	"math/big"
	"sort"
	"strings"
	"sync"
	"sync/atomic"

	"github.com/uptrace/bun"

	"github.com/formancehq/go-libs/v5/pkg/query"
	"github.com/formancehq/go-libs/v5/pkg/storage/bun/paginate"
	"github.com/formancehq/go-libs/v5/pkg/storage/postgres"
	"github.com/formancehq/go-libs/v5/pkg/types/metadata"
	"github.com/formancehq/go-libs/v5/pkg/types/time"

	ledger "github.com/formancehq/ledger/internal"
	"github.com/formancehq/ledger/internal/queries"
	"github.com/formancehq/ledger/internal/storage/common"
	ledgerstore "github.com/formancehq/ledger/internal/storage/ledger"
	"github.com/formancehq/ledger/pkg/features"

	"github.com/formancehq/ledger/verifharness/microsql"
)

// Reads are served by the REAL storage/common repository (filter validation,
// paginators, cursors): a memstore handler hands it `SELECT * FROM
// "mem"."snap_<n>"` as dataset and opaque leaf predicates vp(k); the statement the
// repository builds around them is evaluated by microsql on a snapshot of the
// rows visible to the caller (committed + own writes).

type snapshot struct {
	name  string
	table *microsql.Table
}

var (
	snapshots sync.Map
	snapSeq   atomic.Int64
)

func newSnapshot(t *microsql.Table) *snapshot {
	// microsql compares std time.Time values: normalise the repository's time type
	for _, row := range t.Rows {
		for i, v := range row {
			switch x := v.(type) {
			case time.Time:
				row[i] = x.Time
			case *time.Time:
				if x == nil {
					row[i] = nil
				} else {
					row[i] = x.Time
				}
			}
		}
	}
	s := &snapshot{name: fmt.Sprintf("snap_%d", snapSeq.Add(1)), table: t}
	snapshots.Store(s.name, s)
	return s
}

func (s *snapshot) release() { snapshots.Delete(s.name) }

type jsonCol []byte

func toDriver(v any) driver.Value {
	switch x := v.(type) {
	case nil:
		return nil
	case *big.Int:
		if x == nil {
			return nil
		}
		return x.String()
	case string:
		return x
	case time.Time:
		return x.Time
	case gotime.Time:
		return x
	case bool:
		return x
	case jsonCol:
		if x == nil {
			return nil
		}
		return []byte(x)
	case []byte:
		return x
	}
	return fmt.Sprint(v)
}

func mustJSON(v any) jsonCol {
	b, err := json.Marshal(v)
	if err != nil {
		panic(err)
	}
	return b
}

// visible runs fn with the rows visible to this store's caller.
func (s *Store) visible(ctx context.Context, site string, fn func(t *Txn, d *LedgerData)) error {
	if err := s.enter(ctx, site); err != nil {
		return err
	}
	if s.sess != nil {
		s.c.mu.Lock()
		ab := s.sess.txn != nil && s.sess.txn.aborted
		s.c.mu.Unlock()
		if ab {
			return postgres.ResolveError(errAborted)
		}
	}
	s.c.mu.Lock()
	defer s.c.mu.Unlock()
	var t *Txn
	if s.sess != nil {
		t = s.sess.txn
	}
	fn(t, s.data())
	return nil
}

// ---------------------------------------------------------------------------
// address matching (documented meaning: exact; empty segment = any one segment
// with equal length; trailing "..." = any suffix)

func matchAddress(pattern, address string) bool {
	ps := strings.Split(pattern, ":")
	partial := false
	for i, seg := range ps {
		if seg == "" || (seg == "..." && i == len(ps)-1) {
			partial = true
		}
	}
	if !partial {
		return pattern == address
	}
	as := strings.Split(address, ":")
	open := ps[len(ps)-1] == "..."
	if !open && len(as) != len(ps) {
		return false
	}
	for i, seg := range ps {
		if seg == "" || (seg == "..." && i == len(ps)-1) {
			continue
		}
		if i >= len(as) || as[i] != seg {
			return false
		}
	}
	return true
}

func anyStrings(v any) []string {
	var out []string
	if arr, ok := v.([]any); ok {
		for _, e := range arr {
			if s, ok := e.(string); ok {
				out = append(out, s)
			}
		}
	}
	return out
}

func toBig(v any) *big.Int {
	switch x := v.(type) {
	case *big.Int:
		return x
	case big.Int:
		return &x
	case int:
		return big.NewInt(int64(x))
	case int64:
		return big.NewInt(x)
	case uint64:
		return new(big.Int).SetUint64(x)
	case float64:
		bf := new(big.Float).SetFloat64(x)
		i, _ := bf.Int(nil)
		return i
	case string:
		if i, ok := new(big.Int).SetString(x, 10); ok {
			return i
		}
	}
	return nil
}

func cmpOp(op string, c int) bool {
	switch op {
	case queries.OperatorMatch:
		return c == 0
	case queries.OperatorLT:
		return c < 0
	case queries.OperatorLTE:
		return c <= 0
	case queries.OperatorGT:
		return c > 0
	case queries.OperatorGTE:
		return c >= 0
	}
	return false
}

func toTime(v any) (time.Time, bool) {
	switch x := v.(type) {
	case string:
		t, err := time.ParseTime(x)
		return t, err == nil
	case time.Time:
		return x, true
	case *time.Time:
		if x == nil {
			return time.Time{}, false
		}
		return *x, true
	}
	return time.Time{}, false
}

func cmpTime(a, b time.Time) int {
	if a.Before(b) {
		return -1
	}
	if a.After(b) {
		return 1
	}
	return 0
}

func metaPred(property, operator string, value any, get func(row []any) metadata.Metadata) (func([]any) bool, bool) {
	if property == "metadata" {
		key, _ := value.(string)
		return func(r []any) bool { _, ok := get(r)[key]; return ok }, true
	}
	if m := common.MetadataRegex.FindStringSubmatch(property); m != nil {
		key := m[1]
		sv, isStr := value.(string)
		return func(r []any) bool { // metadata @> {key: value}
			v, ok := get(r)[key]
			return ok && isStr && v == sv
		}, true
	}
	return nil, false
}

// ---------------------------------------------------------------------------
// generic handler

type memHandler[Opts any] struct {
	schema  queries.EntitySchema
	db      *bun.DB
	build   func(q common.ResourceQuery[Opts]) (*microsql.Table, error)
	resolve func(q common.ResourceQuery[Opts], operator, property string, value any) (func(row []any) bool, error)

	mu   sync.Mutex
	snap *snapshot
}

func (h *memHandler[Opts]) Schema() queries.EntitySchema { return h.schema }

func (h *memHandler[Opts]) BuildDataset(q common.RepositoryHandlerBuildContext[Opts]) (*bun.SelectQuery, error) {
	t, err := h.build(q.ResourceQuery)
	if err != nil {
		return nil, err
	}
	h.mu.Lock()
	h.snap = newSnapshot(t)
	name := h.snap.name
	h.mu.Unlock()
	return h.db.NewSelect().TableExpr(`"mem".` + `"` + name + `"`).ColumnExpr("*"), nil
}

func (h *memHandler[Opts]) ResolveFilter(q common.ResourceQuery[Opts], operator, property string, value any) (string, []any, error) {
	p, err := h.resolve(q, operator, property, value)
	if err != nil {
		return "", nil, err
	}
	h.mu.Lock()
	defer h.mu.Unlock()
	h.snap.table.Preds = append(h.snap.table.Preds, p)
	return fmt.Sprintf("vp(%d)", len(h.snap.table.Preds)-1), nil, nil
}

func (h *memHandler[Opts]) Project(_ common.ResourceQuery[Opts], q *bun.SelectQuery) (*bun.SelectQuery, error) {
	return q.ColumnExpr("*"), nil
}

func (h *memHandler[Opts]) Expand(common.ResourceQuery[Opts], string) (*bun.SelectQuery, *common.JoinCondition, error) {
	return nil, nil, nil
}

func (h *memHandler[Opts]) done() {
	h.mu.Lock()
	if h.snap != nil {
		h.snap.release()
		h.snap = nil
	}
	h.mu.Unlock()
}

// resource wraps the real repository; one handler (hence one snapshot) per call.
type resource[T, Opts any] struct {
	s      *Store
	site   string
	mk     func() *memHandler[Opts]
	column string
	order  paginate.Order
	shadow func(ctx context.Context, kind string, q any) error
}

func (r *resource[T, Opts]) GetOne(ctx context.Context, q common.ResourceQuery[Opts]) (*T, error) {
	if err := r.s.enter(ctx, r.site+".GetOne"); err != nil {
		return nil, err
	}
	if r.shadow != nil {
		if err := r.shadow(ctx, "one", q); err != nil {
			return nil, err
		}
	}
	h := r.mk()
	defer h.done()
	return common.NewPaginatedResourceRepository[T, Opts](h, r.column, r.order).GetOne(ctx, q)
}

func (r *resource[T, Opts]) Count(ctx context.Context, q common.ResourceQuery[Opts]) (int, error) {
	if err := r.s.enter(ctx, r.site+".Count"); err != nil {
		return 0, err
	}
	if r.shadow != nil {
		if err := r.shadow(ctx, "count", q); err != nil {
			return 0, err
		}
	}
	h := r.mk()
	defer h.done()
	return common.NewPaginatedResourceRepository[T, Opts](h, r.column, r.order).Count(ctx, q)
}

func (r *resource[T, Opts]) Paginate(ctx context.Context, q common.PaginatedQuery[Opts]) (*paginate.Cursor[T], error) {
	if err := r.s.enter(ctx, r.site+".Paginate"); err != nil {
		return nil, err
	}
	if r.shadow != nil {
		if err := r.shadow(ctx, "page", q); err != nil {
			return nil, err
		}
	}
	h := r.mk()
	defer h.done()
	return common.NewPaginatedResourceRepository[T, Opts](h, r.column, r.order).Paginate(ctx, q)
}

func (s *Store) snapshotRows(fn func(t *Txn, d *LedgerData)) error {
	if s.sess != nil {
		s.c.mu.Lock()
		ab := s.sess.txn != nil && s.sess.txn.aborted
		s.c.mu.Unlock()
		if ab {
			return postgres.ResolveError(errAborted)
		}
	}
	s.c.mu.Lock()
	defer s.c.mu.Unlock()
	var t *Txn
	if s.sess != nil {
		t = s.sess.txn
	}
	fn(t, s.data())
	return nil
}

// ---------------------------------------------------------------------------
// transactions

func hasExpand(exp []string, v string) bool {
	for _, e := range exp {
		if e == v {
			return true
		}
	}
	return false
}

func (s *Store) Transactions() common.PaginatedResource[ledger.Transaction, any] {
	const (
		cID = iota
		cTimestamp
		cReference
		cInsertedAt
		cUpdatedAt
		cRevertedAt
		cPostings
		cMetadata
		cTemplate
		cPCV
		cPCEV
		cObj // opaque: *ledger.Transaction for predicates
	)
	mk := func() *memHandler[any] {
		return &memHandler[any]{
			schema: queries.TransactionSchema,
			db:     s.c.db,
			build: func(q common.ResourceQuery[any]) (*microsql.Table, error) {
				tab := &microsql.Table{Cols: []microsql.Col{
					{Name: "id", Kind: microsql.KNum}, {Name: "timestamp", Kind: microsql.KTime}, {Name: "reference", Kind: microsql.KStr},
					{Name: "inserted_at", Kind: microsql.KTime}, {Name: "updated_at", Kind: microsql.KTime}, {Name: "reverted_at", Kind: microsql.KTime},
					{Name: "postings", Kind: microsql.KOpaque}, {Name: "metadata", Kind: microsql.KOpaque}, {Name: "template", Kind: microsql.KStr},
				}}
				withPCV := hasExpand(q.Expand, "volumes")
				withPCEV := hasExpand(q.Expand, "effectiveVolumes")
				if withPCV {
					tab.Cols = append(tab.Cols, microsql.Col{Name: "post_commit_volumes", Kind: microsql.KOpaque})
				}
				if withPCEV {
					tab.Cols = append(tab.Cols, microsql.Col{Name: "post_commit_effective_volumes", Kind: microsql.KOpaque})
				}
				tab.Cols = append(tab.Cols, microsql.Col{Name: "obj__", Kind: microsql.KOpaque})
				err := s.snapshotRows(func(t *Txn, d *LedgerData) {
					ids := make([]uint64, 0, len(d.txs))
					for id, r := range d.txs {
						if r.view(t) != nil {
							ids = append(ids, id)
						}
					}
					sort.Slice(ids, func(i, j int) bool { return ids[i] < ids[j] })
					for _, id := range ids {
						tx := cpTx(d.txs[id].view(t))
						if q.UsePIT() && tx.Timestamp.After(*q.PIT) {
							continue
						}
						var reverted any
						if tx.RevertedAt != nil && (!q.UsePIT() || !tx.RevertedAt.After(*q.PIT)) {
							reverted = *tx.RevertedAt
						} else {
							tx.RevertedAt = nil
						}
						var ref any
						if tx.Reference != "" {
							ref = tx.Reference
						}
						row := []any{new(big.Int).SetUint64(id), tx.Timestamp, ref, tx.InsertedAt, tx.UpdatedAt, reverted,
							mustJSON(tx.Postings), mustJSON(tx.Metadata), tx.Template}
						if withPCV {
							row = append(row, mustJSON(tx.PostCommitVolumes))
						}
						if withPCEV {
							row = append(row, mustJSON(s.effectiveVolumesLocked(t, d, tx)))
						}
						row = append(row, tx)
						tab.Rows = append(tab.Rows, row)
					}
				})
				return tab, err
			},
			resolve: func(q common.ResourceQuery[any], operator, property string, value any) (func([]any) bool, error) {
				obj := func(r []any) *ledger.Transaction { return r[len(r)-1].(*ledger.Transaction) }
				switch {
				case property == "id":
					v := toBig(value)
					return func(r []any) bool { return v != nil && cmpOp(operator, r[cID].(*big.Int).Cmp(v)) }, nil
				case property == "reference":
					switch operator {
					case queries.OperatorIn:
						vs := anyStrings(value)
						return func(r []any) bool {
							for _, v := range vs {
								if obj(r).Reference != "" && obj(r).Reference == v {
									return true
								}
							}
							return false
						}, nil
					case queries.OperatorLike:
						pat, _ := value.(string)
						return func(r []any) bool { return obj(r).Reference != "" && sqlLike(obj(r).Reference, pat) }, nil
					default:
						v, _ := value.(string)
						return func(r []any) bool { return obj(r).Reference != "" && cmpOp(operator, strings.Compare(obj(r).Reference, v)) }, nil
					}
				case property == "timestamp" || property == "inserted_at" || property == "updated_at" || property == "reverted_at":
					v, ok := toTime(value)
					if !ok {
						return nil, fmt.Errorf("invalid date %v", value)
					}
					return func(r []any) bool {
						tx := obj(r)
						var tv time.Time
						switch property {
						case "timestamp":
							tv = tx.Timestamp
						case "inserted_at":
							tv = tx.InsertedAt
						case "updated_at":
							tv = tx.UpdatedAt
						case "reverted_at":
							if tx.RevertedAt == nil {
								return false
							}
							tv = *tx.RevertedAt
						}
						return cmpOp(operator, cmpTime(tv, v))
					}, nil
				case property == "reverted":
					want, _ := value.(bool)
					return func(r []any) bool { return (obj(r).RevertedAt != nil) == want }, nil
				case property == "account" || property == "source" || property == "destination":
					src := property != "destination"
					dst := property != "source"
					match := func(addr string) bool {
						if operator == queries.OperatorIn {
							for _, v := range anyStrings(value) {
								if v == addr {
									return true
								}
							}
							return false
						}
						p, _ := value.(string)
						return matchAddress(p, addr)
					}
					return func(r []any) bool {
						for _, p := range obj(r).Postings {
							if src && match(p.Source) || dst && match(p.Destination) {
								return true
							}
						}
						return false
					}, nil
				}
				if p, ok := metaPred(property, operator, value, func(r []any) metadata.Metadata { return obj(r).Metadata }); ok {
					return p, nil
				}
				return nil, fmt.Errorf("unsupported filter: %s", property)
			},
		}
	}
	return &resource[ledger.Transaction, any]{s: s, site: "Transactions", mk: mk, column: "id", order: paginate.OrderDesc, shadow: s.shadowFn("transactions")}
}

func sqlLike(s, pat string) bool {
	// reuse microsql's implementation through a tiny query-free path
	return likeMatch(s, pat)
}

func likeMatch(s, pat string) bool {
	var rec func(si, pi int) bool
	rec = func(si, pi int) bool {
		for pi < len(pat) {
			switch pat[pi] {
			case '%':
				for k := si; k <= len(s); k++ {
					if rec(k, pi+1) {
						return true
					}
				}
				return false
			case '_':
				if si >= len(s) {
					return false
				}
				si++
				pi++
			default:
				if si >= len(s) || s[si] != pat[pi] {
					return false
				}
				si++
				pi++
			}
		}
		return si == len(s)
	}
	return rec(0, 0)
}

// ---------------------------------------------------------------------------
// folds over visible transactions

type fold map[volKey]*ledger.Volumes

func (f fold) get(k volKey) *ledger.Volumes {
	if f[k] == nil {
		v := ledger.NewEmptyVolumes()
		f[k] = &v
	}
	return f[k]
}

// foldWindow folds postings of visible transactions whose date (effective or
// insertion) lies in [oot, pit].
func foldWindow(t *Txn, d *LedgerData, pit, oot *time.Time, insertion bool) fold {
	f := fold{}
	for _, r := range d.txs {
		tx := r.view(t)
		if tx == nil {
			continue
		}
		date := tx.Timestamp
		if insertion {
			date = tx.InsertedAt
		}
		if pit != nil && !pit.IsZero() && date.After(*pit) {
			continue
		}
		if oot != nil && !oot.IsZero() && date.Before(*oot) {
			continue
		}
		for _, p := range tx.Postings {
			src, dst := f.get(volKey{p.Source, p.Asset}), f.get(volKey{p.Destination, p.Asset})
			src.Output.Add(src.Output, p.Amount)
			dst.Input.Add(dst.Input, p.Amount)
		}
	}
	return f
}

func currentVolumes(t *Txn, d *LedgerData) fold {
	f := fold{}
	for k, r := range d.volumes {
		if v := r.view(t); v != nil {
			c := v.Copy()
			f[k] = &c
		}
	}
	return f
}

// ---------------------------------------------------------------------------
// accounts

func (s *Store) Accounts() common.PaginatedResource[ledger.Account, any] {
	mk := func() *memHandler[any] {
		var vols fold
		return &memHandler[any]{
			schema: queries.AccountSchema,
			db:     s.c.db,
			build: func(q common.ResourceQuery[any]) (*microsql.Table, error) {
				tab := &microsql.Table{Cols: []microsql.Col{
					{Name: "address", Kind: microsql.KStr}, {Name: "metadata", Kind: microsql.KOpaque},
					{Name: "first_usage", Kind: microsql.KTime}, {Name: "insertion_date", Kind: microsql.KTime}, {Name: "updated_at", Kind: microsql.KTime},
				}}
				withV := hasExpand(q.Expand, "volumes")
				withEV := hasExpand(q.Expand, "effectiveVolumes")
				if withV {
					tab.Cols = append(tab.Cols, microsql.Col{Name: "volumes", Kind: microsql.KOpaque})
				}
				if withEV {
					tab.Cols = append(tab.Cols, microsql.Col{Name: "effective_volumes", Kind: microsql.KOpaque})
				}
				tab.Cols = append(tab.Cols, microsql.Col{Name: "obj__", Kind: microsql.KOpaque})
				err := s.snapshotRows(func(t *Txn, d *LedgerData) {
					var byIns, byEff fold
					if q.UsePIT() {
						byIns = foldWindow(t, d, q.PIT, nil, true)
						byEff = foldWindow(t, d, q.PIT, nil, false)
						vols = byEff
					} else {
						byIns = currentVolumes(t, d)
						byEff = byIns
						vols = byIns
					}
					addrs := make([]string, 0, len(d.accounts))
					for a, r := range d.accounts {
						if r.view(t) != nil {
							addrs = append(addrs, a)
						}
					}
					sort.Strings(addrs)
					collect := func(f fold, addr string) ledger.VolumesByAssets {
						out := ledger.VolumesByAssets{}
						for k, v := range f {
							if k.Account == addr {
								out[k.Asset] = v.Copy()
							}
						}
						return out
					}
					for _, a := range addrs {
						acc := cpAccount(d.accounts[a].view(t))
						if q.UsePIT() && acc.FirstUsage.After(*q.PIT) {
							continue
						}
						row := []any{acc.Address, mustJSON(acc.Metadata), acc.FirstUsage, acc.InsertionDate, acc.UpdatedAt}
						if withV {
							row = append(row, mustJSON(collect(byIns, a)))
						}
						if withEV {
							row = append(row, mustJSON(collect(byEff, a)))
						}
						row = append(row, acc)
						tab.Rows = append(tab.Rows, row)
					}
				})
				return tab, err
			},
			resolve: func(q common.ResourceQuery[any], operator, property string, value any) (func([]any) bool, error) {
				obj := func(r []any) *ledger.Account { return r[len(r)-1].(*ledger.Account) }
				switch {
				case property == "address" || property == "account":
					if operator == queries.OperatorIn {
						vs := anyStrings(value)
						return func(r []any) bool {
							for _, v := range vs {
								if v == obj(r).Address {
									return true
								}
							}
							return false
						}, nil
					}
					p, _ := value.(string)
					return func(r []any) bool { return matchAddress(p, obj(r).Address) }, nil
				case property == "first_usage" || property == "insertion_date" || property == "updated_at":
					v, ok := toTime(value)
					if !ok {
						return nil, fmt.Errorf("invalid date %v", value)
					}
					return func(r []any) bool {
						a := obj(r)
						tv := a.FirstUsage
						if property == "insertion_date" {
							tv = a.InsertionDate
						} else if property == "updated_at" {
							tv = a.UpdatedAt
						}
						return cmpOp(operator, cmpTime(tv, v))
					}, nil
				case property == "balance" || strings.HasPrefix(property, "balance["):
					asset := ""
					if strings.HasPrefix(property, "balance[") {
						asset = strings.TrimSuffix(strings.TrimPrefix(property, "balance["), "]")
					}
					v := toBig(value)
					return func(r []any) bool {
						if v == nil {
							return false
						}
						for k, vol := range vols {
							if k.Account != obj(r).Address || (asset != "" && k.Asset != asset) {
								continue
							}
							if cmpOp(operator, vol.Balance().Cmp(v)) {
								return true
							}
						}
						return false
					}, nil
				}
				if p, ok := metaPred(property, operator, value, func(r []any) metadata.Metadata { return obj(r).Metadata }); ok {
					return p, nil
				}
				return nil, common.NewErrInvalidQuery("invalid filter property %s", property)
			},
		}
	}
	return &resource[ledger.Account, any]{s: s, site: "Accounts", mk: mk, column: "address", order: paginate.OrderAsc, shadow: s.shadowFn("accounts")}
}

// ---------------------------------------------------------------------------
// logs (through the real mapper type storage/ledger.Log -> ToCore)

type logsResource struct {
	s *Store
}

func (s *Store) Logs() common.PaginatedResource[ledger.Log, any] { return &logsResource{s: s} }

func (r *logsResource) handler() *memHandler[any] {
	s := r.s
	return &memHandler[any]{
		schema: queries.LogSchema,
		db:     s.c.db,
		build: func(q common.ResourceQuery[any]) (*microsql.Table, error) {
			tab := &microsql.Table{Cols: []microsql.Col{
				{Name: "id", Kind: microsql.KNum}, {Name: "type", Kind: microsql.KStr}, {Name: "data", Kind: microsql.KOpaque},
				{Name: "date", Kind: microsql.KTime}, {Name: "idempotency_key", Kind: microsql.KStr}, {Name: "idempotency_hash", Kind: microsql.KStr},
				{Name: "hash", Kind: microsql.KOpaque}, {Name: "schema_version", Kind: microsql.KStr}, {Name: "ledger", Kind: microsql.KStr},
				{Name: "memento", Kind: microsql.KOpaque},
			}}
			err := s.snapshotRows(func(t *Txn, d *LedgerData) {
				ids := make([]uint64, 0, len(d.logs))
				for id, lr := range d.logs {
					if lr.view(t) != nil {
						ids = append(ids, id)
					}
				}
				sort.Slice(ids, func(i, j int) bool { return ids[i] < ids[j] })
				for _, id := range ids {
					l := d.logs[id].view(t)
					sp := l.Data.(storedPayload)
					var ik, ih, sv, hash any
					if l.IdempotencyKey != "" {
						ik = l.IdempotencyKey
					}
					if l.IdempotencyHash != "" {
						ih = l.IdempotencyHash
					}
					if l.SchemaVersion != "" {
						sv = l.SchemaVersion
					}
					if l.Hash != nil {
						hash = append([]byte(nil), l.Hash...)
					}
					tab.Rows = append(tab.Rows, []any{new(big.Int).SetUint64(id), l.Type.String(), jsonCol(sp.raw), l.Date, ik, ih, hash, sv, s.l.Name, append([]byte(nil), sp.memento...)})
				}
			})
			return tab, err
		},
		resolve: func(q common.ResourceQuery[any], operator, property string, value any) (func([]any) bool, error) {
			switch property {
			case "id":
				v := toBig(value)
				return func(r []any) bool { return v != nil && cmpOp(operator, r[0].(*big.Int).Cmp(v)) }, nil
			case "date":
				v, ok := toTime(value)
				if !ok {
					return nil, fmt.Errorf("invalid date %v", value)
				}
				return func(r []any) bool { return cmpOp(operator, cmpTime(time.New(r[3].(gotime.Time)), v)) }, nil
			case "type":
				if operator == queries.OperatorIn {
					vs := anyStrings(value)
					return func(r []any) bool {
						for _, v := range vs {
							if r[1].(string) == v {
								return true
							}
						}
						return false
					}, nil
				}
				sv, _ := value.(string)
				if operator == queries.OperatorLike {
					return func(r []any) bool { return likeMatch(r[1].(string), sv) }, nil
				}
				return func(r []any) bool { return cmpOp(operator, strings.Compare(r[1].(string), sv)) }, nil
			}
			return nil, fmt.Errorf("unknown key '%s' when building query", property)
		},
	}
}

func (r *logsResource) repo(h *memHandler[any]) *common.PaginatedResourceRepositoryMapper[ledger.Log, ledgerstore.Log, any] {
	return common.NewPaginatedResourceRepositoryMapper[ledger.Log, ledgerstore.Log, any](h, "id", paginate.OrderDesc)
}

func (r *logsResource) GetOne(ctx context.Context, q common.ResourceQuery[any]) (*ledger.Log, error) {
	if err := r.s.enter(ctx, "Logs.GetOne"); err != nil {
		return nil, err
	}
	if err := r.s.shadowFn("logs")(ctx, "one", q); err != nil {
		return nil, err
	}
	h := r.handler()
	defer h.done()
	return r.repo(h).GetOne(ctx, q)
}

func (r *logsResource) Count(ctx context.Context, q common.ResourceQuery[any]) (int, error) {
	if err := r.s.enter(ctx, "Logs.Count"); err != nil {
		return 0, err
	}
	if err := r.s.shadowFn("logs")(ctx, "count", q); err != nil {
		return 0, err
	}
	h := r.handler()
	defer h.done()
	return r.repo(h).Count(ctx, q)
}

func (r *logsResource) Paginate(ctx context.Context, q common.PaginatedQuery[any]) (*paginate.Cursor[ledger.Log], error) {
	if err := r.s.enter(ctx, "Logs.Paginate"); err != nil {
		return nil, err
	}
	if err := r.s.shadowFn("logs")(ctx, "page", q); err != nil {
		return nil, err
	}
	h := r.handler()
	defer h.done()
	return r.repo(h).Paginate(ctx, q)
}

// ---------------------------------------------------------------------------
// schemas

func (s *Store) Schemas() common.PaginatedResource[ledger.Schema, any] {
	mk := func() *memHandler[any] {
		return &memHandler[any]{
			schema: queries.SchemaSchema,
			db:     s.c.db,
			build: func(q common.ResourceQuery[any]) (*microsql.Table, error) {
				tab := &microsql.Table{Cols: []microsql.Col{
					{Name: "version", Kind: microsql.KStr}, {Name: "created_at", Kind: microsql.KTime},
					{Name: "chart", Kind: microsql.KOpaque}, {Name: "transactions", Kind: microsql.KOpaque}, {Name: "queries", Kind: microsql.KOpaque},
				}}
				err := s.snapshotRows(func(t *Txn, d *LedgerData) {
					var vs []string
					for v, r := range d.schemas {
						if r.view(t) != nil {
							vs = append(vs, v)
						}
					}
					sort.Strings(vs)
					for _, v := range vs {
						sc := d.schemas[v].view(t)
						tab.Rows = append(tab.Rows, []any{sc.Version, sc.CreatedAt, mustJSON(sc.Chart), mustJSON(sc.Transactions), mustJSON(sc.Queries)})
					}
				})
				return tab, err
			},
			resolve: func(q common.ResourceQuery[any], operator, property string, value any) (func([]any) bool, error) {
				switch property {
				case "version":
					switch operator {
					case queries.OperatorIn:
						vs := anyStrings(value)
						return func(r []any) bool {
							for _, v := range vs {
								if r[0].(string) == v {
									return true
								}
							}
							return false
						}, nil
					case queries.OperatorLike:
						sv, _ := value.(string)
						return func(r []any) bool { return likeMatch(r[0].(string), sv) }, nil
					}
					sv, _ := value.(string)
					return func(r []any) bool { return cmpOp(operator, strings.Compare(r[0].(string), sv)) }, nil
				case "created_at":
					v, ok := toTime(value)
					if !ok {
						return nil, fmt.Errorf("invalid date %v", value)
					}
					return func(r []any) bool {
						switch x := r[1].(type) {
						case gotime.Time:
							return cmpOp(operator, cmpTime(time.New(x), v))
						case time.Time:
							return cmpOp(operator, cmpTime(x, v))
						}
						return false
					}, nil
				}
				return nil, fmt.Errorf("memstore: harness gap: unsupported schema filter: %s", property)
			},
		}
	}
	return &resource[ledger.Schema, any]{s: s, site: "Schemas", mk: mk, column: "created_at", order: paginate.OrderDesc}
}

// ---------------------------------------------------------------------------
// volumes

func groupAddress(addr string, lvl int) string {
	if lvl <= 0 {
		return addr
	}
	parts := strings.Split(addr, ":")
	if len(parts) > lvl {
		parts = parts[:lvl]
	}
	return strings.Join(parts, ":")
}

func (s *Store) Volumes() common.PaginatedResource[ledger.VolumesWithBalanceByAssetByAccount, ledger.GetVolumesOptions] {
	type vobj struct {
		account  string
		asset    string
		balance  *big.Int
		acc      *ledger.Account // nil when the account row is missing
		accounts []*ledger.Account
	}
	mk := func() *memHandler[ledger.GetVolumesOptions] {
		return &memHandler[ledger.GetVolumesOptions]{
			schema: queries.VolumeSchema,
			db:     s.c.db,
			build: func(q common.ResourceQuery[ledger.GetVolumesOptions]) (*microsql.Table, error) {
				if (q.UsePIT() || q.UseOOT()) && !s.l.HasFeature(features.FeatureMovesHistory, "ON") {
					return nil, ledgerstore.NewErrMissingFeature(features.FeatureMovesHistory)
				}
				tab := &microsql.Table{Cols: []microsql.Col{
					{Name: "account", Kind: microsql.KStr}, {Name: "asset", Kind: microsql.KStr},
					{Name: "input", Kind: microsql.KNum}, {Name: "output", Kind: microsql.KNum}, {Name: "balance", Kind: microsql.KNum},
					{Name: "obj__", Kind: microsql.KOpaque},
				}}
				err := s.snapshotRows(func(t *Txn, d *LedgerData) {
					var f fold
					if q.UsePIT() || q.UseOOT() {
						f = foldWindow(t, d, q.PIT, q.OOT, q.Opts.UseInsertionDate)
					} else {
						f = currentVolumes(t, d)
					}
					keys := make([]volKey, 0, len(f))
					for k := range f {
						keys = append(keys, k)
					}
					sort.Slice(keys, func(i, j int) bool {
						if keys[i].Account != keys[j].Account {
							return keys[i].Account < keys[j].Account
						}
						return keys[i].Asset < keys[j].Asset
					})
					for _, k := range keys {
						v := f[k]
						var acc *ledger.Account
						if r := d.accounts[k.Account]; r != nil {
							acc = cpAccount(r.view(t))
						}
						tab.Rows = append(tab.Rows, []any{k.Account, k.Asset, cpBig(v.Input), cpBig(v.Output), v.Balance(), &vobj{account: k.Account, asset: k.Asset, balance: v.Balance(), acc: acc}})
					}
				})
				return tab, err
			},
			resolve: func(q common.ResourceQuery[ledger.GetVolumesOptions], operator, property string, value any) (func([]any) bool, error) {
				obj := func(r []any) *vobj { return r[len(r)-1].(*vobj) }
				switch {
				case property == "address" || property == "account":
					if operator == queries.OperatorIn {
						vs := anyStrings(value)
						return func(r []any) bool {
							for _, v := range vs {
								if v == obj(r).account {
									return true
								}
							}
							return false
						}, nil
					}
					p, _ := value.(string)
					return func(r []any) bool { return matchAddress(p, obj(r).account) }, nil
				case property == "first_usage":
					v, ok := toTime(value)
					if !ok {
						return nil, fmt.Errorf("invalid date %v", value)
					}
					return func(r []any) bool { return obj(r).acc != nil && cmpOp(operator, cmpTime(obj(r).acc.FirstUsage, v)) }, nil
				case property == "balance" || strings.HasPrefix(property, "balance["):
					asset := ""
					if strings.HasPrefix(property, "balance[") {
						asset = strings.TrimSuffix(strings.TrimPrefix(property, "balance["), "]")
					}
					v := toBig(value)
					return func(r []any) bool {
						o := obj(r)
						return v != nil && (asset == "" || o.asset == asset) && cmpOp(operator, o.balance.Cmp(v))
					}, nil
				}
				if p, ok := metaPred(property, operator, value, func(r []any) metadata.Metadata {
					if obj(r).acc == nil {
						return nil
					}
					return obj(r).acc.Metadata
				}); ok {
					return p, nil
				}
				return nil, fmt.Errorf("unsupported filter %s", property)
			},
		}
	}
	return &volumesResource{s: s, mk: mk}
}

// volumesResource adds the GroupLvl projection (done by SQL GROUP BY in the real store):
// filters apply to ungrouped rows, then rows are grouped and re-paginated.
type volumesResource struct {
	s  *Store
	mk func() *memHandler[ledger.GetVolumesOptions]
}

func (r *volumesResource) grouped(h *memHandler[ledger.GetVolumesOptions], lvl int) *memHandler[ledger.GetVolumesOptions] {
	if lvl <= 0 {
		return h
	}
	inner := h
	return &memHandler[ledger.GetVolumesOptions]{
		schema: inner.schema, db: inner.db,
		build: func(q common.ResourceQuery[ledger.GetVolumesOptions]) (*microsql.Table, error) {
			// evaluate the filter on ungrouped rows through the real repository machinery
			base, err := inner.build(q)
			if err != nil {
				return nil, err
			}
			inner.mu.Lock()
			inner.snap = newSnapshot(base)
			inner.mu.Unlock()
			defer inner.done()
			rows := base.Rows
			if q.Builder != nil {
				where, _, err := q.Builder.Build(query.ContextFn(func(key, operator string, value any) (string, []any, error) {
					return inner.ResolveFilter(q, operator, key, value)
				}))
				if err != nil {
					return nil, err
				}
				if where != "" {
					res, err := microsql.Exec(`SELECT * FROM "mem"."`+inner.snap.name+`" dataset WHERE `+where, func(schema, name string) *microsql.Table {
						if name == inner.snap.name {
							return base
						}
						return nil
					})
					if err != nil {
						return nil, err
					}
					rows = res.RowIdx
				}
			}
			type agg struct{ in, out *big.Int }
			sums := map[volKey]*agg{}
			for _, row := range rows {
				k := volKey{groupAddress(row[0].(string), lvl), row[1].(string)}
				a := sums[k]
				if a == nil {
					a = &agg{new(big.Int), new(big.Int)}
					sums[k] = a
				}
				a.in.Add(a.in, row[2].(*big.Int))
				a.out.Add(a.out, row[3].(*big.Int))
			}
			keys := make([]volKey, 0, len(sums))
			for k := range sums {
				keys = append(keys, k)
			}
			sort.Slice(keys, func(i, j int) bool {
				if keys[i].Account != keys[j].Account {
					return keys[i].Account < keys[j].Account
				}
				return keys[i].Asset < keys[j].Asset
			})
			tab := &microsql.Table{Cols: base.Cols[:5]}
			for _, k := range keys {
				a := sums[k]
				tab.Rows = append(tab.Rows, []any{k.Account, k.Asset, a.in, a.out, new(big.Int).Sub(a.in, a.out)})
			}
			return tab, nil
		},
		resolve: func(common.ResourceQuery[ledger.GetVolumesOptions], string, string, any) (func([]any) bool, error) {
			return func([]any) bool { return true }, nil // already applied before grouping
		},
	}
}

func (r *volumesResource) repo(q common.ResourceQuery[ledger.GetVolumesOptions]) (*common.PaginatedResourceRepository[ledger.VolumesWithBalanceByAssetByAccount, ledger.GetVolumesOptions], *memHandler[ledger.GetVolumesOptions]) {
	h := r.grouped(r.mk(), q.Opts.GroupLvl)
	return common.NewPaginatedResourceRepository[ledger.VolumesWithBalanceByAssetByAccount, ledger.GetVolumesOptions](h, "account", paginate.OrderAsc), h
}

func (r *volumesResource) GetOne(ctx context.Context, q common.ResourceQuery[ledger.GetVolumesOptions]) (*ledger.VolumesWithBalanceByAssetByAccount, error) {
	if err := r.s.enter(ctx, "Volumes.GetOne"); err != nil {
		return nil, err
	}
	if err := r.s.shadowFn("volumes")(ctx, "one", q); err != nil {
		return nil, err
	}
	repo, h := r.repo(q)
	defer h.done()
	return repo.GetOne(ctx, q)
}

func (r *volumesResource) Count(ctx context.Context, q common.ResourceQuery[ledger.GetVolumesOptions]) (int, error) {
	if err := r.s.enter(ctx, "Volumes.Count"); err != nil {
		return 0, err
	}
	if err := r.s.shadowFn("volumes")(ctx, "count", q); err != nil {
		return 0, err
	}
	repo, h := r.repo(q)
	defer h.done()
	return repo.Count(ctx, q)
}

func (r *volumesResource) Paginate(ctx context.Context, pq common.PaginatedQuery[ledger.GetVolumesOptions]) (*paginate.Cursor[ledger.VolumesWithBalanceByAssetByAccount], error) {
	if err := r.s.enter(ctx, "Volumes.Paginate"); err != nil {
		return nil, err
	}
	if err := r.s.shadowFn("volumes")(ctx, "page", pq); err != nil {
		return nil, err
	}
	var rq common.ResourceQuery[ledger.GetVolumesOptions]
	switch v := any(pq).(type) {
	case common.InitialPaginatedQuery[ledger.GetVolumesOptions]:
		rq = v.Options
	case common.OffsetPaginatedQuery[ledger.GetVolumesOptions]:
		rq = v.Options
	case common.ColumnPaginatedQuery[ledger.GetVolumesOptions]:
		rq = v.Options
	}
	repo, h := r.repo(rq)
	defer h.done()
	return repo.Paginate(ctx, pq)
}

// ---------------------------------------------------------------------------
// aggregated balances

type aggResource struct{ s *Store }

func (s *Store) AggregatedBalances() common.Resource[ledger.AggregatedVolumes, ledger.GetAggregatedVolumesOptions] {
	return &aggResource{s: s}
}

func (r *aggResource) rows(ctx context.Context, q common.ResourceQuery[ledger.GetAggregatedVolumesOptions]) ([][]any, error) {
	s := r.s
	if err := s.shadowFn("aggregated")(ctx, "one", q); err != nil {
		return nil, err
	}
	if q.UsePIT() {
		if q.Opts.UseInsertionDate {
			if !s.l.HasFeature(features.FeatureMovesHistory, "ON") {
				return nil, ledgerstore.NewErrMissingFeature(features.FeatureMovesHistory)
			}
		} else if !s.l.HasFeature(features.FeatureMovesHistoryPostCommitEffectiveVolumes, "SYNC") {
			return nil, ledgerstore.NewErrMissingFeature(features.FeatureMovesHistoryPostCommitEffectiveVolumes)
		}
	}
	type aobj struct {
		account string
		acc     *ledger.Account
	}
	tab := &microsql.Table{Cols: []microsql.Col{{Name: "accounts_address", Kind: microsql.KStr}, {Name: "asset", Kind: microsql.KStr},
		{Name: "input", Kind: microsql.KNum}, {Name: "output", Kind: microsql.KNum}, {Name: "obj__", Kind: microsql.KOpaque}}}
	if err := s.snapshotRows(func(t *Txn, d *LedgerData) {
		var f fold
		if q.UsePIT() {
			f = foldWindow(t, d, q.PIT, nil, q.Opts.UseInsertionDate)
		} else {
			f = currentVolumes(t, d)
		}
		for k, v := range f {
			var acc *ledger.Account
			if ar := d.accounts[k.Account]; ar != nil {
				acc = cpAccount(ar.view(t))
			}
			tab.Rows = append(tab.Rows, []any{k.Account, k.Asset, cpBig(v.Input), cpBig(v.Output), &aobj{k.Account, acc}})
		}
	}); err != nil {
		return nil, err
	}
	rows := tab.Rows
	if q.Builder != nil {
		where, _, err := q.Builder.Build(query.ContextFn(func(key, operator string, value any) (string, []any, error) {
			obj := func(r []any) *aobj { return r[len(r)-1].(*aobj) }
			var p func([]any) bool
			switch {
			case key == "address":
				if operator == queries.OperatorIn {
					vs := anyStrings(value)
					p = func(r []any) bool {
						for _, v := range vs {
							if v == obj(r).account {
								return true
							}
						}
						return false
					}
				} else {
					pat, _ := value.(string)
					p = func(r []any) bool { return matchAddress(pat, obj(r).account) }
				}
			default:
				mp, ok := metaPred(key, operator, value, func(r []any) metadata.Metadata {
					if obj(r).acc == nil {
						return nil
					}
					return obj(r).acc.Metadata
				})
				if !ok {
					return "", nil, common.NewErrInvalidQuery("unknown key '%s' when building query", key)
				}
				p = mp
			}
			tab.Preds = append(tab.Preds, p)
			return fmt.Sprintf("vp(%d)", len(tab.Preds)-1), nil, nil
		}))
		if err != nil {
			return nil, err
		}
		if where != "" {
			res, err := microsql.Exec(`SELECT * FROM "mem"."t" dataset WHERE `+where, func(string, string) *microsql.Table { return tab })
			if err != nil {
				return nil, err
			}
			rows = res.RowIdx
		}
	}
	return rows, nil
}

func (r *aggResource) GetOne(ctx context.Context, q common.ResourceQuery[ledger.GetAggregatedVolumesOptions]) (*ledger.AggregatedVolumes, error) {
	if err := r.s.enter(ctx, "AggregatedBalances.GetOne"); err != nil {
		return nil, err
	}
	rows, err := r.rows(ctx, q)
	if err != nil {
		return nil, err
	}
	out := ledger.VolumesByAssets{}
	for _, row := range rows {
		asset := row[1].(string)
		v, ok := out[asset]
		if !ok {
			v = ledger.NewEmptyVolumes()
		}
		v.Input.Add(v.Input, row[2].(*big.Int))
		v.Output.Add(v.Output, row[3].(*big.Int))
		out[asset] = v
	}
	// the real projection always yields exactly one row (aggregate over possibly zero rows)
	return &ledger.AggregatedVolumes{Aggregated: out}, nil
}

func (r *aggResource) Count(ctx context.Context, q common.ResourceQuery[ledger.GetAggregatedVolumesOptions]) (int, error) {
	if err := r.s.enter(ctx, "AggregatedBalances.Count"); err != nil {
		return 0, err
	}
	if _, err := r.rows(ctx, q); err != nil {
		return 0, err
	}
	return 1, nil
}

var _ = errors.New
