// Package memstore is the in-memory implementation of the Go interfaces where
// /repo's SQL starts (controller/ledger.Store, controller/system.Driver and
// Store). It is TRUSTED BASE: it reproduces the Postgres behaviours the Go code
// above relies on (transactions + savepoints, READ COMMITTED visibility, row
// locks, advisory locks, unique indexes that wait for uncommitted duplicates,
// non-transactional sequences, transaction_date(), aborted-transaction state).
// See DESIGN.md section 2.2 and appendix A for the SQL each method stands for.
package memstore

import (
	"context"
	"fmt"
	"sort"
	"sync"
	"time"

	"github.com/jackc/pgx/v5/pgconn"
	"github.com/uptrace/bun"

	ledger "github.com/formancehq/ledger/internal"

	"github.com/formancehq/ledger/verifharness/pgshim"
)

type ctxKey int

const (
	ctxClient ctxKey = iota
	ctxSession
)

// WithClient tags a context with the logical client id used by the scheduler.
func WithClient(ctx context.Context, id int) context.Context {
	return context.WithValue(ctx, ctxClient, id)
}

func ClientOf(ctx context.Context) int {
	if v, ok := ctx.Value(ctxClient).(int); ok {
		return v
	}
	return -1
}

// Scheduler is the cooperative scheduler plugged in controlled mode.
type Scheduler interface {
	// Yield is called at every store-call boundary, outside memstore's lock.
	Yield(ctx context.Context, site string)
	// Block is called when the caller has to wait for a lock; it returns when
	// the caller should retry (ready() was true when it was scheduled).
	Block(ctx context.Context, site string, ready func() bool)
}

// Event is one entry of the cluster's totally ordered trace.
type Event struct {
	Seq     int64
	Client  int
	Session int64
	Kind    string // begin, commit, commit-failed, rollback, savepoint, release, rollback-to, call, listener...
	Site    string
	Ledger  string
	Info    string
}

// Cluster is one fake Postgres instance.
type Cluster struct {
	mu      sync.Mutex
	changed chan struct{} // closed and replaced on every lock release / commit
	clock   int64         // logical microseconds
	base    time.Time

	sysLedgers map[string]*vrow[ledger.Ledger] // by name
	nextLedger int
	data       map[string]*LedgerData // by ledger name
	locks      map[string]*lockState
	waitq      map[string][]*Session // FIFO of waiters per key: a released lock goes to the first waiter, as in Postgres
	sessSeq    int64
	// isolationAsked counts BeginTX calls asking for an isolation level other than default / read committed
	isolationAsked map[string]int

	shim *pgshim.Shim
	db   *bun.DB

	shadow   *pgshim.Shim
	shadowDB *bun.DB
	// NoShadow disables shadow rendering of reads through the real storage code.
	NoShadow bool

	Sched Scheduler
	// Hook runs at every store-call entry after the scheduler yield; a non-nil
	// error is returned to the caller as the result of the call (fault injection).
	Hook func(ctx context.Context, site string) error
	// OnCommit runs (under the cluster lock) after every top-level commit has been published.
	OnCommit func(c *Cluster, ledgerName string)
	// CommitFault, when it returns non-nil, makes that top-level COMMIT fail (and roll back).
	CommitFault func(ctx context.Context) error
	// OnLockWait, when set, is told (outside the cluster lock) about every lock request that
	// has to wait. A non-nil error is returned to the requester instead of waiting (what a
	// statement cancellation does); nil = wait as usual. Unset: no effect.
	OnLockWait func(ctx context.Context, w LockWait) error

	evMu   sync.Mutex
	events []Event
	evSeq  int64
	Trace  bool

	stats struct {
		calls, lockWaits, deadlocks, commits, rollbacks int64
	}
}

func NewCluster() *Cluster {
	c := &Cluster{
		changed:    make(chan struct{}),
		base:       time.Date(2030, 1, 1, 0, 0, 0, 0, time.UTC),
		sysLedgers: map[string]*vrow[ledger.Ledger]{},
		data:       map[string]*LedgerData{},
		locks:      map[string]*lockState{},
		waitq:      map[string][]*Session{},
	}
	c.shim = pgshim.New(c.handleSQL)
	c.shim.SetRecord(false)
	c.db = c.shim.DB()
	return c
}

func (c *Cluster) Close() { _ = c.db.Close() }

// Stats returns counters for evidence.
func (c *Cluster) Stats() map[string]int64 {
	c.mu.Lock()
	defer c.mu.Unlock()
	return map[string]int64{"store_calls": c.stats.calls, "lock_waits": c.stats.lockWaits, "deadlocks": c.stats.deadlocks, "commits": c.stats.commits, "rollbacks": c.stats.rollbacks}
}

func (c *Cluster) emit(ctx context.Context, sess *Session, kind, site, ledgerName, info string) {
	if !c.Trace {
		return
	}
	c.evMu.Lock()
	c.evSeq++
	e := Event{Seq: c.evSeq, Client: ClientOf(ctx), Kind: kind, Site: site, Ledger: ledgerName, Info: info}
	if sess != nil {
		e.Session = sess.id
	}
	c.events = append(c.events, e)
	c.evMu.Unlock()
}

// Emit lets monitors (listeners, drivers) add their own events to the same total order.
func (c *Cluster) Emit(ctx context.Context, kind, site, ledgerName, info string) {
	c.emit(ctx, nil, kind, site, ledgerName, info)
}

func (c *Cluster) Events() []Event {
	c.evMu.Lock()
	defer c.evMu.Unlock()
	return append([]Event(nil), c.events...)
}

func (c *Cluster) ResetEvents() { c.evMu.Lock(); c.events = nil; c.evMu.Unlock() }

// now returns the next logical timestamp (strictly increasing, µs resolution).
func (c *Cluster) nowLocked() time.Time {
	c.clock++
	return c.base.Add(time.Duration(c.clock) * time.Microsecond)
}

// AdvanceClock moves the logical clock forward (histories with gaps).
func (c *Cluster) AdvanceClock(d time.Duration) {
	c.mu.Lock()
	c.clock += int64(d / time.Microsecond)
	c.mu.Unlock()
}

func (c *Cluster) broadcastLocked() {
	close(c.changed)
	c.changed = make(chan struct{})
}

// ---------------------------------------------------------------------------
// versioned rows, sessions, transactions, undo log

// vrow is a row with a committed version and at most one pending version,
// owned by the transaction holding the row's write lock.
type vrow[T any] struct {
	committed *T
	pending   *T
	pendingBy *Txn // non-nil => pending is this txn's view (pending==nil means deleted/not yet existing)
}

func (r *vrow[T]) view(t *Txn) *T {
	if r == nil {
		return nil
	}
	if t != nil && r.pendingBy == t {
		return r.pending
	}
	return r.committed
}

// Session stands for one database connection.
type Session struct {
	id  int64
	c   *Cluster
	txn *Txn // open top-level transaction, if any
	waitingKey string // lock key this session is waiting for ("" = not waiting)
	client     int
}

type undoEntry struct {
	fn func()
}

type Txn struct {
	sess       *Session
	date       time.Time // transaction_date()
	undo       []undoEntry
	savepoints []savepoint
	aborted    bool
	touched    map[*vrowHandle]struct{}
	publish    []func() // applied at top-level commit
	locks      map[string]struct{}
	ledgers    map[string]struct{}
	done       bool
}

type savepoint struct {
	name    string
	undoLen int
	pubLen  int
}

type vrowHandle struct{} // placeholder identity type

func (c *Cluster) newSession(ctx context.Context) *Session {
	c.sessSeq++
	return &Session{id: c.sessSeq, c: c, client: ClientOf(ctx)}
}

func (c *Cluster) beginLocked(s *Session) *Txn {
	t := &Txn{sess: s, date: c.nowLocked(), locks: map[string]struct{}{}, ledgers: map[string]struct{}{}}
	s.txn = t
	return t
}

// setPending installs v as t's pending version of r, recording undo.
func setPending[T any](t *Txn, r *vrow[T], v *T) {
	prevP, prevBy := r.pending, r.pendingBy
	t.undo = append(t.undo, undoEntry{fn: func() { r.pending, r.pendingBy = prevP, prevBy }})
	r.pending, r.pendingBy = v, t
	t.publish = append(t.publish, func() {
		if r.pendingBy == t {
			r.committed = r.pending
			r.pending, r.pendingBy = nil, nil
		}
	})
}

func (t *Txn) rollbackToLocked(undoLen, pubLen int) {
	for i := len(t.undo) - 1; i >= undoLen; i-- {
		t.undo[i].fn()
	}
	t.undo = t.undo[:undoLen]
	t.publish = t.publish[:pubLen]
}

// ---------------------------------------------------------------------------
// locks

type lockState struct {
	owner *Session
	sess  int  // session-level acquisitions (advisory)
	xact  bool // held by the owner's current transaction
}

var errAborted = &pgconn.PgError{Severity: "ERROR", Code: "25P02", Message: "current transaction is aborted, commands ignored until end of transaction block"}

func pgErr(code, msg, constraint string) *pgconn.PgError {
	return &pgconn.PgError{Severity: "ERROR", Code: code, Message: msg, ConstraintName: constraint}
}

// tryLockLocked attempts to take key for sess. xact=true ties the lock to the
// session's current transaction (released at its end, or when rolling back to a
// savepoint established before the acquisition, as Postgres does).
func (c *Cluster) tryLockLocked(s *Session, key string, xact bool) (ok bool, holder *Session) {
	ls := c.locks[key]
	if ls == nil {
		if q := c.waitq[key]; len(q) > 0 && q[0] != s {
			return false, q[0] // free, but promised to the first waiter
		}
		ls = &lockState{owner: s}
		c.locks[key] = ls
	} else if ls.owner != s {
		return false, ls.owner
	}
	c.dequeueLocked(s, key)
	if !xact {
		ls.sess++
		return true, nil
	}
	if !ls.xact {
		t := s.txn
		if t == nil {
			// the transaction ended under the caller (context cancelled): nothing to tie the lock to
			ls.sess++
			return true, nil
		}
		ls.xact = true
		t.locks[key] = struct{}{}
		t.undo = append(t.undo, undoEntry{fn: func() {
			if c.locks[key] == ls && ls.xact {
				ls.xact = false
				delete(t.locks, key)
				c.maybeFreeLocked(key, ls)
			}
		}})
	}
	return true, nil
}

func (c *Cluster) dequeueLocked(s *Session, key string) {
	q := c.waitq[key]
	for i, w := range q {
		if w == s {
			q = append(q[:i:i], q[i+1:]...)
			break
		}
	}
	if len(q) == 0 {
		delete(c.waitq, key)
	} else {
		c.waitq[key] = q
	}
}

func (c *Cluster) enqueueLocked(s *Session, key string) {
	for _, w := range c.waitq[key] {
		if w == s {
			return
		}
	}
	c.waitq[key] = append(c.waitq[key], s)
}

// ownerOrPromisedLocked: who a waiter on key is effectively waiting for.
func (c *Cluster) ownerOrPromisedLocked(key string, asking *Session) *Session {
	if ls := c.locks[key]; ls != nil {
		return ls.owner
	}
	if q := c.waitq[key]; len(q) > 0 && q[0] != asking {
		return q[0]
	}
	return nil
}

func (c *Cluster) maybeFreeLocked(key string, ls *lockState) {
	if ls.sess <= 0 && !ls.xact {
		delete(c.locks, key)
		c.broadcastLocked()
	}
}

func (c *Cluster) sessionUnlockLocked(s *Session, key string) bool {
	ls := c.locks[key]
	if ls == nil || ls.owner != s || ls.sess <= 0 {
		return false
	}
	ls.sess--
	c.maybeFreeLocked(key, ls)
	return true
}

// LockWait describes a lock request that cannot be granted now (see Cluster.OnLockWait).
type LockWait struct {
	Key, Site        string
	Waiter, Holder   int64 // session ids; Holder owns the lock (or is the first waiter it is promised to)
	WaiterClient     int   // logical client ids of the contexts the sessions were opened with (-1 = untagged)
	HolderClient     int
	HolderWaitingKey string // "" = the holder is not itself waiting for a lock
	HolderInTxn      bool
}

// lock blocks until key is held by sess, detecting deadlocks (the requester
// that closes a wait-for cycle gets 40P01, as Postgres' detector would pick it).
func (c *Cluster) lock(ctx context.Context, s *Session, key, site string, xact bool) error {
	for {
		c.mu.Lock()
		ok, holder := c.tryLockLocked(s, key, xact)
		if ok {
			s.waitingKey = ""
			c.mu.Unlock()
			return nil
		}
		// deadlock detection on the CURRENT wait-for graph: holder -> owner of the key it waits for -> ...
		for h, n := holder, 0; h != nil && n < 1000; n++ {
			if h == s {
				c.stats.deadlocks++
				s.waitingKey = ""
				c.dequeueLocked(s, key)
				c.mu.Unlock()
				c.emit(ctx, s, "deadlock", site, "", key)
				return pgErr("40P01", "deadlock detected", "")
			}
			if h.waitingKey == "" {
				break
			}
			h = c.ownerOrPromisedLocked(h.waitingKey, h)
		}
		s.waitingKey = key
		c.enqueueLocked(s, key)
		c.stats.lockWaits++
		ch := c.changed
		var lw LockWait
		if c.OnLockWait != nil {
			lw = LockWait{Key: key, Site: site, Waiter: s.id, WaiterClient: s.client, Holder: holder.id, HolderClient: holder.client,
				HolderWaitingKey: holder.waitingKey, HolderInTxn: holder.txn != nil}
		}
		c.mu.Unlock()
		c.emit(ctx, s, "lock-wait", site, "", key)
		if c.OnLockWait != nil {
			if err := c.OnLockWait(ctx, lw); err != nil {
				c.mu.Lock()
				s.waitingKey = ""
				c.dequeueLocked(s, key)
				c.mu.Unlock()
				return err
			}
		}
		if c.Sched != nil {
			c.Sched.Block(ctx, site+":wait:"+key, func() bool {
				c.mu.Lock()
				defer c.mu.Unlock()
				ls := c.locks[key]
				if ls != nil {
					return ls.owner == s
				}
				q := c.waitq[key]
				return len(q) == 0 || q[0] == s
			})
		} else {
			select {
			case <-ch:
			case <-ctx.Done():
				c.mu.Lock()
				s.waitingKey = ""
				c.dequeueLocked(s, key)
				c.mu.Unlock()
				return ctx.Err()
			}
		}
	}
}

// ---------------------------------------------------------------------------
// transaction end

func (c *Cluster) commitLocked(ctx context.Context, s *Session) {
	t := s.txn
	if t == nil {
		return
	}
	for _, p := range t.publish {
		p()
	}
	c.endTxnLocked(s, t)
	c.stats.commits++
	if c.OnCommit != nil {
		var names []string
		for n := range t.ledgers {
			names = append(names, n)
		}
		sort.Strings(names)
		for _, n := range names {
			c.OnCommit(c, n)
		}
	}
}

func (c *Cluster) rollbackLocked(s *Session) {
	t := s.txn
	if t == nil {
		return
	}
	// undo entries release xact locks themselves; endTxn releases the rest
	t.rollbackToLocked(0, 0)
	c.endTxnLocked(s, t)
	c.stats.rollbacks++
}

func (c *Cluster) endTxnLocked(s *Session, t *Txn) {
	for key := range t.locks {
		delete(t.locks, key)
		if ls := c.locks[key]; ls != nil && ls.owner == s {
			ls.xact = false
			c.maybeFreeLocked(key, ls)
		}
	}
	t.done = true
	s.txn = nil
	s.waitingKey = ""
	c.broadcastLocked()
}

func (c *Cluster) String() string { return fmt.Sprintf("cluster(%d ledgers)", len(c.data)) }


// IsolationAsked returns the isolation levels other than default / READ COMMITTED that store
// transactions were opened with (level name -> count). memstore does not model them.
func (c *Cluster) IsolationAsked() map[string]int {
	c.mu.Lock()
	defer c.mu.Unlock()
	ret := map[string]int{}
	for k, v := range c.isolationAsked {
		ret[k] = v
	}
	return ret
}
