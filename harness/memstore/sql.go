package memstore

import (
	"context"
	"database/sql/driver"
	"encoding/json"
	"errors"
	"fmt"
	"regexp"
	"strconv"
	"strings"

	ledger "github.com/formancehq/ledger/internal"

	"github.com/formancehq/ledger/verifharness/microsql"
	"github.com/formancehq/ledger/verifharness/pgshim"
)

// handleSQL is the pgshim handler of the cluster's bun.DB. It understands:
//   - transaction control: BEGIN/COMMIT/ROLLBACK (driver level), SAVEPOINT /
//     RELEASE SAVEPOINT / ROLLBACK TO SAVEPOINT (what bun emits for nested Tx);
//   - pg_advisory_lock / pg_advisory_unlock / pg_advisory_xact_lock(hashtext('...'));
//   - the four statements the ledger state tracker issues directly;
//   - the SELECT wrappers the real storage/common repository builds around a
//     memstore snapshot ("mem"."snap_<n>"), evaluated by microsql.
// Anything else is an SQL error (42601), which the real code sees as a failed statement.
func (c *Cluster) handleSQL(ctx context.Context, conn *pgshim.Conn, kind, q string) (*pgshim.Rows, error) {
	sess, _ := conn.Data.(*Session)
	if sess == nil {
		if s, ok := ctx.Value(ctxSession).(*Session); ok && s != nil {
			sess = s
			conn.Data = s
		}
	}
	switch kind {
	case pgshim.KClose:
		return nil, nil
	case pgshim.KBegin:
		if sess == nil {
			c.mu.Lock()
			sess = c.newSession(ctx)
			c.mu.Unlock()
			conn.Data = sess
		}
		c.mu.Lock()
		if sess.txn != nil {
			c.mu.Unlock()
			return nil, pgErr("25001", "there is already a transaction in progress", "")
		}
		c.beginLocked(sess)
		c.mu.Unlock()
		c.emit(ctx, sess, "begin", "", "", "")
		return nil, nil
	case pgshim.KCommit:
		if sess == nil || sess.txn == nil {
			return nil, nil
		}
		if c.Sched != nil {
			c.Sched.Yield(ctx, "sql:COMMIT")
		}
		defer func() {
			if conn.Data == sess && !c.sessionHoldsLocks(sess) {
				conn.Data = nil
			}
		}()
		if c.CommitFault != nil {
			if err := c.CommitFault(ctx); err != nil {
				c.mu.Lock()
				c.rollbackLocked(sess)
				c.mu.Unlock()
				c.emit(ctx, sess, "commit-failed", "", "", err.Error())
				return nil, err
			}
		}
		c.mu.Lock()
		if sess.txn.aborted {
			c.rollbackLocked(sess)
			c.mu.Unlock()
			c.emit(ctx, sess, "commit-failed", "", "", "aborted")
			return nil, errors.New("commit unexpectedly resulted in rollback")
		}
		var names []string
		for n := range sess.txn.ledgers {
			names = append(names, n)
		}
		c.commitLocked(ctx, sess)
		c.mu.Unlock()
		c.emit(ctx, sess, "commit", "", strings.Join(names, ","), "")
		return nil, nil
	case pgshim.KRollback:
		if sess == nil || sess.txn == nil {
			return nil, nil
		}
		c.mu.Lock()
		c.rollbackLocked(sess)
		c.mu.Unlock()
		c.emit(ctx, sess, "rollback", "", "", "")
		if conn.Data == sess && !c.sessionHoldsLocks(sess) {
			conn.Data = nil
		}
		return nil, nil
	}

	trim := strings.TrimSpace(q)
	up := strings.ToUpper(trim)
	switch {
	case strings.HasPrefix(up, "SAVEPOINT "):
		if sess == nil || sess.txn == nil {
			return nil, pgErr("25P01", "SAVEPOINT can only be used in transaction blocks", "")
		}
		c.mu.Lock()
		defer c.mu.Unlock()
		if sess.txn.aborted {
			return nil, errAborted
		}
		t := sess.txn
		t.savepoints = append(t.savepoints, savepoint{name: strings.TrimSpace(trim[len("SAVEPOINT "):]), undoLen: len(t.undo), pubLen: len(t.publish)})
		return nil, nil
	case strings.HasPrefix(up, "RELEASE SAVEPOINT "):
		if sess == nil || sess.txn == nil {
			return nil, pgErr("25P01", "RELEASE SAVEPOINT can only be used in transaction blocks", "")
		}
		if c.Hook != nil {
			if err := c.Hook(ctx, "sql:RELEASE SAVEPOINT"); err != nil {
				c.mu.Lock()
				sess.txn.aborted = true
				c.mu.Unlock()
				return nil, err
			}
		}
		name := strings.TrimSpace(trim[len("RELEASE SAVEPOINT "):])
		c.mu.Lock()
		defer c.mu.Unlock()
		t := sess.txn
		if t.aborted {
			return nil, errAborted
		}
		for i := len(t.savepoints) - 1; i >= 0; i-- {
			if t.savepoints[i].name == name {
				t.savepoints = t.savepoints[:i]
				return nil, nil
			}
		}
		t.aborted = true
		return nil, pgErr("3B001", "savepoint does not exist", "")
	case strings.HasPrefix(up, "ROLLBACK TO SAVEPOINT "):
		if sess == nil || sess.txn == nil {
			return nil, pgErr("25P01", "ROLLBACK TO SAVEPOINT can only be used in transaction blocks", "")
		}
		name := strings.TrimSpace(trim[len("ROLLBACK TO SAVEPOINT "):])
		c.mu.Lock()
		defer c.mu.Unlock()
		t := sess.txn
		for i := len(t.savepoints) - 1; i >= 0; i-- {
			if t.savepoints[i].name == name {
				sp := t.savepoints[i]
				t.rollbackToLocked(sp.undoLen, sp.pubLen)
				t.savepoints = t.savepoints[:i+1] // the savepoint itself survives
				t.aborted = false
				c.broadcastLocked()
				return nil, nil
			}
		}
		// an error inside a transaction block aborts it (bun sends ROLLBACK TO SAVEPOINT for Rollback() of a
		// nested Tx even when that savepoint was already released by its Commit())
		t.aborted = true
		return nil, pgErr("3B001", "savepoint \""+name+"\" does not exist", "")
	}

	if m := reAdvisory.FindStringSubmatch(trim); m != nil {
		return c.advisory(ctx, conn, sess, strings.ToLower(m[1]), m[2])
	}

	// statements below run inside the session's transaction (or autocommit)
	if sess != nil && sess.txn != nil && sess.txn.aborted {
		return nil, errAborted
	}
	if strings.Contains(trim, `"mem"."snap_`) {
		return c.execSnapshotQuery(trim)
	}
	if c.Hook != nil { // the state tracker's direct statements are fault sites too
		site := "sql:other"
		switch {
		case reUpdateState.MatchString(trim):
			site = "sql:UPDATE _system.ledgers"
		case reSelectLedger.MatchString(trim):
			site = "sql:SELECT _system.ledgers"
		case strings.Contains(trim, "setval"):
			site = "sql:setval"
		}
		c.mu.Lock()
		c.stats.calls++
		c.mu.Unlock()
		if err := c.Hook(ctx, site); err != nil {
			if sess != nil && sess.txn != nil {
				c.mu.Lock()
				sess.txn.aborted = true
				c.mu.Unlock()
			}
			return nil, err
		}
	}
	if m := reUpdateState.FindStringSubmatch(trim); m != nil {
		return c.sqlUpdateLedgerState(ctx, sess, m)
	}
	if m := reSetval.FindStringSubmatch(collapse(trim)); m != nil {
		return c.sqlSetval(sess, m)
	}
	if m := reSelectLedger.FindStringSubmatch(trim); m != nil {
		return c.sqlSelectLedger(sess, m)
	}
	if sess != nil && sess.txn != nil {
		c.mu.Lock()
		sess.txn.aborted = true
		c.mu.Unlock()
	}
	return nil, pgErr("42601", "memstore: statement outside the modelled family: "+firstN(trim, 200), "")
}

func firstN(s string, n int) string {
	if len(s) > n {
		return s[:n]
	}
	return s
}

func collapse(s string) string { return strings.Join(strings.Fields(s), " ") }

func (c *Cluster) sessionHoldsLocks(s *Session) bool {
	c.mu.Lock()
	defer c.mu.Unlock()
	for _, ls := range c.locks {
		if ls.owner == s && ls.sess > 0 {
			return true
		}
	}
	return false
}

var (
	reAdvisory     = regexp.MustCompile(`(?i)^SELECT (pg_advisory_lock|pg_advisory_unlock|pg_advisory_xact_lock)\(hashtext\('((?:[^']|'')*)'\)\)$`)
	reUpdateState  = regexp.MustCompile(`(?is)^UPDATE "_system"\."ledgers" AS "ledgers" SET state = '([^']*)' WHERE \(id = (\d+) and state = '([^']*)'\)$`)
	reSetval       = regexp.MustCompile(`(?i)^select setval\( '"([^"]+)"\."(transaction_id|log_id)_(\d+)"', \( select max\(id\) from "([^"]+)"\.(transactions|logs) where ledger = '((?:[^']|'')*)' \)::bigint \)$`)
	reSelectLedger = regexp.MustCompile(`(?is)^SELECT (.*) FROM "_system"\."ledgers" AS "ledgers" WHERE \(id = (\d+)\)$`)
)

func (c *Cluster) advisory(ctx context.Context, conn *pgshim.Conn, sess *Session, fn, key string) (*pgshim.Rows, error) {
	if sess == nil {
		c.mu.Lock()
		sess = c.newSession(ctx)
		c.mu.Unlock()
		conn.Data = sess
	}
	lk := "advisory|" + key
	switch fn {
	case "pg_advisory_lock":
		if err := c.lock(ctx, sess, lk, "LockLedger:session", false); err != nil {
			return nil, err
		}
		c.emit(ctx, sess, "advisory-lock", "session", "", key)
	case "pg_advisory_xact_lock":
		if sess.txn == nil {
			return nil, nil // autocommit: released immediately
		}
		if sess.txn.aborted {
			return nil, errAborted
		}
		if err := c.lock(ctx, sess, lk, "LockLedger:xact", true); err != nil {
			c.mu.Lock()
			sess.txn.aborted = true
			c.mu.Unlock()
			return nil, err
		}
		c.emit(ctx, sess, "advisory-lock", "xact", "", key)
	case "pg_advisory_unlock":
		c.mu.Lock()
		c.sessionUnlockLocked(sess, lk)
		c.mu.Unlock()
		c.emit(ctx, sess, "advisory-unlock", "session", "", key)
		if sess.txn == nil && !c.sessionHoldsLocks(sess) {
			conn.Data = nil
		}
	}
	return &pgshim.Rows{Cols: []string{fn}, Data: [][]driver.Value{{""}}}, nil
}

func (c *Cluster) sysLedgerByID(id int) *vrow[ledger.Ledger] {
	for _, r := range c.sysLedgers {
		if r.committed != nil && r.committed.ID == id {
			return r
		}
		if r.pending != nil && r.pending.ID == id {
			return r
		}
	}
	return nil
}

// UPDATE _system.ledgers SET state = ? WHERE (id = ? and state = ?)
func (c *Cluster) sqlUpdateLedgerState(ctx context.Context, sess *Session, m []string) (*pgshim.Rows, error) {
	newState, idS, oldState := m[1], m[2], m[3]
	id, _ := strconv.Atoi(idS)
	auto := false
	c.mu.Lock()
	if sess == nil {
		sess = c.newSession(ctx)
	}
	if sess.txn == nil {
		c.beginLocked(sess)
		auto = true
	}
	row := c.sysLedgerByID(id)
	c.mu.Unlock()
	finish := func(err error) {
		if auto {
			c.mu.Lock()
			if err != nil {
				c.rollbackLocked(sess)
			} else {
				c.commitLocked(ctx, sess)
			}
			c.mu.Unlock()
		} else if err != nil {
			c.mu.Lock()
			sess.txn.aborted = true
			c.mu.Unlock()
		}
	}
	if row == nil || row.committed == nil && !(row.pendingBy == sess.txn && row.pending != nil) {
		finish(nil)
		return &pgshim.Rows{Affected: 0}, nil
	}
	// snapshot pre-check: a row that does not match is not locked
	c.mu.Lock()
	cur := row.view(sess.txn)
	c.mu.Unlock()
	if cur == nil || cur.State != oldState {
		finish(nil)
		return &pgshim.Rows{Affected: 0}, nil
	}
	if err := c.lock(ctx, sess, fmt.Sprintf("sysledger|%d", id), "sql:UPDATE _system.ledgers", true); err != nil {
		finish(err)
		return nil, err
	}
	c.mu.Lock()
	cur = row.view(sess.txn)
	var affected int64
	if cur != nil && cur.State == oldState { // re-evaluated after the lock wait (READ COMMITTED)
		nv := *cur
		nv.State = newState
		setPending(sess.txn, row, &nv)
		affected = 1
	}
	c.mu.Unlock()
	finish(nil)
	c.emit(ctx, sess, "sql", "UPDATE _system.ledgers", "", fmt.Sprintf("id=%d %s->%s affected=%d", id, oldState, newState, affected))
	return &pgshim.Rows{Affected: affected}, nil
}

// select setval('"bucket"."transaction_id_N"', (select max(id) from "bucket".transactions where ledger = 'name')::bigint)
func (c *Cluster) sqlSetval(sess *Session, m []string) (*pgshim.Rows, error) {
	seqKind, idS, table, name := m[2], m[3], m[5], strings.ReplaceAll(m[6], "''", "'")
	id, _ := strconv.Atoi(idS)
	c.mu.Lock()
	defer c.mu.Unlock()
	var t *Txn
	if sess != nil {
		t = sess.txn
	}
	d := c.data[name]
	var target *LedgerData
	for n, r := range c.sysLedgers {
		l := r.view(t)
		if l == nil {
			l = r.committed
		}
		if l != nil && l.ID == id {
			target = c.data[n]
		}
	}
	if target == nil {
		return nil, pgErr("42P01", "relation for sequence does not exist", "")
	}
	var max uint64
	found := false
	if d != nil {
		if table == "transactions" {
			for tid, r := range d.txs {
				if r.view(t) != nil && (!found || tid > max) {
					max, found = tid, true
				}
			}
		} else {
			for lid, r := range d.logs {
				if r.view(t) != nil && (!found || lid > max) {
					max, found = lid, true
				}
			}
		}
	}
	if !found {
		// setval(seq, NULL) returns NULL and leaves the sequence untouched
		return &pgshim.Rows{Cols: []string{"setval"}, Data: [][]driver.Value{{nil}}}, nil
	}
	if (seqKind == "transaction_id") != (table == "transactions") {
		// still executed as written
	}
	if seqKind == "transaction_id" {
		target.seqTx = max
	} else {
		target.seqLog = max
	}
	return &pgshim.Rows{Cols: []string{"setval"}, Data: [][]driver.Value{{int64(max)}}}, nil
}

// SELECT <cols> FROM _system.ledgers WHERE (id = ?)
func (c *Cluster) sqlSelectLedger(sess *Session, m []string) (*pgshim.Rows, error) {
	id, _ := strconv.Atoi(m[2])
	c.mu.Lock()
	defer c.mu.Unlock()
	var t *Txn
	if sess != nil {
		t = sess.txn
	}
	row := c.sysLedgerByID(id)
	var l *ledger.Ledger
	if row != nil {
		l = row.view(t)
	}
	colRe := regexp.MustCompile(`"ledgers"\."([a-z_]+)"`)
	var cols []string
	for _, cm := range colRe.FindAllStringSubmatch(m[1], -1) {
		cols = append(cols, cm[1])
	}
	if len(cols) == 0 {
		return nil, pgErr("42601", "memstore: unsupported ledger projection", "")
	}
	res := &pgshim.Rows{Cols: cols}
	if l == nil {
		return res, nil
	}
	var vals []driver.Value
	for _, col := range cols {
		switch col {
		case "bucket":
			vals = append(vals, l.Bucket)
		case "metadata":
			b, _ := json.Marshal(l.Metadata)
			if l.Metadata == nil {
				vals = append(vals, nil)
			} else {
				vals = append(vals, b)
			}
		case "features":
			b, _ := json.Marshal(l.Features)
			vals = append(vals, b)
		case "id":
			vals = append(vals, int64(l.ID))
		case "name":
			vals = append(vals, l.Name)
		case "added_at":
			vals = append(vals, l.AddedAt.Time)
		case "state":
			vals = append(vals, l.State)
		case "deleted_at":
			if l.DeletedAt == nil {
				vals = append(vals, nil)
			} else {
				vals = append(vals, l.DeletedAt.Time)
			}
		default:
			return nil, pgErr("42703", "memstore: unknown ledgers column "+col, "")
		}
	}
	res.Data = append(res.Data, vals)
	return res, nil
}

// ---- snapshot registry for microsql ----

func (c *Cluster) execSnapshotQuery(q string) (*pgshim.Rows, error) {
	res, err := microsql.Exec(q, func(schema, name string) *microsql.Table {
		if schema != "mem" {
			return nil
		}
		v, ok := snapshots.Load(name)
		if !ok {
			return nil
		}
		return v.(*snapshot).table
	})
	if err != nil {
		if errors.Is(err, microsql.ErrUnsupported) {
			return nil, pgErr("42601", err.Error(), "")
		}
		return nil, pgErr("22P02", err.Error(), "")
	}
	if res.Count != nil {
		return &pgshim.Rows{Cols: []string{"count"}, Data: [][]driver.Value{{*res.Count}}}, nil
	}
	out := &pgshim.Rows{}
	var keep []int
	for i, col := range res.Table.Cols {
		if strings.HasSuffix(col.Name, "__") { // harness-private columns never leave
			continue
		}
		keep = append(keep, i)
		out.Cols = append(out.Cols, col.Name)
	}
	for _, r := range res.RowIdx {
		vals := make([]driver.Value, 0, len(keep))
		for _, i := range keep {
			vals = append(vals, toDriver(r[i]))
		}
		out.Data = append(out.Data, vals)
	}
	return out, nil
}
